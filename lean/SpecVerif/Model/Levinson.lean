import SpecVerif.Model.Basic
/-
  levinson.py (`LEVINSON`, `levup`, `levdown`, `rlevinson`), linear_prediction.py (ac/poly/rc
  conversions) and toeplitz.py (`HERMTOEP`, `TOEPLITZ`).

  Coefficient lists never carry the leading 1 of the prediction polynomial inside the model; the
  driver adds / strips it where the Python API does.
-/
namespace SpecVerif
variable {K : Type} [Add K] [Sub K] [Mul K] [Div K] [Neg K] [OfNat K 0] [OfNat K 1] [NatCast K]
  [Conj K]

/-- step-up (`levup` without the leading 1): order `m` → order `m+1` with reflection coefficient `k` -/
def levup (a : List K) (k : K) : List K :=
  vec (a.length + 1) (fun j =>
    if j < a.length then nth a j + k * conj (nth a (a.length - 1 - j)) else k)

/-- step-down (`levdown` without the leading 1): order `m+1` → order `m` -/
def levdown (b : List K) : List K :=
  let m := b.length - 1
  let k := nth b m
  vec m (fun j => (nth b j - k * conj (nth b (m - 1 - j))) / (1 - abs2 k))

structure LevState (K : Type) where
  A : List K
  P : K
  ref : List K

/-- one stage of `LEVINSON` (`T = r[1:]`), before the singularity test -/
def levStep (T : List K) (s : LevState K) (k : Nat) : LevState K :=
  let save := nth T k + sumR k (fun j => nth s.A j * nth T (k - j - 1))
  let temp := -save / s.P
  { A := levup s.A temp, P := s.P * (1 - abs2 temp), ref := s.ref ++ [temp] }

/-- the state after `k` stages -/
def levRun (r0 : K) (T : List K) : Nat → LevState K
  | 0 => { A := [], P := r0, ref := [] }
  | k + 1 => levStep T (levRun r0 T k) k

/-- `LEVINSON(r, order, allow_singularity)`; `r0` is `real(r[0])`.  Raises at the first stage whose
    error is `≤ 0` unless singularity is allowed. -/
def levinson [ReOrd K] (r0 : K) (T : List K) (order : Nat) (allow : Bool) :
    Except String (LevState K) :=
  if order > T.length then .error "assert"
  else if !allow && (List.range order).any (fun j => reLe0 (levRun r0 T (j + 1)).P) then
    .error "value"
  else .ok (levRun r0 T order)

/-- `rc2poly(kr, r0)`: repeated step-up; returns the polynomial (no leading 1) and the final error -/
def rc2poly (kr : List K) (r0 : K) : List K × K :=
  kr.foldl (fun (ae : List K × K) k => (levup ae.1 k, (1 - conj k * k) * ae.2)) ([], r0)

/-- all the lower-order polynomials of `a` (order `p`): `[a_p, a_{p-1}, …, a_1]` -/
def stepDowns (a : List K) : Nat → List (List K)
  | 0 => []
  | n + 1 => a :: stepDowns (levdown a) n

/-- reflection coefficients read off the step-down recursion (`poly2rc`): `k_m` = last of `a_m` -/
def poly2rc (a : List K) : List K :=
  ((stepDowns a a.length).map (fun b => nth b (b.length - 1))).reverse

/-- prediction errors `E_1..E_p` of the lower orders given the final error (`rlevinson`'s `e`) -/
def stepDownErrs (a : List K) (efinal : K) : Nat → List K
  | 0 => []
  | n + 1 =>
    let k := nth a (a.length - 1)
    efinal :: stepDownErrs (levdown a) (efinal / (1 - conj k * k)) n

/-- `rlevinson(a, efinal)[0]` = `poly2ac`: autocorrelation lags `R_0..R_p` -/
def poly2ac (a : List K) (efinal : K) : List K :=
  let p := a.length
  let polys := (stepDowns a p).reverse          -- a_1 .. a_p
  let errs := (stepDownErrs a efinal p).reverse -- E_1 .. E_p
  let k1 := nth (polys.getD 0 []) 0
  let e0 := nth errs 0 / (1 - abs2 k1)
  -- R_{m+1} = -Σ_{i=1..m} a_m[i] R_{m+1-i} - k_{m+1} E_m ,  R_1 = -k_1 R_0
  let R := (List.range p).foldl (fun (R : List K) m =>
      if m = 0 then R ++ [-k1 * e0]
      else
        let am := polys.getD (m - 1) []
        let kn := nth (polys.getD m []) m
        R ++ [-(sumR m (fun i => nth am i * nth R (m - i))) - kn * nth errs (m - 1)]) [e0]
  R

/-- `rc2ac(k, R0)` -/
def rc2ac (k : List K) (r0 : K) : List K :=
  let ae := rc2poly k r0
  poly2ac ae.1 ae.2

/-! ### Hermitian Toeplitz and general Toeplitz solvers -/

structure HtState (K : Type) where
  A : List K
  P : K
  X : List K

def hermStep (T Z : List K) (s : HtState K) (k : Nat) : HtState K :=
  let save := nth T k + sumR k (fun j => nth s.A j * nth T (k - j - 1))
  let beta := nth s.X 0 * nth T k + sumR k (fun j => nth s.X (j + 1) * nth T (k - j - 1))
  let temp := -save / s.P
  let P' := s.P * (1 - abs2 temp)
  let alpha := (nth Z (k + 1) - beta) / P'
  let A' := levup s.A temp
  { A := A', P := P',
    X := vec (k + 2) (fun j => if j ≤ k then nth s.X j + alpha * conj (nth A' (k - j)) else alpha) }

def hermRun (T0 : K) (T Z : List K) : Nat → HtState K
  | 0 => { A := [], P := T0, X := [nth Z 0 / T0] }
  | k + 1 => hermStep T Z (hermRun T0 T Z k) k

/-- `HERMTOEP(T0, T, Z)` -/
def hermtoep [ReOrd K] (T0 : K) (T Z : List K) : Except String (List K) :=
  let M := T.length
  if M = 0 then .error "assert"
  else if (List.range M).any (fun j => reLe0 (hermRun T0 T Z (j + 1)).P) then .error "value"
  else .ok (hermRun T0 T Z M).X

structure TpState (K : Type) where
  A : List K
  B : List K
  P : K
  X : List K

def toepStep (TC TR Z : List K) (s : TpState K) (k : Nat) : TpState K :=
  let save1 := nth TC k + sumR k (fun j => nth s.A j * nth TC (k - j - 1))
  let save2 := nth TR k + sumR k (fun j => nth s.B j * nth TR (k - j - 1))
  let beta := nth s.X 0 * nth TC k + sumR k (fun j => nth s.X (j + 1) * nth TC (k - j - 1))
  let t1 := -save1 / s.P
  let t2 := -save2 / s.P
  let P' := s.P * (1 - t1 * t2)
  let alpha := (nth Z (k + 1) - beta) / P'
  let A' := vec (k + 1) (fun j => if j < k then nth s.A j + t1 * nth s.B (k - 1 - j) else t1)
  let B' := vec (k + 1) (fun j => if j < k then nth s.B j + t2 * nth s.A (k - 1 - j) else t2)
  { A := A', B := B', P := P',
    X := vec (k + 2) (fun j => if j ≤ k then nth s.X j + alpha * nth B' (k - j) else alpha) }

def toepRun (T0 : K) (TC TR Z : List K) : Nat → TpState K
  | 0 => { A := [], B := [], P := T0, X := [nth Z 0 / T0] }
  | k + 1 => toepStep TC TR Z (toepRun T0 TC TR Z k) k

/-- `TOEPLITZ(T0, TC, TR, Z)`: a general Toeplitz system need not be positive definite; the code raises when `T0` or a
    later stage variable `P` is exactly zero -/
def toeplitz [IsZero K] (T0 : K) (TC TR Z : List K) : Except String (List K) :=
  let M := TC.length
  if M = 0 || TR.length ≠ M then .error "assert"
  else if isZero T0 then .error "value"
  else if (List.range M).any (fun j => isZero (toepRun T0 TC TR Z (j + 1)).P) then .error "value"
  else .ok (toepRun T0 TC TR Z M).X

end SpecVerif
