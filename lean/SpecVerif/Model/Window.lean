import SpecVerif.Model.RealFn
/-
  window.py: closed forms of every window generator, the `enbw` function and the name table.

  `numpy.hamming/hanning/bartlett/kaiser` are modelled by their documented closed forms (the modified Bessel
  function `I₀` by its power series); `scipy.signal.windows.chebwin` is a parameter (no closed form here).
-/
namespace SpecVerif
open RealFn

section
variable {R : Type} [Add R] [Sub R] [Mul R] [Div R] [Neg R] [OfNat R 0] [OfNat R 1] [NatCast R] [RealFn R]

def two : R := ((2 : Nat) : R)

/-- `numpy.linspace(a, b, N)[n]` -/
def linspace (a b : R) (N n : Nat) : R :=
  if N ≤ 1 then a else a + (n : R) * ((b - a) / ((N - 1 : Nat) : R))

/-- `a0 - a1 cos x + a2 cos 2x - a3 cos 3x + a4 cos 4x` -/
def cosSum (a0 a1 a2 a3 a4 x : R) : R :=
  a0 - a1 * cos x + a2 * cos (two * x) - a3 * cos (((3 : Nat) : R) * x) + a4 * cos (((4 : Nat) : R) * x)

/-- angle `2π n/(N-1)` of the symmetric cosine-sum windows -/
def theta (N n : Nat) : R := two * pi * (n : R) / ((N - 1 : Nat) : R)

/-- decimal literal `m / 10^d` -/
def dec (m d : Nat) : R := (m : R) / ((10 ^ d : Nat) : R)

def wRectangle (N : Nat) : List R := vec N (fun _ => 1)

def wHamming (N : Nat) : List R :=
  if N = 1 then [1] else vec N (fun n => dec 54 2 - dec 46 2 * cos (theta N n))

def wHann (N : Nat) : List R :=
  if N = 1 then [1] else vec N (fun n => dec 5 1 - dec 5 1 * cos (theta N n))

/-- `numpy.bartlett`: `1 - |2n/(N-1) - 1|` -/
def wBartlett (N : Nat) : List R :=
  if N = 1 then [1] else vec N (fun n => 1 - abs (two * (n : R) / ((N - 1 : Nat) : R) - 1))

def wBlackman (N : Nat) (alpha : R) : List R :=
  if N = 1 then [1] else
  vec N (fun n => (1 - alpha) / two - dec 5 1 * cos (theta N n) + alpha / two * cos (two * theta N n))

def wCoeff4 (N : Nat) (a0 a1 a2 a3 : R) : List R :=
  if N = 1 then [1] else vec N (fun n => cosSum a0 a1 a2 a3 0 (theta N n))

def wNuttall (N : Nat) : List R := wCoeff4 N (dec 355768 6) (dec 487396 6) (dec 144232 6) (dec 12604 6)
def wBlackmanNuttall (N : Nat) : List R := wCoeff4 N (dec 3635819 7) (dec 4891775 7) (dec 1365995 7) (dec 106411 7)
def wBlackmanHarris (N : Nat) : List R := wCoeff4 N (dec 35875 5) (dec 48829 5) (dec 14128 5) (dec 1168 5)

def wFlattop (N : Nat) (periodic : Bool) : List R :=
  if !periodic ∧ N = 1 then [1] else
  vec N (fun n =>
    let x : R := if periodic then two * pi * (n : R) / (N : R) else theta N n
    cosSum (dec 21557895 8) (dec 41663158 8) (dec 277263158 9) (dec 83578947 9) (dec 6947368 9) x)

def wBartlettHann (N : Nat) : List R :=
  if N = 1 then [1] else
  vec N (fun n => dec 62 2 - dec 48 2 * abs ((n : R) / ((N - 1 : Nat) : R) - dec 5 1) - dec 38 2 * cos (theta N n))

def wCosine (N : Nat) : List R :=
  if N = 1 then [1] else vec N (fun n => sin (pi * (n : R) / ((N - 1 : Nat) : R)))

/-- centred abscissa `linspace(-N/2, N/2, N)[n]` used by lanczos/riesz/riemann/poisson/cauchy -/
def tHalf (N n : Nat) : R := linspace (-((N : R) / two)) ((N : R) / two) N n

def wLanczos (N : Nat) : List R :=
  if N = 1 then [1] else vec N (fun n => sinc (two * tHalf N n / ((N - 1 : Nat) : R)))

def wGaussian (N : Nat) (alpha : R) : List R :=
  vec N (fun n =>
    let t := linspace (-(((N - 1 : Nat) : R) / two)) (((N - 1 : Nat) : R) / two) N n
    let u := alpha * t / ((N : R) / two)
    exp (-(dec 5 1) * (u * u)))

def wBohman (N : Nat) : List R :=
  vec N (fun n =>
    let x := abs (linspace (-1) 1 N n)
    (1 - x) * cos (pi * x) + 1 / pi * sin (pi * x))

def wRiesz (N : Nat) : List R :=
  vec N (fun n => let u := abs (tHalf N n / ((N : R) / two)); 1 - u * u)

def wRiemann (N : Nat) : List R := vec N (fun n => sinc (tHalf N n / (N : R) * two))

def wPoisson (N : Nat) (alpha : R) : List R :=
  vec N (fun n => exp (-alpha * abs (tHalf N n) / ((N : R) / two)))

def wPoissonHanning (N : Nat) (alpha : R) : List R :=
  let h := wHann (R := R) N
  let p := wPoisson N alpha
  vec N (fun n => h.getD n 0 * p.getD n 0)

def wCauchy (N : Nat) (alpha : R) : List R :=
  vec N (fun n => let u := alpha * tHalf N n / ((N : R) / two); 1 / (1 + u * u))

/-- Parzen: inner cubic for `|t| ≤ (N-1)/4`, outer cubic elsewhere -/
def wParzen (N : Nat) : List R :=
  vec N (fun n =>
    let t := linspace (-(((N - 1 : Nat) : R) / two)) (((N - 1 : Nat) : R) / two) N n
    let u := abs t / ((N : R) / two)
    if lt (((N - 1 : Nat) : R) / ((4 : Nat) : R)) (abs t) then two * ((1 - u) * (1 - u) * (1 - u))
    else 1 - ((6 : Nat) : R) * (u * u) + ((6 : Nat) : R) * (u * u * u))

/-- Tukey: cosine lobes on the `L` samples with `x < r/2`, ones in between, mirrored on the right -/
def wTukey (N : Nat) (r : R) (rIsZero rIsOne : Bool) : List R :=
  if N = 1 then [1]
  else if rIsZero then vec N (fun _ => 1)
  else if rIsOne then wHann N
  else
    let x := fun n => linspace (0 : R) 1 N n
    let L := ((List.range N).filter (fun n => lt (x n) (r / two))).length
    let lobe := fun n => dec 5 1 * (1 + cos (two * pi / r * (x n - r / two)))
    vec N (fun n => if n < L then lobe n else if N - L ≤ n then lobe (N - 1 - n) else 1)

/-- modified Bessel function `I₀` by its power series (60 terms) -/
def besselI0 (x : R) : R :=
  let q := x * x / ((4 : Nat) : R)
  ((List.range 60).foldl (fun (acc : R × R) k =>
      let term := acc.2 * q / ((((k + 1) * (k + 1) : Nat)) : R)
      (acc.1 + term, term)) ((1 : R), (1 : R))).1

/-- `numpy.kaiser(N, beta)`: `I₀(β sqrt(1 - (2n/(N-1) - 1)²)) / I₀(β)` -/
def wKaiser (N : Nat) (beta : R) : List R :=
  if N = 1 then [1] else
  vec N (fun n =>
    let u := two * (n : R) / ((N - 1 : Nat) : R) - 1
    besselI0 (beta * sqrt (1 - u * u)) / besselI0 beta)

/-- Taylor window as written in the code (`nbar` an integer, `sll` in dB) -/
def wTaylor (N nbar : Nat) (sll : R) : List R :=
  let B := exp (log ((10 : Nat) : R) * (-sll / ((20 : Nat) : R)))
  let A := log (B + sqrt (B * B - 1)) / pi
  let nb : R := (nbar : R)
  let s2 := nb * nb / (A * A + (nb - dec 5 1) * (nb - dec 5 1))
  let ma : List Nat := (List.range (nbar - 1)).map (fun i => i + 1)
  let Fm := fun (m : Nat) =>
    let mm : R := (m : R)
    let numer := (if (m + 1) % 2 = 0 then (1 : R) else -1) *
      ma.foldl (fun (acc : R) (j : Nat) => acc * (1 - mm * mm / s2 / (A * A + ((j : R) - dec 5 1) * ((j : R) - dec 5 1)))) 1
    let denom := two * ma.foldl (fun (acc : R) (j : Nat) => if j = m then acc else acc * (1 - mm * mm / ((j : R) * (j : R)))) 1
    numer / denom
  let W := fun (x : R) =>
    two * ma.foldl (fun (acc : R) (m : Nat) => acc + Fm m * cos (two * pi * (m : R) * (x - (N : R) / two + dec 5 1) / (N : R))) 0 + 1
  let scale := W (((N - 1 : Nat) : R) / two)
  vec N (fun n => W (n : R) / scale)

/-- `enbw(data) = N Σw² / (Σw)²` -/
def enbw (w : List R) : R :=
  let s2 := sumR w.length (fun i => w.getD i 0 * w.getD i 0)
  let s1 := sumR w.length (fun i => w.getD i 0)
  (w.length : R) * s2 / (s1 * s1)

end
end SpecVerif
