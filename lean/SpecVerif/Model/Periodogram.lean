import SpecVerif.Model.DFT
import SpecVerif.Model.Correlation
/-
  periodogram.py (`speriodogram`, 1-D and column-wise 2-D) and correlog.py (`CORRELOGRAMPSD`).
  The window samples are an input: their shape is property C20's business.
-/
namespace SpecVerif
variable {K : Type} [Add K] [Sub K] [Mul K] [Div K] [OfNat K 0] [OfNat K 1] [NatCast K] [Conj K]

/-- `speriodogram(x, window, NFFT, detrend=False, scale_by_freq=False)` for 1-D data:
    `|DFT_NFFT(x·w)|²/N`, bins `0..NFFT/2` for real data, all bins otherwise. -/
def speriodogram (tw : List K) (x w : List K) (nfft : Nat) (isReal : Bool) : List K :=
  let xw := vec x.length (fun j => nth x j * nth w j)
  vec (if isReal then nfft / 2 + 1 else nfft)
    (fun k => abs2 (dftBin tw nfft xw k) / (x.length : K))

/-- 2-D input (a list of columns, each of length `r`): the same window on every column. -/
def speriodogram2 (tw : List K) (cols : List (List K)) (w : List K) (nfft : Nat) (isReal : Bool) :
    List (List K) :=
  cols.map (fun c => speriodogram tw c w nfft isReal)

/-- real part, kept in `K` -/
def rePart (z : K) : K := (z + conj z) / ((2 : Nat) : K)

/-- the lag sequence `CORRELOGRAMPSD` hands to the FFT: `r_0`, `r_k w_k` at `k`, `conj(ryx_k) w_k` at
    `NFFT-k` (written last, so it wins where the two halves overlap). `w` has `lag` samples. -/
def correlogramSeq (rxy ryx w : List K) (lag nfft : Nat) : List K :=
  vec nfft (fun i =>
    if i = 0 then nth rxy 0
    else if nfft - lag ≤ i then conj (nth ryx (nfft - i)) * nth w (nfft - i - 1)
    else if i ≤ lag then nth rxy i * nth w (i - 1)
    else 0)

/-- `CORRELOGRAMPSD` given the correlation lags `0..lag` (both back-ends compute the same lags) -/
def correlogramPsd (tw : List K) (rxy ryx w : List K) (lag nfft : Nat) : List K :=
  let s := correlogramSeq rxy ryx w lag nfft
  vec nfft (fun k => rePart (dftBin tw nfft s k))

/-- `CORRELOGRAMPSD(X, Y, lag, window, norm, NFFT)` from the data (auto: `y = x`) -/
def correlogram (tw : List K) (x y w : List K) (lag nfft : Nat) (norm : Norm) (rms2 : K) : List K :=
  let rxy := correlation x y lag norm rms2
  let ryx := correlation y x lag norm rms2
  correlogramPsd tw rxy ryx w lag nfft

end SpecVerif
