import SpecVerif.Model.Arma
import SpecVerif.Model.Burg
/-
  minvar.py `minvar(X, order, sampling, NFFT)`: Burg model of order `m-1`, Musicus' ψ sequence, FFT,
  `sampling / Re(·)`; returns the PSD, the AR vector with its leading 1 and the reflection coefficients.
-/
namespace SpecVerif
variable {K : Type} [Add K] [Sub K] [Mul K] [Div K] [Neg K] [OfNat K 0] [OfNat K 1] [NatCast K]
  [Conj K]

structure MinvarOut (K : Type) where
  psd : List K
  ar : List K      -- `[1, a_1, …, a_{m-1}]`
  ref : List K

/-- `minvar(X, m, sampling, NFFT)` for `m ≥ 1` (`m = 1`: the order-0 model `[1]`, variance `mean|x|²`;
    the Python code rejects the order-0 Burg call, so the API domain is `m ≥ 2`) -/
def minvar (tw : List K) (x : List K) (m : Nat) (sampling : K) (nfft : Nat) : MinvarOut K :=
  let st := burgRun x (m - 1)
  let a := (1 : K) :: st.a
  { psd := minvarPsd tw a st.rho sampling nfft, ar := a, ref := st.ref }

end SpecVerif
