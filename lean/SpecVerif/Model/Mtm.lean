import SpecVerif.Model.DFT
/-
  mtm.py: `pmtm` (eigenspectra and the three weighting schemes) and the `MultiTapering` class mean.
  The Slepian tapers and their eigenvalues are INPUTS here (their shape is property C18's business and the
  eigen-solver is a C routine: a parameter).
-/
namespace SpecVerif
variable {K : Type} [Add K] [Sub K] [Mul K] [Div K] [Neg K] [OfNat K 0] [OfNat K 1] [NatCast K]
  [Conj K]

/-- eigenspectrum of taper `i`: the `nfft`-point DFT of `taper_i · x` -/
def eigenspectrum (tw : List K) (x taper : List K) (nfft : Nat) : List K :=
  let xt := vec x.length (fun j => nth taper j * nth x j)
  vec nfft (dftBin tw nfft xt)

inductive MtMethod | unity | eigen | adapt
deriving DecidableEq, Repr

/-- |z| for a real `z` kept in `K` -/
def absRe [ReOrd K] (z : K) : K := if reLe0 z then -z else z

/-- Thomson's adaptive weights at spectrum value `s`: `λ (s / (λ s + σ²(1-λ)))²` -/
def adaptWeight (lam sig2 s : K) : K :=
  let b := s / (s * lam + sig2 * (1 - lam))
  b * b * lam

structure AdaptState (K : Type) where
  S : List K        -- current spectrum estimate (length nfft)
  S1 : List K       -- previous one
  wk : List (List K) -- weights, one row per frequency, one column per taper
  i : Nat

/-- one pass of the adaptive loop (weights from `S`, new estimate, swap) -/
def adaptStep (Sk : List (List K)) (lams : List K) (sig2 : K) (nfft nwin : Nat) (st : AdaptState K) : AdaptState K :=
  let wk := vec nfft (fun f => vec nwin (fun t => adaptWeight (nth lams t) sig2 (nth st.S f)))
  let S1 := vec nfft (fun f =>
    sumR nwin (fun t => nth (wk.getD f []) t * nth (Sk.getD t []) f) / sumR nwin (fun t => nth (wk.getD f []) t))
  { S := S1, S1 := st.S, wk := wk, i := st.i + 1 }

/-- the CONDITIONAL part of the adaptive iteration: `while Σ|S-S1|/NFFT > tol and i < fuel` (at most `fuel` further
    passes, each made only while the last change of the estimate exceeds `tol`).  The code's loop
    `while (i == 0 or Σ|S-S1|/NFFT > tol) and i < 100` is one unconditional `adaptStep` followed by this loop with
    fuel 99 (see `pmtmWeights`). -/
def adaptLoop [ReOrd K] (Sk : List (List K)) (lams : List K) (sig2 tol : K) (nfft nwin : Nat) :
    Nat → AdaptState K → AdaptState K
  | 0, st => st
  | fuel + 1, st =>
    let d := sumR nfft (fun f => absRe (nth st.S f - nth st.S1 f)) / (nfft : K)
    if reGt d tol then adaptLoop Sk lams sig2 tol nfft nwin fuel (adaptStep Sk lams sig2 nfft nwin st) else st

/-- `pmtm` weights.  unity/eigen: one weight per taper (`nwin × 1`); adapt: `nfft × nwin`.
    `half` and `tolc` are the constants 1/2 and 0.0005 of the code.
    adapt mirrors the repaired loop `while (i == 0 or Σ|S-S1|/NFFT > tol) and i < 100`: the FIRST pass is always made
    (`S1` is still zero there, so the test would compare the initial estimate itself, not a change, with the
    tolerance), the remaining at most 99 passes are made while the estimate still moves by more than `tol`.  Hence
    between 1 and 100 passes, and the returned weights are never the start values (the eigenvalues). -/
def pmtmWeights [ReOrd K] (method : MtMethod) (x : List K) (lams : List K) (SkAbs2 : List (List K))
    (nfft : Nat) (tolc : K) : List (List K) :=
  let nwin := lams.length
  match method with
  | .unity => vec nwin (fun _ => [1])
  | .eigen => vec nwin (fun i => [nth lams i / ((i + 1 : Nat) : K)])
  | .adapt =>
    let N := x.length
    let sig2 := sumR N (fun j => abs2 (nth x j)) / (N : K)
    let S0 := vec nfft (fun f => (nth (SkAbs2.getD 0 []) f + nth (SkAbs2.getD 1 []) f) / ((2 : Nat) : K))
    let st0 : AdaptState K :=
      { S := S0, S1 := vec nfft (fun _ => 0), wk := vec nfft (fun _ => vec nwin (fun t => nth lams t)), i := 0 }
    (adaptLoop SkAbs2 lams sig2 (tolc * sig2 / (nfft : K)) nfft nwin 99 (adaptStep SkAbs2 lams sig2 nfft nwin st0)).wk

/-- `MultiTapering.__call__` before folding/scaling: the mean over tapers of `weight · |eigenspectrum|²` -/
def mtMean (method : MtMethod) (SkAbs2 : List (List K)) (weights : List (List K)) (nfft nwin : Nat) : List K :=
  vec nfft (fun f =>
    sumR nwin (fun t =>
      (match method with
        | .adapt => nth (weights.getD f []) t
        | _ => nth (weights.getD t []) 0) * nth (SkAbs2.getD t []) f) / (nwin : K))

end SpecVerif
