import SpecVerif.Model.Basic
import SpecVerif.Model.LinAlg
import SpecVerif.Model.Periodogram
/-
  covar.py `arcovar_marple(x, order)` and modcovar.py `modcovar_marple(X, IP)`: Marple's fast
  recursions for the covariance / modified covariance least-squares normal equations, TRANSLITERATED
  statement by statement (same order of updates, same intermediate quantities, same association of the
  arithmetic expressions).  The specification-level stand-ins `arcovarMarple` / `modcovarMarple`
  (Model/Estimators.lean: the least-squares solution and the minimum per sample) are kept; the
  statement "recursion = least squares" is NOT proved, it is tested in exact arithmetic
  (`_py/marple_diff.py`) and on concrete instances (`Proofs/C14.lean`).

  Conventions of the transliteration
  * a numpy work array (`np.zeros(N, dtype=complex)`) is a `List K` of length `N`; `a[i] = v` is
    `a.set i v`, a read `a[i]` is `nth a i`.  All indices stay in `0..N-1` when `order ≤ N` (checked
    index by index against the Python text; no Python negative index is ever formed in that range), so
    the totalised out-of-range behaviour of `set` / `nth` is never exercised after the entry guards.
  * `for k in range(0, n)` is `forUp f n` (k = 0, 1, …, n-1), `for k in range(m, -1, -1)` is
    `forDown f (m+1)` (k = m, m-1, …, 0); the loop body is a function of `k` and of the tuple of the
    variables it assigns.  `if m == 0: pass else: for k in range(0, m)` is `forUp … m` (empty for m = 0).
  * real Python variables (`pf`, `pb`, `delta`, `gamma`, `P`, `DELTA`, `GAMMA`, `r1..r5`, `R1..R5`)
    live in `K` like everything else; `z.real**2 + z.imag**2` and `abs(z)**2` are `abs2 z = z·conj z`;
    `np.real(z)` is `rePart z = (z + conj z)/2`; `2.` is `((2:Nat):K)`, `.5` is `1/2`.
  * exits.  The core functions return `Except String _`; the `…Rec` wrappers turn any error into `none`.
      "index"      N = 0: Python raises `IndexError` on `x[0]` / `x[N-1]`
      "assert"     arcovar_marple: `assert len(x) >= order`
      "order>N"    modcovar_marple with IP > N: Python ends in an exception (ValueError on nan/inf
                   DELTA/GAMMA or IndexError `X[N]`), never in a value
      "div0:<q>"   a reciprocal / quotient whose divisor `<q>` is exactly zero.  Python (numpy scalars)
                   does NOT stop there: it produces inf/nan with a RuntimeWarning and carries on (and
                   returns nan coefficients, or — modcovar — raises ValueError at the next range check
                   because every comparison with nan is False).  The model stops at the division.
                   One exception is documented at `covOrderUpdate`: in the LAST order update of
                   arcovar_marple `1/pf`, `1/delta`, `1/gamma` only feed variables that are dead, Python
                   still returns finite (and correct) `af`, `pf` there, and so does the model.
      "value:P'" "value:DG'" "value:P" "value:DG"
                   modcovar_marple's four `raise ValueError` (docstring ISTAT 3/4 resp. 1/2... the
                   docstring numbers are Fortran's; the Python raises instead of returning a status).
    arcovar_marple's four sanity checks are written `ValueError("…")` WITHOUT `raise`: they build an
    exception object and drop it, i.e. they are no-ops.  They are transliterated as no-ops (nothing).
  * `order == 0` / `IP == 0`: Python tests this AFTER the initial divisions by the signal energy; the
    model tests it BEFORE (the result `r0/N` does not use the quotients), so an all-zero record with
    order 0 gives `0` in both (Python: with RuntimeWarnings).
-/
namespace SpecVerif
variable {K : Type} [Add K] [Sub K] [Mul K] [Div K] [Neg K] [OfNat K 0] [OfNat K 1] [NatCast K]
  [Conj K] [IsZero K]

/-- `for k in range(0, n): s = f k s` -/
def forUp {σ : Type} (f : Nat → σ → σ) : Nat → σ → σ
  | 0, s => s
  | n + 1, s => f n (forUp f n s)

/-- `for k in range(n-1, -1, -1): s = f k s` -/
def forDown {σ : Type} (f : Nat → σ → σ) : Nat → σ → σ
  | 0, s => s
  | n + 1, s => forDown f n (f n s)

/-- `1./v` with the exact-zero divisor turned into an explicit exit -/
def recipG (tag : String) (v : K) : Except String K :=
  if isZero v then .error ("div0:" ++ tag) else .ok ((1 : K) / v)

/-- `a / v` with the exact-zero divisor turned into an explicit exit -/
def divG (tag : String) (a v : K) : Except String K :=
  if isZero v then .error ("div0:" ++ tag) else .ok (a / v)

/-- the literal `2.` -/
def two2 : K := ((2 : Nat) : K)
/-- the literal `.5` -/
def half2 : K := (1 : K) / ((2 : Nat) : K)

/-! ### covar.py `arcovar_marple` -/

/-- the mutable variables of `arcovar_marple` that survive an iteration of the main loop -/
structure CovSt (K : Type) where
  af : List K
  ab : List K
  c : List K
  d : List K
  r : List K
  pf : K
  pb : K
  delta : K
  gamma : K

/-- `1./v` whose value is dead when `dead = true` (see `covOrderUpdate`): no exit, the totalised
quotient of `K` is used and contaminates only variables that are never read again -/
def recipD (dead : Bool) (tag : String) (v : K) : Except String K :=
  if dead then .ok ((1 : K) / v) else recipG tag v

/-- first half of the body of the main loop (`m` = loop variable): "Order update: AF and AB vectors;
time update: C and D vectors", up to and including Eq. (8.C.39)/(8.C.40).

Deviation (exits only; `last` is `m == order-1`, the iteration that ends in `break`).  The four
reciprocals are guarded, EXCEPT that in the last iteration `r1 = 1/pf`, `r3 = 1/delta`, `r4 = 1/gamma`
are not: there `r1` feeds only `c2 → ab, pb`, and `r3`, `r4` feed only `c3, c4 → c, d, delta, gamma`;
none of these is read again before `return af, pf, …` (`af[k] = save + c1*ab[m-k-1]` reads `ab[m-k-1]`
before iteration `k` overwrites it, and no other iteration writes that index).  Python (numpy
scalars) computes inf/nan there, gets nan in `ab`, `pb`, `c`, `d` and still returns the finite,
correct `af`, `pf`; the model does the same with the totalised quotient of `K`.  This matters: data
whose samples `x[p..]` satisfy exactly a recursion of order `p-1` (e.g. trailing zeros) have `pf = 0`
on entry of the last order update although the order-`p` least-squares problem has full rank. -/
def covOrderUpdate (x : List K) (N m : Nat) (last : Bool) (s : CovSt K) : Except String (CovSt K) := do
  let r1 ← recipD last "pf" s.pf
  let r2 ← recipG "pb" s.pb
  let r3 ← recipD last "delta" s.delta
  let r4 ← recipD last "gamma" s.gamma
  -- temp = 0j; for k in range(m+1, N): temp += x[k]*conj(x[k-m-1])        (k = j+m+1)
  let temp0 : K := sumR (N - (m + 1)) (fun j => nth x (j + m + 1) * conj (nth x j))
  let rA := s.r.set m (conj temp0)                                     -- r[m] = conj(temp)
  let theta0 := nth x 0 * nth s.c m                                    -- theta = x[0]*c[m]
  -- for k in range(0, m): theta += x[m-k]*c[k]; r[k] -= x[N-m-1]*conj(x[N-m+k]); temp += af[m-k-1]*conj(r[k])
  let l1 := forUp (fun k (st : K × List K × K) =>
      let th := st.1 + nth x (m - k) * nth s.c k                       -- Eq. (8.C.39)
      let rk := nth st.2.1 k - nth x (N - m - 1) * conj (nth x (N - m + k)) -- Eq. (8.C.32)
      let t := st.2.2 + nth s.af (m - k - 1) * conj rk
      (th, st.2.1.set k rk, t)) m (theta0, rA, temp0)
  let theta := l1.1
  let rB := l1.2.1
  let temp := l1.2.2
  let c1 := -temp * r2
  let c2 := -r1 * conj temp
  let c3 := theta * r3
  let c4 := r4 * conj theta
  let af1 := s.af.set m c1                                             -- Eq. (8.C.19)
  let ab1 := s.ab.set m c2                                             -- Eq. (8.C.22)
  let save := nth s.c m
  let cA := s.c.set m (save + c3 * nth s.d m)
  let dA := s.d.set m (nth s.d m + c4 * save)
  -- for k in range(0, m): af[k], ab[m-k-1], c[k], d[k]
  let l2 := forUp (fun k (st : List K × List K × List K × List K) =>
      let af := st.1
      let ab := st.2.1
      let c := st.2.2.1
      let d := st.2.2.2
      let sv := nth af k
      let af' := af.set k (sv + c1 * nth ab (m - k - 1))               -- Eq. (8.C.18)
      let ab' := ab.set (m - k - 1) (nth ab (m - k - 1) + c2 * sv)     -- Eq. (8.C.21)
      let sv2 := nth c k
      let c' := c.set k (sv2 + c3 * nth d k)                           -- Eq. (8.C.37)
      let d' := d.set k (nth d k + c4 * sv2)                           -- Eq. (8.C.38)
      (af', ab', c', d')) m (af1, ab1, cA, dA)
  let r5 := abs2 temp
  let pf := s.pf - r5 * r2                                             -- Eq. (8.C.20)
  let pb := s.pb - r5 * r1                                             -- Eq. (8.C.23)
  let r5' := abs2 theta
  let delta := s.delta - r5' * r4                                      -- Eq. (8.C.39)
  let gamma := s.gamma - r5' * r3                                      -- Eq. (8.C.40)
  pure { af := l2.1, ab := l2.2.1, c := l2.2.2.1, d := l2.2.2.2, r := rB,
         pf := pf, pb := pb, delta := delta, gamma := gamma }

/-- second half of the body (executed when `m != order-1`): "Time update: AF and AB vectors; order
update: C and D vectors".  The two `ValueError(...)` expressions before and after it are no-ops. -/
def covTimeUpdate (x : List K) (N m : Nat) (s : CovSt K) : Except String (CovSt K) := do
  let r1 ← recipG "pf'" s.pf
  let r2 ← recipG "pb'" s.pb
  let r3 ← recipG "delta'" s.delta
  let r4 ← recipG "gamma'" s.gamma
  let ef0 := nth x (m + 1)
  let eb0 := nth x ((N - 1) - m - 1)
  -- for k in range(0, m+1): ef += af[k]*x[m-k]; eb += ab[k]*x[N-m+k-1]
  let e := forUp (fun k (st : K × K) =>
      (st.1 + nth s.af k * nth x (m - k),                               -- Eq. (8.C.1)
       st.2 + nth s.ab k * nth x (N - m + k - 1))) (m + 1) (ef0, eb0)   -- Eq. (8.C.2)
  let ef := e.1
  let eb := e.2
  let c1 := ef * r3
  let c2 := eb * r4
  let c3 := conj eb * r2
  let c4 := conj ef * r1
  -- for k in range(m, -1, -1)
  let l := forDown (fun k (st : List K × List K × List K × List K) =>
      let af := st.1
      let ab := st.2.1
      let c := st.2.2.1
      let d := st.2.2.2
      let sv := nth af k
      let af' := af.set k (sv + c1 * nth d k)                          -- Eq. (8.C.33)
      let d' := d.set (k + 1) (nth d k + c4 * sv)                      -- Eq. (8.C.25)
      let sv2 := nth ab k
      let ab' := ab.set k (sv2 + c2 * nth c (m - k))                   -- Eq. (8.C.35)
      let c' := c.set (m - k) (nth c (m - k) + c3 * sv2)               -- Eq. (8.C.24)
      (af', ab', c', d')) (m + 1) (s.af, s.ab, s.c, s.d)
  let cF := l.2.2.1.set (m + 1) c3
  let dF := l.2.2.2.set 0 c4
  let r5 := abs2 ef
  let pf := s.pf - r5 * r3                                             -- Eq. (8.C.34)
  let delta := s.delta - r5 * r1                                       -- Eq. (8.C.30)
  let r5' := abs2 eb
  let pb := s.pb - r5' * r4                                            -- Eq. (8.C.36)
  let gamma := s.gamma - r5' * r2                                      -- Eq. (8.C.31)
  pure { af := l.1, ab := l.2.1, c := cF, d := dF, r := s.r,
         pf := pf, pb := pb, delta := delta, gamma := gamma }

/-- `for m in range(0, order+1)`: `fuel` = iterations left, `m` = loop variable.  The loop is always
left through the `break` at `m == order-1` (after `pf`, `pb` have been divided by `N-m-1`); the
fall-through branch (`fuel = 0`) is unreachable for `order ≥ 1` and returns the state unchanged as
Python would. -/
def covLoop (x : List K) (N order : Nat) : Nat → Nat → CovSt K → Except String (CovSt K)
  | 0, _, s => .ok s
  | fuel + 1, m, s => do
      let s1 ← covOrderUpdate x N m (m = order - 1) s
      if m = order - 1 then do
        let pf ← divG "N-order" s1.pf ((N - m - 1 : Nat) : K)
        let pb ← divG "N-order" s1.pb ((N - m - 1 : Nat) : K)
        pure { s1 with pf := pf, pb := pb }
      else do
        let s2 ← covTimeUpdate x N m s1
        covLoop x N order fuel (m + 1) s2

/-- `arcovar_marple(x, order)[:2]` with the coefficient array cut to its first `order` entries (what
every caller reads): `(AF[:order], PF)`. -/
def arcovarMarpleCore (x : List K) (order : Nat) : Except String (List K × K) :=
  let N := x.length
  if N < order then .error "assert"
  else if N = 0 then .error "index"
  else
    -- Equations 8.C.42
    let r0 : K := sumR N (fun k => abs2 (nth x k))
    if order = 0 then .ok ([], r0 / (N : K))
    else do
      let r1 := abs2 (nth x 0)
      let rN := abs2 (nth x (N - 1))
      let pf := r0 - r1
      let pb := r0 - rN
      let q1 ← divG "r0" r1 r0
      let qN ← divG "r0" rN r0
      let delta := (1 : K) - q1
      let gamma := (1 : K) - qN
      let z : List K := List.replicate N 0
      let c0 ← divG "r0" (conj (nth x (N - 1))) r0
      let d0 ← divG "r0" (conj (nth x 0)) r0
      let s0 : CovSt K := { af := z, ab := z, c := z.set 0 c0, d := z.set 0 d0, r := z,
                            pf := pf, pb := pb, delta := delta, gamma := gamma }
      let s ← covLoop x N order (order + 1) 0 s0
      pure (s.af.take order, s.pf)

/-- transliterated `arcovar_marple`; every exit of `arcovarMarpleCore` becomes `none` -/
def arcovarMarpleRec (x : List K) (p : Nat) : Option (List K × K) :=
  match arcovarMarpleCore x p with
  | .ok r => some r
  | .error _ => none

/-! ### modcovar.py `modcovar_marple` -/

section Mod
variable [ReOrd K]

/-- the mutable variables of `modcovar_marple` that survive an iteration of the main loop -/
structure ModSt (K : Type) where
  A : List K
  C : List K
  D : List K
  R : List K
  P : K
  DELTA : K
  GAMMA : K
  LAMBDA : K

/-- `DELTA > 0. and DELTA <= 1. and GAMMA > 0. and GAMMA <= 1.` -/
def dgInRange (dl gm : K) : Bool :=
  (!reLe0 dl) && (!reGt dl (1 : K)) && (!reLe0 gm) && (!reGt gm (1 : K))

/-- what the order update hands to the time update: the state and `THETA`, `PSI`, `XI` -/
structure ModMid (K : Type) where
  s : ModSt K
  THETA : K
  PSI : K
  XI : K

/-- body of the main loop from its top to the end of "Order update of A vector" -/
def modOrderUpdate (X : List K) (N M : Nat) (s : ModSt K) : Except String (ModMid K) := do
  -- SAVE1 = Σ_{K=M+1}^{N-1} X[K] conj X[K-M-1];  SAVE1 *= 2.
  let sv0 : K := sumR (N - (M + 1)) (fun j => nth X (j + M + 1) * conj (nth X j)) * two2
  let RA := s.R.set M (conj sv0)
  let th0 := nth X (N - 1) * nth s.D 0
  let ps0 := nth X (N - 1) * nth s.C 0
  let xi0 := conj (nth X 0) * nth s.D 0
  -- for K in range(0, M)
  let l1 := forUp (fun k (st : K × K × K × List K × K) =>
      let th := st.1 + nth X (N - k - 2) * nth s.D (k + 1)             -- Eq. (8.D.45)
      let ps := st.2.1 + nth X (N - k - 2) * nth s.C (k + 1)           -- Eq. (8.D.45)
      let xi := st.2.2.1 + conj (nth X (k + 1)) * nth s.D (k + 1)      -- Eq. (8.D.45)
      let R := st.2.2.2.1
      let rk := nth R k - nth X (N - M - 1) * conj (nth X (N + 1 - M + k - 1))
                  - conj (nth X M) * nth X (M - k - 1)                 -- Eq. (8.D.37)
      let sv := st.2.2.2.2 + conj rk * nth s.A (M - k - 1)             -- Eq. (8.D.24)
      (th, ps, xi, R.set k rk, sv)) M (th0, ps0, xi0, RA, sv0)
  let THETA := l1.1
  let PSI := l1.2.1
  let XI := l1.2.2.1
  let RB := l1.2.2.2.1
  let SAVE1 := l1.2.2.2.2
  let C1 ← divG "P" (-SAVE1) s.P
  let A1 := s.A.set M C1                                               -- Eq. (8.D.23)
  -- P*(1.-C1.real**2-C1.imag**2): the model has no separate real/imaginary parts, `1 - |C1|²`
  let P := s.P * ((1 : K) - abs2 C1)                                   -- Eq. (8.D.25)
  -- for K in range(0, (M+1)//2)
  let A2 := forUp (fun k (A : List K) =>
      let mk := M - k - 1
      let sv := nth A k
      let A' := A.set k (sv + C1 * conj (nth A mk))                    -- Eq. (8.D.22)
      if k ≠ mk then A'.set mk (nth A' mk + C1 * conj sv) else A') ((M + 1) / 2) A1
  pure { s := { s with A := A2, R := RB, P := P }, THETA := THETA, PSI := PSI, XI := XI }

/-- body of the main loop after the `if M+1 == IP` test: "Time update of C,D vectors and
GAMMA,DELTA,LAMBDA scalars", the two raising checks, "Time update of A vector; order updates of C,D
vectors and GAMMA,DELTA,LAMBDA scalars", the two raising checks. -/
def modTimeUpdate (X : List K) (N M : Nat) (mid : ModMid K) : Except String (ModSt K) := do
  let s := mid.s
  let THETA := mid.THETA
  let PSI := mid.PSI
  let XI := mid.XI
  let DELTA := s.DELTA
  let GAMMA := s.GAMMA
  let LAMBDA := s.LAMBDA
  let R1 ← recipG "det'" (DELTA * GAMMA - abs2 LAMBDA)
  let C1 := (THETA * conj LAMBDA + PSI * DELTA) * R1
  let C2 := (PSI * LAMBDA + THETA * GAMMA) * R1
  let C3 := (XI * conj LAMBDA + THETA * DELTA) * R1
  let C4 := (THETA * LAMBDA + XI * GAMMA) * R1
  -- for K in range(0, M//2+1)
  let l1 := forUp (fun k (st : List K × List K) =>
      let C := st.1
      let D := st.2
      let mk := M - k
      let s1 := conj (nth C k)
      let s2 := conj (nth D k)
      let s3 := conj (nth C mk)
      let s4 := conj (nth D mk)
      let C' := C.set k (nth C k + C1 * s3 + C2 * s4)                  -- Eq. (8.D.43)
      let D' := D.set k (nth D k + C3 * s3 + C4 * s4)                  -- Eq. (8.D.44)
      if k ≠ mk then
        (C'.set mk (nth C' mk + C1 * s1 + C2 * s2),                    -- Eq. (8.D.43)
         D'.set mk (nth D' mk + C3 * s1 + C4 * s2))                    -- Eq. (8.D.44)
      else (C', D')) (M / 2 + 1) (s.C, s.D)
  let R2 := abs2 PSI
  let R3 := abs2 THETA
  let R4 := abs2 XI
  let R5 := GAMMA - (R2 * DELTA + R3 * GAMMA + two2 * rePart (PSI * LAMBDA * conj THETA)) * R1
  let R2' := DELTA - (R3 * DELTA + R4 * GAMMA + two2 * rePart (THETA * LAMBDA * conj XI)) * R1
  let GAMMA := R5                                                      -- Eq. (8.D.46)
  let DELTA := R2'                                                     -- Eq. (8.D.47)
  let LAMBDA := LAMBDA + C3 * conj PSI + C4 * conj THETA               -- Eq. (8.D.48)
  if reLe0 s.P then .error "value:P'"
  else if !dgInRange DELTA GAMMA then .error "value:DG'"
  else do
    let R1 ← recipG "P" s.P
    let R2 ← recipG "det" (DELTA * GAMMA - abs2 LAMBDA)                -- Eq. (8.D.41)
    let ef0 := nth X (M + 1)
    let eb0 := nth X (N - M - 2)
    -- for K in range(0, M+1)
    let e := forUp (fun k (st : K × K) =>
        (st.1 + nth s.A k * nth X (M - k),                              -- Eq. (8.D.1)
         st.2 + conj (nth s.A k) * nth X (N - M + k - 1))) (M + 1) (ef0, eb0) -- Eq. (8.D.2)
    let EF := e.1
    let EB := e.2
    let C1 := EB * R1                                                  -- Eq. (8.D.28)
    let C2 := conj EF * R1                                             -- Eq. (8.D.29)
    let C3 := (conj EB * DELTA + EF * LAMBDA) * R2
    let C4 := (EF * GAMMA + conj (EB * LAMBDA)) * R2
    -- for K in range(M, -1, -1)
    let l2 := forDown (fun k (st : List K × List K × List K) =>
        let A := st.1
        let C := st.2.1
        let D := st.2.2
        let sv := nth A k
        let A' := A.set k (sv + C3 * nth C k + C4 * nth D k)           -- Eq. (8.D.38)
        let C' := C.set (k + 1) (nth C k + C1 * sv)                    -- Eq. (8.D.26)
        let D' := D.set (k + 1) (nth D k + C2 * sv)                    -- Eq. (8.D.27)
        (A', C', D')) (M + 1) (s.A, l1.1, l1.2)
    let CF := l2.2.1.set 0 C1
    let DF := l2.2.2.set 0 C2
    let R3 := abs2 EB
    let R4 := abs2 EF
    let P := s.P - (R3 * DELTA + R4 * GAMMA + two2 * rePart (EF * EB * LAMBDA)) * R2  -- Eq. (8.D.42)
    let DELTA := DELTA - R4 * R1                                       -- Eq. (8.D.32)
    let GAMMA := GAMMA - R3 * R1                                       -- Eq. (8.D.33)
    let LAMBDA := LAMBDA + conj (EF * EB) * R1                         -- Eq. (8.D.35)
    if reLe0 P then .error "value:P"
    else if !dgInRange DELTA GAMMA then .error "value:DG"
    else pure { A := l2.1, C := CF, D := DF, R := s.R, P := P, DELTA := DELTA, GAMMA := GAMMA,
                LAMBDA := LAMBDA }

/-- `for M in range(0, IP)`: `fuel` = iterations left.  The function returns from inside the loop at
`M+1 == IP` with `P = .5*P/float(N-M-1)`; the fall-through (`fuel = 0`, Python returns `None`) is
unreachable for `IP ≥ 1` and is reported as an error.  `Pv` (the history of the normalised variances)
is not modelled. -/
def modLoop (X : List K) (N IP : Nat) : Nat → Nat → ModSt K → Except String (List K × K)
  | 0, _, _ => .error "noreturn"
  | fuel + 1, M, s => do
      let mid ← modOrderUpdate X N M s
      if M + 1 = IP then do
        let P ← divG "N-order" (half2 * mid.s.P) ((N - M - 1 : Nat) : K)
        pure (mid.s.A.take IP, P)
      else do
        let s2 ← modTimeUpdate X N M mid
        modLoop X N IP fuel (M + 1) s2

/-- `modcovar_marple(X, IP)[:2]` with the coefficient array cut to its first `IP` entries: `(A[:IP], P)` -/
def modcovarMarpleCore (X : List K) (IP : Nat) : Except String (List K × K) :=
  let N := X.length
  if N = 0 then .error "index"
  else if N < IP then .error "order>N"
  else
    let R1 : K := sumR (N - 2) (fun j => two2 * abs2 (nth X (j + 1)))
    let R2 := abs2 (nth X 0)
    let R3 := abs2 (nth X (N - 1))
    if IP = 0 then .ok ([], (half2 * R1 + R2 + R3) / (N : K))
    else do
      let R4 ← recipG "energy" (R1 + two2 * (R2 + R3))
      let P := R1 + R2 + R3
      let DELTA := (1 : K) - R2 * R4
      let GAMMA := (1 : K) - R3 * R4
      let LAMBDA := conj (nth X 0 * nth X (N - 1)) * R4
      let z : List K := List.replicate N 0
      let s0 : ModSt K := { A := z, C := z.set 0 (nth X (N - 1) * R4), D := z.set 0 (conj (nth X 0) * R4),
                            R := z, P := P, DELTA := DELTA, GAMMA := GAMMA, LAMBDA := LAMBDA }
      modLoop X N IP IP 0 s0

/-- transliterated `modcovar_marple`; every exit of `modcovarMarpleCore` becomes `none` -/
def modcovarMarpleRec (X : List K) (p : Nat) : Option (List K × K) :=
  match modcovarMarpleCore X p with
  | .ok r => some r
  | .error _ => none

end Mod

end SpecVerif
