import SpecVerif.Model.RealFn
/-
  criteria.py: the order-selection criteria used by `arburg` (AIC, AICc, KIC, AKICc, FPE, MDL) as functions
  of the sample size `N`, the prediction-error variance `rho` and the order `k`, over a real type with `log`.
-/
namespace SpecVerif
open RealFn

inductive Crit | AIC | AICc | KIC | AKICc | FPE | MDL
deriving DecidableEq, Repr

section
variable {R : Type} [Add R] [Sub R] [Mul R] [Div R] [Neg R] [NatCast R] [RealFn R]

/-- value of criterion `c` at order `k` -/
def critValue (c : Crit) (N : Nat) (rho : R) (k : Nat) : R :=
  let n : R := (N : R)
  let kk : R := (k : R)
  let one : R := ((1 : Nat) : R)
  let two : R := ((2 : Nat) : R)
  let three : R := ((3 : Nat) : R)
  match c with
  | .AIC => n * log rho + two * (kk + one)
  | .AICc => log rho + two * (kk + one) / (n - kk - two)
  | .KIC => log rho + three * (kk + one) / n
  | .AKICc => log rho + kk / n / (n - kk) + (three - (kk + two) / n) * (kk + one) / (n - kk - two)
  | .FPE => rho * (n + kk + one) / (n - kk - one)
  | .MDL => n * log rho + kk * log n

/-- the stopping test of `arburg`: the criterion at order `k` (variance `rhoK`) exceeds the one at order `k-1` -/
def critStops (c : Crit) (N : Nat) (rhoPrev rhoK : R) (k : Nat) : Bool :=
  lt (critValue c N rhoPrev (k - 1)) (critValue c N rhoK k)

end
end SpecVerif
