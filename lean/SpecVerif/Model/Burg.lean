import SpecVerif.Model.Levinson
/-
  burg.py `arburg` (Marple's Burg recursion with the recursive `den` update and the optional
  order-selection criterion).

  The criterion enters as a *parameter* `stop k ρ_k` = "the criterion value at order `k` exceeds the
  one at order `k-1`" (its formulas use `log`; they are instantiated in the driver for doubles).
-/
namespace SpecVerif
variable {K : Type} [Add K] [Sub K] [Mul K] [Div K] [Neg K] [OfNat K 0] [OfNat K 1] [NatCast K]
  [Conj K]

structure BurgState (K : Type) where
  a : List K      -- AR coefficients a_1..a_k (no leading 1)
  rho : K
  ref : List K
  ef : List K     -- forward errors (valid for indices > stage)
  eb : List K     -- backward errors
  den : K
  temp : K

def burgInit (x : List K) : BurgState K :=
  let N := x.length
  let rho := sumR N (fun j => abs2 (nth x j)) / (N : K)
  { a := [], rho := rho, ref := [], ef := x, eb := x, den := rho * ((2 : Nat) : K) * (N : K), temp := 1 }

/-- the reflection coefficient of stage `k` (0-based) and the updated `den`, before anything is stored -/
def burgK (s : BurgState K) (N k : Nat) : K × K :=
  let num := sumR (N - k - 1) (fun i => nth s.ef (i + k + 1) * conj (nth s.eb (i + k)))
  let den := s.temp * s.den - abs2 (nth s.ef k) - abs2 (nth s.eb (N - 1))
  (-(((2 : Nat) : K)) * num / den, den)

/-- one complete stage `k` of `arburg` -/
def burgStep (s : BurgState K) (N k : Nat) : BurgState K :=
  let kd := burgK s N k
  let kp := kd.1
  let temp := 1 - abs2 kp
  { a := levup s.a kp, rho := temp * s.rho, ref := s.ref ++ [kp],
    ef := vec N (fun j => if k < j then nth s.ef j + kp * nth s.eb (j - 1) else nth s.ef j),
    eb := vec N (fun j => if k < j then nth s.eb (j - 1) + conj kp * nth s.ef j else nth s.eb j),
    den := kd.2, temp := temp }

/-- the state after `k` stages (no criterion) -/
def burgRun (x : List K) : Nat → BurgState K
  | 0 => burgInit x
  | k + 1 => burgStep (burgRun x k) x.length k

/-- the order kept by the selection loop: the first stage `k+1 ≤ order` whose criterion value exceeds
    the previous one stops the loop *before* that stage is stored; otherwise `order` -/
def burgOrder (stop : Nat → K → Bool) (x : List K) (order : Nat) : Nat :=
  match (List.range order).find? (fun k => stop (k + 1) (burgRun x (k + 1)).rho) with
  | some k => k
  | none => order

/-- `arburg(X, order, criteria)`: `useCrit = false` ↔ `criteria=None` -/
def arburg [ReOrd K] (x : List K) (order : Nat) (useCrit : Bool) (stop : Nat → K → Bool) :
    Except String (BurgState K) :=
  if order = 0 then .error "value"
  else if order > x.length then .error "value"
  else
    let q := if useCrit then burgOrder stop x order else order
    if (List.range q).any (fun k => reLe0 (burgRun x (k + 1)).rho) then .error "value"
    else .ok (burgRun x q)

end SpecVerif
