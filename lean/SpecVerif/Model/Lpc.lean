import SpecVerif.Model.DFT
import SpecVerif.Model.Levinson
import SpecVerif.Model.Periodogram
import SpecVerif.Model.RealFn
/-
  lpc.py `lpc(x, N)` (FFT-based autocorrelation followed by LEVINSON) and linear_prediction.py `lsf2poly`
  (line spectral frequencies → prediction polynomial).  `numpy.fft.fft/ifft` are the DFT parameter (a table of
  roots of unity and its inverse table); `numpy.poly` is modelled as the product of monic linear factors.
-/
namespace SpecVerif

section
variable {K : Type} [Add K] [Sub K] [Mul K] [Div K] [Neg K] [OfNat K 0] [OfNat K 1] [NatCast K] [Conj K]

/-- `real(ifft(|fft(x, nfft)|²)) / (m-1)`: the autocorrelation sequence `lpc` hands to LEVINSON.
    `tw` = powers of `ω`, `twInv` = powers of `ω⁻¹`. -/
def lpcAcf (tw twInv : List K) (x : List K) (nfft : Nat) : List K :=
  let X2 := vec nfft (fun k => abs2 (dftBin tw nfft x k))
  vec nfft (fun d => rePart (dftBin twInv nfft X2 d / (nfft : K)) / ((x.length - 1 : Nat) : K))

/-- `lpc(x, N)`: coefficients and error of the Levinson recursion on that sequence -/
def lpc (tw twInv : List K) (x : List K) (nfft order : Nat) : LevState K :=
  let R := lpcAcf tw twInv x nfft
  levRun (rePart (nth R 0)) R.tail order

/-- polynomial product (coefficient lists, highest power first — `numpy.convolve`) -/
def polyMul (p q : List K) : List K :=
  if p.length = 0 ∨ q.length = 0 then [] else
  vec (p.length + q.length - 1) (fun n => sumR (n + 1) (fun i => nth p i * nth q (n - i)))

/-- `numpy.poly(roots)`: `∏ (z - r_i)` -/
def polyFromRoots (roots : List K) : List K :=
  roots.foldl (fun acc r => polyMul acc [1, -r]) [1]

/-- the recombination step of `lsf2poly`: from the two root sets (each closed under conjugation) to the prediction
    polynomial `[1, a_1, …, a_p]`; `p` is the model order -/
def lsfRecombine (rQ rP : List K) (p : Nat) : List K :=
  let Q := polyFromRoots rQ
  let P := polyFromRoots rP
  let P1 := if p % 2 = 1 then polyMul P [1, 0, -1] else polyMul P [1, -1]
  let Q1 := if p % 2 = 1 then Q else polyMul Q [1, 1]
  let a := vec (max P1.length Q1.length) (fun i => (nth P1 i + nth Q1 i) / ((2 : Nat) : K))
  a.take (a.length - 1)

/-- the analysis side of `poly2lsf` before root finding: `P1 = a1 - reverse a1`, `Q1 = a1 + reverse a1`, `a1 = a ++ [0]` -/
def lsfSplit (a : List K) : List K × List K :=
  let a1 := a ++ [0]
  let n := a1.length
  (vec n (fun i => nth a1 i - nth a1 (n - 1 - i)), vec n (fun i => nth a1 i + nth a1 (n - 1 - i)))

end
end SpecVerif
