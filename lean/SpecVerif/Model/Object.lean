import SpecVerif.Model.Sides
/-
  psd.py: the `Spectrum` / `FourierSpectrum` / `ParametricSpectrum` attribute-and-cache state machine.

  The numerical estimate is abstracted away: the cache records *which attribute snapshot* the stored PSD was
  computed from and in *which representation* (`sides`) it is stored — `compute` is therefore an
  uninterpreted function of the snapshot and the theorems hold whatever the estimator computes.
-/
namespace SpecVerif

/-- every attribute the estimate may depend on (abstract identifiers; `nfft`/`N` are the actual integers) -/
structure Attrs where
  dataId : Nat
  cplx : Bool
  N : Nat
  nfft : Nat
  samp : Nat
  detrend : Nat
  scale : Bool
  window : Nat
  lag : Nat
  arOrder : Nat
  maOrder : Nat
deriving DecidableEq, Repr

structure ObjState where
  a : Attrs
  sides : Side
  /-- `some (snapshot, representation)` once a PSD is stored -/
  cache : Option (Attrs × Side)
  modified : Bool
  rangeN : Nat
  rangeSamp : Nat
  /-- `FourierSpectrum` (guarded `lag`/`window` setters) vs `ParametricSpectrum` (orders, unguarded `lag`) -/
  parametric : Bool
deriving Repr

inductive SideArg | one | two | center | dflt
deriving DecidableEq, Repr

inductive ObjOp
  | setData (id : Nat) (cplx : Bool) (N : Nat)
  | setNfft (n : Nat)          -- a positive integer
  | setNfftNone                -- `NFFT = None` → the data length
  | setNfftPow2                -- `NFFT = 'nextpow2'`
  | setSamp (s : Nat)
  | setDetrend (d : Nat)
  | setScale (b : Bool)
  | setWindow (w : Nat)
  | setLag (l : Nat)
  | setArOrder (o : Nat)
  | setMaOrder (o : Nat)
  | setSides (s : SideArg)
  | call
  | read
deriving Repr

def defaultSide (cplx : Bool) : Side := if cplx then .two else .one

/-- smallest power of two `≥ n` (`2 ** nextpow2(n)`) -/
def nextPow2 (n : Nat) : Nat :=
  let rec go (fuel p : Nat) : Nat :=
    match fuel with
    | 0 => p
    | f + 1 => if n ≤ p then p else go f (2 * p)
  go 64 1

/-- `self()` followed by the psd setter: the estimate of the current attributes in the default representation -/
def recompute (s : ObjState) : ObjState :=
  { s with cache := some (s.a, defaultSide s.a.cplx), sides := defaultSide s.a.cplx, modified := false }

/-- NFFT setter once the new value is resolved -/
def applyNfft (s : ObjState) (n : Nat) : ObjState :=
  if s.a.nfft = n then s
  else { s with a := { s.a with nfft := n }, rangeN := n, sides := defaultSide s.a.cplx, modified := true }

/-- `true` = the operation raised (the only modelled exception: a complex PSD cannot be made one-sided) -/
def objStep (s : ObjState) : ObjOp → ObjState × Bool
  | .setData id c n => ({ s with a := { s.a with dataId := id, cplx := c, N := n }, modified := true }, false)
  | .setNfft n => (applyNfft s n, false)
  | .setNfftNone => (applyNfft s s.a.N, false)
  | .setNfftPow2 => (applyNfft s (nextPow2 s.a.N), false)
  | .setSamp x =>
      (if s.a.samp = x then s else { s with a := { s.a with samp := x }, rangeSamp := x, modified := true }, false)
  | .setDetrend d =>
      (if s.a.detrend = d then s else { s with a := { s.a with detrend := d }, modified := true }, false)
  | .setScale b =>
      (if s.a.scale = b then s else { s with a := { s.a with scale := b }, modified := true }, false)
  | .setWindow w =>
      (if s.a.window = w then s else { s with a := { s.a with window := w }, modified := true }, false)
  | .setLag l =>
      (if !s.parametric && s.a.lag = l then s else { s with a := { s.a with lag := l }, modified := true }, false)
  | .setArOrder o => ({ s with a := { s.a with arOrder := o }, modified := true }, false)
  | .setMaOrder o => ({ s with a := { s.a with maOrder := o }, modified := true }, false)
  | .setSides arg =>
      let tgt : Side := match arg with
        | .one => .one | .two => .two | .center => .center | .dflt => defaultSide s.a.cplx
      match s.cache with
      | none => ({ s with sides := tgt, modified := false }, false)
      | some _ =>
        -- bring the estimate up to date first (this resets `sides` to the default)
        let s1 := if s.modified then recompute s else s
        match s1.cache with
        | none => (s1, false)   -- unreachable
        | some (snap, _) =>
          if s1.sides ≠ tgt ∧ s1.a.cplx ∧ tgt = .one then (s1, true)
          else ({ s1 with cache := some (snap, tgt), sides := tgt, modified := false }, false)
  | .call => (recompute s, false)
  | .read => (if s.cache.isNone || s.modified then recompute s else s, false)

/-- a freshly constructed object -/
def objInit (a : Attrs) (parametric : Bool) : ObjState :=
  { a := a, sides := defaultSide a.cplx, cache := none, modified := true, rangeN := a.nfft, rangeSamp := a.samp,
    parametric := parametric }

def objRun (s : ObjState) (ops : List ObjOp) : ObjState := ops.foldl (fun st op => (objStep st op).1) s

/-- number of entries of `frequencies()` for the current `sides` -/
def freqLen (s : ObjState) : Nat := (rangeBins s.sides s.rangeN).length

/-- number of entries a PSD stored in representation `sd` for `nfft` points has -/
def psdLen (sd : Side) (nfft : Nat) : Nat := (rangeBins sd nfft).length

end SpecVerif
