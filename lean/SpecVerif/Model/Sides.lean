import SpecVerif.Model.Basic
/-
  psd.py `Range` axes and `Spectrum.get_converted_psd`, tools.py side helpers (`twosided_2_onesided`,
  `onesided_2_twosided`, `twosided_2_centerdc`, `centerdc_2_twosided`, `cshift`).

  `numpy.fft.fftshift` / `ifftshift` are modelled by their index rule (rotation by ⌊n/2⌋).
-/
namespace SpecVerif

inductive Side | one | two | center
deriving DecidableEq, Repr

section
variable {K : Type} [Add K] [Mul K] [Div K] [OfNat K 0] [NatCast K]

/-- `numpy.fft.fftshift`: `out[(j + n/2) % n] = x[j]`, i.e. `out[i] = x[(i + (n+1)/2) % n]` -/
def fftshift (x : List K) : List K :=
  let n := x.length
  vec n (fun i => nth x ((i + (n + 1) / 2) % n))

/-- `numpy.fft.ifftshift`: `out[i] = x[(i + n/2) % n]` -/
def ifftshift (x : List K) : List K :=
  let n := x.length
  vec n (fun i => nth x ((i + n / 2) % n))

/-- `tools.twosided_2_centerdc` -/
def twosided2centerdc (x : List K) : List K := fftshift x
/-- `tools.centerdc_2_twosided` -/
def centerdc2twosided (x : List K) : List K := ifftshift x

/-- `tools.twosided_2_onesided`: bins `0..n/2`, interior values doubled; the Nyquist bin (even `n`
    only) and DC are not. -/
def twosided2onesided (x : List K) : List K :=
  let n := x.length
  vec (n / 2 + 1) (fun i =>
    if i = 0 then nth x 0
    else if n % 2 = 0 ∧ i = n / 2 then nth x i
    else ((2 : Nat) : K) * nth x i)

/-- unfolding a one-sided PSD of length `L` to `2L-1` (odd) or `2L-2` (even) two-sided values -/
def unfoldOne (p : List K) (odd : Bool) : List K :=
  let L := p.length
  let n := if odd then 2 * L - 1 else 2 * L - 2
  if L = 1 ∧ !odd then [((2 : Nat) : K) * nth p 0]   -- degenerate: the code multiplies index 0 twice
  else
  vec n (fun i =>
    if i = 0 then nth p 0
    else if !odd ∧ i = L - 1 then nth p i
    else if i < L then nth p i / ((2 : Nat) : K)
    else nth p (n - i) / ((2 : Nat) : K))

/-- `tools.onesided_2_twosided` (assumes an even two-sided length `2(L-1)`) -/
def onesided2twosided (p : List K) : List K := unfoldOne p false

/-- `Spectrum.get_converted_psd(sides)` for a stored PSD `p` in representation `cur`; `nfft` is the
    object's NFFT (decides whether a one-sided PSD has a Nyquist term).  `none` = the assertion
    "complex data cannot be one-sided". -/
def convert (cur tgt : Side) (isComplex : Bool) (nfft : Nat) (p : List K) : Option (List K) :=
  if cur = tgt then some p
  else if isComplex ∧ tgt = .one then none
  else
  match cur, tgt with
  | .one, .two => some (unfoldOne p (nfft % 2 = 1 ∧ p.length = (nfft + 1) / 2))
  | .one, .center => some (fftshift (unfoldOne p (nfft % 2 = 1 ∧ p.length = (nfft + 1) / 2)))
  | .two, .one => some (twosided2onesided p)
  | .two, .center => some (fftshift p)
  | .center, .two => some (ifftshift p)
  | .center, .one => some (twosided2onesided (ifftshift p))
  | _, _ => some p

end

/-- `Range(N, sampling)` frequency axes as bin numbers times `df`: the model returns the integer bin
    of every entry (`k` for one- or two-sided, `a - N/2` for centre-DC, as an `Int`). -/
def rangeBins (sd : Side) (n : Nat) : List Int :=
  match sd with
  | .one => (List.range (if n % 2 = 0 then n / 2 + 1 else (n + 1) / 2)).map (fun k => Int.ofNat k)
  | .two => (List.range n).map (fun k => Int.ofNat k)
  | .center => (List.range n).map (fun a => Int.ofNat a - Int.ofNat (n / 2))

section
variable {K : Type} [Add K] [Mul K] [Div K] [OfNat K 0] [NatCast K]

/-- `tools.cshift(data, offset)` for a non-negative integer offset: `numpy.roll` -/
def cshift (x : List K) (off : Nat) : List K :=
  let n := x.length
  vec n (fun i => nth x ((i + n - off % n) % n))

end
end SpecVerif
