import SpecVerif.Model.Basic
import SpecVerif.Model.DFT
import SpecVerif.Model.Correlation
import SpecVerif.Model.Periodogram
import SpecVerif.Model.Daniell
import SpecVerif.Model.Levinson
import SpecVerif.Model.Sides
import SpecVerif.Model.Arma
import SpecVerif.Model.Burg
import SpecVerif.Model.Minvar
import SpecVerif.Model.Estimators
import SpecVerif.Model.Marple
import SpecVerif.Model.Eigen
import SpecVerif.Model.Mtm
import SpecVerif.Model.ClassGlue
import SpecVerif.Model.Object
import SpecVerif.Model.ObjectF
import SpecVerif.Model.Window
import SpecVerif.Model.Criteria
import SpecVerif.Model.EigenCrit
import SpecVerif.Model.Dpss
import SpecVerif.Model.DpssTri
import SpecVerif.Model.Lpc
/-
  Line-protocol driver for the executable model (no Mathlib anywhere below this file, so it links as a
  `lean_exe`).

  request : `<cmd> <F|Q> <head tokens…> | <re im>* | <re im>* …`
  reply   : `ok | <re im>* | <re im>* …`      or      `err <kind>`

  `F` = complex doubles, every real number is the decimal `UInt64` bit pattern of an IEEE double;
  `Q` = Gaussian rationals, every real number is `p/q` or `p`.
-/
namespace SpecVerif

/-! ### scalar codecs -/

class Codec (K : Type) where
  parseReIm : String → String → Option K
  showReIm : K → String

def parseRat (s : String) : Option Rat :=
  match s.splitOn "/" with
  | [p] => p.toInt?.map (fun i => (i : Rat))
  | [p, q] => do
      let pi ← p.toInt?
      let qi ← q.toNat?
      if qi = 0 then none else some ((pi : Rat) / (qi : Rat))
  | _ => none

def showRat (r : Rat) : String := if r.den = 1 then toString r.num else s!"{r.num}/{r.den}"

instance : Codec CRat where
  parseReIm a b := do
    let x ← parseRat a
    let y ← parseRat b
    pure ⟨x, y⟩
  showReIm z := showRat z.re ++ " " ++ showRat z.im

def parseBits (s : String) : Option Float := s.toNat?.map (fun n => Float.ofBits n.toUInt64)

instance : Codec CFloat where
  parseReIm a b := do
    let x ← parseBits a
    let y ← parseBits b
    pure ⟨x, y⟩
  showReIm z := toString z.re.toBits.toNat ++ " " ++ toString z.im.toBits.toNat

/-- roots of unity `e^{-2πi m/n}`, `m < n` (numpy's forward FFT kernel) -/
class Twid (K : Type) where
  tw : Nat → List K

def piF : Float := 3.14159265358979323846

instance : Twid CFloat where
  tw n := vec n (fun m =>
    let a := -2.0 * piF * Float.ofNat m / Float.ofNat n
    (⟨Float.cos a, Float.sin a⟩ : CFloat))

instance : Twid CRat where
  tw n := match n with
    | 1 => [⟨1, 0⟩]
    | 2 => [⟨1, 0⟩, ⟨-1, 0⟩]
    | 4 => [⟨1, 0⟩, ⟨0, -1⟩, ⟨-1, 0⟩, ⟨0, 1⟩]
    | _ => []

/-- natural logarithm of the real part, where available (order-selection criteria) -/
class LogRe (K : Type) where
  logRe : K → Option K

instance : LogRe CFloat := ⟨fun z => some ⟨Float.log z.re, 0.0⟩⟩
instance : LogRe CRat := ⟨fun _ => none⟩

/-- real part as a double (used to evaluate the criteria of Model/Criteria.lean) -/
class ReF (K : Type) where
  reF : K → Float

instance : ReF CFloat := ⟨fun z => z.re⟩
instance : ReF CRat := ⟨fun _ => 0.0⟩

/-! ### request parsing -/

def splitSections (toks : List String) : List (List String) :=
  let rec go (acc : List (List String)) (cur : List String) : List String → List (List String)
    | [] => (cur.reverse :: acc).reverse
    | t :: ts => if t = "|" then go (cur.reverse :: acc) [] ts else go acc (t :: cur) ts
  go [] [] toks

def parseVec {K : Type} [Codec K] : List String → Option (List K)
  | [] => some []
  | a :: b :: rest => do
      let z ← Codec.parseReIm a b
      let zs ← parseVec rest
      pure (z :: zs)
  | _ => none

def showVec {K : Type} [Codec K] (v : List K) : String :=
  " ".intercalate (v.map Codec.showReIm)

abbrev Reply (K : Type) := Except String (List (List K))

section Handlers
variable {K : Type} [Add K] [Sub K] [Mul K] [Div K] [Neg K] [OfNat K 0] [OfNat K 1] [NatCast K]
  [Conj K] [ReOrd K] [Twid K] [LogRe K] [ReF K] [IsZero K]

def natAt (hd : List String) (i : Nat) : Nat := ((hd.getD i "0").toNat?).getD 0
def strAt (hd : List String) (i : Nat) : String := hd.getD i ""
def vecAt (vs : List (List K)) (i : Nat) : List K := vs.getD i []
def scalAt (vs : List (List K)) (i : Nat) : K := nth (vs.getD i []) 0

def needTw (n : Nat) (f : List K → Reply K) : Reply K :=
  let t : List K := Twid.tw n
  if t.length = n then f t else .error "unsupported"

def normOf (s : String) : Option Norm :=
  match s with
  | "biased" => some .biased | "unbiased" => some .unbiased
  | "coeff" => some .coeff | "none" => some .none | _ => none

def methodOf (s : String) : Option CorrMtx :=
  match s with
  | "autocorrelation" => some .autocorrelation | "prewindowed" => some .prewindowed
  | "postwindowed" => some .postwindowed | "covariance" => some .covariance
  | "modified" => some .modified | _ => none

def sideOf (s : String) : Option Side :=
  match s with
  | "onesided" => some .one | "twosided" => some .two | "centerdc" => some .center | _ => none

def intK (i : Int) : K := if i < 0 then -((i.natAbs : Nat) : K) else ((i.natAbs : Nat) : K)

/-- fold a list of target sides over a stored PSD; returns every intermediate PSD (`sides = t` history) -/
def convertPath (isComplex : Bool) (nfft : Nat) : Side → List K → List Side → Option (List (List K))
  | _, _, [] => some []
  | cur, p, t :: ts =>
    match convert cur t isComplex nfft p with
    | none => none
    | some q => (convertPath isComplex nfft t q ts).map (fun r => q :: r)

/-- a history of `sides = t` assignments (`false`) and non-mutating `get_converted_psd(t)` calls (`true`);
    returns what each operation exposes: the stored PSD after an assignment, the returned vector of a get -/
def convertHistory (isComplex : Bool) (nfft : Nat) : Side → List K → List (Bool × Side) → Option (List (List K))
  | _, _, [] => some []
  | cur, p, (isGet, t) :: ops =>
    match convert cur t isComplex nfft p with
    | none => none
    | some q =>
      if isGet then (convertHistory isComplex nfft cur p ops).map (fun r => q :: r)
      else (convertHistory isComplex nfft t q ops).map (fun r => q :: r)

def opOf (s : String) : Option (Bool × Side) :=
  match s.splitOn ":" with
  | ["set", t] => (sideOf t).map (fun sd => (false, sd))
  | ["get", t] => (sideOf t).map (fun sd => (true, sd))
  | _ => none

/-- value of the order-selection criterion `name` for sample size `N`, variance `rho`, order `k`
    (criteria.py: AIC, AICc, KIC, AKICc, FPE, MDL) -/
def critVal (name : String) (N : Nat) (rho : K) (k : Nat) : Option K :=
  let n : K := (N : K)
  let kk : K := (k : K)
  let two : K := ((2 : Nat) : K)
  let three : K := ((3 : Nat) : K)
  match name with
  | "FPE" => some (rho * (n + kk + 1) / (n - kk - 1))
  | _ =>
    match LogRe.logRe rho with
    | none => none
    | some l =>
      match name with
      | "AIC" => some (n * l + two * (kk + 1))
      | "AICc" => some (l + two * (kk + 1) / (n - kk - two))
      | "KIC" => some (l + three * (kk + 1) / n)
      | "AKICc" => some (l + kk / n / (n - kk) + (three - (kk + two) / n) * (kk + 1) / (n - kk - two))
      | "MDL" => match LogRe.logRe n with
                 | some ln => some (n * l + kk * ln)
                 | none => none
      | _ => none

/-- a matrix as `[rows, cols]` followed by the rows -/
def matReply (m : List (List K)) : List (List K) :=
  [((m.length : Nat) : K), (((m.getD 0 []).length : Nat) : K)] :: m

def handle (cmd : String) (hd : List String) (vs : List (List K)) : Reply K :=
  match cmd with
  | "dft" => needTw (natAt hd 0) (fun t => .ok [dft t (natAt hd 0) (vecAt vs 0)])
  | "sper" =>
      let nfft := natAt hd 1
      needTw nfft (fun t => .ok [speriodogram t (vecAt vs 0) (vecAt vs 1) nfft (natAt hd 0 = 1)])
  | "sper2" =>
      let nfft := natAt hd 1
      needTw nfft (fun t =>
        .ok (speriodogram2 t (vs.drop 1) (vecAt vs 0) nfft (natAt hd 0 = 1)))
  | "daniell" =>
      -- daniell P | psd      (smoothing stage only; exact in Q mode).  P = 0 or a one-point periodogram: the code divides 0 by 0
      let psd := vecAt vs 0
      if natAt hd 0 = 0 || psd.length ≤ 1 then .error "singular"
      else .ok [daniell psd (natAt hd 0)]
  | "daniellpg" =>
      -- daniellpg isReal nfft P | x | w      (DaniellPeriodogram with detrend=None, scale_by_freq=False)
      let nfft := natAt hd 1
      if natAt hd 2 = 0 || (if natAt hd 0 = 1 then nfft / 2 + 1 else nfft) ≤ 1 then .error "singular"
      else needTw nfft (fun t =>
        .ok [daniellPeriodogram t (vecAt vs 0) (vecAt vs 1) nfft (natAt hd 2) (natAt hd 0 = 1)])
  | "corrgram" =>
      let nfft := natAt hd 1
      needTw nfft (fun t =>
        .ok [correlogramPsd t (vecAt vs 0) (vecAt vs 1) (vecAt vs 2) (natAt hd 0) nfft])
  | "corrgramd" =>
      -- corrgramd lag nfft norm | x | y | w      (auto-correlogram: y = x)
      let nfft := natAt hd 1
      match normOf (strAt hd 2) with
      | some nm =>
        needTw nfft (fun t =>
          let x := vecAt vs 0
          .ok [correlogram t x (vecAt vs 1) (vecAt vs 2) (natAt hd 0) nfft nm (meanPow x x.length)])
      | none => .error "value"
  | "corr" =>
      match normOf (strAt hd 1) with
      | some nm =>
          let x := vecAt vs 0
          let y := vecAt vs 1
          if natAt hd 0 ≥ max x.length y.length then .error "assert"
          else .ok [correlation x y (natAt hd 0) nm (meanPow x (max x.length y.length))]
      | none => .error "value"
  | "xcorr" =>
      match normOf (strAt hd 1) with
      | some nm =>
          let x := vecAt vs 0
          let y := vecAt vs 1
          if x.length ≠ y.length || natAt hd 0 > x.length then .error "assert"
          else .ok [xcorr x y (natAt hd 0) nm (meanPow x x.length)]
      | none => .error "value"
  | "corrmtx" =>
      match methodOf (strAt hd 1) with
      | some m => .ok (matReply (corrmtx (vecAt vs 0) (natAt hd 0) m))
      | none => .error "value"
  | "lev" =>
      match levinson (scalAt vs 0) (vecAt vs 1) (natAt hd 0) (natAt hd 1 = 1) with
      | .ok s => .ok [s.A, [s.P], s.ref]
      | .error e => .error e
  | "levup" => .ok [levup (vecAt vs 0) (scalAt vs 1)]
  | "levdown" => .ok [levdown (vecAt vs 0)]
  | "rc2poly" => let r := rc2poly (vecAt vs 0) (scalAt vs 1); .ok [r.1, [r.2]]
  | "poly2rc" => .ok [poly2rc (vecAt vs 0)]
  | "poly2ac" => .ok [poly2ac (vecAt vs 0) (scalAt vs 1)]
  | "rc2ac" => .ok [rc2ac (vecAt vs 0) (scalAt vs 1)]
  | "hermtoep" =>
      match hermtoep (scalAt vs 0) (vecAt vs 1) (vecAt vs 2) with
      | .ok x => .ok [x] | .error e => .error e
  | "toeplitz" =>
      match toeplitz (scalAt vs 0) (vecAt vs 1) (vecAt vs 2) (vecAt vs 3) with
      | .ok x => .ok [x] | .error e => .error e
  | "t2o" => .ok [twosided2onesided (vecAt vs 0)]
  | "o2t" => .ok [onesided2twosided (vecAt vs 0)]
  | "t2c" => .ok [twosided2centerdc (vecAt vs 0)]
  | "c2t" => .ok [centerdc2twosided (vecAt vs 0)]
  | "cshift" => .ok [cshift (vecAt vs 0) (natAt hd 0)]
  | "rangebins" =>
      match sideOf (strAt hd 0) with
      | some sd => .ok [(rangeBins sd (natAt hd 1)).map intK]
      | none => .error "value"
  | "convpath" =>
      -- convpath isComplex nfft cur t1 t2 ... | p     → the PSD after each `sides = t_i`
      match sideOf (strAt hd 2), (hd.drop 3).mapM sideOf with
      | some cur, some ts =>
          match convertPath (natAt hd 0 = 1) (natAt hd 1) cur (vecAt vs 0) ts with
          | some r => .ok r
          | none => .error "assert"
      | _, _ => .error "value"
  | "burg" =>
      -- burg order crit | x        (crit = "none" or a criterion name)
      let x := vecAt vs 0
      let name := strAt hd 1
      let useCrit := name ≠ "none"
      let rho0 := (burgInit x).rho
      -- stop k ρ_k : criterion at order k exceeds the one at order k-1 (Model/Criteria.lean, evaluated on the real parts)
      let crit : Option Crit := match name with
        | "AIC" => some .AIC | "AICc" => some .AICc | "KIC" => some .KIC | "AKICc" => some .AKICc
        | "FPE" => some .FPE | "MDL" => some .MDL | _ => none
      let supported := !useCrit || (crit.isSome && (LogRe.logRe rho0).isSome)
      if !supported then .error "unsupported" else
      let stop := fun (k : Nat) (rk : K) =>
        let prev := if k = 1 then rho0 else (burgRun x (k - 1)).rho
        match crit with
        | some c => critStops c x.length (ReF.reF prev) (ReF.reF rk) k
        | none => false
      match arburg x (natAt hd 0) useCrit stop with
      | .ok st => .ok [st.a, [st.rho], st.ref]
      | .error e => .error e
  | "arma2psd" =>
      -- arma2psd nfft hasA hasB | A | B | rho | T
      let nfft := natAt hd 0
      needTw nfft (fun t =>
        let A := if natAt hd 1 = 1 then some (vecAt vs 0) else none
        let B := if natAt hd 2 = 1 then some (vecAt vs 1) else none
        let la := match A with | some a => a.length | none => 0
        let lb := match B with | some b => b.length | none => 0
        if la ≥ nfft || lb ≥ nfft then .error "index"
        else .ok [arma2psd t A B (scalAt vs 2) (scalAt vs 3) nfft])
  | "armaclass" =>
      -- armaclass isReal nfft scale hasA hasB | A | B | rho | sampling | twoPi
      let nfft := natAt hd 1
      needTw nfft (fun t =>
        let A := if natAt hd 3 = 1 then some (vecAt vs 0) else none
        let B := if natAt hd 4 = 1 then some (vecAt vs 1) else none
        let la := match A with | some a => a.length | none => 0
        let lb := match B with | some b => b.length | none => 0
        if la ≥ nfft || lb ≥ nfft then .error "index"
        else
          let raw := arma2psd t A B (scalAt vs 2) (scalAt vs 3) nfft
          .ok [classPsd raw (natAt hd 0 = 1) nfft (natAt hd 2 = 1) (scalAt vs 4) (scalAt vs 3)])
  | "classglue" =>
      -- classglue kind isReal nfft scale | raw | twoPi | sampling
      let kind := match strAt hd 0 with | "take" => GlueKind.take | "eigen" => GlueKind.eigen | _ => GlueKind.fold2
      .ok [classCall kind (vecAt vs 0) (natAt hd 1 = 1) (natAt hd 2) (natAt hd 3 = 1) (scalAt vs 1) (scalAt vs 2)]
  | "classpsd" =>
      -- classpsd isReal nfft scale | raw | twoPi | sampling
      .ok [classPsd (vecAt vs 0) (natAt hd 0 = 1) (natAt hd 1) (natAt hd 2 = 1) (scalAt vs 1) (scalAt vs 2)]
  | "minvar" =>
      -- minvar nfft | a (leading 1 included) | P | sampling
      let nfft := natAt hd 0
      needTw nfft (fun t => .ok [minvarPsd t (vecAt vs 0) (scalAt vs 1) (scalAt vs 2) nfft])
  | "aryule" =>
      match normOf (strAt hd 1) with
      | some nm =>
          let x := vecAt vs 0
          if natAt hd 0 ≥ x.length then .error "assert"
          else let st := aryule x (natAt hd 0) nm; .ok [st.A, [st.P], st.ref]
      | none => .error "value"
  | "ma" =>
      match maEstimate (vecAt vs 0) (natAt hd 0) (natAt hd 1) with
      | .ok (b, rho) => .ok [b, [rho]]
      | .error e => .error e
  | "arcovar" | "modcovar" | "arcovarm" | "modcovarm" =>
      let x := vecAt vs 0
      let p := natAt hd 0
      let r := match cmd with
        | "arcovar" => arcovar x p | "modcovar" => modcovar x p
        | "arcovarm" => arcovarMarple x p | _ => modcovarMarple x p
      match r with
      | some (a, e) => .ok [a, [e]]
      | none => .error "singular"
  | "arcovarmr" | "modcovarmr" =>
      -- the transliterated Marple recursions (Model/Marple.lean); `err <exit>` names the exit taken
      let x := vecAt vs 0
      let p := natAt hd 0
      match (if cmd = "arcovarmr" then arcovarMarpleCore x p else modcovarMarpleCore x p) with
      | .ok (a, e) => .ok [a, [e]]
      | .error e => .error e
  | "arma" =>
      match armaEstimate (vecAt vs 0) (natAt hd 0) (natAt hd 1) (natAt hd 2) with
      | .ok (a, b, rho) => .ok [a, b, [rho]]
      | .error e => .error e
  | "fb" => .ok (matReply (fbMatrix (vecAt vs 0) (natAt hd 0)))
  | "eigenpsd" =>
      -- eigenpsd P nfft nsig ev | S | col_0 | col_1 ...   (col_i = V[0:P, i] of the code)
      let nfft := natAt hd 1
      needTw nfft (fun t =>
        -- section 0 holds the singular values followed by the machine epsilon used by the divisor floor
        let Sraw := (vecAt vs 0).dropLast
        let eps := nth (vecAt vs 0) Sraw.length
        .ok [eigenPsd t (vs.drop 1) (floorS Sraw eps) (natAt hd 2) (natAt hd 0) nfft (natAt hd 3 = 1)])
  | "eigenclass" => .ok [eigenClassFold (vecAt vs 0) (natAt hd 0 = 1) (natAt hd 1)]
  | "nsigthr" => .ok [[((signalSpace (vecAt vs 0) none (some (scalAt vs 1)) 0 : Nat) : K)]]
  | "eigenvalidate" =>
      -- eigenvalidate methodOk hasNsig nsigSign nsigAbs hasThreshold N P
      let ns : Option Int := if natAt hd 1 = 1 then some ((if natAt hd 2 = 1 then -1 else 1) * (natAt hd 3 : Int)) else none
      match eigenValidate (natAt hd 0 = 1) ns (natAt hd 4 = 1) (natAt hd 5) (natAt hd 6) with
      | .ok _ => .ok []
      | .error e => .error e
  | "mtm" =>
      -- mtm method nfft | x | lams | tolc | taper_0 | taper_1 ...
      let nfft := natAt hd 1
      let meth := match strAt hd 0 with | "unity" => MtMethod.unity | "eigen" => MtMethod.eigen | _ => MtMethod.adapt
      needTw nfft (fun t =>
        let x := vecAt vs 0
        -- a concentration ratio handed over by the C routine's glue can be 1 + a few ulp: the code floors 1 - λ at 0
        let lams := (vecAt vs 1).map (fun l => if reGt l 1 then 1 else l)
        let tapers := vs.drop 3
        let Sk := tapers.map (fun tp => eigenspectrum t x tp nfft)
        let SkA := Sk.map (fun r => r.map abs2)
        let w := pmtmWeights meth x lams SkA nfft (scalAt vs 2)
        let mean := mtMean meth SkA w nfft lams.length
        .ok (Sk ++ [w.flatten, mean]))
  | "minvarx" =>
      -- minvarx order nfft | x | sampling      → psd, AR vector (leading 1), reflection coefficients
      let nfft := natAt hd 1
      let m := natAt hd 0
      if m = 0 || nfft = 0 then .error "value" else
      needTw nfft (fun t =>
        let x := vecAt vs 0
        if m = 1 then .error "value"   -- arburg(X, 0) raises ValueError
        else
        match arburg x (m - 1) false (fun _ _ => false) with
        | .ok _ => let o := minvar t x m (scalAt vs 1) nfft; .ok [o.psd, o.ar, o.ref]
        | .error e => .error e)
  | "minvarident" =>
      -- minvarident order | x    → [ψ_K (K < m)], [Σ_{i-j=K} (R⁻¹)_{ij}] with R the Toeplitz matrix of the Burg model
      let m := natAt hd 0
      let x := vecAt vs 0
      if m < 2 then .error "value" else
      match arburg x (m - 1) false (fun _ _ => false) with
      | .error e => .error e
      | .ok st =>
        let a := (1 : K) :: st.a
        let psi := minvarPsi a st.rho (2 * m)
        let r := poly2ac st.a st.rho
        let R : Mat K := vec m (fun i => vec m (fun j => if j ≤ i then nth r (i - j) else conj (nth r (j - i))))
        match inverse R m with
        | none => .error "singular"
        | some Ri =>
          .ok [vec m (nth psi),
               vec m (fun k => sumR (m - k) (fun j => mentryM Ri (j + k) j)),
               vec m (fun k => sumR (m - k) (fun j => mentryM Ri j (j + k)))]
  | "lpc" =>
      -- lpc order nfft | x     (nfft = 2**nextpow2(2*len(x)-1), supplied by the caller)
      let nfft := natAt hd 1
      needTw nfft (fun t =>
        let tinv : List K := vec nfft (fun m => nth t ((nfft - m) % nfft))
        let st := lpc t tinv (vecAt vs 0) nfft (natAt hd 0)
        .ok [st.A, [st.P]])
  | "lsfrecombine" =>
      -- lsfrecombine p | rQ | rP
      .ok [lsfRecombine (vecAt vs 0) (vecAt vs 1) (natAt hd 0)]
  | "convhist" =>
      -- convhist isComplex nfft cur set:two get:center ... | p
      match sideOf (strAt hd 2), (hd.drop 3).mapM opOf with
      | some cur, some ops =>
          match convertHistory (natAt hd 0 = 1) (natAt hd 1) cur (vecAt vs 0) ops with
          | some r => .ok r
          | none => .error "assert"
      | _, _ => .error "value"
  | _ => .error "unknown"

end Handlers

/-- commands that exist only over the doubles (transcendental functions): windows, ENBW, LAR / inverse-sine -/
def handleReal (cmd : String) (hd : List String) (vs : List (List CFloat)) : Option (Reply CFloat) :=
  let N := natAt hd 1
  let par := fun (i : Nat) => (nth (vs.getD 0 []) i).re
  let out := fun (w : List Float) => some (Except.ok [w.map (fun v => (⟨v, 0.0⟩ : CFloat))])
  match cmd with
  | "window" =>
    match strAt hd 0 with
    | "window_rectangle" => out (wRectangle N)
    | "window_hamming" => out (wHamming N)
    | "window_hann" => out (wHann N)
    | "window_bartlett" => out (wBartlett N)
    | "window_blackman" => out (wBlackman N (par 0))
    | "window_nuttall" => out (wNuttall N)
    | "window_blackman_nuttall" => out (wBlackmanNuttall N)
    | "window_blackman_harris" => out (wBlackmanHarris N)
    | "window_flattop" => out (wFlattop N (par 0 == 1.0))
    | "window_bartlett_hann" => out (wBartlettHann N)
    | "window_cosine" => out (wCosine N)
    | "window_lanczos" => out (wLanczos N)
    | "window_gaussian" => out (wGaussian N (par 0))
    | "window_bohman" => out (wBohman N)
    | "window_riesz" => out (wRiesz N)
    | "window_riemann" => out (wRiemann N)
    | "window_poisson" => out (wPoisson N (par 0))
    | "window_poisson_hanning" => out (wPoissonHanning N (par 0))
    | "window_cauchy" => out (wCauchy N (par 0))
    | "window_parzen" => out (wParzen N)
    | "window_tukey" => out (wTukey N (par 0) (par 0 == 0.0) (par 0 == 1.0))
    | "window_kaiser" => out (wKaiser N (par 0))
    | "window_taylor" => out (wTaylor N (par 0).toUInt64.toNat (par 1))
    | _ => some (.error "unsupported")
  | "dpssglue" =>
      -- dpssglue N | NW | tapsum | raw_0 | raw_1 ...   → tapers (k vectors), eigenvalues
      let Nn := natAt hd 0
      let re := fun (v : List CFloat) => v.map (fun z => z.re)
      let r := dpssGlue Nn (par 0) ((vs.drop 2).map re) (re (vs.getD 1 []))
      some (.ok ((r.1 ++ [r.2]).map (fun w => w.map (fun v => (⟨v, 0.0⟩ : CFloat)))))
  | "eigcrit" =>
      -- eigcrit aic|mdl NP | S      → criterion values (aic_eigen / mdl_eigen of S with N = 2·NP), [NSIG = argmin + 1]
      let S := (vs.getD 0 []).map (fun z => z.re)
      let mdl := strAt hd 0 == "mdl"
      let vals := if mdl then mdlEigen S (2 * N) else aicEigen S (2 * N)
      if vals.isEmpty then some (.error "value")      -- numpy.argmin of an empty sequence raises ValueError
      else some (.ok ([vals, [Float.ofNat (signalSpaceCrit S N mdl)]].map (fun w => w.map (fun v => (⟨v, 0.0⟩ : CFloat)))))
  | "dpsstri" =>
      -- dpsstri N | W      (W = npi/num_points as the C routine computes it)   → diag (N entries), offdiag (N entries,
      -- offdiag[i] couples rows i-1 and i; offdiag[0] = 0 is unused), exactly the arrays `multitap` hands to EISPACK
      let r := dpssTriArrays (natAt hd 0) (par 0)
      some (.ok ([r.1, r.2].map (fun w => w.map (fun v => (⟨v, 0.0⟩ : CFloat)))))
  | "enbw" => out [enbw ((vs.getD 0 []).map (fun z => z.re))]
  | "rc2lar" => out ((vs.getD 0 []).map (fun z => rc2lar z.re))
  | "lar2rc" => out ((vs.getD 0 []).map (fun z => lar2rc z.re))
  | "rc2is" => out ((vs.getD 0 []).map (fun z => rc2is z.re))
  | "is2rc" => out ((vs.getD 0 []).map (fun z => is2rc z.re))
  | _ => none

/-! ### object state machine (no scalars involved) -/

def parseObjOp (t : String) : Option ObjOp :=
  let n := fun (s : String) => s.toNat?
  match t.splitOn ":" with
  | ["data", i, c, k] => do pure (.setData (← n i) ((← n c) = 1) (← n k))
  | ["nfft", k] => (n k).map .setNfft
  | ["nfftnone"] => some .setNfftNone
  | ["nfftpow2"] => some .setNfftPow2
  | ["samp", k] => (n k).map .setSamp
  | ["detrend", k] => (n k).map .setDetrend
  | ["scale", k] => (n k).map (fun v => .setScale (v = 1))
  | ["window", k] => (n k).map .setWindow
  | ["lag", k] => (n k).map .setLag
  | ["ar", k] => (n k).map .setArOrder
  | ["ma", k] => (n k).map .setMaOrder
  | ["sides", "onesided"] => some (.setSides .one)
  | ["sides", "twosided"] => some (.setSides .two)
  | ["sides", "centerdc"] => some (.setSides .center)
  | ["sides", "default"] => some (.setSides .dflt)
  | ["call"] => some .call
  | ["read"] => some .read
  | _ => none

def sideCode : Side → Nat
  | .one => 1 | .two => 2 | .center => 3

def b2n (b : Bool) : Nat := if b then 1 else 0

def obsLine (s : ObjState) (err : Bool) : String :=
  let c := match s.cache with
    | some (a, sd) => [1, a.dataId, b2n a.cplx, a.N, a.nfft, a.samp, a.detrend, b2n a.scale, a.window, a.lag, a.arOrder,
                       a.maOrder, sideCode sd]
    | none => [0, 0, 0, 0, 0, 0, 0, 0, 0, 0, 0, 0, 0]
  " ".intercalate (([b2n err, sideCode s.sides, s.a.nfft, s.rangeN, s.rangeSamp, freqLen s] ++ c).map toString)

/-- `objhist parametric cplx N nfft samp detrend scale window lag ar ma dataId op op …`
    reply: `ok ; <obs after op 1> ; <obs after op 2> …` (plain naturals) -/
def runObjHist (hd : List String) : String :=
  let g := fun i => natAt hd i
  let a : Attrs := { dataId := g 11, cplx := g 1 = 1, N := g 2, nfft := g 3, samp := g 4, detrend := g 5, scale := g 6 = 1,
                     window := g 7, lag := g 8, arOrder := g 9, maOrder := g 10 }
  match (hd.drop 12).mapM parseObjOp with
  | none => "err parse"
  | some ops =>
    let (_, outs) := ops.foldl (fun (acc : ObjState × List String) op =>
      let r := objStep acc.1 op
      (r.1, acc.2 ++ [obsLine r.1 r.2])) (objInit a (g 0 = 1), [])
    "ok ; " ++ " ; ".intercalate outs

/-- `objhistf …` : as `objhist`, for estimators that can fail (`Model/ObjectF.lean`).  An operation written `op!` is executed
    with `ok (current attributes) = false` (the harness obtains that bit from a freshly constructed object with the same
    attribute values); `objStepF` evaluates `ok` at the current attributes only. -/
def runObjHistF (hd : List String) : String :=
  let g := fun i => natAt hd i
  let a : Attrs := { dataId := g 11, cplx := g 1 = 1, N := g 2, nfft := g 3, samp := g 4, detrend := g 5, scale := g 6 = 1,
                     window := g 7, lag := g 8, arOrder := g 9, maOrder := g 10 }
  let parse := fun (t : String) =>
    match t.splitOn "!" with
    | [b, ""] => (parseObjOp b).map (fun o => (o, false))
    | [b] => (parseObjOp b).map (fun o => (o, true))
    | _ => none
  match (hd.drop 12).mapM parse with
  | none => "err parse"
  | some ops =>
    let (_, outs) := ops.foldl (fun (acc : ObjState × List String) (op : ObjOp × Bool) =>
      let r := objStepF (fun _ => op.2) acc.1 op.1
      (r.1, acc.2 ++ [obsLine r.1 r.2])) (objInit a (g 0 = 1), [])
    "ok ; " ++ " ; ".intercalate outs

def runAt (K : Type) [Add K] [Sub K] [Mul K] [Div K] [Neg K] [OfNat K 0] [OfNat K 1] [NatCast K]
    [Conj K] [ReOrd K] [Twid K] [LogRe K] [ReF K] [IsZero K] [Codec K] (cmd : String) (hd : List String)
    (secs : List (List String)) : String :=
  match secs.mapM (parseVec (K := K)) with
  | none => "err parse"
  | some vs =>
    match handle (K := K) cmd hd vs with
    | .ok out => "ok" ++ String.join (out.map (fun v => " | " ++ showVec v))
    | .error e => "err " ++ e

def processLine (line : String) : String :=
  let toks := (line.splitOn " ").filter (· ≠ "")
  match splitSections toks with
  | (cmd :: mode :: hd) :: secs =>
      if cmd = "objhist" then runObjHist hd
      else if cmd = "objhistf" then runObjHistF hd
      else if mode = "F" then
        match secs.mapM (parseVec (K := CFloat)) with
        | none => "err parse"
        | some vs =>
          match handleReal cmd hd vs with
          | some (.ok out) => "ok" ++ String.join (out.map (fun v => " | " ++ showVec v))
          | some (.error e) => "err " ++ e
          | none => runAt CFloat cmd hd secs
      else if mode = "Q" then runAt CRat cmd hd secs
      else "err mode"
  | _ => "err parse"

partial def loop (h : IO.FS.Stream) (out : IO.FS.Stream) : IO Unit := do
  let line ← h.getLine
  if line.isEmpty then return ()
  let l := (line.replace "\n" "").replace "\r" ""
  if l.isEmpty then out.putStrLn "" else out.putStrLn (processLine l)
  loop h out

end SpecVerif

def main : IO Unit := do
  let stdin ← IO.getStdin
  let stdout ← IO.getStdout
  SpecVerif.loop stdin stdout
