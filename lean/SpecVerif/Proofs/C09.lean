import SpecVerif.Proofs.Lemmas.Correlation
import Mathlib.Algebra.Star.Rat
import SpecVerif.Proofs.Lemmas.CRatField
/-
  C09 — the correlation function (`CORRELATION`, `xcorr`) and the data matrix `corrmtx`.

  Property theorems only (helper lemmas live in `Proofs/Lemmas/Correlation.lean`).  `K` is any field
  with an involution (`ℂ` with `star = conj` in particular); the order-dependent clauses
  (`r[0] ≥ |r[k]|`, positive semi-definiteness) are stated for `ℂ`.

  Conventions of the model: `nth l i` is zero-padded indexing, the common length is
  `n = max x.length y.length`, and lag `k` of the raw correlation is `Σ_{j<n-k} x[j+k]·conj y[j]`.
  `mentry M i j` is entry `(i,j)` of a list-of-rows matrix and
  `hermToep r a b = r[a-b]` for `b ≤ a`, `conj r[b-a]` for `a < b`.

  Remark on divisors: the definition clauses are equalities of quotients with the *same* divisor on
  both sides (`n`, `n-k`, or `rms2`), so they need no non-vanishing hypothesis; every clause whose
  truth would depend on a divisor being non-zero (`coeff_eq_ratio`, `xcorr_coeff_lag0`, `gram_autocorr`,
  `toeplitz_*`, `r0_ge_abs_rk`) states that hypothesis explicitly.
-/
namespace SpecVerif.C09
open Finset SpecVerif

section Generic
variable {K : Type} [Field K] [StarRing K]

/-! ### lengths -/

/-- `CORRELATION` returns lags `0..maxlags` -/
theorem correlation_length (x y : List K) (maxlags : ℕ) (norm : Norm) (rms2 : K) :
    (correlation x y maxlags norm rms2).length = maxlags + 1 := by
  simp [correlation]

/-- `xcorr` returns lags `-L..L` -/
theorem xcorr_length (x y : List K) (L : ℕ) (norm : Norm) (rms2 : K) :
    (xcorr x y L norm rms2).length = 2 * L + 1 := by
  simp [xcorr]

/-! ### definition clauses of `CORRELATION` -/

/-- biased: `r[k] = Σ_{j<n-k} x[j+k]·conj y[j] / n`, the shorter input zero padded to `n` -/
theorem correlation_def_biased (x y : List K) (maxlags k : ℕ) (hk : k ≤ maxlags) (rms2 : K) :
    nth (correlation x y maxlags .biased rms2) k
      = (∑ j ∈ range (max x.length y.length - k), nth x (j + k) * star (nth y j))
          / ((max x.length y.length : ℕ) : K) := by
  rw [nth_correlation x y maxlags .biased rms2 k hk, corrRaw_eq]

/-- unbiased: the same sum divided by `n - k` -/
theorem correlation_def_unbiased (x y : List K) (maxlags k : ℕ) (hk : k ≤ maxlags) (rms2 : K) :
    nth (correlation x y maxlags .unbiased rms2) k
      = (∑ j ∈ range (max x.length y.length - k), nth x (j + k) * star (nth y j))
          / ((max x.length y.length - k : ℕ) : K) := by
  rw [nth_correlation x y maxlags .unbiased rms2 k hk, corrRaw_eq]

/-- `norm=None`: the raw sum -/
theorem correlation_def_none (x y : List K) (maxlags k : ℕ) (hk : k ≤ maxlags) (rms2 : K) :
    nth (correlation x y maxlags .none rms2) k
      = ∑ j ∈ range (max x.length y.length - k), nth x (j + k) * star (nth y j) := by
  rw [nth_correlation x y maxlags .none rms2 k hk, corrRaw_eq]

/-- coeff-normalised autocorrelation (`rms2 = rms(x)² = Σ|x|²/N`): `1` at lag 0 and
`Σ_{j<N-k} x[j+k]·conj x[j] / rms(x)² / N` at lags `k ≥ 1` -/
theorem correlation_def_coeff (x : List K) (maxlags k : ℕ) (hk : k ≤ maxlags) :
    nth (correlation x x maxlags .coeff (meanPow x x.length)) k
      = if k = 0 then 1
        else (∑ j ∈ range (x.length - k), nth x (j + k) * star (nth x j))
          / ((∑ j ∈ range x.length, nth x j * star (nth x j)) / (x.length : K)) / (x.length : K) := by
  rw [nth_correlation x x maxlags .coeff _ k hk, corrRaw_eq, meanPow_eq, Nat.max_self]

/-- for a non-empty signal of non-zero energy the coeff-normalised autocorrelation is the ratio
`r[k]/r[0]` of raw lag sums at every lag (in particular `1` at lag 0) -/
theorem correlation_coeff_eq_ratio (x : List K) (maxlags k : ℕ) (hk : k ≤ maxlags)
    (hN : (x.length : K) ≠ 0) (hP : ∑ j ∈ range x.length, nth x j * star (nth x j) ≠ 0) :
    nth (correlation x x maxlags .coeff (meanPow x x.length)) k
      = (∑ j ∈ range (x.length - k), nth x (j + k) * star (nth x j))
          / (∑ j ∈ range x.length, nth x j * star (nth x j)) := by
  rw [correlation_def_coeff x maxlags k hk]
  by_cases h0 : k = 0
  · subst h0
    simp only [if_true, Nat.sub_zero, Nat.add_zero]
    rw [div_self hP]
  · rw [if_neg h0]
    field_simp

/-! ### the two-sided variant `xcorr` -/

/-- non-negative lags of `xcorr` (equal lengths): entry `L+k` is lag `k` of `CORRELATION`, for the
biased / unbiased / None norms at every `k ≤ L` and for coeff at `k ≥ 1` -/
theorem xcorr_nonneg_lag (x y : List K) (hxy : x.length = y.length) (L k : ℕ) (hk : k ≤ L)
    (norm : Norm) (rms2 : K) (hc : norm ≠ .coeff ∨ 1 ≤ k) :
    nth (xcorr x y L norm rms2) (L + k) = nth (correlation x y L norm rms2) k := by
  have hm : max x.length y.length = x.length := by rw [← hxy, Nat.max_self]
  have hL : L ≤ L + k := Nat.le_add_right L k
  rw [nth_xcorr x y L norm rms2 (L + k) (by omega), nth_correlation x y L norm rms2 k hk, hm]
  simp only [hL, if_true, Nat.add_sub_cancel_left]
  cases norm with
  | biased => rfl
  | unbiased => rfl
  | none => rfl
  | coeff =>
    have hk0 : k ≠ 0 := by
      rcases hc with h | h
      · exact absurd rfl h
      · omega
    simp only [hk0, if_false]

/-- lag 0 of the coeff-normalised two-sided autocorrelation is `1` (non-empty signal of non-zero
energy), as for `CORRELATION` -/
theorem xcorr_coeff_lag0 (x : List K) (L : ℕ)
    (hN : (x.length : K) ≠ 0) (hP : ∑ j ∈ range x.length, nth x j * star (nth x j) ≠ 0) :
    nth (xcorr x x L .coeff (meanPow x x.length)) L = 1 := by
  rw [nth_xcorr x x L .coeff _ L (by omega)]
  simp only [le_refl, if_true, Nat.sub_self]
  rw [corrRaw_zero_eq, meanPow_eq]
  field_simp

/-- negative lags of `xcorr` (equal lengths): entry `L-k`, `1 ≤ k ≤ L`, is `conj(r_yx[k])`, the
conjugate of lag `k` of `CORRELATION(y, x)`.  For the biased / unbiased / None norms the `rms2`
arguments are irrelevant; for coeff the two normalisations must be conjugate (equal when real). -/
theorem xcorr_neg_lag (x y : List K) (hxy : x.length = y.length) (L k : ℕ) (hk1 : 1 ≤ k)
    (hk : k ≤ L) (norm : Norm) (rms2 : K) :
    nth (xcorr x y L norm rms2) (L - k) = star (nth (correlation y x L norm (star rms2)) k) := by
  have hm : max y.length x.length = x.length := by rw [← hxy, Nat.max_self]
  have hL : ¬ L ≤ L - k := by omega
  have hsub : L - (L - k) = k := by omega
  have hk0 : k ≠ 0 := by omega
  rw [nth_xcorr x y L norm rms2 (L - k) (by omega), nth_correlation y x L norm _ k hk, hm]
  simp only [hL, if_false, hsub, conj_eq_star]
  cases norm with
  | biased => simp only [star_div₀, star_natCast]
  | unbiased => simp only [star_div₀, star_natCast]
  | none => rfl
  | coeff => simp only [hk0, if_false, star_div₀, star_natCast, star_star]

/-- the biased / unbiased / None norms of the previous theorem with an arbitrary `rms2'` on the
`CORRELATION` side (the argument is not used by these norms) -/
theorem xcorr_neg_lag_norms (x y : List K) (hxy : x.length = y.length) (L k : ℕ) (hk1 : 1 ≤ k)
    (hk : k ≤ L) (norm : Norm) (hc : norm ≠ .coeff) (rms2 rms2' : K) :
    nth (xcorr x y L norm rms2) (L - k) = star (nth (correlation y x L norm rms2') k) := by
  rw [xcorr_neg_lag x y hxy L k hk1 hk norm rms2,
    nth_correlation y x L norm (star rms2) k hk, nth_correlation y x L norm rms2' k hk]
  cases norm with
  | biased => rfl
  | unbiased => rfl
  | none => rfl
  | coeff => exact absurd rfl hc

/-! ### lag 0 of the biased autocorrelation -/

/-- `r[0] = mean |x|²` for the biased autocorrelation, and `r[0]` is self-adjoint (real) -/
theorem biased_r0_eq_meanPow (x : List K) (maxlags : ℕ) (rms2 : K) :
    nth (correlation x x maxlags .biased rms2) 0 = meanPow x x.length
      ∧ star (nth (correlation x x maxlags .biased rms2) 0)
          = nth (correlation x x maxlags .biased rms2) 0 := by
  have h : nth (correlation x x maxlags .biased rms2) 0 = meanPow x x.length := by
    rw [nth_correlation x x maxlags .biased rms2 0 (Nat.zero_le _), Nat.max_self, corrRaw_zero_eq,
      meanPow_eq]
  refine ⟨h, ?_⟩
  rw [h, meanPow_eq, star_div₀, star_natCast, star_sum]
  congr 1
  apply Finset.sum_congr rfl
  intro j _
  rw [star_mul', star_star, mul_comm]

/-! ### `corrmtx`: shapes and entries -/

/-- number of rows of the five variants: `N+m`, `N`, `N`, `N-m`, `2(N-m)` -/
theorem corrmtx_rows (x : List K) (m : ℕ) (method : CorrMtx) :
    (corrmtx x m method).length =
      (match method with
        | .autocorrelation => x.length + m
        | .prewindowed => x.length
        | .postwindowed => x.length
        | .covariance => x.length - m
        | .modified => 2 * (x.length - m)) := by
  cases method <;> simp [corrmtx]

/-- every row of every variant has `m+1` columns -/
theorem corrmtx_cols (x : List K) (m : ℕ) (method : CorrMtx) (row : List K)
    (hrow : row ∈ corrmtx x m method) : row.length = m + 1 := by
  cases method <;> simp only [corrmtx, vec, List.mem_map, List.mem_range] at hrow
  all_goals obtain ⟨i, _, rfl⟩ := hrow
  all_goals first | (simp; done) | (split <;> simp)

/-- 'autocorrelation': entry `(i,j)`, `i < N+m`, `j ≤ m`, is the zero-padded `x[i-j]` -/
theorem corrmtx_autocorrelation_entry (x : List K) (m i j : ℕ) (hi : i < x.length + m)
    (hj : j ≤ m) :
    mentry (corrmtx x m .autocorrelation) i j = if j ≤ i then nth x (i - j) else 0 :=
  mentry_autocorrelation x m i j hi hj

/-- 'prewindowed': the first `N` rows of the autocorrelation matrix -/
theorem corrmtx_prewindowed_entry (x : List K) (m i j : ℕ) (hi : i < x.length) (hj : j ≤ m) :
    mentry (corrmtx x m .prewindowed) i j = if j ≤ i then nth x (i - j) else 0 :=
  mentry_prewindowed x m i j hi hj

/-- 'postwindowed': rows `m..N+m-1` of the autocorrelation matrix, entry `x[i+m-j]` -/
theorem corrmtx_postwindowed_entry (x : List K) (m i j : ℕ) (hi : i < x.length) (hj : j ≤ m) :
    mentry (corrmtx x m .postwindowed) i j = nth x (i + m - j) :=
  mentry_postwindowed x m i j hi hj

/-- 'covariance': rows `m..N-1` of the autocorrelation matrix (no zero padding is read) -/
theorem corrmtx_covariance_entry (x : List K) (m i j : ℕ) (hi : i < x.length - m) (hj : j ≤ m) :
    mentry (corrmtx x m .covariance) i j = nth x (i + m - j) ∧ i + m - j < x.length :=
  ⟨mentry_covariance x m i j hi hj, by omega⟩

/-- 'modified': the covariance block on top of the conjugated, index-reversed block
`conj x[i+j]` -/
theorem corrmtx_modified_entry (x : List K) (m i j : ℕ) (hi : i < x.length - m) (hj : j ≤ m) :
    mentry (corrmtx x m .modified) i j = nth x (i + m - j)
      ∧ mentry (corrmtx x m .modified) (x.length - m + i) j = star (nth x (i + j)) :=
  ⟨mentry_modified_top x m i j hi hj, mentry_modified_bottom x m i j hi hj⟩

/-! ### Gram matrix of the autocorrelation data matrix -/

/-- **`XᴴX = N·T`**: for `X = corrmtx(x, m, 'autocorrelation')` and every `a, b ≤ m`,
`Σ_{i<N+m} conj(X[i][a])·X[i][b] = N·T[a][b]`, `T` the Hermitian Toeplitz matrix of the biased
autocorrelation `r` (`T[a][b] = r[a-b]` for `b ≤ a`, `conj r[b-a]` for `a < b`). -/
theorem gram_autocorr (x : List K) (m : ℕ) (rms2 : K) (hN : (x.length : K) ≠ 0) (a b : ℕ)
    (ha : a ≤ m) (hb : b ≤ m) :
    ∑ i ∈ range (x.length + m),
        star (mentry (corrmtx x m .autocorrelation) i a) * mentry (corrmtx x m .autocorrelation) i b
      = (x.length : K) * hermToep (correlation x x m .biased rms2) a b := by
  have hE : ∀ i ∈ range (x.length + m),
      star (mentry (corrmtx x m .autocorrelation) i a) * mentry (corrmtx x m .autocorrelation) i b
        = star (shiftEntry x i a) * shiftEntry x i b := by
    intro i hi
    rw [mentry_autocorrelation x m i a (mem_range.mp hi) ha,
      mentry_autocorrelation x m i b (mem_range.mp hi) hb]
  rw [Finset.sum_congr rfl hE, gram_shift x m a b ha hb]
  unfold hermToep
  by_cases h : b ≤ a
  · rw [if_pos h, if_pos h, nth_correlation x x m .biased rms2 (a - b) (by omega), Nat.max_self]
    simp only
    rw [mul_div_cancel₀ _ hN]
  · rw [if_neg h, if_neg h, nth_correlation x x m .biased rms2 (b - a) (by omega), Nat.max_self]
    simp only
    rw [star_div₀, star_natCast, mul_div_cancel₀ _ hN]

/-- the Toeplitz matrix of the biased autocorrelation is Hermitian -/
theorem toeplitz_hermitian (x : List K) (m : ℕ) (rms2 : K) (a b : ℕ) :
    star (hermToep (correlation x x m .biased rms2) a b)
      = hermToep (correlation x x m .biased rms2) b a := by
  unfold hermToep
  by_cases h1 : b ≤ a
  · by_cases h2 : a ≤ b
    · have : a = b := by omega
      subst this
      rw [if_pos h1, Nat.sub_self]
      exact (biased_r0_eq_meanPow x m rms2).2
    · rw [if_pos h1, if_neg h2]
  · have h2 : a ≤ b := by omega
    rw [if_neg h1, if_pos h2, star_star]

/-- quadratic form of `N·T` as a sum of "squares": for every vector `v`,
`N·Σ_a Σ_b conj(v_a) T[a][b] v_b = Σ_i conj((Xv)_i)·(Xv)_i` -/
theorem toeplitz_quadratic_form (x : List K) (m : ℕ) (rms2 : K) (hN : (x.length : K) ≠ 0)
    (v : ℕ → K) :
    (x.length : K) * ∑ a ∈ range (m + 1), ∑ b ∈ range (m + 1),
        star (v a) * hermToep (correlation x x m .biased rms2) a b * v b
      = ∑ i ∈ range (x.length + m),
          star (∑ b ∈ range (m + 1), mentry (corrmtx x m .autocorrelation) i b * v b)
            * (∑ b ∈ range (m + 1), mentry (corrmtx x m .autocorrelation) i b * v b) := by
  rw [← quad_form_gram, Finset.mul_sum]
  apply Finset.sum_congr rfl
  intro a ha
  rw [Finset.mul_sum]
  apply Finset.sum_congr rfl
  intro b hb
  rw [gram_autocorr x m rms2 hN a b (Nat.lt_succ_iff.mp (mem_range.mp ha))
    (Nat.lt_succ_iff.mp (mem_range.mp hb))]
  ring

end Generic

/-! ### complex data: `r[0] ≥ |r[k]|` and positive semi-definiteness -/
section Cplx

/-- raw form: `|Σ_{j<n-k} x[j+k]·conj x[j]| ≤ Σ_{j<n} |x[j]|² = r_raw[0]` for every lag -/
theorem r0_ge_abs_rk_raw (x : List ℂ) (n k : ℕ) :
    ‖corrRaw x x n k‖ ≤ (corrRaw x x n 0).re := by
  rw [corrRaw_zero_complex, Complex.ofReal_re]
  exact norm_corrRaw_le x n k

/-- **`r[0] ≥ |r[k]|`** for the biased autocorrelation of a non-empty complex signal -/
theorem r0_ge_abs_rk (x : List ℂ) (hN : 0 < x.length) (maxlags k : ℕ) (hk : k ≤ maxlags)
    (rms2 : ℂ) :
    ‖nth (correlation x x maxlags .biased rms2) k‖
      ≤ (nth (correlation x x maxlags .biased rms2) 0).re := by
  rw [nth_correlation x x maxlags .biased rms2 k hk,
    nth_correlation x x maxlags .biased rms2 0 (Nat.zero_le _), Nat.max_self]
  simp only
  rw [corrRaw_zero_complex, Complex.norm_div, Complex.norm_natCast, ← Complex.ofReal_natCast,
    ← Complex.ofReal_div, Complex.ofReal_re]
  have hpos : (0 : ℝ) < (x.length : ℝ) := by exact_mod_cast hN
  exact div_le_div_of_nonneg_right (norm_corrRaw_le x x.length k) hpos.le

/-- **positive semi-definiteness**: for a non-empty complex signal and every vector `v`,
`Σ_a Σ_b conj(v_a) T[a][b] v_b = ‖X v‖²/N`, a non-negative real number -/
theorem toeplitz_psd (x : List ℂ) (hN : 0 < x.length) (m : ℕ) (rms2 : ℂ) (v : ℕ → ℂ) :
    ∑ a ∈ range (m + 1), ∑ b ∈ range (m + 1),
        star (v a) * hermToep (correlation x x m .biased rms2) a b * v b
      = (((∑ i ∈ range (x.length + m),
            ‖∑ b ∈ range (m + 1), mentry (corrmtx x m .autocorrelation) i b * v b‖ ^ 2)
          / (x.length : ℝ) : ℝ) : ℂ)
    ∧ 0 ≤ (∑ i ∈ range (x.length + m),
            ‖∑ b ∈ range (m + 1), mentry (corrmtx x m .autocorrelation) i b * v b‖ ^ 2)
          / (x.length : ℝ) := by
  have hNC : ((x.length : ℕ) : ℂ) ≠ 0 := by
    exact_mod_cast hN.ne'
  constructor
  · have h := toeplitz_quadratic_form x m rms2 hNC v
    rw [sum_star_mul_self_complex] at h
    rw [Complex.ofReal_div, Complex.ofReal_natCast, ← h, mul_div_cancel_left₀ _ hNC]
  · apply div_nonneg
    · exact Finset.sum_nonneg (fun i _ => sq_nonneg _)
    · exact Nat.cast_nonneg _

end Cplx

/-! ### non-vacuity -/

/-- the hypotheses (`k ≤ maxlags`, non-zero length and energy) are met by `x = [1,2,3]` over `ℚ`:
the biased lag-1 autocorrelation is `(2·1 + 3·2)/3` -/
example : nth (correlation ([1, 2, 3] : List ℚ) [1, 2, 3] 2 .biased 0) 1 = 8 / 3 := by
  rw [correlation_def_biased _ _ 2 1 (by norm_num)]
  simp [Finset.sum_range_succ, nth]
  norm_num

example : (([1, 2, 3] : List ℚ).length : ℚ) ≠ 0
    ∧ ∑ j ∈ range ([1, 2, 3] : List ℚ).length,
        nth ([1, 2, 3] : List ℚ) j * star (nth ([1, 2, 3] : List ℚ) j) ≠ 0 := by
  simp [Finset.sum_range_succ, nth]
  norm_num

example : 0 < ([1, Complex.I] : List ℂ).length := by simp

/-! ### instantiation at the executed scalar type `CRat`

`Lemmas/CRatField.lean` makes the Gaussian rationals of the executable model a `Field` / `StarRing` whose
operations ARE the model's hand-written instances.  The theorems below are the generic theorems of this
file specialised to `K := CRat` (by plain application — no rewriting): their statements elaborate to the
model functions applied to the model's own instances (`CRat.instAdd`, `CRat.instMul`, `CRat.instDiv`, …,
`CRat.instConj`), i.e. to the code that the differential test executes; `conj` is the model's conjugation.
The `example … := rfl` lines check that the `Field`-path elaboration used by the generic theorems,
instantiated at `CRat`, is that very function. -/
section CRatInstantiation

/-- **`correlation_def_biased` for the executed model** -/
theorem correlation_def_biased_CRat (x y : List CRat) (maxlags k : ℕ) (hk : k ≤ maxlags) (rms2 : CRat) :
    nth (correlation x y maxlags .biased rms2) k
      = (∑ j ∈ range (max x.length y.length - k), nth x (j + k) * conj (nth y j))
          / ((max x.length y.length : ℕ) : CRat) :=
  correlation_def_biased x y maxlags k hk rms2

/-- **`correlation_def_coeff` for the executed model** -/
theorem correlation_def_coeff_CRat (x : List CRat) (maxlags k : ℕ) (hk : k ≤ maxlags) :
    nth (correlation x x maxlags .coeff (meanPow x x.length)) k
      = if k = 0 then 1
        else (∑ j ∈ range (x.length - k), nth x (j + k) * conj (nth x j))
          / ((∑ j ∈ range x.length, nth x j * conj (nth x j)) / (x.length : CRat))
          / (x.length : CRat) :=
  correlation_def_coeff x maxlags k hk

example : (fun (K : Type) [Field K] [StarRing K] => (correlation : List K → _)) CRat
    = @correlation CRat CRat.instAdd CRat.instMul CRat.instDiv CRat.instOfNatOfNatNat
        CRat.instOfNatOfNatNat_1 CRat.instNatCast CRat.instConj := rfl
example : @correlation CRat CRat.instAdd CRat.instMul CRat.instDiv CRat.instOfNatOfNatNat
    CRat.instOfNatOfNatNat_1 CRat.instNatCast CRat.instConj = correlation := rfl

end CRatInstantiation

end SpecVerif.C09
