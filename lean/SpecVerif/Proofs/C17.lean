import SpecVerif.Proofs.Lemmas.Eigen
import SpecVerif.Proofs.Lemmas.EigenOnly
import Mathlib.Data.Complex.Basic
import Mathlib.Analysis.Complex.Basic
/-
  C17 — MUSIC / EV pseudo-spectra (`eigenfre.py`: `eigen`, `pmusic`, `pev`).

  Property theorems only (helpers: `Proofs/Lemmas/Eigen.lean`, namespace `SpecVerif.EigenL`).
  `F` is a field with involution (`ℂ`), `ω` an `NFFT`-th root of unity with `star ω = ω⁻¹` (numpy's
  `e^{-2πi/NFFT}`).  `numpy.linalg.svd` is a parameter of the model: `cols` (column `i` = the code's
  `V[0:P, i]`, i.e. entry `K` is `-star (v_i K)` for the `i`-th right singular vector `v_i`) and the
  singular values `S` are inputs; the SVD contract "`FB · v_i = 0` for the noise vectors" is a hypothesis.
  The noiseless signal is `tones N T c z = [Σ_{m<T} c_m z_m^n | n < N]`.
-/
namespace SpecVerif.C17
open Finset SpecVerif SpecVerif.EigenL

section Star
variable {F : Type} [Field F] [StarRing F]

/-! ### 1. the forward-backward data matrix -/

/-- `FB` has `2·NP` rows (`NP = min (N-P) 100`), each of length `P` -/
theorem fb_shape (x : List F) (P : ℕ) :
    (fbMatrix x P).length = 2 * fbNP x.length P ∧ ∀ r ∈ fbMatrix x P, r.length = P := by
  refine ⟨by simp [fbMatrix], ?_⟩
  intro r hr
  simp only [fbMatrix, vec, List.mem_map, List.mem_range] at hr
  obtain ⟨i, _, rfl⟩ := hr
  split_ifs <;> simp

/-- `FB[I,K] = x[I+P-1-K]` and `FB[NP+I,K] = conj x[I+K+1]` for `I < NP`, `K < P`; both reads are
    inside the data -/
theorem fb_entry (x : List F) (P I K : ℕ) (hI : I < fbNP x.length P) (hK : K < P) :
    (I + P - 1 - K < x.length ∧ mentryM (fbMatrix x P) I K = nth x (I + P - 1 - K)) ∧
    (I + K + 1 < x.length ∧
      mentryM (fbMatrix x P) (fbNP x.length P + I) K = star (nth x (I + K + 1))) :=
  ⟨fb_entry_fwd x P I K hI hK, fb_entry_bwd x P I K hI hK⟩

example : mentryM (fbMatrix ([1, 2, 3, 4, 5] : List ℂ) 2) 1 1 = 2
    ∧ mentryM (fbMatrix ([1, 2, 3, 4, 5] : List ℂ) 2) 4 1 = star 4 := by
  have h : (1 : ℕ) < fbNP ([1, 2, 3, 4, 5] : List ℂ).length 2 := by decide
  obtain ⟨⟨_, h1⟩, ⟨_, h2⟩⟩ := fb_entry ([1, 2, 3, 4, 5] : List ℂ) 2 1 1 h (by decide)
  have e : fbNP ([1, 2, 3, 4, 5] : List ℂ).length 2 + 1 = 4 := by decide
  rw [e] at h2
  exact ⟨by rw [h1]; simp [nth], by rw [h2]; simp [nth]⟩

/-! ### 2.–3. rows of `FB` for a sum of exponentials; null vectors vanish on the tones -/

/-- forward entry for `x_n = Σ_m c_m z_m^n`: `Σ_m c_m z_m^{I+P-1} (z_m⁻¹)^K` -/
theorem fb_row_tone (N P T I K : ℕ) (c z : ℕ → F) (hz : ∀ m, m < T → z m ≠ 0)
    (hI : I < fbNP N P) (hK : K < P) :
    mentryM (fbMatrix (tones N T c z) P) I K
      = ∑ m ∈ range T, c m * z m ^ (I + P - 1) * (z m)⁻¹ ^ K :=
  fb_entry_tone_fwd N P T I K c z hz hI hK

/-- **Vandermonde step**: a vector annihilated by the first `T` forward rows of `FB` (`T ≤ NP`; `T`
    distinct non-zero nodes with non-zero amplitudes) satisfies `Σ_K v_K z_m^{-K} = 0` at every tone. -/
theorem null_vector_vanishes (N P T : ℕ) (c z v : ℕ → F)
    (hz0 : ∀ m, m < T → z m ≠ 0) (hc : ∀ m, m < T → c m ≠ 0)
    (hzinj : ∀ m m', m < T → m' < T → z m = z m' → m = m')
    (hNP : T ≤ fbNP N P)
    (hnull : ∀ I, I < T →
      ∑ K ∈ range P, mentryM (fbMatrix (tones N T c z) P) I K * v K = 0) :
    ∀ m, m < T → ∑ K ∈ range P, v K * (z m)⁻¹ ^ K = 0 := by
  intro m hm
  rcases Nat.eq_zero_or_pos P with hP | hP
  · subst hP; simp
  have key := amplitudes_zero_range z
    (fun m => c m * z m ^ (P - 1) * ∑ K ∈ range P, v K * (z m)⁻¹ ^ K) hzinj (by
      intro I hI
      rw [← fb_fwd_dot N P T I c z v hz0 hP (by omega)]
      exact hnull I hI) m hm
  rcases mul_eq_zero.mp key with h | h
  · exact absurd h (mul_ne_zero (hc m hm) (pow_ne_zero _ (hz0 m hm)))
  · exact h

/-- **converse (rank ≤ T)**: a vector with `Σ_K v_K z_m^{-K} = 0` at all `T` tones is annihilated by every
    forward row of `FB`, and by every backward row when the nodes have unit modulus; hence `FB` has at
    most `T` non-zero singular values. -/
theorem tone_null_space (N P T : ℕ) (c z v : ℕ → F) (hz0 : ∀ m, m < T → z m ≠ 0)
    (hv : ∀ m, m < T → ∑ K ∈ range P, v K * (z m)⁻¹ ^ K = 0) (I : ℕ) (hI : I < fbNP N P) :
    ∑ K ∈ range P, mentryM (fbMatrix (tones N T c z) P) I K * v K = 0 ∧
    ((∀ m, m < T → star (z m) = (z m)⁻¹) →
      ∑ K ∈ range P, mentryM (fbMatrix (tones N T c z) P) (fbNP N P + I) K * v K = 0) := by
  constructor
  · rcases Nat.eq_zero_or_pos P with hP | hP
    · subst hP; simp
    rw [fb_fwd_dot N P T I c z v hz0 hP hI]
    apply Finset.sum_eq_zero
    intro m hm
    rw [hv m (mem_range.mp hm), mul_zero, zero_mul]
  · intro hunit
    rw [fb_bwd_dot N P T I c z v hunit hI]
    apply Finset.sum_eq_zero
    intro m hm
    rw [hv m (mem_range.mp hm), mul_zero]

/-- **the null space of `FB` is exactly the orthogonal complement of the `T` tone vectors**
    `(z_m^{-K})_K`: so `FB` has exactly `P - T` vanishing and (for `T ≤ P`) `T` non-vanishing singular
    values — the SVD contract then puts the latter first. -/
theorem fb_kernel_iff (N P T : ℕ) (c z v : ℕ → F)
    (hz0 : ∀ m, m < T → z m ≠ 0) (hc : ∀ m, m < T → c m ≠ 0)
    (hzinj : ∀ m m', m < T → m' < T → z m = z m' → m = m') (hNP : T ≤ fbNP N P) :
    (∀ I, I < fbNP N P → ∑ K ∈ range P, mentryM (fbMatrix (tones N T c z) P) I K * v K = 0)
      ↔ (∀ m, m < T → ∑ K ∈ range P, v K * (z m)⁻¹ ^ K = 0) := by
  constructor
  · intro h
    exact null_vector_vanishes N P T c z v hz0 hc hzinj hNP (fun I hI => h I (by omega))
  · intro h I hI
    exact (tone_null_space N P T c z v hz0 h I hI).1

/-! ### 4. the noise-subspace denominator vanishes at a tone on the grid -/

/-- the DFT of a noise column `-star v` vanishes at the bin `k` with `ω^k = z` when
    `Σ_K v_K z^{-K} = 0` -/
theorem noise_term_vanishes_at_tone {ω : F} {nfft P : ℕ} (hn : 0 < nfft) (hω : ω ^ nfft = 1)
    (hstar : star ω = ω⁻¹) (hP : P ≤ nfft) (v : ℕ → F) (zt : F) (k : ℕ) (hk : ω ^ k = zt)
    (hv : ∑ K ∈ range P, v K * zt⁻¹ ^ K = 0) :
    dftBin (twiddles ω nfft) nfft (vec P (fun K => -star (v K))) k = 0 := by
  rw [dftBin_neg_star_col hn hω hstar hP, hk, hv, star_zero, neg_zero]

/-- MUSIC and EV: if every noise column `i ∈ [nsig, P)` is `-star v_i` with `Σ_K v_i K · z^{-K} = 0`, the
    denominator of the pseudo-spectrum is `0` at the FFT bin `k` with `ω^k = z` -/
theorem music_null_at_tone {ω : F} {nfft P : ℕ} (hn : 0 < nfft) (hω : ω ^ nfft = 1)
    (hstar : star ω = ω⁻¹) (hP : P ≤ nfft) (cols : List (List F)) (S : List F) (nsig : ℕ)
    (ev : Bool) (v : ℕ → ℕ → F) (zt : F) (k : ℕ) (hk : ω ^ k = zt)
    (hcols : ∀ i, nsig ≤ i → i < P → cols.getD i [] = vec P (fun K => -star (v i K)))
    (hv : ∀ i, nsig ≤ i → i < P → ∑ K ∈ range P, v i K * zt⁻¹ ^ K = 0) :
    eigenDenom (twiddles ω nfft) cols S nsig P nfft ev k = 0 := by
  apply eigenDenom_eq_zero
  intro i h1 h2
  rw [hcols i h1 h2]
  exact noise_term_vanishes_at_tone hn hω hstar hP (v i) zt k hk (hv i h1 h2)

/-- **poles at the true frequencies** (MUSIC and EV, before reordering): noiseless sum of `T` distinct
    non-zero tones with non-zero amplitudes, `T ≤ NP`, the noise columns `i ∈ [nsig, P)` come from right
    singular vectors `v_i` with `FB · v_i = 0` (SVD contract; only the first `T` forward rows are used);
    then at every tone `z_m` lying on the grid (`ω^k = z_m`) the denominator vanishes. -/
theorem denominator_vanishes_at_tones {ω : F} {nfft P : ℕ} (hn : 0 < nfft) (hω : ω ^ nfft = 1)
    (hstar : star ω = ω⁻¹) (hP : P ≤ nfft) (N T : ℕ) (c z : ℕ → F)
    (hz0 : ∀ m, m < T → z m ≠ 0) (hc : ∀ m, m < T → c m ≠ 0)
    (hzinj : ∀ m m', m < T → m' < T → z m = z m' → m = m') (hNP : T ≤ fbNP N P)
    (cols : List (List F)) (S : List F) (nsig : ℕ) (ev : Bool) (v : ℕ → ℕ → F)
    (hcols : ∀ i, nsig ≤ i → i < P → cols.getD i [] = vec P (fun K => -star (v i K)))
    (hsvd : ∀ i, nsig ≤ i → i < P → ∀ I, I < T →
      ∑ K ∈ range P, mentryM (fbMatrix (tones N T c z) P) I K * v i K = 0)
    (m : ℕ) (hm : m < T) (k : ℕ) (hk : ω ^ k = z m) :
    eigenDenom (twiddles ω nfft) cols S nsig P nfft ev k = 0 :=
  music_null_at_tone hn hω hstar hP cols S nsig ev v (z m) k hk hcols (fun i h1 h2 =>
    null_vector_vanishes N P T c z (v i) hz0 hc hzinj hNP (hsvd i h1 h2) m hm)

/-- non-vacuity: one tone `x_n = (-1)^n`, `N = 5`, `P = 2`, `NFFT = 2`, `ω = -1`, `NSIG = 1`, noise
    singular vector `(1,1)` (so the noise column is `(-1,-1)`) -/
example : eigenDenom (twiddles (-1 : ℂ) 2) [[], [-1, -1]] [2, 0] 1 2 2 false 1 = 0 := by
  refine denominator_vanishes_at_tones (ω := (-1 : ℂ)) (nfft := 2) (P := 2) (by norm_num)
    (by norm_num) (by simp) (le_refl _) 5 1 (fun _ => 1) (fun _ => -1)
    (by intro m _; norm_num) (by intro m _; norm_num) (by intro m m' h h' _; omega) (by decide)
    _ _ 1 false (fun _ _ => 1) ?_ ?_ 0 (by norm_num) 1 (by norm_num)
  · intro i h1 h2
    have : i = 1 := by omega
    subst this
    simp [vec]
  · intro i h1 h2 I hI
    have : I = 0 := by omega
    subst this
    rw [Finset.sum_range_succ, Finset.sum_range_one,
      fb_row_tone 5 2 1 0 0 _ _ (by intro m _; norm_num) (by decide) (by norm_num),
      fb_row_tone 5 2 1 0 1 _ _ (by intro m _; norm_num) (by decide) (by norm_num)]
    norm_num

end Star

section Idx
variable {F : Type} [Field F]

/-! ### 5. where the pole ends up in the function output and in the class output -/

/-- the FFT bin at which a tone of signed frequency bin `b` (`z = ω^{-b} = e^{2πi b/NFFT}`) makes the
    denominator vanish -/
def fftBinOf (nfft : ℕ) (b : Int) : ℕ := (((nfft : Int) - b) % (nfft : Int)).toNat

/-- `fftBinOf` is a bin of the grid and `ω^{fftBinOf b} = ω^{-b}` -/
theorem fftBinOf_spec {ω : F} {nfft : ℕ} (hn : 0 < nfft) (hω : ω ^ nfft = 1) (b : Int) :
    fftBinOf nfft b < nfft ∧ ω ^ fftBinOf nfft b = ω ^ (-b) := by
  refine ⟨?_, pow_fftBin_eq_zpow hn hω b⟩
  unfold fftBinOf
  have h1 : ((nfft : Int) - b) % (nfft : Int) < nfft := Int.emod_lt_of_pos _ (by omega)
  have h0 : 0 ≤ ((nfft : Int) - b) % (nfft : Int) := Int.emod_nonneg _ (by omega)
  omega

/-- `eigen` returns `PSD[h::-1] ++ PSD[NFFT-1:h:-1]`, `h = NFFT/2` -/
theorem eigenReorder_entry (psd : List F) (nfft j : ℕ) (hj : j < nfft) :
    (eigenReorder psd nfft).length = nfft ∧
    nth (eigenReorder psd nfft) j
      = nth psd (if j ≤ nfft / 2 then nfft / 2 - j else nfft + nfft / 2 - j) :=
  ⟨eigenReorder_length psd nfft, nth_eigenReorder psd nfft j hj⟩

/-- function output: the value computed at the FFT bin of signed frequency bin `b`
    (`-h ≤ b < NFFT - h`) is returned at index `h + b` — the entry whose centre-DC frequency is `b` -/
theorem tone_index_function (psd : List F) (nfft : ℕ) (b : Int)
    (h1 : -((nfft / 2 : ℕ) : Int) ≤ b) (h2 : b < (nfft : Int) - ((nfft / 2 : ℕ) : Int)) :
    (((nfft / 2 : ℕ) : Int) + b).toNat < nfft ∧
    nth (eigenReorder psd nfft) (((nfft / 2 : ℕ) : Int) + b).toNat = nth psd (fftBinOf nfft b) := by
  have hj : (((nfft / 2 : ℕ) : Int) + b).toNat < nfft := by omega
  refine ⟨hj, ?_⟩
  rw [nth_eigenReorder psd nfft _ hj, fftBinOf, fftBin_of_signed b h1 h2]

/-- `eigen(...)[0]` at index `h + b` is `1 / denominator` at the FFT bin of signed bin `b` -/
theorem eigenPsd_entry [StarRing F] (tw : List F) (cols : List (List F)) (S : List F) (nsig P nfft : ℕ)
    (ev : Bool) (b : Int)
    (h1 : -((nfft / 2 : ℕ) : Int) ≤ b) (h2 : b < (nfft : Int) - ((nfft / 2 : ℕ) : Int)) :
    nth (eigenPsd tw cols S nsig P nfft ev) (((nfft / 2 : ℕ) : Int) + b).toNat
      = 1 / eigenDenom tw cols S nsig P nfft ev (fftBinOf nfft b) := by
  unfold eigenPsd
  rw [(tone_index_function _ nfft b h1 h2).2, nth_vec, if_pos]
  have hn : 0 < nfft := by omega
  unfold fftBinOf
  have h1 : ((nfft : Int) - b) % (nfft : Int) < nfft := Int.emod_lt_of_pos _ (by omega)
  have h0 : 0 ≤ ((nfft : Int) - b) % (nfft : Int) := Int.emod_nonneg _ (by omega)
  omega

/-- complex data: the class applies `centerdc_2_twosided` = `ifftshift` -/
theorem eigenClassFold_complex (psd : List F) (nfft : ℕ) :
    eigenClassFold psd false nfft = ifftshift psd ∧
    (psd.length = nfft → ∀ i, i < nfft →
      nth (eigenClassFold psd false nfft) i = nth psd ((i + nfft / 2) % nfft)) := by
  have e : eigenClassFold psd false nfft = ifftshift psd := by simp [eigenClassFold]
  refine ⟨e, ?_⟩
  intro hlen i hi
  subst hlen
  rw [e, nth_ifftshift psd i hi]

/-- complex data, class output of the function output: the value of the FFT bin of signed bin `b`
    (any integer) is at index `b mod NFFT` — the entry whose two-sided frequency is that of bin `b` -/
theorem tone_index_class_complex (psd : List F) (nfft : ℕ) (hn : 0 < nfft) (b : Int) :
    binIdx nfft b < nfft ∧
    nth (eigenClassFold (eigenReorder psd nfft) false nfft) (binIdx nfft b)
      = nth psd (fftBinOf nfft b) := by
  have hi : binIdx nfft b < nfft := by
    unfold binIdx
    have h1 : b % (nfft : Int) < nfft := Int.emod_lt_of_pos _ (by omega)
    have h0 : 0 ≤ b % (nfft : Int) := Int.emod_nonneg _ (by omega)
    omega
  refine ⟨hi, ?_⟩
  rw [nth_classFold_reorder_complex psd nfft _ hi, fftBinOf, sub_emod_toNat hn]

/-- real data: the class keeps `L = h + 1` values (either parity), entry `j` is twice the function
    output at index `h - j` (centre-DC frequency bin `-j`) -/
theorem eigenClassFold_real (psd : List F) (nfft j : ℕ) (hj : j ≤ nfft / 2) :
    (eigenClassFold psd true nfft).length = nfft / 2 + 1 ∧
    nth (eigenClassFold psd true nfft) j = 2 * nth psd (nfft / 2 - j) :=
  ⟨classFold_real_length psd nfft, nth_classFold_real psd nfft j hj⟩

/-- real data, class output of the function output: entry `j ≤ h` is twice the value at FFT bin `j`,
    which is the FFT bin of the signed bin `-j`: a real sinusoid of frequency bin `j` contains both tones
    `ω^{∓j}`, so the pole of its negative-frequency tone is reported at one-sided index `j`. -/
theorem tone_index_class_real (psd : List F) (nfft j : ℕ) (hj : j ≤ nfft / 2) (hn : 0 < nfft) :
    nth (eigenClassFold (eigenReorder psd nfft) true nfft) j = 2 * nth psd j ∧
    fftBinOf nfft (-(j : Int)) = j := by
  constructor
  · rw [nth_classFold_real _ nfft j hj, nth_eigenReorder psd nfft _ (by omega), if_pos (by omega)]
    congr 2
    omega
  · unfold fftBinOf
    have e : (nfft : Int) - -(j : Int) = (j : Int) + (nfft : Int) * 1 := by ring
    rw [e, Int.add_mul_emod_self_left, Int.emod_eq_of_lt (by omega) (by omega)]
    omega

example : fftBinOf 8 (-3) = 3 ∧ fftBinOf 8 2 = 6 := by decide

/-
  Full informal claim (NOT proved at full strength): "the K largest local maxima of the MUSIC / EV
  pseudo-spectra lie at the true frequencies to within one bin of the NFFT grid, and the pseudo-spectrum
  is finite wherever the noise-subspace projection does not vanish".
  Proved below: for every tone lying ON the grid (`z_m = ω^{-b}`, signed frequency bin `b`), the entry of
  `eigen(...)[0]` at index `h + b` (the entry whose centre-DC frequency is `b`) is `1 / d` with `d = 0`,
  i.e. a pole of the pseudo-spectrum — numerically the value `1/ε`.  Missing: tones between grid points
  (needs an analytic bound on the denominator near its zero), and that no other bin has a denominator as
  small (needs the noise-subspace projection of the other steering vectors to be bounded away from 0).
  The exact-arithmetic half of the second gap is closed in §6b (`pole_iff_tone`,
  `peaks_exactly_at_true_frequencies`): when the noise vectors span the null space of `FB`, the denominator
  vanishes at NO other grid point and is a positive real there.
-/
/-- poles of the function output at the on-grid true frequencies -/
theorem peaks_at_true_frequencies_partial [StarRing F] {ω : F} {nfft P : ℕ} (hn : 0 < nfft)
    (hω : ω ^ nfft = 1) (hstar : star ω = ω⁻¹) (hP : P ≤ nfft) (N T : ℕ) (c z : ℕ → F)
    (hz0 : ∀ m, m < T → z m ≠ 0) (hc : ∀ m, m < T → c m ≠ 0)
    (hzinj : ∀ m m', m < T → m' < T → z m = z m' → m = m') (hNP : T ≤ fbNP N P)
    (cols : List (List F)) (S : List F) (nsig : ℕ) (ev : Bool) (v : ℕ → ℕ → F)
    (hcols : ∀ i, nsig ≤ i → i < P → cols.getD i [] = vec P (fun K => -star (v i K)))
    (hsvd : ∀ i, nsig ≤ i → i < P → ∀ I, I < T →
      ∑ K ∈ range P, mentryM (fbMatrix (tones N T c z) P) I K * v i K = 0)
    (m : ℕ) (hm : m < T) (b : Int) (hb : z m = ω ^ (-b))
    (h1 : -((nfft / 2 : ℕ) : Int) ≤ b) (h2 : b < (nfft : Int) - ((nfft / 2 : ℕ) : Int)) :
    ∃ d : F, d = 0 ∧ d = eigenDenom (twiddles ω nfft) cols S nsig P nfft ev (fftBinOf nfft b) ∧
      nth (eigenPsd (twiddles ω nfft) cols S nsig P nfft ev) (((nfft / 2 : ℕ) : Int) + b).toNat
        = 1 / d := by
  refine ⟨_, ?_, rfl, eigenPsd_entry _ cols S nsig P nfft ev b h1 h2⟩
  exact denominator_vanishes_at_tones hn hω hstar hP N T c z hz0 hc hzinj hNP cols S nsig ev v
    hcols hsvd m hm _ (by rw [(fftBinOf_spec hn hω b).2, hb])

end Idx

/-! ### 6. positivity -/

/-- MUSIC: the denominator is a non-negative real; EV: likewise when the noise singular values are
    positive reals.  Wherever it does not vanish the pseudo-spectrum value `1 / denominator` is a
    positive real. -/
theorem pseudo_pos {F : Type} [RCLike F] (tw : List F) (cols : List (List F)) (S : List F)
    (nsig P nfft : ℕ) (ev : Bool) (k : ℕ)
    (hS : ev = true → ∀ i, nsig ≤ i → i < P → ∃ s : ℝ, 0 < s ∧ nth S i = (s : F)) :
    ∃ d : ℝ, 0 ≤ d ∧ eigenDenom tw cols S nsig P nfft ev k = (d : F) ∧
      (eigenDenom tw cols S nsig P nfft ev k ≠ 0 →
        0 < 1 / d ∧ 1 / eigenDenom tw cols S nsig P nfft ev k = ((1 / d : ℝ) : F)) := by
  have hsum : ∃ d : ℝ, 0 ≤ d ∧ eigenDenom tw cols S nsig P nfft ev k = (d : F) := by
    unfold eigenDenom
    rw [sumR_eq_sum]
    apply sum_nonneg_real
    intro j hj
    simp only [abs2_eq]
    cases ev with
    | false =>
      exact ⟨_, sq_nonneg _, by rw [if_neg (by simp), mul_star_eq_ofReal]⟩
    | true =>
      obtain ⟨s, hs, he⟩ := hS rfl (j + nsig) (by omega) (by omega)
      refine ⟨‖dftBin tw nfft (cols.getD (j + nsig) []) k‖ ^ 2 / s,
        div_nonneg (sq_nonneg _) hs.le, ?_⟩
      rw [if_pos rfl, mul_star_eq_ofReal, he, RCLike.ofReal_div]
  obtain ⟨d, hd, he⟩ := hsum
  refine ⟨d, hd, he, ?_⟩
  intro hne
  have hd0 : d ≠ 0 := by
    intro h0
    apply hne
    rw [he, h0, RCLike.ofReal_zero]
  have hdpos : 0 < d := lt_of_le_of_ne hd (Ne.symm hd0)
  refine ⟨one_div_pos.mpr hdpos, ?_⟩
  rw [he, RCLike.ofReal_div, RCLike.ofReal_one]

/-! ### 6b. the denominator vanishes ONLY at the true frequencies (`F = ℝ` or `ℂ`) -/

section Only
variable {F : Type} [RCLike F]
open SpecVerif.EigenOnlyL

/-- core (no reference to `FB`): `T < P`; the noise vectors `v_i`, `i ∈ [nsig, P)`, span the tone-null
    space `{u : Σ_K u_K z_m^{-K} = 0, m < T}`; then at every grid point `ω^k` that is none of the tones the
    denominator (MUSIC; EV with positive real floored noise singular values) is a POSITIVE real. -/
theorem denominator_pos_off_tones {ω : F} {nfft P : ℕ} (hn : 0 < nfft) (hω : ω ^ nfft = 1)
    (hstar : star ω = ω⁻¹) (hP : P ≤ nfft) (T : ℕ) (z : ℕ → F) (hT : T < P)
    (cols : List (List F)) (S : List F) (nsig : ℕ) (ev : Bool) (v : ℕ → ℕ → F)
    (hcols : ∀ i, nsig ≤ i → i < P → cols.getD i [] = vec P (fun K => -star (v i K)))
    (hspan : ∀ u : ℕ → F, (∀ m, m < T → ∑ K ∈ range P, u K * (z m)⁻¹ ^ K = 0) →
      ∃ a : ℕ → F, ∀ K, K < P → u K = ∑ i ∈ Ico nsig P, a i * v i K)
    (hS : ev = true → ∀ i, nsig ≤ i → i < P → ∃ s : ℝ, 0 < s ∧ nth S i = (s : F))
    (k : ℕ) (hk : ∀ m, m < T → ω ^ k ≠ z m) :
    ∃ d : ℝ, 0 < d ∧ eigenDenom (twiddles ω nfft) cols S nsig P nfft ev k = (d : F) := by
  obtain ⟨i, h1, h2, hne⟩ := exists_noise_nonvanishing P T nsig z v hT hspan (ω ^ k) hk
  apply eigenDenom_pos_of_term _ cols S nsig P nfft ev k hS i h1 h2
  rw [hcols i h1 h2, dftBin_neg_star_col hn hω hstar hP, neg_ne_zero, Ne, star_eq_zero]
  exact hne

/-- **the converse of `denominator_vanishes_at_tones`**: noiseless sum of `T < P` non-zero unit-modulus
    tones; the noise vectors `v_i`, `i ∈ [nsig, P)`, SPAN the null space of the forward-backward matrix
    (all `2·NP` rows) — what an exact SVD delivers for the zero singular value.  Then at every grid
    point `ω^k` that is NOT a tone the denominator is a positive real, in particular non-zero: the
    pseudo-spectrum has no pole off the true frequencies. -/
theorem denominator_vanishes_only_at_tones {ω : F} {nfft P : ℕ} (hn : 0 < nfft) (hω : ω ^ nfft = 1)
    (hstar : star ω = ω⁻¹) (hP : P ≤ nfft) (N T : ℕ) (c z : ℕ → F) (hT : T < P)
    (hz0 : ∀ m, m < T → z m ≠ 0) (hunit : ∀ m, m < T → star (z m) = (z m)⁻¹)
    (cols : List (List F)) (S : List F) (nsig : ℕ) (ev : Bool) (v : ℕ → ℕ → F)
    (hcols : ∀ i, nsig ≤ i → i < P → cols.getD i [] = vec P (fun K => -star (v i K)))
    (hspan : ∀ u : ℕ → F,
      (∀ r, r < 2 * fbNP N P →
        ∑ K ∈ range P, mentryM (fbMatrix (tones N T c z) P) r K * u K = 0) →
      ∃ a : ℕ → F, ∀ K, K < P → u K = ∑ i ∈ Ico nsig P, a i * v i K)
    (hS : ev = true → ∀ i, nsig ≤ i → i < P → ∃ s : ℝ, 0 < s ∧ nth S i = (s : F))
    (k : ℕ) (hk : ∀ m, m < T → ω ^ k ≠ z m) :
    ∃ d : ℝ, 0 < d ∧ eigenDenom (twiddles ω nfft) cols S nsig P nfft ev k = (d : F) := by
  apply denominator_pos_off_tones hn hω hstar hP T z hT cols S nsig ev v hcols _ hS k hk
  intro u hu
  apply hspan u
  intro r hr
  by_cases h : r < fbNP N P
  · exact (tone_null_space N P T c z u hz0 hu r h).1
  · have e : fbNP N P + (r - fbNP N P) = r := by omega
    have := (tone_null_space N P T c z u hz0 hu (r - fbNP N P) (by omega)).2 hunit
    rw [e] at this
    exact this

/-- the same with the SVD contract in its usual form, `NSIG = T`: the `P - T` noise vectors are null
    vectors of `FB` (only the first `T` forward rows are used) and LINEARLY INDEPENDENT (orthonormal in
    the SVD); linear independence + the dimension count `dim ker = P - T` gives the spanning.  No
    unit-modulus hypothesis is needed in this form. -/
theorem denominator_vanishes_only_at_tones_of_linearIndependent {ω : F} {nfft P : ℕ} (hn : 0 < nfft)
    (hω : ω ^ nfft = 1) (hstar : star ω = ω⁻¹) (hP : P ≤ nfft) (N T : ℕ) (c z : ℕ → F) (hT : T < P)
    (hz0 : ∀ m, m < T → z m ≠ 0) (hc : ∀ m, m < T → c m ≠ 0)
    (hzinj : ∀ m m', m < T → m' < T → z m = z m' → m = m') (hNP : T ≤ fbNP N P)
    (cols : List (List F)) (S : List F) (ev : Bool) (v : ℕ → ℕ → F)
    (hcols : ∀ i, T ≤ i → i < P → cols.getD i [] = vec P (fun K => -star (v i K)))
    (hsvd : ∀ i, T ≤ i → i < P → ∀ I, I < T →
      ∑ K ∈ range P, mentryM (fbMatrix (tones N T c z) P) I K * v i K = 0)
    (hli : LinearIndependent F (fun (i : Fin (P - T)) (K : Fin P) => v (T + i) K))
    (hS : ev = true → ∀ i, T ≤ i → i < P → ∃ s : ℝ, 0 < s ∧ nth S i = (s : F))
    (k : ℕ) (hk : ∀ m, m < T → ω ^ k ≠ z m) :
    ∃ d : ℝ, 0 < d ∧ eigenDenom (twiddles ω nfft) cols S T P nfft ev k = (d : F) :=
  denominator_pos_off_tones hn hω hstar hP T z hT cols S T ev v hcols
    (span_of_linearIndependent P T z v hT.le hzinj hli (fun i h1 h2 =>
      null_vector_vanishes N P T c z (v i) hz0 hc hzinj hNP (hsvd i h1 h2))) hS k hk

/-- **pole iff tone** on the FFT grid: under the hypotheses of both directions (noise vectors are null
    vectors of `FB` and span its null space) the denominator at bin `k` is zero IFF `ω^k` is one of the
    `T` tones. -/
theorem pole_iff_tone {ω : F} {nfft P : ℕ} (hn : 0 < nfft) (hω : ω ^ nfft = 1)
    (hstar : star ω = ω⁻¹) (hP : P ≤ nfft) (N T : ℕ) (c z : ℕ → F) (hT : T < P)
    (hz0 : ∀ m, m < T → z m ≠ 0) (hunit : ∀ m, m < T → star (z m) = (z m)⁻¹)
    (hc : ∀ m, m < T → c m ≠ 0)
    (hzinj : ∀ m m', m < T → m' < T → z m = z m' → m = m') (hNP : T ≤ fbNP N P)
    (cols : List (List F)) (S : List F) (nsig : ℕ) (ev : Bool) (v : ℕ → ℕ → F)
    (hcols : ∀ i, nsig ≤ i → i < P → cols.getD i [] = vec P (fun K => -star (v i K)))
    (hsvd : ∀ i, nsig ≤ i → i < P → ∀ I, I < T →
      ∑ K ∈ range P, mentryM (fbMatrix (tones N T c z) P) I K * v i K = 0)
    (hspan : ∀ u : ℕ → F,
      (∀ r, r < 2 * fbNP N P →
        ∑ K ∈ range P, mentryM (fbMatrix (tones N T c z) P) r K * u K = 0) →
      ∃ a : ℕ → F, ∀ K, K < P → u K = ∑ i ∈ Ico nsig P, a i * v i K)
    (hS : ev = true → ∀ i, nsig ≤ i → i < P → ∃ s : ℝ, 0 < s ∧ nth S i = (s : F))
    (k : ℕ) :
    eigenDenom (twiddles ω nfft) cols S nsig P nfft ev k = 0 ↔ ∃ m, m < T ∧ ω ^ k = z m := by
  constructor
  · intro h0
    by_contra hcon
    obtain ⟨d, hd, he⟩ := denominator_vanishes_only_at_tones hn hω hstar hP N T c z hT hz0 hunit
      cols S nsig ev v hcols hspan hS k (fun m hm h => hcon ⟨m, hm, h⟩)
    rw [h0] at he
    exact hd.ne' (RCLike.ofReal_eq_zero.mp he.symm)
  · rintro ⟨m, hm, hk⟩
    exact denominator_vanishes_at_tones hn hω hstar hP N T c z hz0 hc hzinj hNP cols S nsig ev v
      hcols hsvd m hm k hk

/-- pole iff tone, SVD contract in the form "`NSIG = T`, the noise vectors are `P - T` linearly
    independent null vectors of `FB`" -/
theorem pole_iff_tone_of_linearIndependent {ω : F} {nfft P : ℕ} (hn : 0 < nfft)
    (hω : ω ^ nfft = 1) (hstar : star ω = ω⁻¹) (hP : P ≤ nfft) (N T : ℕ) (c z : ℕ → F) (hT : T < P)
    (hz0 : ∀ m, m < T → z m ≠ 0) (hc : ∀ m, m < T → c m ≠ 0)
    (hzinj : ∀ m m', m < T → m' < T → z m = z m' → m = m') (hNP : T ≤ fbNP N P)
    (cols : List (List F)) (S : List F) (ev : Bool) (v : ℕ → ℕ → F)
    (hcols : ∀ i, T ≤ i → i < P → cols.getD i [] = vec P (fun K => -star (v i K)))
    (hsvd : ∀ i, T ≤ i → i < P → ∀ I, I < T →
      ∑ K ∈ range P, mentryM (fbMatrix (tones N T c z) P) I K * v i K = 0)
    (hli : LinearIndependent F (fun (i : Fin (P - T)) (K : Fin P) => v (T + i) K))
    (hS : ev = true → ∀ i, T ≤ i → i < P → ∃ s : ℝ, 0 < s ∧ nth S i = (s : F))
    (k : ℕ) :
    eigenDenom (twiddles ω nfft) cols S T P nfft ev k = 0 ↔ ∃ m, m < T ∧ ω ^ k = z m := by
  constructor
  · intro h0
    by_contra hcon
    obtain ⟨d, hd, he⟩ := denominator_vanishes_only_at_tones_of_linearIndependent hn hω hstar hP
      N T c z hT hz0 hc hzinj hNP cols S ev v hcols hsvd hli hS k (fun m hm h => hcon ⟨m, hm, h⟩)
    rw [h0] at he
    exact hd.ne' (RCLike.ofReal_eq_zero.mp he.symm)
  · rintro ⟨m, hm, hk⟩
    exact denominator_vanishes_at_tones hn hω hstar hP N T c z hz0 hc hzinj hNP cols S T ev v
      hcols hsvd m hm k hk

/-
  Exact-arithmetic content of "the K largest local maxima of the pseudo-spectrum lie at the true
  frequencies": with `NSIG`-independent hypotheses as in `pole_iff_tone`, for every signed frequency bin
  `b` of the output (`-h ≤ b < NFFT - h`) the entry of `eigen(...)[0]` at index `h + b` is `1 / d` where
  `d` is the denominator at the FFT bin of `b`; `d = 0` (a pole, numerically `1/ε`) IFF `ω^{-b}` is one of
  the `T` tones; at every other bin `d` is a positive real and the entry is the finite positive real
  `1 / d`.  Still not covered: tones between grid points, and a quantitative floating-point bound.
-/
/-- **poles exactly at the true frequencies** (function output; strengthens
    `peaks_at_true_frequencies_partial` by the converse and by positivity/finiteness elsewhere) -/
theorem peaks_exactly_at_true_frequencies {ω : F} {nfft P : ℕ} (hn : 0 < nfft) (hω : ω ^ nfft = 1)
    (hstar : star ω = ω⁻¹) (hP : P ≤ nfft) (N T : ℕ) (c z : ℕ → F) (hT : T < P)
    (hz0 : ∀ m, m < T → z m ≠ 0) (hunit : ∀ m, m < T → star (z m) = (z m)⁻¹)
    (hc : ∀ m, m < T → c m ≠ 0)
    (hzinj : ∀ m m', m < T → m' < T → z m = z m' → m = m') (hNP : T ≤ fbNP N P)
    (cols : List (List F)) (S : List F) (nsig : ℕ) (ev : Bool) (v : ℕ → ℕ → F)
    (hcols : ∀ i, nsig ≤ i → i < P → cols.getD i [] = vec P (fun K => -star (v i K)))
    (hsvd : ∀ i, nsig ≤ i → i < P → ∀ I, I < T →
      ∑ K ∈ range P, mentryM (fbMatrix (tones N T c z) P) I K * v i K = 0)
    (hspan : ∀ u : ℕ → F,
      (∀ r, r < 2 * fbNP N P →
        ∑ K ∈ range P, mentryM (fbMatrix (tones N T c z) P) r K * u K = 0) →
      ∃ a : ℕ → F, ∀ K, K < P → u K = ∑ i ∈ Ico nsig P, a i * v i K)
    (hS : ev = true → ∀ i, nsig ≤ i → i < P → ∃ s : ℝ, 0 < s ∧ nth S i = (s : F))
    (b : Int) (h1 : -((nfft / 2 : ℕ) : Int) ≤ b) (h2 : b < (nfft : Int) - ((nfft / 2 : ℕ) : Int)) :
    nth (eigenPsd (twiddles ω nfft) cols S nsig P nfft ev) (((nfft / 2 : ℕ) : Int) + b).toNat
        = 1 / eigenDenom (twiddles ω nfft) cols S nsig P nfft ev (fftBinOf nfft b) ∧
    (eigenDenom (twiddles ω nfft) cols S nsig P nfft ev (fftBinOf nfft b) = 0
        ↔ ∃ m, m < T ∧ z m = ω ^ (-b)) ∧
    ((∀ m, m < T → z m ≠ ω ^ (-b)) → ∃ d : ℝ, 0 < d ∧
      eigenDenom (twiddles ω nfft) cols S nsig P nfft ev (fftBinOf nfft b) = (d : F) ∧
      0 < 1 / d ∧
      nth (eigenPsd (twiddles ω nfft) cols S nsig P nfft ev) (((nfft / 2 : ℕ) : Int) + b).toNat
        = ((1 / d : ℝ) : F)) := by
  have hent := eigenPsd_entry (twiddles ω nfft) cols S nsig P nfft ev b h1 h2
  have hpow := (fftBinOf_spec hn hω b).2
  refine ⟨hent, ?_, ?_⟩
  · rw [pole_iff_tone hn hω hstar hP N T c z hT hz0 hunit hc hzinj hNP cols S nsig ev v hcols hsvd
      hspan hS, hpow]
    exact ⟨fun ⟨m, hm, h⟩ => ⟨m, hm, h.symm⟩, fun ⟨m, hm, h⟩ => ⟨m, hm, h.symm⟩⟩
  · intro hoff
    obtain ⟨d, hd, he⟩ := denominator_vanishes_only_at_tones hn hω hstar hP N T c z hT hz0 hunit
      cols S nsig ev v hcols hspan hS (fftBinOf nfft b)
      (fun m hm h => hoff m hm (by rw [← h, hpow]))
    refine ⟨d, hd, he, one_div_pos.mpr hd, ?_⟩
    rw [hent, he, RCLike.ofReal_div, RCLike.ofReal_one]

/-- the same with `NSIG = T` and the noise vectors `P - T` linearly independent null vectors of `FB` -/
theorem peaks_exactly_at_true_frequencies_of_linearIndependent {ω : F} {nfft P : ℕ} (hn : 0 < nfft)
    (hω : ω ^ nfft = 1) (hstar : star ω = ω⁻¹) (hP : P ≤ nfft) (N T : ℕ) (c z : ℕ → F) (hT : T < P)
    (hz0 : ∀ m, m < T → z m ≠ 0) (hc : ∀ m, m < T → c m ≠ 0)
    (hzinj : ∀ m m', m < T → m' < T → z m = z m' → m = m') (hNP : T ≤ fbNP N P)
    (cols : List (List F)) (S : List F) (ev : Bool) (v : ℕ → ℕ → F)
    (hcols : ∀ i, T ≤ i → i < P → cols.getD i [] = vec P (fun K => -star (v i K)))
    (hsvd : ∀ i, T ≤ i → i < P → ∀ I, I < T →
      ∑ K ∈ range P, mentryM (fbMatrix (tones N T c z) P) I K * v i K = 0)
    (hli : LinearIndependent F (fun (i : Fin (P - T)) (K : Fin P) => v (T + i) K))
    (hS : ev = true → ∀ i, T ≤ i → i < P → ∃ s : ℝ, 0 < s ∧ nth S i = (s : F))
    (b : Int) (h1 : -((nfft / 2 : ℕ) : Int) ≤ b) (h2 : b < (nfft : Int) - ((nfft / 2 : ℕ) : Int)) :
    nth (eigenPsd (twiddles ω nfft) cols S T P nfft ev) (((nfft / 2 : ℕ) : Int) + b).toNat
        = 1 / eigenDenom (twiddles ω nfft) cols S T P nfft ev (fftBinOf nfft b) ∧
    (eigenDenom (twiddles ω nfft) cols S T P nfft ev (fftBinOf nfft b) = 0
        ↔ ∃ m, m < T ∧ z m = ω ^ (-b)) ∧
    ((∀ m, m < T → z m ≠ ω ^ (-b)) → ∃ d : ℝ, 0 < d ∧
      eigenDenom (twiddles ω nfft) cols S T P nfft ev (fftBinOf nfft b) = (d : F) ∧
      0 < 1 / d ∧
      nth (eigenPsd (twiddles ω nfft) cols S T P nfft ev) (((nfft / 2 : ℕ) : Int) + b).toNat
        = ((1 / d : ℝ) : F)) := by
  have hent := eigenPsd_entry (twiddles ω nfft) cols S T P nfft ev b h1 h2
  have hpow := (fftBinOf_spec hn hω b).2
  refine ⟨hent, ?_, ?_⟩
  · rw [pole_iff_tone_of_linearIndependent hn hω hstar hP N T c z hT hz0 hc hzinj hNP cols S ev v
      hcols hsvd hli hS, hpow]
    exact ⟨fun ⟨m, hm, h⟩ => ⟨m, hm, h.symm⟩, fun ⟨m, hm, h⟩ => ⟨m, hm, h.symm⟩⟩
  · intro hoff
    obtain ⟨d, hd, he⟩ := denominator_vanishes_only_at_tones_of_linearIndependent hn hω hstar hP
      N T c z hT hz0 hc hzinj hNP cols S ev v hcols hsvd hli hS (fftBinOf nfft b)
      (fun m hm h => hoff m hm (by rw [← h, hpow]))
    refine ⟨d, hd, he, one_div_pos.mpr hd, ?_⟩
    rw [hent, he, RCLike.ofReal_div, RCLike.ofReal_one]

/-- non-vacuity (spanning form): one tone `x_n = (-1)^n`, `N = 5`, `P = 2`, `NFFT = 2`, `ω = -1`,
    `NSIG = 1`, noise singular vector `(1,1)`: it annihilates the steering vector of `z = -1` (bin 1:
    pole) and not that of `z = 1` (bin 0: no pole) -/
example : eigenDenom (twiddles (-1 : ℂ) 2) [[], [-1, -1]] [2, 0] 1 2 2 false 1 = 0
    ∧ eigenDenom (twiddles (-1 : ℂ) 2) [[], [-1, -1]] [2, 0] 1 2 2 false 0 ≠ 0 := by
  have key := pole_iff_tone (ω := (-1 : ℂ)) (nfft := 2) (P := 2) (by norm_num)
    (by norm_num) (by simp) (le_refl _) 5 1 (fun _ => 1) (fun _ => -1) (by norm_num)
    (by intro m _; norm_num) (by intro m _; simp) (by intro m _; norm_num)
    (by intro m m' h h' _; omega) (by decide)
    [[], [-1, -1]] [2, 0] 1 false (fun _ _ => 1)
    (by
      intro i h1 h2
      have : i = 1 := by omega
      subst this
      simp [vec])
    (by
      intro i h1 h2 I hI
      have : I = 0 := by omega
      subst this
      rw [Finset.sum_range_succ, Finset.sum_range_one,
        fb_row_tone 5 2 1 0 0 _ _ (by intro m _; norm_num) (by decide) (by norm_num),
        fb_row_tone 5 2 1 0 1 _ _ (by intro m _; norm_num) (by decide) (by norm_num)]
      norm_num)
    (by
      intro u hu
      have h0 := hu 0 (by decide)
      rw [Finset.sum_range_succ, Finset.sum_range_one,
        fb_row_tone 5 2 1 0 0 _ _ (by intro m _; norm_num) (by decide) (by norm_num),
        fb_row_tone 5 2 1 0 1 _ _ (by intro m _; norm_num) (by decide) (by norm_num)] at h0
      norm_num at h0
      refine ⟨fun _ => u 0, ?_⟩
      intro K hK
      have e : u 1 = u 0 := by linear_combination h0
      interval_cases K <;> simp [e])
    (by intro h; exact absurd h (by simp))
  constructor
  · exact (key 1).mpr ⟨0, by norm_num, by norm_num⟩
  · rw [Ne, key 0]
    rintro ⟨m, _, h⟩
    norm_num at h

/-- non-vacuity (linear-independence form, EV with noise singular value `1`): same instance -/
example : eigenDenom (twiddles (-1 : ℂ) 2) [[], [-1, -1]] [2, 1] 1 2 2 true 1 = 0
    ∧ eigenDenom (twiddles (-1 : ℂ) 2) [[], [-1, -1]] [2, 1] 1 2 2 true 0 ≠ 0 := by
  have key := pole_iff_tone_of_linearIndependent (ω := (-1 : ℂ)) (nfft := 2) (P := 2)
    (by norm_num) (by norm_num) (by simp) (le_refl _) 5 1 (fun _ => 1) (fun _ => -1) (by norm_num)
    (by intro m _; norm_num) (by intro m _; norm_num)
    (by intro m m' h h' _; omega) (by decide)
    [[], [-1, -1]] [2, 1] true (fun _ _ => 1)
    (by
      intro i h1 h2
      have : i = 1 := by omega
      subst this
      simp [vec])
    (by
      intro i h1 h2 I hI
      have : I = 0 := by omega
      subst this
      rw [Finset.sum_range_succ, Finset.sum_range_one,
        fb_row_tone 5 2 1 0 0 _ _ (by intro m _; norm_num) (by decide) (by norm_num),
        fb_row_tone 5 2 1 0 1 _ _ (by intro m _; norm_num) (by decide) (by norm_num)]
      norm_num)
    (by
      rw [Fintype.linearIndependent_iff]
      intro g hg i
      have := congrFun hg ⟨0, by norm_num⟩
      have hi : i = ⟨0, by norm_num⟩ := Fin.ext (by omega)
      subst hi
      simpa using this)
    (by
      intro _ i h1 h2
      have : i = 1 := by omega
      subst this
      exact ⟨1, one_pos, by simp [nth]⟩)
  constructor
  · exact (key 1).mpr ⟨0, by norm_num, by norm_num⟩
  · rw [Ne, key 0]
    rintro ⟨m, _, h⟩
    norm_num at h

end Only

section Rules
variable {F : Type} [Field F]

/-! ### 7. choice of the signal-subspace dimension; argument validation -/

/-- an explicit `NSIG` wins (whatever threshold / criterion); otherwise the threshold rule counts the
    singular values above `threshold · min S` (at least 1); otherwise the AIC/MDL argmin + 1 -/
theorem nsig_rules [ReOrd F] (S : List F) (n : ℕ) (t : F) (thr : Option F) (c : ℕ) :
    signalSpace S (some n) thr c = n ∧
    signalSpace S none (some t) c
      = (if (S.filter (fun s => reGt s
              (t * S.foldl (fun m s => if reGt m s then s else m) (nth S 0)))).length = 0 then 1
         else (S.filter (fun s => reGt s
              (t * S.foldl (fun m s => if reGt m s then s else m) (nth S 0)))).length) ∧
    1 ≤ signalSpace S none (some t) c ∧
    signalSpace S none none c = c + 1 := by
  refine ⟨rfl, rfl, ?_, rfl⟩
  simp only [signalSpace]
  split_ifs <;> omega

/-- `eigen` argument validation: `ValueError` iff the method is unknown, or `NSIG` and `threshold` are
    both given, or `NSIG < 0`, or `NSIG ≥ P`; otherwise `AssertionError` iff `2(N-P) ≤ P-1`; otherwise
    accepted. -/
theorem eigenValidate_rules (methodOk : Bool) (nsig : Option Int) (hasThr : Bool) (N P : ℕ) :
    let bad := methodOk = false ∨ (nsig.isSome = true ∧ hasThr = true)
      ∨ (∃ n, nsig = some n ∧ (n < 0 ∨ (P : Int) ≤ n))
    (eigenValidate methodOk nsig hasThr N P = .error "value" ↔ bad) ∧
    (eigenValidate methodOk nsig hasThr N P = .error "assert" ↔ ¬ bad ∧ 2 * (N - P) ≤ P - 1) ∧
    (eigenValidate methodOk nsig hasThr N P = .ok () ↔ ¬ bad ∧ P - 1 < 2 * (N - P)) := by
  intro bad
  rw [eigenValidate_cases]
  by_cases hb : bad
  · rw [if_pos hb]
    simp [hb]
  · rw [if_neg hb]
    by_cases ha : 2 * (N - P) ≤ P - 1
    · rw [if_pos ha]
      simp [hb, ha]
    · rw [if_neg ha]
      simp [hb, ha]
      omega

/-- `NSIG` and `threshold` are mutually exclusive; an `NSIG` outside `[0, P)` is rejected -/
theorem nsig_exclusive_and_range (n : Int) (hasThr : Bool) (N P : ℕ)
    (h : hasThr = true ∨ n < 0 ∨ (P : Int) ≤ n) :
    eigenValidate true (some n) hasThr N P = .error "value" := by
  apply ((eigenValidate_rules true (some n) hasThr N P).1).mpr
  rcases h with h | h
  · exact Or.inr (Or.inl ⟨rfl, h⟩)
  · exact Or.inr (Or.inr ⟨n, rfl, h⟩)

end Rules

end SpecVerif.C17
