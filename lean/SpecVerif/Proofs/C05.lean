import SpecVerif.Proofs.Lemmas.Grid
import SpecVerif.Proofs.Lemmas.Burg
import SpecVerif.Proofs.C17
import SpecVerif.Model.Estimators
import Mathlib.Data.Complex.Basic
import Mathlib.Tactic.NormNum
/-
  C05 — NFFT only chooses the sampling grid.

  "With frequency scaling off, the estimate at a given physical frequency does not depend on NFFT: for any
  two admissible NFFT values the PSD values at frequencies common to both grids agree, for every estimator
  class, and the model parameters do not depend on NFFT at all.  Admissible: NFFT ≥ N (periodogram,
  multitaper), NFFT ≥ 2·lag+1 (correlogram), NFFT ≥ 2·order (minimum variance), NFFT > model order
  (parametric classes)."

  Property theorems only (helpers: `Proofs/Lemmas/Grid.lean`, namespace `SpecVerif.GridL`).

  Notation.  `K` is any field with an involution.  Nested grids: the coarse grid has `n` points and root
  `ω`, the fine grid `c·n` points (`c ≥ 1`) and root `Ω`, with `Ω^(c·n) = 1` and `Ω^c = ω` (true for
  numpy's `Ω = e^{-2πi/(cn)}`, `ω = e^{-2πi/n}`); coarse bin `j` and fine bin `c·j` are the same physical
  frequency `j/n = cj/(cn)`.  The `*_grid` theorems are stated for nested grids; the `*_same_frequency`
  theorems are the general form: two arbitrary admissible grids `(ω₁, n₁)`, `(ω₂, n₂)` and two bins with
  `ω₁^k₁ = ω₂^k₂` (the same point of the unit circle), which covers two grids `c₁·g`, `c₂·g` with a common
  sub-grid (`dft_two_grids`).  Only the root-of-unity equations are assumed, not primitivity.
-/
namespace SpecVerif.C05
open Finset SpecVerif SpecVerif.ArmaL SpecVerif.GridL SpecVerif.MtmL

variable {K : Type} [Field K] [StarRing K]

/-! ### 1. the DFT -/

omit [StarRing K] in
/-- **same frequency, same DFT value**: for two grids and two bins at the same point of the unit circle
(`ω₁^k₁ = ω₂^k₂`), the DFTs of a sequence that neither grid truncates agree. -/
theorem dft_same_frequency {ω₁ ω₂ : K} {n₁ n₂ k₁ k₂ : ℕ} (hn₁ : 0 < n₁) (hn₂ : 0 < n₂)
    (h₁ : ω₁ ^ n₁ = 1) (h₂ : ω₂ ^ n₂ = 1) (hz : ω₁ ^ k₁ = ω₂ ^ k₂) (x : List K)
    (hx₁ : x.length ≤ n₁) (hx₂ : x.length ≤ n₂) :
    dftBin (twiddles ω₁ n₁) n₁ x k₁ = dftBin (twiddles ω₂ n₂) n₂ x k₂ :=
  dftBin_same_freq hn₁ hn₂ h₁ h₂ hz x hx₁ hx₂

omit [StarRing K] in
/-- **nested grids**: for `len x ≤ n`, bin `c·j` of the `c·n`-point DFT is bin `j` of the `n`-point DFT
(both are `Σ_{t<len x} x_t ω^{tj}` since `Ω^{t·c·j} = ω^{tj}`). -/
theorem dft_grid {Ω ω : K} {c n : ℕ} (hn : 0 < n) (hc : 0 < c) (hΩ : Ω ^ (c * n) = 1)
    (hΩω : Ω ^ c = ω) (x : List K) (hx : x.length ≤ n) (j : ℕ) (_hj : j < n) :
    dftBin (twiddles Ω (c * n)) (c * n) x (c * j) = dftBin (twiddles ω n) n x j :=
  dftBin_same_freq (Nat.mul_pos hc hn) hn hΩ (coarse_pow_eq_one hΩ hΩω) (fine_pow_eq hΩω j) x
    (le_trans hx (le_fine hc)) hx

omit [StarRing K] in
/-- **any two admissible grids**: grids of `c₁·g` and `c₂·g` points whose roots generate the same `g`-point
sub-grid (`Ω₁^c₁ = Ω₂^c₂`) give the same DFT values at the `g` common frequencies (bins `c₁·j` and `c₂·j`),
provided neither truncates the data.  The common sub-grid itself need not be admissible. -/
theorem dft_two_grids {Ω₁ Ω₂ : K} {c₁ c₂ g : ℕ} (hg : 0 < g) (hc₁ : 0 < c₁) (hc₂ : 0 < c₂)
    (h₁ : Ω₁ ^ (c₁ * g) = 1) (h₂ : Ω₂ ^ (c₂ * g) = 1) (h : Ω₁ ^ c₁ = Ω₂ ^ c₂) (x : List K)
    (hx₁ : x.length ≤ c₁ * g) (hx₂ : x.length ≤ c₂ * g) (j : ℕ) :
    dftBin (twiddles Ω₁ (c₁ * g)) (c₁ * g) x (c₁ * j)
      = dftBin (twiddles Ω₂ (c₂ * g)) (c₂ * g) x (c₂ * j) :=
  dftBin_same_freq (Nat.mul_pos hc₁ hg) (Nat.mul_pos hc₂ hg) h₁ h₂
    (by rw [pow_mul, pow_mul, h]) x hx₁ hx₂

/-- non-vacuity of the nested-grid hypotheses with a genuine refinement: `K = ℂ`, `Ω = i` (4 points),
`ω = -1` (2 points), `c = 2`. -/
example (x : List ℂ) (hx : x.length ≤ 2) :
    dftBin (twiddles Complex.I (2 * 2)) (2 * 2) x (2 * 1) = dftBin (twiddles (-1 : ℂ) 2) 2 x 1 :=
  dft_grid (by norm_num) (by norm_num) Complex.I_pow_four Complex.I_sq x hx 1 (by norm_num)

/-- and computed over `ℚ` (`Ω = ω = -1`, `c = 3`, `n = 2`, `x = [3, 5]`): both sides are `3 - 5`. -/
example : dftBin (twiddles (-1 : ℚ) (3 * 2)) (3 * 2) [3, 5] (3 * 1) = -2
    ∧ dftBin (twiddles (-1 : ℚ) 2) 2 [3, 5] 1 = -2 := by
  decide +kernel

/-- **aliasing**: the admissibility condition `len x ≤ n` is the no-truncation condition and cannot be
dropped.  `ω = Ω = -1`, `n = 2`, `c = 3`, `x = [1, 1, 1]` (`N = 3 > n`): the 2-point DFT sees `[1, 1]`, bin `0`
is `2`, whereas bin `0` of the 6-point DFT is `3`. -/
example : dftBin (twiddles (-1 : ℚ) (3 * 2)) (3 * 2) [1, 1, 1] (3 * 0)
    ≠ dftBin (twiddles (-1 : ℚ) 2) 2 [1, 1, 1] 0 := by
  decide +kernel

/-! ### 2. periodogram (admissible: `NFFT ≥ N`) -/

/-- a returned bin of the coarse real-data periodogram (`j ≤ n/2`) is a returned bin of the fine one;
for complex data `j < n → c·j < c·n` -/
theorem periodogram_index_grid {c n j : ℕ} (hc : 0 < c) (isReal : Bool)
    (hj : j < (if isReal then n / 2 + 1 else n)) :
    c * j < (if isReal then (c * n) / 2 + 1 else c * n) := by
  cases isReal
  · simpa using fine_index_lt hc (by simpa using hj)
  · simpa using half_index_fine (c := c) (by simpa using hj)

/-- **periodogram, same frequency**: two grids with `NFFT ≥ N`, two returned bins at the same point of the
unit circle: the periodogram values agree. -/
theorem periodogram_same_frequency {ω₁ ω₂ : K} {n₁ n₂ k₁ k₂ : ℕ} (hn₁ : 0 < n₁) (hn₂ : 0 < n₂)
    (h₁ : ω₁ ^ n₁ = 1) (h₂ : ω₂ ^ n₂ = 1) (hz : ω₁ ^ k₁ = ω₂ ^ k₂) (x w : List K)
    (hx₁ : x.length ≤ n₁) (hx₂ : x.length ≤ n₂) (isReal : Bool)
    (hk₁ : k₁ < (if isReal then n₁ / 2 + 1 else n₁))
    (hk₂ : k₂ < (if isReal then n₂ / 2 + 1 else n₂)) :
    nth (speriodogram (twiddles ω₁ n₁) x w n₁ isReal) k₁
      = nth (speriodogram (twiddles ω₂ n₂) x w n₂ isReal) k₂ :=
  speriodogram_same_freq hn₁ hn₂ h₁ h₂ hz x w hx₁ hx₂ isReal hk₁ hk₂

/-- **periodogram, nested grids**: for `N ≤ n`, entry `c·j` of the `c·n`-point periodogram equals entry `j`
of the `n`-point periodogram, for every returned coarse bin (`j ≤ n/2` for real data, `j < n` otherwise). -/
theorem periodogram_grid {Ω ω : K} {c n : ℕ} (hn : 0 < n) (hc : 0 < c) (hΩ : Ω ^ (c * n) = 1)
    (hΩω : Ω ^ c = ω) (x w : List K) (hx : x.length ≤ n) (isReal : Bool) (j : ℕ)
    (hj : j < (if isReal then n / 2 + 1 else n)) :
    nth (speriodogram (twiddles Ω (c * n)) x w (c * n) isReal) (c * j)
      = nth (speriodogram (twiddles ω n) x w n isReal) j :=
  speriodogram_same_freq (Nat.mul_pos hc hn) hn hΩ (coarse_pow_eq_one hΩ hΩω) (fine_pow_eq hΩω j) x w
    (le_trans hx (le_fine hc)) hx isReal (periodogram_index_grid hc isReal hj) hj

/-- non-vacuity (`ℚ`, `Ω = ω = -1`, `c = 3`, `n = 2`, real data `[3, 5]`, window `[1, 2]`, Nyquist bin):
`|3 - 10|²/2`. -/
example : nth (speriodogram (twiddles (-1 : ℚ) (3 * 2)) [3, 5] [1, 2] (3 * 2) true) (3 * 1) = 49 / 2
    ∧ nth (speriodogram (twiddles (-1 : ℚ) 2) [3, 5] [1, 2] 2 true) 1 = 49 / 2 := by
  decide +kernel

/-! ### 3. AR / MA / ARMA spectra (admissible: `NFFT >` model orders) -/

omit [StarRing K] in
/-- the zero-padded coefficient sequences handed to the FFT differ between the grids (by the padding) but
their DFTs agree at the common frequencies when no coefficient is cut off -/
theorem polyseq_dft_grid {Ω ω : K} {c n : ℕ} (hc : 0 < c) (hΩ : Ω ^ (c * n) = 1)
    (hΩω : Ω ^ c = ω) (A : List K) (hA : A.length < n) (j : ℕ) :
    dftBin (twiddles Ω (c * n)) (c * n) (polySeq A (c * n)) (c * j)
      = dftBin (twiddles ω n) n (polySeq A n) j :=
  dftBin_polySeq_same_freq hΩ (coarse_pow_eq_one hΩ hΩω) (fine_pow_eq hΩω j) A
    (lt_of_lt_of_le hA (le_fine hc)) hA

/-- **`arma2psd`, same frequency** (all variants: `A`, `B` = `some`/`none`) -/
theorem arma2psd_same_frequency {ω₁ ω₂ : K} {n₁ n₂ k₁ k₂ : ℕ} (h₁ : ω₁ ^ n₁ = 1)
    (h₂ : ω₂ ^ n₂ = 1) (hz : ω₁ ^ k₁ = ω₂ ^ k₂) (A B : Option (List K))
    (hA₁ : ∀ a, A = some a → a.length < n₁) (hA₂ : ∀ a, A = some a → a.length < n₂)
    (hB₁ : ∀ b, B = some b → b.length < n₁) (hB₂ : ∀ b, B = some b → b.length < n₂)
    (rho T : K) (hk₁ : k₁ < n₁) (hk₂ : k₂ < n₂) :
    nth (arma2psd (twiddles ω₁ n₁) A B rho T n₁) k₁
      = nth (arma2psd (twiddles ω₂ n₂) A B rho T n₂) k₂ :=
  arma2psd_same_freq h₁ h₂ hz A B hA₁ hA₂ hB₁ hB₂ rho T hk₁ hk₂

/-- **`arma2psd`, nested grids**: for `len A < n`, `len B < n`, entry `c·j` on the fine grid equals entry `j`
on the coarse grid (ARMA, pure AR `B = none`, pure MA `A = none`). -/
theorem arma2psd_grid {Ω ω : K} {c n : ℕ} (hc : 0 < c) (hΩ : Ω ^ (c * n) = 1) (hΩω : Ω ^ c = ω)
    (A B : Option (List K)) (hA : ∀ a, A = some a → a.length < n)
    (hB : ∀ b, B = some b → b.length < n) (rho T : K) (j : ℕ) (hj : j < n) :
    nth (arma2psd (twiddles Ω (c * n)) A B rho T (c * n)) (c * j)
      = nth (arma2psd (twiddles ω n) A B rho T n) j :=
  arma2psd_same_freq hΩ (coarse_pow_eq_one hΩ hΩω) (fine_pow_eq hΩω j) A B
    (fun a h => lt_of_lt_of_le (hA a h) (le_fine hc)) hA
    (fun b h => lt_of_lt_of_le (hB b h) (le_fine hc)) hB rho T (fine_index_lt hc hj) hj

/-- the three variants spelled out -/
theorem arma2psd_grid_variants {Ω ω : K} {c n : ℕ} (hc : 0 < c) (hΩ : Ω ^ (c * n) = 1)
    (hΩω : Ω ^ c = ω) (A B : List K) (hA : A.length < n) (hB : B.length < n) (rho T : K) (j : ℕ)
    (hj : j < n) :
    nth (arma2psd (twiddles Ω (c * n)) (some A) (some B) rho T (c * n)) (c * j)
        = nth (arma2psd (twiddles ω n) (some A) (some B) rho T n) j ∧
    nth (arma2psd (twiddles Ω (c * n)) (some A) none rho T (c * n)) (c * j)
        = nth (arma2psd (twiddles ω n) (some A) none rho T n) j ∧
    nth (arma2psd (twiddles Ω (c * n)) none (some B) rho T (c * n)) (c * j)
        = nth (arma2psd (twiddles ω n) none (some B) rho T n) j := by
  refine ⟨arma2psd_grid hc hΩ hΩω _ _ ?_ ?_ rho T j hj, arma2psd_grid hc hΩ hΩω _ _ ?_ ?_ rho T j hj,
    arma2psd_grid hc hΩ hΩω _ _ ?_ ?_ rho T j hj⟩
  all_goals intro a h; first | (cases h; assumption) | cases h

/-- non-vacuity (`ℚ`, `Ω = ω = -1`, `c = 3`, `n = 2`, `A = [3]`, `B = [2]`, `rho = 5`, `T = 2`, bin `1`):
`(5/2)·|1-2|²/|1-3|²`. -/
example : nth (arma2psd (twiddles (-1 : ℚ) (3 * 2)) (some [3]) (some [2]) 5 2 (3 * 2)) (3 * 1) = 5 / 8
    ∧ nth (arma2psd (twiddles (-1 : ℚ) 2) (some [3]) (some [2]) 5 2 2) 1 = 5 / 8 := by
  decide +kernel

/-! ### 4. correlogram (admissible: `NFFT ≥ 2·lag+1`) -/

/-- the DFTs of the two lag sequences (which place the negative lags at different indices `NFFT-m`) agree
at the common frequencies when the two halves do not wrap around -/
theorem correlogram_seq_grid {Ω ω : K} {c n L : ℕ} (hc : 0 < c) (hΩ : Ω ^ (c * n) = 1)
    (hΩω : Ω ^ c = ω) (hL : 2 * L + 1 ≤ n) (rxy ryx w : List K) (j : ℕ) :
    dftBin (twiddles Ω (c * n)) (c * n) (correlogramSeq rxy ryx w L (c * n)) (c * j)
      = dftBin (twiddles ω n) n (correlogramSeq rxy ryx w L n) j :=
  dftBin_correlogramSeq_same_freq (le_trans hL (le_fine hc)) hL hΩ (coarse_pow_eq_one hΩ hΩω)
    (fine_pow_eq hΩω j) rxy ryx w

/-- **`CORRELOGRAMPSD` from the lags, same frequency** -/
theorem correlogram_same_frequency {ω₁ ω₂ : K} {n₁ n₂ k₁ k₂ L : ℕ} (hL₁ : 2 * L + 1 ≤ n₁)
    (hL₂ : 2 * L + 1 ≤ n₂) (h₁ : ω₁ ^ n₁ = 1) (h₂ : ω₂ ^ n₂ = 1) (hz : ω₁ ^ k₁ = ω₂ ^ k₂)
    (rxy ryx w : List K) (hk₁ : k₁ < n₁) (hk₂ : k₂ < n₂) :
    nth (correlogramPsd (twiddles ω₁ n₁) rxy ryx w L n₁) k₁
      = nth (correlogramPsd (twiddles ω₂ n₂) rxy ryx w L n₂) k₂ :=
  correlogramPsd_same_freq hL₁ hL₂ h₁ h₂ hz rxy ryx w hk₁ hk₂

/-- **`CORRELOGRAMPSD` from the lags, nested grids** -/
theorem correlogram_psd_grid {Ω ω : K} {c n L : ℕ} (hc : 0 < c) (hΩ : Ω ^ (c * n) = 1)
    (hΩω : Ω ^ c = ω) (hL : 2 * L + 1 ≤ n) (rxy ryx w : List K) (j : ℕ) (hj : j < n) :
    nth (correlogramPsd (twiddles Ω (c * n)) rxy ryx w L (c * n)) (c * j)
      = nth (correlogramPsd (twiddles ω n) rxy ryx w L n) j :=
  correlogramPsd_same_freq (le_trans hL (le_fine hc)) hL hΩ (coarse_pow_eq_one hΩ hΩω)
    (fine_pow_eq hΩω j) rxy ryx w (fine_index_lt hc hj) hj

/-- **`CORRELOGRAMPSD(X, Y, lag, window, norm, NFFT)` from the data, nested grids**: the correlation lags do
not involve NFFT, the spectrum values agree at the common frequencies. -/
theorem correlogram_grid {Ω ω : K} {c n L : ℕ} (hc : 0 < c) (hΩ : Ω ^ (c * n) = 1)
    (hΩω : Ω ^ c = ω) (hL : 2 * L + 1 ≤ n) (x y w : List K) (norm : Norm) (rms2 : K) (j : ℕ)
    (hj : j < n) :
    nth (correlogram (twiddles Ω (c * n)) x y w L (c * n) norm rms2) (c * j)
      = nth (correlogram (twiddles ω n) x y w L n norm rms2) j := by
  unfold correlogram
  exact correlogram_psd_grid hc hΩ hΩω hL _ _ w j hj

/-- non-vacuity (`ℚ`, `Ω = ω = -1`, `c = 3`, `n = 4 ≥ 2·lag+1 = 3`, `lag = 1`, bin `1`): the same value on
both grids. -/
example : nth (correlogram (twiddles (-1 : ℚ) (3 * 4)) [1, 2] [1, 2] [1] 1 (3 * 4) .biased 0) (3 * 1)
    = nth (correlogram (twiddles (-1 : ℚ) 4) [1, 2] [1, 2] [1] 1 4 .biased 0) 1 := by
  decide +kernel

/-- the bound cannot be dropped: with `n = 2 < 2·lag+1` the negative lag overwrites the positive one on the
coarse grid and bin `0` differs from bin `0` of the 6-point grid. -/
example : nth (correlogram (twiddles (-1 : ℚ) (3 * 2)) [1, 2] [1, 2] [1] 1 (3 * 2) .biased 0) (3 * 0)
    ≠ nth (correlogram (twiddles (-1 : ℚ) 2) [1, 2] [1, 2] [1] 1 2 .biased 0) 0 := by
  decide +kernel

/-! ### 5. minimum variance (admissible: `NFFT ≥ 2·order`, i.e. `2m ≤ NFFT+1` with `m = len a`) -/

/-- **`minvar` PSD from the Burg polynomial, same frequency** -/
theorem minvar_same_frequency {ω₁ ω₂ : K} {n₁ n₂ k₁ k₂ : ℕ} (h₁ : ω₁ ^ n₁ = 1)
    (h₂ : ω₂ ^ n₂ = 1) (hz : ω₁ ^ k₁ = ω₂ ^ k₂) (a : List K) (P fs : K) (ha : 0 < a.length)
    (hno₁ : 2 * a.length ≤ n₁ + 1) (hno₂ : 2 * a.length ≤ n₂ + 1) (hk₁ : k₁ < n₁) (hk₂ : k₂ < n₂) :
    nth (minvarPsd (twiddles ω₁ n₁) a P fs n₁) k₁ = nth (minvarPsd (twiddles ω₂ n₂) a P fs n₂) k₂ :=
  minvarPsd_same_freq h₁ h₂ hz a P fs ha hno₁ hno₂ hk₁ hk₂

/-- **`minvar` PSD, nested grids**: the ψ sequences differ (the conjugate lags sit at `NFFT-K`), their DFTs
agree at the common frequencies: both are `ψ_0 + Σ_{K=1}^{m-1} (ψ_K z^K + conj ψ_K z^{-K})` at `z = ω^j`. -/
theorem minvar_grid {Ω ω : K} {c n : ℕ} (hc : 0 < c) (hΩ : Ω ^ (c * n) = 1) (hΩω : Ω ^ c = ω)
    (a : List K) (P fs : K) (ha : 0 < a.length) (hno : 2 * a.length ≤ n + 1) (j : ℕ) (hj : j < n) :
    nth (minvarPsd (twiddles Ω (c * n)) a P fs (c * n)) (c * j)
      = nth (minvarPsd (twiddles ω n) a P fs n) j :=
  minvarPsd_same_freq hΩ (coarse_pow_eq_one hΩ hΩω) (fine_pow_eq hΩω j) a P fs ha
    (le_trans hno (Nat.add_le_add_right (le_fine hc) 1)) hno (fine_index_lt hc hj) hj

/-- **`minvar(X, m, sampling, NFFT)` from the data, nested grids**, `m ≥ 1`, `2m ≤ n+1` -/
theorem minvar_data_grid {Ω ω : K} {c n : ℕ} (hc : 0 < c) (hΩ : Ω ^ (c * n) = 1) (hΩω : Ω ^ c = ω)
    (x : List K) (m : ℕ) (fs : K) (hm : 1 ≤ m) (hno : 2 * m ≤ n + 1) (j : ℕ) (hj : j < n) :
    nth (minvar (twiddles Ω (c * n)) x m fs (c * n)).psd (c * j)
      = nth (minvar (twiddles ω n) x m fs n).psd j := by
  have hl := MinvarL.one_cons_length_burg x m hm
  exact minvar_grid hc hΩ hΩω _ _ fs (by rw [hl]; exact hm) (by rw [hl]; exact hno) j hj

/-- non-vacuity (`ℚ`, `Ω = ω = -1`, `c = 3`, `n = 4 ≥ 2m-1 = 3`, `a = [1, 3]`, `P = 1`, `fs = 1`, bin `1`):
`ψ = [2, 3, 0, 3]` resp. `[2, 3, 0, …, 0, 3]` (12 entries), `DFT = 2 - 3 - 3 = -4` at `z = -1` on both. -/
example : nth (minvarPsd (twiddles (-1 : ℚ) (3 * 4)) [1, 3] 1 1 (3 * 4)) (3 * 1) = -1 / 4
    ∧ nth (minvarPsd (twiddles (-1 : ℚ) 4) [1, 3] 1 1 4) 1 = -1 / 4 := by
  decide +kernel

/-! ### 6a. MUSIC / eigenvector (admissible: `NFFT ≥ P`, the length of the singular vectors) -/

/-- **noise-subspace denominator, same frequency** -/
theorem eigen_same_frequency {ω₁ ω₂ : K} {n₁ n₂ k₁ k₂ : ℕ} (hn₁ : 0 < n₁) (hn₂ : 0 < n₂)
    (h₁ : ω₁ ^ n₁ = 1) (h₂ : ω₂ ^ n₂ = 1) (hz : ω₁ ^ k₁ = ω₂ ^ k₂) (cols : List (List K))
    (S : List K) (nsig P : ℕ) (ev : Bool)
    (hc₁ : ∀ i, nsig ≤ i → i < P → (cols.getD i []).length ≤ n₁)
    (hc₂ : ∀ i, nsig ≤ i → i < P → (cols.getD i []).length ≤ n₂) :
    eigenDenom (twiddles ω₁ n₁) cols S nsig P n₁ ev k₁
      = eigenDenom (twiddles ω₂ n₂) cols S nsig P n₂ ev k₂ :=
  eigenDenom_same_freq hn₁ hn₂ h₁ h₂ hz cols S nsig P ev hc₁ hc₂

/-- **noise-subspace denominator, nested grids**: columns of length `P ≤ n` (singular vectors; the SVD and
hence `cols`, `S`, `nsig` do not involve NFFT) -/
theorem eigen_grid {Ω ω : K} {c n : ℕ} (hn : 0 < n) (hc : 0 < c) (hΩ : Ω ^ (c * n) = 1)
    (hΩω : Ω ^ c = ω) (cols : List (List K)) (S : List K) (nsig P : ℕ) (ev : Bool) (hP : P ≤ n)
    (hcols : ∀ i, nsig ≤ i → i < P → (cols.getD i []).length = P) (j : ℕ) :
    eigenDenom (twiddles Ω (c * n)) cols S nsig P (c * n) ev (c * j)
      = eigenDenom (twiddles ω n) cols S nsig P n ev j :=
  eigenDenom_same_freq (Nat.mul_pos hc hn) hn hΩ (coarse_pow_eq_one hΩ hΩω) (fine_pow_eq hΩω j) cols S
    nsig P ev (fun i h1 h2 => by rw [hcols i h1 h2]; exact le_trans hP (le_fine hc))
    (fun i h1 h2 => by rw [hcols i h1 h2]; exact hP)

/-- non-vacuity (`ℚ`, `Ω = ω = -1`, `c = 3`, `n = 2 = P`, one noise column `[3, -1]`, `S = [2, 5]`, EV
weighting, bin `1`): `|3 + 1|²/5` on both grids. -/
example : eigenDenom (twiddles (-1 : ℚ) (3 * 2)) [[1, 2], [3, -1]] [2, 5] 1 2 (3 * 2) true (3 * 1) = 16 / 5
    ∧ eigenDenom (twiddles (-1 : ℚ) 2) [[1, 2], [3, -1]] [2, 5] 1 2 2 true 1 = 16 / 5 := by
  decide +kernel

/-- **`pmusic` / `pev` class output on real data, nested grids**: one-sided entry `j ≤ n/2` is twice
`1/denominator` at FFT bin `j`; entry `c·j` of the fine class output equals entry `j` of the coarse one. -/
theorem eigen_class_real_grid {Ω ω : K} {c n : ℕ} (hn : 0 < n) (hc : 0 < c)
    (hΩ : Ω ^ (c * n) = 1) (hΩω : Ω ^ c = ω) (cols : List (List K)) (S : List K) (nsig P : ℕ)
    (ev : Bool) (hP : P ≤ n) (hcols : ∀ i, nsig ≤ i → i < P → (cols.getD i []).length = P) (j : ℕ)
    (hj : j ≤ n / 2) :
    c * j ≤ (c * n) / 2 ∧
    nth (eigenClassFold (eigenPsd (twiddles Ω (c * n)) cols S nsig P (c * n) ev) true (c * n)) (c * j)
      = nth (eigenClassFold (eigenPsd (twiddles ω n) cols S nsig P n ev) true n) j := by
  have hj' : c * j ≤ (c * n) / 2 := by
    have := half_index_fine (c := c) (n := n) (j := j) (by omega)
    omega
  refine ⟨hj', ?_⟩
  unfold eigenPsd
  rw [(C17.tone_index_class_real _ (c * n) (c * j) hj' (Nat.mul_pos hc hn)).1,
    (C17.tone_index_class_real _ n j hj hn).1, nth_vec, nth_vec,
    if_pos (by omega : j < n), if_pos (fine_index_lt hc (by omega : j < n)),
    eigen_grid hn hc hΩ hΩω cols S nsig P ev hP hcols j]

/-- **`pmusic` / `pev` class output on complex data, nested grids**: two-sided entry `i` is `1/denominator`
at FFT bin `(NFFT - i) mod NFFT`; entries `c·j` (fine) and `j` (coarse) agree. -/
theorem eigen_class_complex_grid {Ω ω : K} {c n : ℕ} (hn : 0 < n) (hc : 0 < c)
    (hΩ : Ω ^ (c * n) = 1) (hΩω : Ω ^ c = ω) (cols : List (List K)) (S : List K) (nsig P : ℕ)
    (ev : Bool) (hP : P ≤ n) (hcols : ∀ i, nsig ≤ i → i < P → (cols.getD i []).length = P) (j : ℕ)
    (hj : j < n) :
    nth (eigenClassFold (eigenPsd (twiddles Ω (c * n)) cols S nsig P (c * n) ev) false (c * n)) (c * j)
      = nth (eigenClassFold (eigenPsd (twiddles ω n) cols S nsig P n ev) false n) j := by
  have hcn : 0 < c * n := Nat.mul_pos hc hn
  have hω := coarse_pow_eq_one hΩ hΩω
  unfold eigenPsd
  rw [EigenL.nth_classFold_reorder_complex _ (c * n) (c * j) (fine_index_lt hc hj),
    EigenL.nth_classFold_reorder_complex _ n j hj, nth_vec, nth_vec,
    if_pos (Nat.mod_lt _ hn), if_pos (Nat.mod_lt _ hcn)]
  congr 1
  refine eigenDenom_same_freq hcn hn hΩ hω ?_ cols S nsig P ev
    (fun i h1 h2 => by rw [hcols i h1 h2]; exact le_trans hP (le_fine hc))
    (fun i h1 h2 => by rw [hcols i h1 h2]; exact hP)
  rw [pow_mod_of_pow_eq_one hΩ, pow_mod_of_pow_eq_one hω, ← Nat.mul_sub, fine_pow_eq hΩω]

/-! ### 6b. multitaper (admissible: `NFFT ≥ N`) -/

omit [StarRing K] in
/-- **eigenspectra, nested grids**: for `N ≤ n`, bin `c·j` of the fine eigenspectrum of a taper equals bin
`j` of the coarse one. -/
theorem mt_grid {Ω ω : K} {c n : ℕ} (hn : 0 < n) (hc : 0 < c) (hΩ : Ω ^ (c * n) = 1)
    (hΩω : Ω ^ c = ω) (x taper : List K) (hx : x.length ≤ n) (j : ℕ) (hj : j < n) :
    nth (eigenspectrum (twiddles Ω (c * n)) x taper (c * n)) (c * j)
      = nth (eigenspectrum (twiddles ω n) x taper n) j :=
  eigenspectrum_same_freq (Nat.mul_pos hc hn) hn hΩ (coarse_pow_eq_one hΩ hΩω) (fine_pow_eq hΩω j) x
    taper (le_trans hx (le_fine hc)) hx (fine_index_lt hc hj) hj

/-- the table of squared eigenspectra `SkA[t][f] = |Sk_t[f]|²` built from the tapers agrees at the common
frequencies, for every row index `t` (rows past the last taper are empty on both grids) -/
theorem mt_table_grid {Ω ω : K} {c n : ℕ} (hn : 0 < n) (hc : 0 < c) (hΩ : Ω ^ (c * n) = 1)
    (hΩω : Ω ^ c = ω) (x : List K) (tapers : List (List K)) (hx : x.length ≤ n) (t j : ℕ)
    (hj : j < n) :
    nth ((mtSkA (twiddles Ω (c * n)) x tapers (c * n)).getD t []) (c * j)
      = nth ((mtSkA (twiddles ω n) x tapers n).getD t []) j :=
  mtSkA_same_freq (Nat.mul_pos hc hn) hn hΩ (coarse_pow_eq_one hΩ hΩω) (fine_pow_eq hΩω j) x tapers
    (le_trans hx (le_fine hc)) hx (fine_index_lt hc hj) hj t

section MtWeights
variable [ReOrd K]

/-- the 'unity' and 'eigen' weights of `pmtm` do not depend on NFFT (nor on the eigenspectra) -/
theorem mt_weights_indep_nfft (m : MtMethod) (hm : m ≠ .adapt) (x lams : List K)
    (SkA₁ SkA₂ : List (List K)) (n₁ n₂ : ℕ) (tolc : K) :
    pmtmWeights m x lams SkA₁ n₁ tolc = pmtmWeights m x lams SkA₂ n₂ tolc := by
  cases m with
  | adapt => exact absurd rfl hm
  | unity => rfl
  | eigen => rfl

/-- **multitaper mean, unity / eigen weighting, nested grids**: with the weights `pmtm` computes on each
grid and the squared eigenspectra of the same data and tapers, entry `c·j` of the fine class mean equals
entry `j` of the coarse one (`N ≤ n`). -/
theorem mt_mean_grid {Ω ω : K} {c n : ℕ} (hn : 0 < n) (hc : 0 < c) (hΩ : Ω ^ (c * n) = 1)
    (hΩω : Ω ^ c = ω) (m : MtMethod) (hm : m ≠ .adapt) (x lams : List K) (tapers : List (List K))
    (tolc : K) (hx : x.length ≤ n) (j : ℕ) (hj : j < n) :
    nth (mtMean m (mtSkA (twiddles Ω (c * n)) x tapers (c * n))
          (pmtmWeights m x lams (mtSkA (twiddles Ω (c * n)) x tapers (c * n)) (c * n) tolc)
          (c * n) lams.length) (c * j)
      = nth (mtMean m (mtSkA (twiddles ω n) x tapers n)
          (pmtmWeights m x lams (mtSkA (twiddles ω n) x tapers n) n tolc) n lams.length) j := by
  rw [nth_mtMean_taper m hm _ _ _ (fine_index_lt hc hj), nth_mtMean_taper m hm _ _ _ hj,
    mt_weights_indep_nfft m hm x lams (mtSkA (twiddles Ω (c * n)) x tapers (c * n))
      (mtSkA (twiddles ω n) x tapers n) (c * n) n tolc]
  congr 1
  apply Finset.sum_congr rfl
  intro t _
  rw [mt_table_grid hn hc hΩ hΩω x tapers hx t j hj]

end MtWeights

/-- non-vacuity (`ℚ`, `Ω = ω = -1`, `c = 3`, `n = 2`, data `[3, 5]`, tapers `[2, 7]`, `[1, 1]`, eigenvalues
`[1/2, 1/4]`, eigen weighting, bin `1`): `((1/2)·29² + (1/8)·2²)/2` on both grids. -/
example :
    letI : ReOrd ℚ := ⟨fun a => a ≤ 0, fun a b => a > b⟩
    nth (mtMean .eigen (mtSkA (twiddles (-1 : ℚ) (3 * 2)) [3, 5] [[2, 7], [1, 1]] (3 * 2))
        (pmtmWeights .eigen [3, 5] [1 / 2, 1 / 4]
          (mtSkA (twiddles (-1 : ℚ) (3 * 2)) [3, 5] [[2, 7], [1, 1]] (3 * 2)) (3 * 2) 0) (3 * 2) 2) (3 * 1)
      = 841 / 4 + 1 / 4
    ∧ nth (mtMean .eigen (mtSkA (twiddles (-1 : ℚ) 2) [3, 5] [[2, 7], [1, 1]] 2)
        (pmtmWeights .eigen [3, 5] [1 / 2, 1 / 4]
          (mtSkA (twiddles (-1 : ℚ) 2) [3, 5] [[2, 7], [1, 1]] 2) 2 0) 2 2) 1
      = 841 / 4 + 1 / 4 := by
  decide +kernel

omit [StarRing K] in
/-- **adaptive weighting is pointwise in frequency**: the weights one pass writes at frequency `f` depend
only on the current spectrum value at `f` (Thomson's formula), and the new estimate at `f` only on those
weights and the squared eigenspectra at `f`.  Hence one pass on the fine grid and one pass on the coarse
grid, started from estimates that agree at the common frequencies, end in estimates and weights that agree
at the common frequencies. -/
theorem adapt_weight_pointwise {c n nwin : ℕ} (hc : 0 < c) (SkF SkC : List (List K)) (lams : List K)
    (sig2 : K) (hSk : ∀ t j, j < n → nth (SkF.getD t []) (c * j) = nth (SkC.getD t []) j)
    (stF stC : AdaptState K) (h : ∀ j, j < n → nth stF.S (c * j) = nth stC.S j) (j : ℕ) (hj : j < n) :
    (∀ t, t < nwin →
      nth ((adaptStep SkF lams sig2 (c * n) nwin stF).wk.getD (c * j) []) t
          = adaptWeight (nth lams t) sig2 (nth stF.S (c * j)) ∧
      nth ((adaptStep SkF lams sig2 (c * n) nwin stF).wk.getD (c * j) []) t
          = nth ((adaptStep SkC lams sig2 n nwin stC).wk.getD j []) t) ∧
    nth (adaptStep SkF lams sig2 (c * n) nwin stF).S (c * j)
      = nth (adaptStep SkC lams sig2 n nwin stC).S j := by
  have hA := adaptAgree_step (nwin := nwin) hc SkF SkC lams sig2 hSk stF stC h
  exact ⟨fun t ht => ⟨adaptStep_wk_entry SkF lams sig2 (c * n) nwin stF (fine_index_lt hc hj) ht,
    hA.2 j hj t ht⟩, hA.1 j hj⟩

/-
  Full informal claim for the adaptive weighting (NOT provable exactly, and not exactly true of the code):
  "the 'adapt' multitaper estimate at a common frequency does not depend on NFFT".
  The weights are the result of an iteration whose stopping rule is GLOBAL: after the first pass (always made) the
  loop runs while `Σ_f |S[f] - S1[f]| / NFFT > tol` with `tol = 0.0005·σ²/NFFT` (at most 100 passes); the mean runs over all
  NFFT frequencies and `tol` itself contains NFFT, so the number of passes may differ between the grids and
  the property then holds only to the iteration tolerance.
  Proved below: the loop on either grid is some number of passes (`1 ≤ kF, kC ≤ 100`) of the pointwise step
  from start states that agree at the common frequencies, and WHENEVER the two numbers of passes coincide
  the weights and the class mean agree exactly at the common frequencies.  Missing: a contraction bound on
  the pass map that would turn `kF ≠ kC` into "agreement within the tolerance" (needs `ℝ`, analysis).
-/
/-- adaptive weighting: equal numbers of passes give equal weights and class means at common frequencies -/
theorem mt_adapt_grid_partial [ReOrd K] {Ω ω : K} {c n : ℕ} (hn : 0 < n) (hc : 0 < c)
    (hΩ : Ω ^ (c * n) = 1) (hΩω : Ω ^ c = ω) (x lams : List K) (tapers : List (List K)) (tolc : K)
    (hx : x.length ≤ n) :
    ∃ kF kC : ℕ, 1 ≤ kF ∧ kF ≤ 100 ∧ 1 ≤ kC ∧ kC ≤ 100 ∧
      pmtmWeights .adapt x lams (mtSkA (twiddles Ω (c * n)) x tapers (c * n)) (c * n) tolc
        = ((adaptStep (mtSkA (twiddles Ω (c * n)) x tapers (c * n)) lams (adaptSig2 x) (c * n)
              lams.length)^[kF]
            (adaptInit lams (mtSkA (twiddles Ω (c * n)) x tapers (c * n)) (c * n))).wk ∧
      pmtmWeights .adapt x lams (mtSkA (twiddles ω n) x tapers n) n tolc
        = ((adaptStep (mtSkA (twiddles ω n) x tapers n) lams (adaptSig2 x) n lams.length)^[kC]
            (adaptInit lams (mtSkA (twiddles ω n) x tapers n) n)).wk ∧
      (kF = kC → ∀ j, j < n →
        (∀ t, t < lams.length →
          nth ((pmtmWeights .adapt x lams (mtSkA (twiddles Ω (c * n)) x tapers (c * n)) (c * n)
                tolc).getD (c * j) []) t
            = nth ((pmtmWeights .adapt x lams (mtSkA (twiddles ω n) x tapers n) n tolc).getD j []) t) ∧
        nth (mtMean .adapt (mtSkA (twiddles Ω (c * n)) x tapers (c * n))
              (pmtmWeights .adapt x lams (mtSkA (twiddles Ω (c * n)) x tapers (c * n)) (c * n) tolc)
              (c * n) lams.length) (c * j)
          = nth (mtMean .adapt (mtSkA (twiddles ω n) x tapers n)
              (pmtmWeights .adapt x lams (mtSkA (twiddles ω n) x tapers n) n tolc) n lams.length) j) := by
  set SkF := mtSkA (twiddles Ω (c * n)) x tapers (c * n) with hSkF
  set SkC := mtSkA (twiddles ω n) x tapers n with hSkC
  have hSk : ∀ t j, j < n → nth (SkF.getD t []) (c * j) = nth (SkC.getD t []) j :=
    fun t j hj => mt_table_grid hn hc hΩ hΩω x tapers hx t j hj
  obtain ⟨kF, hkF, heF, _, _⟩ := adaptLoop_iterate SkF lams (adaptSig2 x)
    (tolc * adaptSig2 x / ((c * n : ℕ) : K)) (c * n) lams.length 99
    (adaptStep SkF lams (adaptSig2 x) (c * n) lams.length (adaptInit lams SkF (c * n)))
  obtain ⟨kC, hkC, heC, _, _⟩ := adaptLoop_iterate SkC lams (adaptSig2 x)
    (tolc * adaptSig2 x / (n : K)) n lams.length 99
    (adaptStep SkC lams (adaptSig2 x) n lams.length (adaptInit lams SkC n))
  have hwF := pmtmWeights_adapt x lams SkF (c * n) tolc
  have hwC := pmtmWeights_adapt x lams SkC n tolc
  rw [heF, ← Function.iterate_succ_apply] at hwF
  rw [heC, ← Function.iterate_succ_apply] at hwC
  refine ⟨kF + 1, kC + 1, Nat.succ_le_succ (Nat.zero_le _), Nat.succ_le_succ hkF,
    Nat.succ_le_succ (Nat.zero_le _), Nat.succ_le_succ hkC, hwF, hwC, ?_⟩
  intro hk j hj
  have hk : kF = kC := Nat.succ_injective hk
  subst hk
  have hA := adaptAgree_iterate hc SkF SkC lams (adaptSig2 x) hSk _ _
    (adaptAgree_init hc SkF SkC lams hSk) (kF + 1)
  have hW : ∀ t, t < lams.length →
      nth ((pmtmWeights .adapt x lams SkF (c * n) tolc).getD (c * j) []) t
        = nth ((pmtmWeights .adapt x lams SkC n tolc).getD j []) t := by
    intro t ht
    rw [hwF, hwC]
    exact hA.2 j hj t ht
  refine ⟨hW, ?_⟩
  rw [nth_mtMean_adapt _ _ _ (fine_index_lt hc hj), nth_mtMean_adapt _ _ _ hj]
  congr 1
  apply Finset.sum_congr rfl
  intro t ht
  rw [hW t (mem_range.mp ht), hSk t j hj]

/-! ### 7. the class glue (`__call__`): one-sided fold for real data, `scale_by_freq = False` -/

/-- every kept coarse index of the one-sided fold (`j < n/2+1` for even `n`, `j < (n+1)/2` for odd `n`)
maps to a kept fine index, whatever the parities of `n` and `c·n` -/
theorem class_index_grid {c n j : ℕ}
    (hj : j < (if n % 2 = 0 then n / 2 + 1 else (n + 1) / 2)) :
    c * j < (if (c * n) % 2 = 0 then (c * n) / 2 + 1 else (c * n + 1) / 2) :=
  fold_index_fine hj

omit [StarRing K] in
/-- **class output, real data**: for two raw two-sided estimates that agree at the common frequency
(`raw_fine[c·j] = raw_coarse[j]`) the unscaled class outputs agree there: both are twice the raw value. -/
theorem class_grid {c n : ℕ} (rawF rawC : List K) (twoPi fsF fsC : K) (j : ℕ)
    (hj : j < (if n % 2 = 0 then n / 2 + 1 else (n + 1) / 2))
    (hraw : nth rawF (c * j) = nth rawC j) :
    nth (classPsd rawF true (c * n) false twoPi fsF) (c * j) = 2 * nth rawF (c * j) ∧
    nth (classPsd rawC true n false twoPi fsC) j = 2 * nth rawC j ∧
    nth (classPsd rawF true (c * n) false twoPi fsF) (c * j)
      = nth (classPsd rawC true n false twoPi fsC) j := by
  have e1 := nth_classPsd_real rawF (c * n) twoPi fsF (fold_index_fine (c := c) hj)
  have e2 := nth_classPsd_real rawC n twoPi fsC hj
  exact ⟨e1, e2, by rw [e1, e2, hraw]⟩

omit [StarRing K] in
/-- **class output, complex data** (the two-sided estimate is stored as it is) -/
theorem class_grid_complex {c n : ℕ} (rawF rawC : List K) (twoPi fsF fsC : K) (j : ℕ)
    (hraw : nth rawF (c * j) = nth rawC j) :
    nth (classPsd rawF false (c * n) false twoPi fsF) (c * j)
      = nth (classPsd rawC false n false twoPi fsC) j := by
  rw [nth_classPsd_complex, nth_classPsd_complex, hraw]

omit [StarRing K] in
/-- the three kinds of class glue (`fold2`: the nine classes above; `take`: Periodogram, whose function
output is already one-sided; `eigen` is `eigen_class_real_grid` / `eigen_class_complex_grid`) with
`scale_by_freq = False`, real data -/
theorem class_call_grid {c n : ℕ} (rawF rawC : List K) (twoPi fsF fsC : K) (j : ℕ)
    (hraw : nth rawF (c * j) = nth rawC j) :
    (j < (if n % 2 = 0 then n / 2 + 1 else (n + 1) / 2) →
      nth (classCall .fold2 rawF true (c * n) false twoPi fsF) (c * j)
        = nth (classCall .fold2 rawC true n false twoPi fsC) j) ∧
    (j < n / 2 + 1 →
      nth (classCall .take rawF true (c * n) false twoPi fsF) (c * j)
        = nth (classCall .take rawC true n false twoPi fsC) j) := by
  constructor
  · intro hj
    exact (class_grid rawF rawC twoPi fsF fsC j hj hraw).2.2
  · intro hj
    simp only [classCall, scalePsd, if_true, Bool.false_eq_true, if_false]
    rw [nth_takeReal rawF (c * n) (half_index_fine hj), nth_takeReal rawC n hj, hraw]

/-- **AR / MA / ARMA classes** (`pburg`, `pyule`, `pcovar`, `pmodcovar`, `pma`, `parma`) on real data: the
class output at one-sided index `c·j` of the fine grid equals that at index `j` of the coarse grid. -/
theorem class_arma_grid {Ω ω : K} {c n : ℕ} (hn : 0 < n) (hc : 0 < c) (hΩ : Ω ^ (c * n) = 1)
    (hΩω : Ω ^ c = ω)
    (A B : Option (List K)) (hA : ∀ a, A = some a → a.length < n)
    (hB : ∀ b, B = some b → b.length < n) (rho fs twoPi : K) (j : ℕ)
    (hj : j < (if n % 2 = 0 then n / 2 + 1 else (n + 1) / 2)) :
    nth (classPsd (arma2psd (twiddles Ω (c * n)) A B rho fs (c * n)) true (c * n) false twoPi fs)
        (c * j)
      = nth (classPsd (arma2psd (twiddles ω n) A B rho fs n) true n false twoPi fs) j := by
  have hjn : j < n := by split_ifs at hj <;> omega
  exact (class_grid _ _ twoPi fs fs j hj (arma2psd_grid hc hΩ hΩω A B hA hB rho fs j hjn)).2.2

/-- **`pcorrelogram` class** on real data -/
theorem class_correlogram_grid {Ω ω : K} {c n L : ℕ} (hn : 0 < n) (hc : 0 < c) (hΩ : Ω ^ (c * n) = 1)
    (hΩω : Ω ^ c = ω) (hL : 2 * L + 1 ≤ n) (x y w : List K) (norm : Norm) (rms2 twoPi fs : K) (j : ℕ)
    (hj : j < (if n % 2 = 0 then n / 2 + 1 else (n + 1) / 2)) :
    nth (classPsd (correlogram (twiddles Ω (c * n)) x y w L (c * n) norm rms2) true (c * n) false
        twoPi fs) (c * j)
      = nth (classPsd (correlogram (twiddles ω n) x y w L n norm rms2) true n false twoPi fs) j := by
  have hjn : j < n := by split_ifs at hj <;> omega
  exact (class_grid _ _ twoPi fs fs j hj (correlogram_grid hc hΩ hΩω hL x y w norm rms2 j hjn)).2.2

/-- **`pminvar` class** on real data -/
theorem class_minvar_grid {Ω ω : K} {c n : ℕ} (hn : 0 < n) (hc : 0 < c) (hΩ : Ω ^ (c * n) = 1) (hΩω : Ω ^ c = ω)
    (x : List K) (m : ℕ) (fs twoPi : K) (hm : 1 ≤ m) (hno : 2 * m ≤ n + 1) (j : ℕ)
    (hj : j < (if n % 2 = 0 then n / 2 + 1 else (n + 1) / 2)) :
    nth (classPsd (minvar (twiddles Ω (c * n)) x m fs (c * n)).psd true (c * n) false twoPi fs) (c * j)
      = nth (classPsd (minvar (twiddles ω n) x m fs n).psd true n false twoPi fs) j := by
  have hjn : j < n := by split_ifs at hj <;> omega
  exact (class_grid _ _ twoPi fs fs j hj (minvar_data_grid hc hΩ hΩω x m fs hm hno j hjn)).2.2

/-- **`Periodogram` class** on real data (`take` glue on the one-sided function output) -/
theorem class_periodogram_grid {Ω ω : K} {c n : ℕ} (hn : 0 < n) (hc : 0 < c) (hΩ : Ω ^ (c * n) = 1)
    (hΩω : Ω ^ c = ω) (x w : List K) (hx : x.length ≤ n) (twoPi fs : K) (j : ℕ)
    (hj : j < n / 2 + 1) :
    nth (classCall .take (speriodogram (twiddles Ω (c * n)) x w (c * n) true) true (c * n) false
        twoPi fs) (c * j)
      = nth (classCall .take (speriodogram (twiddles ω n) x w n true) true n false twoPi fs) j :=
  (class_call_grid _ _ twoPi fs fs j
    (periodogram_grid hn hc hΩ hΩω x w hx true j (by simpa using hj))).2 hj

/-- **`MultiTapering` class**, unity / eigen weighting, real data -/
theorem class_mt_grid [ReOrd K] {Ω ω : K} {c n : ℕ} (hn : 0 < n) (hc : 0 < c)
    (hΩ : Ω ^ (c * n) = 1) (hΩω : Ω ^ c = ω) (m : MtMethod) (hm : m ≠ .adapt) (x lams : List K)
    (tapers : List (List K)) (tolc twoPi fs : K) (hx : x.length ≤ n) (j : ℕ)
    (hj : j < (if n % 2 = 0 then n / 2 + 1 else (n + 1) / 2)) :
    nth (classPsd (mtMean m (mtSkA (twiddles Ω (c * n)) x tapers (c * n))
          (pmtmWeights m x lams (mtSkA (twiddles Ω (c * n)) x tapers (c * n)) (c * n) tolc)
          (c * n) lams.length) true (c * n) false twoPi fs) (c * j)
      = nth (classPsd (mtMean m (mtSkA (twiddles ω n) x tapers n)
          (pmtmWeights m x lams (mtSkA (twiddles ω n) x tapers n) n tolc) n lams.length)
          true n false twoPi fs) j := by
  have hjn : j < n := by split_ifs at hj <;> omega
  exact (class_grid _ _ twoPi fs fs j hj
    (mt_mean_grid hn hc hΩ hΩω m hm x lams tapers tolc hx j hjn)).2.2

/-- non-vacuity of the fold indices with mixed parities (`n = 3` odd keeps `j < 2`; `c = 2`, `c·n = 6` even
keeps `k < 4`): `j = 1 ↦ 2`. -/
example : (1 : ℕ) < (if 3 % 2 = 0 then 3 / 2 + 1 else (3 + 1) / 2)
    ∧ 2 * 1 < (if (2 * 3) % 2 = 0 then (2 * 3) / 2 + 1 else (2 * 3 + 1) / 2) := by decide

/-! ### 8. the model parameters do not depend on NFFT -/

/-- **parameters**.  In the model the parameter estimators `burgRun`, `aryule`, `maEstimate`,
`armaEstimate`, `arcovar`, `modcovar`, `levRun`, `correlation`, `fbMatrix` (and the SVD inputs `S`, `cols`,
`nsig` of `eigen`, the Slepian tapers and eigenvalues of `pmtm`) do not take NFFT as an argument at all, so
their independence of NFFT holds by construction.  The functions that DO take NFFT and also return
parameters are `minvar` (AR vector, reflection coefficients) and `pmtmWeights` (unity / eigen weights):
for any two twiddle tables and NFFT values they return the same parameters. -/
theorem params_indep_nfft [ReOrd K] (tw₁ tw₂ : List K) (n₁ n₂ : ℕ) (x : List K) (m : ℕ) (fs : K)
    (lams : List K) (SkA₁ SkA₂ : List (List K)) (tolc : K) :
    (minvar tw₁ x m fs n₁).ar = (minvar tw₂ x m fs n₂).ar ∧
    (minvar tw₁ x m fs n₁).ref = (minvar tw₂ x m fs n₂).ref ∧
    (minvar tw₁ x m fs n₁).ar = (1 : K) :: (burgRun x (m - 1)).a ∧
    (minvar tw₁ x m fs n₁).ref = (burgRun x (m - 1)).ref ∧
    pmtmWeights .unity x lams SkA₁ n₁ tolc = pmtmWeights .unity x lams SkA₂ n₂ tolc ∧
    pmtmWeights .eigen x lams SkA₁ n₁ tolc = pmtmWeights .eigen x lams SkA₂ n₂ tolc :=
  ⟨rfl, rfl, rfl, rfl, rfl, rfl⟩

/-- the correlation lags used by the correlogram do not depend on NFFT: `correlogram` at any NFFT is
`correlogramPsd` of the same lag vectors -/
theorem correlogram_lags_indep_nfft (tw : List K) (x y w : List K) (L n : ℕ) (norm : Norm) (rms2 : K) :
    correlogram tw x y w L n norm rms2
      = correlogramPsd tw (correlation x y L norm rms2) (correlation y x L norm rms2) w L n := rfl

end SpecVerif.C05
