import SpecVerif.Proofs.Lemmas.Minvar
import SpecVerif.Proofs.Lemmas.GohbergSemencul
import SpecVerif.Proofs.Lemmas.Arma
import SpecVerif.Proofs.C08
import SpecVerif.Proofs.C13
import SpecVerif.Model.Minvar
import Mathlib.Algebra.Star.Rat
import Mathlib.Data.Complex.Basic
import Mathlib.Tactic.NormNum
import Mathlib.Tactic.IntervalCases
import Mathlib.Tactic.Positivity
import SpecVerif.Proofs.Lemmas.CRatField
/-
  C16 — minimum variance (`minvar`, model in `SpecVerif/Model/Minvar.lean`, ψ sequence and final
  inversion in `SpecVerif/Model/Arma.lean`).

  "For any data, dimension `m ≥ 2` and `NFFT ≥ 2m`, the estimate at `f_k = k/NFFT` is
  `sampling / (e(f_k)ᴴ R⁻¹ e(f_k))`, `R` the `m × m` Hermitian Toeplitz autocorrelation matrix implied by
  the order `m-1` Burg model; it is real and strictly positive, and `minvar` returns the Burg AR vector
  (with leading 1) and reflection coefficients it used."

  Conventions.  `a = [1, a_1, …, a_{m-1}]` the Burg polynomial, `P` the Burg error power, `ω` an
  `NFFT`-th root of unity with `star ω = ω⁻¹` (numpy's `e^{-2πi/NFFT}`), `e(f_k)_i = e^{2πi f_k i} = ω^{-ik}`.
  `gsG m a i j = Σ_{t ≤ min i j} (a_{i-t}·conj a_{j-t} − b_{i-t}·conj b_{j-t})`, `b = [0, conj a_{m-1}, …,
  conj a_1]`, is entry `(i,j)` of `L₁L₁ᴴ − L₂L₂ᴴ` (`gs_matrix_is_product_difference`), `R_{ij} = r(i-j)`.
  The Gohberg–Semencul identity `R⁻¹ = (L₁L₁ᴴ − L₂L₂ᴴ)/P` is PROVED (section 7, `gohberg_semencul`,
  `gohberg_semencul_unique`; helpers in `Proofs/Lemmas/GohbergSemencul.lean`, namespace `SpecVerif.GSL`):
  whenever `(a, P)` solve the normal equations `Σ_j R_{ij} a_j = P δ_{i0}` of the Hermitian Toeplitz `R`,
  `R·G = P·I = G·R`, so every right (or left) inverse of `R` is `G/P`.  Sections 2–5 keep the older theorems
  that take the identity as the explicit hypothesis `hGS` (names `…_of_GS`, `…_of_pd`); sections 7–8 state the
  property without it: `minvar_eq_quadratic_form`, `minvar_psd_eq_quadratic_form` (the value `minvar` returns,
  `R` built from the autocorrelation implied by the Burg model: `r_0 = mean |x|²`, `r_j = rc2ac(ref, r_0)[j]`;
  that the Burg model solves these normal equations is `minvar_ar_solves_normal_equations`), and over `ℝ`/`ℂ`
  `minvar_psd_real_pos` (positive definiteness of `R` is derived from `|k_i| < 1`, not assumed).

  Property theorems only (helpers: `Proofs/Lemmas/Minvar.lean`, namespace `SpecVerif.MinvarL`).
-/
namespace SpecVerif.C16
open Finset SpecVerif SpecVerif.ArmaL SpecVerif.MinvarL SpecVerif.BurgL SpecVerif.GSL

variable {K : Type} [Field K] [StarRing K]

/-! ### 1. `minvar` returns the Burg model it used -/

/-- **returned values**: for `m ≥ 1`, `minvar(X, m, fs, NFFT)` returns the order `m-1` Burg AR vector with
its leading 1 (`m` entries), the `m-1` Burg reflection coefficients, and the `NFFT` values
`minvarPsd(a, ρ_Burg, fs, NFFT)`. -/
theorem minvar_returns_burg (tw x : List K) (m : ℕ) (hm : 1 ≤ m) (fs : K) (nfft : ℕ) :
    (minvar tw x m fs nfft).ar = 1 :: (burgRun x (m - 1)).a ∧
    (minvar tw x m fs nfft).ref = (burgRun x (m - 1)).ref ∧
    (minvar tw x m fs nfft).psd
      = minvarPsd tw (1 :: (burgRun x (m - 1)).a) (burgRun x (m - 1)).rho fs nfft ∧
    (minvar tw x m fs nfft).ar.length = m ∧
    (minvar tw x m fs nfft).ref.length = m - 1 ∧
    (minvar tw x m fs nfft).psd.length = nfft := by
  refine ⟨rfl, rfl, rfl, one_cons_length_burg x m hm, burgRun_ref_length x (m - 1), ?_⟩
  show (minvarPsd tw _ _ fs nfft).length = nfft
  unfold minvarPsd
  rw [vec_length]

/-- the returned AR vector is the step-up (`rc2poly`) polynomial of the returned reflection
coefficients, with the leading 1 put in front (C13 for the Burg part) -/
theorem minvar_ar_eq_stepup (tw x : List K) (m : ℕ) (fs : K) (nfft : ℕ) (r0 : K) :
    (minvar tw x m fs nfft).ar = 1 :: (rc2poly (minvar tw x m fs nfft).ref r0).1 := by
  show 1 :: (burgRun x (m - 1)).a = 1 :: (rc2poly (burgRun x (m - 1)).ref r0).1
  rw [← C13.burg_ar_eq_stepup x (m - 1) r0]

/-! ### 2. the diagonal sums of the Gohberg–Semencul matrix are Musicus' ψ sequence -/

/-- `gsG` is `L₁L₁ᴴ − L₂L₂ᴴ`: the difference of the two matrix products, `L₁`, `L₂` the lower-triangular
Toeplitz matrices with first columns `a` and `b = [0, conj a_{m-1}, …, conj a_1]`. -/
theorem gs_matrix_is_product_difference (m : ℕ) (a : ℕ → K) (i j : ℕ) (hi : i < m) (hj : j < m) :
    gsG m a i j
      = ∑ t ∈ range m, lowerToeplitz a i t * star (lowerToeplitz a j t)
        - ∑ t ∈ range m, lowerToeplitz (gsB m a) i t * star (lowerToeplitz (gsB m a) j t) :=
  gsG_eq_products m a i j hi hj

/-- `L₁L₁ᴴ − L₂L₂ᴴ` is Hermitian -/
theorem gs_matrix_hermitian (m : ℕ) (a : ℕ → K) (i j : ℕ) : gsG m a j i = star (gsG m a i j) :=
  gsG_hermitian m a i j

/-- **finite re-indexing (the heart)**: for any `a : ℕ → K` and `k < m`, the `k`-th lower diagonal of
`G = L₁L₁ᴴ − L₂L₂ᴴ` sums to `Σ_{i<m-k} (m-k-2i)·conj(a_i)·a_{i+k}` (the integer weight written with
natural-number casts as in the model: `psiWeight n i = n-2i` if `2i ≤ n`, else `-(2i-n)`). -/
theorem gs_diag_sum (m : ℕ) (a : ℕ → K) (k : ℕ) (hk : k < m) :
    ∑ j ∈ range (m - k), gsG m a (j + k) j
      = ∑ i ∈ range (m - k),
          (if 2 * i ≤ m - k then (((m - k - 2 * i : ℕ) : K)) else -(((2 * i - (m - k) : ℕ) : K)))
            * star (a i) * a (i + k) :=
  diagSum_gsG m a k hk

/-- **ψ = diagonal sums of GS**: for the coefficient list `a` (`m = len a`), `P ≠ 0` and `k < m`, the `k`-th
diagonal sum of `L₁L₁ᴴ − L₂L₂ᴴ` is `P·ψ_k`, `ψ_k = minvarLag a P k` the model's entry `ψ[k]`
(`C08.minvarPsi_entry`). -/
theorem psi_eq_diag_sums_of_GS (a : List K) {P : K} (hP : P ≠ 0) (k : ℕ) (hk : k < a.length)
    {nfft : ℕ} (hkn : k < nfft) :
    ∑ j ∈ range (a.length - k), gsG a.length (nth a) (j + k) j
      = nth (minvarPsi a P nfft) k * P := by
  rw [(C08.minvarPsi_entry a P hk hkn).2]
  exact diagSum_gsG_eq_lag a hP k hk

/-- sanity check of the hypothesis `hGS` used below (index conventions of `gsG`): `K = ℚ`, `m = 3`,
autocorrelation `r = (1, 1/2, 0)`, `R_{ij} = r(|i-j|)`; the order-2 model is `a = [1, -2/3, 1/3]`, `P = 2/3`,
and `R · (L₁L₁ᴴ − L₂L₂ᴴ)/P = I`. -/
example : ∀ i j, i < 3 → j < 3 →
    ∑ l ∈ range 3, (if i = l then (1 : ℚ) else if i + 1 = l ∨ l + 1 = i then 1 / 2 else 0)
        * (gsG 3 (nth ([1, -2/3, 1/3] : List ℚ)) l j / (2/3))
      = if i = j then 1 else 0 := by
  intro i j hi hj
  interval_cases i <;> interval_cases j <;>
    simp [gsG, gsB, nth, Finset.sum_range_succ] <;> norm_num

/-! ### 3. a Hermitian quadratic form on the unit circle, by diagonals -/

/-- **`e(z)ᴴ M e(z)` by diagonals**: for a Hermitian `M` (`M_{ji} = conj M_{ij}`) and `z ≠ 0` with
`conj z = z⁻¹`, `e_i = z^i`:
`Σ_{i<m} Σ_{j<m} conj(z^i)·M_{ij}·z^j = d_0 + Σ_{K=1}^{m-1} (d_K·z^{-K} + conj(d_K)·z^K)`,
`d_K = Σ_{j<m-K} M_{j+K,j}` the `K`-th lower diagonal sum. -/
theorem quadratic_form_by_diagonals (m : ℕ) (M : ℕ → ℕ → K)
    (hM : ∀ i j, i < m → j < m → M j i = star (M i j)) (z : K) (hz : z ≠ 0) (hstar : star z = z⁻¹) :
    ∑ i ∈ range m, ∑ j ∈ range m, star (z ^ i) * M i j * z ^ j
      = ∑ j ∈ range m, M j j
        + ∑ k ∈ Ico 1 m, ((∑ j ∈ range (m - k), M (j + k) j) * z⁻¹ ^ k
            + star (∑ j ∈ range (m - k), M (j + k) j) * z ^ k) := by
  have h := quadForm_pow_by_diag m M hM z hz hstar
  unfold quadForm diagSum at h
  simpa only [Nat.sub_zero, Nat.add_zero] using h

/-! ### 4. the PSD is `sampling / (eᴴ R⁻¹ e)` -/

/-- **minimum variance = quadratic form**, conditional on Gohberg–Semencul.  Let `a` have `m ≥ 1` entries,
`P ≠ 0` self-adjoint, `2m ≤ NFFT+1` (no overlap; implied by `NFFT ≥ 2m`), `ω^NFFT = 1`, `conj ω = ω⁻¹`,
`2 ≠ 0`.  If `Rinv_{ij} = (L₁L₁ᴴ − L₂L₂ᴴ)_{ij}/P` for `i, j < m` (`hGS`), then bin `k` of `minvarPsd` is
`fs / Σ_i Σ_j conj(e_i)·Rinv_{ij}·e_j` with `e_i = ω^{-ik}` (i.e. `e^{2πi·(k/NFFT)·i}` for numpy's `ω`). -/
theorem minvar_eq_quadratic_form_of_GS {ω : K} {nfft : ℕ} (h2 : (2 : K) ≠ 0) (hω : ω ^ nfft = 1)
    (hstar : star ω = ω⁻¹) (a : List K) {P : K} (hP : star P = P) (hP0 : P ≠ 0) (ha : 0 < a.length)
    (hno : 2 * a.length ≤ nfft + 1) (Rinv : ℕ → ℕ → K)
    (hGS : ∀ i j, i < a.length → j < a.length → Rinv i j = gsG a.length (nth a) i j / P)
    (fs : K) (k : ℕ) (hk : k < nfft) :
    nth (minvarPsd (twiddles ω nfft) a P fs nfft) k
      = fs / ∑ i ∈ range a.length, ∑ j ∈ range a.length,
          star (ω⁻¹ ^ (i * k)) * Rinv i j * ω⁻¹ ^ (j * k) := by
  rw [C08.minvarPsd_entry h2 hω hstar a hP ha hno fs k hk,
    dft_minvarPsi_eq_quadForm hω hstar a hP hP0 ha hno k, ← quadForm_div,
    ← quadForm_congr a.length hGS]
  unfold quadForm
  simp only [← pow_mul, mul_comm k]

/-- non-vacuity of `minvar_eq_quadratic_form_of_GS`: `K = ℚ`, `ω = -1`, `NFFT = 4`, `m = 2`, `r = (1, 1/2)`,
`a = [1, -1/2]`, `P = 3/4`, `Rinv = R⁻¹ = [[4/3, -2/3], [-2/3, 4/3]]`; at `k = 1`, `e = (1, -1)`,
`eᴴ R⁻¹ e = 4` and the PSD value is `fs/4`. -/
example : nth (minvarPsd (twiddles (-1 : ℚ) 4) [1, -1/2] (3/4) 1 4) 1 = 1/4 := by
  rw [minvar_eq_quadratic_form_of_GS (ω := -1) (by norm_num) (by norm_num) (by simp)
    [1, -1/2] (P := 3/4) (by simp) (by norm_num) (by simp) (by simp)
    (fun i j => if i = j then 4/3 else -2/3) ?_ 1 1 (by norm_num)]
  · simp [Finset.sum_range_succ]; norm_num
  · intro i j hi hj
    simp only [List.length_cons, List.length_nil] at hi hj
    interval_cases i <;> interval_cases j <;>
      simp [gsG, gsB, nth, Finset.sum_range_succ] <;> norm_num

/-- the same for the value `minvar` returns: for `m ≥ 1`, `NFFT ≥ 2m`, non-zero Burg error power, and
`Rinv = (L₁L₁ᴴ − L₂L₂ᴴ)/ρ` built from the returned AR vector (`hGS`),
`minvar(X, m, fs, NFFT).psd[k] = fs / (e(f_k)ᴴ Rinv e(f_k))`. -/
theorem minvar_psd_eq_quadratic_form_of_GS {ω : K} {nfft : ℕ} (h2 : (2 : K) ≠ 0) (hω : ω ^ nfft = 1)
    (hstar : star ω = ω⁻¹) (x : List K) (m : ℕ) (hm : 1 ≤ m) (hno : 2 * m ≤ nfft)
    (hP0 : (burgRun x (m - 1)).rho ≠ 0) (fs : K) (Rinv : ℕ → ℕ → K)
    (hGS : ∀ i j, i < m → j < m →
      Rinv i j = gsG m (nth (minvar (twiddles ω nfft) x m fs nfft).ar) i j / (burgRun x (m - 1)).rho)
    (k : ℕ) (hk : k < nfft) :
    nth (minvar (twiddles ω nfft) x m fs nfft).psd k
      = fs / ∑ i ∈ range m, ∑ j ∈ range m, star (ω⁻¹ ^ (i * k)) * Rinv i j * ω⁻¹ ^ (j * k) := by
  have hlen := one_cons_length_burg x m hm
  show nth (minvarPsd (twiddles ω nfft) (1 :: (burgRun x (m - 1)).a) (burgRun x (m - 1)).rho fs nfft) k
    = _
  have h := minvar_eq_quadratic_form_of_GS h2 hω hstar (1 :: (burgRun x (m - 1)).a)
    (burgRun_rho_star x (m - 1)) hP0 (by rw [hlen]; exact hm) (by rw [hlen]; omega) Rinv
    (by rw [hlen]; exact hGS) fs k hk
  rw [hlen] at h
  exact h

/-- non-vacuity of the Burg-level hypotheses (`m = 2`, `NFFT = 4 ≥ 2m`, non-zero error power): `K = ℚ`,
`x = [1, 2, 1]`: `a = [1, -4/5]`, `ρ = 2·(1 - 16/25) = 18/25`. -/
example : (minvar (twiddles (-1 : ℚ) 4) [1, 2, 1] 2 1 4).ar = [1, -4/5] ∧
    (burgRun ([1, 2, 1] : List ℚ) (2 - 1)).rho = 18/25 := by
  decide +kernel

/-! ### 5. real and strictly positive -/
section RC
variable {𝕜 : Type} [RCLike 𝕜]

/-- **real, strictly positive**, conditional on Gohberg–Semencul: over `ℝ`/`ℂ`, if `Rinv` (`hGS`) is
positive definite — `eᴴ Rinv e` is a positive real for every `e ≠ 0` — and `fs > 0`, then every bin of the
minimum-variance PSD is a strictly positive real number. -/
theorem minvar_real_pos_of_pd {ω : 𝕜} {nfft : ℕ} (hω : ω ^ nfft = 1) (hstar : star ω = ω⁻¹)
    (a : List 𝕜) {P : 𝕜} (hP : star P = P) (hP0 : P ≠ 0) (ha : 0 < a.length)
    (hno : 2 * a.length ≤ nfft + 1) (Rinv : ℕ → ℕ → 𝕜)
    (hGS : ∀ i j, i < a.length → j < a.length → Rinv i j = gsG a.length (nth a) i j / P)
    (hpd : ∀ e : ℕ → 𝕜, (∃ i, i < a.length ∧ e i ≠ 0) →
      ∃ q : ℝ, 0 < q ∧
        ∑ i ∈ range a.length, ∑ j ∈ range a.length, star (e i) * Rinv i j * e j = (q : 𝕜))
    (fs : ℝ) (hfs : 0 < fs) (k : ℕ) (hk : k < nfft) :
    ∃ v : ℝ, 0 < v ∧ nth (minvarPsd (twiddles ω nfft) a P (fs : 𝕜) nfft) k = (v : 𝕜) := by
  have h2 : (2 : 𝕜) ≠ 0 := two_ne_zero
  rw [minvar_eq_quadratic_form_of_GS h2 hω hstar a hP hP0 ha hno Rinv hGS (fs : 𝕜) k hk]
  obtain ⟨q, hq, hQ⟩ := hpd (fun i => ω⁻¹ ^ (i * k)) ⟨0, ha, by
    rw [Nat.zero_mul, pow_zero]; exact one_ne_zero⟩
  rw [hQ]
  exact ⟨fs / q, div_pos hfs hq, (RCLike.ofReal_div fs q).symm⟩

/-- in the `re`/`im` form: the bin has zero imaginary part and strictly positive real part -/
theorem minvar_re_pos_im_zero_of_pd {ω : 𝕜} {nfft : ℕ} (hω : ω ^ nfft = 1) (hstar : star ω = ω⁻¹)
    (a : List 𝕜) {P : 𝕜} (hP : star P = P) (hP0 : P ≠ 0) (ha : 0 < a.length)
    (hno : 2 * a.length ≤ nfft + 1) (Rinv : ℕ → ℕ → 𝕜)
    (hGS : ∀ i j, i < a.length → j < a.length → Rinv i j = gsG a.length (nth a) i j / P)
    (hpd : ∀ e : ℕ → 𝕜, (∃ i, i < a.length ∧ e i ≠ 0) →
      ∃ q : ℝ, 0 < q ∧
        ∑ i ∈ range a.length, ∑ j ∈ range a.length, star (e i) * Rinv i j * e j = (q : 𝕜))
    (fs : ℝ) (hfs : 0 < fs) (k : ℕ) (hk : k < nfft) :
    0 < RCLike.re (nth (minvarPsd (twiddles ω nfft) a P (fs : 𝕜) nfft) k) ∧
    RCLike.im (nth (minvarPsd (twiddles ω nfft) a P (fs : 𝕜) nfft) k) = 0 := by
  obtain ⟨v, hv, h⟩ := minvar_real_pos_of_pd hω hstar a hP hP0 ha hno Rinv hGS hpd fs hfs k hk
  rw [h, RCLike.ofReal_re, RCLike.ofReal_im]
  exact ⟨hv, rfl⟩

/-- **C16 assembled** for the value `minvar` returns, over `ℝ`/`ℂ`: for `m ≥ 1`, `NFFT ≥ 2m`, `fs > 0`,
non-zero Burg error power `ρ`, if `Rinv = (L₁L₁ᴴ − L₂L₂ᴴ)/ρ` for the returned AR vector (`hGS`) is positive
definite, then `minvar(X, m, fs, NFFT).psd[k] = fs / (e(f_k)ᴴ Rinv e(f_k))` (`e(f_k)_i = ω^{-ik}`) and this
is a strictly positive real number. -/
theorem minvar_psd_real_pos_of_pd {ω : 𝕜} {nfft : ℕ} (hω : ω ^ nfft = 1) (hstar : star ω = ω⁻¹)
    (x : List 𝕜) (m : ℕ) (hm : 1 ≤ m) (hno : 2 * m ≤ nfft) (hP0 : (burgRun x (m - 1)).rho ≠ 0)
    (fs : ℝ) (hfs : 0 < fs) (Rinv : ℕ → ℕ → 𝕜)
    (hGS : ∀ i j, i < m → j < m → Rinv i j
      = gsG m (nth (minvar (twiddles ω nfft) x m (fs : 𝕜) nfft).ar) i j / (burgRun x (m - 1)).rho)
    (hpd : ∀ e : ℕ → 𝕜, (∃ i, i < m ∧ e i ≠ 0) →
      ∃ q : ℝ, 0 < q ∧ ∑ i ∈ range m, ∑ j ∈ range m, star (e i) * Rinv i j * e j = (q : 𝕜))
    (k : ℕ) (hk : k < nfft) :
    nth (minvar (twiddles ω nfft) x m (fs : 𝕜) nfft).psd k
      = (fs : 𝕜) / ∑ i ∈ range m, ∑ j ∈ range m, star (ω⁻¹ ^ (i * k)) * Rinv i j * ω⁻¹ ^ (j * k) ∧
    ∃ v : ℝ, 0 < v ∧ nth (minvar (twiddles ω nfft) x m (fs : 𝕜) nfft).psd k = (v : 𝕜) := by
  refine ⟨minvar_psd_eq_quadratic_form_of_GS two_ne_zero hω hstar x m hm hno hP0 (fs : 𝕜) Rinv hGS
    k hk, ?_⟩
  have hlen := one_cons_length_burg x m hm
  show ∃ v : ℝ, 0 < v ∧ nth (minvarPsd (twiddles ω nfft) (1 :: (burgRun x (m - 1)).a)
    (burgRun x (m - 1)).rho (fs : 𝕜) nfft) k = (v : 𝕜)
  exact minvar_real_pos_of_pd hω hstar (1 :: (burgRun x (m - 1)).a) (burgRun_rho_star x (m - 1)) hP0
    (by rw [hlen]; exact hm) (by rw [hlen]; omega) Rinv (by rw [hlen]; exact hGS)
    (by rw [hlen]; exact hpd) fs hfs k hk

/-- non-vacuity of `minvar_real_pos_of_pd` (all hypotheses, including positive definiteness, hold):
`𝕜 = ℝ`, `ω = -1`, `NFFT = 4`, `a = [1, -1/2]`, `P = 3/4`, `Rinv = [[4/3, -2/3], [-2/3, 4/3]]`,
`eᴴ Rinv e = (4/3)·((e_0 - e_1/2)² + (3/4)·e_1²)`. -/
example : ∃ v : ℝ, 0 < v ∧
    nth (minvarPsd (twiddles (-1 : ℝ) 4) [1, -1/2] (3/4) ((1 : ℝ) : ℝ) 4) 1 = (v : ℝ) := by
  refine minvar_real_pos_of_pd (𝕜 := ℝ) (ω := -1) (by norm_num) (by simp)
    [1, -1/2] (P := 3/4) (by simp) (by norm_num) (by simp) (by simp)
    (fun i j => if i = j then 4/3 else -2/3) ?_ ?_ 1 one_pos 1 (by norm_num)
  · intro i j hi hj
    simp only [List.length_cons, List.length_nil] at hi hj
    interval_cases i <;> interval_cases j <;>
      simp [gsG, gsB, nth, Finset.sum_range_succ] <;> norm_num
  · intro e he
    refine ⟨4/3 * ((e 0 - e 1 / 2) ^ 2 + 3/4 * (e 1) ^ 2), ?_, ?_⟩
    · obtain ⟨i, hi, hne⟩ := he
      simp only [List.length_cons, List.length_nil] at hi
      by_cases h1 : e 1 = 0
      · have h0 : e 0 ≠ 0 := by
          interval_cases i
          · exact hne
          · exact absurd h1 hne
        have : 0 < (e 0) ^ 2 := by positivity
        rw [h1]; norm_num; exact this
      · have : 0 < (e 1) ^ 2 := by positivity
        have := sq_nonneg (e 0 - e 1 / 2)
        positivity
    · simp [Finset.sum_range_succ]
      ring

end RC

/-! ### 6. the bound on `NFFT` is needed -/

/-- **overlap counterexample**: `K = ℚ` (trivial involution), `a = [1, 3, 2]` (`m = 3`), `P = 1`,
`NFFT = 3 < 2m-1`: the two halves of ψ overlap, `ψ = [8, 6, 2]`, and `ψ[NFFT-1] = 2 ≠ 6 = conj ψ[1]` — the
conclusion of `C08.minvarPsi_hermitian` fails without `2m ≤ NFFT+1`. -/
example : nth (minvarPsi ([1, 3, 2] : List ℚ) 1 3) (3 - 1)
    ≠ star (nth (minvarPsi ([1, 3, 2] : List ℚ) 1 3) 1) := by
  decide +kernel

/-- the same one step below the bound, over `ℂ`: `a = [1, 0, i]` (`m = 3`), `NFFT = 4 = 2m-2`: index `2` is
claimed by both halves, `ψ[NFFT-2] = ψ[2] = i ≠ -i = conj ψ[2]`. -/
example : nth (minvarPsi ([1, 0, Complex.I] : List ℂ) 1 4) (4 - 2)
    ≠ star (nth (minvarPsi ([1, 0, Complex.I] : List ℂ) 1 4) 2) := by
  have h : nth (minvarPsi ([1, 0, Complex.I] : List ℂ) 1 4) 2 = Complex.I := by
    rw [nth_minvarPsi_low _ _ (by simp) (by norm_num)]
    simp [minvarLag, nth]
  show nth (minvarPsi ([1, 0, Complex.I] : List ℂ) 1 4) 2 ≠ _
  rw [h]
  intro hI
  have := congrArg Complex.im hI
  simp at this
  norm_num at this

/-! ### 7. the Gohberg–Semencul identity, proved; the property without `hGS` -/

/-- **Gohberg–Semencul**: let `m ≥ 1`, `r_0` real, `R` the `m × m` Hermitian Toeplitz matrix of the lags
`r` (`R_{ij} = r(i-j)` for `j ≤ i`, `conj r(j-i)` above the diagonal — the matrix of `C10.levinson_solves`),
and let `a = [1, a_1, …, a_{m-1}]`, `P ≠ 0` real solve the normal equations `Σ_j R_{ij} a_j = P δ_{i0}`.
Then `(L₁L₁ᴴ − L₂L₂ᴴ)/P` is a two-sided inverse of `R`: `R·(G/P) = I` and `(G/P)·R = I`. -/
theorem gohberg_semencul (m : ℕ) (hm : 1 ≤ m) (r a : ℕ → K) {P : K} (h0 : star (r 0) = r 0)
    (hP : star P = P) (hP0 : P ≠ 0) (ha0 : a 0 = 1)
    (hN : ∀ i, i < m → ∑ j ∈ range m, (if j ≤ i then r (i - j) else star (r (j - i))) * a j
      = if i = 0 then P else 0) :
    (∀ i j, i < m → j < m →
      ∑ l ∈ range m, (if l ≤ i then r (i - l) else star (r (l - i))) * (gsG m a l j / P)
        = if i = j then 1 else 0) ∧
    (∀ i j, i < m → j < m →
      ∑ l ∈ range m, (gsG m a i l / P) * (if j ≤ l then r (l - j) else star (r (j - l)))
        = if i = j then 1 else 0) := by
  constructor
  · intro i j hi hj
    have h := gs_right m hm r a P h0 hP ha0 hN i j hi hj
    have e : ∑ l ∈ range m, (if l ≤ i then r (i - l) else star (r (l - i))) * (gsG m a l j / P)
        = (∑ l ∈ range m, hR r i l * gsG m a l j) / P := by
      rw [Finset.sum_div]
      apply Finset.sum_congr rfl
      intro l _
      unfold hR
      rw [mul_div_assoc]
    rw [e, h]
    by_cases hij : i = j
    · rw [if_pos hij, if_pos hij, div_self hP0]
    · rw [if_neg hij, if_neg hij, zero_div]
  · intro i j hi hj
    have h := gs_left m hm r a P h0 hP ha0 hN i j hi hj
    have e : ∑ l ∈ range m, (gsG m a i l / P) * (if j ≤ l then r (l - j) else star (r (j - l)))
        = (∑ l ∈ range m, gsG m a i l * hR r l j) / P := by
      rw [Finset.sum_div]
      apply Finset.sum_congr rfl
      intro l _
      unfold hR
      rw [div_mul_eq_mul_div]
    rw [e, h]
    by_cases hij : i = j
    · rw [if_pos hij, if_pos hij, div_self hP0]
    · rw [if_neg hij, if_neg hij, zero_div]

/-- **the inverse is unique**: under the hypotheses of `gohberg_semencul`, any right inverse `X`
(`R·X = I` entrywise on the indices `< m`) and any left inverse (`X·R = I`) equals `(L₁L₁ᴴ − L₂L₂ᴴ)/P`. -/
theorem gohberg_semencul_unique (m : ℕ) (hm : 1 ≤ m) (r a : ℕ → K) {P : K} (h0 : star (r 0) = r 0)
    (hP : star P = P) (hP0 : P ≠ 0) (ha0 : a 0 = 1)
    (hN : ∀ i, i < m → ∑ j ∈ range m, (if j ≤ i then r (i - j) else star (r (j - i))) * a j
      = if i = 0 then P else 0) (X : ℕ → ℕ → K) :
    ((∀ i j, i < m → j < m →
        ∑ l ∈ range m, (if l ≤ i then r (i - l) else star (r (l - i))) * X l j
          = if i = j then 1 else 0) →
      ∀ i j, i < m → j < m → X i j = gsG m a i j / P) ∧
    ((∀ i j, i < m → j < m →
        ∑ l ∈ range m, X i l * (if j ≤ l then r (l - j) else star (r (j - l)))
          = if i = j then 1 else 0) →
      ∀ i j, i < m → j < m → X i j = gsG m a i j / P) :=
  ⟨fun hX => gs_right_inverse_unique m hm r a P h0 hP hP0 ha0 hN X hX,
    fun hX => gs_left_inverse_unique m hm r a P h0 hP hP0 ha0 hN X hX⟩

/-- non-vacuity of `gohberg_semencul` (all hypotheses hold): `K = ℚ`, `m = 3`, lags `r = (1, 1/2, 0)`,
`a = [1, -2/3, 1/3]`, `P = 2/3`. -/
example : star ((fun d => nth ([1, 1/2, 0] : List ℚ) d) 0) = (fun d => nth ([1, 1/2, 0] : List ℚ) d) 0 ∧
    star (2/3 : ℚ) = 2/3 ∧ (2/3 : ℚ) ≠ 0 ∧ nth ([1, -2/3, 1/3] : List ℚ) 0 = 1 ∧
    ∀ i, i < 3 → ∑ j ∈ range 3,
        (if j ≤ i then nth ([1, 1/2, 0] : List ℚ) (i - j) else star (nth ([1, 1/2, 0] : List ℚ) (j - i)))
          * nth ([1, -2/3, 1/3] : List ℚ) j
      = if i = 0 then 2/3 else 0 := by
  refine ⟨rfl, rfl, by norm_num, rfl, ?_⟩
  intro i hi
  interval_cases i <;> simp [nth, Finset.sum_range_succ] <;> norm_num

/-- **minimum variance = quadratic form in `R⁻¹`** (no Gohberg–Semencul hypothesis).  Let `a = [1, a_1, …,
a_{m-1}]` (`m ≥ 1` entries), `P ≠ 0` real, `2m ≤ NFFT+1`, `ω^NFFT = 1`, `conj ω = ω⁻¹`, `2 ≠ 0`; let `R` be the
`m × m` Hermitian Toeplitz matrix of lags `r` (`r_0` real) whose normal equations `Σ_j R_{ij} a_j = P δ_{i0}`
are solved by `(a, P)`, and let `Rinv` be ANY right inverse of `R` (`R·Rinv = I` on the indices `< m`).
Then bin `k` of `minvarPsd` is `fs / (e(f_k)ᴴ Rinv e(f_k))`, `e(f_k)_i = ω^{-ik}`. -/
theorem minvar_eq_quadratic_form {ω : K} {nfft : ℕ} (h2 : (2 : K) ≠ 0) (hω : ω ^ nfft = 1)
    (hstar : star ω = ω⁻¹) (a : List K) {P : K} (hP : star P = P) (hP0 : P ≠ 0) (ha : 0 < a.length)
    (ha0 : nth a 0 = 1) (hno : 2 * a.length ≤ nfft + 1) (r : ℕ → K) (h0 : star (r 0) = r 0)
    (hN : ∀ i, i < a.length →
      ∑ j ∈ range a.length, (if j ≤ i then r (i - j) else star (r (j - i))) * nth a j
        = if i = 0 then P else 0)
    (Rinv : ℕ → ℕ → K)
    (hRinv : ∀ i j, i < a.length → j < a.length →
      ∑ l ∈ range a.length, (if l ≤ i then r (i - l) else star (r (l - i))) * Rinv l j
        = if i = j then 1 else 0)
    (fs : K) (k : ℕ) (hk : k < nfft) :
    nth (minvarPsd (twiddles ω nfft) a P fs nfft) k
      = fs / ∑ i ∈ range a.length, ∑ j ∈ range a.length,
          star (ω⁻¹ ^ (i * k)) * Rinv i j * ω⁻¹ ^ (j * k) :=
  minvar_eq_quadratic_form_of_GS h2 hω hstar a hP hP0 ha hno Rinv
    (gs_right_inverse_unique a.length ha r (nth a) P h0 hP hP0 ha0 hN Rinv hRinv) fs k hk

/-- non-vacuity of `minvar_eq_quadratic_form`: `K = ℚ`, `ω = -1`, `NFFT = 4`, `m = 2`, `r = (1, 1/2)`,
`a = [1, -1/2]`, `P = 3/4`, `Rinv = [[4/3, -2/3], [-2/3, 4/3]]`; at `k = 1` the PSD value is `fs/4`. -/
example : nth (minvarPsd (twiddles (-1 : ℚ) 4) [1, -1/2] (3/4) 1 4) 1 = 1/4 := by
  rw [minvar_eq_quadratic_form (ω := -1) (by norm_num) (by norm_num) (by simp)
    [1, -1/2] (P := 3/4) (by simp) (by norm_num) (by simp) rfl (by simp)
    (fun d => nth ([1, 1/2] : List ℚ) d) rfl ?_
    (fun i j => if i = j then 4/3 else -2/3) ?_ 1 1 (by norm_num)]
  · simp [Finset.sum_range_succ]; norm_num
  · intro i hi
    simp only [List.length_cons, List.length_nil] at hi
    interval_cases i <;> simp [nth, Finset.sum_range_succ] <;> norm_num
  · intro i j hi hj
    simp only [List.length_cons, List.length_nil] at hi hj
    interval_cases i <;> interval_cases j <;> simp [nth, Finset.sum_range_succ] <;> norm_num

/-- **the Burg model solves the normal equations of the autocorrelation it implies**: for `m ≥ 1` and a
non-zero Burg error power `ρ`, let `ρ_0 = (burgRun x 0).rho` (the mean squared modulus of the data,
`C13.burg_rho_product`) and `r_0 = ρ_0`, `r_j = rc2ac(ref, ρ_0)[j]` for `1 ≤ j < m` (`ref` the returned
reflection coefficients).  Then `ρ_0 ≠ 0`, every reflection coefficient is off the unit circle, and the
returned AR vector `[1, a_1, …, a_{m-1}]` satisfies `Σ_{j<m} R_{ij} ar_j = ρ δ_{i0}` for `i < m`. -/
theorem minvar_ar_solves_normal_equations (tw x : List K) (m : ℕ) (hm : 1 ≤ m) (fs : K) (nfft : ℕ)
    (hP0 : (burgRun x (m - 1)).rho ≠ 0) (r : ℕ → K) (hr0 : r 0 = (burgRun x 0).rho)
    (hr : ∀ j, 0 < j → j < m →
      r j = nth (rc2ac (minvar tw x m fs nfft).ref (burgRun x 0).rho) j) :
    (burgRun x 0).rho ≠ 0 ∧
    (∀ κ ∈ (minvar tw x m fs nfft).ref, 1 - κ * star κ ≠ 0) ∧
    ∀ i, i < m →
      ∑ j ∈ range m, (if j ≤ i then r (i - j) else star (r (j - i)))
          * nth (minvar tw x m fs nfft).ar j
        = if i = 0 then (burgRun x (m - 1)).rho else 0 := by
  obtain ⟨p, rfl⟩ : ∃ p, m = p + 1 := ⟨m - 1, by omega⟩
  obtain ⟨h1, h2⟩ := burg_domain_of_rho_ne_zero x p hP0
  refine ⟨h1, h2, ?_⟩
  intro i hi
  exact burg_normal_equations x p hP0 r hr0 (fun j hj hjp => hr j hj (by omega)) i hi

/-- **C16, the PSD formula for the value `minvar` returns** (no Gohberg–Semencul hypothesis): for `m ≥ 1`,
`NFFT ≥ 2m` and non-zero Burg error power, let `R` be the `m × m` Hermitian Toeplitz matrix of the
autocorrelation implied by the order `m-1` Burg model — `r_0 = ρ_0 = (burgRun x 0).rho = mean |x|²`,
`r_j = rc2ac(ref, ρ_0)[j]` for `1 ≤ j < m` — and `Rinv` ANY right inverse of `R`.  Then
`minvar(X, m, fs, NFFT).psd[k] = fs / (e(f_k)ᴴ Rinv e(f_k))`, `e(f_k)_i = ω^{-ik}`. -/
theorem minvar_psd_eq_quadratic_form {ω : K} {nfft : ℕ} (h2 : (2 : K) ≠ 0) (hω : ω ^ nfft = 1)
    (hstar : star ω = ω⁻¹) (x : List K) (m : ℕ) (hm : 1 ≤ m) (hno : 2 * m ≤ nfft)
    (hP0 : (burgRun x (m - 1)).rho ≠ 0) (fs : K)
    (r : ℕ → K) (hr0 : r 0 = (burgRun x 0).rho)
    (hr : ∀ j, 0 < j → j < m →
      r j = nth (rc2ac (minvar (twiddles ω nfft) x m fs nfft).ref (burgRun x 0).rho) j)
    (Rinv : ℕ → ℕ → K)
    (hRinv : ∀ i j, i < m → j < m →
      ∑ l ∈ range m, (if l ≤ i then r (i - l) else star (r (l - i))) * Rinv l j
        = if i = j then 1 else 0)
    (k : ℕ) (hk : k < nfft) :
    nth (minvar (twiddles ω nfft) x m fs nfft).psd k
      = fs / ∑ i ∈ range m, ∑ j ∈ range m, star (ω⁻¹ ^ (i * k)) * Rinv i j * ω⁻¹ ^ (j * k) := by
  have hlen := one_cons_length_burg x m hm
  have hN := (minvar_ar_solves_normal_equations (twiddles ω nfft) x m hm fs nfft hP0 r hr0 hr).2.2
  have h0 : star (r 0) = r 0 := by rw [hr0]; exact burgRun_rho_star x 0
  show nth (minvarPsd (twiddles ω nfft) (1 :: (burgRun x (m - 1)).a) (burgRun x (m - 1)).rho fs nfft) k
    = _
  have h := minvar_eq_quadratic_form h2 hω hstar (1 :: (burgRun x (m - 1)).a)
    (burgRun_rho_star x (m - 1)) hP0 (by rw [hlen]; exact hm) rfl (by rw [hlen]; omega) r h0
    (by rw [hlen]; exact hN) Rinv (by rw [hlen]; exact hRinv) fs k hk
  rw [hlen] at h
  exact h

/-- non-vacuity of `minvar_psd_eq_quadratic_form` / `minvar_ar_solves_normal_equations`: `K = ℚ`,
`x = [1, 2, 1]`, `m = 2`: `ρ_0 = 2`, `ref = [-4/5]`, `ρ = 18/25 ≠ 0`, implied lags `rc2ac = [2, 8/5]`,
`R = [[2, 8/5], [8/5, 2]]` with inverse `[[25/18, -10/9], [-10/9, 25/18]]`. -/
example : (burgRun ([1, 2, 1] : List ℚ) (2 - 1)).rho = 18/25 ∧
    (burgRun ([1, 2, 1] : List ℚ) 0).rho = 2 ∧
    rc2ac (minvar (twiddles (-1 : ℚ) 4) [1, 2, 1] 2 1 4).ref (burgRun ([1, 2, 1] : List ℚ) 0).rho
      = [2, 8/5] ∧
    (2 : ℚ) * (25/18) + (8/5) * (-10/9) = 1 ∧ (2 : ℚ) * (-10/9) + (8/5) * (25/18) = 0 := by
  decide +kernel

/-! ### 8. real and strictly positive, from positive definiteness of `R` -/
section RC2
variable {𝕜 : Type} [RCLike 𝕜]

/-- **the inverse of a positive definite `R` is positive definite**: over `ℝ`/`ℂ`, `r_0` real, if
`vᴴ R v` has positive real part for every `v ≠ 0` (`R` the `m × m` Hermitian Toeplitz matrix of `r`) and
`R·X = I` on the indices `< m`, then `eᴴ X e` is a positive real number for every `e ≠ 0`. -/
theorem toeplitz_inverse_pd (m : ℕ) (r : ℕ → 𝕜) (h0 : star (r 0) = r 0) (X : ℕ → ℕ → 𝕜)
    (hRX : ∀ i j, i < m → j < m →
      ∑ l ∈ range m, (if l ≤ i then r (i - l) else star (r (l - i))) * X l j
        = if i = j then 1 else 0)
    (hpd : ∀ v : ℕ → 𝕜, (∃ i, i < m ∧ v i ≠ 0) →
      0 < RCLike.re (∑ i ∈ range m, ∑ j ∈ range m,
        star (v i) * (if j ≤ i then r (i - j) else star (r (j - i))) * v j))
    (e : ℕ → 𝕜) (he : ∃ i, i < m ∧ e i ≠ 0) :
    ∃ q : ℝ, 0 < q ∧ ∑ i ∈ range m, ∑ j ∈ range m, star (e i) * X i j * e j = (q : 𝕜) :=
  quadForm_inverse_pos m r h0 X hRX hpd e he

/-- **real, strictly positive** (no Gohberg–Semencul hypothesis, positive definiteness of `R`, not of its
inverse): over `ℝ`/`ℂ`, under the hypotheses of `minvar_eq_quadratic_form` on `(a, P, r)`, if the `m × m`
Hermitian Toeplitz matrix of `r` is positive definite and `fs > 0`, every bin of the minimum-variance PSD
is a strictly positive real number. -/
theorem minvar_real_pos {ω : 𝕜} {nfft : ℕ} (hω : ω ^ nfft = 1) (hstar : star ω = ω⁻¹)
    (a : List 𝕜) {P : 𝕜} (hP : star P = P) (hP0 : P ≠ 0) (ha : 0 < a.length) (ha0 : nth a 0 = 1)
    (hno : 2 * a.length ≤ nfft + 1) (r : ℕ → 𝕜) (h0 : star (r 0) = r 0)
    (hN : ∀ i, i < a.length →
      ∑ j ∈ range a.length, (if j ≤ i then r (i - j) else star (r (j - i))) * nth a j
        = if i = 0 then P else 0)
    (hpd : ∀ v : ℕ → 𝕜, (∃ i, i < a.length ∧ v i ≠ 0) →
      0 < RCLike.re (∑ i ∈ range a.length, ∑ j ∈ range a.length,
        star (v i) * (if j ≤ i then r (i - j) else star (r (j - i))) * v j))
    (fs : ℝ) (hfs : 0 < fs) (k : ℕ) (hk : k < nfft) :
    ∃ v : ℝ, 0 < v ∧ nth (minvarPsd (twiddles ω nfft) a P (fs : 𝕜) nfft) k = (v : 𝕜) :=
  minvar_real_pos_of_pd hω hstar a hP hP0 ha hno (fun i j => gsG a.length (nth a) i j / P)
    (fun _ _ _ _ => rfl)
    (fun e he => quadForm_inverse_pos a.length r h0 _
      (gohberg_semencul a.length ha r (nth a) h0 hP hP0 ha0 hN).1 hpd e he)
    fs hfs k hk

/-- non-vacuity of `minvar_real_pos` (all hypotheses, including positive definiteness of `R`): `𝕜 = ℝ`,
`ω = -1`, `NFFT = 4`, `r = (1, 1/2)`, `a = [1, -1/2]`, `P = 3/4`,
`vᴴ R v = v_0² + v_0 v_1 + v_1² = (v_0 + v_1/2)² + (3/4) v_1²`. -/
example : ∃ v : ℝ, 0 < v ∧
    nth (minvarPsd (twiddles (-1 : ℝ) 4) [1, -1/2] (3/4) ((1 : ℝ) : ℝ) 4) 1 = (v : ℝ) := by
  refine minvar_real_pos (𝕜 := ℝ) (ω := -1) (by norm_num) (by simp)
    [1, -1/2] (P := 3/4) (by simp) (by norm_num) (by simp) rfl (by simp)
    (fun d => nth ([1, 1/2] : List ℝ) d) rfl ?_ ?_ 1 one_pos 1 (by norm_num)
  · intro i hi
    simp only [List.length_cons, List.length_nil] at hi
    interval_cases i <;> simp [nth, Finset.sum_range_succ] <;> norm_num
  · intro v hv
    have e : ∑ i ∈ range ([1, -1/2] : List ℝ).length, ∑ j ∈ range ([1, -1/2] : List ℝ).length,
        star (v i) * (if j ≤ i then nth ([1, 1/2] : List ℝ) (i - j)
          else star (nth ([1, 1/2] : List ℝ) (j - i))) * v j
        = (v 0 + v 1 / 2) ^ 2 + 3/4 * (v 1) ^ 2 := by
      simp [nth, Finset.sum_range_succ]
      ring
    rw [e]
    obtain ⟨i, hi, hne⟩ := hv
    simp only [List.length_cons, List.length_nil] at hi
    show 0 < (v 0 + v 1 / 2) ^ 2 + 3/4 * (v 1) ^ 2
    by_cases h1 : v 1 = 0
    · have h0 : v 0 ≠ 0 := by
        interval_cases i
        · exact hne
        · exact absurd h1 hne
      have : 0 < (v 0) ^ 2 := by positivity
      rw [h1]; norm_num; exact this
    · have : 0 < (v 1) ^ 2 := by positivity
      have := sq_nonneg (v 0 + v 1 / 2)
      positivity

/-- **the autocorrelation implied by the Burg model is positive definite**: over `ℝ`/`ℂ`, for `m ≥ 1`,
non-zero mean power `ρ_0 = (burgRun x 0).rho` and returned reflection coefficients of modulus `< 1`, the
`m × m` Hermitian Toeplitz matrix of `r_0 = ρ_0`, `r_j = rc2ac(ref, ρ_0)[j]` (`1 ≤ j < m`) is positive
definite, and the Burg error power is non-zero. -/
theorem minvar_implied_autocorrelation_pd (tw x : List 𝕜) (m : ℕ) (hm : 1 ≤ m) (fs : 𝕜) (nfft : ℕ)
    (hρ0 : (burgRun x 0).rho ≠ 0)
    (hk : ∀ i, i < m - 1 → ‖nth (minvar tw x m fs nfft).ref i‖ < 1)
    (r : ℕ → 𝕜) (hr0 : r 0 = (burgRun x 0).rho)
    (hr : ∀ j, 0 < j → j < m →
      r j = nth (rc2ac (minvar tw x m fs nfft).ref (burgRun x 0).rho) j) :
    (burgRun x (m - 1)).rho ≠ 0 ∧
    ∀ v : ℕ → 𝕜, (∃ i, i < m ∧ v i ≠ 0) →
      0 < RCLike.re (∑ i ∈ range m, ∑ j ∈ range m,
        star (v i) * (if j ≤ i then r (i - j) else star (r (j - i))) * v j) := by
  obtain ⟨p, rfl⟩ : ∃ p, m = p + 1 := ⟨m - 1, by omega⟩
  refine ⟨burg_rho_ne_zero_of_refl_lt_one x p hρ0 hk, ?_⟩
  intro v hv
  obtain ⟨i, hi, hvi⟩ := hv
  exact burg_implied_toepPD x p hρ0 hk r hr0 (fun j hj hjp => hr j hj (by omega)) v
    ⟨i, by omega, hvi⟩

/-- **C16 assembled** (no Gohberg–Semencul hypothesis, no positive-definiteness hypothesis): over `ℝ`/`ℂ`,
for `m ≥ 1`, `NFFT ≥ 2m`, `fs > 0`, data with non-zero mean power `ρ_0 = (burgRun x 0).rho = mean |x|²` and
Burg reflection coefficients of modulus `< 1`, let `R` be the `m × m` Hermitian Toeplitz matrix of the
autocorrelation implied by the order `m-1` Burg model (`r_0 = ρ_0`, `r_j = rc2ac(ref, ρ_0)[j]`, `1 ≤ j < m`).
Then for ANY right inverse `Rinv` of `R`, `minvar(X, m, fs, NFFT).psd[k] = fs / (e(f_k)ᴴ Rinv e(f_k))`
(`e(f_k)_i = ω^{-ik}`), and this is a strictly positive real number. -/
theorem minvar_psd_real_pos {ω : 𝕜} {nfft : ℕ} (hω : ω ^ nfft = 1) (hstar : star ω = ω⁻¹)
    (x : List 𝕜) (m : ℕ) (hm : 1 ≤ m) (hno : 2 * m ≤ nfft) (fs : ℝ) (hfs : 0 < fs)
    (hρ0 : (burgRun x 0).rho ≠ 0)
    (hkr : ∀ i, i < m - 1 → ‖nth (minvar (twiddles ω nfft) x m (fs : 𝕜) nfft).ref i‖ < 1)
    (r : ℕ → 𝕜) (hr0 : r 0 = (burgRun x 0).rho)
    (hr : ∀ j, 0 < j → j < m →
      r j = nth (rc2ac (minvar (twiddles ω nfft) x m (fs : 𝕜) nfft).ref (burgRun x 0).rho) j)
    (Rinv : ℕ → ℕ → 𝕜)
    (hRinv : ∀ i j, i < m → j < m →
      ∑ l ∈ range m, (if l ≤ i then r (i - l) else star (r (l - i))) * Rinv l j
        = if i = j then 1 else 0)
    (k : ℕ) (hk : k < nfft) :
    nth (minvar (twiddles ω nfft) x m (fs : 𝕜) nfft).psd k
      = (fs : 𝕜) / ∑ i ∈ range m, ∑ j ∈ range m, star (ω⁻¹ ^ (i * k)) * Rinv i j * ω⁻¹ ^ (j * k) ∧
    ∃ v : ℝ, 0 < v ∧ nth (minvar (twiddles ω nfft) x m (fs : 𝕜) nfft).psd k = (v : 𝕜) := by
  obtain ⟨hP0, hpd⟩ :=
    minvar_implied_autocorrelation_pd (twiddles ω nfft) x m hm (fs : 𝕜) nfft hρ0 hkr r hr0 hr
  have hform := minvar_psd_eq_quadratic_form two_ne_zero hω hstar x m hm hno hP0 (fs : 𝕜) r hr0 hr
    Rinv hRinv k hk
  refine ⟨hform, ?_⟩
  rw [hform]
  have h0 : star (r 0) = r 0 := by rw [hr0]; exact burgRun_rho_star x 0
  obtain ⟨q, hq, hQ⟩ := quadForm_inverse_pos m r h0 Rinv hRinv hpd (fun i => ω⁻¹ ^ (i * k))
    ⟨0, by omega, by rw [Nat.zero_mul, pow_zero]; exact one_ne_zero⟩
  rw [hQ]
  exact ⟨fs / q, div_pos hfs hq, (RCLike.ofReal_div fs q).symm⟩

/-- non-vacuity of `minvar_psd_real_pos` (Burg-level hypotheses): `𝕜 = ℝ`, `x = [1, 2, 1]`, `m = 2`,
`NFFT = 4 ≥ 2m`: mean power `ρ_0 = 2 ≠ 0`, the returned reflection coefficient is `-4/5`, of modulus `< 1`
(the implied lags `[2, 8/5]` and the inverse of `R` are exhibited over `ℚ` in section 7). -/
example : (burgRun ([1, 2, 1] : List ℝ) 0).rho ≠ 0 ∧
    ∀ i, i < 2 - 1 → ‖nth (minvar (twiddles (-1 : ℝ) 4) [1, 2, 1] 2 ((1 : ℝ) : ℝ) 4).ref i‖ < 1 := by
  constructor
  · have h : (burgRun ([1, 2, 1] : List ℝ) 0).rho = 2 := by
      simp [burgRun, burgInit, nth, abs2, Finset.sum_range_succ]
      norm_num
    rw [h]; norm_num
  · intro i hi
    have : i = 0 := by omega
    subst this
    have h : nth (burgRun ([1, 2, 1] : List ℝ) 1).ref 0 = -4 / 5 := by
      simp [burgRun, burgInit, burgK, burgStep, nth, abs2, Finset.sum_range_succ]
      norm_num
    show ‖nth (burgRun ([1, 2, 1] : List ℝ) (2 - 1)).ref 0‖ < 1
    rw [h, Real.norm_eq_abs, abs_lt]
    constructor <;> norm_num

/-- the same with Burg's own guarantee `|k_i| ≤ 1` (`C13.burg_ref_le_one`: order `m-1 ≤ N`, non-degenerate
stage denominators): it is enough that the Burg error power is non-zero. -/
theorem minvar_psd_real_pos_of_rho_ne_zero {ω : 𝕜} {nfft : ℕ} (hω : ω ^ nfft = 1)
    (hstar : star ω = ω⁻¹) (x : List 𝕜) (m : ℕ) (hm : 1 ≤ m) (hno : 2 * m ≤ nfft) (fs : ℝ)
    (hfs : 0 < fs) (hmN : m - 1 ≤ x.length)
    (hD : ∀ i, i < m - 1 → (burgK (burgRun x i) x.length i).2 ≠ 0)
    (hP0 : (burgRun x (m - 1)).rho ≠ 0)
    (r : ℕ → 𝕜) (hr0 : r 0 = (burgRun x 0).rho)
    (hr : ∀ j, 0 < j → j < m →
      r j = nth (rc2ac (minvar (twiddles ω nfft) x m (fs : 𝕜) nfft).ref (burgRun x 0).rho) j)
    (Rinv : ℕ → ℕ → 𝕜)
    (hRinv : ∀ i j, i < m → j < m →
      ∑ l ∈ range m, (if l ≤ i then r (i - l) else star (r (l - i))) * Rinv l j
        = if i = j then 1 else 0)
    (k : ℕ) (hk : k < nfft) :
    nth (minvar (twiddles ω nfft) x m (fs : 𝕜) nfft).psd k
      = (fs : 𝕜) / ∑ i ∈ range m, ∑ j ∈ range m, star (ω⁻¹ ^ (i * k)) * Rinv i j * ω⁻¹ ^ (j * k) ∧
    ∃ v : ℝ, 0 < v ∧ nth (minvar (twiddles ω nfft) x m (fs : 𝕜) nfft).psd k = (v : 𝕜) := by
  obtain ⟨hρ0, hne⟩ := burg_domain_of_rho_ne_zero x (m - 1) hP0
  refine minvar_psd_real_pos hω hstar x m hm hno fs hfs hρ0 ?_ r hr0 hr Rinv hRinv k hk
  intro i hi
  have hle := C13.burg_ref_le_one x (m - 1) hmN hD i hi
  show ‖nth (burgRun x (m - 1)).ref i‖ < 1
  rcases hle.lt_or_eq with h | h
  · exact h
  · exfalso
    have hlen : (burgRun x (m - 1)).ref.length = m - 1 := burgRun_ref_length x (m - 1)
    have hmem : nth (burgRun x (m - 1)).ref i ∈ (burgRun x (m - 1)).ref := by
      rw [nth_of_lt _ i (by omega)]
      exact List.getElem_mem _
    apply hne _ hmem
    rw [one_sub_mul_star_eq, h]
    norm_num

end RC2

/-! ### instantiation at the executed scalar type `CRat`

`Lemmas/CRatField.lean` makes the Gaussian rationals of the executable model a `Field` / `StarRing` whose
operations ARE the model's hand-written instances.  The theorems below are the generic theorems of this
file specialised to `K := CRat` (by plain application — no rewriting): their statements elaborate to the
model functions applied to the model's own instances (`CRat.instAdd`, `CRat.instMul`, `CRat.instDiv`, …,
`CRat.instConj`), i.e. to the code that the differential test executes; `conj` is the model's conjugation.
The `example … := rfl` lines check that the `Field`-path elaboration used by the generic theorems,
instantiated at `CRat`, is that very function. -/
section CRatInstantiation

/-- **`minvar_eq_quadratic_form` for the executed model**; `2 ≠ 0` holds in `CRat`, so the hypothesis
`h2` of the generic theorem disappears -/
theorem minvar_eq_quadratic_form_CRat {ω : CRat} {nfft : ℕ} (hω : ω ^ nfft = 1)
    (hstar : conj ω = ω⁻¹) (a : List CRat) {P : CRat} (hP : conj P = P) (hP0 : P ≠ 0)
    (ha : 0 < a.length) (ha0 : nth a 0 = 1) (hno : 2 * a.length ≤ nfft + 1) (r : ℕ → CRat)
    (h0 : conj (r 0) = r 0)
    (hN : ∀ i, i < a.length →
      ∑ j ∈ range a.length, (if j ≤ i then r (i - j) else conj (r (j - i))) * nth a j
        = if i = 0 then P else 0)
    (Rinv : ℕ → ℕ → CRat)
    (hRinv : ∀ i j, i < a.length → j < a.length →
      ∑ l ∈ range a.length, (if l ≤ i then r (i - l) else conj (r (l - i))) * Rinv l j
        = if i = j then 1 else 0)
    (fs : CRat) (k : ℕ) (hk : k < nfft) :
    nth (minvarPsd (twiddles ω nfft) a P fs nfft) k
      = fs / ∑ i ∈ range a.length, ∑ j ∈ range a.length,
          conj (ω⁻¹ ^ (i * k)) * Rinv i j * ω⁻¹ ^ (j * k) :=
  minvar_eq_quadratic_form two_ne_zero hω hstar a hP hP0 ha ha0 hno r h0 hN Rinv hRinv fs k hk

/-- **`minvar_returns_burg` for the executed model** -/
theorem minvar_returns_burg_CRat (tw x : List CRat) (m : ℕ) (hm : 1 ≤ m) (fs : CRat) (nfft : ℕ) :
    (minvar tw x m fs nfft).ar = 1 :: (burgRun x (m - 1)).a ∧
    (minvar tw x m fs nfft).ref = (burgRun x (m - 1)).ref ∧
    (minvar tw x m fs nfft).psd
      = minvarPsd tw (1 :: (burgRun x (m - 1)).a) (burgRun x (m - 1)).rho fs nfft ∧
    (minvar tw x m fs nfft).ar.length = m ∧
    (minvar tw x m fs nfft).ref.length = m - 1 ∧
    (minvar tw x m fs nfft).psd.length = nfft :=
  minvar_returns_burg tw x m hm fs nfft

example : (fun (K : Type) [Field K] [StarRing K] => (minvarPsd : List K → _)) CRat
    = @minvarPsd CRat CRat.instAdd CRat.instMul CRat.instDiv CRat.instOfNatOfNatNat CRat.instNatCast
        CRat.instConj CRat.instNeg := rfl
example : @minvarPsd CRat CRat.instAdd CRat.instMul CRat.instDiv CRat.instOfNatOfNatNat
    CRat.instNatCast CRat.instConj CRat.instNeg = minvarPsd := rfl
example : (fun (K : Type) [Field K] [StarRing K] => (minvar : List K → _)) CRat
    = @minvar CRat CRat.instAdd CRat.instSub CRat.instMul CRat.instDiv CRat.instNeg
        CRat.instOfNatOfNatNat CRat.instOfNatOfNatNat_1 CRat.instNatCast CRat.instConj := rfl

end CRatInstantiation

end SpecVerif.C16
