import SpecVerif.Proofs.Lemmas.Minvar
import SpecVerif.Proofs.Lemmas.Arma
import SpecVerif.Proofs.C08
import SpecVerif.Proofs.C13
import SpecVerif.Model.Minvar
import Mathlib.Algebra.Star.Rat
import Mathlib.Data.Complex.Basic
import Mathlib.Tactic.NormNum
import Mathlib.Tactic.IntervalCases
import Mathlib.Tactic.Positivity
/-
  C16 — minimum variance (`minvar`, model in `SpecVerif/Model/Minvar.lean`, ψ sequence and final
  inversion in `SpecVerif/Model/Arma.lean`).

  "For any data, dimension `m ≥ 2` and `NFFT ≥ 2m`, the estimate at `f_k = k/NFFT` is
  `sampling / (e(f_k)ᴴ R⁻¹ e(f_k))`, `R` the `m × m` Hermitian Toeplitz autocorrelation matrix implied by
  the order `m-1` Burg model; it is real and strictly positive, and `minvar` returns the Burg AR vector
  (with leading 1) and reflection coefficients it used."

  Conventions.  `a = [1, a_1, …, a_{m-1}]` the Burg polynomial, `P` the Burg error power, `ω` an
  `NFFT`-th root of unity with `star ω = ω⁻¹` (numpy's `e^{-2πi/NFFT}`), `e(f_k)_i = e^{2πi f_k i} = ω^{-ik}`.
  `gsG m a i j = Σ_{t ≤ min i j} (a_{i-t}·conj a_{j-t} − b_{i-t}·conj b_{j-t})`, `b = [0, conj a_{m-1}, …,
  conj a_1]`, is entry `(i,j)` of `L₁L₁ᴴ − L₂L₂ᴴ` (`gs_matrix_is_product_difference`), `R_{ij} = r(i-j)`.
  The Gohberg–Semencul identity `R⁻¹ = (L₁L₁ᴴ − L₂L₂ᴴ)/P` itself is NOT proved here: it enters as the
  explicit hypothesis `hGS` (it is checked in exact arithmetic by the test harness, and on a concrete
  `3 × 3` instance in an `example` below); everything around it is proved.

  Property theorems only (helpers: `Proofs/Lemmas/Minvar.lean`, namespace `SpecVerif.MinvarL`).
-/
namespace SpecVerif.C16
open Finset SpecVerif SpecVerif.ArmaL SpecVerif.MinvarL SpecVerif.BurgL

variable {K : Type} [Field K] [StarRing K]

/-! ### 1. `minvar` returns the Burg model it used -/

/-- **returned values**: for `m ≥ 1`, `minvar(X, m, fs, NFFT)` returns the order `m-1` Burg AR vector with
its leading 1 (`m` entries), the `m-1` Burg reflection coefficients, and the `NFFT` values
`minvarPsd(a, ρ_Burg, fs, NFFT)`. -/
theorem minvar_returns_burg (tw x : List K) (m : ℕ) (hm : 1 ≤ m) (fs : K) (nfft : ℕ) :
    (minvar tw x m fs nfft).ar = 1 :: (burgRun x (m - 1)).a ∧
    (minvar tw x m fs nfft).ref = (burgRun x (m - 1)).ref ∧
    (minvar tw x m fs nfft).psd
      = minvarPsd tw (1 :: (burgRun x (m - 1)).a) (burgRun x (m - 1)).rho fs nfft ∧
    (minvar tw x m fs nfft).ar.length = m ∧
    (minvar tw x m fs nfft).ref.length = m - 1 ∧
    (minvar tw x m fs nfft).psd.length = nfft := by
  refine ⟨rfl, rfl, rfl, one_cons_length_burg x m hm, burgRun_ref_length x (m - 1), ?_⟩
  show (minvarPsd tw _ _ fs nfft).length = nfft
  unfold minvarPsd
  rw [vec_length]

/-- the returned AR vector is the step-up (`rc2poly`) polynomial of the returned reflection
coefficients, with the leading 1 put in front (C13 for the Burg part) -/
theorem minvar_ar_eq_stepup (tw x : List K) (m : ℕ) (fs : K) (nfft : ℕ) (r0 : K) :
    (minvar tw x m fs nfft).ar = 1 :: (rc2poly (minvar tw x m fs nfft).ref r0).1 := by
  show 1 :: (burgRun x (m - 1)).a = 1 :: (rc2poly (burgRun x (m - 1)).ref r0).1
  rw [← C13.burg_ar_eq_stepup x (m - 1) r0]

/-! ### 2. the diagonal sums of the Gohberg–Semencul matrix are Musicus' ψ sequence -/

/-- `gsG` is `L₁L₁ᴴ − L₂L₂ᴴ`: the difference of the two matrix products, `L₁`, `L₂` the lower-triangular
Toeplitz matrices with first columns `a` and `b = [0, conj a_{m-1}, …, conj a_1]`. -/
theorem gs_matrix_is_product_difference (m : ℕ) (a : ℕ → K) (i j : ℕ) (hi : i < m) (hj : j < m) :
    gsG m a i j
      = ∑ t ∈ range m, lowerToeplitz a i t * star (lowerToeplitz a j t)
        - ∑ t ∈ range m, lowerToeplitz (gsB m a) i t * star (lowerToeplitz (gsB m a) j t) :=
  gsG_eq_products m a i j hi hj

/-- `L₁L₁ᴴ − L₂L₂ᴴ` is Hermitian -/
theorem gs_matrix_hermitian (m : ℕ) (a : ℕ → K) (i j : ℕ) : gsG m a j i = star (gsG m a i j) :=
  gsG_hermitian m a i j

/-- **finite re-indexing (the heart)**: for any `a : ℕ → K` and `k < m`, the `k`-th lower diagonal of
`G = L₁L₁ᴴ − L₂L₂ᴴ` sums to `Σ_{i<m-k} (m-k-2i)·conj(a_i)·a_{i+k}` (the integer weight written with
natural-number casts as in the model: `psiWeight n i = n-2i` if `2i ≤ n`, else `-(2i-n)`). -/
theorem gs_diag_sum (m : ℕ) (a : ℕ → K) (k : ℕ) (hk : k < m) :
    ∑ j ∈ range (m - k), gsG m a (j + k) j
      = ∑ i ∈ range (m - k),
          (if 2 * i ≤ m - k then (((m - k - 2 * i : ℕ) : K)) else -(((2 * i - (m - k) : ℕ) : K)))
            * star (a i) * a (i + k) :=
  diagSum_gsG m a k hk

/-- **ψ = diagonal sums of GS**: for the coefficient list `a` (`m = len a`), `P ≠ 0` and `k < m`, the `k`-th
diagonal sum of `L₁L₁ᴴ − L₂L₂ᴴ` is `P·ψ_k`, `ψ_k = minvarLag a P k` the model's entry `ψ[k]`
(`C08.minvarPsi_entry`). -/
theorem psi_eq_diag_sums_of_GS (a : List K) {P : K} (hP : P ≠ 0) (k : ℕ) (hk : k < a.length)
    {nfft : ℕ} (hkn : k < nfft) :
    ∑ j ∈ range (a.length - k), gsG a.length (nth a) (j + k) j
      = nth (minvarPsi a P nfft) k * P := by
  rw [(C08.minvarPsi_entry a P hk hkn).2]
  exact diagSum_gsG_eq_lag a hP k hk

/-- sanity check of the hypothesis `hGS` used below (index conventions of `gsG`): `K = ℚ`, `m = 3`,
autocorrelation `r = (1, 1/2, 0)`, `R_{ij} = r(|i-j|)`; the order-2 model is `a = [1, -2/3, 1/3]`, `P = 2/3`,
and `R · (L₁L₁ᴴ − L₂L₂ᴴ)/P = I`. -/
example : ∀ i j, i < 3 → j < 3 →
    ∑ l ∈ range 3, (if i = l then (1 : ℚ) else if i + 1 = l ∨ l + 1 = i then 1 / 2 else 0)
        * (gsG 3 (nth ([1, -2/3, 1/3] : List ℚ)) l j / (2/3))
      = if i = j then 1 else 0 := by
  intro i j hi hj
  interval_cases i <;> interval_cases j <;>
    simp [gsG, gsB, nth, Finset.sum_range_succ] <;> norm_num

/-! ### 3. a Hermitian quadratic form on the unit circle, by diagonals -/

/-- **`e(z)ᴴ M e(z)` by diagonals**: for a Hermitian `M` (`M_{ji} = conj M_{ij}`) and `z ≠ 0` with
`conj z = z⁻¹`, `e_i = z^i`:
`Σ_{i<m} Σ_{j<m} conj(z^i)·M_{ij}·z^j = d_0 + Σ_{K=1}^{m-1} (d_K·z^{-K} + conj(d_K)·z^K)`,
`d_K = Σ_{j<m-K} M_{j+K,j}` the `K`-th lower diagonal sum. -/
theorem quadratic_form_by_diagonals (m : ℕ) (M : ℕ → ℕ → K)
    (hM : ∀ i j, i < m → j < m → M j i = star (M i j)) (z : K) (hz : z ≠ 0) (hstar : star z = z⁻¹) :
    ∑ i ∈ range m, ∑ j ∈ range m, star (z ^ i) * M i j * z ^ j
      = ∑ j ∈ range m, M j j
        + ∑ k ∈ Ico 1 m, ((∑ j ∈ range (m - k), M (j + k) j) * z⁻¹ ^ k
            + star (∑ j ∈ range (m - k), M (j + k) j) * z ^ k) := by
  have h := quadForm_pow_by_diag m M hM z hz hstar
  unfold quadForm diagSum at h
  simpa only [Nat.sub_zero, Nat.add_zero] using h

/-! ### 4. the PSD is `sampling / (eᴴ R⁻¹ e)` -/

/-- **minimum variance = quadratic form**, conditional on Gohberg–Semencul.  Let `a` have `m ≥ 1` entries,
`P ≠ 0` self-adjoint, `2m ≤ NFFT+1` (no overlap; implied by `NFFT ≥ 2m`), `ω^NFFT = 1`, `conj ω = ω⁻¹`,
`2 ≠ 0`.  If `Rinv_{ij} = (L₁L₁ᴴ − L₂L₂ᴴ)_{ij}/P` for `i, j < m` (`hGS`), then bin `k` of `minvarPsd` is
`fs / Σ_i Σ_j conj(e_i)·Rinv_{ij}·e_j` with `e_i = ω^{-ik}` (i.e. `e^{2πi·(k/NFFT)·i}` for numpy's `ω`). -/
theorem minvar_eq_quadratic_form_of_GS {ω : K} {nfft : ℕ} (h2 : (2 : K) ≠ 0) (hω : ω ^ nfft = 1)
    (hstar : star ω = ω⁻¹) (a : List K) {P : K} (hP : star P = P) (hP0 : P ≠ 0) (ha : 0 < a.length)
    (hno : 2 * a.length ≤ nfft + 1) (Rinv : ℕ → ℕ → K)
    (hGS : ∀ i j, i < a.length → j < a.length → Rinv i j = gsG a.length (nth a) i j / P)
    (fs : K) (k : ℕ) (hk : k < nfft) :
    nth (minvarPsd (twiddles ω nfft) a P fs nfft) k
      = fs / ∑ i ∈ range a.length, ∑ j ∈ range a.length,
          star (ω⁻¹ ^ (i * k)) * Rinv i j * ω⁻¹ ^ (j * k) := by
  rw [C08.minvarPsd_entry h2 hω hstar a hP ha hno fs k hk,
    dft_minvarPsi_eq_quadForm hω hstar a hP hP0 ha hno k, ← quadForm_div,
    ← quadForm_congr a.length hGS]
  unfold quadForm
  simp only [← pow_mul, mul_comm k]

/-- non-vacuity of `minvar_eq_quadratic_form_of_GS`: `K = ℚ`, `ω = -1`, `NFFT = 4`, `m = 2`, `r = (1, 1/2)`,
`a = [1, -1/2]`, `P = 3/4`, `Rinv = R⁻¹ = [[4/3, -2/3], [-2/3, 4/3]]`; at `k = 1`, `e = (1, -1)`,
`eᴴ R⁻¹ e = 4` and the PSD value is `fs/4`. -/
example : nth (minvarPsd (twiddles (-1 : ℚ) 4) [1, -1/2] (3/4) 1 4) 1 = 1/4 := by
  rw [minvar_eq_quadratic_form_of_GS (ω := -1) (by norm_num) (by norm_num) (by simp)
    [1, -1/2] (P := 3/4) (by simp) (by norm_num) (by simp) (by simp)
    (fun i j => if i = j then 4/3 else -2/3) ?_ 1 1 (by norm_num)]
  · simp [Finset.sum_range_succ]; norm_num
  · intro i j hi hj
    simp only [List.length_cons, List.length_nil] at hi hj
    interval_cases i <;> interval_cases j <;>
      simp [gsG, gsB, nth, Finset.sum_range_succ] <;> norm_num

/-- the same for the value `minvar` returns: for `m ≥ 1`, `NFFT ≥ 2m`, non-zero Burg error power, and
`Rinv = (L₁L₁ᴴ − L₂L₂ᴴ)/ρ` built from the returned AR vector (`hGS`),
`minvar(X, m, fs, NFFT).psd[k] = fs / (e(f_k)ᴴ Rinv e(f_k))`. -/
theorem minvar_psd_eq_quadratic_form_of_GS {ω : K} {nfft : ℕ} (h2 : (2 : K) ≠ 0) (hω : ω ^ nfft = 1)
    (hstar : star ω = ω⁻¹) (x : List K) (m : ℕ) (hm : 1 ≤ m) (hno : 2 * m ≤ nfft)
    (hP0 : (burgRun x (m - 1)).rho ≠ 0) (fs : K) (Rinv : ℕ → ℕ → K)
    (hGS : ∀ i j, i < m → j < m →
      Rinv i j = gsG m (nth (minvar (twiddles ω nfft) x m fs nfft).ar) i j / (burgRun x (m - 1)).rho)
    (k : ℕ) (hk : k < nfft) :
    nth (minvar (twiddles ω nfft) x m fs nfft).psd k
      = fs / ∑ i ∈ range m, ∑ j ∈ range m, star (ω⁻¹ ^ (i * k)) * Rinv i j * ω⁻¹ ^ (j * k) := by
  have hlen := one_cons_length_burg x m hm
  show nth (minvarPsd (twiddles ω nfft) (1 :: (burgRun x (m - 1)).a) (burgRun x (m - 1)).rho fs nfft) k
    = _
  have h := minvar_eq_quadratic_form_of_GS h2 hω hstar (1 :: (burgRun x (m - 1)).a)
    (burgRun_rho_star x (m - 1)) hP0 (by rw [hlen]; exact hm) (by rw [hlen]; omega) Rinv
    (by rw [hlen]; exact hGS) fs k hk
  rw [hlen] at h
  exact h

/-- non-vacuity of the Burg-level hypotheses (`m = 2`, `NFFT = 4 ≥ 2m`, non-zero error power): `K = ℚ`,
`x = [1, 2, 1]`: `a = [1, -4/5]`, `ρ = 2·(1 - 16/25) = 18/25`. -/
example : (minvar (twiddles (-1 : ℚ) 4) [1, 2, 1] 2 1 4).ar = [1, -4/5] ∧
    (burgRun ([1, 2, 1] : List ℚ) (2 - 1)).rho = 18/25 := by
  decide +kernel

/-! ### 5. real and strictly positive -/
section RC
variable {𝕜 : Type} [RCLike 𝕜]

/-- **real, strictly positive**, conditional on Gohberg–Semencul: over `ℝ`/`ℂ`, if `Rinv` (`hGS`) is
positive definite — `eᴴ Rinv e` is a positive real for every `e ≠ 0` — and `fs > 0`, then every bin of the
minimum-variance PSD is a strictly positive real number. -/
theorem minvar_real_pos_of_pd {ω : 𝕜} {nfft : ℕ} (hω : ω ^ nfft = 1) (hstar : star ω = ω⁻¹)
    (a : List 𝕜) {P : 𝕜} (hP : star P = P) (hP0 : P ≠ 0) (ha : 0 < a.length)
    (hno : 2 * a.length ≤ nfft + 1) (Rinv : ℕ → ℕ → 𝕜)
    (hGS : ∀ i j, i < a.length → j < a.length → Rinv i j = gsG a.length (nth a) i j / P)
    (hpd : ∀ e : ℕ → 𝕜, (∃ i, i < a.length ∧ e i ≠ 0) →
      ∃ q : ℝ, 0 < q ∧
        ∑ i ∈ range a.length, ∑ j ∈ range a.length, star (e i) * Rinv i j * e j = (q : 𝕜))
    (fs : ℝ) (hfs : 0 < fs) (k : ℕ) (hk : k < nfft) :
    ∃ v : ℝ, 0 < v ∧ nth (minvarPsd (twiddles ω nfft) a P (fs : 𝕜) nfft) k = (v : 𝕜) := by
  have h2 : (2 : 𝕜) ≠ 0 := two_ne_zero
  rw [minvar_eq_quadratic_form_of_GS h2 hω hstar a hP hP0 ha hno Rinv hGS (fs : 𝕜) k hk]
  obtain ⟨q, hq, hQ⟩ := hpd (fun i => ω⁻¹ ^ (i * k)) ⟨0, ha, by
    rw [Nat.zero_mul, pow_zero]; exact one_ne_zero⟩
  rw [hQ]
  exact ⟨fs / q, div_pos hfs hq, (RCLike.ofReal_div fs q).symm⟩

/-- in the `re`/`im` form: the bin has zero imaginary part and strictly positive real part -/
theorem minvar_re_pos_im_zero_of_pd {ω : 𝕜} {nfft : ℕ} (hω : ω ^ nfft = 1) (hstar : star ω = ω⁻¹)
    (a : List 𝕜) {P : 𝕜} (hP : star P = P) (hP0 : P ≠ 0) (ha : 0 < a.length)
    (hno : 2 * a.length ≤ nfft + 1) (Rinv : ℕ → ℕ → 𝕜)
    (hGS : ∀ i j, i < a.length → j < a.length → Rinv i j = gsG a.length (nth a) i j / P)
    (hpd : ∀ e : ℕ → 𝕜, (∃ i, i < a.length ∧ e i ≠ 0) →
      ∃ q : ℝ, 0 < q ∧
        ∑ i ∈ range a.length, ∑ j ∈ range a.length, star (e i) * Rinv i j * e j = (q : 𝕜))
    (fs : ℝ) (hfs : 0 < fs) (k : ℕ) (hk : k < nfft) :
    0 < RCLike.re (nth (minvarPsd (twiddles ω nfft) a P (fs : 𝕜) nfft) k) ∧
    RCLike.im (nth (minvarPsd (twiddles ω nfft) a P (fs : 𝕜) nfft) k) = 0 := by
  obtain ⟨v, hv, h⟩ := minvar_real_pos_of_pd hω hstar a hP hP0 ha hno Rinv hGS hpd fs hfs k hk
  rw [h, RCLike.ofReal_re, RCLike.ofReal_im]
  exact ⟨hv, rfl⟩

/-- **C16 assembled** for the value `minvar` returns, over `ℝ`/`ℂ`: for `m ≥ 1`, `NFFT ≥ 2m`, `fs > 0`,
non-zero Burg error power `ρ`, if `Rinv = (L₁L₁ᴴ − L₂L₂ᴴ)/ρ` for the returned AR vector (`hGS`) is positive
definite, then `minvar(X, m, fs, NFFT).psd[k] = fs / (e(f_k)ᴴ Rinv e(f_k))` (`e(f_k)_i = ω^{-ik}`) and this
is a strictly positive real number. -/
theorem minvar_psd_real_pos_of_pd {ω : 𝕜} {nfft : ℕ} (hω : ω ^ nfft = 1) (hstar : star ω = ω⁻¹)
    (x : List 𝕜) (m : ℕ) (hm : 1 ≤ m) (hno : 2 * m ≤ nfft) (hP0 : (burgRun x (m - 1)).rho ≠ 0)
    (fs : ℝ) (hfs : 0 < fs) (Rinv : ℕ → ℕ → 𝕜)
    (hGS : ∀ i j, i < m → j < m → Rinv i j
      = gsG m (nth (minvar (twiddles ω nfft) x m (fs : 𝕜) nfft).ar) i j / (burgRun x (m - 1)).rho)
    (hpd : ∀ e : ℕ → 𝕜, (∃ i, i < m ∧ e i ≠ 0) →
      ∃ q : ℝ, 0 < q ∧ ∑ i ∈ range m, ∑ j ∈ range m, star (e i) * Rinv i j * e j = (q : 𝕜))
    (k : ℕ) (hk : k < nfft) :
    nth (minvar (twiddles ω nfft) x m (fs : 𝕜) nfft).psd k
      = (fs : 𝕜) / ∑ i ∈ range m, ∑ j ∈ range m, star (ω⁻¹ ^ (i * k)) * Rinv i j * ω⁻¹ ^ (j * k) ∧
    ∃ v : ℝ, 0 < v ∧ nth (minvar (twiddles ω nfft) x m (fs : 𝕜) nfft).psd k = (v : 𝕜) := by
  refine ⟨minvar_psd_eq_quadratic_form_of_GS two_ne_zero hω hstar x m hm hno hP0 (fs : 𝕜) Rinv hGS
    k hk, ?_⟩
  have hlen := one_cons_length_burg x m hm
  show ∃ v : ℝ, 0 < v ∧ nth (minvarPsd (twiddles ω nfft) (1 :: (burgRun x (m - 1)).a)
    (burgRun x (m - 1)).rho (fs : 𝕜) nfft) k = (v : 𝕜)
  exact minvar_real_pos_of_pd hω hstar (1 :: (burgRun x (m - 1)).a) (burgRun_rho_star x (m - 1)) hP0
    (by rw [hlen]; exact hm) (by rw [hlen]; omega) Rinv (by rw [hlen]; exact hGS)
    (by rw [hlen]; exact hpd) fs hfs k hk

/-- non-vacuity of `minvar_real_pos_of_pd` (all hypotheses, including positive definiteness, hold):
`𝕜 = ℝ`, `ω = -1`, `NFFT = 4`, `a = [1, -1/2]`, `P = 3/4`, `Rinv = [[4/3, -2/3], [-2/3, 4/3]]`,
`eᴴ Rinv e = (4/3)·((e_0 - e_1/2)² + (3/4)·e_1²)`. -/
example : ∃ v : ℝ, 0 < v ∧
    nth (minvarPsd (twiddles (-1 : ℝ) 4) [1, -1/2] (3/4) ((1 : ℝ) : ℝ) 4) 1 = (v : ℝ) := by
  refine minvar_real_pos_of_pd (𝕜 := ℝ) (ω := -1) (by norm_num) (by simp)
    [1, -1/2] (P := 3/4) (by simp) (by norm_num) (by simp) (by simp)
    (fun i j => if i = j then 4/3 else -2/3) ?_ ?_ 1 one_pos 1 (by norm_num)
  · intro i j hi hj
    simp only [List.length_cons, List.length_nil] at hi hj
    interval_cases i <;> interval_cases j <;>
      simp [gsG, gsB, nth, Finset.sum_range_succ] <;> norm_num
  · intro e he
    refine ⟨4/3 * ((e 0 - e 1 / 2) ^ 2 + 3/4 * (e 1) ^ 2), ?_, ?_⟩
    · obtain ⟨i, hi, hne⟩ := he
      simp only [List.length_cons, List.length_nil] at hi
      by_cases h1 : e 1 = 0
      · have h0 : e 0 ≠ 0 := by
          interval_cases i
          · exact hne
          · exact absurd h1 hne
        have : 0 < (e 0) ^ 2 := by positivity
        rw [h1]; norm_num; exact this
      · have : 0 < (e 1) ^ 2 := by positivity
        have := sq_nonneg (e 0 - e 1 / 2)
        positivity
    · simp [Finset.sum_range_succ]
      ring

end RC

/-! ### 6. the bound on `NFFT` is needed -/

/-- **overlap counterexample**: `K = ℚ` (trivial involution), `a = [1, 3, 2]` (`m = 3`), `P = 1`,
`NFFT = 3 < 2m-1`: the two halves of ψ overlap, `ψ = [8, 6, 2]`, and `ψ[NFFT-1] = 2 ≠ 6 = conj ψ[1]` — the
conclusion of `C08.minvarPsi_hermitian` fails without `2m ≤ NFFT+1`. -/
example : nth (minvarPsi ([1, 3, 2] : List ℚ) 1 3) (3 - 1)
    ≠ star (nth (minvarPsi ([1, 3, 2] : List ℚ) 1 3) 1) := by
  decide +kernel

/-- the same one step below the bound, over `ℂ`: `a = [1, 0, i]` (`m = 3`), `NFFT = 4 = 2m-2`: index `2` is
claimed by both halves, `ψ[NFFT-2] = ψ[2] = i ≠ -i = conj ψ[2]`. -/
example : nth (minvarPsi ([1, 0, Complex.I] : List ℂ) 1 4) (4 - 2)
    ≠ star (nth (minvarPsi ([1, 0, Complex.I] : List ℂ) 1 4) 2) := by
  have h : nth (minvarPsi ([1, 0, Complex.I] : List ℂ) 1 4) 2 = Complex.I := by
    rw [nth_minvarPsi_low _ _ (by simp) (by norm_num)]
    simp [minvarLag, nth]
  show nth (minvarPsi ([1, 0, Complex.I] : List ℂ) 1 4) 2 ≠ _
  rw [h]
  intro hI
  have := congrArg Complex.im hI
  simp at this
  norm_num at this

end SpecVerif.C16
