import SpecVerif.Proofs.Lemmas.DFT
import SpecVerif.Proofs.Lemmas.Arma
import SpecVerif.Model.Arma
import SpecVerif.Model.Sides
import Mathlib.Algebra.BigOperators.Field
/-
  C08 — `scale_by_freq` multiplies once by `2π/df`; the sampling frequency divides the AR/MA/ARMA model
  spectra and leaves the Fourier / multitaper / subspace values alone; `arma2psd` is
  `(rho/T)·|B(f)|²/|A(f)|²` on the grid `k/NFFT`.

  Property theorems only (helpers: `Proofs/Lemmas/Arma.lean`, namespace `SpecVerif.ArmaL`).
  `K` is any field with an involution (`ℂ` in particular), `ω` an `NFFT`-th root of unity (numpy's
  `e^{-2πi/NFFT}`), `polyAt ω c k = 1 + Σ_{j<len c} c_j ω^{(j+1)k}` the polynomial `1 + Σ c_j z^{j+1}`
  at `z = ω^k`.  Every estimator class's `__call__` is
  `classPsd raw isReal nfft scaleByFreq twoPi sampling`, `raw` the two-sided estimate; the AR/MA/ARMA
  classes have `raw = arma2psd tw A B rho sampling nfft`, the other classes a `raw` in which `sampling`
  does not occur.
-/
namespace SpecVerif.C08
open Finset SpecVerif SpecVerif.ArmaL

variable {K : Type} [Field K]

section ArmaGrid
variable [StarRing K]

/-! ### 1. `arma2psd` is `(rho/T)·|B|²/|A|²` on the grid -/

/-- `arma2psd` returns `NFFT` values -/
theorem arma2psd_length (tw : List K) (A B : Option (List K)) (rho T : K) (nfft : ℕ) :
    (arma2psd tw A B rho T nfft).length = nfft :=
  ArmaL.arma2psd_length tw A B rho T nfft

/-- **ARMA clause**: for `NFFT > max(len A, len B)` bin `k` of `arma2psd(A, B, rho, T, NFFT)` is
`(rho/T)·|B(ω^k)|²/|A(ω^k)|²` with `A(z) = 1 + Σ a_j z^{j+1}`, `B(z) = 1 + Σ b_j z^{j+1}`. -/
theorem arma2psd_eq {ω : K} {nfft : ℕ} (hω : ω ^ nfft = 1) (A B : List K)
    (hA : A.length < nfft) (hB : B.length < nfft) (rho T : K) (k : ℕ) (hk : k < nfft) :
    nth (arma2psd (twiddles ω nfft) (some A) (some B) rho T nfft) k
      = rho / T * (polyAt ω B k * star (polyAt ω B k)) / (polyAt ω A k * star (polyAt ω A k)) := by
  unfold arma2psd
  simp only [nth_vec, hk, if_true, abs2_eq]
  rw [dftBin_polySeq hω A hA, dftBin_polySeq hω B hB]

/-- the same with the sums written out (what `polyAt` abbreviates) -/
theorem arma2psd_eq_sum {ω : K} {nfft : ℕ} (hω : ω ^ nfft = 1) (A B : List K)
    (hA : A.length < nfft) (hB : B.length < nfft) (rho T : K) (k : ℕ) (hk : k < nfft) :
    nth (arma2psd (twiddles ω nfft) (some A) (some B) rho T nfft) k
      = rho / T
        * ((1 + ∑ j ∈ range B.length, nth B j * ω ^ ((j + 1) * k))
            * star (1 + ∑ j ∈ range B.length, nth B j * ω ^ ((j + 1) * k)))
        / ((1 + ∑ j ∈ range A.length, nth A j * ω ^ ((j + 1) * k))
            * star (1 + ∑ j ∈ range A.length, nth A j * ω ^ ((j + 1) * k))) :=
  arma2psd_eq hω A B hA hB rho T k hk

/-- **pure AR** (`B = None`): `(rho/T)/|A(ω^k)|²` -/
theorem arma2psd_eq_ar {ω : K} {nfft : ℕ} (hω : ω ^ nfft = 1) (A : List K)
    (hA : A.length < nfft) (rho T : K) (k : ℕ) (hk : k < nfft) :
    nth (arma2psd (twiddles ω nfft) (some A) none rho T nfft) k
      = rho / T * 1 / (polyAt ω A k * star (polyAt ω A k)) := by
  unfold arma2psd
  simp only [nth_vec, hk, if_true, abs2_eq]
  rw [dftBin_polySeq hω A hA]

/-- **pure MA** (`A = None`): `(rho/T)·|B(ω^k)|²` -/
theorem arma2psd_eq_ma {ω : K} {nfft : ℕ} (hω : ω ^ nfft = 1) (B : List K)
    (hB : B.length < nfft) (rho T : K) (k : ℕ) (hk : k < nfft) :
    nth (arma2psd (twiddles ω nfft) none (some B) rho T nfft) k
      = rho / T * (polyAt ω B k * star (polyAt ω B k)) / 1 := by
  unfold arma2psd
  simp only [nth_vec, hk, if_true, abs2_eq]
  rw [dftBin_polySeq hω B hB]

/-- non-vacuity: `K = ℚ` (trivial involution), `ω = -1`, `NFFT = 2`, `A = [3]`, `B = [2]`, `rho = 5`,
`T = 2`, bin `1`: `A(-1) = -2`, `B(-1) = -1`, value `(5/2)·1/4`. -/
example : nth (arma2psd (twiddles (-1 : ℚ) 2) (some [3]) (some [2]) 5 2 2) 1 = 5 / 8 := by
  rw [arma2psd_eq (ω := -1) (by norm_num) [3] [2] (by simp) (by simp) 5 2 1 (by norm_num)]
  simp [polyAt, nth]
  norm_num

/-- `len A < NFFT` cannot be dropped: `polySeq` keeps only the first `NFFT` entries of `[1, a_1, …]`
(in the Python code `A[NFFT]` is an `IndexError`).  `NFFT = 2`, `ω = -1`, `A = [1, 1]`, bin `0`: the model
sees `[1, 1]`, `|1+1|² = 4`, whereas `|A(1)|² = |1+1+1|² = 9`. -/
example : nth (arma2psd (twiddles (-1 : ℚ) 2) (some [1, 1]) none 1 1 2) 0
    ≠ 1 / 1 * 1 / (polyAt (-1 : ℚ) [1, 1] 0 * star (polyAt (-1 : ℚ) [1, 1] 0)) := by
  simp [arma2psd, polySeq, dftBin, twiddles, vec, nth, abs2, powN, conj, polyAt,
    Finset.sum_range_succ]
  norm_num

/-! ### 2. linearity in `rho`, division by the sampling factor `T` -/

/-- `arma2psd` is linear in the noise variance `rho` -/
theorem arma2psd_linear_rho (tw : List K) (A B : Option (List K)) (c rho T : K) (nfft : ℕ) :
    arma2psd tw A B (c * rho) T nfft = (arma2psd tw A B rho T nfft).map (fun v => c * v) := by
  unfold arma2psd
  rw [map_vec]
  apply vec_ext
  intro k _
  ring

/-- multiplying the sampling argument `T` by `c ≠ 0` divides every value of `arma2psd` by `c` -/
theorem arma2psd_sampling (tw : List K) (A B : Option (List K)) (rho T c : K) (hc : c ≠ 0)
    (hT : T ≠ 0) (nfft : ℕ) :
    arma2psd tw A B rho (c * T) nfft = (arma2psd tw A B rho T nfft).map (fun v => v / c) := by
  unfold arma2psd
  rw [map_vec]
  apply vec_ext
  intro k _
  field_simp

/-- entry form of `arma2psd_sampling` -/
theorem arma2psd_sampling_entry (tw : List K) (A B : Option (List K)) (rho T c : K) (hc : c ≠ 0)
    (hT : T ≠ 0) (nfft k : ℕ) :
    nth (arma2psd tw A B rho (c * T) nfft) k = nth (arma2psd tw A B rho T nfft) k / c := by
  rw [arma2psd_sampling tw A B rho T c hc hT, nth_map_div]

end ArmaGrid

/-! ### 3. `scale_by_freq` multiplies exactly once by `2π/df` -/

/-- **scale clause**: for every class, `scale_by_freq=True` is the `scale_by_freq=False` estimate with
every value multiplied (once) by `2π/df`, `df = sampling/NFFT`. -/
theorem scale_once (raw : List K) (isReal : Bool) (nfft : ℕ) (twoPi fs : K) :
    classPsd raw isReal nfft true twoPi fs
      = (classPsd raw isReal nfft false twoPi fs).map (fun v => v * (twoPi / (fs / (nfft : K)))) := by
  rw [classPsd_true, classPsd_false]

/-- entry form: every returned value is scaled by `2π/df` -/
theorem scale_once_entry (raw : List K) (isReal : Bool) (nfft : ℕ) (twoPi fs : K) (k : ℕ) :
    nth (classPsd raw isReal nfft true twoPi fs) k
      = nth (classPsd raw isReal nfft false twoPi fs) k * (twoPi / (fs / (nfft : K))) := by
  rw [scale_once, nth_map_mul_right]

/-- with scaling off neither `2π` nor the sampling frequency enters -/
theorem noscale_indep (raw : List K) (isReal : Bool) (nfft : ℕ) (twoPi twoPi' fs fs' : K) :
    classPsd raw isReal nfft false twoPi fs = classPsd raw isReal nfft false twoPi' fs' := by
  rw [classPsd_false, classPsd_false]

/-- number of returned values: one-sided (`NFFT/2+1` or `(NFFT+1)/2`) for real data, else all of `raw` -/
theorem classPsd_length (raw : List K) (isReal : Bool) (nfft : ℕ) (s : Bool) (twoPi fs : K) :
    (classPsd raw isReal nfft s twoPi fs).length
      = if isReal then (if nfft % 2 = 0 then nfft / 2 + 1 else (nfft + 1) / 2) else raw.length := by
  cases s <;> cases isReal <;> simp [classPsd, scalePsd, foldReal]

/-! ### 4. the one-sided fold doubles the kept bins -/

/-- for a two-sided estimate of `NFFT ≥ 1` values every kept index `k` is a valid index of `raw` and
entry `k` of the fold is `2·raw[k]` (the DC and Nyquist bins are doubled too, as in the code). -/
theorem fold_real_entry (raw : List K) {nfft : ℕ} (hn : 0 < nfft) (hraw : raw.length = nfft) (k : ℕ)
    (hk : k < (if nfft % 2 = 0 then nfft / 2 + 1 else (nfft + 1) / 2)) :
    k < raw.length ∧ nth (foldReal raw nfft) k = 2 * nth raw k := by
  constructor
  · rw [hraw]
    split_ifs at hk <;> omega
  · unfold foldReal
    rw [nth_vec, if_pos hk, Nat.cast_ofNat]

/-! ### 5. Fourier / multitaper / subspace classes: the values ignore the sampling frequency -/

/-- **non-parametric clause**: a class whose raw estimate does not involve `sampling` (periodogram,
correlogram, multitaper, MUSIC/eigenvector, minimum-variance `raw`s) returns the same values for any two
sampling frequencies when `scale_by_freq=False`. -/
theorem fourier_indep_sampling (raw : List K) (isReal : Bool) (nfft : ℕ) (twoPi fs1 fs2 : K) :
    classPsd raw isReal nfft false twoPi fs1 = classPsd raw isReal nfft false twoPi fs2 :=
  noscale_indep raw isReal nfft twoPi twoPi fs1 fs2

/-- with scaling on, entry `k` is the unscaled entry times `2π·NFFT/sampling` -/
theorem scaled_entry (raw : List K) (isReal : Bool) {nfft : ℕ} (twoPi fs : K) (hfs : fs ≠ 0)
    (hn : (nfft : K) ≠ 0) (k : ℕ) :
    nth (classPsd raw isReal nfft true twoPi fs) k
      = nth (classPsd raw isReal nfft false twoPi fs) k * twoPi * (nfft : K) / fs := by
  rw [scale_once_entry]
  field_simp

/-- with scaling on, two sampling frequencies give estimates that differ exactly by `fs1/fs2` -/
theorem fourier_scaled_ratio (raw : List K) (isReal : Bool) {nfft : ℕ} (twoPi fs1 fs2 : K)
    (h1 : fs1 ≠ 0) (h2 : fs2 ≠ 0) (hn : (nfft : K) ≠ 0) :
    classPsd raw isReal nfft true twoPi fs2
      = (classPsd raw isReal nfft true twoPi fs1).map (fun v => v * (fs1 / fs2)) := by
  rw [classPsd_true, classPsd_true, List.map_map]
  apply List.map_congr_left
  intro v _
  simp only [Function.comp_apply]
  field_simp

/-! ### 5b. the frequency axis is proportional to the sampling frequency -/

/-- the frequency axis of `Range(NFFT, sampling)`: the model's integer bin numbers (`rangeBins`) times
`df = sampling/NFFT` -/
def freqAxis (sd : Side) (nfft : ℕ) (fs : K) : List K :=
  (rangeBins sd nfft).map (fun b => (b : K) * (fs / (nfft : K)))

/-- **axis clause**: changing the sampling frequency from `fs` to `c·fs` multiplies every frequency of the
axis (one-sided, two-sided or centre-DC) by `c`; the number of points does not change. -/
theorem freq_axis_scales (sd : Side) (nfft : ℕ) (fs c : K) :
    freqAxis sd nfft (c * fs) = (freqAxis sd nfft fs).map (fun f => c * f)
      ∧ (freqAxis sd nfft (c * fs)).length = (freqAxis sd nfft fs).length := by
  unfold freqAxis
  refine ⟨?_, by simp⟩
  rw [List.map_map]
  apply List.map_congr_left
  intro b _
  simp only [Function.comp_apply]
  ring

section ArFamily
variable [StarRing K]

/-! ### 6. AR / MA / ARMA classes: the model spectrum is divided by the sampling factor -/

/-- **parametric clause**: for `raw = arma2psd(A, B, rho, sampling, NFFT)` and `scale_by_freq=False`,
changing the sampling frequency from `fs` to `c·fs` divides every returned value by `c`. -/
theorem ar_family_div_by_fs (tw : List K) (A B : Option (List K)) (rho fs c : K) (hc : c ≠ 0)
    (hfs : fs ≠ 0) (isReal : Bool) (nfft : ℕ) (twoPi : K) :
    classPsd (arma2psd tw A B rho (c * fs) nfft) isReal nfft false twoPi (c * fs)
      = (classPsd (arma2psd tw A B rho fs nfft) isReal nfft false twoPi fs).map (fun v => v / c) := by
  rw [classPsd_false, classPsd_false, arma2psd_sampling tw A B rho fs c hc hfs]
  cases isReal
  · simp
  · simp only [if_true]; rw [foldReal_map_div]

/-- entry form of `ar_family_div_by_fs` -/
theorem ar_family_div_by_fs_entry (tw : List K) (A B : Option (List K)) (rho fs c : K) (hc : c ≠ 0)
    (hfs : fs ≠ 0) (isReal : Bool) (nfft : ℕ) (twoPi : K) (k : ℕ) :
    nth (classPsd (arma2psd tw A B rho (c * fs) nfft) isReal nfft false twoPi (c * fs)) k
      = nth (classPsd (arma2psd tw A B rho fs nfft) isReal nfft false twoPi fs) k / c := by
  rw [ar_family_div_by_fs tw A B rho fs c hc hfs, nth_map_div]

/-- with `scale_by_freq=True` the factor `2π·NFFT/sampling` contributes a second `1/c`: the scaled
AR/MA/ARMA spectra are divided by `c²`. -/
theorem ar_family_scaled_div_by_fs_sq (tw : List K) (A B : Option (List K)) (rho fs c : K)
    (hc : c ≠ 0) (hfs : fs ≠ 0) (isReal : Bool) {nfft : ℕ} (hn : (nfft : K) ≠ 0) (twoPi : K) (k : ℕ) :
    nth (classPsd (arma2psd tw A B rho (c * fs) nfft) isReal nfft true twoPi (c * fs)) k
      = nth (classPsd (arma2psd tw A B rho fs nfft) isReal nfft true twoPi fs) k / (c * c) := by
  rw [scaled_entry _ _ _ _ (mul_ne_zero hc hfs) hn, scaled_entry _ _ _ _ hfs hn,
    ar_family_div_by_fs_entry tw A B rho fs c hc hfs]
  field_simp

/-! ### 7. minimum variance: ψ is Hermitian-symmetric, its DFT is real (used by C16) -/

/-- the ψ sequence has `NFFT` entries; the first `m = len a` are the lags
`ψ_j = Σ_{i<m-j} (m-j-2i)·conj(a_i)·a_{i+j}/P` -/
theorem minvarPsi_entry (a : List K) (P : K) {nfft j : ℕ} (hj : j < a.length) (hjn : j < nfft) :
    (minvarPsi a P nfft).length = nfft ∧ nth (minvarPsi a P nfft) j = minvarLag a P j :=
  ⟨minvarPsi_length a P nfft, nth_minvarPsi_low a P hj hjn⟩

/-- **Hermitian symmetry**: when the two halves of ψ do not overlap (`2m ≤ NFFT+1`, `m = len a`),
`ψ[NFFT-j] = conj ψ[j]` for every `0 < j < NFFT` (both are zero padding for `m ≤ j ≤ NFFT-m`). -/
theorem minvarPsi_hermitian (a : List K) (P : K) {nfft : ℕ} (hno : 2 * a.length ≤ nfft + 1) {j : ℕ}
    (h0 : 0 < j) (hj : j < nfft) :
    nth (minvarPsi a P nfft) (nfft - j) = star (nth (minvarPsi a P nfft) j) :=
  minvarPsi_herm a P hno h0 hj

/-- `ψ[0] = Σ (m-2i)|a_i|²/P` is self-adjoint (real) for a self-adjoint (real) error `P` -/
theorem minvarPsi_zero_selfadjoint (a : List K) {P : K} (hP : star P = P) {nfft : ℕ}
    (ha : 0 < a.length) (hn : 0 < nfft) :
    star (nth (minvarPsi a P nfft) 0) = nth (minvarPsi a P nfft) 0 := by
  rw [nth_minvarPsi_low a P ha hn, star_minvarLag_zero a hP]

/-- hence every bin of `FFT(ψ)` is self-adjoint (real): taking `Re` in the code loses nothing -/
theorem minvarPsi_dft_selfadjoint {ω : K} {nfft : ℕ} (hn : 0 < nfft) (hω : ω ^ nfft = 1)
    (hstar : star ω = ω⁻¹) (a : List K) {P : K} (hP : star P = P) (ha : 0 < a.length)
    (hno : 2 * a.length ≤ nfft + 1) (k : ℕ) :
    star (dftBin (twiddles ω nfft) nfft (minvarPsi a P nfft) k)
      = dftBin (twiddles ω nfft) nfft (minvarPsi a P nfft) k := by
  rw [dftBin_eq hn hω, minvarPsi_length, Nat.min_self]
  exact dft_selfadjoint_of_hermitian hω hstar (nth (minvarPsi a P nfft))
    (minvarPsi_zero_selfadjoint a hP ha hn) (fun j h0 hj => minvarPsi_herm a P hno h0 hj) k

/-- **`minvar` PSD**: bin `k` is `sampling / Σ_j ψ_j ω^{jk}` (the `Re` is the identity) -/
theorem minvarPsd_entry {ω : K} {nfft : ℕ} (h2 : (2 : K) ≠ 0) (hω : ω ^ nfft = 1)
    (hstar : star ω = ω⁻¹) (a : List K) {P : K} (hP : star P = P) (ha : 0 < a.length)
    (hno : 2 * a.length ≤ nfft + 1) (fs : K) (k : ℕ) (hk : k < nfft) :
    nth (minvarPsd (twiddles ω nfft) a P fs nfft) k
      = fs / ∑ j ∈ range nfft, nth (minvarPsi a P nfft) j * ω ^ (j * k) := by
  have hn : 0 < nfft := by omega
  unfold minvarPsd
  simp only [nth_vec, if_pos hk]
  rw [rePart_of_star_eq h2 (minvarPsi_dft_selfadjoint hn hω hstar a hP ha hno k), dftBin_eq hn hω,
    minvarPsi_length, Nat.min_self]

/-- the `minvar` PSD is proportional to `sampling` -/
theorem minvarPsd_sampling (tw a : List K) (P fs c : K) (nfft : ℕ) :
    minvarPsd tw a P (c * fs) nfft = (minvarPsd tw a P fs nfft).map (fun v => c * v) := by
  unfold minvarPsd
  simp only [map_vec]
  apply vec_ext
  intro k _
  rw [mul_div_assoc]

/-- non-vacuity / the overlap bound: `K = ℚ`, `a = [1, 3]` (`m = 2`), `P = 1`: for `NFFT = 3 = 2m-1` the
sequence is `[ψ_0, ψ_1, conj ψ_1] = [2, 3, 3]`; for `NFFT = 2 < 2m-1` index `1` is claimed by both halves
(`ψ_1` wins, as in the code). -/
example : minvarPsi ([1, 3] : List ℚ) 1 3 = [2, 3, 3] ∧ minvarPsi ([1, 3] : List ℚ) 1 2 = [2, 3] := by
  decide +kernel

end ArFamily

end SpecVerif.C08
