import SpecVerif.Proofs.Lemmas.DFT
import SpecVerif.Model.Periodogram
import Mathlib.Algebra.BigOperators.Field
/-
  C01 — the periodogram equals the windowed-DFT definition and conserves power.

  Property theorems only (helper lemmas live in `Proofs/Lemmas`).  `K` is any field with an involution
  (`ℂ` with `star = conj` in particular), `ω` a primitive `NFFT`-th root of unity with `star ω = ω⁻¹`
  (numpy's `e^{-2πi/NFFT}`); the FFT is a parameter of the model specified as the DFT sum.
-/
namespace SpecVerif.C01
open Finset SpecVerif

variable {K : Type} [Field K] [StarRing K]

/-- the windowed DFT of the definition: `Σ_{j<N} x_j w_j ω^{jk}` -/
def wdft (ω : K) (x w : List K) (k : ℕ) : K :=
  ∑ j ∈ range x.length, (nth x j * nth w j) * ω ^ (j * k)

/-- number of returned bins: `NFFT/2+1` for real data (either parity), `NFFT` for complex data -/
theorem periodogram_length (tw x w : List K) (nfft : ℕ) (isReal : Bool) :
    (speriodogram tw x w nfft isReal).length = if isReal then nfft / 2 + 1 else nfft := by
  simp [speriodogram]

/-- **definition clause**: for any data, window and `NFFT ≥ N`, every returned bin `k` of the model of
`speriodogram` equals `|DFT_NFFT(x·w)[k]|² / N`. -/
theorem periodogram_eq_def {ω : K} {nfft : ℕ} (hn : 0 < nfft) (hω : ω ^ nfft = 1) (x w : List K)
    (hN : x.length ≤ nfft) (isReal : Bool) (k : ℕ)
    (hk : k < (if isReal then nfft / 2 + 1 else nfft)) :
    nth (speriodogram (twiddles ω nfft) x w nfft isReal) k
      = wdft ω x w k * star (wdft ω x w k) / (x.length : K) := by
  unfold speriodogram
  simp only [nth_vec, hk, if_true]
  rw [abs2_eq, dftBin_eq hn hω]
  have hl : min (vec x.length fun j => nth x j * nth w j).length nfft = x.length := by
    simp [hN]
  rw [hl]
  have : ∀ j ∈ range x.length,
      nth (vec x.length fun j => nth x j * nth w j) j * ω ^ (j * k)
        = (nth x j * nth w j) * ω ^ (j * k) := by
    intro j hj
    rw [nth_vec, if_pos (mem_range.mp hj)]
  rw [Finset.sum_congr rfl this]
  rfl

/-- 2-D input: column `c` of the result is the 1-D periodogram of column `c` with the *same* window -/
theorem periodogram2_column (tw : List K) (cols : List (List K)) (w : List K) (nfft : ℕ)
    (isReal : Bool) (c : ℕ) (hc : c < cols.length) :
    (speriodogram2 tw cols w nfft isReal)[c]'(by simpa [speriodogram2] using hc)
      = speriodogram tw cols[c] w nfft isReal := by
  simp [speriodogram2]

/-- **Parseval clause** (complex data, all `NFFT` bins): the mean of the returned values equals
`Σ|x_j w_j|²/N`. -/
theorem periodogram_parseval {ω : K} {nfft : ℕ} (hn : 0 < nfft) (hω : IsPrimitiveRoot ω nfft)
    (hstar : star ω = ω⁻¹) (x w : List K) (hN : x.length ≤ nfft) :
    (∑ k ∈ range nfft, nth (speriodogram (twiddles ω nfft) x w nfft false) k) / (nfft : K)
      = (∑ j ∈ range x.length, (nth x j * nth w j) * star (nth x j * nth w j)) / (x.length : K) := by
  have hnK : (nfft : K) ≠ 0 := by
    have : NeZero nfft := ⟨hn.ne'⟩
    exact (hω.neZero').ne
  have h1 : ∀ k ∈ range nfft, nth (speriodogram (twiddles ω nfft) x w nfft false) k
      = wdft ω x w k * star (wdft ω x w k) / (x.length : K) := by
    intro k hk
    exact periodogram_eq_def hn hω.pow_eq_one x w hN false k (by simpa using mem_range.mp hk)
  rw [Finset.sum_congr rfl h1, ← Finset.sum_div]
  unfold wdft
  rw [parseval_fun hω hN hstar (fun j => nth x j * nth w j)]
  rw [mul_div_assoc, mul_div_cancel_left₀ _ hnK]

/-- non-vacuity: the hypotheses are met by `K = ℚ`-like fields only trivially (`NFFT ≤ 2`); the
instance that matters is `ℂ` with `ω = e^{-2πi/NFFT}`; here the degenerate root `ω = 1`, `NFFT = 1`
shows the statement has models and what it says there. -/
example : nth (speriodogram (twiddles (1 : ℚ) 1) [3] [2] 1 false) 0 = 36 := by
  simp [speriodogram, dftBin, twiddles, vec, nth, abs2, powN, conj]
  norm_num

end SpecVerif.C01
