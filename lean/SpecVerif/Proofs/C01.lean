import SpecVerif.Proofs.Lemmas.DFT
import SpecVerif.Proofs.Lemmas.WienerKhinchin
import SpecVerif.Model.Periodogram
import Mathlib.Algebra.BigOperators.Field
import SpecVerif.Proofs.Lemmas.CRatField
/-
  C01 — the periodogram equals the windowed-DFT definition and conserves power.

  Property theorems only (helper lemmas live in `Proofs/Lemmas`).  `K` is any field with an involution
  (`ℂ` with `star = conj` in particular), `ω` a primitive `NFFT`-th root of unity with `star ω = ω⁻¹`
  (numpy's `e^{-2πi/NFFT}`); the FFT is a parameter of the model specified as the DFT sum.
-/
namespace SpecVerif.C01
open Finset SpecVerif

variable {K : Type} [Field K] [StarRing K]

/-- the windowed DFT of the definition: `Σ_{j<N} x_j w_j ω^{jk}` -/
def wdft (ω : K) (x w : List K) (k : ℕ) : K :=
  ∑ j ∈ range x.length, (nth x j * nth w j) * ω ^ (j * k)

/-- number of returned bins: `NFFT/2+1` for real data (either parity), `NFFT` for complex data -/
theorem periodogram_length (tw x w : List K) (nfft : ℕ) (isReal : Bool) :
    (speriodogram tw x w nfft isReal).length = if isReal then nfft / 2 + 1 else nfft := by
  simp [speriodogram]

/-- **definition clause**: for any data, window and `NFFT ≥ N`, every returned bin `k` of the model of
`speriodogram` equals `|DFT_NFFT(x·w)[k]|² / N`. -/
theorem periodogram_eq_def {ω : K} {nfft : ℕ} (hn : 0 < nfft) (hω : ω ^ nfft = 1) (x w : List K)
    (hN : x.length ≤ nfft) (isReal : Bool) (k : ℕ)
    (hk : k < (if isReal then nfft / 2 + 1 else nfft)) :
    nth (speriodogram (twiddles ω nfft) x w nfft isReal) k
      = wdft ω x w k * star (wdft ω x w k) / (x.length : K) := by
  unfold speriodogram
  simp only [nth_vec, hk, if_true]
  rw [abs2_eq, dftBin_eq hn hω]
  have hl : min (vec x.length fun j => nth x j * nth w j).length nfft = x.length := by
    simp [hN]
  rw [hl]
  have : ∀ j ∈ range x.length,
      nth (vec x.length fun j => nth x j * nth w j) j * ω ^ (j * k)
        = (nth x j * nth w j) * ω ^ (j * k) := by
    intro j hj
    rw [nth_vec, if_pos (mem_range.mp hj)]
  rw [Finset.sum_congr rfl this]
  rfl

/-- 2-D input: column `c` of the result is the 1-D periodogram of column `c` with the *same* window -/
theorem periodogram2_column (tw : List K) (cols : List (List K)) (w : List K) (nfft : ℕ)
    (isReal : Bool) (c : ℕ) (hc : c < cols.length) :
    (speriodogram2 tw cols w nfft isReal)[c]'(by simpa [speriodogram2] using hc)
      = speriodogram tw cols[c] w nfft isReal := by
  simp [speriodogram2]

/-- **Parseval clause** (complex data, all `NFFT` bins): the mean of the returned values equals
`Σ|x_j w_j|²/N`. -/
theorem periodogram_parseval {ω : K} {nfft : ℕ} (hn : 0 < nfft) (hω : IsPrimitiveRoot ω nfft)
    (hstar : star ω = ω⁻¹) (x w : List K) (hN : x.length ≤ nfft) :
    (∑ k ∈ range nfft, nth (speriodogram (twiddles ω nfft) x w nfft false) k) / (nfft : K)
      = (∑ j ∈ range x.length, (nth x j * nth w j) * star (nth x j * nth w j)) / (x.length : K) := by
  have hnK : (nfft : K) ≠ 0 := by
    have : NeZero nfft := ⟨hn.ne'⟩
    exact (hω.neZero').ne
  have h1 : ∀ k ∈ range nfft, nth (speriodogram (twiddles ω nfft) x w nfft false) k
      = wdft ω x w k * star (wdft ω x w k) / (x.length : K) := by
    intro k hk
    exact periodogram_eq_def hn hω.pow_eq_one x w hN false k (by simpa using mem_range.mp hk)
  rw [Finset.sum_congr rfl h1, ← Finset.sum_div]
  unfold wdft
  rw [parseval_fun hω hN hstar (fun j => nth x j * nth w j)]
  rw [mul_div_assoc, mul_div_cancel_left₀ _ hnK]

/-- **Wiener–Khinchin clause**: autocorrelation of `N ≥ 1` samples, rectangular lag window (`w_i = 1`
for `i < N-1`), `lag = N-1`, biased normalisation and `NFFT ≥ 2N-1`: every bin `k < NFFT` of the model
of `CORRELOGRAMPSD` equals the same bin of the model of `speriodogram` with the all-ones data window
(`|Σ_j x_j ω^{jk}|²/N` by `periodogram_eq_def`).  `ω` is any `NFFT`-th root of unity with
`star ω = ω⁻¹`; the `coeff`-only argument `rms2` is arbitrary.  `CharZero K` makes the divisions by `N`
and by `2` (in `rePart`) meaningful; only `(2 : K) ≠ 0` is used by the proof.
The bound `2N-1 ≤ NFFT` is the no-wrap-around condition: the positive lags `1..N-1` and the negative
lags stored at `NFFT-(N-1)..NFFT-1` must not collide (see the counter-example below). -/
theorem correlogram_eq_periodogram [CharZero K] {ω : K} {nfft : ℕ} (x w ones : List K) (rms2 : K)
    (hN : 1 ≤ x.length) (hnfft : 2 * x.length - 1 ≤ nfft) (hω : ω ^ nfft = 1)
    (hstar : star ω = ω⁻¹) (hw : ∀ i, i < x.length - 1 → nth w i = 1)
    (hones : ∀ j, j < x.length → nth ones j = 1) (k : ℕ) (hk : k < nfft) :
    nth (correlogram (twiddles ω nfft) x x w (x.length - 1) nfft .biased rms2) k
      = nth (speriodogram (twiddles ω nfft) x ones nfft false) k := by
  have hn : 0 < nfft := by omega
  rw [correlogram_bin_eq x w rms2 hN hnfft hω hstar hw two_ne_zero k hk,
    periodogram_eq_def hn hω x ones (by omega) false k (by simpa using hk)]
  have : wdft ω x ones k = ∑ j ∈ range x.length, nth x j * ω ^ (j * k) := by
    unfold wdft
    apply Finset.sum_congr rfl
    intro j hj
    rw [hones j (mem_range.mp hj), mul_one]
  rw [this]

/-- the same with the rectangular windows written out (`N-1` ones for the lags, `N` ones for the data) -/
theorem correlogram_eq_periodogram_rect [CharZero K] {ω : K} {nfft : ℕ} (x : List K) (rms2 : K)
    (hN : 1 ≤ x.length) (hnfft : 2 * x.length - 1 ≤ nfft) (hω : ω ^ nfft = 1)
    (hstar : star ω = ω⁻¹) (k : ℕ) (hk : k < nfft) :
    nth (correlogram (twiddles ω nfft) x x (vec (x.length - 1) fun _ => 1) (x.length - 1) nfft
        .biased rms2) k
      = nth (speriodogram (twiddles ω nfft) x (vec x.length fun _ => 1) nfft false) k :=
  correlogram_eq_periodogram x _ _ rms2 hN hnfft hω hstar
    (fun i hi => by rw [nth_vec, if_pos hi]) (fun j hj => by rw [nth_vec, if_pos hj]) k hk

/-- non-vacuity: `K = ℚ` (trivial involution), `ω = -1`, `NFFT = 4 ≥ 2N-1 = 3`, `x = [3, 2]`, bin `1`:
both sides are `|3 - 2|²/2`. -/
example : nth (correlogram (twiddles (-1 : ℚ) 4) [3, 2] [3, 2] [1] 1 4 .biased 0) 1
    = nth (speriodogram (twiddles (-1 : ℚ) 4) [3, 2] [1, 1] 4 false) 1 :=
  correlogram_eq_periodogram (ω := -1) [3, 2] [1] [1, 1] 0 (by simp) (by simp) (by norm_num)
    (by simp) (by intro i hi; have : i = 0 := by simpa using hi
                  subst this; rfl)
    (by intro j hj; simp at hj; interval_cases j <;> rfl) 1 (by norm_num)

/-- the bound `2N-1 ≤ NFFT` cannot be dropped: with `N = 2`, `NFFT = 2`, `ω = -1`, `x = [1, 1]` the
negative lag `-1` is written at index `NFFT-1 = 1` over the positive lag `1` (wrap-around) and bin `0`
is `3/2` instead of `|1+1|²/2 = 2`. -/
example : nth (correlogram (twiddles (-1 : ℚ) 2) [1, 1] [1, 1] [1] 1 2 .biased 0) 0
    ≠ nth (speriodogram (twiddles (-1 : ℚ) 2) [1, 1] [1, 1] 2 false) 0 := by
  decide +kernel

/-- non-vacuity: the hypotheses are met by `K = ℚ`-like fields only trivially (`NFFT ≤ 2`); the
instance that matters is `ℂ` with `ω = e^{-2πi/NFFT}`; here the degenerate root `ω = 1`, `NFFT = 1`
shows the statement has models and what it says there. -/
example : nth (speriodogram (twiddles (1 : ℚ) 1) [3] [2] 1 false) 0 = 36 := by
  simp [speriodogram, dftBin, twiddles, vec, nth, abs2, powN, conj]
  norm_num

/-! ### instantiation at the executed scalar type `CRat`

`Lemmas/CRatField.lean` makes the Gaussian rationals of the executable model a `Field` / `StarRing` whose
operations ARE the model's hand-written instances.  The theorems below are the generic theorems of this
file specialised to `K := CRat` (by plain application — no rewriting): their statements elaborate to the
model functions applied to the model's own instances (`CRat.instAdd`, `CRat.instMul`, `CRat.instDiv`, …,
`CRat.instConj`), i.e. to the code that the differential test executes; `conj` is the model's conjugation.
The `example … := rfl` lines check that the `Field`-path elaboration used by the generic theorems,
instantiated at `CRat`, is that very function. -/
section CRatInstantiation

/-- **`periodogram_eq_def` for the executed model**: every returned bin is `|DFT_NFFT(x·w)[k]|² / N` -/
theorem periodogram_eq_def_CRat {ω : CRat} {nfft : ℕ} (hn : 0 < nfft) (hω : ω ^ nfft = 1)
    (x w : List CRat) (hN : x.length ≤ nfft) (isReal : Bool) (k : ℕ)
    (hk : k < (if isReal then nfft / 2 + 1 else nfft)) :
    nth (speriodogram (twiddles ω nfft) x w nfft isReal) k
      = wdft ω x w k * conj (wdft ω x w k) / (x.length : CRat) :=
  periodogram_eq_def hn hω x w hN isReal k hk

example : (fun (K : Type) [Field K] [StarRing K] => (speriodogram : List K → _)) CRat
    = @speriodogram CRat CRat.instAdd CRat.instMul CRat.instDiv CRat.instOfNatOfNatNat CRat.instNatCast
        CRat.instConj := rfl
example : @speriodogram CRat CRat.instAdd CRat.instMul CRat.instDiv CRat.instOfNatOfNatNat
    CRat.instNatCast CRat.instConj = speriodogram := rfl
example : (fun (K : Type) [Field K] [StarRing K] => (twiddles : K → _)) CRat
    = @twiddles CRat CRat.instMul CRat.instOfNatOfNatNat_1 := rfl

/-- non-vacuity at `CRat`: `ω = i` is a 4th root of unity of the executed scalar type -/
example : ((⟨0, 1⟩ : CRat) ^ 4 = 1) := by
  ext <;> simp [pow_succ, CRatL.mul_re, CRatL.mul_im]

end CRatInstantiation

end SpecVerif.C01
