import SpecVerif.Proofs.Lemmas.Shift
import SpecVerif.Proofs.Lemmas.AdaptLoop
import SpecVerif.Proofs.Lemmas.ShiftLS
import SpecVerif.Proofs.C14
import SpecVerif.Proofs.C01
import SpecVerif.Proofs.C08
import SpecVerif.Model.Arma
import SpecVerif.Model.Burg
import SpecVerif.Model.Minvar
import SpecVerif.Model.Mtm
import SpecVerif.Model.Estimators
import SpecVerif.Model.Sides
/-
  C04 — frequency-shift covariance, conjugation mirror, time reversal and the real-data fold.

  Property theorems only (helpers: `Proofs/Lemmas/Shift.lean`, namespace `SpecVerif.ShiftL`).
  `K` is any field with an involution (`ℂ` in particular), `ω` an `NFFT`-th root of unity with
  `star ω = ω⁻¹` (numpy's `e^{-2πi/NFFT}`).  Multiplying sample `n` by `e^{+2πi m n/NFFT}` is
  `modulate (ω⁻¹ ^ m) x` (`x_n ↦ μ^n x_n`, `μ = ω⁻¹^m`); on lists that store the entries `1, 2, …` of a
  sequence (lags `r[1:]`, AR / MA coefficients, reflection coefficients) the same operation is
  `twist μ A` (`A_j ↦ μ^{j+1} A_j`); `trconj x` is the conjugated time reversal `y_n = conj x_{N-1-n}`.
  "Rotated by `m` bins" is `numpy.roll(p, m)`: `roll(p, m)[k] = p[(k - m) mod NFFT]`, the model's
  `cshift p m`.

  Multitaper: `multitaper_shift` covers the data-independent weightings (`unity`, `eigen`); the adaptive
  weighting is covered for the WHOLE iteration of `pmtm(method='adapt')` by `multitaper_shift_adapt` /
  `multitaper_shift_adapt_mod` (section 4b): the stopping test `Σ_f|S[f]-S1[f]|/NFFT > tol` is a sum over
  all bins and the data power is unchanged by a unimodular modulation, so the loops on the data and on
  the modulated data make the same number of passes, and the weights table and the adaptive mean are
  rotated by `m` bins (helpers: `Proofs/Lemmas/AdaptLoop.lean`, namespace `SpecVerif.AdaptL`).

  Covariance / modified covariance methods (`arcovar`, `modcovar`, `pcovar`, `pmodcovar`; section 8, helpers
  `Proofs/Lemmas/ShiftLS.lean`, namespace `SpecVerif.ShiftLSL`): no longer covered by the test oracle only.
  The least-squares solver is a parameter of the model (contract "returns a minimiser", C14), so the
  theorems are relative to that contract: `arcovar_mod` / `modcovar_mod` (`arcovar_conj` / `modcovar_conj`)
  say that the twisted (conjugated) vector solves the normal equations of the modulated (conjugated) data iff
  the vector solves those of the data, with the same prediction-error energy; `*_mod_unique`,
  `*_conj_unique` conclude `a' = twist μ a` (`a' = conj a`), `e' = e` for the values returned by the model
  when both returned vectors satisfy their normal equations and the Gram matrix of the data is nonsingular
  (`GramInj`; over `ℝ`/`ℂ` implied by full column rank, `ls_gramInj_of_fullColRank`); `covar_psd_shift`,
  `modcovar_psd_shift` (`*_psd_mirror`) are the rotation by `m` bins (the mirror) of the AR spectrum.  Time
  reversal of the modified covariance method is `modcovar_timerev` (section 7, no contract needed).
  Section 8b (`*_solver`): with the model's own Gauss–Jordan solver, verified in
  `Proofs/Lemmas/GaussJordan.lean` for a lawful pivot test (`LawfulIsZero`), the contract hypotheses (both
  `NormalEq` and `GramInj`) are consequences of the two calls having returned, so the same conclusions hold
  with no hypothesis beyond "both calls return".
-/
namespace SpecVerif.C04
open Finset SpecVerif SpecVerif.ArmaL SpecVerif.ShiftL SpecVerif.MtmL SpecVerif.AdaptL
open SpecVerif.LSL SpecVerif.ShiftLSL

variable {K : Type} [Field K] [StarRing K]

/-! ### 1. the DFT -/

omit [StarRing K] in
/-- **shift**: bin `k` of the DFT of `x_n·e^{2πi m n/NFFT}` is bin `k - m (mod NFFT)` of the DFT of `x`
(any data length: numpy truncates / zero-pads both inputs alike). -/
theorem dft_mod {ω : K} {nfft : ℕ} (hω : ω ^ nfft = 1) (x : List K) (k : ℕ) {m : ℕ}
    (hm : m < nfft) :
    dftBin (twiddles ω nfft) nfft (modulate (ω⁻¹ ^ m) x) k
      = dftBin (twiddles ω nfft) nfft x ((k + nfft - m) % nfft) :=
  dftBin_modulate (by omega) hω x (by omega)

/-- **mirror**: the DFT of the conjugated data is the conjugate of the mirrored bin `-k (mod NFFT)`. -/
theorem dft_conj {ω : K} {nfft : ℕ} (hω : ω ^ nfft = 1) (hstar : star ω = ω⁻¹) (x : List K) {k : ℕ}
    (hk : k < nfft) :
    dftBin (twiddles ω nfft) nfft (x.map star) k
      = star (dftBin (twiddles ω nfft) nfft x ((nfft - k) % nfft)) :=
  dftBin_map_star (by omega) hω hstar x (by omega)

/-- **time reversal**: for `y_n = conj x_{N-1-n}`, `N ≤ NFFT`, every bin is the conjugate of the same bin
of `x` times the unimodular phase `ω^{(N-1)k}`. -/
theorem dft_timerev_conj {ω : K} {nfft : ℕ} (hn : 0 < nfft) (hω : ω ^ nfft = 1)
    (hstar : star ω = ω⁻¹) (x : List K) (hN : x.length ≤ nfft) (k : ℕ) :
    dftBin (twiddles ω nfft) nfft (trconj x) k
      = ω ^ ((x.length - 1) * k) * star (dftBin (twiddles ω nfft) nfft x k) :=
  dftBin_trconj hn hω hstar x hN k

/-- … hence `|DFT|²` is the same in every bin. -/
theorem dft_timerev_abs2 {ω : K} {nfft : ℕ} (hn : 0 < nfft) (hω : ω ^ nfft = 1)
    (hstar : star ω = ω⁻¹) (x : List K) (hN : x.length ≤ nfft) (k : ℕ) :
    abs2 (dftBin (twiddles ω nfft) nfft (trconj x) k) = abs2 (dftBin (twiddles ω nfft) nfft x k) := by
  rw [dftBin_trconj hn hω hstar x hN k, abs2_phase_mul (ne_zero_of_pow_eq_one hn hω) hstar]

/-! ### 2. the periodogram (complex data, all `NFFT` bins) -/

/-- **periodogram shift covariance** (any window): bin `k` of the periodogram of the modulated data is
bin `k - m (mod NFFT)` of the periodogram of the data. -/
theorem periodogram_shift {ω : K} {nfft : ℕ} (hω : ω ^ nfft = 1) (x w : List K) {k m : ℕ}
    (hk : k < nfft) (hm : m < nfft) :
    nth (speriodogram (twiddles ω nfft) (modulate (ω⁻¹ ^ m) x) w nfft false) k
      = nth (speriodogram (twiddles ω nfft) x w nfft false) ((k + nfft - m) % nfft) := by
  have hn : 0 < nfft := by omega
  rw [nth_speriodogram_false _ _ _ _ hk, nth_speriodogram_false _ _ _ _ (Nat.mod_lt _ hn),
    windowed_modulate, dftBin_modulate hn hω _ (by omega), modulate_length]

/-- the same as a list: the two-sided periodogram is rotated by exactly `m` bins (`numpy.roll(·, m)`). -/
theorem periodogram_shift_roll {ω : K} {nfft : ℕ} (hω : ω ^ nfft = 1) (x w : List K) {m : ℕ}
    (hm : m < nfft) :
    speriodogram (twiddles ω nfft) (modulate (ω⁻¹ ^ m) x) w nfft false
      = cshift (speriodogram (twiddles ω nfft) x w nfft false) m :=
  eq_cshift_of_entries (by simp [C01.periodogram_length]) (by simp [C01.periodogram_length]) hm
    (fun _ hk => periodogram_shift hω x w hk hm)

/-- **periodogram mirror** (real window): conjugating the data swaps bins `k` and `-k (mod NFFT)`. -/
theorem periodogram_conj {ω : K} {nfft : ℕ} (hω : ω ^ nfft = 1) (hstar : star ω = ω⁻¹)
    (x w : List K) (hw : ∀ j, j < x.length → star (nth w j) = nth w j) {k : ℕ} (hk : k < nfft) :
    nth (speriodogram (twiddles ω nfft) (x.map star) w nfft false) k
      = nth (speriodogram (twiddles ω nfft) x w nfft false) ((nfft - k) % nfft) := by
  have hn : 0 < nfft := by omega
  rw [nth_speriodogram_false _ _ _ _ hk, nth_speriodogram_false _ _ _ _ (Nat.mod_lt _ hn),
    windowed_map_star x w hw, dftBin_map_star hn hω hstar _ (by omega), abs2_star, List.length_map]

/-- **periodogram time-reversal invariance** (real symmetric window, `N ≤ NFFT`): the conjugated,
time-reversed data has the same periodogram. -/
theorem periodogram_timerev {ω : K} {nfft : ℕ} (hn : 0 < nfft) (hω : ω ^ nfft = 1)
    (hstar : star ω = ω⁻¹) (x w : List K) (hN : x.length ≤ nfft)
    (hw : ∀ j, j < x.length → star (nth w j) = nth w j)
    (hsym : ∀ j, j < x.length → nth w (x.length - 1 - j) = nth w j) :
    speriodogram (twiddles ω nfft) (trconj x) w nfft false
      = speriodogram (twiddles ω nfft) x w nfft false := by
  apply list_ext_nth
  · simp [C01.periodogram_length]
  · intro k hk
    have hk' : k < nfft := by simpa [C01.periodogram_length] using hk
    rw [nth_speriodogram_false _ _ _ _ hk', nth_speriodogram_false _ _ _ _ hk',
      windowed_trconj x w hw hsym, dftBin_trconj hn hω hstar _ (by simpa using hN),
      abs2_phase_mul (ne_zero_of_pow_eq_one hn hω) hstar, trconj_length]

/-! ### 3. correlation lags, Levinson, Yule–Walker, Burg under modulation -/

/-- the raw lag-`k` sum of modulated data is `μ^k` times the lag of the data, for unimodular `μ` -/
theorem corr_mod {μ : K} (hμ : μ * star μ = 1) (x y : List K) (n k : ℕ) :
    corrRaw (modulate μ x) (modulate μ y) n k = μ ^ k * corrRaw x y n k :=
  corrRaw_modulate hμ x y n k

/-- `CORRELATION` (every normalisation): lag `k ≤ maxlags` transforms as `r_k ↦ μ^k r_k`. -/
theorem correlation_mod {μ : K} (hμ : μ * star μ = 1) (x y : List K) (L : ℕ) (norm : Norm) (rms2 : K)
    {k : ℕ} (hk : k ≤ L) :
    nth (correlation (modulate μ x) (modulate μ y) L norm rms2) k
      = μ ^ k * nth (correlation x y L norm rms2) k := by
  rw [correlation_modulate hμ, nth_vec, if_pos (by omega)]

/-- **Levinson on modulated lags** (`r_0` kept, `r_j ↦ μ^j r_j`, `|μ| = 1`): after any number of stages
the prediction coefficients and the reflection coefficients are twisted (`a_j ↦ μ^j a_j`, `k_j ↦ μ^j k_j`)
and the prediction error is unchanged. -/
theorem levinson_mod {μ : K} (hμ : μ * star μ = 1) (r0 : K) (T : List K) (k : ℕ) :
    (levRun r0 (twist μ T) k).A = twist μ (levRun r0 T k).A
      ∧ (levRun r0 (twist μ T) k).P = (levRun r0 T k).P
      ∧ (levRun r0 (twist μ T) k).ref = twist μ (levRun r0 T k).ref := by
  rw [levRun_twist hμ]
  exact ⟨rfl, rfl, rfl⟩

/-- the same written with the lag list of the statement: `T' = [μ^{j+1} T_j]_{j<p}`, `p = len T` -/
theorem levinson_mod_vec {μ : K} (hμ : μ * star μ = 1) (r0 : K) (T : List K) (k j : ℕ) :
    nth (levRun r0 (vec T.length (fun j => μ ^ (j + 1) * nth T j)) k).A j
        = μ ^ (j + 1) * nth (levRun r0 T k).A j
      ∧ (levRun r0 (vec T.length (fun j => μ ^ (j + 1) * nth T j)) k).P = (levRun r0 T k).P
      ∧ nth (levRun r0 (vec T.length (fun j => μ ^ (j + 1) * nth T j)) k).ref j
        = μ ^ (j + 1) * nth (levRun r0 T k).ref j := by
  obtain ⟨h1, h2, h3⟩ := levinson_mod hμ r0 T k
  unfold twist at h1 h2 h3
  refine ⟨?_, h2, ?_⟩
  · rw [h1]; exact nth_twist μ _ j
  · rw [h3]; exact nth_twist μ _ j

/-- **Yule–Walker on modulated data**: `aryule` returns twisted AR and reflection coefficients and the
same noise variance (every normalisation of the lags). -/
theorem aryule_mod {μ : K} (hμ : μ * star μ = 1) (x : List K) (p : ℕ) (norm : Norm) :
    (aryule (modulate μ x) p norm).A = twist μ (aryule x p norm).A
      ∧ (aryule (modulate μ x) p norm).P = (aryule x p norm).P
      ∧ (aryule (modulate μ x) p norm).ref = twist μ (aryule x p norm).ref := by
  rw [aryule_modulate hμ]
  exact ⟨rfl, rfl, rfl⟩

/-- **Burg on modulated data**: after `k` stages the AR and reflection coefficients are twisted, the
error power `rho` (and the internal `den`, `temp`) unchanged; the forward errors are modulated like the
data and backward error `j` picks up `μ^{j-k}` (`1` on the frozen entries `j < k`). -/
theorem burg_mod {μ : K} (hμ : μ * star μ = 1) (x : List K) (k : ℕ) :
    (burgRun (modulate μ x) k).a = twist μ (burgRun x k).a
      ∧ (burgRun (modulate μ x) k).rho = (burgRun x k).rho
      ∧ (burgRun (modulate μ x) k).ref = twist μ (burgRun x k).ref
      ∧ (burgRun (modulate μ x) k).ef = modulate μ (burgRun x k).ef
      ∧ (∀ j, nth (burgRun (modulate μ x) k).eb j = μ ^ (j - k) * nth (burgRun x k).eb j)
      ∧ (burgRun (modulate μ x) k).den = (burgRun x k).den
      ∧ (burgRun (modulate μ x) k).temp = (burgRun x k).temp := by
  rw [burgRun_modulate hμ]
  exact ⟨rfl, rfl, rfl, rfl, fun j => nth_btwist μ k _ j, rfl, rfl⟩

/-! ### 4. `arma2psd` of twisted coefficients: rotation by `m` bins -/

omit [StarRing K] in
/-- `A(ω^k)` of the twisted coefficients is `A(ω^{k-m})` -/
theorem polyAt_mod {ω : K} {nfft : ℕ} (hω : ω ^ nfft = 1) (A : List K) (k : ℕ) {m : ℕ}
    (hm : m < nfft) :
    polyAt ω (twist (ω⁻¹ ^ m) A) k = polyAt ω A ((k + nfft - m) % nfft) :=
  polyAt_twist hω (ne_zero_of_pow_eq_one (by omega) hω) A (by omega)

/-- **model-spectrum shift covariance**: twisting the AR and MA coefficients (`A`, `B` each a list or
`None`) moves entry `k - m (mod NFFT)` of `arma2psd` to entry `k`. -/
theorem arma2psd_mod {ω : K} {nfft : ℕ} (hω : ω ^ nfft = 1) (A B : Option (List K)) (rho T : K)
    {k m : ℕ} (hk : k < nfft) (hm : m < nfft) :
    nth (arma2psd (twiddles ω nfft) (A.map (twist (ω⁻¹ ^ m))) (B.map (twist (ω⁻¹ ^ m))) rho T nfft) k
      = nth (arma2psd (twiddles ω nfft) A B rho T nfft) ((k + nfft - m) % nfft) :=
  arma2psd_twist (by omega) hω A B rho T hk (by omega)

/-- the same as a list: `arma2psd` of the twisted model is `numpy.roll(arma2psd(model), m)` -/
theorem arma2psd_mod_roll {ω : K} {nfft : ℕ} (hω : ω ^ nfft = 1) (A B : Option (List K)) (rho T : K)
    {m : ℕ} (hm : m < nfft) :
    arma2psd (twiddles ω nfft) (A.map (twist (ω⁻¹ ^ m))) (B.map (twist (ω⁻¹ ^ m))) rho T nfft
      = cshift (arma2psd (twiddles ω nfft) A B rho T nfft) m :=
  eq_cshift_of_entries (arma2psd_length _ _ _ _ _ _) (arma2psd_length _ _ _ _ _ _) hm
    (fun _ hk => arma2psd_mod hω A B rho T hk hm)

/-- **Yule–Walker spectrum shift covariance**: the `pyule` two-sided spectrum
`arma2psd(A=aryule(x).A, rho=aryule(x).P)` of the modulated data is the spectrum of the data rotated by
`m` bins. -/
theorem yule_psd_shift {ω : K} {nfft : ℕ} (hω : ω ^ nfft = 1) (hstar : star ω = ω⁻¹) (x : List K)
    (p : ℕ) (norm : Norm) (T : K) {m : ℕ} (hm : m < nfft) :
    arma2psd (twiddles ω nfft) (some (aryule (modulate (ω⁻¹ ^ m) x) p norm).A) none
        (aryule (modulate (ω⁻¹ ^ m) x) p norm).P T nfft
      = cshift (arma2psd (twiddles ω nfft) (some (aryule x p norm).A) none (aryule x p norm).P T nfft)
          m := by
  have hμ : (ω⁻¹ ^ m) * star (ω⁻¹ ^ m) = 1 := by
    have hω0 := ne_zero_of_pow_eq_one (show 0 < nfft by omega) hω
    rw [star_pow, star_inv₀, hstar, inv_inv, ← mul_pow, inv_mul_cancel₀ hω0, one_pow]
  obtain ⟨hA, hP, _⟩ := aryule_mod hμ x p norm
  rw [hA, hP]
  exact arma2psd_mod_roll hω (some _) none _ T hm

/-- **Burg spectrum shift covariance**: the `pburg` two-sided spectrum
`arma2psd(A=burg(x).a, rho=burg(x).rho)` of the modulated data is the spectrum of the data rotated by
`m` bins. -/
theorem burg_psd_shift {ω : K} {nfft : ℕ} (hω : ω ^ nfft = 1) (hstar : star ω = ω⁻¹) (x : List K)
    (p : ℕ) (T : K) {m : ℕ} (hm : m < nfft) :
    arma2psd (twiddles ω nfft) (some (burgRun (modulate (ω⁻¹ ^ m) x) p).a) none
        (burgRun (modulate (ω⁻¹ ^ m) x) p).rho T nfft
      = cshift (arma2psd (twiddles ω nfft) (some (burgRun x p).a) none (burgRun x p).rho T nfft) m := by
  have hμ : (ω⁻¹ ^ m) * star (ω⁻¹ ^ m) = 1 := by
    have hω0 := ne_zero_of_pow_eq_one (show 0 < nfft by omega) hω
    rw [star_pow, star_inv₀, hstar, inv_inv, ← mul_pow, inv_mul_cancel₀ hω0, one_pow]
  obtain ⟨hA, hP, _⟩ := burg_mod hμ x p
  rw [hA, hP]
  exact arma2psd_mod_roll hω (some _) none _ T hm

/-- **minimum-variance shift covariance**: `minvar` of the modulated data returns the PSD of the data
rotated by `m` bins, the AR vector `[1, a…]` modulated and the reflection coefficients twisted. -/
theorem minvar_shift {ω : K} {nfft : ℕ} (hω : ω ^ nfft = 1) (hstar : star ω = ω⁻¹) (x : List K)
    (q : ℕ) (fs : K) {m : ℕ} (hm : m < nfft) :
    (minvar (twiddles ω nfft) (modulate (ω⁻¹ ^ m) x) q fs nfft).psd
        = cshift (minvar (twiddles ω nfft) x q fs nfft).psd m
      ∧ (minvar (twiddles ω nfft) (modulate (ω⁻¹ ^ m) x) q fs nfft).ar
        = modulate (ω⁻¹ ^ m) (minvar (twiddles ω nfft) x q fs nfft).ar
      ∧ (minvar (twiddles ω nfft) (modulate (ω⁻¹ ^ m) x) q fs nfft).ref
        = twist (ω⁻¹ ^ m) (minvar (twiddles ω nfft) x q fs nfft).ref := by
  have hn : 0 < nfft := by omega
  have hμ := unimod_inv_pow (ne_zero_of_pow_eq_one hn hω) hstar m
  obtain ⟨hA, hP, hR, _⟩ := burg_mod hμ x (q - 1)
  simp only [minvar, hA, hP, hR]
  refine ⟨?_, ?_, trivial⟩
  · exact eq_cshift_of_entries (minvarPsd_length _ _ _ _ _) (minvarPsd_length _ _ _ _ _) hm
      (fun _ hk => minvarPsd_twist hn hω hstar _ _ fs hk (by omega))
  · apply list_ext_nth
    · simp
    · intro i _
      rw [nth_cons_modulate, nth_modulate]

/-- **correlogram shift covariance** (any lag window, lag, normalisation): bin `k` of the correlogram of
the modulated data is bin `k - m (mod NFFT)` of the correlogram of the data. -/
theorem correlogram_shift {ω : K} {nfft : ℕ} (hω : ω ^ nfft = 1) (hstar : star ω = ω⁻¹)
    (x y w : List K) (lag : ℕ) (norm : Norm) (rms2 : K) {m : ℕ} (hm : m < nfft) :
    correlogram (twiddles ω nfft) (modulate (ω⁻¹ ^ m) x) (modulate (ω⁻¹ ^ m) y) w lag nfft norm rms2
      = cshift (correlogram (twiddles ω nfft) x y w lag nfft norm rms2) m :=
  eq_cshift_of_entries (correlogram_length _ _ _ _ _ _ _ _) (correlogram_length _ _ _ _ _ _ _ _) hm
    (fun _ hk => nth_correlogram_modulate (by omega) hω hstar x y w lag norm rms2 hk (by omega))

/-- **multitaper shift covariance** (`unity` / `eigen` weighting: one data-independent weight per taper):
with `SkAbs2` the table of `|eigenspectrum|²` of the tapers, the taper mean of the modulated data is the
mean of the data rotated by `m` bins. -/
theorem multitaper_shift {ω : K} {nfft : ℕ} (hω : ω ^ nfft = 1) (method : MtMethod)
    (hmeth : method ≠ .adapt) (x : List K) (tapers W : List (List K)) (nwin : ℕ) {m : ℕ}
    (hm : m < nfft) :
    mtMean method (mtSkAbs2 (twiddles ω nfft) (modulate (ω⁻¹ ^ m) x) tapers nfft) W nfft nwin
      = cshift (mtMean method (mtSkAbs2 (twiddles ω nfft) x tapers nfft) W nfft nwin) m := by
  have hn : 0 < nfft := by omega
  refine eq_cshift_of_entries (by simp [mtMean]) (by simp [mtMean]) hm (fun k hk => ?_)
  exact mtMean_rot method hmeth _ _ W nfft nwin hk (Nat.mod_lt _ hn)
    (fun t _ => mtSkAbs2_modulate hn hω x tapers t hk (by omega))

/-! ### 4b. the adaptive multitaper weighting: the whole iteration -/

/-- **adaptive multitaper shift covariance, the whole loop** (the `.adapt` case excluded from
`multitaper_shift`): if the data `x'` has the length and the energy `Σ_j|x'_j|²` of `x` (what a unimodular
modulation does) and every row of the table `SkA'` of squared eigenspectra is the row of `SkA` rotated by
`m` bins (`SkA'[t][k] = SkA[t][(k - m) mod NFFT]`), then `pmtm(method='adapt')` — start estimate, data
power, tolerance, and all (at least one, at most 100) passes of the `while` loop with its stopping test — returns the
weights table of `x` with its `NFFT` rows rotated by `m` (`numpy.roll(W, m, axis=0)`), and the adaptive
multitaper mean is the mean of `x` rotated by `m` bins (`numpy.roll(·, m)`). -/
theorem multitaper_shift_adapt [ReOrd K] {nfft m : ℕ} (hm : m < nfft) (x' x lams : List K)
    (SkA' SkA : List (List K)) (tolc : K) (hlen : x'.length = x.length)
    (hpow : ∑ j ∈ range x'.length, nth x' j * star (nth x' j)
      = ∑ j ∈ range x.length, nth x j * star (nth x j))
    (hSk : ∀ t k, k < nfft → nth (SkA'.getD t []) k = nth (SkA.getD t []) ((k + nfft - m) % nfft)) :
    pmtmWeights .adapt x' lams SkA' nfft tolc
        = vec nfft (fun k =>
            (pmtmWeights .adapt x lams SkA nfft tolc).getD ((k + nfft - m) % nfft) []) ∧
    mtMean .adapt SkA' (pmtmWeights .adapt x' lams SkA' nfft tolc) nfft lams.length
      = cshift (mtMean .adapt SkA (pmtmWeights .adapt x lams SkA nfft tolc) nfft lams.length) m := by
  have hsig : adaptSig2 x' = adaptSig2 x := by
    unfold adaptSig2
    rw [hpow, hlen]
  refine ⟨pmtmWeights_adapt_rot hm.le x' x lams SkA' SkA tolc hsig hSk, ?_⟩
  exact mtMean_adapt_rot hm SkA' SkA _ _ lams.length hSk
    (fun k hk => pmtmWeights_adapt_rot_row hm.le x' x lams SkA' SkA tolc hsig hSk hk)

/-- **adaptive multitaper shift covariance, end to end**: for the data modulated by `e^{2πi m n/NFFT}`
(`modulate (ω⁻¹ ^ m) x`), with the squared eigenspectra computed by the model from the data and the tapers
(`mtSkAbs2`, as in `multitaper_shift`), the adaptive weights returned by `pmtm(method='adapt')` are those
of the data with the rows rotated by `m`, and the adaptive multitaper mean is rotated by `m` bins. -/
theorem multitaper_shift_adapt_mod [ReOrd K] {ω : K} {nfft : ℕ} (hω : ω ^ nfft = 1)
    (hstar : star ω = ω⁻¹) (x lams : List K) (tapers : List (List K)) (tolc : K) {m : ℕ}
    (hm : m < nfft) :
    pmtmWeights .adapt (modulate (ω⁻¹ ^ m) x) lams
        (mtSkAbs2 (twiddles ω nfft) (modulate (ω⁻¹ ^ m) x) tapers nfft) nfft tolc
      = vec nfft (fun k =>
          (pmtmWeights .adapt x lams (mtSkAbs2 (twiddles ω nfft) x tapers nfft) nfft tolc).getD
            ((k + nfft - m) % nfft) []) ∧
    mtMean .adapt (mtSkAbs2 (twiddles ω nfft) (modulate (ω⁻¹ ^ m) x) tapers nfft)
        (pmtmWeights .adapt (modulate (ω⁻¹ ^ m) x) lams
          (mtSkAbs2 (twiddles ω nfft) (modulate (ω⁻¹ ^ m) x) tapers nfft) nfft tolc) nfft lams.length
      = cshift (mtMean .adapt (mtSkAbs2 (twiddles ω nfft) x tapers nfft)
          (pmtmWeights .adapt x lams (mtSkAbs2 (twiddles ω nfft) x tapers nfft) nfft tolc)
          nfft lams.length) m := by
  have hn : 0 < nfft := by omega
  have hμ := unimod_inv_pow (ne_zero_of_pow_eq_one hn hω) hstar m
  exact multitaper_shift_adapt hm _ x lams _ _ tolc (modulate_length _ x) (energy_modulate hμ x)
    (fun t k hk => mtSkAbs2_modulate hn hω x tapers t hk hm.le)

/-- non-vacuity (`K = ℚ`, trivial involution, tests `≤`, `>` on `ℚ`; `ω = -1`, `NFFT = 2`, `m = 1`): the
hypotheses of `multitaper_shift_adapt_mod` hold, and for the data `[3, 2]` (modulated: `[3, -2]`), tapers
`[1, 2]`, `[2, 1]`, eigenvalues `[1/2, 1/4]`, `tolc = 4` the loop makes exactly one pass and the two rows of
the (non-trivial, frequency-dependent) weights table are swapped. -/
example :
    letI : ReOrd ℚ := ⟨fun a => a ≤ 0, fun a b => a > b⟩
    ((-1 : ℚ) ^ 2 = 1 ∧ star (-1 : ℚ) = (-1 : ℚ)⁻¹ ∧ 1 < 2) ∧
    modulate ((-1 : ℚ)⁻¹ ^ 1) [3, 2] = [3, -2] ∧
    pmtmWeights .adapt ([3, 2] : List ℚ) [1 / 2, 1 / 4]
        (mtSkAbs2 (twiddles (-1 : ℚ) 2) [3, 2] [[1, 2], [2, 1]] 2) 2 4
      = [[12769 / 7938, 12769 / 5776], [289 / 450, 289 / 784]] ∧
    pmtmWeights .adapt ([3, -2] : List ℚ) [1 / 2, 1 / 4]
        (mtSkAbs2 (twiddles (-1 : ℚ) 2) [3, -2] [[1, 2], [2, 1]] 2) 2 4
      = [[289 / 450, 289 / 784], [12769 / 7938, 12769 / 5776]] := by
  refine ⟨⟨by norm_num, by norm_num, by norm_num⟩, by decide +kernel, by decide +kernel,
    by decide +kernel⟩

/-! ### 5. conjugated coefficients mirror the model spectrum; real models are symmetric -/

/-- `A(ω^k)` of the conjugated coefficients is the conjugate of `A(ω^{-k})` -/
theorem polyAt_conj {ω : K} {nfft : ℕ} (hω : ω ^ nfft = 1) (hstar : star ω = ω⁻¹) (A : List K)
    {k : ℕ} (hk : k < nfft) :
    polyAt ω (A.map star) k = star (polyAt ω A ((nfft - k) % nfft)) :=
  polyAt_map_star hω hstar A (by omega)

/-- **model-spectrum mirror**: conjugating the AR and MA coefficients swaps entries `k` and
`-k (mod NFFT)` of `arma2psd`. -/
theorem arma2psd_conj {ω : K} {nfft : ℕ} (hω : ω ^ nfft = 1) (hstar : star ω = ω⁻¹)
    (A B : Option (List K)) (rho T : K) {k : ℕ} (hk : k < nfft) :
    nth (arma2psd (twiddles ω nfft) (A.map (List.map star)) (B.map (List.map star)) rho T nfft) k
      = nth (arma2psd (twiddles ω nfft) A B rho T nfft) ((nfft - k) % nfft) :=
  arma2psd_map_star (by omega) hω hstar A B rho T hk

/-- **the two-sided spectrum of a real model is symmetric**: self-adjoint ("real") coefficients give
`psd[-k mod NFFT] = psd[k]` (`rho`, `T` arbitrary: they are a common factor). -/
theorem arma2psd_real_symmetric {ω : K} {nfft : ℕ} (hω : ω ^ nfft = 1) (hstar : star ω = ω⁻¹)
    (A B : List K) (hA : ∀ j, j < A.length → star (nth A j) = nth A j)
    (hB : ∀ j, j < B.length → star (nth B j) = nth B j) (rho T : K) {k : ℕ} (hk : k < nfft) :
    nth (arma2psd (twiddles ω nfft) (some A) (some B) rho T nfft) ((nfft - k) % nfft)
      = nth (arma2psd (twiddles ω nfft) (some A) (some B) rho T nfft) k := by
  have h := arma2psd_conj hω hstar (some A) (some B) rho T hk
  rw [Option.map_some, Option.map_some, map_star_eq_self A hA, map_star_eq_self B hB] at h
  exact h.symm

/-- pure AR real model (`B = None`) -/
theorem arma2psd_real_symmetric_ar {ω : K} {nfft : ℕ} (hω : ω ^ nfft = 1) (hstar : star ω = ω⁻¹)
    (A : List K) (hA : ∀ j, j < A.length → star (nth A j) = nth A j) (rho T : K) {k : ℕ}
    (hk : k < nfft) :
    nth (arma2psd (twiddles ω nfft) (some A) none rho T nfft) ((nfft - k) % nfft)
      = nth (arma2psd (twiddles ω nfft) (some A) none rho T nfft) k := by
  have h := arma2psd_conj hω hstar (some A) none rho T hk
  rw [Option.map_some, Option.map_none, map_star_eq_self A hA] at h
  exact h.symm

/-! ### 6. real data: the one-sided estimate is twice the first half of the two-sided one -/

omit [StarRing K] in
/-- **real fold**: the class glue of the AR/MA/ARMA, minimum-variance and multitaper classes applied to
the same raw two-sided estimate `raw` (the functional estimators `aryule`, `burgRun`, `arcovar`,
`minvar`, `pmtm` have no dtype argument, so the raw estimate of the samples declared complex is the
same list) — real data keeps `NFFT/2+1` (even) or `(NFFT+1)/2` (odd) values, complex data all `NFFT`,
and every kept value is twice the two-sided value of the same bin, with or without `scale_by_freq`. -/
theorem real_onesided_eq_twice_half (raw : List K) {nfft : ℕ} (hn : 0 < nfft)
    (hraw : raw.length = nfft) (s : Bool) (twoPi fs : K) :
    (classPsd raw true nfft s twoPi fs).length = (if nfft % 2 = 0 then nfft / 2 + 1 else (nfft + 1) / 2)
      ∧ (classPsd raw false nfft s twoPi fs).length = nfft
      ∧ ∀ k, k < (if nfft % 2 = 0 then nfft / 2 + 1 else (nfft + 1) / 2) →
          k < nfft ∧ nth (classPsd raw true nfft s twoPi fs) k
            = 2 * nth (classPsd raw false nfft s twoPi fs) k := by
  refine ⟨by rw [C08.classPsd_length]; rfl, by rw [C08.classPsd_length]; exact hraw, ?_⟩
  intro k hk
  obtain ⟨h1, h2⟩ := C08.fold_real_entry raw hn hraw k hk
  refine ⟨by omega, ?_⟩
  cases s
  · rw [classPsd_false, classPsd_false]
    exact h2
  · rw [classPsd_true, classPsd_true, nth_map_mul_right, nth_map_mul_right]
    simp only [if_true, Bool.false_eq_true, if_false]
    rw [h2]; ring

/-- the AR/MA/ARMA classes: `raw = arma2psd(…)` -/
theorem arma_real_onesided_eq_twice_half (tw : List K) (A B : Option (List K)) (rho T : K) {nfft : ℕ}
    (hn : 0 < nfft) (s : Bool) (twoPi fs : K) {k : ℕ}
    (hk : k < (if nfft % 2 = 0 then nfft / 2 + 1 else (nfft + 1) / 2)) :
    nth (classPsd (arma2psd tw A B rho T nfft) true nfft s twoPi fs) k
      = 2 * nth (classPsd (arma2psd tw A B rho T nfft) false nfft s twoPi fs) k :=
  ((real_onesided_eq_twice_half _ hn (arma2psd_length tw A B rho T nfft) s twoPi fs).2.2 k hk).2

/-! ### 7. conjugated time reversal: autocorrelation-based estimators are invariant -/

/-- the autocorrelation sums of `y_n = conj x_{N-1-n}` are those of `x` -/
theorem corr_timerev (x : List K) (k : ℕ) :
    corrRaw (trconj x) (trconj x) x.length k = corrRaw x x x.length k :=
  corrRaw_trconj x k

/-- `CORRELATION(y, y)` = `CORRELATION(x, x)` for every normalisation -/
theorem correlation_timerev (x : List K) (L : ℕ) (norm : Norm) (rms2 : K) :
    correlation (trconj x) (trconj x) L norm rms2 = correlation x x L norm rms2 :=
  correlation_trconj x L norm rms2

/-- **Yule–Walker time-reversal invariance**: same coefficients, error and reflection coefficients
(hence the same `pyule` spectrum). -/
theorem aryule_timerev (x : List K) (p : ℕ) (norm : Norm) :
    aryule (trconj x) p norm = aryule x p norm :=
  aryule_trconj x p norm

/-- **correlogram time-reversal invariance** (any lag window, any `NFFT`) -/
theorem correlogram_timerev (tw : List K) (x w : List K) (lag nfft : ℕ) (norm : Norm) (rms2 : K) :
    correlogram tw (trconj x) (trconj x) w lag nfft norm rms2
      = correlogram tw x x w lag nfft norm rms2 := by
  unfold correlogram
  rw [correlation_trconj]

/-- **Burg time-reversal invariance**: for `y_n = conj x_{N-1-n}` and any order `k ≤ N` Burg's recursion
returns the same AR coefficients, error power and reflection coefficients (the forward errors of `y` are
the conjugated reversed backward errors of `x` and vice versa, so numerator and denominator of every
reflection coefficient are unchanged). -/
theorem burg_timerev (x : List K) (k : ℕ) (hk : k ≤ x.length) :
    (burgRun (trconj x) k).a = (burgRun x k).a
      ∧ (burgRun (trconj x) k).rho = (burgRun x k).rho
      ∧ (burgRun (trconj x) k).ref = (burgRun x k).ref := by
  obtain ⟨h1, h2, h3, _⟩ := burgRun_rev x k hk
  exact ⟨h1, h2, h3⟩

/-- the error arrays behind `burg_timerev`: on the live range `k ≤ j < N` the forward (backward) errors
of the reversed data are the conjugated backward (forward) errors of the data at the mirrored index -/
theorem burg_timerev_errors (x : List K) (k : ℕ) (hk : k ≤ x.length) (j : ℕ) (hkj : k ≤ j)
    (hj : j < x.length) :
    nth (burgRun (trconj x) k).ef j = star (nth (burgRun x k).eb (x.length - 1 - j + k))
      ∧ nth (burgRun (trconj x) k).eb j = star (nth (burgRun x k).ef (x.length - 1 - j + k)) := by
  obtain ⟨_, _, _, _, _, h⟩ := burgRun_rev x k hk
  exact h j hkj hj

/-- **minimum-variance time-reversal invariance**: `minvar` (Burg model of order `m-1 ≤ N`, then Musicus'
sequence) returns the same PSD, AR vector and reflection coefficients. -/
theorem minvar_timerev (tw x : List K) (m : ℕ) (fs : K) (nfft : ℕ) (hm : m - 1 ≤ x.length) :
    (minvar tw (trconj x) m fs nfft).psd = (minvar tw x m fs nfft).psd
      ∧ (minvar tw (trconj x) m fs nfft).ar = (minvar tw x m fs nfft).ar
      ∧ (minvar tw (trconj x) m fs nfft).ref = (minvar tw x m fs nfft).ref := by
  obtain ⟨h1, h2, h3⟩ := burg_timerev x (m - 1) hm
  simp only [minvar, h1, h2, h3, and_self]

/-- **modified-covariance time-reversal invariance**: the data matrix of `y_n = conj x_{N-1-n}` is the
data matrix of `x` with its rows in reverse order (forward and backward prediction rows swap), so the
normal equations handed to the solver, hence the coefficients, and the error `e` are the same
(`lstsq` instance of the model: the normal equations; `p ≤ N`). -/
theorem modcovar_timerev [IsZero K] (x : List K) (p : ℕ) (hp : p ≤ x.length) :
    modcovar (trconj x) p = modcovar x p ∧ modcovarMarple (trconj x) p = modcovarMarple x p := by
  have h := modcovar_trconj x p hp
  refine ⟨h, ?_⟩
  unfold modcovarMarple
  rw [h, trconj_length]

/-- **multitaper time-reversal invariance** (real symmetric tapers, `N ≤ NFFT`, all three weighting
schemes): the `|eigenspectrum|²` table, the weights computed from it and the taper mean are unchanged. -/
theorem multitaper_timerev [ReOrd K] {ω : K} {nfft : ℕ} (hn : 0 < nfft) (hω : ω ^ nfft = 1)
    (hstar : star ω = ω⁻¹) (method : MtMethod) (x lams : List K) (hN : x.length ≤ nfft)
    (tapers : List (List K)) (tolc : K)
    (hw : ∀ tp ∈ tapers, ∀ j, j < x.length → star (nth tp j) = nth tp j)
    (hsym : ∀ tp ∈ tapers, ∀ j, j < x.length → nth tp (x.length - 1 - j) = nth tp j) :
    mtMean method (mtSkAbs2 (twiddles ω nfft) (trconj x) tapers nfft)
        (pmtmWeights method (trconj x) lams (mtSkAbs2 (twiddles ω nfft) (trconj x) tapers nfft) nfft tolc)
        nfft lams.length
      = mtMean method (mtSkAbs2 (twiddles ω nfft) x tapers nfft)
        (pmtmWeights method x lams (mtSkAbs2 (twiddles ω nfft) x tapers nfft) nfft tolc)
        nfft lams.length := by
  rw [mtSkAbs2_trconj hn hω hstar x hN tapers hw hsym, pmtmWeights_trconj]

/-! ### 8. covariance and modified covariance methods (least squares, relative to the solver contract)

`arcovar` / `modcovar` hand the 'covariance' / 'modified' data matrix to `lstsq`, a parameter of the model
with contract "returns a minimiser" (C14).  As in `C03.arcovar_scale` the statements are therefore about
ANY coefficient vector satisfying the normal equations (`NormalEq`), then — under the solver contract for
both calls and uniqueness of the solution for the data (`GramInj`: the Gram matrix `X_cᴴX_c` is nonsingular;
over `ℝ`/`ℂ` implied by full column rank `ColInj`) — about the returned values. -/

/-- the two uniqueness conditions unfolded: `GramInj` — the Gram matrix `X_cᴴX_c` of the `r × p` regressor
block has a trivial kernel; `ColInj` — the block has full column rank -/
theorem ls_rank_defs (Xc : ℕ → ℕ → K) (r p : ℕ) :
    (GramInj Xc r p ↔ ∀ d : ℕ → K,
      (∀ b, b < p → ∑ i ∈ range r, star (Xc i b) * ∑ j ∈ range p, Xc i j * d j = 0) →
        ∀ j, j < p → d j = 0) ∧
    (ColInj Xc r p ↔ ∀ d : ℕ → K,
      (∀ i, i < r → ∑ j ∈ range p, Xc i j * d j = 0) → ∀ j, j < p → d j = 0) :=
  ⟨Iff.rfl, Iff.rfl⟩

/-- **uniqueness**: with a nonsingular Gram matrix the normal equations of `[X_1 | X_c]` have at most one
solution (on the `p` coefficients that enter them) -/
theorem ls_unique (X1 : ℕ → K) (Xc : ℕ → ℕ → K) (r p : ℕ) (a a' : ℕ → K) (hG : GramInj Xc r p)
    (h : NormalEq X1 Xc r p a) (h' : NormalEq X1 Xc r p a') : ∀ j, j < p → a' j = a j :=
  normalEq_unique hG h h'

/-- over `ℝ`/`ℂ` (any `RCLike`) full column rank of the regressor block makes the Gram matrix nonsingular -/
theorem ls_gramInj_of_fullColRank {𝕜 : Type} [RCLike 𝕜] (Xc : ℕ → ℕ → 𝕜) (r p : ℕ)
    (hC : ColInj Xc r p) : GramInj Xc r p :=
  gramInj_of_colInj hC

/-- **covariance method on modulated data** (`|μ| = 1`): the twisted vector `a_j ↦ μ^{j+1} a_j` (the
convention of `aryule_mod`, `burg_mod`: `twist`) satisfies the normal equations of the 'covariance' data
matrix of `x_n·μ^n` iff `a` satisfies those of `x`, and the forward prediction-error energy (the returned
`e`, see `C14.arcovar_error`) is the same. -/
theorem arcovar_mod {μ : K} (hμ : μ * star μ = 1) (x : List K) (p : ℕ) (a : ℕ → K) :
    (NormalEq (col0 (corrmtx (modulate μ x) p .covariance))
        (colR (corrmtx (modulate μ x) p .covariance)) ((modulate μ x).length - p) p
        (fun j => μ ^ (j + 1) * a j)
      ↔ NormalEq (col0 (corrmtx x p .covariance)) (colR (corrmtx x p .covariance))
          (x.length - p) p a) ∧
    fwdEnergy (modulate μ x) p (fun j => μ ^ (j + 1) * a j) = fwdEnergy x p a :=
  ⟨covariance_normalEq_modulate hμ x p a, fwdEnergy_modulate hμ x p a⟩

/-- the prediction errors behind `arcovar_mod` / `modcovar_mod`: at the twisted coefficients the forward
error of the modulated data at `t ≥ p` is `μ^t` times the forward error of the data, the backward error of
the window starting at `s` is `μ^s` times the backward error of the data -/
theorem prediction_errors_mod {μ : K} (hμ : μ * star μ = 1) (x : List K) (p : ℕ) (a : ℕ → K) :
    (∀ t, p ≤ t →
      fwdErr (modulate μ x) p (fun j => μ ^ (j + 1) * a j) t = μ ^ t * fwdErr x p a t) ∧
    (∀ s, bwdErr (modulate μ x) p (fun j => μ ^ (j + 1) * a j) s = μ ^ s * bwdErr x p a s) :=
  ⟨fun _ ht => fwdErr_modulate μ x p a ht, fun s => bwdErr_modulate hμ x p a s⟩

/-- **modified covariance method on modulated data**: the same for the forward + backward problem
('modified' data matrix, `2(N-p)` rows); the sum of the forward and backward energies is the same. -/
theorem modcovar_mod {μ : K} (hμ : μ * star μ = 1) (x : List K) (p : ℕ) (a : ℕ → K) :
    (NormalEq (col0 (corrmtx (modulate μ x) p .modified))
        (colR (corrmtx (modulate μ x) p .modified)) (2 * ((modulate μ x).length - p)) p
        (fun j => μ ^ (j + 1) * a j)
      ↔ NormalEq (col0 (corrmtx x p .modified)) (colR (corrmtx x p .modified))
          (2 * (x.length - p)) p a) ∧
    fwdEnergy (modulate μ x) p (fun j => μ ^ (j + 1) * a j)
        + bwdEnergy (modulate μ x) p (fun j => μ ^ (j + 1) * a j)
      = fwdEnergy x p a + bwdEnergy x p a :=
  ⟨modified_normalEq_modulate hμ x p a, by rw [fwdEnergy_modulate hμ, bwdEnergy_modulate hμ]⟩

/-- **`arcovar` on modulated data**: if `arcovar` returns `(a, e)` on `x` and `(a', e')` on `x_n·μ^n`,
both coefficient vectors satisfy the normal equations of their data matrix (contract of the least-squares
solver, as in `C14.arcovar_error`) and the normal equations of `x` have a unique solution, then
`a' = twist μ a` (`a'_j = μ^{j+1} a_j`) and `e' = e`. -/
theorem arcovar_mod_unique [IsZero K] {μ : K} (hμ : μ * star μ = 1) (x : List K) (p : ℕ)
    (a a' : List K) (e e' : K)
    (h : arcovar x p = some (a, e)) (h' : arcovar (modulate μ x) p = some (a', e'))
    (hne : NormalEq (col0 (corrmtx x p .covariance)) (colR (corrmtx x p .covariance))
      (x.length - p) p (nth a))
    (hne' : NormalEq (col0 (corrmtx (modulate μ x) p .covariance))
      (colR (corrmtx (modulate μ x) p .covariance)) ((modulate μ x).length - p) p (nth a'))
    (hG : GramInj (colR (corrmtx x p .covariance)) (x.length - p) p) :
    a' = twist μ a ∧ e' = e := by
  obtain ⟨hag, hA⟩ := twist_of_unique hμ (ArmaEstL.arcovar_length x p a e h)
    (ArmaEstL.arcovar_length _ p a' e' h')
    (P := fun f => NormalEq (col0 (corrmtx x p .covariance)) (colR (corrmtx x p .covariance))
      (x.length - p) p f)
    (P' := fun f => NormalEq (col0 (corrmtx (modulate μ x) p .covariance))
      (colR (corrmtx (modulate μ x) p .covariance)) ((modulate μ x).length - p) p f)
    (fun f => covariance_normalEq_modulate hμ x p f) (fun f hf => normalEq_unique hG hne hf) hne'
  refine ⟨hA, ?_⟩
  rw [(C14.arcovar_error _ p a' e' h' hne').1, (C14.arcovar_error x p a e h hne).1,
    ← twist_untwist hμ (nth a'), fwdEnergy_modulate hμ]
  exact fwdEnergy_congr x p hag

/-- **`modcovar` on modulated data**: the same for the modified covariance method. -/
theorem modcovar_mod_unique [IsZero K] {μ : K} (hμ : μ * star μ = 1) (x : List K) (p : ℕ)
    (a a' : List K) (e e' : K)
    (h : modcovar x p = some (a, e)) (h' : modcovar (modulate μ x) p = some (a', e'))
    (hne : NormalEq (col0 (corrmtx x p .modified)) (colR (corrmtx x p .modified))
      (2 * (x.length - p)) p (nth a))
    (hne' : NormalEq (col0 (corrmtx (modulate μ x) p .modified))
      (colR (corrmtx (modulate μ x) p .modified)) (2 * ((modulate μ x).length - p)) p (nth a'))
    (hG : GramInj (colR (corrmtx x p .modified)) (2 * (x.length - p)) p) :
    a' = twist μ a ∧ e' = e := by
  obtain ⟨hag, hA⟩ := twist_of_unique hμ (ArmaEstL.lsFit_length _ _ p a e h)
    (ArmaEstL.lsFit_length _ _ p a' e' h')
    (P := fun f => NormalEq (col0 (corrmtx x p .modified)) (colR (corrmtx x p .modified))
      (2 * (x.length - p)) p f)
    (P' := fun f => NormalEq (col0 (corrmtx (modulate μ x) p .modified))
      (colR (corrmtx (modulate μ x) p .modified)) (2 * ((modulate μ x).length - p)) p f)
    (fun f => modified_normalEq_modulate hμ x p f) (fun f hf => normalEq_unique hG hne hf) hne'
  refine ⟨hA, ?_⟩
  rw [(C14.modcovar_error _ p a' e' h' hne').1, (C14.modcovar_error x p a e h hne).1,
    ← twist_untwist hμ (nth a'), fwdEnergy_modulate hμ, bwdEnergy_modulate hμ,
    fwdEnergy_congr x p hag, bwdEnergy_congr x p hag]

/-- Marple's normalisation (`arcovar_marple`, `modcovar_marple`: the error divided by the number `N-p`,
`2(N-p)` of prediction equations — the same number for the modulated data): same conclusions. -/
theorem covarMarple_mod_unique [IsZero K] {μ : K} (hμ : μ * star μ = 1) (x : List K) (p : ℕ)
    (a a' : List K) (e e' : K) :
    (arcovarMarple x p = some (a, e) → arcovarMarple (modulate μ x) p = some (a', e') →
      NormalEq (col0 (corrmtx x p .covariance)) (colR (corrmtx x p .covariance))
        (x.length - p) p (nth a) →
      NormalEq (col0 (corrmtx (modulate μ x) p .covariance))
        (colR (corrmtx (modulate μ x) p .covariance)) ((modulate μ x).length - p) p (nth a') →
      GramInj (colR (corrmtx x p .covariance)) (x.length - p) p → a' = twist μ a ∧ e' = e) ∧
    (modcovarMarple x p = some (a, e) → modcovarMarple (modulate μ x) p = some (a', e') →
      NormalEq (col0 (corrmtx x p .modified)) (colR (corrmtx x p .modified))
        (2 * (x.length - p)) p (nth a) →
      NormalEq (col0 (corrmtx (modulate μ x) p .modified))
        (colR (corrmtx (modulate μ x) p .modified)) (2 * ((modulate μ x).length - p)) p (nth a') →
      GramInj (colR (corrmtx x p .modified)) (2 * (x.length - p)) p → a' = twist μ a ∧ e' = e) := by
  constructor
  · intro h h' hne hne' hG
    obtain ⟨e0, h0, rfl⟩ := (C14.arcovarMarple_iff x p a e).mp h
    obtain ⟨e1, h1, rfl⟩ := (C14.arcovarMarple_iff _ p a' e').mp h'
    obtain ⟨hA, hE⟩ := arcovar_mod_unique hμ x p a a' e0 e1 h0 h1 hne hne' hG
    rw [hA, hE, modulate_length]
    exact ⟨rfl, rfl⟩
  · intro h h' hne hne' hG
    obtain ⟨e0, h0, rfl⟩ := (C14.modcovarMarple_iff x p a e).mp h
    obtain ⟨e1, h1, rfl⟩ := (C14.modcovarMarple_iff _ p a' e').mp h'
    obtain ⟨hA, hE⟩ := modcovar_mod_unique hμ x p a a' e0 e1 h0 h1 hne hne' hG
    rw [hA, hE, modulate_length]
    exact ⟨rfl, rfl⟩

/-- **covariance-method spectrum shift covariance** (`pcovar`): under the hypotheses of
`arcovar_mod_unique` with `μ = ω⁻¹^m`, the two-sided spectrum `arma2psd(A=a', rho=e')` of the modulated
data is the spectrum `arma2psd(A=a, rho=e)` of the data rotated by `m` bins. -/
theorem covar_psd_shift [IsZero K] {ω : K} {nfft : ℕ} (hω : ω ^ nfft = 1) (hstar : star ω = ω⁻¹)
    (x : List K) (p : ℕ) (T : K) {m : ℕ} (hm : m < nfft) (a a' : List K) (e e' : K)
    (h : arcovar x p = some (a, e)) (h' : arcovar (modulate (ω⁻¹ ^ m) x) p = some (a', e'))
    (hne : NormalEq (col0 (corrmtx x p .covariance)) (colR (corrmtx x p .covariance))
      (x.length - p) p (nth a))
    (hne' : NormalEq (col0 (corrmtx (modulate (ω⁻¹ ^ m) x) p .covariance))
      (colR (corrmtx (modulate (ω⁻¹ ^ m) x) p .covariance))
      ((modulate (ω⁻¹ ^ m) x).length - p) p (nth a'))
    (hG : GramInj (colR (corrmtx x p .covariance)) (x.length - p) p) :
    arma2psd (twiddles ω nfft) (some a') none e' T nfft
      = cshift (arma2psd (twiddles ω nfft) (some a) none e T nfft) m := by
  have hn : 0 < nfft := by omega
  have hμ := unimod_inv_pow (ne_zero_of_pow_eq_one hn hω) hstar m
  obtain ⟨hA, hE⟩ := arcovar_mod_unique hμ x p a a' e e' h h' hne hne' hG
  rw [hA, hE]
  exact arma2psd_mod_roll hω (some _) none _ T hm

/-- **modified-covariance spectrum shift covariance** (`pmodcovar`) -/
theorem modcovar_psd_shift [IsZero K] {ω : K} {nfft : ℕ} (hω : ω ^ nfft = 1) (hstar : star ω = ω⁻¹)
    (x : List K) (p : ℕ) (T : K) {m : ℕ} (hm : m < nfft) (a a' : List K) (e e' : K)
    (h : modcovar x p = some (a, e)) (h' : modcovar (modulate (ω⁻¹ ^ m) x) p = some (a', e'))
    (hne : NormalEq (col0 (corrmtx x p .modified)) (colR (corrmtx x p .modified))
      (2 * (x.length - p)) p (nth a))
    (hne' : NormalEq (col0 (corrmtx (modulate (ω⁻¹ ^ m) x) p .modified))
      (colR (corrmtx (modulate (ω⁻¹ ^ m) x) p .modified))
      (2 * ((modulate (ω⁻¹ ^ m) x).length - p)) p (nth a'))
    (hG : GramInj (colR (corrmtx x p .modified)) (2 * (x.length - p)) p) :
    arma2psd (twiddles ω nfft) (some a') none e' T nfft
      = cshift (arma2psd (twiddles ω nfft) (some a) none e T nfft) m := by
  have hn : 0 < nfft := by omega
  have hμ := unimod_inv_pow (ne_zero_of_pow_eq_one hn hω) hstar m
  obtain ⟨hA, hE⟩ := modcovar_mod_unique hμ x p a a' e e' h h' hne hne' hG
  rw [hA, hE]
  exact arma2psd_mod_roll hω (some _) none _ T hm

/-- **covariance method on conjugated data** (mirror clause): `conj ∘ a` satisfies the normal equations of
the 'covariance' data matrix of `conj x` iff `a` satisfies those of `x`; same forward energy. -/
theorem arcovar_conj (x : List K) (p : ℕ) (a : ℕ → K) :
    (NormalEq (col0 (corrmtx (x.map star) p .covariance))
        (colR (corrmtx (x.map star) p .covariance)) ((x.map star).length - p) p
        (fun j => star (a j))
      ↔ NormalEq (col0 (corrmtx x p .covariance)) (colR (corrmtx x p .covariance))
          (x.length - p) p a) ∧
    fwdEnergy (x.map star) p (fun j => star (a j)) = fwdEnergy x p a :=
  ⟨covariance_normalEq_map_star x p a, fwdEnergy_map_star x p a⟩

/-- **modified covariance method on conjugated data** -/
theorem modcovar_conj (x : List K) (p : ℕ) (a : ℕ → K) :
    (NormalEq (col0 (corrmtx (x.map star) p .modified))
        (colR (corrmtx (x.map star) p .modified)) (2 * ((x.map star).length - p)) p
        (fun j => star (a j))
      ↔ NormalEq (col0 (corrmtx x p .modified)) (colR (corrmtx x p .modified))
          (2 * (x.length - p)) p a) ∧
    fwdEnergy (x.map star) p (fun j => star (a j)) + bwdEnergy (x.map star) p (fun j => star (a j))
      = fwdEnergy x p a + bwdEnergy x p a :=
  ⟨modified_normalEq_map_star x p a, by rw [fwdEnergy_map_star, bwdEnergy_map_star]⟩

/-- **`arcovar` on conjugated data**: under the solver contract for both calls and uniqueness for `x`,
the coefficients are conjugated and the error is the same. -/
theorem arcovar_conj_unique [IsZero K] (x : List K) (p : ℕ) (a a' : List K) (e e' : K)
    (h : arcovar x p = some (a, e)) (h' : arcovar (x.map star) p = some (a', e'))
    (hne : NormalEq (col0 (corrmtx x p .covariance)) (colR (corrmtx x p .covariance))
      (x.length - p) p (nth a))
    (hne' : NormalEq (col0 (corrmtx (x.map star) p .covariance))
      (colR (corrmtx (x.map star) p .covariance)) ((x.map star).length - p) p (nth a'))
    (hG : GramInj (colR (corrmtx x p .covariance)) (x.length - p) p) :
    a' = a.map star ∧ e' = e := by
  obtain ⟨hag, hA⟩ := map_star_of_unique (ArmaEstL.arcovar_length x p a e h)
    (ArmaEstL.arcovar_length _ p a' e' h')
    (P := fun f => NormalEq (col0 (corrmtx x p .covariance)) (colR (corrmtx x p .covariance))
      (x.length - p) p f)
    (P' := fun f => NormalEq (col0 (corrmtx (x.map star) p .covariance))
      (colR (corrmtx (x.map star) p .covariance)) ((x.map star).length - p) p f)
    (fun f => covariance_normalEq_map_star x p f) (fun f hf => normalEq_unique hG hne hf) hne'
  refine ⟨hA, ?_⟩
  rw [(C14.arcovar_error _ p a' e' h' hne').1, (C14.arcovar_error x p a e h hne).1,
    ← star_star_fun (nth a'), fwdEnergy_map_star]
  exact fwdEnergy_congr x p hag

/-- **`modcovar` on conjugated data** -/
theorem modcovar_conj_unique [IsZero K] (x : List K) (p : ℕ) (a a' : List K) (e e' : K)
    (h : modcovar x p = some (a, e)) (h' : modcovar (x.map star) p = some (a', e'))
    (hne : NormalEq (col0 (corrmtx x p .modified)) (colR (corrmtx x p .modified))
      (2 * (x.length - p)) p (nth a))
    (hne' : NormalEq (col0 (corrmtx (x.map star) p .modified))
      (colR (corrmtx (x.map star) p .modified)) (2 * ((x.map star).length - p)) p (nth a'))
    (hG : GramInj (colR (corrmtx x p .modified)) (2 * (x.length - p)) p) :
    a' = a.map star ∧ e' = e := by
  obtain ⟨hag, hA⟩ := map_star_of_unique (ArmaEstL.lsFit_length _ _ p a e h)
    (ArmaEstL.lsFit_length _ _ p a' e' h')
    (P := fun f => NormalEq (col0 (corrmtx x p .modified)) (colR (corrmtx x p .modified))
      (2 * (x.length - p)) p f)
    (P' := fun f => NormalEq (col0 (corrmtx (x.map star) p .modified))
      (colR (corrmtx (x.map star) p .modified)) (2 * ((x.map star).length - p)) p f)
    (fun f => modified_normalEq_map_star x p f) (fun f hf => normalEq_unique hG hne hf) hne'
  refine ⟨hA, ?_⟩
  rw [(C14.modcovar_error _ p a' e' h' hne').1, (C14.modcovar_error x p a e h hne).1,
    ← star_star_fun (nth a'), fwdEnergy_map_star, bwdEnergy_map_star,
    fwdEnergy_congr x p hag, bwdEnergy_congr x p hag]

/-- **covariance-method spectrum mirror**: the spectrum of the conjugated data is the spectrum of the data
with bins `k` and `-k (mod NFFT)` swapped. -/
theorem covar_psd_mirror [IsZero K] {ω : K} {nfft : ℕ} (hω : ω ^ nfft = 1) (hstar : star ω = ω⁻¹)
    (x : List K) (p : ℕ) (T : K) (a a' : List K) (e e' : K)
    (h : arcovar x p = some (a, e)) (h' : arcovar (x.map star) p = some (a', e'))
    (hne : NormalEq (col0 (corrmtx x p .covariance)) (colR (corrmtx x p .covariance))
      (x.length - p) p (nth a))
    (hne' : NormalEq (col0 (corrmtx (x.map star) p .covariance))
      (colR (corrmtx (x.map star) p .covariance)) ((x.map star).length - p) p (nth a'))
    (hG : GramInj (colR (corrmtx x p .covariance)) (x.length - p) p) {k : ℕ} (hk : k < nfft) :
    nth (arma2psd (twiddles ω nfft) (some a') none e' T nfft) k
      = nth (arma2psd (twiddles ω nfft) (some a) none e T nfft) ((nfft - k) % nfft) := by
  obtain ⟨hA, hE⟩ := arcovar_conj_unique x p a a' e e' h h' hne hne' hG
  rw [hA, hE]
  exact arma2psd_conj hω hstar (some a) none e T hk

/-- **modified-covariance spectrum mirror** -/
theorem modcovar_psd_mirror [IsZero K] {ω : K} {nfft : ℕ} (hω : ω ^ nfft = 1)
    (hstar : star ω = ω⁻¹) (x : List K) (p : ℕ) (T : K) (a a' : List K) (e e' : K)
    (h : modcovar x p = some (a, e)) (h' : modcovar (x.map star) p = some (a', e'))
    (hne : NormalEq (col0 (corrmtx x p .modified)) (colR (corrmtx x p .modified))
      (2 * (x.length - p)) p (nth a))
    (hne' : NormalEq (col0 (corrmtx (x.map star) p .modified))
      (colR (corrmtx (x.map star) p .modified)) (2 * ((x.map star).length - p)) p (nth a'))
    (hG : GramInj (colR (corrmtx x p .modified)) (2 * (x.length - p)) p) {k : ℕ} (hk : k < nfft) :
    nth (arma2psd (twiddles ω nfft) (some a') none e' T nfft) k
      = nth (arma2psd (twiddles ω nfft) (some a) none e T nfft) ((nfft - k) % nfft) := by
  obtain ⟨hA, hE⟩ := modcovar_conj_unique x p a a' e e' h h' hne hne' hG
  rw [hA, hE]
  exact arma2psd_conj hω hstar (some a) none e T hk

/-! ### 8b. the same with the model's verified solver: no contract hypotheses

The Gauss–Jordan elimination behind `lstsq` is verified in `Proofs/Lemmas/GaussJordan.lean` (C14, section 6):
for a lawful pivot test (`LawfulIsZero`) whatever `arcovar` / `modcovar` return satisfies the normal
equations (`C14.lsFit_normalEq`), and they return a value only when the Gram matrix is nonsingular
(`C14.covar_succeeds_iff`).  The two `NormalEq` hypotheses AND the `GramInj` hypothesis of the theorems of
section 8 are therefore consequences of the two calls having returned. -/
section CovarSolver
open SpecVerif.GJL
variable [IsZero K] [LawfulIsZero K]

/-- the Gram matrix of the data behind a successful `arcovar` / `modcovar` call is nonsingular -/
theorem covar_gramInj_of_some (x : List K) (p : ℕ) (a : List K) (e : K) :
    (arcovar x p = some (a, e) → GramInj (colR (corrmtx x p .covariance)) (x.length - p) p) ∧
    (modcovar x p = some (a, e) → GramInj (colR (corrmtx x p .modified)) (2 * (x.length - p)) p) :=
  ⟨fun h => (C14.covar_succeeds_iff x p).1.mp ⟨a, e, h⟩,
   fun h => (C14.covar_succeeds_iff x p).2.mp ⟨a, e, h⟩⟩

/-- **`arcovar` on modulated data, unconditional**: if `arcovar` returns `(a, e)` on `x` and `(a', e')` on
`x_n·μ^n` (`|μ| = 1`) then `a' = twist μ a` and `e' = e`. -/
theorem arcovar_mod_unique_solver {μ : K} (hμ : μ * star μ = 1) (x : List K) (p : ℕ)
    (a a' : List K) (e e' : K)
    (h : arcovar x p = some (a, e)) (h' : arcovar (modulate μ x) p = some (a', e')) :
    a' = twist μ a ∧ e' = e :=
  arcovar_mod_unique hμ x p a a' e e' h h' (C14.lsFit_normalEq _ _ p a e h).1
    (C14.lsFit_normalEq _ _ p a' e' h').1 ((covar_gramInj_of_some x p a e).1 h)

/-- **`modcovar` on modulated data, unconditional** -/
theorem modcovar_mod_unique_solver {μ : K} (hμ : μ * star μ = 1) (x : List K) (p : ℕ)
    (a a' : List K) (e e' : K)
    (h : modcovar x p = some (a, e)) (h' : modcovar (modulate μ x) p = some (a', e')) :
    a' = twist μ a ∧ e' = e :=
  modcovar_mod_unique hμ x p a a' e e' h h' (C14.lsFit_normalEq _ _ p a e h).1
    (C14.lsFit_normalEq _ _ p a' e' h').1 ((covar_gramInj_of_some x p a e).2 h)

/-- **Marple's normalisation on modulated data, unconditional** -/
theorem covarMarple_mod_unique_solver {μ : K} (hμ : μ * star μ = 1) (x : List K) (p : ℕ)
    (a a' : List K) (e e' : K) :
    (arcovarMarple x p = some (a, e) → arcovarMarple (modulate μ x) p = some (a', e') →
      a' = twist μ a ∧ e' = e) ∧
    (modcovarMarple x p = some (a, e) → modcovarMarple (modulate μ x) p = some (a', e') →
      a' = twist μ a ∧ e' = e) := by
  constructor
  · intro h h'
    obtain ⟨e0, h0, _⟩ := (C14.arcovarMarple_iff x p a e).mp h
    obtain ⟨e1, h1, _⟩ := (C14.arcovarMarple_iff _ p a' e').mp h'
    exact (covarMarple_mod_unique hμ x p a a' e e').1 h h' (C14.lsFit_normalEq _ _ p a e0 h0).1
      (C14.lsFit_normalEq _ _ p a' e1 h1).1 ((covar_gramInj_of_some x p a e0).1 h0)
  · intro h h'
    obtain ⟨e0, h0, _⟩ := (C14.modcovarMarple_iff x p a e).mp h
    obtain ⟨e1, h1, _⟩ := (C14.modcovarMarple_iff _ p a' e').mp h'
    exact (covarMarple_mod_unique hμ x p a a' e e').2 h h' (C14.lsFit_normalEq _ _ p a e0 h0).1
      (C14.lsFit_normalEq _ _ p a' e1 h1).1 ((covar_gramInj_of_some x p a e0).2 h0)

/-- **covariance-method spectrum shift covariance, unconditional** (`pcovar`): the two-sided spectrum of
the modulated data is the spectrum of the data rotated by `m` bins whenever both fits return. -/
theorem covar_psd_shift_solver {ω : K} {nfft : ℕ} (hω : ω ^ nfft = 1) (hstar : star ω = ω⁻¹)
    (x : List K) (p : ℕ) (T : K) {m : ℕ} (hm : m < nfft) (a a' : List K) (e e' : K)
    (h : arcovar x p = some (a, e)) (h' : arcovar (modulate (ω⁻¹ ^ m) x) p = some (a', e')) :
    arma2psd (twiddles ω nfft) (some a') none e' T nfft
      = cshift (arma2psd (twiddles ω nfft) (some a) none e T nfft) m :=
  covar_psd_shift hω hstar x p T hm a a' e e' h h' (C14.lsFit_normalEq _ _ p a e h).1
    (C14.lsFit_normalEq _ _ p a' e' h').1 ((covar_gramInj_of_some x p a e).1 h)

/-- **modified-covariance spectrum shift covariance, unconditional** (`pmodcovar`) -/
theorem modcovar_psd_shift_solver {ω : K} {nfft : ℕ} (hω : ω ^ nfft = 1) (hstar : star ω = ω⁻¹)
    (x : List K) (p : ℕ) (T : K) {m : ℕ} (hm : m < nfft) (a a' : List K) (e e' : K)
    (h : modcovar x p = some (a, e)) (h' : modcovar (modulate (ω⁻¹ ^ m) x) p = some (a', e')) :
    arma2psd (twiddles ω nfft) (some a') none e' T nfft
      = cshift (arma2psd (twiddles ω nfft) (some a) none e T nfft) m :=
  modcovar_psd_shift hω hstar x p T hm a a' e e' h h' (C14.lsFit_normalEq _ _ p a e h).1
    (C14.lsFit_normalEq _ _ p a' e' h').1 ((covar_gramInj_of_some x p a e).2 h)

/-- **`arcovar` on conjugated data, unconditional**: conjugated coefficients, same error -/
theorem arcovar_conj_unique_solver (x : List K) (p : ℕ) (a a' : List K) (e e' : K)
    (h : arcovar x p = some (a, e)) (h' : arcovar (x.map star) p = some (a', e')) :
    a' = a.map star ∧ e' = e :=
  arcovar_conj_unique x p a a' e e' h h' (C14.lsFit_normalEq _ _ p a e h).1
    (C14.lsFit_normalEq _ _ p a' e' h').1 ((covar_gramInj_of_some x p a e).1 h)

/-- **`modcovar` on conjugated data, unconditional** -/
theorem modcovar_conj_unique_solver (x : List K) (p : ℕ) (a a' : List K) (e e' : K)
    (h : modcovar x p = some (a, e)) (h' : modcovar (x.map star) p = some (a', e')) :
    a' = a.map star ∧ e' = e :=
  modcovar_conj_unique x p a a' e e' h h' (C14.lsFit_normalEq _ _ p a e h).1
    (C14.lsFit_normalEq _ _ p a' e' h').1 ((covar_gramInj_of_some x p a e).2 h)

/-- **covariance-method spectrum mirror, unconditional** -/
theorem covar_psd_mirror_solver {ω : K} {nfft : ℕ} (hω : ω ^ nfft = 1) (hstar : star ω = ω⁻¹)
    (x : List K) (p : ℕ) (T : K) (a a' : List K) (e e' : K)
    (h : arcovar x p = some (a, e)) (h' : arcovar (x.map star) p = some (a', e'))
    {k : ℕ} (hk : k < nfft) :
    nth (arma2psd (twiddles ω nfft) (some a') none e' T nfft) k
      = nth (arma2psd (twiddles ω nfft) (some a) none e T nfft) ((nfft - k) % nfft) :=
  covar_psd_mirror hω hstar x p T a a' e e' h h' (C14.lsFit_normalEq _ _ p a e h).1
    (C14.lsFit_normalEq _ _ p a' e' h').1 ((covar_gramInj_of_some x p a e).1 h) hk

/-- **modified-covariance spectrum mirror, unconditional** -/
theorem modcovar_psd_mirror_solver {ω : K} {nfft : ℕ} (hω : ω ^ nfft = 1)
    (hstar : star ω = ω⁻¹) (x : List K) (p : ℕ) (T : K) (a a' : List K) (e e' : K)
    (h : modcovar x p = some (a, e)) (h' : modcovar (x.map star) p = some (a', e'))
    {k : ℕ} (hk : k < nfft) :
    nth (arma2psd (twiddles ω nfft) (some a') none e' T nfft) k
      = nth (arma2psd (twiddles ω nfft) (some a) none e T nfft) ((nfft - k) % nfft) :=
  modcovar_psd_mirror hω hstar x p T a a' e e' h h' (C14.lsFit_normalEq _ _ p a e h).1
    (C14.lsFit_normalEq _ _ p a' e' h').1 ((covar_gramInj_of_some x p a e).2 h) hk

end CovarSolver

section CovarExamples

/-- a zero test on `ℝ` for the examples (the executable instances are `CRat` / `CFloat`) -/
noncomputable local instance : IsZero ℝ := ⟨fun q => decide (q = 0)⟩

/-- that test is lawful: the instance hypothesis `LawfulIsZero` of section 8b is satisfiable, and the two
examples below (which exhibit `arcovar` / `modcovar` returning on the data and on the modulated data) are
then the full hypotheses of `arcovar_mod_unique_solver` / `modcovar_mod_unique_solver` -/
local instance : GJL.LawfulIsZero ℝ := GJL.lawful_decide

/-- hypotheses of `arcovar_mod_unique` / `covar_psd_shift` (`K = ℝ`, `μ = -1 = ω⁻¹`, `NFFT = 2`, `m = 1`):
on `x = [1,2,3,5]`, `p = 1` the model returns `a = -23/14`, `e = 3/14`; on the modulated data
`[1,-2,3,-5]` it returns the twisted `a' = +23/14` and the same `e`; both satisfy their normal equations,
and the regressor column `[1,2,3]ᵀ` has full rank, so the Gram matrix is nonsingular. -/
example :
    ((-1 : ℝ) * star (-1 : ℝ) = 1) ∧ modulate (-1 : ℝ) [1, 2, 3, 5] = [1, -2, 3, -5] ∧
    arcovar ([1, 2, 3, 5] : List ℝ) 1 = some ([-23/14], 3/14) ∧
    arcovar (modulate (-1 : ℝ) [1, 2, 3, 5]) 1 = some ([23/14], 3/14) ∧
    twist (-1 : ℝ) [-23/14] = [23/14] ∧
    NormalEq (col0 (corrmtx ([1, 2, 3, 5] : List ℝ) 1 .covariance))
      (colR (corrmtx ([1, 2, 3, 5] : List ℝ) 1 .covariance))
      (([1, 2, 3, 5] : List ℝ).length - 1) 1 (nth [-23/14]) ∧
    NormalEq (col0 (corrmtx (modulate (-1 : ℝ) [1, 2, 3, 5]) 1 .covariance))
      (colR (corrmtx (modulate (-1 : ℝ) [1, 2, 3, 5]) 1 .covariance))
      ((modulate (-1 : ℝ) [1, 2, 3, 5]).length - 1) 1 (nth [23/14]) ∧
    GramInj (colR (corrmtx ([1, 2, 3, 5] : List ℝ) 1 .covariance))
      (([1, 2, 3, 5] : List ℝ).length - 1) 1 := by
  have hmod : modulate (-1 : ℝ) [1, 2, 3, 5] = [1, -2, 3, -5] := by
    simp [modulate, vec, nth, List.range, List.range.loop]
    norm_num
  rw [hmod]
  refine ⟨by simp, rfl, ?_, ?_, ?_, ?_, ?_, ?_⟩
  · simp [arcovar, lsFit, lstsq, solveVec, solveMat, gjStep, conjT, matMul, matVec, corrmtx,
      mentryM, vec, nth, sumR, isZero, List.range_succ, Finset.sum_range_succ]
    norm_num
  · simp [arcovar, lsFit, lstsq, solveVec, solveMat, gjStep, conjT, matMul, matVec, corrmtx,
      mentryM, vec, nth, sumR, isZero, List.range_succ, Finset.sum_range_succ]
    norm_num
  · simp [twist, vec, nth, List.range, List.range.loop]
    norm_num
  · rw [C14.covariance_normalEq_iff]
    intro b hb
    have : b = 0 := by omega
    subst this
    simp [fwdErr, nth, Finset.sum_Ico_eq_sum_range, Finset.sum_range_succ]
    norm_num
  · rw [C14.covariance_normalEq_iff]
    intro b hb
    have : b = 0 := by omega
    subst this
    simp [fwdErr, nth, Finset.sum_Ico_eq_sum_range, Finset.sum_range_succ]
    norm_num
  · apply ls_gramInj_of_fullColRank
    intro d hd j hj
    have : j = 0 := by omega
    subst this
    have h0 := hd 0 (by simp)
    rw [Finset.sum_range_one] at h0
    unfold colR at h0
    rw [mentryM_eq_mentry, (C09.corrmtx_covariance_entry _ 1 0 1 (by simp) (by norm_num)).1] at h0
    simpa [nth] using h0

/-- hypotheses of `modcovar_mod_unique` / `modcovar_psd_shift` on the same data: `modcovar` returns
`a = -23/26`, `e = 147/13` on `[1,2,3,5]` and the twisted `a' = +23/26`, same `e`, on `[1,-2,3,-5]`. -/
example :
    modcovar ([1, 2, 3, 5] : List ℝ) 1 = some ([-23/26], 147/13) ∧
    modcovar ([1, -2, 3, -5] : List ℝ) 1 = some ([23/26], 147/13) ∧
    NormalEq (col0 (corrmtx ([1, -2, 3, -5] : List ℝ) 1 .modified))
      (colR (corrmtx ([1, -2, 3, -5] : List ℝ) 1 .modified))
      (2 * (([1, -2, 3, -5] : List ℝ).length - 1)) 1 (nth [23/26]) ∧
    GramInj (colR (corrmtx ([1, 2, 3, 5] : List ℝ) 1 .modified))
      (2 * (([1, 2, 3, 5] : List ℝ).length - 1)) 1 := by
  refine ⟨?_, ?_, ?_, ?_⟩
  · simp [modcovar, lsFit, lstsq, solveVec, solveMat, gjStep, conjT, matMul, matVec, corrmtx,
      mentryM, vec, nth, sumR, isZero, List.range_succ, Finset.sum_range_succ]
    norm_num
  · simp [modcovar, lsFit, lstsq, solveVec, solveMat, gjStep, conjT, matMul, matVec, corrmtx,
      mentryM, vec, nth, sumR, isZero, List.range_succ, Finset.sum_range_succ]
    norm_num
  · rw [C14.modified_normalEq_iff]
    intro b hb
    have : b = 0 := by omega
    subst this
    simp [fwdErr, bwdErr, nth, Finset.sum_Ico_eq_sum_range, Finset.sum_range_succ]
    norm_num
  · apply ls_gramInj_of_fullColRank
    intro d hd j hj
    have : j = 0 := by omega
    subst this
    have h0 := hd 0 (by simp)
    rw [Finset.sum_range_one] at h0
    unfold colR at h0
    rw [mentryM_eq_mentry, (C09.corrmtx_modified_entry _ 1 0 1 (by simp) (by norm_num)).1] at h0
    simpa [nth] using h0

end CovarExamples

/-! ### non-vacuity -/

/-- the hypotheses on `ω` hold for numpy's root `e^{-2πi/4} = -i` in `ℂ`, and `μ = ω⁻¹^m` is unimodular -/
example : (-Complex.I) ^ 4 = 1 ∧ star (-Complex.I) = (-Complex.I)⁻¹
    ∧ ((-Complex.I)⁻¹ ^ 1) * star ((-Complex.I)⁻¹ ^ 1) = 1 := by
  refine ⟨?_, ?_, ?_⟩
  · rw [neg_pow, Complex.I_pow_four]; norm_num
  · rw [inv_neg, Complex.inv_I, neg_neg, star_neg]; simp
  · rw [pow_one, inv_neg, Complex.inv_I, neg_neg]; simp

/-- conjugated time reversal over `ℚ` (trivial involution) is plain reversal: `[3, 2, 7] ↦ [7, 2, 3]`,
and the Yule–Walker fit is the same -/
example : trconj ([3, 2, 7] : List ℚ) = [7, 2, 3] ∧
    aryule ([7, 2, 3] : List ℚ) 2 .biased = aryule [3, 2, 7] 2 .biased := by
  have h : trconj ([3, 2, 7] : List ℚ) = [7, 2, 3] := by
    simp [trconj, vec, nth, List.range, List.range.loop]
  exact ⟨h, h ▸ aryule_timerev [3, 2, 7] 2 .biased⟩

/-- `K = ℚ` (trivial involution), `ω = -1`, `NFFT = 2`, `m = 1`: modulating `[3, 2]` to `[3, -2]` swaps
the two periodogram bins. -/
example : nth (speriodogram (twiddles (-1 : ℚ) 2) (modulate ((-1 : ℚ)⁻¹ ^ 1) [3, 2]) [1, 1] 2 false) 0
    = nth (speriodogram (twiddles (-1 : ℚ) 2) [3, 2] [1, 1] 2 false) 1 :=
  periodogram_shift (ω := -1) (by norm_num) [3, 2] [1, 1] (by norm_num) (by norm_num)

end SpecVerif.C04
