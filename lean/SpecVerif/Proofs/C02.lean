import SpecVerif.Proofs.Lemmas.Placement
import SpecVerif.Proofs.C01
import SpecVerif.Proofs.C06
import SpecVerif.Proofs.C07
import SpecVerif.Proofs.C08
import SpecVerif.Proofs.C15
import SpecVerif.Proofs.C17
import SpecVerif.Proofs.C19
/-
  C02 — every estimator class puts its spectral values on the frequency axis it reports.

  Property theorems only (helpers: `Proofs/Lemmas/Placement.lean`, namespace `SpecVerif.PlaceL`).

  Model reading.  The `__call__` of a PSD class is
  `classCall kind raw isReal nfft scaleByFreq twoPi sampling`, where `raw` is the two-sided, unscaled
  estimate of `NFFT` values computed by the class's functional estimator (centre-DC ordered for kind
  `.eigen`), and `kind` is the glue: `.fold2` (pburg, pyule, pcovar, pmodcovar, parma, pma, pminvar,
  pcorrelogram, MultiTapering), `.take` (Periodogram), `.eigen` (pmusic, pev).  `frequencies()` for the
  default side is `rangeBins (defaultSide (!isReal)) nfft` (integer bin numbers) times `df = fs/NFFT`.
  `K` is any field (with an involution where a conjugate occurs), `ω` an `NFFT`-th root of unity
  (numpy's `e^{-2πi/NFFT}`).

  Proved: (1) the stored PSD has exactly as many values as the default frequency axis, and that number is
  `NFFT/2+1` / `(NFFT+1)/2` / `NFFT`; (2) entry `j` of the default axis is bin `j`, frequency
  `j·fs/NFFT`; (3) placement: the value stored at index `j` is the two-sided spectrum at the frequency
  reported at index `j` (generic for the three glues, then instantiated for the periodogram, correlogram,
  AR/MA/ARMA, minimum-variance, multitaper and MUSIC/EV function outputs); (4) a noise-free on-grid
  complex exponential at bin `k0` makes the periodogram maximal at the entry whose reported frequency is
  bin `k0`; (5) MUSIC/EV: the class output has a pole at the entry whose reported frequency is that of
  an on-grid tone.

  NOT proved (perturbation statements, outside the targets): "a dominant tone in noise peaks within one
  bin" for Burg, Yule–Walker, ARMA, minimum variance, "within the taper bandwidth" for multitaper, the
  exact-peak claim for the covariance / modified-covariance estimates, and "a real sinusoid away from
  0 and fs/2 peaks within the main-lobe half-width of |f|".  "Real and finite" is covered per estimator
  by C15 (`psd_pos_of_no_unit_zeros`), C16 (`minvar_psd_real_pos_of_pd`), C17 (`pseudo_pos`), C19
  (`class_psd_nonneg_rclike`) and, for the periodogram, by `periodogram_tone_peak_class` /
  `periodogram_real_nonneg` below.
-/
namespace SpecVerif.C02
open Finset SpecVerif SpecVerif.ArmaL SpecVerif.PlaceL

section Generic
variable {K : Type} [Field K]

/-! ### 1. as many values as frequencies -/

/-- **length clause**: for every glue, real or complex data, scaled or not, and a raw estimate of `NFFT`
values, the stored PSD has exactly as many entries as the default frequency axis
(`frequencies()` = `rangeBins (defaultSide (!isReal)) nfft`); this is `psdLen` of C07 and equals
`NFFT/2+1` (even) or `(NFFT+1)/2` (odd) for real data, `NFFT` for complex data. -/
theorem len_psd_eq_len_freqs (kind : GlueKind) (raw : List K) (isReal s : Bool) {nfft : ℕ}
    (twoPi fs : K) (hraw : raw.length = nfft) :
    (classCall kind raw isReal nfft s twoPi fs).length
        = (rangeBins (defaultSide (!isReal)) nfft).length
    ∧ (rangeBins (defaultSide (!isReal)) nfft).length = psdLen (defaultSide (!isReal)) nfft
    ∧ psdLen (defaultSide (!isReal)) nfft
        = if isReal then (if nfft % 2 = 0 then nfft / 2 + 1 else (nfft + 1) / 2) else nfft := by
  refine ⟨?_, rfl, ?_⟩
  · rw [classCall_length kind raw isReal nfft s twoPi fs hraw, defaultAxis_length]
  · rw [C07.psdLen_value]
    cases isReal <;> simp [defaultSide]

/-- **Periodogram, real data**: the `rfft` glue keeps `NFFT/2+1` values for BOTH parities (whatever
`raw` is); for an odd `NFFT` this is `(NFFT+1)/2`, so it agrees with the one-sided axis in both
cases. -/
theorem len_periodogram_real (raw : List K) (s : Bool) (nfft : ℕ) (twoPi fs : K) :
    (classCall .take raw true nfft s twoPi fs).length = nfft / 2 + 1
    ∧ (nfft % 2 = 1 → nfft / 2 + 1 = (nfft + 1) / 2)
    ∧ nfft / 2 + 1 = (rangeBins .one nfft).length := by
  refine ⟨?_, fun h => rfft_len_odd h, ?_⟩
  · rw [classCall_take, scalePsd_length]
    simp only [if_true]
    exact takeReal_length raw nfft
  · rw [rangeBins_length]

example : (classCall .take ([1, 2, 3, 4, 5] : List ℚ) true 5 false 7 2).length = 3
    ∧ (classCall .fold2 ([1, 2, 3, 4, 5] : List ℚ) true 5 true 7 2).length = 3
    ∧ (classCall .eigen ([1, 2, 3, 4, 5] : List ℚ) true 5 false 7 2).length = 3
    ∧ (rangeBins (defaultSide (!true)) 5).length = 3 := by
  refine ⟨?_, ?_, ?_, ?_⟩
  · rw [(len_psd_eq_len_freqs (K := ℚ) (nfft := 5) .take [1, 2, 3, 4, 5] true false 7 2 rfl).1]; rfl
  · rw [(len_psd_eq_len_freqs (K := ℚ) (nfft := 5) .fold2 [1, 2, 3, 4, 5] true true 7 2 rfl).1]; rfl
  · rw [(len_psd_eq_len_freqs (K := ℚ) (nfft := 5) .eigen [1, 2, 3, 4, 5] true false 7 2 rfl).1]; rfl
  · rfl

/-! ### 2. the reported frequencies -/

/-- **axis clause**: entry `j` of the one-sided and of the two-sided axis is bin `j` (C06) -/
theorem freqs_eq (n j : ℕ) :
    (∀ h : j < (rangeBins .one n).length, (rangeBins .one n)[j] = (j : Int))
    ∧ (∀ h : j < (rangeBins .two n).length, (rangeBins .two n)[j] = (j : Int)) :=
  ⟨(C06.axis_bins n j).1, (C06.axis_bins n j).2.1⟩

/-- entry `j` of the default axis (one-sided for real, two-sided for complex data) is bin `j` -/
theorem default_freqs_eq (isReal : Bool) (n j : ℕ)
    (h : j < (rangeBins (defaultSide (!isReal)) n).length) :
    (rangeBins (defaultSide (!isReal)) n)[j] = (j : Int) := by
  cases isReal
  · exact (freqs_eq n j).2 h
  · exact (freqs_eq n j).1 h

/-- … hence the frequency reported at index `j` is `j·fs/NFFT` (`freqAxis` of C08: bins times `df`) -/
theorem default_freq_value (isReal : Bool) (nfft : ℕ) (fs : K) (j : ℕ)
    (h : j < (C08.freqAxis (defaultSide (!isReal)) nfft fs).length) :
    (C08.freqAxis (defaultSide (!isReal)) nfft fs)[j] = (j : K) * (fs / (nfft : K)) := by
  have h' : j < (rangeBins (defaultSide (!isReal)) nfft).length := by
    rw [freqAxis_eq_map, List.length_map] at h; exact h
  simp only [freqAxis_eq_map, List.getElem_map, default_freqs_eq isReal nfft j h', Int.cast_natCast]

/-! ### 3. placement — the three glues -/

/-- **scaling does not move anything**: with `scale_by_freq` every entry is the unscaled entry at the
same index times `2π/df` (for the `.fold2` glue this is `C08.scale_once`) -/
theorem placement_scaled (kind : GlueKind) (raw : List K) (isReal : Bool) (nfft : ℕ) (twoPi fs : K)
    (j : ℕ) :
    nth (classCall kind raw isReal nfft true twoPi fs) j
      = nth (classCall kind raw isReal nfft false twoPi fs) j * (twoPi / (fs / (nfft : K))) := by
  rw [classCall_true, nth_map_mul_right]

/-- **`.fold2` glue**: for real data entry `j` of the stored PSD (`j ≤ NFFT/2`, a valid index of `raw`)
is `2·raw[j]`; for complex data entry `j` is `raw[j]`: the value at index `j` is the two-sided estimate at
bin `j`, the bin the axis reports at index `j`. -/
theorem placement_fold2 (raw : List K) {nfft : ℕ} (hn : 0 < nfft) (hraw : raw.length = nfft)
    (twoPi fs : K) (j : ℕ) :
    (j < nfft / 2 + 1 →
      j < raw.length ∧ nth (classCall .fold2 raw true nfft false twoPi fs) j = 2 * nth raw j)
    ∧ (j < nfft → nth (classCall .fold2 raw false nfft false twoPi fs) j = nth raw j) := by
  refine ⟨fun hj => ⟨by omega, nth_fold2_real raw nfft twoPi fs j hj⟩, fun _ => ?_⟩
  exact nth_call_complex .fold2 (by decide) raw nfft twoPi fs j

/-- **`.take` glue** (Periodogram): entry `j` is `raw[j]` for real (`j ≤ NFFT/2`, not doubled) and for
complex data -/
theorem placement_take (raw : List K) {nfft : ℕ} (hn : 0 < nfft) (hraw : raw.length = nfft)
    (twoPi fs : K) (j : ℕ) :
    (j < nfft / 2 + 1 →
      j < raw.length ∧ nth (classCall .take raw true nfft false twoPi fs) j = nth raw j)
    ∧ (j < nfft → nth (classCall .take raw false nfft false twoPi fs) j = nth raw j) := by
  refine ⟨fun hj => ⟨by omega, nth_take_real raw nfft twoPi fs j hj⟩, fun _ => ?_⟩
  exact nth_call_complex .take (by decide) raw nfft twoPi fs j

/-- **`.eigen` glue** on a centre-DC ordered function output `psd` of `NFFT` values.
Complex data: entry `j` is `psd[(j + NFFT/2) mod NFFT]`, and that centre-DC index is the one whose
reported frequency bin is `j` (mod `NFFT`).  Real data: entry `j ≤ NFFT/2` is
`2·psd[NFFT/2 - j]`, twice the value at the centre-DC index whose reported bin is `-j`. -/
theorem placement_eigen (psd : List K) {nfft : ℕ} (hn : 0 < nfft) (hlen : psd.length = nfft)
    (twoPi fs : K) (j : ℕ) :
    (j < nfft →
      nth (classCall .eigen psd false nfft false twoPi fs) j = nth psd ((j + nfft / 2) % nfft)
      ∧ ∃ h : (j + nfft / 2) % nfft < (rangeBins .center nfft).length,
          binIdx nfft ((rangeBins .center nfft)[(j + nfft / 2) % nfft]) = j)
    ∧ (j ≤ nfft / 2 →
      nth (classCall .eigen psd true nfft false twoPi fs) j = 2 * nth psd (nfft / 2 - j)
      ∧ ∃ h : nfft / 2 - j < (rangeBins .center nfft).length,
          (rangeBins .center nfft)[nfft / 2 - j] = -(j : Int)) := by
  constructor
  · intro hj
    refine ⟨?_, center_index_bin hj⟩
    rw [nth_eigen_unscaled]
    exact (C17.eigenClassFold_complex psd nfft).2 hlen j hj
  · intro hj
    refine ⟨?_, center_index_neg hn hj⟩
    rw [nth_eigen_unscaled]
    exact (C17.eigenClassFold_real psd nfft j hj).2

/-- `.eigen` glue on top of the output reordering of `eigen` (`fft` is the un-reordered table of `NFFT`
values indexed by FFT bin).  Complex data: the entry at index `b mod NFFT` (reported frequency: that of
the signed bin `b`) is the value at FFT bin `(NFFT - b) mod NFFT`, the bin `k` with `ω^k = ω^{-b}`.
Real data: entry `j ≤ NFFT/2` is twice the value at FFT bin `j` = the FFT bin of signed bin `-j`. -/
theorem placement_eigen_function (fft : List K) {nfft : ℕ} (hn : 0 < nfft) (twoPi fs : K) :
    (∀ b : Int, binIdx nfft b < nfft ∧
      nth (classCall .eigen (eigenReorder fft nfft) false nfft false twoPi fs) (binIdx nfft b)
        = nth fft (C17.fftBinOf nfft b))
    ∧ (∀ j, j ≤ nfft / 2 →
      nth (classCall .eigen (eigenReorder fft nfft) true nfft false twoPi fs) j = 2 * nth fft j
      ∧ C17.fftBinOf nfft (-(j : Int)) = j) := by
  constructor
  · intro b
    rw [nth_eigen_unscaled]
    exact C17.tone_index_class_complex fft nfft hn b
  · intro j hj
    rw [nth_eigen_unscaled]
    exact C17.tone_index_class_real fft nfft j hj hn

example : classCall .eigen ([10, 20, 30, 40] : List ℚ) false 4 false 7 2 = [30, 40, 10, 20]
    ∧ classCall .eigen ([10, 20, 30, 40] : List ℚ) true 4 false 7 2 = [60, 40, 20]
    ∧ classCall .fold2 ([10, 20, 30, 40] : List ℚ) true 4 false 7 2 = [20, 40, 60]
    ∧ classCall .take ([10, 20, 30, 40] : List ℚ) true 4 false 7 2 = [10, 20, 30] := by
  decide +kernel

end Generic

/-! ### 3b. placement — the spectrum functions -/

section Star
variable {K : Type} [Field K] [StarRing K]

/-- **Periodogram**: with `raw` the two-sided `speriodogram` (`N ≤ NFFT`), entry `j` of the class
(`j ≤ NFFT/2` for real, `j < NFFT` for complex data) is `|Σ_n x_n w_n ω^{nj}|²/N`, the windowed DFT at
the frequency `j·fs/NFFT` reported at index `j`; for real data the class output is exactly the model's
real-data `speriodogram`. -/
theorem periodogram_placement {ω : K} {nfft : ℕ} (hn : 0 < nfft) (hω : ω ^ nfft = 1) (x w : List K)
    (hN : x.length ≤ nfft) (isReal : Bool) (twoPi fs : K) (j : ℕ)
    (hj : j < if isReal then nfft / 2 + 1 else nfft) :
    nth (classCall .take (speriodogram (twiddles ω nfft) x w nfft false) isReal nfft false twoPi fs) j
        = C01.wdft ω x w j * star (C01.wdft ω x w j) / (x.length : K)
    ∧ nth (classCall .take (speriodogram (twiddles ω nfft) x w nfft false) isReal nfft false twoPi fs) j
        = nth (speriodogram (twiddles ω nfft) x w nfft isReal) j := by
  have hjn : j < nfft := kept_lt_nfft hn hj
  have h1 : nth (classCall .take (speriodogram (twiddles ω nfft) x w nfft false) isReal nfft false
      twoPi fs) j = nth (speriodogram (twiddles ω nfft) x w nfft false) j := by
    cases isReal
    · exact nth_call_complex .take (by decide) _ nfft twoPi fs j
    · exact nth_take_real _ nfft twoPi fs j (by simpa using hj)
  rw [h1, C01.periodogram_eq_def hn hω x w hN false j (by simpa using hjn),
    C01.periodogram_eq_def hn hω x w hN isReal j hj]
  exact ⟨rfl, rfl⟩

/-- non-vacuity: `K = ℚ`, `ω = -1`, `NFFT = 2`, real data `[3, 2]`, rectangular window, one-sided entry `1`
(frequency `fs/2`): `|3 - 2|²/2`, not doubled. -/
example : nth (classCall .take (speriodogram (twiddles (-1 : ℚ) 2) [3, 2] [1, 1] 2 false) true 2
    false 7 2) 1 = 1 / 2 := by
  rw [(periodogram_placement (ω := -1) (by norm_num) (by norm_num) [3, 2] [1, 1] (by simp) true 7 2 1
    (by simp)).1]
  simp [C01.wdft, nth, Finset.sum_range_succ]
  norm_num

/-- **correlogram** (`pcorrelogram`, autocorrelation, biased lags `0..N-1`, rectangular lag window,
`NFFT ≥ 2N-1`): entry `j` is `c·|Σ_n x_n ω^{nj}|²/N`, `c = 2` for real data (one-sided), `1` otherwise. -/
theorem correlogram_placement [CharZero K] {ω : K} {nfft : ℕ} (x w ones : List K) (rms2 : K)
    (hN : 1 ≤ x.length) (hnfft : 2 * x.length - 1 ≤ nfft) (hω : ω ^ nfft = 1)
    (hstar : star ω = ω⁻¹) (hw : ∀ i, i < x.length - 1 → nth w i = 1)
    (hones : ∀ n, n < x.length → nth ones n = 1) (isReal : Bool) (twoPi fs : K) (j : ℕ)
    (hj : j < if isReal then nfft / 2 + 1 else nfft) :
    nth (classCall .fold2 (correlogram (twiddles ω nfft) x x w (x.length - 1) nfft .biased rms2)
        isReal nfft false twoPi fs) j
      = (if isReal then 2 else 1)
        * (C01.wdft ω x ones j * star (C01.wdft ω x ones j) / (x.length : K)) := by
  have hn : 0 < nfft := by omega
  have hjn : j < nfft := kept_lt_nfft hn hj
  rw [nth_fold2 _ isReal nfft twoPi fs j hj,
    C01.correlogram_eq_periodogram x w ones rms2 hN hnfft hω hstar hw hones j hjn,
    C01.periodogram_eq_def hn hω x ones (by omega) false j (by simpa using hjn)]

/-- **AR / MA / ARMA classes** (pburg, pyule, pcovar, pmodcovar, parma, pma — re-export of
`C15.class_psd_eq` for `classCall`): entry `j` is `c·(rho/fs)·|B(ω^j)|²/|A(ω^j)|²`, the model spectrum
at the frequency reported at index `j`, times `2π/df` when `scale_by_freq`. -/
theorem ar_family_placement {ω : K} {nfft : ℕ} (hn : 0 < nfft) (hω : ω ^ nfft = 1)
    (A B : Option (List K)) (hA : ∀ a, A = some a → a.length < nfft)
    (hB : ∀ b, B = some b → b.length < nfft) (rho fs twoPi : K) (isReal s : Bool) (j : ℕ)
    (hj : j < if isReal then (if nfft % 2 = 0 then nfft / 2 + 1 else (nfft + 1) / 2) else nfft) :
    nth (classCall .fold2 (arma2psd (twiddles ω nfft) A B rho fs nfft) isReal nfft s twoPi fs) j
      = (if isReal then 2 else 1)
        * (rho / fs * (ArmaEstL.optPolyAt ω B j * star (ArmaEstL.optPolyAt ω B j))
            / (ArmaEstL.optPolyAt ω A j * star (ArmaEstL.optPolyAt ω A j)))
        * (if s then twoPi / (fs / (nfft : K)) else 1) := by
  rw [classCall_fold2]
  exact (C15.class_psd_eq hn hω A B hA hB rho fs twoPi isReal s j hj).2

/-- **minimum variance** (`pminvar`): entry `j` is `c·fs / Σ_t ψ_t ω^{tj}`, ψ the Musicus sequence of
the Burg model (`a` with its leading 1, real error `P`, `2·len a ≤ NFFT+1`). -/
theorem minvar_placement {ω : K} {nfft : ℕ} (h2 : (2 : K) ≠ 0) (hω : ω ^ nfft = 1)
    (hstar : star ω = ω⁻¹) (a : List K) {P : K} (hP : star P = P) (ha : 0 < a.length)
    (hno : 2 * a.length ≤ nfft + 1) (fs twoPi : K) (isReal : Bool) (j : ℕ)
    (hj : j < if isReal then nfft / 2 + 1 else nfft) :
    nth (classCall .fold2 (minvarPsd (twiddles ω nfft) a P fs nfft) isReal nfft false twoPi fs) j
      = (if isReal then 2 else 1)
        * (fs / ∑ t ∈ range nfft, nth (minvarPsi a P nfft) t * ω ^ (t * j)) := by
  have hn : 0 < nfft := by omega
  rw [nth_fold2 _ isReal nfft twoPi fs j hj,
    C08.minvarPsd_entry h2 hω hstar a hP ha hno fs j (kept_lt_nfft hn hj)]

omit [StarRing K] in
/-- **multitaper** (`MultiTapering`): entry `j` is `c·(Σ_t w_t·SkA_t[j])/nwin`, the mean over the tapers
of weight times squared eigenspectrum at bin `j` (`w_t = W[t][0]` for unity/eigen, `W[j][t]` for adapt). -/
theorem mt_placement (m : MtMethod) (SkA W : List (List K)) {nfft : ℕ} (hn : 0 < nfft) (nwin : ℕ)
    (isReal : Bool) (twoPi fs : K) (j : ℕ) (hj : j < if isReal then nfft / 2 + 1 else nfft) :
    nth (classCall .fold2 (mtMean m SkA W nfft nwin) isReal nfft false twoPi fs) j
      = (if isReal then 2 else 1)
        * ((∑ t ∈ range nwin,
              (if m = .adapt then nth (W.getD j []) t else nth (W.getD t []) 0)
                * nth (SkA.getD t []) j) / (nwin : K)) := by
  have hjn : j < nfft := kept_lt_nfft hn hj
  rw [nth_fold2 _ isReal nfft twoPi fs j hj]
  by_cases hm : m = .adapt
  · subst hm
    rw [C19.class_mean_adapt SkA W nwin hjn]
    simp
  · rw [C19.class_mean_taper m hm SkA W nwin hjn]
    simp [hm]

/-- … with the squared eigenspectra written out: if row `t` of `SkA` is `|Sk_t|²` at bin `j`, entry `j`
is `c·mean_t w_t·|Σ_n taper_{t,n} x_n ω^{nj}|²` (`N ≤ NFFT`). -/
theorem mt_placement_eigenspectra {ω : K} {nfft : ℕ} (hn : 0 < nfft) (hω : ω ^ nfft = 1)
    (x : List K) (tapers : List (List K)) (hN : x.length ≤ nfft)
    (m : MtMethod) (SkA W : List (List K)) (nwin : ℕ) (isReal : Bool) (twoPi fs : K) (j : ℕ)
    (hj : j < if isReal then nfft / 2 + 1 else nfft)
    (hSk : ∀ t, t < nwin → nth (SkA.getD t []) j
      = abs2 (nth (eigenspectrum (twiddles ω nfft) x (tapers.getD t []) nfft) j)) :
    nth (classCall .fold2 (mtMean m SkA W nfft nwin) isReal nfft false twoPi fs) j
      = (if isReal then 2 else 1)
        * ((∑ t ∈ range nwin,
              (if m = .adapt then nth (W.getD j []) t else nth (W.getD t []) 0)
                * ((∑ n ∈ range x.length, (nth (tapers.getD t []) n * nth x n) * ω ^ (n * j))
                  * star (∑ n ∈ range x.length, (nth (tapers.getD t []) n * nth x n) * ω ^ (n * j))))
            / (nwin : K)) := by
  rw [mt_placement m SkA W hn nwin isReal twoPi fs j hj]
  congr 2
  apply Finset.sum_congr rfl
  intro t ht
  rw [hSk t (mem_range.mp ht), abs2_eq,
    (C19.eigenspectrum_eq hn hω x (tapers.getD t []) hN).2 j (kept_lt_nfft hn hj)]

/-- **MUSIC / EV** (`pmusic`, `pev`, given the SVD).  Complex data: entry `j < NFFT` of the class is
`1 / denominator` at the FFT bin `fftBinOf NFFT j = (NFFT - j) mod NFFT`, the bin `k` with
`ω^k = ω^{-j}` where a tone of frequency bin `j` annihilates the noise subspace.  Real data: entry
`j ≤ NFFT/2` is `2 / denominator` at FFT bin `j` (the FFT bin of the signed bin `-j`). -/
theorem music_placement (tw : List K) (cols : List (List K)) (S : List K) (nsig P : ℕ) {nfft : ℕ}
    (hn : 0 < nfft) (ev : Bool) (twoPi fs : K) (j : ℕ) :
    (j < nfft →
      nth (classCall .eigen (eigenPsd tw cols S nsig P nfft ev) false nfft false twoPi fs) j
        = 1 / eigenDenom tw cols S nsig P nfft ev (C17.fftBinOf nfft j)
      ∧ C17.fftBinOf nfft j = (nfft - j) % nfft)
    ∧ (j ≤ nfft / 2 →
      nth (classCall .eigen (eigenPsd tw cols S nsig P nfft ev) true nfft false twoPi fs) j
        = 2 * (1 / eigenDenom tw cols S nsig P nfft ev j)
      ∧ C17.fftBinOf nfft (-(j : Int)) = j) := by
  constructor
  · intro hj
    have hbin : C17.fftBinOf nfft j = (nfft - j) % nfft := by
      unfold C17.fftBinOf
      rw [EigenL.sub_emod_toNat hn, binIdx_natCast hj]
    refine ⟨?_, hbin⟩
    have h := ((placement_eigen_function
      (vec nfft (fun k => 1 / eigenDenom tw cols S nsig P nfft ev k)) hn twoPi fs).1 (j : Int)).2
    rw [binIdx_natCast hj] at h
    unfold eigenPsd
    rw [h, nth_vec, if_pos (by rw [hbin]; exact Nat.mod_lt _ hn)]
  · intro hj
    have h := (placement_eigen_function
      (vec nfft (fun k => 1 / eigenDenom tw cols S nsig P nfft ev k)) hn twoPi fs).2 j hj
    refine ⟨?_, h.2⟩
    unfold eigenPsd
    rw [h.1, nth_vec, if_pos (by omega)]

/-! ### 5. MUSIC / EV: a pole at the entry whose reported frequency is the tone's -/

/-
  Full informal claim (NOT proved at full strength): "a dominant on-grid complex exponential at bin `k`
  produces the MAXIMUM of the MUSIC / EV estimate at the entry whose reported frequency is that of bin
  `k`".  Proved: for noiseless tones and the SVD contract, the class output (complex data) at index
  `b mod NFFT` — the entry whose reported two-sided frequency is that of the signed bin `b` of the tone
  `z = ω^{-b} = e^{2πi b/NFFT}` — is `1 / d` with `d = 0`: a pole of the pseudo-spectrum (numerically
  `1/ε`).  Missing: that no other entry has a denominator as small (the noise-subspace projection of
  the other steering vectors bounded away from `0`), and the perturbation by noise.
-/
/-- poles of the class output (complex data) at the on-grid true frequencies -/
theorem music_tone_peak_partial {ω : K} {nfft P : ℕ} (hn : 0 < nfft)
    (hω : ω ^ nfft = 1) (hstar : star ω = ω⁻¹) (hP : P ≤ nfft) (N T : ℕ) (c z : ℕ → K)
    (hz0 : ∀ m, m < T → z m ≠ 0) (hc : ∀ m, m < T → c m ≠ 0)
    (hzinj : ∀ m m', m < T → m' < T → z m = z m' → m = m') (hNP : T ≤ fbNP N P)
    (cols : List (List K)) (S : List K) (nsig : ℕ) (ev : Bool) (v : ℕ → ℕ → K)
    (hcols : ∀ i, nsig ≤ i → i < P → cols.getD i [] = vec P (fun k => -star (v i k)))
    (hsvd : ∀ i, nsig ≤ i → i < P → ∀ I, I < T →
      ∑ k ∈ range P, mentryM (fbMatrix (EigenL.tones N T c z) P) I k * v i k = 0)
    (m : ℕ) (hm : m < T) (b : Int) (hb : z m = ω ^ (-b)) (twoPi fs : K) :
    ∃ d : K, d = 0
      ∧ d = eigenDenom (twiddles ω nfft) cols S nsig P nfft ev (C17.fftBinOf nfft b)
      ∧ binIdx nfft b < nfft
      ∧ (∃ h : binIdx nfft b < (rangeBins .two nfft).length,
          (rangeBins .two nfft)[binIdx nfft b] % (nfft : Int) = b % (nfft : Int))
      ∧ nth (classCall .eigen (eigenPsd (twiddles ω nfft) cols S nsig P nfft ev) false nfft false
            twoPi fs) (binIdx nfft b) = 1 / d := by
  have hidx := (placement_eigen_function
    (vec nfft (fun k => 1 / eigenDenom (twiddles ω nfft) cols S nsig P nfft ev k)) hn twoPi fs).1 b
  have hbin := C17.fftBinOf_spec hn hω b
  refine ⟨_, ?_, rfl, hidx.1, ?_, ?_⟩
  · exact C17.denominator_vanishes_at_tones hn hω hstar hP N T c z hz0 hc hzinj hNP cols S nsig ev v
      hcols hsvd m hm _ (by rw [hbin.2, hb])
  · have hlen : (rangeBins .two nfft).length = nfft := by simp [rangeBins]
    refine ⟨by rw [hlen]; exact hidx.1, ?_⟩
    rw [(freqs_eq nfft (binIdx nfft b)).2]
    unfold binIdx
    rw [Int.toNat_of_nonneg (Int.emod_nonneg _ (by omega)), Int.emod_emod_of_dvd _ (dvd_refl _)]
  · unfold eigenPsd
    rw [hidx.2, nth_vec, if_pos hbin.1]

/-- non-vacuity (the example of C17): one tone `x_n = (-1)^n = ω^{-1·n}` (signed bin `b = 1`), `N = 5`,
`P = 2`, `NFFT = 2`, `ω = -1`, `NSIG = 1`, noise singular vector `(1,1)`: the class output has its pole at
index `1 mod 2`. -/
example : ∃ d : ℂ, d = 0 ∧
    nth (classCall .eigen (eigenPsd (twiddles (-1 : ℂ) 2) [[], [-1, -1]] [2, 0] 1 2 2 false) false 2
      false 7 2) (binIdx 2 1) = 1 / d := by
  have hcols : ∀ i, 1 ≤ i → i < 2 →
      ([[], [-1, -1]] : List (List ℂ)).getD i [] = vec 2 (fun k => -star ((fun _ _ => (1 : ℂ)) i k)) := by
    intro i h1 h2
    have : i = 1 := by omega
    subst this
    simp [vec]
  have hsvd : ∀ i, 1 ≤ i → i < 2 → ∀ I, I < 1 →
      ∑ k ∈ range 2, mentryM (fbMatrix (EigenL.tones 5 1 (fun _ => (1 : ℂ)) (fun _ => -1)) 2) I k
        * (fun _ _ => (1 : ℂ)) i k = 0 := by
    intro i h1 h2 I hI
    have : I = 0 := by omega
    subst this
    rw [Finset.sum_range_succ, Finset.sum_range_one,
      C17.fb_row_tone 5 2 1 0 0 _ _ (by intro m _; norm_num) (by decide) (by norm_num),
      C17.fb_row_tone 5 2 1 0 1 _ _ (by intro m _; norm_num) (by decide) (by norm_num)]
    norm_num
  obtain ⟨d, h0, _, _, _, h⟩ := music_tone_peak_partial (ω := (-1 : ℂ)) (nfft := 2) (P := 2)
    (by norm_num) (by norm_num) (by simp) (le_refl _) 5 1 (fun _ => 1) (fun _ => -1)
    (by intro m _; norm_num) (by intro m _; norm_num) (by intro m m' h h' _; omega) (by decide)
    [[], [-1, -1]] [2, 0] 1 false (fun _ _ => 1) hcols hsvd 0 (by norm_num) 1 (by norm_num) 7 2
  exact ⟨d, h0, h⟩

/-- real data: a real sinusoid of frequency bin `j ≤ NFFT/2` contains the tone `ω^{j} = ω^{-(-j)}`; the
one-sided class output has its pole at index `j`, the entry whose reported frequency is bin `j`. -/
theorem music_tone_peak_real_partial {ω : K} {nfft P : ℕ} (hn : 0 < nfft)
    (hω : ω ^ nfft = 1) (hstar : star ω = ω⁻¹) (hP : P ≤ nfft) (N T : ℕ) (c z : ℕ → K)
    (hz0 : ∀ m, m < T → z m ≠ 0) (hc : ∀ m, m < T → c m ≠ 0)
    (hzinj : ∀ m m', m < T → m' < T → z m = z m' → m = m') (hNP : T ≤ fbNP N P)
    (cols : List (List K)) (S : List K) (nsig : ℕ) (ev : Bool) (v : ℕ → ℕ → K)
    (hcols : ∀ i, nsig ≤ i → i < P → cols.getD i [] = vec P (fun k => -star (v i k)))
    (hsvd : ∀ i, nsig ≤ i → i < P → ∀ I, I < T →
      ∑ k ∈ range P, mentryM (fbMatrix (EigenL.tones N T c z) P) I k * v i k = 0)
    (m : ℕ) (hm : m < T) (j : ℕ) (hj : j ≤ nfft / 2) (hb : z m = ω ^ j) (twoPi fs : K) :
    ∃ d : K, d = 0
      ∧ d = eigenDenom (twiddles ω nfft) cols S nsig P nfft ev j
      ∧ (∃ h : j < (rangeBins .one nfft).length, (rangeBins .one nfft)[j] = (j : Int))
      ∧ nth (classCall .eigen (eigenPsd (twiddles ω nfft) cols S nsig P nfft ev) true nfft false
            twoPi fs) j = 2 * (1 / d) := by
  refine ⟨_, ?_, rfl, ?_, ((music_placement _ cols S nsig P hn ev twoPi fs j).2 hj).1⟩
  · exact C17.denominator_vanishes_at_tones hn hω hstar hP N T c z hz0 hc hzinj hNP cols S nsig ev v
      hcols hsvd m hm j hb.symm
  · have hlen : (rangeBins .one nfft).length = nfft / 2 + 1 := by rw [rangeBins_length]
    have h : j < (rangeBins .one nfft).length := by rw [hlen]; omega
    exact ⟨h, (freqs_eq nfft j).1 h⟩

end Star

/-! ### 4. the periodogram of an on-grid complex exponential peaks at its own bin -/

section Tone
variable {F : Type} [RCLike F]

/-- **tone clause, windowed DFT**: noise-free complex exponential `x_n = A·ω^{-k0 n}`
(`= A e^{2πi k0 n/NFFT}`, frequency bin `k0`), window with real samples `w_n ≥ 0`: for every bin `k`
`|Σ_n x_n w_n ω^{nk}| ≤ |A|·Σ_n w_n = |Σ_n x_n w_n ω^{n k0}|`. -/
theorem periodogram_tone_peak {ω : F} {nfft : ℕ} (hn : 0 < nfft) (hω : ω ^ nfft = 1)
    (x w : List F) (A : F) (k0 : ℕ) (hx : ∀ n, n < x.length → nth x n = A * ω⁻¹ ^ (k0 * n))
    (wr : ℕ → ℝ) (hw : ∀ n, n < x.length → nth w n = (wr n : F))
    (hw0 : ∀ n, n < x.length → 0 ≤ wr n) (k : ℕ) :
    ‖C01.wdft ω x w k‖ ≤ ‖A‖ * ∑ n ∈ range x.length, wr n
    ∧ ‖C01.wdft ω x w k0‖ = ‖A‖ * ∑ n ∈ range x.length, wr n := by
  have hrew : ∀ k', C01.wdft ω x w k'
      = ∑ n ∈ range x.length, (A * ω⁻¹ ^ (k0 * n) * (wr n : F)) * ω ^ (n * k') := by
    intro k'
    unfold C01.wdft
    apply Finset.sum_congr rfl
    intro n hn'
    rw [hx n (mem_range.mp hn'), hw n (mem_range.mp hn')]
  rw [hrew k, hrew k0]
  exact ⟨tone_dft_le (norm_root_eq_one hn hω) A k0 x.length wr hw0 k,
    tone_dft_at (root_ne_zero hn hω) A k0 x.length wr hw0⟩

/-- the periodogram values are non-negative reals: entry `j` of the class is `|wdft_j|²/N` -/
theorem periodogram_real_nonneg {ω : F} {nfft : ℕ} (hn : 0 < nfft) (hω : ω ^ nfft = 1)
    (x w : List F) (hN : x.length ≤ nfft) (isReal : Bool) (twoPi fs : F) (j : ℕ)
    (hj : j < if isReal then nfft / 2 + 1 else nfft) :
    nth (classCall .take (speriodogram (twiddles ω nfft) x w nfft false) isReal nfft false twoPi fs) j
        = ((‖C01.wdft ω x w j‖ ^ 2 / (x.length : ℝ) : ℝ) : F)
    ∧ 0 ≤ ‖C01.wdft ω x w j‖ ^ 2 / (x.length : ℝ) := by
  refine ⟨?_, div_nonneg (sq_nonneg _) (Nat.cast_nonneg _)⟩
  rw [(periodogram_placement hn hω x w hN isReal twoPi fs j hj).1, abs2_div_eq_ofReal]

/-- **tone clause, class output** (complex data, `1 ≤ N ≤ NFFT`, `k, k0 < NFFT`): the `Periodogram`
entries are the real numbers `p_k = |wdft_k|²/N`, and `p_k ≤ p_{k0} = (|A|·Σ w_n)²/N`: the maximum of the
estimate is at index `k0`, the entry whose reported frequency `k0·fs/NFFT` is the tone's. -/
theorem periodogram_tone_peak_class {ω : F} {nfft : ℕ} (hn : 0 < nfft) (hω : ω ^ nfft = 1)
    (x w : List F) (_hN0 : 0 < x.length) (hN : x.length ≤ nfft) (A : F) (k0 : ℕ)
    (hx : ∀ n, n < x.length → nth x n = A * ω⁻¹ ^ (k0 * n))
    (wr : ℕ → ℝ) (hw : ∀ n, n < x.length → nth w n = (wr n : F))
    (hw0 : ∀ n, n < x.length → 0 ≤ wr n) (twoPi fs : F) (k : ℕ) (hk : k < nfft) (hk0 : k0 < nfft) :
    ∃ pk pk0 : ℝ,
      nth (classCall .take (speriodogram (twiddles ω nfft) x w nfft false) false nfft false twoPi fs) k
        = (pk : F)
      ∧ nth (classCall .take (speriodogram (twiddles ω nfft) x w nfft false) false nfft false twoPi fs) k0
        = (pk0 : F)
      ∧ 0 ≤ pk ∧ pk ≤ pk0
      ∧ pk0 = (‖A‖ * ∑ n ∈ range x.length, wr n) ^ 2 / (x.length : ℝ) := by
  obtain ⟨hle, _⟩ := periodogram_tone_peak hn hω x w A k0 hx wr hw hw0 k
  obtain ⟨_, heq⟩ := periodogram_tone_peak hn hω x w A k0 hx wr hw hw0 k0
  have e1 := periodogram_real_nonneg hn hω x w hN false twoPi fs k (by simpa using hk)
  have e2 := periodogram_real_nonneg hn hω x w hN false twoPi fs k0 (by simpa using hk0)
  refine ⟨_, _, e1.1, e2.1, e1.2, ?_, by rw [heq]⟩
  apply div_le_div_of_nonneg_right _ (Nat.cast_nonneg _)
  rw [heq]
  exact pow_le_pow_left₀ (norm_nonneg _) hle 2

/-- non-vacuity over `ℂ`: `NFFT = 2`, `ω = -1`, tone at bin `k0 = 1` (`x = [3, -3]`, `A = 3`),
rectangular window: `|wdft_0| = 0 ≤ 6 = |wdft_1|`. -/
example : ‖C01.wdft (-1 : ℂ) [3, -3] [1, 1] 0‖ ≤ ‖(3 : ℂ)‖ * ∑ n ∈ range 2, (fun _ => (1 : ℝ)) n
    ∧ ‖C01.wdft (-1 : ℂ) [3, -3] [1, 1] 1‖ = ‖(3 : ℂ)‖ * ∑ n ∈ range 2, (fun _ => (1 : ℝ)) n := by
  refine periodogram_tone_peak (ω := (-1 : ℂ)) (nfft := 2) (by norm_num) (by norm_num)
    [3, -3] [1, 1] 3 1 ?_ (fun _ => 1) ?_ (fun _ _ => zero_le_one) 0
  · intro n hn
    have : n < 2 := by simpa using hn
    interval_cases n <;> simp [nth]
  · intro n hn
    have : n < 2 := by simpa using hn
    interval_cases n <;> simp [nth]

end Tone

end SpecVerif.C02
