import SpecVerif.Model.Basic
import Mathlib.Algebra.BigOperators.Intervals
import Mathlib.Algebra.Field.Basic
import Mathlib.Algebra.Star.BigOperators
import Mathlib.Tactic.Ring
/-
  Bridging lemmas between the import-free executable model (`sumR`, `vec`, `nth`, `powN`, `Conj`) and
  Mathlib's algebra (`Finset.sum`, `^`, `star`).
-/
namespace SpecVerif
open Finset

/-- in the theorems the model's conjugation is `star` -/
instance instConjStar {K : Type} [Star K] : Conj K := ⟨star⟩

@[simp] theorem conj_eq_star {K : Type} [Star K] (z : K) : conj z = star z := rfl

section
variable {K : Type}

@[simp] theorem sumR_eq_sum [AddCommMonoid K] (n : ℕ) (f : ℕ → K) :
    sumR n f = ∑ i ∈ range n, f i := by
  induction n with
  | zero => simp [sumR]
  | succ n ih => rw [sumR, ih, Finset.sum_range_succ]

@[simp] theorem vec_length (n : ℕ) (f : ℕ → K) : (vec n f).length = n := by
  simp [vec]

theorem vec_getElem (n : ℕ) (f : ℕ → K) (i : ℕ) (h : i < (vec n f).length) :
    (vec n f)[i] = f i := by
  simp [vec]

@[simp] theorem nth_vec [Zero K] (n : ℕ) (f : ℕ → K) (i : ℕ) :
    nth (vec n f) i = if i < n then f i else 0 := by
  unfold nth vec
  by_cases h : i < n
  · simp [h, List.getD_eq_getElem?_getD]
  · simp [h, List.getD_eq_getElem?_getD]

theorem nth_of_lt [Zero K] (l : List K) (i : ℕ) (h : i < l.length) : nth l i = l[i] := by
  unfold nth; simp [List.getD_eq_getElem?_getD, h]

theorem nth_of_ge [Zero K] (l : List K) (i : ℕ) (h : l.length ≤ i) : nth l i = 0 := by
  unfold nth; simp [List.getD_eq_getElem?_getD, h]

theorem vec_ext {n : ℕ} {f g : ℕ → K} (h : ∀ i, i < n → f i = g i) : vec n f = vec n g := by
  unfold vec
  apply List.map_congr_left
  intro i hi
  exact h i (List.mem_range.mp hi)

/-- a list is the `vec` of its own total indexing -/
theorem eq_vec_nth [Zero K] (l : List K) : l = vec l.length (nth l) := by
  apply List.ext_getElem
  · simp
  · intro i h1 h2
    rw [vec_getElem]
    exact (nth_of_lt l i h1).symm

@[simp] theorem powN_eq_pow [Monoid K] (x : K) (n : ℕ) : powN x n = x ^ n := by
  induction n with
  | zero => simp [powN]
  | succ n ih => rw [powN, ih, pow_succ]

@[simp] theorem abs2_eq [Mul K] [Star K] (z : K) : abs2 z = z * star z := rfl

end
end SpecVerif
