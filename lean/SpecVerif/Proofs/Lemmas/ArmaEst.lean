import SpecVerif.Model.Estimators
import SpecVerif.Model.LinAlg
import SpecVerif.Model.Arma
import SpecVerif.Proofs.Lemmas.Arma
import SpecVerif.Proofs.Lemmas.Yule
import SpecVerif.Proofs.C08
import SpecVerif.Proofs.C09
import SpecVerif.Proofs.C12
import Mathlib.Analysis.RCLike.Basic
import Mathlib.Tactic.Positivity
import Mathlib.Tactic.Linarith
/-
  Helper lemmas for C15 (`maEstimate`, `armaEstimate`, `armaLagSeq`, the covariance least-squares
  problem handed to `lstsq`, and the AR/MA/ARMA class PSD).

  * length facts of the linear solver (`gjStep`, `solveMat`, `solveVec`, `lstsq`, `lsFit`, `arcovar`):
    whatever the zero test `isZero` does, a returned solution has the requested number of entries.
    Nothing about the *correctness* of the elimination is proved or needed here.
  * `armaEstimate` unfolded into its four stages (`armaEstimate_ok_iff`).
  * `armaLagSeq` entry-wise, with the two-sided lag function `lagZ`.
  * `optPolyAt`: `polyAt` for an optional coefficient list (`None` ↦ the constant polynomial 1), so
    that the AR, MA and ARMA cases of `arma2psd` are one formula.
  * `PosReal`: "is a positive real number" in an `RCLike` field, closed under `*`, `/`.
-/
set_option linter.unusedSectionVars false

namespace SpecVerif.ArmaEstL
open Finset SpecVerif SpecVerif.ArmaL SpecVerif.YuleL

/-- exact zero test on `ℚ` (for the non-vacuity examples of C15; scoped to this namespace) -/
scoped instance ratIsZero : IsZero ℚ := ⟨fun q => decide (q = 0)⟩

/-! ### the linear solver: lengths only -/

section Solver
variable {K : Type} [Field K] [StarRing K] [IsZero K]

/-- a Gauss–Jordan step returns `n` rows -/
theorem gjStep_length (n w : ℕ) (M : Mat K) (col : ℕ) (M' : Mat K)
    (h : gjStep n w M col = some M') : M'.length = n := by
  unfold gjStep at h
  split at h
  · cases h
  · simp only [Option.some.injEq] at h
    rw [← h]
    exact vec_length _ _

/-- every row returned by a Gauss–Jordan step has `w` entries -/
theorem gjStep_row_length (n w : ℕ) (M : Mat K) (col : ℕ) (M' : Mat K)
    (h : gjStep n w M col = some M') (row : List K) (hrow : row ∈ M') : row.length = w := by
  unfold gjStep at h
  split at h
  · cases h
  · simp only [Option.some.injEq] at h
    rw [← h] at hrow
    simp only [vec, List.mem_map, List.mem_range] at hrow
    obtain ⟨i, _, rfl⟩ := hrow
    split <;> simp

/-- `solveMat` returns an `n × m` matrix -/
theorem solveMat_shape (A B : Mat K) (n m : ℕ) (X : Mat K) (h : solveMat A B n m = some X) :
    X.length = n ∧ ∀ row, row ∈ X → row.length = m := by
  unfold solveMat at h
  simp only [Option.map_eq_some_iff] at h
  obtain ⟨M, _, rfl⟩ := h
  refine ⟨vec_length _ _, ?_⟩
  intro row hrow
  simp only [vec, List.mem_map, List.mem_range] at hrow
  obtain ⟨i, _, rfl⟩ := hrow
  simp

/-- `solveVec` returns `n` unknowns -/
theorem solveVec_length (A : Mat K) (b : List K) (n : ℕ) (v : List K)
    (h : solveVec A b n = some v) : v.length = n := by
  unfold solveVec at h
  simp only [Option.map_eq_some_iff] at h
  obtain ⟨X, _, rfl⟩ := h
  exact vec_length _ _

/-- `lstsq` on an `r × c` problem returns `c` coefficients -/
theorem lstsq_length (X : Mat K) (b : List K) (r c : ℕ) (a : List K)
    (h : lstsq X b r c = some a) : a.length = c :=
  solveVec_length _ _ c a h

/-- the first column and the negated remaining columns that `lsFit` hands to `lstsq` -/
def lsRhs (X : Mat K) (rows : ℕ) : List K := vec rows (fun i => mentry X i 0)

def lsNegXc (X : Mat K) (rows p : ℕ) : Mat K :=
  vec rows (fun i => vec p (fun j => -(mentry X i (j + 1))))

/-- `lsFit` succeeds exactly when `lstsq` does, on `(-X_c, X_1)`, and returns its coefficients -/
theorem lsFit_some (X : Mat K) (rows p : ℕ) (a : List K) (e : K)
    (h : lsFit X rows p = some (a, e)) :
    lstsq (lsNegXc X rows p) (lsRhs X rows) rows p = some a := by
  unfold lsFit at h
  simp only at h
  split at h
  · cases h
  · rename_i a' ha'
    simp only [Option.some.injEq, Prod.mk.injEq] at h
    rw [← h.1]
    exact ha'

theorem lsFit_length (X : Mat K) (rows p : ℕ) (a : List K) (e : K)
    (h : lsFit X rows p = some (a, e)) : a.length = p :=
  lstsq_length _ _ rows p a (lsFit_some X rows p a e h)

/-- `arcovar` is `lsFit` on the 'covariance' data matrix with `N - p` rows -/
theorem arcovar_unfold (x : List K) (p : ℕ) :
    arcovar x p = lsFit (corrmtx x p .covariance) (x.length - p) p := rfl

theorem arcovar_length (x : List K) (p : ℕ) (a : List K) (e : K)
    (h : arcovar x p = some (a, e)) : a.length = p :=
  lsFit_length _ _ p a e h

/-- residual of row `i` of the least-squares problem `min ‖X_1 - (-X_c) a‖²` of `lsFit`:
`X[i][0] + Σ_j X[i][j+1]·a_j` -/
theorem ls_row_residual (X : Mat K) (rows p : ℕ) (a : ℕ → K) (i : ℕ) (hi : i < rows) :
    nth (lsRhs X rows) i - ∑ j ∈ range p, mentry (lsNegXc X rows p) i j * a j
      = mentry X i 0 + ∑ j ∈ range p, mentry X i (j + 1) * a j := by
  unfold lsRhs lsNegXc
  rw [nth_vec, if_pos hi, sub_eq_add_neg, ← Finset.sum_neg_distrib]
  congr 1
  apply Finset.sum_congr rfl
  intro j hj
  rw [mentry_vec_vec _ _ (fun i j => -(mentry X i (j + 1))) i j hi (Finset.mem_range.mp hj)]
  ring

end Solver

/-! ### `armaEstimate` stage by stage -/

section Stages
variable {K : Type} [Field K] [StarRing K] [IsZero K]

/-- the sequence handed to the MA stage: `e[i] = x[i+P] + Σ_{j<P} a_j x[i+P-1-j]`, `i < N-P` -/
def armaResid (x a : List K) (P : ℕ) : List K :=
  vec (x.length - P) (fun i => nth x (i + P) + ∑ j ∈ range P, nth a j * nth x (i + P - j - 1))

theorem armaResid_length (x a : List K) (P : ℕ) : (armaResid x a P).length = x.length - P :=
  vec_length _ _

theorem nth_armaResid (x a : List K) (P i : ℕ) (hi : i < x.length - P) :
    nth (armaResid x a P) i = nth x (i + P) + ∑ j ∈ range P, nth a j * nth x (i + P - j - 1) := by
  unfold armaResid; rw [nth_vec, if_pos hi]

/-- the model's residual vector is `armaResid` -/
theorem armaResid_eq (x a : List K) (P : ℕ) :
    vec (x.length - P) (fun i => nth x (i + P)
        + sumR P (fun j => nth a j * nth x (i + P - j - 1))) = armaResid x a P := by
  unfold armaResid
  apply vec_ext
  intro i _
  rw [sumR_eq_sum]

/-- **`arma_estimate` succeeds iff** the lag window fits, the covariance solver returns the AR part
from `armaLagSeq` of the unbiased lags, and the MA stage `ma(resid, Q, 2Q)` succeeds -/
theorem armaEstimate_ok_iff (x : List K) (P Q lag : ℕ) (a b : List K) (rho : K) :
    armaEstimate x P Q lag = .ok (a, b, rho) ↔
      lag < x.length ∧ Q ≤ lag + P ∧ lag + P - Q ≤ x.length - P ∧
      (∃ e, arcovar (armaLagSeq (correlation x x lag .unbiased 1) P Q lag) P = some (a, e)) ∧
      maEstimate (armaResid x a P) Q (2 * Q) = .ok (b, rho) := by
  unfold armaEstimate
  simp only
  by_cases h1 : lag ≥ x.length
  · rw [if_pos h1]
    constructor
    · intro h; cases h
    · rintro ⟨h, _⟩; omega
  rw [if_neg h1]
  by_cases h2 : lag + P < Q ∨ lag + P - Q > x.length - P
  · rw [if_pos h2]
    constructor
    · intro h; cases h
    · rintro ⟨_, h, h', _⟩; omega
  rw [if_neg h2]
  cases hc : arcovar (armaLagSeq (correlation x x lag .unbiased 1) P Q lag) P with
  | none =>
    simp only
    constructor
    · intro h; cases h
    · rintro ⟨_, _, _, ⟨e, he⟩, _⟩; cases he
  | some ae =>
    obtain ⟨ar, e⟩ := ae
    simp only
    rw [armaResid_eq]
    cases hm : maEstimate (armaResid x ar P) Q (2 * Q) with
    | error s =>
      simp only
      constructor
      · intro h; cases h
      · rintro ⟨_, _, _, ⟨e', he'⟩, hma⟩
        simp only [Option.some.injEq, Prod.mk.injEq] at he'
        rw [← he'.1, hm] at hma
        cases hma
    | ok br =>
      obtain ⟨b', rho'⟩ := br
      simp only [Except.ok.injEq, Prod.mk.injEq]
      constructor
      · rintro ⟨rfl, rfl, rfl⟩
        exact ⟨by omega, by omega, by omega, ⟨e, rfl⟩, hm⟩
      · rintro ⟨_, _, _, ⟨e', he'⟩, hma⟩
        simp only [Option.some.injEq, Prod.mk.injEq] at he'
        obtain ⟨rfl, _⟩ := he'
        rw [hm] at hma
        simp only [Except.ok.injEq, Prod.mk.injEq] at hma
        exact ⟨rfl, hma.1, hma.2⟩

end Stages

/-! ### the lag sequence handed to the covariance solver -/

section Lags
variable {K : Type} [Field K] [StarRing K]

/-- the two-sided lag function of a one-sided autocorrelation list `R = [r(0), r(1), …]`:
`r(d) = R[d]` for `d ≥ 0` and `conj R[-d]` for `d < 0` -/
def lagZ (R : List K) (d : ℤ) : K :=
  if 0 ≤ d then nth R d.toNat else star (nth R (-d).toNat)

theorem lagZ_ofNat (R : List K) (n : ℕ) : lagZ R (n : ℤ) = nth R n := by
  unfold lagZ
  rw [if_pos (Int.natCast_nonneg n), Int.toNat_natCast]

theorem armaLagSeq_length (R : List K) (P Q lag : ℕ) : (armaLagSeq R P Q lag).length = lag :=
  vec_length _ _

/-- entry `k` of `armaLagSeq`, natural-number form -/
theorem nth_armaLagSeq (R : List K) (P Q lag k : ℕ) (hk : k < lag) (hk' : k < lag + P - Q) :
    nth (armaLagSeq R P Q lag) k
      = if k + Q + 1 < P then star (nth R (P - (k + Q + 1))) else nth R (k + Q + 1 - P) := by
  unfold armaLagSeq
  simp only [nth_vec, if_pos hk, if_pos hk', conj_eq_star]

/-- entries between `lag + P - Q` and `lag` (only when `Q > P`) are the zero padding of the resize -/
theorem nth_armaLagSeq_pad (R : List K) (P Q lag k : ℕ) (hk' : lag + P - Q ≤ k) :
    nth (armaLagSeq R P Q lag) k = 0 := by
  unfold armaLagSeq
  simp only [nth_vec, if_neg (Nat.not_lt.mpr hk'), ite_self]

/-- entry `k` of `armaLagSeq` is the lag `k + Q + 1 - P` (an integer; negative lags conjugated) -/
theorem nth_armaLagSeq_lagZ (R : List K) (P Q lag k : ℕ) (hk : k < lag) (hk' : k < lag + P - Q) :
    nth (armaLagSeq R P Q lag) k = lagZ R ((k : ℤ) + Q + 1 - P) := by
  rw [nth_armaLagSeq R P Q lag k hk hk']
  unfold lagZ
  by_cases h : k + Q + 1 < P
  · rw [if_pos h, if_neg (by omega)]
    congr 2
    omega
  · rw [if_neg h, if_pos (by omega)]
    congr 1
    omega

/-- `P = Q`: the sequence is `r(1), …, r(lag)` -/
theorem armaLagSeq_diag (R : List K) (P lag : ℕ) :
    armaLagSeq R P P lag = vec lag (fun k => nth R (k + 1)) := by
  unfold armaLagSeq
  apply vec_ext
  intro k hk
  rw [if_pos (by omega), if_neg (by omega)]
  congr 1
  omega

end Lags

/-! ### `arma2psd` and the class glue, all three model classes at once -/

section Psd
variable {K : Type} [Field K] [StarRing K]

/-- `polyAt` of an optional coefficient list: `None` is the constant polynomial `1` -/
def optPolyAt (ω : K) (c : Option (List K)) (k : ℕ) : K :=
  match c with
  | some c => polyAt ω c k
  | none => 1

@[simp] theorem optPolyAt_some (ω : K) (c : List K) (k : ℕ) :
    optPolyAt ω (some c) k = polyAt ω c k := rfl

@[simp] theorem optPolyAt_none (ω : K) (k : ℕ) : optPolyAt ω (none : Option (List K)) k = 1 := rfl

/-- bin `k` of `arma2psd(A, B, rho, T, NFFT)` for `A`, `B` each a list or `None` -/
theorem nth_arma2psd_opt {ω : K} {nfft : ℕ} (hω : ω ^ nfft = 1) (A B : Option (List K))
    (hA : ∀ a, A = some a → a.length < nfft) (hB : ∀ b, B = some b → b.length < nfft)
    (rho T : K) (k : ℕ) (hk : k < nfft) :
    nth (arma2psd (twiddles ω nfft) A B rho T nfft) k
      = rho / T * (optPolyAt ω B k * star (optPolyAt ω B k))
          / (optPolyAt ω A k * star (optPolyAt ω A k)) := by
  cases A with
  | none =>
    cases B with
    | none =>
      unfold arma2psd
      simp only [nth_vec, if_pos hk, optPolyAt_none, star_one, mul_one]
    | some b =>
      rw [C08.arma2psd_eq_ma hω b (hB b rfl) rho T k hk]
      simp only [optPolyAt_none, optPolyAt_some, star_one, mul_one]
  | some a =>
    cases B with
    | none =>
      rw [C08.arma2psd_eq_ar hω a (hA a rfl) rho T k hk]
      simp only [optPolyAt_none, optPolyAt_some, star_one, mul_one]
    | some b =>
      rw [C08.arma2psd_eq hω a b (hA a rfl) (hB b rfl) rho T k hk]
      simp only [optPolyAt_some]

/-- number of values a class returns: one-sided for real data, `NFFT` otherwise -/
def psdLen (isReal : Bool) (nfft : ℕ) : ℕ :=
  if isReal then (if nfft % 2 = 0 then nfft / 2 + 1 else (nfft + 1) / 2) else nfft

theorem psdLen_le (isReal : Bool) {nfft : ℕ} (hn : 0 < nfft) : psdLen isReal nfft ≤ nfft := by
  unfold psdLen
  cases isReal
  · simp
  · simp only [if_true]
    split_ifs <;> omega

/-- entry `k` of the class glue on a raw two-sided estimate of `NFFT` values -/
theorem nth_classPsd (raw : List K) (isReal : Bool) {nfft : ℕ} (hn : 0 < nfft)
    (hraw : raw.length = nfft) (s : Bool) (twoPi fs : K) (k : ℕ) (hk : k < psdLen isReal nfft) :
    nth (classPsd raw isReal nfft s twoPi fs) k
      = (if isReal then 2 else 1) * nth raw k * (if s then twoPi / (fs / (nfft : K)) else 1) := by
  have h0 : nth (classPsd raw isReal nfft false twoPi fs) k
      = (if isReal then 2 else 1) * nth raw k := by
    rw [classPsd_false]
    cases isReal
    · simp
    · simp only [if_true]
      exact (C08.fold_real_entry raw hn hraw k (by simpa [psdLen] using hk)).2
  cases s
  · rw [h0]; simp
  · rw [C08.scale_once_entry, h0]; simp

end Psd

/-! ### positive reals in an `RCLike` field -/

section PosReal
variable {F : Type} [RCLike F]

/-- `z` is (the image of) a positive real number -/
def PosReal (z : F) : Prop := ∃ t : ℝ, 0 < t ∧ z = (t : F)

theorem posReal_iff (z : F) : PosReal z ↔ 0 < RCLike.re z ∧ RCLike.im z = 0 := by
  constructor
  · rintro ⟨t, ht, rfl⟩
    exact ⟨by rwa [RCLike.ofReal_re], RCLike.ofReal_im t⟩
  · rintro ⟨h1, h2⟩
    refine ⟨RCLike.re z, h1, ?_⟩
    exact ((RCLike.conj_eq_iff_im.mpr h2 |> RCLike.conj_eq_iff_re.mp)).symm

theorem posReal_of_star (z : F) (h1 : star z = z) (h2 : 0 < RCLike.re z) : PosReal z := by
  refine ⟨RCLike.re z, h2, ?_⟩
  have : (starRingEnd F) z = z := h1
  exact (RCLike.conj_eq_iff_re.mp this).symm

theorem PosReal.ne_zero {z : F} (h : PosReal z) : z ≠ 0 := by
  obtain ⟨t, ht, rfl⟩ := h
  exact RCLike.ofReal_ne_zero.mpr ht.ne'

theorem PosReal.mul {z w : F} (hz : PosReal z) (hw : PosReal w) : PosReal (z * w) := by
  obtain ⟨t, ht, rfl⟩ := hz
  obtain ⟨u, hu, rfl⟩ := hw
  exact ⟨t * u, mul_pos ht hu, by push_cast; rfl⟩

theorem PosReal.div {z w : F} (hz : PosReal z) (hw : PosReal w) : PosReal (z / w) := by
  obtain ⟨t, ht, rfl⟩ := hz
  obtain ⟨u, hu, rfl⟩ := hw
  exact ⟨t / u, div_pos ht hu, by push_cast; rfl⟩

theorem posReal_one : PosReal (1 : F) := ⟨1, one_pos, by simp⟩

theorem posReal_two : PosReal (2 : F) := ⟨2, two_pos, by push_cast; rfl⟩

theorem posReal_natCast {n : ℕ} (hn : 0 < n) : PosReal ((n : ℕ) : F) :=
  ⟨(n : ℝ), by exact_mod_cast hn, by simp⟩

/-- `|z|² = z·conj z` is a positive real for `z ≠ 0` -/
theorem posReal_mul_star {z : F} (hz : z ≠ 0) : PosReal (z * star z) := by
  refine ⟨‖z‖ ^ 2, by positivity, ?_⟩
  have := RCLike.mul_conj z
  rw [← RCLike.star_def] at this
  rw [this]
  push_cast
  rfl

/-- the sequence `[1, a_1, …]` handed to the second Yule–Walker fit of `ma` is never the zero signal -/
theorem one_cons_nonzero (A : List F) :
    ∃ j, j < ((1 : F) :: A).length ∧ nth ((1 : F) :: A) j ≠ 0 :=
  ⟨0, by simp, by simp [nth]⟩

/-- an `n`-th root of unity (`n > 0`) has modulus 1, and so have its powers -/
theorem norm_pow_root_of_unity {ω : F} {n : ℕ} (hn : 0 < n) (hω : ω ^ n = 1) (m : ℕ) :
    ‖ω ^ m‖ = 1 := by
  have h1 : ‖ω‖ ^ n = 1 := by rw [← norm_pow, hω, norm_one]
  have h2 : ‖ω‖ = 1 := (pow_eq_one_iff_of_nonneg (norm_nonneg ω) (by omega)).mp h1
  rw [norm_pow, h2, one_pow]

/-- `1 + b·z ≠ 0` for `|b| < 1`, `|z| = 1` -/
theorem one_add_mul_ne_zero {b z : F} (hb : ‖b‖ < 1) (hz : ‖z‖ = 1) : 1 + b * z ≠ 0 := by
  intro h
  have h1 : b * z = -1 := eq_neg_of_add_eq_zero_right h
  have h2 : ‖b * z‖ = 1 := by rw [h1, norm_neg, norm_one]
  rw [norm_mul, hz, mul_one] at h2
  linarith

end PosReal

end SpecVerif.ArmaEstL
