import SpecVerif.Proofs.Lemmas.Basic
import SpecVerif.Proofs.Lemmas.DFT
import SpecVerif.Proofs.Lemmas.Arma
import SpecVerif.Model.Mtm
import SpecVerif.Model.Arma
import Mathlib.Algebra.BigOperators.Field
import Mathlib.Algebra.Order.BigOperators.Ring.Finset
import Mathlib.Algebra.Order.Field.Basic
import Mathlib.Logic.Function.Iterate
import Mathlib.Tactic.FieldSimp
import Mathlib.Tactic.Ring
/-
  Helper lemmas for C19 (`SpecVerif/Model/Mtm.lean`): entries of `eigenspectrum`, of the three weight
  schemes of `pmtm`, the adaptive loop as an iteration of `adaptStep` with its invariant, bounds on
  Thomson's weight over an ordered field, entries and sign of `mtMean`, amplitude scaling.
-/
namespace SpecVerif.MtmL
open Finset SpecVerif SpecVerif.ArmaL

/-! ### lists of rows -/

section Rows
variable {α : Type}

/-- total row look-up in a `vec` -/
theorem getD_vec (n : ℕ) (f : ℕ → α) (i : ℕ) (d : α) :
    (vec n f).getD i d = if i < n then f i else d := by
  unfold vec
  by_cases h : i < n
  · simp [h, List.getD_eq_getElem?_getD]
  · simp [h, List.getD_eq_getElem?_getD]

theorem getD_vec_lt {n : ℕ} (f : ℕ → α) {i : ℕ} (h : i < n) (d : α) : (vec n f).getD i d = f i := by
  rw [getD_vec, if_pos h]

end Rows

variable {K : Type} [Field K]

/-- entry `(f, t)` of a table built by two nested `vec`s -/
theorem nth_getD_vec_vec {n m : ℕ} (g : ℕ → ℕ → K) {f t : ℕ} (hf : f < n) (ht : t < m) :
    nth ((vec n (fun f => vec m (g f))).getD f []) t = g f t := by
  rw [getD_vec_lt _ hf, nth_vec, if_pos ht]

/-! ### eigenspectra -/

theorem eigenspectrum_length (tw x taper : List K) (nfft : ℕ) :
    (eigenspectrum tw x taper nfft).length = nfft := by
  simp [eigenspectrum]

/-- bin `k` of the eigenspectrum is the `nfft`-point DFT sum of `taper · x` -/
theorem nth_eigenspectrum {ω : K} {nfft : ℕ} (hn : 0 < nfft) (hω : ω ^ nfft = 1) (x taper : List K)
    (hN : x.length ≤ nfft) {k : ℕ} (hk : k < nfft) :
    nth (eigenspectrum (twiddles ω nfft) x taper nfft) k
      = ∑ j ∈ range x.length, (nth taper j * nth x j) * ω ^ (j * k) := by
  unfold eigenspectrum
  simp only [nth_vec, hk, if_true]
  rw [dftBin_eq hn hω]
  have hl : min (vec x.length fun j => nth taper j * nth x j).length nfft = x.length := by
    simp [hN]
  rw [hl]
  apply Finset.sum_congr rfl
  intro j hj
  rw [nth_vec, if_pos (mem_range.mp hj)]

/-- `dftBin` is homogeneous in the data, for any table -/
theorem dftBin_smul (tw : List K) (n : ℕ) (c : K) (m : ℕ) (g : ℕ → K) (k : ℕ) :
    dftBin tw n (vec m (fun j => c * g j)) k = c * dftBin tw n (vec m g) k := by
  unfold dftBin
  simp only [vec_length, sumR_eq_sum]
  rw [Finset.mul_sum]
  apply Finset.sum_congr rfl
  intro j hj
  have hj' : j < m := lt_of_lt_of_le (mem_range.mp hj) (Nat.min_le_left _ _)
  rw [nth_vec, nth_vec, if_pos hj', if_pos hj']
  ring

/-- amplitude equivariance of the eigenspectrum (any table `tw`) -/
theorem eigenspectrum_smul (tw x taper : List K) (nfft : ℕ) (c : K) :
    eigenspectrum tw (x.map (fun v => c * v)) taper nfft
      = (eigenspectrum tw x taper nfft).map (fun v => c * v) := by
  unfold eigenspectrum
  simp only [List.length_map]
  rw [map_vec]
  apply vec_ext
  intro k _
  rw [← dftBin_smul]
  congr 1
  apply vec_ext
  intro j _
  rw [nth_map_mul_left]
  ring

/-! ### Thomson's weight -/

theorem adaptWeight_eq (lam sig2 s : K) :
    adaptWeight lam sig2 s
      = lam * (s / (lam * s + sig2 * (1 - lam))) ^ 2 := by
  unfold adaptWeight
  simp only
  rw [mul_comm s lam]
  ring

/-- the weight does not change when spectrum and noise level are scaled together -/
theorem adaptWeight_scale (lam sig2 s c : K) (hc : c ≠ 0) :
    adaptWeight lam (c * sig2) (c * s) = adaptWeight lam sig2 s := by
  unfold adaptWeight
  simp only
  have : c * s * lam + c * sig2 * (1 - lam) = c * (s * lam + sig2 * (1 - lam)) := by ring
  rw [this, mul_div_mul_left _ _ hc]

/-! ### one pass of the adaptive loop -/

section Step
variable (Sk : List (List K)) (lams : List K) (sig2 : K) (nfft nwin : ℕ)

theorem adaptStep_i (st : AdaptState K) : (adaptStep Sk lams sig2 nfft nwin st).i = st.i + 1 := rfl

theorem adaptStep_S1 (st : AdaptState K) : (adaptStep Sk lams sig2 nfft nwin st).S1 = st.S := rfl

theorem adaptStep_wk (st : AdaptState K) :
    (adaptStep Sk lams sig2 nfft nwin st).wk
      = vec nfft (fun f => vec nwin (fun t => adaptWeight (nth lams t) sig2 (nth st.S f))) := rfl

theorem adaptStep_S (st : AdaptState K) :
    (adaptStep Sk lams sig2 nfft nwin st).S
      = vec nfft (fun f =>
          (∑ t ∈ range nwin,
              nth ((adaptStep Sk lams sig2 nfft nwin st).wk.getD f []) t * nth (Sk.getD t []) f)
            / ∑ t ∈ range nwin, nth ((adaptStep Sk lams sig2 nfft nwin st).wk.getD f []) t) := by
  simp only [adaptStep, sumR_eq_sum]

/-- the weights written by a pass are Thomson's formula at the spectrum the pass started from -/
theorem adaptStep_wk_entry (st : AdaptState K) {f t : ℕ} (hf : f < nfft) (ht : t < nwin) :
    nth ((adaptStep Sk lams sig2 nfft nwin st).wk.getD f []) t
      = adaptWeight (nth lams t) sig2 (nth st.S f) := by
  rw [adaptStep_wk, nth_getD_vec_vec (fun f t => adaptWeight (nth lams t) sig2 (nth st.S f)) hf ht]

/-- the new estimate is the mean of the eigenspectra weighted by the new weights -/
theorem adaptStep_S_entry (st : AdaptState K) {f : ℕ} (hf : f < nfft) :
    nth (adaptStep Sk lams sig2 nfft nwin st).S f
      = (∑ t ∈ range nwin,
            nth ((adaptStep Sk lams sig2 nfft nwin st).wk.getD f []) t * nth (Sk.getD t []) f)
          / ∑ t ∈ range nwin, nth ((adaptStep Sk lams sig2 nfft nwin st).wk.getD f []) t := by
  rw [adaptStep_S, nth_vec, if_pos hf]

end Step

/-- shape of the weight table: `nfft` rows of `nwin` entries -/
def WkShape (nfft nwin : ℕ) (wk : List (List K)) : Prop :=
  wk.length = nfft ∧ ∀ f, f < nfft → (wk.getD f []).length = nwin

omit [Field K] in
theorem wkShape_vec (nfft nwin : ℕ) (g : ℕ → ℕ → K) :
    WkShape nfft nwin (vec nfft (fun f => vec nwin (g f))) := by
  refine ⟨vec_length _ _, ?_⟩
  intro f hf
  rw [getD_vec_lt _ hf, vec_length]

/-- the invariant of the loop: before the first pass nothing is claimed; after a pass the weights are
    Thomson's formula at `S1` and `S` is the mean of the eigenspectra with those weights -/
def AdaptInv (Sk : List (List K)) (lams : List K) (sig2 : K) (nfft nwin : ℕ) (st : AdaptState K) :
    Prop :=
  st.i = 0 ∨
    ((∀ f, f < nfft → ∀ t, t < nwin →
        nth (st.wk.getD f []) t = adaptWeight (nth lams t) sig2 (nth st.S1 f)) ∧
     (∀ f, f < nfft →
        nth st.S f = (∑ t ∈ range nwin, nth (st.wk.getD f []) t * nth (Sk.getD t []) f)
          / ∑ t ∈ range nwin, nth (st.wk.getD f []) t))

theorem adaptInv_step (Sk : List (List K)) (lams : List K) (sig2 : K) (nfft nwin : ℕ)
    (st : AdaptState K) : AdaptInv Sk lams sig2 nfft nwin (adaptStep Sk lams sig2 nfft nwin st) := by
  right
  refine ⟨?_, ?_⟩
  · intro f hf t ht
    rw [adaptStep_wk_entry Sk lams sig2 nfft nwin st hf ht, adaptStep_S1]
  · intro f hf
    exact adaptStep_S_entry Sk lams sig2 nfft nwin st hf

/-! ### the loop -/

section Loop
variable [ReOrd K]

/-- the quantity the `while` test compares with the tolerance: `Σ_f |S[f] - S1[f]| / NFFT` -/
def adaptDist (nfft : ℕ) (st : AdaptState K) : K :=
  (∑ f ∈ range nfft, absRe (nth st.S f - nth st.S1 f)) / (nfft : K)

variable (Sk : List (List K)) (lams : List K) (sig2 tol : K) (nfft nwin : ℕ)

theorem adaptLoop_zero (st : AdaptState K) : adaptLoop Sk lams sig2 tol nfft nwin 0 st = st := rfl

theorem adaptLoop_succ (fuel : ℕ) (st : AdaptState K) :
    adaptLoop Sk lams sig2 tol nfft nwin (fuel + 1) st
      = if reGt (adaptDist nfft st) tol
        then adaptLoop Sk lams sig2 tol nfft nwin fuel (adaptStep Sk lams sig2 nfft nwin st)
        else st := by
  simp only [adaptLoop, adaptDist, sumR_eq_sum]
  rfl

/-- the loop is the `k`-fold iterate of `adaptStep` for the first `k ≤ fuel` at which the test fails
    (or `k = fuel`); the test succeeded at all earlier iterates -/
theorem adaptLoop_iterate (fuel : ℕ) (st0 : AdaptState K) :
    ∃ k, k ≤ fuel ∧
      adaptLoop Sk lams sig2 tol nfft nwin fuel st0 = (adaptStep Sk lams sig2 nfft nwin)^[k] st0 ∧
      (∀ j, j < k → reGt (adaptDist nfft ((adaptStep Sk lams sig2 nfft nwin)^[j] st0)) tol = true) ∧
      (k = fuel ∨ reGt (adaptDist nfft ((adaptStep Sk lams sig2 nfft nwin)^[k] st0)) tol = false) := by
  induction fuel generalizing st0 with
  | zero => exact ⟨0, le_refl _, rfl, fun j hj => absurd hj (Nat.not_lt_zero j), Or.inl rfl⟩
  | succ fuel ih =>
    rw [adaptLoop_succ]
    by_cases h : reGt (adaptDist nfft st0) tol = true
    · rw [if_pos h]
      obtain ⟨k, hk, heq, hall, hstop⟩ := ih (adaptStep Sk lams sig2 nfft nwin st0)
      refine ⟨k + 1, Nat.succ_le_succ hk, ?_, ?_, ?_⟩
      · rw [heq, Function.iterate_succ_apply]
      · intro j hj
        cases j with
        | zero => exact h
        | succ j =>
          rw [Function.iterate_succ_apply]
          exact hall j (Nat.lt_of_succ_lt_succ hj)
      · rcases hstop with hs | hs
        · exact Or.inl (by rw [hs])
        · right; rw [Function.iterate_succ_apply]; exact hs
    · rw [if_neg h]
      refine ⟨0, Nat.zero_le _, rfl, fun j hj => absurd hj (Nat.not_lt_zero j), Or.inr ?_⟩
      simpa using h

omit [ReOrd K] in
theorem iterate_adaptStep_i (k : ℕ) (st0 : AdaptState K) :
    ((adaptStep Sk lams sig2 nfft nwin)^[k] st0).i = st0.i + k := by
  induction k with
  | zero => rfl
  | succ k ih => rw [Function.iterate_succ_apply', adaptStep_i, ih, Nat.add_assoc]

omit [ReOrd K] in
theorem iterate_adaptStep_induct (P : AdaptState K → Prop)
    (hstep : ∀ st, P st → P (adaptStep Sk lams sig2 nfft nwin st)) (k : ℕ) (st0 : AdaptState K)
    (h0 : P st0) : P ((adaptStep Sk lams sig2 nfft nwin)^[k] st0) := by
  induction k with
  | zero => exact h0
  | succ k ih => rw [Function.iterate_succ_apply']; exact hstep _ ih

/-- any property that holds at the start and is preserved by every pass holds at the state the loop
    returns -/
theorem adaptLoop_induct (P : AdaptState K → Prop)
    (hstep : ∀ st, P st → P (adaptStep Sk lams sig2 nfft nwin st)) (fuel : ℕ) (st0 : AdaptState K)
    (h0 : P st0) : P (adaptLoop Sk lams sig2 tol nfft nwin fuel st0) := by
  obtain ⟨k, _, heq, _, _⟩ := adaptLoop_iterate Sk lams sig2 tol nfft nwin fuel st0
  rw [heq]
  exact iterate_adaptStep_induct Sk lams sig2 nfft nwin P hstep k st0 h0

theorem adaptLoop_inv (fuel : ℕ) (st0 : AdaptState K) (h0 : AdaptInv Sk lams sig2 nfft nwin st0) :
    AdaptInv Sk lams sig2 nfft nwin (adaptLoop Sk lams sig2 tol nfft nwin fuel st0) :=
  adaptLoop_induct Sk lams sig2 tol nfft nwin _ (fun st _ => adaptInv_step Sk lams sig2 nfft nwin st) fuel st0 h0

/-- the invariant without its "not run yet" alternative: the weights are Thomson's formula at `S1` and `S` is the
    mean of the eigenspectra with those weights.  Every pass establishes it (`adaptInv_step`), so with the first
    pass unconditional (`pmtmWeights .adapt`) it holds at the returned state whatever the tests say. -/
def AdaptInvS (Sk : List (List K)) (lams : List K) (sig2 : K) (nfft nwin : ℕ) (st : AdaptState K) :
    Prop :=
  (∀ f, f < nfft → ∀ t, t < nwin →
      nth (st.wk.getD f []) t = adaptWeight (nth lams t) sig2 (nth st.S1 f)) ∧
   (∀ f, f < nfft →
      nth st.S f = (∑ t ∈ range nwin, nth (st.wk.getD f []) t * nth (Sk.getD t []) f)
        / ∑ t ∈ range nwin, nth (st.wk.getD f []) t)

omit [ReOrd K] in
theorem adaptInvS_step (st : AdaptState K) :
    AdaptInvS Sk lams sig2 nfft nwin (adaptStep Sk lams sig2 nfft nwin st) :=
  ⟨fun f hf t ht => by rw [adaptStep_wk_entry Sk lams sig2 nfft nwin st hf ht, adaptStep_S1],
    fun _ hf => adaptStep_S_entry Sk lams sig2 nfft nwin st hf⟩

theorem adaptLoop_invS (fuel : ℕ) (st0 : AdaptState K) (h0 : AdaptInvS Sk lams sig2 nfft nwin st0) :
    AdaptInvS Sk lams sig2 nfft nwin (adaptLoop Sk lams sig2 tol nfft nwin fuel st0) :=
  adaptLoop_induct Sk lams sig2 tol nfft nwin _ (fun st _ => adaptInvS_step Sk lams sig2 nfft nwin st)
    fuel st0 h0

theorem adaptLoop_shape (fuel : ℕ) (st0 : AdaptState K) (h0 : WkShape nfft nwin st0.wk) :
    WkShape nfft nwin (adaptLoop Sk lams sig2 tol nfft nwin fuel st0).wk :=
  adaptLoop_induct Sk lams sig2 tol nfft nwin (fun st => WkShape nfft nwin st.wk)
    (fun st _ => by rw [adaptStep_wk]; exact wkShape_vec nfft nwin _) fuel st0 h0

/-- the counter tells whether the loop ran: it is the start value plus the number of passes -/
theorem adaptLoop_i_zero (fuel : ℕ) (st0 : AdaptState K)
    (h : (adaptLoop Sk lams sig2 tol nfft nwin fuel st0).i = st0.i) :
    adaptLoop Sk lams sig2 tol nfft nwin fuel st0 = st0 := by
  obtain ⟨k, _, heq, _, _⟩ := adaptLoop_iterate Sk lams sig2 tol nfft nwin fuel st0
  rw [heq, iterate_adaptStep_i] at h
  have : k = 0 := by omega
  rw [heq, this]; rfl

end Loop

/-! ### the weights of `pmtm` -/

section Weights
variable [StarRing K] [ReOrd K]

theorem pmtmWeights_unity (x lams : List K) (SkA : List (List K)) (nfft : ℕ) (tolc : K) :
    pmtmWeights .unity x lams SkA nfft tolc = vec lams.length (fun _ => [1]) := rfl

theorem pmtmWeights_eigen (x lams : List K) (SkA : List (List K)) (nfft : ℕ) (tolc : K) :
    pmtmWeights .eigen x lams SkA nfft tolc
      = vec lams.length (fun i => [nth lams i / ((i : K) + 1)]) := by
  unfold pmtmWeights
  simp only [Nat.cast_add, Nat.cast_one]

/-- the data power `σ² = Σ|x_j|²/N` of the adaptive scheme -/
def adaptSig2 (x : List K) : K := (∑ j ∈ range x.length, nth x j * star (nth x j)) / (x.length : K)

/-- the state the adaptive loop starts from: `S = (|Sk_0|² + |Sk_1|²)/2`, `S1 = 0`, weights = the
    eigenvalues broadcast over the frequencies, counter `0` -/
def adaptInit (lams : List K) (SkA : List (List K)) (nfft : ℕ) : AdaptState K :=
  { S := vec nfft (fun f => (nth (SkA.getD 0 []) f + nth (SkA.getD 1 []) f) / 2)
    S1 := vec nfft (fun _ => 0)
    wk := vec nfft (fun _ => vec lams.length (fun t => nth lams t))
    i := 0 }

/-- the repaired loop `while (i == 0 or Σ|S-S1|/NFFT > tol) and i < 100`: one unconditional pass from the start
    state, then at most 99 conditional ones -/
theorem pmtmWeights_adapt (x lams : List K) (SkA : List (List K)) (nfft : ℕ) (tolc : K) :
    pmtmWeights .adapt x lams SkA nfft tolc
      = (adaptLoop SkA lams (adaptSig2 x) (tolc * adaptSig2 x / (nfft : K)) nfft lams.length 99
          (adaptStep SkA lams (adaptSig2 x) nfft lams.length (adaptInit lams SkA nfft))).wk := by
  unfold pmtmWeights adaptSig2 adaptInit
  simp only [sumR_eq_sum, abs2_eq, Nat.cast_ofNat]

omit [StarRing K] [ReOrd K] in
theorem adaptInit_wk_entry (lams : List K) (SkA : List (List K)) {nfft f t : ℕ} (hf : f < nfft)
    (ht : t < lams.length) : nth ((adaptInit lams SkA nfft).wk.getD f []) t = nth lams t :=
  nth_getD_vec_vec (fun _ t => nth lams t) hf ht

end Weights

/-! ### the class mean -/

theorem mtMean_length (m : MtMethod) (SkA W : List (List K)) (nfft nwin : ℕ) :
    (mtMean m SkA W nfft nwin).length = nfft := by
  simp [mtMean]

theorem nth_mtMean_adapt (SkA W : List (List K)) {nfft : ℕ} (nwin : ℕ) {f : ℕ} (hf : f < nfft) :
    nth (mtMean .adapt SkA W nfft nwin) f
      = (∑ t ∈ range nwin, nth (W.getD f []) t * nth (SkA.getD t []) f) / (nwin : K) := by
  unfold mtMean
  rw [nth_vec, if_pos hf, sumR_eq_sum]

theorem nth_mtMean_taper (m : MtMethod) (hm : m ≠ .adapt) (SkA W : List (List K)) {nfft : ℕ}
    (nwin : ℕ) {f : ℕ} (hf : f < nfft) :
    nth (mtMean m SkA W nfft nwin) f
      = (∑ t ∈ range nwin, nth (W.getD t []) 0 * nth (SkA.getD t []) f) / (nwin : K) := by
  unfold mtMean
  rw [nth_vec, if_pos hf, sumR_eq_sum]
  cases m with
  | adapt => exact absurd rfl hm
  | unity => rfl
  | eigen => rfl

/-! ### signs (any ordered field in which division by a non-negative keeps the sign: `ℝ`, and `ℂ` or an
`RCLike` field with the `ComplexOrder`) -/

section Sign
variable {R : Type} [Field R] [PartialOrder R] [IsStrictOrderedRing R] [PosMulReflectLT R]

omit [PosMulReflectLT R] in
/-- Thomson's weight is a square times `λ` -/
theorem adaptWeight_nonneg {lam : R} (hl : 0 ≤ lam) (sig2 s : R)
    (hb : 0 ≤ s / (s * lam + sig2 * (1 - lam))) : 0 ≤ adaptWeight lam sig2 s := by
  unfold adaptWeight
  exact mul_nonneg (mul_nonneg hb hb) hl

omit [PosMulReflectLT R] in
theorem weighted_sum_nonneg (nwin : ℕ) (w v : ℕ → R) (hw : ∀ t, t < nwin → 0 ≤ w t)
    (hv : ∀ t, t < nwin → 0 ≤ v t) : 0 ≤ ∑ t ∈ range nwin, w t * v t :=
  Finset.sum_nonneg (fun t ht => mul_nonneg (hw t (mem_range.mp ht)) (hv t (mem_range.mp ht)))

theorem nth_mtMean_adapt_nonneg (SkA W : List (List R)) {nfft nwin f : ℕ} (hf : f < nfft)
    (hW : ∀ t, t < nwin → 0 ≤ nth (W.getD f []) t)
    (hS : ∀ t, t < nwin → 0 ≤ nth (SkA.getD t []) f) :
    0 ≤ nth (mtMean .adapt SkA W nfft nwin) f := by
  rw [nth_mtMean_adapt SkA W nwin hf]
  exact div_nonneg (weighted_sum_nonneg nwin _ _ hW hS) (Nat.cast_nonneg _)

theorem nth_mtMean_taper_nonneg (m : MtMethod) (hm : m ≠ .adapt) (SkA W : List (List R))
    {nfft nwin f : ℕ} (hf : f < nfft) (hW : ∀ t, t < nwin → 0 ≤ nth (W.getD t []) 0)
    (hS : ∀ t, t < nwin → 0 ≤ nth (SkA.getD t []) f) :
    0 ≤ nth (mtMean m SkA W nfft nwin) f := by
  rw [nth_mtMean_taper m hm SkA W nwin hf]
  exact div_nonneg (weighted_sum_nonneg nwin _ _ hW hS) (Nat.cast_nonneg _)

omit [PosMulReflectLT R] in
/-- folding, doubling and scaling by a non-negative factor keep non-negative values non-negative -/
theorem nth_classPsd_nonneg (raw : List R) (h0 : ∀ k, 0 ≤ nth raw k) (isReal : Bool) (nfft : ℕ)
    (s : Bool) (twoPi fs : R) (hc : s = true → 0 ≤ twoPi / (fs / (nfft : R))) (k : ℕ) :
    0 ≤ nth (classPsd raw isReal nfft s twoPi fs) k := by
  have hfold : ∀ k, 0 ≤ nth (if isReal then foldReal raw nfft else raw) k := by
    intro k
    cases isReal with
    | false => exact h0 k
    | true =>
      simp only [if_true]
      unfold foldReal
      rw [nth_vec]
      by_cases hk : k < (if nfft % 2 = 0 then nfft / 2 + 1 else (nfft + 1) / 2)
      · rw [if_pos hk]; exact mul_nonneg (Nat.cast_nonneg _) (h0 k)
      · rw [if_neg hk]
  cases s with
  | false => rw [classPsd_false]; exact hfold k
  | true =>
    rw [classPsd_true, nth_map_mul_right]
    exact mul_nonneg (hfold k) (hc rfl)

end Sign

/-! ### bounds on Thomson's weight (linearly ordered field) -/

section Bounds
variable {R : Type} [Field R] [LinearOrder R] [IsStrictOrderedRing R]

theorem adaptDen_pos_of_spec {lam sig2 s : R} (hl0 : 0 < lam) (hl1 : lam ≤ 1) (hs : 0 < s)
    (hsig : 0 ≤ sig2) : 0 < s * lam + sig2 * (1 - lam) :=
  add_pos_of_pos_of_nonneg (mul_pos hs hl0) (mul_nonneg hsig (sub_nonneg.mpr hl1))

theorem adaptDen_pos_of_lam {lam sig2 s : R} (hl0 : 0 ≤ lam) (hl1 : lam < 1) (hs : 0 ≤ s)
    (hsig : 0 < sig2) : 0 < s * lam + sig2 * (1 - lam) :=
  add_pos_of_nonneg_of_pos (mul_nonneg hs hl0) (mul_pos hsig (sub_pos.mpr hl1))

/-- `0 ≤ b = s/(λs + σ²(1-λ)) ≤ 1/λ` -/
theorem adaptB_bounds {lam sig2 s : R} (hl0 : 0 < lam) (hl1 : lam ≤ 1) (hs : 0 ≤ s) (hsig : 0 ≤ sig2)
    (hD : 0 < s * lam + sig2 * (1 - lam)) :
    0 ≤ s / (s * lam + sig2 * (1 - lam)) ∧ s / (s * lam + sig2 * (1 - lam)) ≤ 1 / lam := by
  refine ⟨div_nonneg hs hD.le, ?_⟩
  rw [div_le_div_iff₀ hD hl0, one_mul]
  have : 0 ≤ sig2 * (1 - lam) := mul_nonneg hsig (sub_nonneg.mpr hl1)
  linarith

/-- `0 ≤ λ b² ≤ 1/λ` -/
theorem adaptWeight_bounds {lam sig2 s : R} (hl0 : 0 < lam) (hl1 : lam ≤ 1) (hs : 0 ≤ s)
    (hsig : 0 ≤ sig2) (hD : 0 < s * lam + sig2 * (1 - lam)) :
    0 ≤ adaptWeight lam sig2 s ∧ adaptWeight lam sig2 s ≤ 1 / lam := by
  obtain ⟨hb0, hb1⟩ := adaptB_bounds hl0 hl1 hs hsig hD
  unfold adaptWeight
  refine ⟨mul_nonneg (mul_nonneg hb0 hb0) hl0.le, ?_⟩
  have h1 : s / (s * lam + sig2 * (1 - lam)) * (s / (s * lam + sig2 * (1 - lam)))
      ≤ 1 / lam * (1 / lam) := mul_le_mul hb1 hb1 hb0 (le_trans hb0 hb1)
  have h2 := mul_le_mul_of_nonneg_right h1 hl0.le
  have h3 : 1 / lam * (1 / lam) * lam = 1 / lam := by field_simp
  rw [h3] at h2
  exact h2

/-- an eigenvalue in `(0, 1]` is itself in `[0, 1/λ]` (the start weights of the loop) -/
theorem lam_le_inv {lam : R} (hl0 : 0 < lam) (hl1 : lam ≤ 1) : lam ≤ 1 / lam := by
  rw [le_div_iff₀ hl0]
  calc lam * lam ≤ 1 * 1 := mul_le_mul hl1 hl1 hl0.le zero_le_one
    _ = 1 := one_mul 1

/-- what the adaptive loop keeps true over an ordered field: the estimate is non-negative and every
    weight lies in `[0, 1/λ_t]` -/
def AdaptPos (lams : List R) (nfft nwin : ℕ) (st : AdaptState R) : Prop :=
  (∀ f, f < nfft → 0 ≤ nth st.S f) ∧
  ∀ f, f < nfft → ∀ t, t < nwin →
    0 ≤ nth (st.wk.getD f []) t ∧ nth (st.wk.getD f []) t ≤ 1 / nth lams t

theorem adaptPos_step (Sk : List (List R)) (lams : List R) {sig2 : R} (nfft nwin : ℕ)
    (hl : ∀ t, t < nwin → 0 < nth lams t ∧ nth lams t < 1) (hsig : 0 < sig2)
    (hSk : ∀ t, t < nwin → ∀ f, f < nfft → 0 ≤ nth (Sk.getD t []) f) (st : AdaptState R)
    (h : AdaptPos lams nfft nwin st) : AdaptPos lams nfft nwin (adaptStep Sk lams sig2 nfft nwin st) := by
  have hw : ∀ f, f < nfft → ∀ t, t < nwin →
      0 ≤ nth ((adaptStep Sk lams sig2 nfft nwin st).wk.getD f []) t ∧
        nth ((adaptStep Sk lams sig2 nfft nwin st).wk.getD f []) t ≤ 1 / nth lams t := by
    intro f hf t ht
    rw [adaptStep_wk_entry Sk lams sig2 nfft nwin st hf ht]
    exact adaptWeight_bounds (hl t ht).1 (hl t ht).2.le (h.1 f hf) hsig.le
      (adaptDen_pos_of_lam (hl t ht).1.le (hl t ht).2 (h.1 f hf) hsig)
  refine ⟨?_, hw⟩
  intro f hf
  rw [adaptStep_S_entry Sk lams sig2 nfft nwin st hf]
  apply div_nonneg
  · exact Finset.sum_nonneg (fun t ht =>
      mul_nonneg (hw f hf t (mem_range.mp ht)).1 (hSk t (mem_range.mp ht) f hf))
  · exact Finset.sum_nonneg (fun t ht => (hw f hf t (mem_range.mp ht)).1)

theorem adaptPos_init (lams : List R) (SkA : List (List R)) (nfft : ℕ)
    (hl : ∀ t, t < lams.length → 0 < nth lams t ∧ nth lams t ≤ 1) (h2 : 2 ≤ lams.length)
    (hSk : ∀ t, t < lams.length → ∀ f, f < nfft → 0 ≤ nth (SkA.getD t []) f) :
    AdaptPos lams nfft lams.length (adaptInit lams SkA nfft) := by
  refine ⟨?_, ?_⟩
  · intro f hf
    show 0 ≤ nth (vec nfft (fun f => (nth (SkA.getD 0 []) f + nth (SkA.getD 1 []) f) / 2)) f
    rw [nth_vec, if_pos hf]
    exact div_nonneg (add_nonneg (hSk 0 (by omega) f hf) (hSk 1 (by omega) f hf)) zero_le_two
  · intro f hf t ht
    rw [adaptInit_wk_entry lams SkA hf ht]
    exact ⟨(hl t ht).1.le, lam_le_inv (hl t ht).1 (hl t ht).2⟩

theorem adaptLoop_pos [ReOrd R] (Sk : List (List R)) (lams : List R) {sig2 : R} (tol : R)
    (nfft nwin : ℕ) (hl : ∀ t, t < nwin → 0 < nth lams t ∧ nth lams t < 1) (hsig : 0 < sig2)
    (hSk : ∀ t, t < nwin → ∀ f, f < nfft → 0 ≤ nth (Sk.getD t []) f) (fuel : ℕ)
    (st0 : AdaptState R) (h0 : AdaptPos lams nfft nwin st0) :
    AdaptPos lams nfft nwin (adaptLoop Sk lams sig2 tol nfft nwin fuel st0) :=
  adaptLoop_induct Sk lams sig2 tol nfft nwin _ (adaptPos_step Sk lams nfft nwin hl hsig hSk) fuel
    st0 h0

end Bounds

end SpecVerif.MtmL
