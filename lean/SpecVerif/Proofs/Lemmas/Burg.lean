import SpecVerif.Proofs.Lemmas.Basic
import SpecVerif.Proofs.Lemmas.Levinson
import SpecVerif.Proofs.Lemmas.LinPred
import SpecVerif.Model.Burg
import Mathlib.Algebra.BigOperators.Intervals
import Mathlib.Algebra.BigOperators.Ring.Finset
import Mathlib.Algebra.Star.BigOperators
import Mathlib.Algebra.Field.Basic
import Mathlib.Tactic.FieldSimp
import Mathlib.Tactic.Ring
import Mathlib.Tactic.LinearCombination
import Mathlib.Analysis.RCLike.Basic
/-
  Helper lemmas for C13 (Burg's method, `SpecVerif/Model/Burg.lean`).

  * the algebra of ONE lattice stage on functions `ℕ → K` over a finite index set (`stageEnergy`,
    `stageDen`, `stageNum`): quadratic expansion, optimality of `k = -2 num / den`, residual energy
    `(1 - |k|²) den`, and `|k| ≤ 1` over `RCLike`;
  * the structure of `burgRun` (field-by-field recurrences, lengths, nesting);
  * the invariant of Marple's recursive denominator update.
-/
namespace SpecVerif.BurgL
open Finset SpecVerif

section Stage
variable {K : Type} [Field K] [StarRing K]

/-- summed forward+backward energy of one lattice stage with reflection coefficient `κ`, over an
index set `s`; `f j` is the forward error, `b j` the (already delayed) backward error. -/
def stageEnergy (s : Finset ℕ) (f b : ℕ → K) (κ : K) : K :=
  ∑ j ∈ s, ((f j + κ * b j) * star (f j + κ * b j) + (b j + star κ * f j) * star (b j + star κ * f j))

def stageDen (s : Finset ℕ) (f b : ℕ → K) : K := ∑ j ∈ s, (f j * star (f j) + b j * star (b j))
def stageNum (s : Finset ℕ) (f b : ℕ → K) : K := ∑ j ∈ s, f j * star (b j)

/-- the optimal (Burg) coefficient of a stage -/
def stageK (s : Finset ℕ) (f b : ℕ → K) : K := -2 * stageNum s f b / stageDen s f b

/-- quadratic expansion of the stage energy in κ. -/
theorem stageEnergy_expand (s : Finset ℕ) (f b : ℕ → K) (κ : K) :
    stageEnergy s f b κ
      = (1 + κ * star κ) * stageDen s f b + 2 * (κ * star (stageNum s f b))
          + 2 * (star κ * stageNum s f b) := by
  unfold stageEnergy stageDen stageNum
  rw [star_sum]
  simp only [Finset.mul_sum, ← Finset.sum_add_distrib]
  apply Finset.sum_congr rfl
  intro j _
  simp only [star_add, star_mul', star_star]
  ring

/-- the denominator (a sum of squared moduli) is self-adjoint -/
theorem stageDen_star (s : Finset ℕ) (f b : ℕ → K) : star (stageDen s f b) = stageDen s f b := by
  unfold stageDen
  rw [star_sum]
  apply Finset.sum_congr rfl
  intro j _
  simp only [star_add, star_mul', star_star]
  ring

theorem star_stageK (s : Finset ℕ) (f b : ℕ → K) :
    star (stageK s f b) = -2 * star (stageNum s f b) / stageDen s f b := by
  unfold stageK
  rw [star_div₀, star_mul', star_neg, stageDen_star]; simp

/-- Burg's coefficient `k = -2 num / den` is the minimiser: the excess energy is `den * |κ - k|²`. -/
theorem stage_k_minimises (s : Finset ℕ) (f b : ℕ → K) (κ : K) (hD : stageDen s f b ≠ 0) :
    stageEnergy s f b κ - stageEnergy s f b (stageK s f b)
      = stageDen s f b * ((κ - stageK s f b) * star (κ - stageK s f b)) := by
  rw [stageEnergy_expand, stageEnergy_expand, star_sub, star_stageK]
  unfold stageK
  set D := stageDen s f b
  set n := stageNum s f b
  field_simp
  ring

/-- the residual energy after the optimal stage is `(1 - |k|²) den` (the `den` recursion of arburg). -/
theorem stage_energy_after (s : Finset ℕ) (f b : ℕ → K) (hD : stageDen s f b ≠ 0) :
    stageEnergy s f b (stageK s f b)
      = (1 - stageK s f b * star (stageK s f b)) * stageDen s f b := by
  rw [stageEnergy_expand, star_stageK]
  unfold stageK
  set D := stageDen s f b
  set n := stageNum s f b
  field_simp
  ring

/-! ### index bookkeeping on `Ico` -/

omit [StarRing K] in
/-- dropping the first forward and the last backward term moves the live range one step on -/
theorem sum_Ico_shift (u v : ℕ → K) (k N : ℕ) (h : k + 2 ≤ N) :
    ∑ j ∈ Ico (k + 1) N, (u j + v j)
      = u (k + 1) + v (N - 1) + ∑ j ∈ Ico (k + 2) N, (u j + v (j - 1)) := by
  obtain ⟨M, rfl⟩ : ∃ M, N = M + 1 := ⟨N - 1, by omega⟩
  have hkM : k + 1 ≤ M := by omega
  rw [Finset.sum_add_distrib, Finset.sum_add_distrib,
    Finset.sum_eq_sum_Ico_succ_bot (by omega : k + 1 < M + 1) u,
    Finset.sum_Ico_succ_top hkM v]
  have : ∑ j ∈ Ico (k + 2) (M + 1), v (j - 1) = ∑ j ∈ Ico (k + 1) M, v j := by
    rw [← Finset.sum_Ico_add' (fun j => v (j - 1)) (k + 1) M 1]
    apply Finset.sum_congr rfl
    intro j _
    simp
  rw [this, Nat.add_sub_cancel]
  ring

omit [StarRing K] in
/-- the initial live energy: `Σ_{j=1}^{N-1} (g j + g (j-1)) = 2 Σ_{j<N} g j - g 0 - g (N-1)` -/
theorem sum_Ico_one_pair (g : ℕ → K) (N : ℕ) (h : 1 ≤ N) :
    ∑ j ∈ Ico 1 N, (g j + g (j - 1)) = 2 * ∑ j ∈ range N, g j - g 0 - g (N - 1) := by
  obtain ⟨M, rfl⟩ : ∃ M, N = M + 1 := ⟨N - 1, by omega⟩
  rw [Finset.sum_add_distrib]
  have h1 : ∑ j ∈ Ico 1 (M + 1), g j = ∑ j ∈ range (M + 1), g j - g 0 := by
    rw [Finset.range_eq_Ico, Finset.sum_eq_sum_Ico_succ_bot (by omega : 0 < M + 1) g]
    ring
  have h2 : ∑ j ∈ Ico 1 (M + 1), g (j - 1) = ∑ j ∈ range (M + 1), g j - g M := by
    rw [Finset.sum_range_succ, Finset.range_eq_Ico,
      ← Finset.sum_Ico_add' (fun j => g (j - 1)) 0 M 1]
    simp
  rw [h1, h2, Nat.add_sub_cancel]
  ring

end Stage

/-! ### the structure of `burgRun` -/
section Run
variable {K : Type} [Field K] [StarRing K]

/-- reflection coefficient computed at stage `k` (0-based) -/
def bK (x : List K) (k : ℕ) : K := (burgK (burgRun x k) x.length k).1
/-- updated denominator computed at stage `k` (0-based) -/
def bD (x : List K) (k : ℕ) : K := (burgK (burgRun x k) x.length k).2

theorem burgRun_succ (x : List K) (k : ℕ) :
    burgRun x (k + 1) = burgStep (burgRun x k) x.length k := rfl

theorem burgRun_succ_a (x : List K) (k : ℕ) :
    (burgRun x (k + 1)).a = levup (burgRun x k).a (bK x k) := rfl

theorem burgRun_succ_ref (x : List K) (k : ℕ) :
    (burgRun x (k + 1)).ref = (burgRun x k).ref ++ [bK x k] := rfl

theorem burgRun_succ_rho (x : List K) (k : ℕ) :
    (burgRun x (k + 1)).rho = (1 - bK x k * star (bK x k)) * (burgRun x k).rho := rfl

theorem burgRun_succ_den (x : List K) (k : ℕ) : (burgRun x (k + 1)).den = bD x k := rfl

theorem burgRun_succ_temp (x : List K) (k : ℕ) :
    (burgRun x (k + 1)).temp = 1 - bK x k * star (bK x k) := rfl

theorem burgRun_succ_ef (x : List K) (k : ℕ) :
    (burgRun x (k + 1)).ef = vec x.length (fun j =>
      if k < j then nth (burgRun x k).ef j + bK x k * nth (burgRun x k).eb (j - 1)
      else nth (burgRun x k).ef j) := rfl

theorem burgRun_succ_eb (x : List K) (k : ℕ) :
    (burgRun x (k + 1)).eb = vec x.length (fun j =>
      if k < j then nth (burgRun x k).eb (j - 1) + star (bK x k) * nth (burgRun x k).ef j
      else nth (burgRun x k).eb j) := rfl

theorem bD_eq (x : List K) (k : ℕ) :
    bD x k = (burgRun x k).temp * (burgRun x k).den
      - nth (burgRun x k).ef k * star (nth (burgRun x k).ef k)
      - nth (burgRun x k).eb (x.length - 1) * star (nth (burgRun x k).eb (x.length - 1)) := rfl

/-- the model's numerator is the stage numerator over the live range `k+1 .. N-1` -/
theorem burgK_num_eq (x : List K) (k : ℕ) :
    sumR (x.length - k - 1)
        (fun i => nth (burgRun x k).ef (i + k + 1) * conj (nth (burgRun x k).eb (i + k)))
      = stageNum (Ico (k + 1) x.length) (nth (burgRun x k).ef)
          (fun j => nth (burgRun x k).eb (j - 1)) := by
  unfold stageNum
  rw [sumR_eq_sum, Finset.sum_Ico_eq_sum_range, Nat.sub_sub]
  apply Finset.sum_congr rfl
  intro i _
  have e1 : k + 1 + i = i + k + 1 := by omega
  have e2 : i + k + 1 - 1 = i + k := by omega
  rw [e1]
  beta_reduce
  rw [e2, conj_eq_star]

theorem bK_eq (x : List K) (k : ℕ) :
    bK x k = -2 * stageNum (Ico (k + 1) x.length) (nth (burgRun x k).ef)
          (fun j => nth (burgRun x k).eb (j - 1)) / bD x k := by
  rw [← burgK_num_eq]
  show -(((2 : ℕ) : K)) * _ / _ = _
  rw [Nat.cast_ofNat]
  rfl

theorem burgRun_a_length (x : List K) (k : ℕ) : (burgRun x k).a.length = k := by
  induction k with
  | zero => rfl
  | succ k ih => rw [burgRun_succ_a, levup_length, ih]

theorem burgRun_ref_length (x : List K) (k : ℕ) : (burgRun x k).ref.length = k := by
  induction k with
  | zero => rfl
  | succ k ih => rw [burgRun_succ_ref, List.length_append, ih, List.length_singleton]

theorem burgRun_ef_length (x : List K) (k : ℕ) : (burgRun x k).ef.length = x.length := by
  cases k with
  | zero => rfl
  | succ k => rw [burgRun_succ_ef, vec_length]

theorem burgRun_eb_length (x : List K) (k : ℕ) : (burgRun x k).eb.length = x.length := by
  cases k with
  | zero => rfl
  | succ k => rw [burgRun_succ_eb, vec_length]

theorem burgRun_a_eq_rc2poly (x : List K) (k : ℕ) (r0 : K) :
    (burgRun x k).a = (rc2poly (burgRun x k).ref r0).1 := by
  induction k with
  | zero => rfl
  | succ k ih => rw [burgRun_succ_a, burgRun_succ_ref, rc2poly_append_singleton, ← ih]

theorem burgRun_ref_take (x : List K) (q p : ℕ) (h : q ≤ p) :
    (burgRun x q).ref = (burgRun x p).ref.take q := by
  induction p with
  | zero =>
    have : q = 0 := by omega
    subst this; rfl
  | succ p ih =>
    by_cases hq : q ≤ p
    · rw [burgRun_succ_ref, List.take_append_of_le_length (by rw [burgRun_ref_length]; exact hq)]
      exact ih hq
    · have : q = p + 1 := by omega
      subst this
      rw [List.take_of_length_le (by rw [burgRun_ref_length])]

theorem nth_burgRun_ref (x : List K) (p i : ℕ) (hi : i < p) :
    nth (burgRun x p).ref i = bK x i := by
  induction p with
  | zero => omega
  | succ p ih =>
    rw [burgRun_succ_ref]
    by_cases h : i < p
    · rw [nth_append_left _ _ _ (by rw [burgRun_ref_length]; exact h)]
      exact ih h
    · have : i = p := by omega
      subst this
      have := nth_append_length (burgRun x i).ref (bK x i)
      rwa [burgRun_ref_length] at this

theorem burgRun_rho_prod (x : List K) (k : ℕ) :
    (burgRun x k).rho
      = (burgInit x).rho * ((burgRun x k).ref.map (fun κ => 1 - κ * star κ)).prod := by
  induction k with
  | zero => simp [burgRun, burgInit]
  | succ k ih =>
    rw [burgRun_succ_rho, burgRun_succ_ref, List.map_append, List.prod_append, ih]
    simp only [List.map_cons, List.map_nil, List.prod_cons, List.prod_nil]
    ring

theorem burgRun_rho_prod_range (x : List K) (k : ℕ) :
    (burgRun x k).rho = (burgInit x).rho * ∏ i ∈ range k, (1 - bK x i * star (bK x i)) := by
  induction k with
  | zero => simp [burgRun]
  | succ k ih => rw [burgRun_succ_rho, ih, Finset.prod_range_succ]; ring

theorem burgInit_rho (x : List K) :
    (burgInit x).rho = (∑ j ∈ range x.length, nth x j * star (nth x j)) / (x.length : K) := by
  unfold burgInit
  simp only [sumR_eq_sum, abs2_eq]

/-! ### the forward/backward errors of the next stage -/

theorem nth_ef_succ (x : List K) (k j : ℕ) (hkj : k < j) (hj : j < x.length) :
    nth (burgRun x (k + 1)).ef j
      = nth (burgRun x k).ef j + bK x k * nth (burgRun x k).eb (j - 1) := by
  rw [burgRun_succ_ef, nth_vec, if_pos hj, if_pos hkj]

theorem nth_eb_succ (x : List K) (k j : ℕ) (hkj : k < j) (hj : j < x.length) :
    nth (burgRun x (k + 1)).eb j
      = nth (burgRun x k).eb (j - 1) + star (bK x k) * nth (burgRun x k).ef j := by
  rw [burgRun_succ_eb, nth_vec, if_pos hj, if_pos hkj]

/-- summed forward+backward energy of stage `k` over the live range if coefficient `κ` were used -/
def liveEnergy (x : List K) (k : ℕ) (κ : K) : K :=
  stageEnergy (Ico (k + 1) x.length) (nth (burgRun x k).ef) (fun j => nth (burgRun x k).eb (j - 1)) κ

/-- the energy sum that Marple's recursion tracks -/
def liveDen (x : List K) (k : ℕ) : K :=
  stageDen (Ico (k + 1) x.length) (nth (burgRun x k).ef) (fun j => nth (burgRun x k).eb (j - 1))

theorem liveDen_star (x : List K) (k : ℕ) : star (liveDen x k) = liveDen x k := stageDen_star _ _ _

/-- with the stored coefficient, the stage energy is the (unshifted) energy of the new arrays -/
theorem liveEnergy_bK (x : List K) (k : ℕ) :
    liveEnergy x k (bK x k)
      = ∑ j ∈ Ico (k + 1) x.length,
          (nth (burgRun x (k + 1)).ef j * star (nth (burgRun x (k + 1)).ef j)
            + nth (burgRun x (k + 1)).eb j * star (nth (burgRun x (k + 1)).eb j)) := by
  unfold liveEnergy stageEnergy
  apply Finset.sum_congr rfl
  intro j hj
  have h := Finset.mem_Ico.mp hj
  rw [nth_ef_succ x k j (by omega) h.2, nth_eb_succ x k j (by omega) h.2]

/-- base case of the invariant -/
theorem bD_zero (x : List K) (hN : (x.length : K) ≠ 0) (h1 : 1 ≤ x.length) :
    bD x 0 = liveDen x 0 := by
  rw [bD_eq]
  unfold liveDen stageDen
  show (1 : K) * ((burgInit x).rho * ((2 : ℕ) : K) * (x.length : K))
      - nth x 0 * star (nth x 0) - nth x (x.length - 1) * star (nth x (x.length - 1))
    = ∑ j ∈ Ico (0 + 1) x.length, (nth x j * star (nth x j) + nth x (j - 1) * star (nth x (j - 1)))
  rw [Nat.zero_add, sum_Ico_one_pair (fun j => nth x j * star (nth x j)) x.length h1, burgInit_rho,
    Nat.cast_ofNat]
  field_simp

/-- inductive step of the invariant -/
theorem bD_succ (x : List K) (k : ℕ) (hk : k + 2 ≤ x.length) (ih : bD x k = liveDen x k)
    (hD : bD x k ≠ 0) : bD x (k + 1) = liveDen x (k + 1) := by
  have hK : bK x k = stageK (Ico (k + 1) x.length) (nth (burgRun x k).ef)
      (fun j => nth (burgRun x k).eb (j - 1)) := by
    rw [bK_eq, ih]; rfl
  have hD' : liveDen x k ≠ 0 := ih ▸ hD
  have hafter : liveEnergy x k (bK x k) = (1 - bK x k * star (bK x k)) * liveDen x k := by
    rw [hK]; exact stage_energy_after _ _ _ hD'
  rw [liveEnergy_bK,
    sum_Ico_shift (fun j => nth (burgRun x (k + 1)).ef j * star (nth (burgRun x (k + 1)).ef j))
      (fun j => nth (burgRun x (k + 1)).eb j * star (nth (burgRun x (k + 1)).eb j)) k x.length hk]
    at hafter
  rw [bD_eq, burgRun_succ_temp, burgRun_succ_den, ih]
  unfold liveDen stageDen at hafter ⊢
  beta_reduce at hafter
  rw [show k + 1 + 1 = k + 2 from rfl]
  linear_combination (-1 : K) * hafter

/-- **invariant of Marple's denominator recursion** -/
theorem bD_eq_liveDen (x : List K) (hN : (x.length : K) ≠ 0) (k : ℕ) (hk : k + 1 ≤ x.length)
    (hprev : ∀ i, i < k → bD x i ≠ 0) : bD x k = liveDen x k := by
  induction k with
  | zero => exact bD_zero x hN hk
  | succ k ih =>
    exact bD_succ x k hk (ih (by omega) (fun i hi => hprev i (by omega))) (hprev k (by omega))

theorem bK_eq_stageK (x : List K) (hN : (x.length : K) ≠ 0) (k : ℕ) (hk : k + 1 ≤ x.length)
    (hprev : ∀ i, i < k → bD x i ≠ 0) :
    bK x k = stageK (Ico (k + 1) x.length) (nth (burgRun x k).ef)
      (fun j => nth (burgRun x k).eb (j - 1)) := by
  rw [bK_eq, bD_eq_liveDen x hN k hk hprev]; rfl

/-! ### the order-selection loop -/

theorem burgOrder_spec (stop : ℕ → K → Bool) (x : List K) (order : ℕ) :
    burgOrder stop x order ≤ order ∧
    (∀ j, j < burgOrder stop x order → stop (j + 1) (burgRun x (j + 1)).rho = false) ∧
    (burgOrder stop x order < order →
      stop (burgOrder stop x order + 1) (burgRun x (burgOrder stop x order + 1)).rho = true) := by
  unfold burgOrder
  cases h : (List.range order).find? (fun k => stop (k + 1) (burgRun x (k + 1)).rho) with
  | none =>
    rw [List.find?_range_eq_none] at h
    refine ⟨le_refl _, ?_, fun hlt => absurd hlt (lt_irrefl _)⟩
    intro j hj
    simpa using h j hj
  | some q =>
    rw [List.find?_range_eq_some] at h
    obtain ⟨h1, h2, h3⟩ := h
    refine ⟨le_of_lt (List.mem_range.mp h2), ?_, fun _ => h1⟩
    intro j hj
    simpa using h3 j hj

/-- the reduced prediction-error power is self-adjoint at every order -/
theorem burgRun_rho_star (x : List K) (k : ℕ) : star (burgRun x k).rho = (burgRun x k).rho := by
  induction k with
  | zero =>
    show star (burgInit x).rho = (burgInit x).rho
    rw [burgInit_rho, star_div₀, star_sum, star_natCast]
    congr 1
    apply Finset.sum_congr rfl
    intro j _
    rw [star_mul', star_star, mul_comm]
  | succ k ih => rw [burgRun_succ_rho, star_mul', star_one_sub_mul_star, ih]

end Run

/-! ### order: `|k| ≤ 1`, optimality and monotone error over `RCLike` -/
section RC
variable {𝕜 : Type} [RCLike 𝕜]

theorem mul_star_ofReal (z : 𝕜) : z * star z = ((‖z‖ ^ 2 : ℝ) : 𝕜) := by
  rw [RCLike.star_def, RCLike.mul_conj, RCLike.ofReal_pow]

theorem stageDen_ofReal (s : Finset ℕ) (f b : ℕ → 𝕜) :
    stageDen s f b = ((∑ j ∈ s, (‖f j‖ ^ 2 + ‖b j‖ ^ 2) : ℝ) : 𝕜) := by
  unfold stageDen
  rw [RCLike.ofReal_sum]
  apply Finset.sum_congr rfl
  intro j _
  rw [mul_star_ofReal, mul_star_ofReal, RCLike.ofReal_add]

theorem stageEnergy_ofReal (s : Finset ℕ) (f b : ℕ → 𝕜) (κ : 𝕜) :
    stageEnergy s f b κ
      = ((∑ j ∈ s, (‖f j + κ * b j‖ ^ 2 + ‖b j + star κ * f j‖ ^ 2) : ℝ) : 𝕜) := by
  unfold stageEnergy
  rw [RCLike.ofReal_sum]
  apply Finset.sum_congr rfl
  intro j _
  rw [mul_star_ofReal, mul_star_ofReal, RCLike.ofReal_add]

theorem stageDen_re_nonneg (s : Finset ℕ) (f b : ℕ → 𝕜) : 0 ≤ RCLike.re (stageDen s f b) := by
  rw [stageDen_ofReal, RCLike.ofReal_re]
  exact Finset.sum_nonneg (fun j _ => add_nonneg (sq_nonneg _) (sq_nonneg _))

/-- a non-zero energy sum is (real and) positive -/
theorem stageDen_re_pos (s : Finset ℕ) (f b : ℕ → 𝕜) (hD : stageDen s f b ≠ 0) :
    0 < RCLike.re (stageDen s f b) := by
  refine lt_of_le_of_ne (stageDen_re_nonneg s f b) ?_
  intro h0
  apply hD
  rw [stageDen_ofReal] at h0 ⊢
  rw [RCLike.ofReal_re] at h0
  rw [← h0, RCLike.ofReal_zero]

/-- Burg's coefficient of a stage has modulus `≤ 1` (the residual energy `(1-|k|²) den` is a sum
of squares) -/
theorem stageK_norm_le_one (s : Finset ℕ) (f b : ℕ → 𝕜) (hD : stageDen s f b ≠ 0) :
    ‖stageK s f b‖ ≤ 1 := by
  have hpos := stageDen_re_pos s f b hD
  have h := stage_energy_after s f b hD
  rw [stageEnergy_ofReal, mul_star_ofReal, stageDen_ofReal, ← RCLike.ofReal_one,
    ← RCLike.ofReal_sub, ← RCLike.ofReal_mul, RCLike.ofReal_inj] at h
  rw [stageDen_ofReal, RCLike.ofReal_re] at hpos
  have hE : 0 ≤ ∑ j ∈ s, (‖f j + stageK s f b * b j‖ ^ 2 + ‖b j + star (stageK s f b) * f j‖ ^ 2) :=
    Finset.sum_nonneg (fun j _ => add_nonneg (sq_nonneg _) (sq_nonneg _))
  rw [h] at hE
  have h1 : 0 ≤ 1 - ‖stageK s f b‖ ^ 2 := by
    by_contra hneg
    have := mul_neg_of_neg_of_pos (not_le.mp hneg) hpos
    exact absurd hE (not_le.mpr this)
  have hn := norm_nonneg (stageK s f b)
  nlinarith

/-- the stage energy at any `κ` is at least the energy at Burg's coefficient -/
theorem stageEnergy_re_ge (s : Finset ℕ) (f b : ℕ → 𝕜) (κ : 𝕜) (hD : stageDen s f b ≠ 0) :
    RCLike.re (stageEnergy s f b (stageK s f b)) ≤ RCLike.re (stageEnergy s f b κ) := by
  have hpos := stageDen_re_pos s f b hD
  have h := stage_k_minimises s f b κ hD
  have h2 : RCLike.re (stageEnergy s f b κ) - RCLike.re (stageEnergy s f b (stageK s f b))
      = RCLike.re (stageDen s f b) * ‖κ - stageK s f b‖ ^ 2 := by
    rw [← map_sub, h, mul_star_ofReal, mul_comm, RCLike.re_ofReal_mul, mul_comm]
  have : 0 ≤ RCLike.re (stageDen s f b) * ‖κ - stageK s f b‖ ^ 2 :=
    mul_nonneg hpos.le (sq_nonneg _)
  linarith

theorem natCast_length_ne_zero (x : List 𝕜) (h : 1 ≤ x.length) : (x.length : 𝕜) ≠ 0 := by
  rw [Nat.cast_ne_zero]; omega

theorem bK_norm_le_one (x : List 𝕜) (k : ℕ) (hk : k + 1 ≤ x.length)
    (hD : ∀ i, i ≤ k → bD x i ≠ 0) : ‖bK x k‖ ≤ 1 := by
  have hN := natCast_length_ne_zero x (by omega)
  have hprev : ∀ i, i < k → bD x i ≠ 0 := fun i hi => hD i (by omega)
  rw [bK_eq_stageK x hN k hk hprev]
  apply stageK_norm_le_one
  have := bD_eq_liveDen x hN k hk hprev
  unfold liveDen at this
  rw [← this]
  exact hD k (le_refl k)

theorem re_rho_succ (x : List 𝕜) (k : ℕ) :
    RCLike.re (burgRun x (k + 1)).rho = (1 - ‖bK x k‖ ^ 2) * RCLike.re (burgRun x k).rho := by
  rw [burgRun_succ_rho, mul_star_ofReal, ← RCLike.ofReal_one, ← RCLike.ofReal_sub,
    RCLike.re_ofReal_mul]

theorem re_rho_zero (x : List 𝕜) :
    RCLike.re (burgRun x 0).rho = (∑ j ∈ range x.length, ‖nth x j‖ ^ 2) / (x.length : ℝ) := by
  show RCLike.re (burgInit x).rho = _
  rw [burgInit_rho]
  have : ∑ j ∈ range x.length, nth x j * star (nth x j)
      = ((∑ j ∈ range x.length, ‖nth x j‖ ^ 2 : ℝ) : 𝕜) := by
    rw [RCLike.ofReal_sum]
    exact Finset.sum_congr rfl (fun j _ => mul_star_ofReal _)
  rw [this, ← RCLike.ofReal_natCast, ← RCLike.ofReal_div, RCLike.ofReal_re]

theorem re_rho_nonneg (x : List 𝕜) (k : ℕ) (hk : k ≤ x.length)
    (hD : ∀ i, i < k → bD x i ≠ 0) : 0 ≤ RCLike.re (burgRun x k).rho := by
  induction k with
  | zero =>
    rw [re_rho_zero]
    exact div_nonneg (Finset.sum_nonneg (fun j _ => sq_nonneg _)) (Nat.cast_nonneg _)
  | succ k ih =>
    rw [re_rho_succ]
    have hk1 := bK_norm_le_one x k hk (fun i hi => hD i (by omega))
    have hn := norm_nonneg (bK x k)
    exact mul_nonneg (by nlinarith) (ih (by omega) (fun i hi => hD i (by omega)))

theorem re_rho_succ_le (x : List 𝕜) (k : ℕ) (hk : k + 1 ≤ x.length)
    (hD : ∀ i, i ≤ k → bD x i ≠ 0) :
    RCLike.re (burgRun x (k + 1)).rho ≤ RCLike.re (burgRun x k).rho := by
  have h0 := re_rho_nonneg x k (by omega) (fun i hi => hD i (by omega))
  rw [re_rho_succ]
  have hn : 0 ≤ ‖bK x k‖ ^ 2 := sq_nonneg _
  nlinarith

theorem re_rho_antitone (x : List 𝕜) (q p : ℕ) (hq : q ≤ p) (hp : p ≤ x.length)
    (hD : ∀ i, i < p → bD x i ≠ 0) :
    RCLike.re (burgRun x p).rho ≤ RCLike.re (burgRun x q).rho := by
  induction p with
  | zero =>
    have : q = 0 := by omega
    subst this; exact le_refl _
  | succ p ih =>
    by_cases hq' : q = p + 1
    · subst hq'; exact le_refl _
    · exact le_trans (re_rho_succ_le x p hp (fun i hi => hD i (by omega)))
        (ih (by omega) (by omega) (fun i hi => hD i (by omega)))

end RC
end SpecVerif.BurgL
