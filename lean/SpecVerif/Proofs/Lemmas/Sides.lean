import SpecVerif.Model.Sides
import SpecVerif.Proofs.Lemmas.Basic
import Mathlib.Tactic.Ring
/-
  Side conversions (`onesided` / `twosided` / `centerdc`) as refinements of one abstract object: a
  two-sided spectrum `S : ℕ → K` of `n = NFFT` bins (only `S k`, `k < n`, matter).

  Specification definitions (`SymmSpec`, `repTwo`, `repCenter`, `repOne`, `rep`, `foldBin`,
  `convertPath`) and the helper lemmas used by `Proofs/C06.lean`.
-/
namespace SpecVerif
open Finset

section Spec
variable {K : Type}

/-- the spectrum of real data: bin `k` and bin `n - k` (frequency `-k`) carry the same value -/
def SymmSpec (n : ℕ) (S : ℕ → K) : Prop := ∀ k, 0 < k → k < n → S k = S (n - k)

/-- two-sided representation: entry `k` is bin `k` -/
def repTwo (n : ℕ) (S : ℕ → K) : List K := vec n S

/-- centre-DC representation: entry `a` is bin `a - n/2`, i.e. `S` at `(a - n/2) mod n` -/
def repCenter (n : ℕ) (S : ℕ → K) : List K := vec n (fun a => S ((a + n - n / 2) % n))

/-- one-sided representation: entry `k ≤ n/2` is the sum of `S` over the bins of frequency `±k`
    (one bin for DC and for the Nyquist bin of an even `n`, two bins otherwise) -/
def repOne [Add K] (n : ℕ) (S : ℕ → K) : List K :=
  vec (n / 2 + 1) (fun k =>
    if k = 0 then S 0 else if n % 2 = 0 ∧ k = n / 2 then S k else S k + S (n - k))

/-- the representation of the spectrum `S` with the given `sides` -/
def rep [Add K] : Side → ℕ → (ℕ → K) → List K
  | .one, n, S => repOne n S
  | .two, n, S => repTwo n S
  | .center, n, S => repCenter n S

/-- the two-sided bin index (`0 ≤ · < n`) of an integer frequency bin `b` -/
def binIdx (n : ℕ) (b : Int) : ℕ := (b % (n : Int)).toNat

/-- `S` summed over the distinct two-sided bins among `{b, -b}` (folding by sign) -/
def foldBin [Add K] (n : ℕ) (S : ℕ → K) (b : Int) : K :=
  if binIdx n b = binIdx n (-b) then S (binIdx n b) else S (binIdx n b) + S (binIdx n (-b))

/-- the value the representation for `sd` must hold at integer frequency bin `b`: `S` at that bin
    (mod `n`) for two-sided and centre-DC, `S` folded over `±b` for one-sided -/
def binValue [Add K] : Side → ℕ → (ℕ → K) → Int → K
  | .one, n, S, b => foldBin n S b
  | .two, n, S, b => S (binIdx n b)
  | .center, n, S, b => S (binIdx n b)

end Spec

section Path
variable {K : Type} [Add K] [Mul K] [Div K] [OfNat K 0] [NatCast K]

/-- a sequence of conversions: from representation `s` convert to each side of the list in turn;
    fails as soon as one step fails -/
def convertPath (isComplex : Bool) (nfft : ℕ) : Side → List Side → List K → Option (List K)
  | _, [], p => some p
  | s, t :: ts, p => (convert s t isComplex nfft p).bind (convertPath isComplex nfft t ts)

end Path

section Lemmas
variable {K : Type} [Field K]

omit [Field K] in
@[simp] theorem repTwo_length (n : ℕ) (S : ℕ → K) : (repTwo n S).length = n := by
  simp [repTwo]

omit [Field K] in
@[simp] theorem repCenter_length (n : ℕ) (S : ℕ → K) : (repCenter n S).length = n := by
  simp [repCenter]

@[simp] theorem repOne_length (n : ℕ) (S : ℕ → K) : (repOne n S).length = n / 2 + 1 := by
  simp [repOne]

/-- `fftshift` takes the two-sided to the centre-DC representation (any length, any `S`) -/
theorem fftshift_repTwo (n : ℕ) (S : ℕ → K) : fftshift (repTwo n S) = repCenter n S := by
  simp only [fftshift, repTwo, repCenter, vec_length]
  apply vec_ext
  intro i hi
  have hlt : (i + (n + 1) / 2) % n < n := Nat.mod_lt _ (by omega)
  rw [nth_vec, if_pos hlt]
  have : i + (n + 1) / 2 = i + n - n / 2 := by omega
  rw [this]

/-- `ifftshift` takes the centre-DC to the two-sided representation (any length, any `S`) -/
theorem ifftshift_repCenter (n : ℕ) (S : ℕ → K) : ifftshift (repCenter n S) = repTwo n S := by
  simp only [ifftshift, repTwo, repCenter, vec_length]
  apply vec_ext
  intro i hi
  have hlt : (i + n / 2) % n < n := Nat.mod_lt _ (by omega)
  rw [nth_vec, if_pos hlt]
  have h1 : (i + n / 2) % n + n - n / 2 = (i + n / 2) % n + (n - n / 2) := by omega
  have h2 : i + n / 2 + (n - n / 2) = i + n := by omega
  rw [h1, Nat.mod_add_mod, h2, Nat.add_mod_right, Nat.mod_eq_of_lt hi]

/-- `twosided_2_onesided` on the two-sided representation of a symmetric spectrum -/
theorem twosided2onesided_repTwo {n : ℕ} (hn : 1 ≤ n) {S : ℕ → K} (hS : SymmSpec n S) :
    twosided2onesided (repTwo n S) = repOne n S := by
  simp only [twosided2onesided, repTwo, repOne, vec_length]
  apply vec_ext
  intro i hi
  by_cases h0 : i = 0
  · subst h0
    have : 0 < n := hn
    simp [nth_vec, this]
  · have hin : i < n := by omega
    simp only [h0, if_false, nth_vec, hin, if_true]
    split_ifs
    · rfl
    · rw [Nat.cast_ofNat, two_mul, ← hS i (by omega) hin]

/-- unfolding the one-sided representation of a symmetric spectrum, with the parity flag that
    `convert` computes -/
theorem unfoldOne_repOne (h2 : (2 : K) ≠ 0) {n : ℕ} (hn : 1 ≤ n) {S : ℕ → K} (hS : SymmSpec n S)
    (odd : Bool) (hodd : odd = true ↔ n % 2 = 1) :
    unfoldOne (repOne n S) odd = repTwo n S := by
  have half : ∀ k, 0 < k → k < n → (S k + S (n - k)) / ((2 : ℕ) : K) = S k := by
    intro k hk0 hkn
    rw [← hS k hk0 hkn, Nat.cast_ofNat, ← two_mul, mul_div_cancel_left₀ _ h2]
  cases odd with
  | true =>
    have hpar : n % 2 = 1 := hodd.mp rfl
    have hlen : 2 * (n / 2 + 1) - 1 = n := by omega
    simp only [unfoldOne, repOne_length, hlen, Bool.not_true, Bool.false_eq_true, and_false,
      if_false, false_and, if_true, repTwo]
    apply vec_ext
    intro i hi
    by_cases h0 : i = 0
    · subst h0
      simp [repOne]
    · simp only [h0, if_false]
      by_cases hL : i < n / 2 + 1
      · simp only [hL, if_true, repOne, nth_vec, h0, if_false]
        have : ¬ (n % 2 = 0 ∧ i = n / 2) := by omega
        simp only [this, if_false]
        exact half i (by omega) hi
      · have hL' : n - i < n / 2 + 1 := by omega
        have h0' : n - i ≠ 0 := by omega
        simp only [hL, if_false, repOne, nth_vec, hL', if_true, h0']
        have : ¬ (n % 2 = 0 ∧ n - i = n / 2) := by omega
        simp only [this, if_false]
        have e : n - (n - i) = i := by omega
        rw [e, add_comm]
        exact half i (by omega) hi
  | false =>
    have hpar : n % 2 = 0 := by
      have : ¬ n % 2 = 1 := fun h => Bool.false_ne_true (hodd.mpr h)
      omega
    have hlen : 2 * (n / 2 + 1) - 2 = n := by omega
    have hdeg : ¬ (n / 2 + 1 = 1) := by omega
    simp only [unfoldOne, repOne_length, hlen, Bool.not_false, and_true, hdeg,
      if_false, Bool.false_eq_true, true_and, repTwo]
    apply vec_ext
    intro i hi
    have hsub : n / 2 + 1 - 1 = n / 2 := by omega
    by_cases h0 : i = 0
    · subst h0
      simp [repOne]
    · simp only [h0, if_false, hsub]
      by_cases hN : i = n / 2
      · simp only [hN, if_true, repOne, nth_vec]
        have : n / 2 < n / 2 + 1 := by omega
        have h0' : n / 2 ≠ 0 := by omega
        simp [this, h0', hpar]
      · simp only [hN, if_false]
        by_cases hL : i < n / 2 + 1
        · simp only [hL, if_true, repOne, nth_vec, h0, if_false]
          have : ¬ (n % 2 = 0 ∧ i = n / 2) := by omega
          simp only [this, if_false]
          exact half i (by omega) hi
        · have hL' : n - i < n / 2 + 1 := by omega
          have h0' : n - i ≠ 0 := by omega
          simp only [hL, if_false, repOne, nth_vec, hL', if_true, h0']
          have : ¬ (n % 2 = 0 ∧ n - i = n / 2) := by omega
          simp only [this, if_false]
          have e : n - (n - i) = i := by omega
          rw [e, add_comm]
          exact half i (by omega) hi

/-! ### sums -/

theorem vec_sum (n : ℕ) (f : ℕ → K) : (vec n f).sum = ∑ i ∈ range n, f i := by
  induction n with
  | zero => simp [vec]
  | succ n ih =>
    have : vec (n + 1) f = vec n f ++ [f n] := by
      simp [vec, List.range_succ]
    rw [this, List.sum_append, ih, Finset.sum_range_succ]
    simp

/-- a cyclic rotation of the index does not change the sum over a period -/
theorem sum_rotate (n m : ℕ) (hm : m ≤ n) (S : ℕ → K) :
    ∑ a ∈ range n, S ((a + m) % n) = ∑ k ∈ range n, S k := by
  have hn : n = (n - m) + m := by omega
  have hn' : n = m + (n - m) := by omega
  have e1 : ∑ a ∈ range n, S ((a + m) % n)
      = ∑ a ∈ range (n - m), S (a + m) + ∑ a ∈ range m, S a := by
    conv_lhs => rw [hn, Finset.sum_range_add]
    congr 1
    · apply Finset.sum_congr rfl
      intro a ha
      have := mem_range.mp ha
      rw [← hn, Nat.mod_eq_of_lt (by omega)]
    · apply Finset.sum_congr rfl
      intro a ha
      have := mem_range.mp ha
      have e : n - m + a + m = a + n := by omega
      rw [← hn, e, Nat.add_mod_right, Nat.mod_eq_of_lt (by omega)]
  have e2 : ∑ k ∈ range n, S k = ∑ a ∈ range m, S a + ∑ a ∈ range (n - m), S (m + a) := by
    conv_lhs => rw [hn', Finset.sum_range_add]
  rw [e1, e2, add_comm]
  congr 1
  apply Finset.sum_congr rfl
  intro a _
  rw [add_comm]

theorem repCenter_sum (n : ℕ) (S : ℕ → K) : (repCenter n S).sum = ∑ k ∈ range n, S k := by
  unfold repCenter
  rw [vec_sum, ← sum_rotate n (n - n / 2) (by omega) S]
  apply Finset.sum_congr rfl
  intro a _
  have : a + n - n / 2 = a + (n - n / 2) := by omega
  rw [this]

/-- folding by sign keeps the total: the one-sided representation sums to the two-sided total
    (no symmetry needed) -/
theorem repOne_sum {n : ℕ} (hn : 1 ≤ n) (S : ℕ → K) : (repOne n S).sum = ∑ k ∈ range n, S k := by
  unfold repOne
  rw [vec_sum, Finset.sum_range_succ']
  simp only [if_true, Nat.add_eq_zero_iff, one_ne_zero, and_false, if_false]
  rcases Nat.even_or_odd' n with ⟨m, hm | hm⟩
  · -- n = 2m, m ≥ 1
    obtain ⟨m', rfl⟩ : ∃ m', m = m' + 1 := ⟨m - 1, by omega⟩
    subst hm
    have hh : 2 * (m' + 1) / 2 = m' + 1 := by omega
    have hp : 2 * (m' + 1) % 2 = 0 := by omega
    rw [hh, Finset.sum_range_succ]
    simp only [hp, true_and, if_true]
    have e : 2 * (m' + 1) = 1 + (m' + (1 + m')) := by omega
    conv_rhs => rw [e, Finset.sum_range_add, Finset.sum_range_add, Finset.sum_range_add]
    simp only [range_one, sum_singleton, add_zero]
    rw [← Finset.sum_range_reflect (fun x => S (1 + (m' + (1 + x)))) m']
    have : ∀ k ∈ range m',
        (if k + 1 = m' + 1 then S (k + 1) else S (k + 1) + S (2 * (m' + 1) - (k + 1)))
          = S (1 + k) + S (1 + (m' + (1 + (m' - 1 - k)))) := by
      intro k hk
      have := mem_range.mp hk
      have h1 : ¬ (k + 1 = m' + 1) := by omega
      rw [if_neg h1]
      congr 2
      · omega
      · omega
    rw [Finset.sum_congr rfl this, Finset.sum_add_distrib, add_comm 1 m']
    ring
  · -- n = 2m + 1
    subst hm
    have hh : (2 * m + 1) / 2 = m := by omega
    have hp : ¬ ((2 * m + 1) % 2 = 0) := by omega
    rw [hh]
    simp only [hp, false_and, if_false]
    have e : 2 * m + 1 = 1 + (m + m) := by omega
    conv_rhs => rw [e, Finset.sum_range_add, Finset.sum_range_add]
    simp only [range_one, sum_singleton]
    rw [← Finset.sum_range_reflect (fun x => S (1 + (m + x))) m]
    have : ∀ k ∈ range m, S (k + 1) + S (2 * m + 1 - (k + 1))
          = S (1 + k) + S (1 + (m + (m - 1 - k))) := by
      intro k hk
      have := mem_range.mp hk
      congr 2
      · omega
      · omega
    rw [Finset.sum_congr rfl this, Finset.sum_add_distrib]
    ring

/-! ### frequency axes -/

theorem rangeBins_length (sd : Side) (n : ℕ) :
    (rangeBins sd n).length = match sd with
      | .one => n / 2 + 1
      | .two => n
      | .center => n := by
  cases sd
  · simp only [rangeBins, List.length_map, List.length_range]
    split_ifs <;> omega
  · simp [rangeBins]
  · simp [rangeBins]

theorem rangeBins_one_getElem (n i : ℕ) (h : i < (rangeBins .one n).length) :
    (rangeBins .one n)[i] = (i : Int) := by
  simp [rangeBins]

theorem rangeBins_two_getElem (n i : ℕ) (h : i < (rangeBins .two n).length) :
    (rangeBins .two n)[i] = (i : Int) := by
  simp [rangeBins]

theorem rangeBins_center_getElem (n i : ℕ) (h : i < (rangeBins .center n).length) :
    (rangeBins .center n)[i] = (i : Int) - ((n / 2 : ℕ) : Int) := by
  simp [rangeBins]

/-- `b ≡ r (mod n)` with `r < n` pins the two-sided index of bin `b` -/
theorem binIdx_eq {n : ℕ} (r : ℕ) (q b : Int) (hr : r < n) (h : b = (r : Int) + (n : Int) * q) :
    binIdx n b = r := by
  unfold binIdx
  rw [h, Int.add_mul_emod_self_left, Int.emod_eq_of_lt (by omega) (by omega), Int.toNat_natCast]

theorem binIdx_natCast {n i : ℕ} (hi : i < n) : binIdx n (i : Int) = i :=
  binIdx_eq i 0 _ hi (by simp)

theorem binIdx_neg_natCast {n i : ℕ} (h0 : 0 < i) (hi : i < n) : binIdx n (-(i : Int)) = n - i :=
  binIdx_eq (n - i) (-1) _ (by omega) (by omega)

theorem binIdx_center {n i : ℕ} (hi : i < n) :
    binIdx n ((i : Int) - ((n / 2 : ℕ) : Int)) = (i + n - n / 2) % n := by
  by_cases h : i < n / 2
  · rw [Nat.mod_eq_of_lt (by omega)]
    exact binIdx_eq _ (-1) _ (by omega) (by omega)
  · have e : i + n - n / 2 = (i - n / 2) + n := by omega
    rw [e, Nat.add_mod_right, Nat.mod_eq_of_lt (by omega)]
    exact binIdx_eq _ 0 _ (by omega) (by omega)

/-- entry `k` of the one-sided representation is `S` folded by sign at bin `k` -/
theorem nth_repOne_eq_foldBin {n : ℕ} (hn : 1 ≤ n) (S : ℕ → K) {k : ℕ} (hk : k < n / 2 + 1) :
    nth (repOne n S) k = foldBin n S (k : Int) := by
  unfold repOne foldBin
  rw [nth_vec, if_pos hk]
  by_cases h0 : k = 0
  · subst h0
    have z : binIdx n 0 = 0 := binIdx_eq 0 0 0 (by omega) (by simp)
    simp [z]
  · have hkn : k < n := by omega
    rw [binIdx_natCast hkn, binIdx_neg_natCast (by omega) hkn]
    simp only [h0, if_false]
    by_cases hN : n % 2 = 0 ∧ k = n / 2
    · rw [if_pos hN, if_pos (by omega)]
    · rw [if_neg hN, if_neg (by omega)]

/-! ### every stored list is a representation -/

theorem repTwo_complete {n : ℕ} (p : List K) (hp : p.length = n) : repTwo n (nth p) = p := by
  subst hp
  exact (eq_vec_nth p).symm

theorem repCenter_complete {n : ℕ} (p : List K) (hp : p.length = n) :
    repCenter n (fun k => nth p ((k + n / 2) % n)) = p := by
  subst hp
  conv_rhs => rw [eq_vec_nth p]
  unfold repCenter
  apply vec_ext
  intro a ha
  have h1 : a + p.length - p.length / 2 + p.length / 2 = a + p.length := by omega
  simp only []
  rw [Nat.mod_add_mod, h1, Nat.add_mod_right, Nat.mod_eq_of_lt ha]

/-- the symmetric two-sided spectrum that a one-sided list of `n/2+1` values stands for -/
def unfoldSpec (n : ℕ) (p : List K) (k : ℕ) : K :=
  if k = 0 then nth p 0
  else if n % 2 = 0 ∧ k = n / 2 then nth p k
  else if k < n / 2 + 1 then nth p k / 2
  else nth p (n - k) / 2

theorem unfoldSpec_symm (n : ℕ) (p : List K) : SymmSpec n (unfoldSpec n p) := by
  intro k hk0 hkn
  have e : n - (n - k) = k := by omega
  have h0 : k ≠ 0 := by omega
  have h0' : n - k ≠ 0 := by omega
  unfold unfoldSpec
  simp only [h0, h0', if_false]
  by_cases hA : n % 2 = 0 ∧ k = n / 2
  · have hA' : n % 2 = 0 ∧ n - k = n / 2 := by omega
    have : n - k = k := by omega
    rw [if_pos hA, if_pos hA', this]
  · have hA' : ¬ (n % 2 = 0 ∧ n - k = n / 2) := by omega
    rw [if_neg hA, if_neg hA']
    by_cases hL : k < n / 2 + 1
    · have hL' : ¬ (n - k < n / 2 + 1) := by omega
      rw [if_pos hL, if_neg hL', e]
    · have hL' : n - k < n / 2 + 1 := by omega
      rw [if_neg hL, if_pos hL']

theorem repOne_complete (h2 : (2 : K) ≠ 0) {n : ℕ} (p : List K) (hp : p.length = n / 2 + 1) :
    repOne n (unfoldSpec n p) = p := by
  conv_rhs => rw [eq_vec_nth p, hp]
  unfold repOne
  apply vec_ext
  intro k hk
  by_cases h0 : k = 0
  · subst h0
    simp [unfoldSpec]
  · by_cases hA : n % 2 = 0 ∧ k = n / 2
    · unfold unfoldSpec
      rw [if_neg h0, if_pos hA, if_neg h0, if_pos hA]
    · have h0' : n - k ≠ 0 := by omega
      have hA' : ¬ (n % 2 = 0 ∧ n - k = n / 2) := by omega
      have hL' : ¬ (n - k < n / 2 + 1) := by omega
      have e : n - (n - k) = k := by omega
      simp only [h0, if_false, hA, unfoldSpec, hk, if_true, h0', hA', hL', e]
      rw [← add_div, ← two_mul, mul_div_cancel_left₀ _ h2]

end Lemmas
end SpecVerif
