import SpecVerif.Proofs.Lemmas.Basic
import SpecVerif.Proofs.Lemmas.Arma
import SpecVerif.Proofs.Lemmas.Sides
import SpecVerif.Proofs.Lemmas.Eigen
import SpecVerif.Model.ClassGlue
import SpecVerif.Model.Object
import SpecVerif.Proofs.C08
import Mathlib.Analysis.RCLike.Basic
/-
  Helper lemmas for `Proofs/C02.lean` ("every estimator puts spectral values on the frequency axis it
  reports"): the three `__call__` glues (`classCall`) unfolded, `scale()` entry-wise, the length of the
  stored PSD against the length of the default frequency axis, index arithmetic of the centre-DC axis,
  and the triangle-inequality bound for the windowed DFT of an on-grid complex exponential.
-/
namespace SpecVerif.PlaceL
open Finset SpecVerif SpecVerif.ArmaL

/-! ### arithmetic of the one-sided length -/

/-- `NFFT/2+1` (even) / `(NFFT+1)/2` (odd) is `NFFT/2 + 1` for either parity -/
theorem oneSided_len_arith (nfft : ℕ) :
    (if nfft % 2 = 0 then nfft / 2 + 1 else (nfft + 1) / 2) = nfft / 2 + 1 := by
  split_ifs <;> omega

/-- for an odd `NFFT` the `rfft` length `NFFT/2+1` is `(NFFT+1)/2` -/
theorem rfft_len_odd {nfft : ℕ} (h : nfft % 2 = 1) : nfft / 2 + 1 = (nfft + 1) / 2 := by omega

/-- the one-sided length never exceeds `NFFT` when `NFFT ≥ 1` -/
theorem oneSided_len_le {nfft : ℕ} (hn : 0 < nfft) :
    (if nfft % 2 = 0 then nfft / 2 + 1 else (nfft + 1) / 2) ≤ nfft := by
  split_ifs <;> omega

/-- length of the default frequency axis -/
theorem defaultAxis_length (isReal : Bool) (nfft : ℕ) :
    (rangeBins (defaultSide (!isReal)) nfft).length
      = if isReal then (if nfft % 2 = 0 then nfft / 2 + 1 else (nfft + 1) / 2) else nfft := by
  cases isReal <;> simp [defaultSide, rangeBins]

section Glue
variable {K : Type} [Field K]

/-! ### `scale()` -/

theorem scalePsd_length (p : List K) (s : Bool) (twoPi fs : K) (n : ℕ) :
    (scalePsd p s twoPi fs n).length = p.length := by
  cases s <;> simp [scalePsd]

theorem nth_scalePsd (p : List K) (s : Bool) (twoPi fs : K) (n k : ℕ) :
    nth (scalePsd p s twoPi fs n) k = nth p k * (if s then twoPi / (fs / (n : K)) else 1) := by
  cases s
  · simp [scalePsd]
  · simp only [scalePsd, if_true]
    rw [nth_map_mul_right]

theorem scalePsd_true (p : List K) (twoPi fs : K) (n : ℕ) :
    scalePsd p true twoPi fs n
      = (scalePsd p false twoPi fs n).map (fun v => v * (twoPi / (fs / (n : K)))) := by
  simp [scalePsd]

/-! ### the three glues unfolded -/

theorem classCall_fold2 (raw : List K) (isReal : Bool) (nfft : ℕ) (s : Bool) (twoPi fs : K) :
    classCall .fold2 raw isReal nfft s twoPi fs = classPsd raw isReal nfft s twoPi fs := rfl

theorem classCall_take (raw : List K) (isReal : Bool) (nfft : ℕ) (s : Bool) (twoPi fs : K) :
    classCall .take raw isReal nfft s twoPi fs
      = scalePsd (if isReal then takeReal raw nfft else raw) s twoPi fs nfft := rfl

theorem classCall_eigen (raw : List K) (isReal : Bool) (nfft : ℕ) (s : Bool) (twoPi fs : K) :
    classCall .eigen raw isReal nfft s twoPi fs
      = scalePsd (eigenClassFold raw isReal nfft) s twoPi fs nfft := rfl

/-- `scale()` is applied exactly once, for every glue -/
theorem classCall_true (kind : GlueKind) (raw : List K) (isReal : Bool) (nfft : ℕ) (twoPi fs : K) :
    classCall kind raw isReal nfft true twoPi fs
      = (classCall kind raw isReal nfft false twoPi fs).map
          (fun v => v * (twoPi / (fs / (nfft : K)))) := by
  cases kind
  · rw [classCall_fold2, classCall_fold2]; exact scalePsd_true _ _ _ _
  · rw [classCall_take, classCall_take]; exact scalePsd_true _ _ _ _
  · rw [classCall_eigen, classCall_eigen]; exact scalePsd_true _ _ _ _

theorem takeReal_length (raw : List K) (nfft : ℕ) : (takeReal raw nfft).length = nfft / 2 + 1 := by
  simp [takeReal]

theorem nth_takeReal (raw : List K) (nfft j : ℕ) (hj : j < nfft / 2 + 1) :
    nth (takeReal raw nfft) j = nth raw j := by
  unfold takeReal
  rw [nth_vec, if_pos hj]

theorem eigenClassFold_length (psd : List K) (isReal : Bool) (nfft : ℕ) (h : psd.length = nfft) :
    (eigenClassFold psd isReal nfft).length
      = if isReal then (if nfft % 2 = 0 then nfft / 2 + 1 else (nfft + 1) / 2) else nfft := by
  cases isReal
  · simp [eigenClassFold, ifftshift, h]
  · simp [eigenClassFold]

/-- length of what any class stores, for a raw estimate of `NFFT` values -/
theorem classCall_length (kind : GlueKind) (raw : List K) (isReal : Bool) (nfft : ℕ) (s : Bool)
    (twoPi fs : K) (hraw : raw.length = nfft) :
    (classCall kind raw isReal nfft s twoPi fs).length
      = if isReal then (if nfft % 2 = 0 then nfft / 2 + 1 else (nfft + 1) / 2) else nfft := by
  cases kind
  · rw [classCall_fold2, classPsd, scalePsd_length]
    cases isReal
    · simpa using hraw
    · simp [foldReal]
  · rw [classCall_take, scalePsd_length]
    cases isReal
    · simpa using hraw
    · simp only [if_true]
      rw [takeReal_length, oneSided_len_arith]
  · rw [classCall_eigen, scalePsd_length, eigenClassFold_length _ _ _ hraw]

/-! ### unscaled entries of the three glues -/

theorem nth_fold2_real (raw : List K) (nfft : ℕ) (twoPi fs : K) (j : ℕ) (hj : j < nfft / 2 + 1) :
    nth (classCall .fold2 raw true nfft false twoPi fs) j = 2 * nth raw j := by
  rw [classCall_fold2, classPsd_false]
  simp only [if_true]
  unfold foldReal
  rw [oneSided_len_arith, nth_vec, if_pos hj, Nat.cast_ofNat]

theorem nth_call_complex (kind : GlueKind) (hk : kind ≠ .eigen) (raw : List K) (nfft : ℕ)
    (twoPi fs : K) (j : ℕ) :
    nth (classCall kind raw false nfft false twoPi fs) j = nth raw j := by
  cases kind
  · rw [classCall_fold2, classPsd_false]; simp
  · rw [classCall_take]; simp [scalePsd]
  · exact absurd rfl hk

theorem nth_take_real (raw : List K) (nfft : ℕ) (twoPi fs : K) (j : ℕ) (hj : j < nfft / 2 + 1) :
    nth (classCall .take raw true nfft false twoPi fs) j = nth raw j := by
  rw [classCall_take]
  simp only [if_true, scalePsd, Bool.false_eq_true, if_false]
  exact nth_takeReal raw nfft j hj

theorem nth_eigen_unscaled (raw : List K) (isReal : Bool) (nfft : ℕ) (twoPi fs : K) (j : ℕ) :
    nth (classCall .eigen raw isReal nfft false twoPi fs) j
      = nth (eigenClassFold raw isReal nfft) j := by
  rw [classCall_eigen]; simp [scalePsd]

/-- unscaled entry of the `fold2` glue, both kinds of data: `c·raw[j]`, `c = 2` for real data -/
theorem nth_fold2 (raw : List K) (isReal : Bool) (nfft : ℕ) (twoPi fs : K) (j : ℕ)
    (hj : j < if isReal then nfft / 2 + 1 else nfft) :
    nth (classCall .fold2 raw isReal nfft false twoPi fs) j
      = (if isReal then 2 else 1) * nth raw j := by
  cases isReal
  · rw [nth_call_complex .fold2 (by decide)]; simp
  · simp only [if_true] at hj ⊢
    exact nth_fold2_real raw nfft twoPi fs j hj

/-- a kept index is a valid two-sided index -/
theorem kept_lt_nfft {isReal : Bool} {nfft j : ℕ} (hn : 0 < nfft)
    (hj : j < if isReal then nfft / 2 + 1 else nfft) : j < nfft := by
  cases isReal
  · simpa using hj
  · simp only [if_true] at hj; omega

/-- the frequency axis of C08 (`rangeBins` coerced to `K`, times `df`) as a plain `map` -/
theorem freqAxis_eq_map (sd : Side) (nfft : ℕ) (fs : K) :
    C08.freqAxis sd nfft fs
      = (rangeBins sd nfft).map (fun b : Int => (b : K) * (fs / (nfft : K))) := by
  unfold C08.freqAxis
  have : ∀ l : List Int, (List.flatMap (fun a : ℤ => [(Int.cast a : K)]) l : List K)
      = l.map (fun b : Int => (Int.cast b : K)) := by
    intro l
    induction l with
    | nil => rfl
    | cons a l ih => rw [List.flatMap_cons, ih]; rfl
  refine Eq.trans (congrArg _ (this _)) ?_
  rw [List.map_map]
  rfl

end Glue

/-! ### the centre-DC axis -/

/-- the centre-DC index `(j + n/2) mod n` reports the frequency bin `j` (mod `n`) -/
theorem center_index_bin {n j : ℕ} (hj : j < n) :
    ∃ h : (j + n / 2) % n < (rangeBins .center n).length,
      binIdx n ((rangeBins .center n)[(j + n / 2) % n]) = j := by
  have hlt : (j + n / 2) % n < n := Nat.mod_lt _ (by omega)
  have hlen : (rangeBins .center n).length = n := by simp [rangeBins]
  refine ⟨by rw [hlen]; exact hlt, ?_⟩
  rw [rangeBins_center_getElem]
  by_cases h1 : j + n / 2 < n
  · rw [Nat.mod_eq_of_lt h1]
    exact binIdx_eq j 0 _ hj (by push_cast; ring)
  · have e : (j + n / 2) % n = j + n / 2 - n := by
      have e' : j + n / 2 = (j + n / 2 - n) + n := by omega
      conv_lhs => rw [e']
      rw [Nat.add_mod_right, Nat.mod_eq_of_lt (by omega)]
    rw [e]
    exact binIdx_eq j (-1) _ hj (by omega)

/-- the centre-DC index `n/2 - j` reports the frequency bin `-j` -/
theorem center_index_neg {n j : ℕ} (hn : 0 < n) (hj : j ≤ n / 2) :
    ∃ h : n / 2 - j < (rangeBins .center n).length,
      (rangeBins .center n)[n / 2 - j] = -(j : Int) := by
  have hlen : (rangeBins .center n).length = n := by simp [rangeBins]
  refine ⟨by rw [hlen]; omega, ?_⟩
  rw [rangeBins_center_getElem]
  omega

/-! ### the windowed DFT of an on-grid complex exponential -/

section Tone
variable {F : Type} [RCLike F]

theorem norm_root_eq_one {ω : F} {n : ℕ} (hn : 0 < n) (hω : ω ^ n = 1) : ‖ω‖ = 1 := by
  have h : ‖ω‖ ^ n = 1 := by rw [← norm_pow, hω, norm_one]
  exact (pow_eq_one_iff_of_nonneg (norm_nonneg ω) (by omega)).mp h

theorem root_ne_zero {ω : F} {n : ℕ} (hn : 0 < n) (hω : ω ^ n = 1) : ω ≠ 0 := by
  intro h
  rw [h, zero_pow (by omega)] at hω
  exact zero_ne_one hω

/-- triangle inequality: `‖Σ_n A ω^{-k0 n} w_n ω^{nk}‖ ≤ ‖A‖ Σ w_n` for real `w_n ≥ 0`, `‖ω‖ = 1` -/
theorem tone_dft_le {ω : F} (h1 : ‖ω‖ = 1) (A : F) (k0 N : ℕ) (wr : ℕ → ℝ)
    (hw0 : ∀ n, n < N → 0 ≤ wr n) (k : ℕ) :
    ‖∑ n ∈ range N, (A * ω⁻¹ ^ (k0 * n) * (wr n : F)) * ω ^ (n * k)‖
      ≤ ‖A‖ * ∑ n ∈ range N, wr n := by
  refine le_trans (norm_sum_le _ _) ?_
  rw [Finset.mul_sum]
  apply Finset.sum_le_sum
  intro n hn
  rw [norm_mul, norm_mul, norm_mul, norm_pow, norm_pow, norm_inv, h1, inv_one, one_pow, one_pow,
    mul_one, mul_one, RCLike.norm_ofReal, abs_of_nonneg (hw0 n (mem_range.mp hn))]

/-- at the tone's own bin every term is `A w_n`: the bound is attained -/
theorem tone_dft_at {ω : F} (h0 : ω ≠ 0) (A : F) (k0 N : ℕ) (wr : ℕ → ℝ)
    (hw0 : ∀ n, n < N → 0 ≤ wr n) :
    ‖∑ n ∈ range N, (A * ω⁻¹ ^ (k0 * n) * (wr n : F)) * ω ^ (n * k0)‖
      = ‖A‖ * ∑ n ∈ range N, wr n := by
  have hterm : ∀ n ∈ range N, (A * ω⁻¹ ^ (k0 * n) * (wr n : F)) * ω ^ (n * k0)
      = A * (wr n : F) := by
    intro n _
    have : ω⁻¹ ^ (k0 * n) * ω ^ (n * k0) = 1 := by
      rw [mul_comm n k0, ← mul_pow, inv_mul_cancel₀ h0, one_pow]
    calc (A * ω⁻¹ ^ (k0 * n) * (wr n : F)) * ω ^ (n * k0)
        = A * (wr n : F) * (ω⁻¹ ^ (k0 * n) * ω ^ (n * k0)) := by ring
      _ = A * (wr n : F) := by rw [this, mul_one]
  rw [Finset.sum_congr rfl hterm, ← Finset.mul_sum, norm_mul, ← RCLike.ofReal_sum,
    RCLike.norm_ofReal, abs_of_nonneg (Finset.sum_nonneg (fun n hn => hw0 n (mem_range.mp hn)))]

/-- `z · star z / N` is the real number `‖z‖²/N` -/
theorem abs2_div_eq_ofReal (z : F) (N : ℕ) :
    z * star z / (N : F) = ((‖z‖ ^ 2 / (N : ℝ) : ℝ) : F) := by
  rw [EigenL.mul_star_eq_ofReal, RCLike.ofReal_div, RCLike.ofReal_natCast]

end Tone

end SpecVerif.PlaceL
