import SpecVerif.Proofs.Lemmas.Basic
import SpecVerif.Model.Levinson
import Mathlib.Algebra.BigOperators.Intervals
import Mathlib.Algebra.Field.Basic
import Mathlib.Algebra.Star.BigOperators
import Mathlib.Tactic.FieldSimp
import Mathlib.Tactic.Ring
import Mathlib.Tactic.LinearCombination
/-
  Helper lemmas for C10 (Levinson recursion, Hermitian Toeplitz solver).

  Part 1: the Levinson induction step on coefficient *functions* `ℕ → K`.
  Part 2: the connection with the list-based model (`levup`, `levStep`, `levRun`, `hermRun`).
-/
namespace SpecVerif
open Finset

set_option linter.unusedSectionVars false

variable {K : Type} [Field K] [StarRing K]

/-! ### Part 1: the step on coefficient functions -/

/-- Hermitian Toeplitz entry built from the autocorrelation sequence `r`. -/
def hR (r : ℕ → K) (i j : ℕ) : K := if j ≤ i then r (i - j) else star (r (j - i))

theorem hR_star (r : ℕ → K) (h0 : star (r 0) = r 0) (i j : ℕ) : star (hR r i j) = hR r j i := by
  unfold hR
  rcases lt_trichotomy i j with h | h | h
  · simp [h.le, not_le.mpr h]
  · subst h; simp [h0]
  · simp [h.le, not_le.mpr h]

theorem hR_succ (r : ℕ → K) (i j : ℕ) : hR r (i + 1) (j + 1) = hR r i j := by
  unfold hR; simp

/-- the order-`m` normal equations: `T_m [α_0..α_m]ᵀ = [P,0,..,0]ᵀ`. -/
def LevEq (r : ℕ → K) (m : ℕ) (α : ℕ → K) (P : K) : Prop :=
  ∀ i, i ≤ m → ∑ j ∈ range (m + 1), hR r i j * α j = if i = 0 then P else 0

/-- the conjugate-reversed equations. -/
def LevEqRev (r : ℕ → K) (m : ℕ) (α : ℕ → K) (P : K) : Prop :=
  ∀ i, i ≤ m → ∑ j ∈ range (m + 1), hR r i j * star (α (m - j)) = if i = m then P else 0

theorem LevEqRev_of_LevEq (r : ℕ → K) (h0 : star (r 0) = r 0) (m : ℕ) (α : ℕ → K) (P : K) (hP : star P = P)
    (h : LevEq r m α P) : LevEqRev r m α P := by
  intro i hi
  have key := h (m - i) (Nat.sub_le _ _)
  -- take star of key and reflect the sum
  have := congrArg star key
  rw [star_sum] at this
  rw [← Finset.sum_range_reflect] at this
  have e : ∀ j ∈ range (m + 1), star (hR r (m - i) (m + 1 - 1 - j) * α (m + 1 - 1 - j))
      = hR r i j * star (α (m - j)) := by
    intro j hj
    have hj' : j ≤ m := Nat.lt_succ_iff.mp (mem_range.mp hj)
    rw [star_mul', hR_star r h0]
    congr 1
    simp only [Nat.add_sub_cancel]
    unfold hR
    by_cases hji : j ≤ i
    · have : m - i ≤ m - j := Nat.sub_le_sub_left hji m
      simp only [hji, this, if_true]
      congr 1; omega
    · have h1 : ¬ (m - i ≤ m - j) := by omega
      simp only [hji, h1, if_false]
      congr 2; omega
  rw [Finset.sum_congr rfl e] at this
  rw [this]
  by_cases him : i = m
  · subst him; simp [hP]
  · have : m - i ≠ 0 := by omega
    simp [this, him]

/-- one Levinson step on coefficient functions. -/
def stepα (α : ℕ → K) (m : ℕ) (k : K) : ℕ → K := fun j =>
  (if j ≤ m then α j else 0) + k * (if 1 ≤ j ∧ j ≤ m + 1 then star (α (m + 1 - j)) else 0)

def levDelta (r : ℕ → K) (m : ℕ) (α : ℕ → K) : K := ∑ j ∈ range (m + 1), hR r (m + 1) j * α j

theorem levinson_step_fun (r : ℕ → K) (h0 : star (r 0) = r 0) (m : ℕ) (α : ℕ → K) (P : K)
    (hP : star P = P) (hP0 : P ≠ 0) (h : LevEq r m α P) :
    LevEq r (m + 1) (stepα α m (-(levDelta r m α) / P)) (P * (1 - (-(levDelta r m α) / P) * star (-(levDelta r m α) / P))) := by
  set d := levDelta r m α with hd
  set k := -d / P with hk
  have h2 := LevEqRev_of_LevEq r h0 m α P hP h
  intro i hi
  -- split the sum into the two parts
  have split : ∑ j ∈ range (m + 2), hR r i j * stepα α m k j
      = (∑ j ∈ range (m + 1), hR r i j * α j)
        + k * ∑ j ∈ range (m + 1), hR r i (j + 1) * star (α (m - j)) := by
    unfold stepα
    simp only [mul_add, Finset.sum_add_distrib]
    congr 1
    · rw [Finset.sum_range_succ]
      have : ¬ (m + 1 ≤ m) := by omega
      simp only [this, if_false, mul_zero, add_zero]
      apply Finset.sum_congr rfl
      intro j hj
      have : j ≤ m := Nat.lt_succ_iff.mp (mem_range.mp hj)
      simp [this]
    · rw [Finset.sum_range_succ' _ (m + 1)]
      have hz : ¬ ((1:ℕ) ≤ 0 ∧ 0 ≤ m + 1) := by omega
      rw [if_neg hz, mul_zero, mul_zero, add_zero]
      rw [Finset.mul_sum]
      apply Finset.sum_congr rfl
      intro j hj
      have : j ≤ m := Nat.lt_succ_iff.mp (mem_range.mp hj)
      have h1 : 1 ≤ j + 1 ∧ j + 1 ≤ m + 1 := by omega
      simp only [h1, and_self, if_true]
      have : m + 1 - (j + 1) = m - j := by omega
      rw [this]; ring
  rw [show m + 1 + 1 = m + 2 from rfl, split]
  rcases Nat.eq_zero_or_pos i with hi0 | hipos
  · -- row 0
    subst hi0
    rw [h 0 (Nat.zero_le _)]
    simp only [if_true]
    -- second sum = star d
    have hs : ∑ j ∈ range (m + 1), hR r 0 (j + 1) * star (α (m - j)) = star d := by
      rw [hd]; unfold levDelta
      rw [star_sum, ← Finset.sum_range_reflect]
      apply Finset.sum_congr rfl
      intro j hj
      have hj' : j ≤ m := Nat.lt_succ_iff.mp (mem_range.mp hj)
      rw [star_mul', hR_star r h0]
      have e1 : m - (m + 1 - 1 - j) = j := by omega
      have e2 : ¬ (m + 1 - 1 - j + 1 ≤ 0) := by omega
      have e3 : ¬ (m + 1 ≤ j) := by omega
      have e4 : m + 1 - 1 - j + 1 - 0 = m + 1 - j := by omega
      unfold hR
      rw [e1, if_neg e2, if_neg e3, e4]
    rw [hs, hk]
    have hsd : star (-d / P) = -star d / P := by
      rw [star_div₀, star_neg, hP]
    rw [hsd]
    field_simp
    ring
  · -- rows 1..m+1
    obtain ⟨i', rfl⟩ : ∃ i', i = i' + 1 := ⟨i - 1, by omega⟩
    have hi' : i' ≤ m := by omega
    have hs : ∑ j ∈ range (m + 1), hR r (i' + 1) (j + 1) * star (α (m - j))
        = if i' = m then P else 0 := by
      simp only [hR_succ]
      exact h2 i' hi'
    rw [hs]
    simp only [Nat.succ_ne_zero, if_false]
    by_cases him : i' = m
    · subst him
      simp only [if_true]
      have : ∑ j ∈ range (i' + 1), hR r (i' + 1) j * α j = d := by rw [hd]; rfl
      rw [this, hk]
      field_simp
      ring
    · have hlt : i' + 1 ≤ m := by omega
      rw [h (i' + 1) hlt]
      simp [him]

/-! ### Part 2: the list-based model -/

/-- the autocorrelation sequence `r_0 = r0`, `r_j = T[j-1]` (`T = r[1:]`) -/
def rseq (r0 : K) (T : List K) : ℕ → K := fun j => if j = 0 then r0 else nth T (j - 1)

/-- the prediction polynomial `[1, a_1, …, a_m]` as a function: `α 0 = 1`, `α (j+1) = A[j]` -/
def alphaOf (A : List K) : ℕ → K := fun j => if j = 0 then 1 else nth A (j - 1)

@[simp] theorem rseq_zero (r0 : K) (T : List K) : rseq r0 T 0 = r0 := rfl
@[simp] theorem rseq_succ (r0 : K) (T : List K) (j : ℕ) : rseq r0 T (j + 1) = nth T j := rfl
@[simp] theorem alphaOf_zero (A : List K) : alphaOf A 0 = 1 := rfl
@[simp] theorem alphaOf_succ (A : List K) (j : ℕ) : alphaOf A (j + 1) = nth A j := rfl

@[simp] theorem levup_length (a : List K) (k : K) : (levup a k).length = a.length + 1 := by
  simp [levup]

theorem nth_levup (a : List K) (k : K) (j : ℕ) :
    nth (levup a k) j = if j < a.length then nth a j + k * star (nth a (a.length - 1 - j))
      else if j = a.length then k else 0 := by
  unfold levup
  rw [nth_vec]
  by_cases h1 : j < a.length
  · have : j < a.length + 1 := by omega
    simp [h1, this]
  · by_cases h2 : j = a.length
    · subst h2; simp
    · have : ¬ j < a.length + 1 := by omega
      simp [h1, h2, this]

/-- `levup` on lists is `stepα` on coefficient functions -/
theorem alphaOf_levup (a : List K) (k : K) :
    alphaOf (levup a k) = stepα (alphaOf a) a.length k := by
  funext j
  unfold stepα
  rcases j with _ | i
  · simp
  · rw [alphaOf_succ, nth_levup]
    by_cases h1 : i < a.length
    · have e1 : i + 1 ≤ a.length := h1
      have e2 : 1 ≤ i + 1 ∧ i + 1 ≤ a.length + 1 := by omega
      have e3 : a.length + 1 - (i + 1) = (a.length - 1 - i) + 1 := by omega
      rw [if_pos h1, if_pos e1, if_pos e2, e3, alphaOf_succ, alphaOf_succ]
    · by_cases h2 : i = a.length
      · subst h2
        have e1 : ¬ (a.length + 1 ≤ a.length) := by omega
        have e2 : 1 ≤ a.length + 1 ∧ a.length + 1 ≤ a.length + 1 := by omega
        rw [if_neg h1, if_pos rfl, if_neg e1, if_pos e2, Nat.sub_self, alphaOf_zero, star_one,
          mul_one, zero_add]
      · have e1 : ¬ (i + 1 ≤ a.length) := by omega
        have e2 : ¬ (1 ≤ i + 1 ∧ i + 1 ≤ a.length + 1) := by omega
        rw [if_neg h1, if_neg h2, if_neg e1, if_neg e2, mul_zero, add_zero]

/-- the `save` of `levStep` / `hermStep` is the prototype's `levDelta` -/
theorem save_eq_levDelta (r0 : K) (T A : List K) (k : ℕ) :
    nth T k + sumR k (fun j => nth A j * nth T (k - j - 1))
      = levDelta (rseq r0 T) k (alphaOf A) := by
  unfold levDelta
  rw [sumR_eq_sum, Finset.sum_range_succ']
  have e0 : hR (rseq r0 T) (k + 1) 0 * alphaOf A 0 = nth T k := by
    simp [hR]
  rw [e0, add_comm]
  congr 1
  apply Finset.sum_congr rfl
  intro j hj
  have hj' : j < k := mem_range.mp hj
  have h1 : j + 1 ≤ k + 1 := by omega
  have h2 : k + 1 - (j + 1) = (k - j - 1) + 1 := by omega
  unfold hR
  rw [if_pos h1, h2, rseq_succ, alphaOf_succ, mul_comm]

theorem levRun_succ (r0 : K) (T : List K) (k : ℕ) :
    levRun r0 T (k + 1) = levStep T (levRun r0 T k) k := rfl

/-- the reflection coefficient computed at stage `k+1` -/
def levK (r0 : K) (T : List K) (k : ℕ) : K :=
  -(levDelta (rseq r0 T) k (alphaOf (levRun r0 T k).A)) / (levRun r0 T k).P

theorem levRun_succ_A (r0 : K) (T : List K) (k : ℕ) :
    (levRun r0 T (k + 1)).A = levup (levRun r0 T k).A (levK r0 T k) := by
  rw [levRun_succ]; unfold levStep levK
  simp only [save_eq_levDelta r0]

theorem levRun_succ_P (r0 : K) (T : List K) (k : ℕ) :
    (levRun r0 T (k + 1)).P
      = (levRun r0 T k).P * (1 - levK r0 T k * star (levK r0 T k)) := by
  rw [levRun_succ]; unfold levStep levK
  simp only [save_eq_levDelta r0, abs2_eq]

theorem levRun_succ_ref (r0 : K) (T : List K) (k : ℕ) :
    (levRun r0 T (k + 1)).ref = (levRun r0 T k).ref ++ [levK r0 T k] := by
  rw [levRun_succ]; unfold levStep levK
  simp only [save_eq_levDelta r0]

theorem levRun_A_length (r0 : K) (T : List K) (k : ℕ) : (levRun r0 T k).A.length = k := by
  induction k with
  | zero => rfl
  | succ k ih => rw [levRun_succ_A, levup_length, ih]

theorem levRun_ref_length (r0 : K) (T : List K) (k : ℕ) : (levRun r0 T k).ref.length = k := by
  induction k with
  | zero => rfl
  | succ k ih => rw [levRun_succ_ref, List.length_append, ih]; rfl

theorem levRun_P_star (r0 : K) (T : List K) (h0 : star r0 = r0) (k : ℕ) :
    star (levRun r0 T k).P = (levRun r0 T k).P := by
  induction k with
  | zero => exact h0
  | succ k ih =>
    rw [levRun_succ_P, star_mul', ih, star_sub, star_one, star_mul', star_star, mul_comm (star _)]

/-- the main invariant: after `p` stages with non-vanishing earlier errors the normal equations hold -/
theorem levRun_LevEq (r0 : K) (T : List K) (h0 : star r0 = r0) (p : ℕ)
    (hP : ∀ j, j < p → (levRun r0 T j).P ≠ 0) :
    LevEq (rseq r0 T) p (alphaOf (levRun r0 T p).A) (levRun r0 T p).P := by
  induction p with
  | zero =>
    intro i hi
    have : i = 0 := by omega
    subst this
    simp [hR, levRun]
  | succ p ih =>
    have ih' := ih (fun j hj => hP j (by omega))
    have step := levinson_step_fun (rseq r0 T) h0 p (alphaOf (levRun r0 T p).A) (levRun r0 T p).P
      (levRun_P_star r0 T h0 p) (hP p (by omega)) ih'
    rw [levRun_succ_A, levRun_succ_P, alphaOf_levup, levRun_A_length]
    exact step

theorem nth_levRun_ref (r0 : K) (T : List K) (p i : ℕ) (hi : i < p) :
    nth (levRun r0 T p).ref i = levK r0 T i := by
  induction p with
  | zero => omega
  | succ p ih =>
    rw [levRun_succ_ref]
    by_cases h : i < p
    · rw [← ih h]
      unfold nth
      rw [List.getD_eq_getElem?_getD, List.getD_eq_getElem?_getD,
        List.getElem?_append_left (by rw [levRun_ref_length]; exact h)]
    · have : i = p := by omega
      subst this
      unfold nth
      rw [List.getD_eq_getElem?_getD,
        List.getElem?_append_right (by rw [levRun_ref_length])]
      simp [levRun_ref_length]

theorem levRun_P_prod (r0 : K) (T : List K) (p : ℕ) :
    (levRun r0 T p).P = r0 * ∏ i ∈ range p, (1 - levK r0 T i * star (levK r0 T i)) := by
  induction p with
  | zero => simp [levRun]
  | succ p ih => rw [levRun_succ_P, ih, Finset.prod_range_succ, mul_assoc]

theorem levRun_ref_take (r0 : K) (T : List K) (q p : ℕ) (h : q ≤ p) :
    (levRun r0 T q).ref = (levRun r0 T p).ref.take q := by
  induction p with
  | zero =>
    have : q = 0 := by omega
    subst this; rfl
  | succ p ih =>
    by_cases hq : q ≤ p
    · rw [levRun_succ_ref, List.take_append_of_le_length (by rw [levRun_ref_length]; exact hq)]
      exact ih hq
    · have : q = p + 1 := by omega
      subst this
      rw [List.take_of_length_le (by rw [levRun_ref_length])]

theorem levRun_A_last (r0 : K) (T : List K) (p : ℕ) :
    nth (levRun r0 T (p + 1)).A p = levK r0 T p := by
  rw [levRun_succ_A, nth_levup, levRun_A_length]
  simp

/-- the guard of the wrappers: "some stage `1..n` satisfies `f`" -/
theorem any_range_succ_iff (f : ℕ → Bool) (n : ℕ) :
    (List.range n).any (fun j => f (j + 1)) = true ↔ ∃ j, 1 ≤ j ∧ j ≤ n ∧ f j = true := by
  rw [List.any_eq_true]
  constructor
  · rintro ⟨j, hj, hf⟩
    exact ⟨j + 1, by omega, by have := List.mem_range.mp hj; omega, hf⟩
  · rintro ⟨j, h1, h2, hf⟩
    refine ⟨j - 1, List.mem_range.mpr (by omega), ?_⟩
    have : j - 1 + 1 = j := by omega
    rw [this]; exact hf

theorem any_range_succ_false_iff (f : ℕ → Bool) (n : ℕ) :
    (List.range n).any (fun j => f (j + 1)) = false ↔ ∀ j, 1 ≤ j → j ≤ n → f j = false := by
  rw [← Bool.not_eq_true, any_range_succ_iff]
  constructor
  · intro h j h1 h2
    by_contra hf
    exact h ⟨j, h1, h2, by simpa using hf⟩
  · rintro h ⟨j, h1, h2, hf⟩
    rw [h j h1 h2] at hf; exact Bool.noConfusion hf

/-! ### the quadratic form at the Levinson solution -/

theorem sum_range_ite_le (f : ℕ → K) (m p : ℕ) (h : m ≤ p) :
    ∑ j ∈ range (p + 1), (if j ≤ m then f j else 0) = ∑ j ∈ range (m + 1), f j := by
  rw [← Finset.sum_filter]
  apply Finset.sum_congr _ (fun _ _ => rfl)
  ext j
  simp only [mem_filter, mem_range]
  omega

/-- `[1,a]ᴴ T [1,a] = P` : the Hermitian form of the (zero-extended) Levinson solution is the error -/
theorem levEq_quadForm (r : ℕ → K) (m p : ℕ) (hmp : m ≤ p) (α : ℕ → K) (P : K)
    (h : LevEq r m α P) :
    ∑ i ∈ range (p + 1), ∑ j ∈ range (p + 1),
        star (if i ≤ m then α i else 0) * hR r i j * (if j ≤ m then α j else 0)
      = star (α 0) * P := by
  have inner : ∀ i, ∑ j ∈ range (p + 1),
        star (if i ≤ m then α i else 0) * hR r i j * (if j ≤ m then α j else 0)
      = if i ≤ m then star (α i) * ∑ j ∈ range (m + 1), hR r i j * α j else 0 := by
    intro i
    by_cases hi : i ≤ m
    · rw [if_pos hi, if_pos hi, Finset.mul_sum, ← sum_range_ite_le _ m p hmp]
      apply Finset.sum_congr rfl
      intro j _
      by_cases hj : j ≤ m
      · rw [if_pos hj, if_pos hj, mul_assoc]
      · rw [if_neg hj, if_neg hj, mul_zero]
    · rw [if_neg hi, if_neg hi, star_zero]
      simp
  rw [Finset.sum_congr rfl (fun i _ => inner i), sum_range_ite_le _ m p hmp,
    Finset.sum_range_succ']
  rw [h 0 (Nat.zero_le _), if_pos rfl]
  have : ∑ i ∈ range m, star (α (i + 1)) * ∑ j ∈ range (m + 1), hR r (i + 1) j * α j = 0 := by
    apply Finset.sum_eq_zero
    intro i hi
    rw [h (i + 1) (by have := mem_range.mp hi; omega), if_neg (Nat.succ_ne_zero i), mul_zero]
  rw [this, zero_add]

/-! ### the Hermitian Toeplitz solver -/

/-- the solution update on functions: from a solution `x` of the leading `(k+1)` system and the
reversed Levinson vector of order `k+1`, build a solution of the leading `(k+2)` system. -/
theorem herm_step_fun (r : ℕ → K) (k : ℕ) (x z α' : ℕ → K) (P' : K) (hP' : P' ≠ 0)
    (hx : ∀ i, i ≤ k → ∑ j ∈ range (k + 1), hR r i j * x j = z i)
    (hα : LevEqRev r (k + 1) α' P') (x' : ℕ → K)
    (hx' : ∀ j, j ≤ k + 1 → x' j = (if j ≤ k then x j else 0)
      + (z (k + 1) - ∑ j ∈ range (k + 1), hR r (k + 1) j * x j) / P' * star (α' (k + 1 - j))) :
    ∀ i, i ≤ k + 1 → ∑ j ∈ range (k + 1 + 1), hR r i j * x' j = z i := by
  intro i hi
  set beta := ∑ j ∈ range (k + 1), hR r (k + 1) j * x j with hb
  set alpha := (z (k + 1) - beta) / P' with ha
  have split : ∑ j ∈ range (k + 1 + 1), hR r i j * x' j
      = (∑ j ∈ range (k + 1), hR r i j * x j)
        + alpha * ∑ j ∈ range (k + 1 + 1), hR r i j * star (α' (k + 1 - j)) := by
    rw [Finset.mul_sum, ← sum_range_ite_le (fun j => hR r i j * x j) k (k + 1) (Nat.le_succ k),
      ← Finset.sum_add_distrib]
    apply Finset.sum_congr rfl
    intro j hj
    have hj' : j ≤ k + 1 := by have := mem_range.mp hj; omega
    rw [hx' j hj']
    by_cases hjk : j ≤ k
    · rw [if_pos hjk, if_pos hjk]; ring
    · rw [if_neg hjk, if_neg hjk]; ring
  rw [split, hα i hi]
  by_cases hik : i = k + 1
  · subst hik
    rw [if_pos rfl, ← hb, ha]
    field_simp
    ring
  · rw [if_neg hik, mul_zero, add_zero]
    exact hx i (by omega)

theorem hermRun_succ (T0 : K) (T Z : List K) (k : ℕ) :
    hermRun T0 T Z (k + 1) = hermStep T Z (hermRun T0 T Z k) k := rfl

/-- the `A`, `P` part of `HERMTOEP` is exactly `LEVINSON` -/
theorem hermRun_A_P (T0 : K) (T Z : List K) (k : ℕ) :
    (hermRun T0 T Z k).A = (levRun T0 T k).A ∧ (hermRun T0 T Z k).P = (levRun T0 T k).P := by
  induction k with
  | zero => exact ⟨rfl, rfl⟩
  | succ k ih =>
    rw [hermRun_succ, levRun_succ]
    unfold hermStep levStep
    simp only [ih.1, ih.2, and_self]

/-- `beta` of `hermStep` is row `k+1` of the matrix applied to the current solution -/
theorem beta_eq_sum (r0 : K) (T X : List K) (k : ℕ) :
    nth X 0 * nth T k + sumR k (fun j => nth X (j + 1) * nth T (k - j - 1))
      = ∑ j ∈ range (k + 1), hR (rseq r0 T) (k + 1) j * nth X j := by
  rw [sumR_eq_sum, Finset.sum_range_succ']
  have e0 : hR (rseq r0 T) (k + 1) 0 * nth X 0 = nth X 0 * nth T k := by
    simp [hR, mul_comm]
  rw [e0, add_comm]
  congr 1
  apply Finset.sum_congr rfl
  intro j hj
  have hj' : j < k := mem_range.mp hj
  have h1 : j + 1 ≤ k + 1 := by omega
  have h2 : k + 1 - (j + 1) = (k - j - 1) + 1 := by omega
  unfold hR
  rw [if_pos h1, h2, rseq_succ, mul_comm]

theorem hermRun_succ_X (T0 : K) (T Z : List K) (k : ℕ) :
    (hermRun T0 T Z (k + 1)).X
      = vec (k + 2) (fun j =>
          if j ≤ k then nth (hermRun T0 T Z k).X j
            + (nth Z (k + 1) - ∑ j ∈ range (k + 1),
                  hR (rseq T0 T) (k + 1) j * nth (hermRun T0 T Z k).X j) / (levRun T0 T (k + 1)).P
              * star (nth (levRun T0 T (k + 1)).A (k - j))
          else (nth Z (k + 1) - ∑ j ∈ range (k + 1),
                  hR (rseq T0 T) (k + 1) j * nth (hermRun T0 T Z k).X j)
                / (levRun T0 T (k + 1)).P) := by
  rw [← beta_eq_sum T0, levRun_succ]
  unfold levStep
  rw [← (hermRun_A_P T0 T Z k).1, ← (hermRun_A_P T0 T Z k).2, hermRun_succ]
  rfl

theorem hermRun_X_length (T0 : K) (T Z : List K) (k : ℕ) :
    (hermRun T0 T Z k).X.length = k + 1 := by
  cases k with
  | zero => rfl
  | succ k => rw [hermRun_succ_X, vec_length]

/-- the solver invariant: after `k` stages `X` solves the leading `(k+1)×(k+1)` system -/
theorem hermRun_solves (T0 : K) (T Z : List K) (h0 : star T0 = T0) (k : ℕ)
    (hP : ∀ j, j ≤ k → (levRun T0 T j).P ≠ 0) :
    ∀ i, i ≤ k → ∑ j ∈ range (k + 1), hR (rseq T0 T) i j * nth (hermRun T0 T Z k).X j
      = nth Z i := by
  induction k with
  | zero =>
    intro i hi
    have : i = 0 := by omega
    subst this
    have h : T0 ≠ 0 := hP 0 (Nat.le_refl 0)
    simp only [zero_add, Finset.sum_range_one, hR, le_refl, if_true, Nat.sub_self, rseq_zero]
    show T0 * nth [nth Z 0 / T0] 0 = nth Z 0
    simp only [nth, List.getD_cons_zero]
    field_simp
  | succ k ih =>
    have ih' := ih (fun j hj => hP j (by omega))
    have hE := levRun_LevEq T0 T h0 (k + 1) (fun j hj => hP j (by omega))
    have hE2 := LevEqRev_of_LevEq _ (by simpa using h0) _ _ _ (levRun_P_star T0 T h0 (k + 1)) hE
    apply herm_step_fun (rseq T0 T) k (nth (hermRun T0 T Z k).X) (nth Z) _ _
      (hP (k + 1) (Nat.le_refl _)) ih' hE2
    intro j hj
    rw [hermRun_succ_X, nth_vec, if_pos (by omega)]
    by_cases hjk : j ≤ k
    · have : k + 1 - j = (k - j) + 1 := by omega
      rw [if_pos hjk, if_pos hjk, this, alphaOf_succ]
    · have : j = k + 1 := by omega
      subst this
      rw [if_neg hjk, if_neg hjk, Nat.sub_self, alphaOf_zero, star_one, mul_one, zero_add]

end SpecVerif
