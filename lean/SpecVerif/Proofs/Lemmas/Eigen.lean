import SpecVerif.Model.Eigen
import SpecVerif.Proofs.Lemmas.Basic
import SpecVerif.Proofs.Lemmas.DFT
import SpecVerif.Proofs.Lemmas.Sides
import Mathlib.LinearAlgebra.Vandermonde
import Mathlib.LinearAlgebra.Matrix.NonsingularInverse
import Mathlib.LinearAlgebra.Matrix.ToLinearEquiv
import Mathlib.Analysis.RCLike.Basic
/-
  Helper lemmas for `Proofs/C17.lean` (MUSIC / EV pseudo-spectra, `eigenfre.py`).

  * indexing of the forward-backward data matrix,
  * the Vandermonde argument: `T` consecutive vanishing power sums over distinct nodes kill the
    amplitudes,
  * the DFT of a noise column `-star v` at a grid tone is minus the conjugate of `Σ v_K z^{-K}`,
  * index arithmetic of the output reordering and of the class glue,
  * positivity of `Σ z·star z` over `RCLike`.
-/
namespace SpecVerif.EigenL
open Finset SpecVerif

section Generic
variable {F : Type}

theorem getD_vec {α : Type} (n : ℕ) (f : ℕ → α) (i : ℕ) (d : α) :
    (vec n f).getD i d = if i < n then f i else d := by
  unfold vec
  by_cases h : i < n
  · simp [h, List.getD_eq_getElem?_getD]
  · simp [h, List.getD_eq_getElem?_getD]

theorem fbNP_le (N P : ℕ) : fbNP N P ≤ N - P := by
  unfold fbNP; exact Nat.min_le_left _ _

end Generic

section Field
variable {F : Type} [Field F] [StarRing F]

/-- row `I` of the forward half -/
theorem fb_row_fwd (x : List F) (P I : ℕ) (hI : I < fbNP x.length P) :
    (fbMatrix x P).getD I [] = vec P (fun k => nth x (I + P - 1 - k)) := by
  unfold fbMatrix
  simp only []
  rw [getD_vec, if_pos (by omega), if_pos hI]

/-- row `NP + I` of the backward half -/
theorem fb_row_bwd (x : List F) (P I : ℕ) (hI : I < fbNP x.length P) :
    (fbMatrix x P).getD (fbNP x.length P + I) []
      = vec P (fun k => star (nth x (I + k + 1))) := by
  unfold fbMatrix
  simp only []
  rw [getD_vec, if_pos (by omega), if_neg (by omega)]
  have : fbNP x.length P + I - fbNP x.length P = I := by omega
  simp only [this, conj_eq_star]

omit [StarRing F] in
/-- distinct nodes: vanishing of the first `T` power sums forces all amplitudes to vanish
    (`Fin`-indexed Vandermonde form). -/
theorem amplitudes_zero_fin {T : ℕ} (z c : Fin T → F) (hz : Function.Injective z)
    (h : ∀ I : Fin T, ∑ m, c m * z m ^ (I : ℕ) = 0) : c = 0 := by
  have hdet : (Matrix.vandermonde z).det ≠ 0 := Matrix.det_vandermonde_ne_zero_iff.mpr hz
  apply Matrix.eq_zero_of_vecMul_eq_zero hdet
  funext I
  simp only [Matrix.vecMul, dotProduct, Matrix.vandermonde_apply, Pi.zero_apply]
  exact h I

omit [StarRing F] in
/-- the same over `range T`: if `Σ_{m<T} a_m z_m^I = 0` for `I < T` and the `z_m` are pairwise
    distinct, then every `a_m = 0`. -/
theorem amplitudes_zero_range {T : ℕ} (z a : ℕ → F)
    (hz : ∀ m m', m < T → m' < T → z m = z m' → m = m')
    (h : ∀ I, I < T → ∑ m ∈ range T, a m * z m ^ I = 0) :
    ∀ m, m < T → a m = 0 := by
  have hinj : Function.Injective (fun m : Fin T => z m) := by
    intro m m' hmm
    exact Fin.ext (hz m m' m.2 m'.2 hmm)
  have h0 := amplitudes_zero_fin (fun m : Fin T => z m) (fun m : Fin T => a m) hinj (by
    intro I
    have := h I I.2
    rw [← Fin.sum_univ_eq_sum_range (fun m => a m * z m ^ (I : ℕ)) T] at this
    exact this)
  intro m hm
  exact congrFun h0 ⟨m, hm⟩

/-- the DFT bin of a column `-star v` at a grid point `ω^k` is minus the conjugate of
    `Σ_K v_K (ω^k)^{-K}` -/
theorem dftBin_neg_star_col {ω : F} {nfft P : ℕ} (hn : 0 < nfft) (hω : ω ^ nfft = 1)
    (hstar : star ω = ω⁻¹) (hP : P ≤ nfft) (v : ℕ → F) (k : ℕ) :
    dftBin (twiddles ω nfft) nfft (vec P (fun K => -star (v K))) k
      = -star (∑ K ∈ range P, v K * ((ω ^ k)⁻¹) ^ K) := by
  rw [dftBin_eq hn hω, vec_length, Nat.min_eq_left hP, star_sum, ← Finset.sum_neg_distrib]
  apply Finset.sum_congr rfl
  intro K hK
  rw [nth_vec, if_pos (mem_range.mp hK), star_mul', star_pow, star_inv₀, star_pow, hstar]
  simp only [inv_pow, inv_inv]
  rw [pow_mul, neg_mul, pow_right_comm]

/-- forward entries, with the index shown to be in range -/
theorem fb_entry_fwd (x : List F) (P I K : ℕ) (hI : I < fbNP x.length P) (hK : K < P) :
    I + P - 1 - K < x.length ∧ mentryM (fbMatrix x P) I K = nth x (I + P - 1 - K) := by
  have := fbNP_le x.length P
  refine ⟨by omega, ?_⟩
  unfold mentryM
  rw [fb_row_fwd x P I hI, nth_vec, if_pos hK]

/-- backward entries, with the index shown to be in range -/
theorem fb_entry_bwd (x : List F) (P I K : ℕ) (hI : I < fbNP x.length P) (hK : K < P) :
    I + K + 1 < x.length ∧
      mentryM (fbMatrix x P) (fbNP x.length P + I) K = star (nth x (I + K + 1)) := by
  have := fbNP_le x.length P
  refine ⟨by omega, ?_⟩
  unfold mentryM
  rw [fb_row_bwd x P I hI, nth_vec, if_pos hK]

/-- the noiseless signal `x_n = Σ_{m<T} c_m z_m^n`, `n < N` -/
def tones (N T : ℕ) (c z : ℕ → F) : List F := vec N (fun n => ∑ m ∈ range T, c m * z m ^ n)

omit [StarRing F] in
@[simp] theorem tones_length (N T : ℕ) (c z : ℕ → F) : (tones N T c z).length = N := by
  simp [tones]

theorem fb_entry_tone_fwd (N P T I K : ℕ) (c z : ℕ → F) (hz : ∀ m, m < T → z m ≠ 0)
    (hI : I < fbNP N P) (hK : K < P) :
    mentryM (fbMatrix (tones N T c z) P) I K
      = ∑ m ∈ range T, c m * z m ^ (I + P - 1) * (z m)⁻¹ ^ K := by
  have hI' : I < fbNP (tones N T c z).length P := by rw [tones_length]; exact hI
  obtain ⟨hlt, he⟩ := fb_entry_fwd (tones N T c z) P I K hI' hK
  rw [tones_length] at hlt
  rw [he, tones, nth_vec, if_pos hlt]
  apply Finset.sum_congr rfl
  intro m hm
  rw [pow_sub₀ _ (hz m (mem_range.mp hm)) (by omega), inv_pow, mul_assoc]

theorem fb_entry_tone_bwd (N P T I K : ℕ) (c z : ℕ → F)
    (hunit : ∀ m, m < T → star (z m) = (z m)⁻¹)
    (hI : I < fbNP N P) (hK : K < P) :
    mentryM (fbMatrix (tones N T c z) P) (fbNP N P + I) K
      = ∑ m ∈ range T, star (c m) * (z m)⁻¹ ^ (I + 1) * (z m)⁻¹ ^ K := by
  have hI' : I < fbNP (tones N T c z).length P := by rw [tones_length]; exact hI
  obtain ⟨hlt, he⟩ := fb_entry_bwd (tones N T c z) P I K hI' hK
  rw [tones_length] at hlt he
  rw [he, tones, nth_vec, if_pos hlt, star_sum]
  apply Finset.sum_congr rfl
  intro m hm
  rw [star_mul', star_pow, hunit m (mem_range.mp hm), mul_assoc, ← pow_add]
  congr 2
  omega

/-- a forward row applied to `v`: `Σ_m (c_m z_m^{P-1} q_m) z_m^I` with `q_m = Σ_K v_K z_m^{-K}` -/
theorem fb_fwd_dot (N P T I : ℕ) (c z v : ℕ → F) (hz : ∀ m, m < T → z m ≠ 0) (hP : 0 < P)
    (hI : I < fbNP N P) :
    ∑ K ∈ range P, mentryM (fbMatrix (tones N T c z) P) I K * v K
      = ∑ m ∈ range T, (c m * z m ^ (P - 1) * ∑ K ∈ range P, v K * (z m)⁻¹ ^ K) * z m ^ I := by
  have e1 : ∀ K ∈ range P, mentryM (fbMatrix (tones N T c z) P) I K * v K
      = ∑ m ∈ range T, c m * z m ^ (I + P - 1) * (z m)⁻¹ ^ K * v K := by
    intro K hK
    rw [fb_entry_tone_fwd N P T I K c z hz hI (mem_range.mp hK), Finset.sum_mul]
  rw [Finset.sum_congr rfl e1, Finset.sum_comm]
  apply Finset.sum_congr rfl
  intro m _
  have e : I + P - 1 = (P - 1) + I := by omega
  rw [e, pow_add, Finset.mul_sum, Finset.sum_mul]
  apply Finset.sum_congr rfl
  intro K _
  ring

/-- a backward row applied to `v` (unit-modulus nodes) -/
theorem fb_bwd_dot (N P T I : ℕ) (c z v : ℕ → F) (hunit : ∀ m, m < T → star (z m) = (z m)⁻¹)
    (hI : I < fbNP N P) :
    ∑ K ∈ range P, mentryM (fbMatrix (tones N T c z) P) (fbNP N P + I) K * v K
      = ∑ m ∈ range T, star (c m) * (z m)⁻¹ ^ (I + 1) * ∑ K ∈ range P, v K * (z m)⁻¹ ^ K := by
  have e1 : ∀ K ∈ range P, mentryM (fbMatrix (tones N T c z) P) (fbNP N P + I) K * v K
      = ∑ m ∈ range T, star (c m) * (z m)⁻¹ ^ (I + 1) * (z m)⁻¹ ^ K * v K := by
    intro K hK
    rw [fb_entry_tone_bwd N P T I K c z hunit hI (mem_range.mp hK), Finset.sum_mul]
  rw [Finset.sum_congr rfl e1, Finset.sum_comm]
  apply Finset.sum_congr rfl
  intro m _
  rw [Finset.mul_sum]
  apply Finset.sum_congr rfl
  intro K _
  ring

/-- the accumulated denominator vanishes when every noise-column DFT bin does -/
theorem eigenDenom_eq_zero (tw : List F) (cols : List (List F)) (S : List F)
    (nsig P nfft : ℕ) (ev : Bool) (k : ℕ)
    (h : ∀ i, nsig ≤ i → i < P → dftBin tw nfft (cols.getD i []) k = 0) :
    eigenDenom tw cols S nsig P nfft ev k = 0 := by
  unfold eigenDenom
  rw [sumR_eq_sum]
  apply Finset.sum_eq_zero
  intro j hj
  have hj' := mem_range.mp hj
  simp only []
  rw [h (j + nsig) (by omega) (by omega)]
  cases ev <;> simp

end Field

/-! ### index arithmetic -/

section Index

/-- the FFT bin `(nfft - b) mod nfft` as a natural number, for `-h ≤ b < nfft - h` -/
theorem fftBin_of_signed {nfft : ℕ} (b : Int) (h1 : -((nfft / 2 : ℕ) : Int) ≤ b)
    (h2 : b < (nfft : Int) - ((nfft / 2 : ℕ) : Int)) :
    (((nfft : Int) - b) % (nfft : Int)).toNat
      = if (((nfft / 2 : ℕ) : Int) + b).toNat ≤ nfft / 2
        then nfft / 2 - (((nfft / 2 : ℕ) : Int) + b).toNat
        else nfft + nfft / 2 - (((nfft / 2 : ℕ) : Int) + b).toNat := by
  have hn : 0 < nfft := by omega
  by_cases hb : b ≤ 0
  · rw [if_pos (by omega)]
    by_cases hb0 : b = 0
    · subst hb0
      rw [sub_zero, Int.emod_self]
      omega
    · have e : (nfft : Int) - b = (-b) + (nfft : Int) * 1 := by ring
      rw [e, Int.add_mul_emod_self_left, Int.emod_eq_of_lt (by omega) (by omega)]
      omega
  · rw [if_neg (by omega)]
    rw [Int.emod_eq_of_lt (by omega) (by omega)]
    omega

theorem sub_emod_toNat {n : ℕ} (hn : 0 < n) (b : Int) :
    (((n : Int) - b) % (n : Int)).toNat = (n - binIdx n b) % n := by
  have hnz : (n : Int) ≠ 0 := by omega
  have hr0 : 0 ≤ b % (n : Int) := Int.emod_nonneg _ hnz
  have hr1 : b % (n : Int) < n := Int.emod_lt_of_pos _ (by omega)
  have hb : b = b % (n : Int) + (n : Int) * (b / (n : Int)) := (Int.emod_add_mul_ediv b n).symm
  unfold binIdx
  set r := b % (n : Int) with hr
  by_cases h0 : r = 0
  · have e : (n : Int) - b = 0 + (n : Int) * (1 - b / (n : Int)) := by
      rw [mul_sub, mul_one]; omega
    rw [e, Int.add_mul_emod_self_left, h0]
    simp
  · have e : (n : Int) - b = ((n : Int) - r) + (n : Int) * (- (b / (n : Int))) := by
      rw [mul_neg]; omega
    rw [e, Int.add_mul_emod_self_left, Int.emod_eq_of_lt (by omega) (by omega)]
    rw [Nat.mod_eq_of_lt (by omega)]
    omega

section Reorder
variable {F : Type} [Field F]

theorem eigenReorder_length (psd : List F) (nfft : ℕ) : (eigenReorder psd nfft).length = nfft := by
  simp [eigenReorder]

theorem nth_eigenReorder (psd : List F) (nfft j : ℕ) (hj : j < nfft) :
    nth (eigenReorder psd nfft) j
      = nth psd (if j ≤ nfft / 2 then nfft / 2 - j else nfft + nfft / 2 - j) := by
  unfold eigenReorder
  simp only []
  rw [nth_vec, if_pos hj]
  split_ifs <;> rfl

theorem nth_ifftshift (psd : List F) (i : ℕ) (hi : i < psd.length) :
    nth (ifftshift psd) i = nth psd ((i + psd.length / 2) % psd.length) := by
  unfold ifftshift
  simp only []
  rw [nth_vec, if_pos hi]

/-- complex-data class output on top of the function's reordering: entry `i` is FFT bin
    `(nfft - i) mod nfft` -/
theorem nth_classFold_reorder_complex (psd : List F) (nfft i : ℕ) (hi : i < nfft) :
    nth (eigenClassFold (eigenReorder psd nfft) false nfft) i = nth psd ((nfft - i) % nfft) := by
  have hlen := eigenReorder_length psd nfft
  unfold eigenClassFold
  rw [if_neg (by simp), nth_ifftshift _ i (by rw [hlen]; exact hi), hlen]
  have hj : (i + nfft / 2) % nfft < nfft := Nat.mod_lt _ (by omega)
  rw [nth_eigenReorder psd nfft _ hj]
  congr 1
  by_cases h0 : i = 0
  · subst h0
    have : (0 + nfft / 2) % nfft = nfft / 2 := by
      rw [Nat.zero_add, Nat.mod_eq_of_lt (by omega)]
    rw [this, if_pos (le_refl _)]
    simp
  · rw [Nat.mod_eq_of_lt (show nfft - i < nfft by omega)]
    by_cases h1 : i + nfft / 2 < nfft
    · rw [Nat.mod_eq_of_lt h1, if_neg (by omega)]
      omega
    · have e : i + nfft / 2 = (i + nfft / 2 - nfft) + nfft := by omega
      rw [e, Nat.add_mod_right, Nat.mod_eq_of_lt (by omega), if_pos (by omega)]
      omega

theorem classFold_real_length (psd : List F) (nfft : ℕ) :
    (eigenClassFold psd true nfft).length = nfft / 2 + 1 := by
  unfold eigenClassFold
  simp only [if_true]
  rw [vec_length]
  split_ifs <;> omega

theorem nth_classFold_real (psd : List F) (nfft j : ℕ) (hj : j ≤ nfft / 2) :
    nth (eigenClassFold psd true nfft) j = 2 * nth psd (nfft / 2 - j) := by
  unfold eigenClassFold
  simp only [if_true]
  have hL : (if nfft % 2 = 0 then nfft / 2 + 1 else (nfft + 1) / 2) = nfft / 2 + 1 := by
    split_ifs <;> omega
  rw [hL, nth_vec, if_pos (by omega), Nat.cast_ofNat]
  congr 2

/-- `ω^k = ω^{-b}` for the FFT bin `k = (nfft - b) mod nfft` of a signed bin `b` -/
theorem pow_fftBin_eq_zpow {ω : F} {nfft : ℕ} (hn : 0 < nfft) (hω : ω ^ nfft = 1) (b : Int) :
    ω ^ (((nfft : Int) - b) % (nfft : Int)).toNat = ω ^ (-b) := by
  have hω0 : ω ≠ 0 := by
    intro h; rw [h, zero_pow (by omega)] at hω; exact zero_ne_one hω
  have hnz : (nfft : Int) ≠ 0 := by omega
  have hr0 : 0 ≤ ((nfft : Int) - b) % (nfft : Int) := Int.emod_nonneg _ hnz
  rw [← zpow_natCast, Int.toNat_of_nonneg hr0, Int.emod_def, zpow_sub₀ hω0, zpow_sub₀ hω0,
    zpow_mul, zpow_natCast, hω, one_zpow, div_one, one_div, zpow_neg]

end Reorder

section Validate

theorem eigenValidate_cases (methodOk : Bool) (nsig : Option Int) (hasThr : Bool) (N P : ℕ) :
    eigenValidate methodOk nsig hasThr N P =
      if methodOk = false ∨ (nsig.isSome = true ∧ hasThr = true)
          ∨ (∃ n, nsig = some n ∧ (n < 0 ∨ (P : Int) ≤ n)) then .error "value"
      else if 2 * (N - P) ≤ P - 1 then .error "assert" else .ok () := by
  cases methodOk
  · simp [eigenValidate]
  · cases nsig with
    | none => cases hasThr <;> simp [eigenValidate]
    | some n =>
      cases hasThr
      · by_cases h1 : n < 0
        · simp [eigenValidate, h1]
        · by_cases h2 : (P : Int) ≤ n
          · simp [eigenValidate, h1, h2]
          · simp [eigenValidate, h1, h2]
      · simp [eigenValidate]

end Validate

end Index

/-! ### positivity over `RCLike` -/

section RC
variable {F : Type} [RCLike F]

theorem mul_star_eq_ofReal (z : F) : z * star z = ((‖z‖ ^ 2 : ℝ) : F) := by
  rw [RCLike.star_def, RCLike.mul_conj]
  norm_cast

theorem sum_ofReal (n : ℕ) (f : ℕ → ℝ) :
    ∑ i ∈ range n, ((f i : ℝ) : F) = ((∑ i ∈ range n, f i : ℝ) : F) := by
  rw [RCLike.ofReal_sum]

/-- a finite sum of non-negative reals (embedded in `F`) is a non-negative real -/
theorem sum_nonneg_real (n : ℕ) (f : ℕ → F)
    (h : ∀ j, j < n → ∃ r : ℝ, 0 ≤ r ∧ f j = (r : F)) :
    ∃ d : ℝ, 0 ≤ d ∧ ∑ j ∈ range n, f j = (d : F) := by
  induction n with
  | zero => exact ⟨0, le_refl _, by simp⟩
  | succ n ih =>
    obtain ⟨d, hd, he⟩ := ih (fun j hj => h j (by omega))
    obtain ⟨r, hr, hf⟩ := h n (by omega)
    refine ⟨d + r, add_nonneg hd hr, ?_⟩
    rw [Finset.sum_range_succ, he, hf, RCLike.ofReal_add]

end RC

end SpecVerif.EigenL
