import SpecVerif.Proofs.Lemmas.WienerKhinchin
import SpecVerif.Proofs.Lemmas.Scale
import SpecVerif.Model.Lpc
import Mathlib.Algebra.BigOperators.Intervals
import Mathlib.Algebra.BigOperators.Ring.Finset
import Mathlib.Algebra.BigOperators.Group.List.Basic
import Mathlib.Algebra.Ring.Parity
import Mathlib.Tactic.Ring
import Mathlib.Tactic.FieldSimp
/-
  Helper lemmas for `lpc` (FFT-based autocorrelation + Levinson; C12) and for the algebra of the line
  spectral frequency conversions `poly2lsf` / `lsf2poly` (C11):

  * inverse DFT ∘ DFT = id (character orthogonality), the FFT autocorrelation `lpcAcf` in closed form
    (Wiener–Khinchin + inverse DFT of the lag sequence without wrap-around), `levRun` only reads the
    first `p` lags, `lpc` = scaled Levinson on the biased lags;
  * `polyEval` (highest power first), multiplicativity of `polyMul`, `polyFromRoots` as the product of
    the linear factors, symmetry / antisymmetry of the two halves of `lsfSplit` and their fixed roots
    at `±1`, the recombination `(P1 + Q1)/2`, synthetic division by a root (`deconvolve` with zero
    remainder) and `(P·[1,1])·[1,-1] = P·[1,0,-1]`.
-/
namespace SpecVerif.LpcL
open Finset SpecVerif

/-! ### small list / sum helpers -/

section Helpers
variable {M : Type} [AddCommMonoid M]

/-- a sum whose terms vanish from `a` on may be cut at `a` -/
theorem sum_range_zero_tail (f : ℕ → M) {a b : ℕ} (hab : a ≤ b) (hf : ∀ i, a ≤ i → i < b → f i = 0) :
    ∑ i ∈ range b, f i = ∑ i ∈ range a, f i := by
  symm
  apply Finset.sum_subset (Finset.range_mono hab)
  intro i hib hi
  exact hf i (by simpa using hi) (mem_range.mp hib)

/-- a triangle summed by anti-diagonals -/
theorem sum_triangle (N : ℕ) (g : ℕ → ℕ → M) :
    ∑ n ∈ range N, ∑ i ∈ range (n + 1), g i (n - i) = ∑ i ∈ range N, ∑ j ∈ range (N - i), g i j := by
  have h := Finset.sum_comm' (s := range N) (t := fun n => range (n + 1)) (t' := range N)
    (s' := fun i => Ico i N) (f := fun n i => g i (n - i))
    (by intro n i; simp only [Finset.mem_Ico, Finset.mem_range]; omega)
  rw [h]
  apply Finset.sum_congr rfl
  intro i _
  rw [Finset.sum_Ico_eq_sum_range]
  apply Finset.sum_congr rfl
  intro j _
  rw [Nat.add_sub_cancel_left]

end Helpers

section Lists
variable {K : Type} [Zero K]

theorem nth_tail' (l : List K) (j : ℕ) : nth l.tail j = nth l (j + 1) := by
  unfold nth
  cases l with
  | nil => simp
  | cons a l => simp

end Lists

/-! ### inverse DFT of the DFT -/

section IDFT
variable {K : Type} [Field K]

/-- **inverse DFT ∘ DFT = id** (function form): character orthogonality -/
theorem idft_dft_fun {ω : K} {n : ℕ} (hω : IsPrimitiveRoot ω n) (hn0 : (n : K) ≠ 0) (s : ℕ → K)
    (d : ℕ) (hd : d < n) :
    (∑ k ∈ range n, (∑ j ∈ range n, s j * ω ^ (j * k)) * ω⁻¹ ^ (k * d)) / (n : K) = s d := by
  have h : ∑ k ∈ range n, (∑ j ∈ range n, s j * ω ^ (j * k)) * ω⁻¹ ^ (k * d) = (n : K) * s d := by
    simp only [Finset.sum_mul]
    rw [Finset.sum_comm]
    have : ∀ j ∈ range n, ∑ k ∈ range n, s j * ω ^ (j * k) * ω⁻¹ ^ (k * d)
        = s j * (if j = d then (n : K) else 0) := by
      intro j hj
      rw [← sum_pow_mul_inv_pow hω j d (mem_range.mp hj) hd, Finset.mul_sum]
      apply Finset.sum_congr rfl
      intro k _
      rw [pow_mul, mul_comm k d, pow_mul, mul_assoc]
    rw [Finset.sum_congr rfl this]
    simp only [mul_ite, mul_zero]
    rw [Finset.sum_ite_eq' (range n) d]
    simp only [mem_range, hd, if_true]
    ring
  rw [h, mul_div_cancel_left₀ _ hn0]

/-- the model's DFT bin as a sum over the full range `n` (zero padding / truncation) -/
theorem dftBin_eq_full {ω : K} {n : ℕ} (hn : 0 < n) (h : ω ^ n = 1) (x : List K) (k : ℕ) :
    dftBin (twiddles ω n) n x k = ∑ j ∈ range n, nth x j * ω ^ (j * k) := by
  rw [dftBin_eq hn h]
  symm
  apply sum_range_zero_tail _ (Nat.min_le_right _ _)
  intro i hi hin
  rw [nth_of_ge x i (by omega), zero_mul]

/-- **A1. `ifft(fft(s, n))[d] = s[d]`** for the model's DFT with the tables of `ω` and `ω⁻¹`
(`s` truncated / zero padded to `n` samples, `d < n`) -/
theorem idft_dft {ω : K} {n : ℕ} (hω : IsPrimitiveRoot ω n) (hn0 : (n : K) ≠ 0) (s : List K)
    (d : ℕ) (hd : d < n) :
    dftBin (twiddles ω⁻¹ n) n (vec n (fun k => dftBin (twiddles ω n) n s k)) d / (n : K)
      = nth s d := by
  have hn : 0 < n := by omega
  have h1 : ω ^ n = 1 := hω.pow_eq_one
  have h1' : ω⁻¹ ^ n = 1 := by rw [inv_pow, h1, inv_one]
  rw [dftBin_eq_full hn h1']
  have : ∀ k ∈ range n, nth (vec n (fun k => dftBin (twiddles ω n) n s k)) k * ω⁻¹ ^ (k * d)
      = (∑ j ∈ range n, nth s j * ω ^ (j * k)) * ω⁻¹ ^ (k * d) := by
    intro k hk
    rw [nth_vec, if_pos (mem_range.mp hk), dftBin_eq_full hn h1]
  rw [Finset.sum_congr rfl this]
  exact idft_dft_fun hω hn0 (nth s) d hd

end IDFT

/-! ### the FFT autocorrelation of `lpc` -/

section Acf
variable {K : Type} [Field K] [StarRing K]

/-- the raw autocorrelation of self-adjoint ("real") data is self-adjoint -/
theorem rawCorr_star_real (N : ℕ) (x : ℕ → K) (hx : ∀ n, star (x n) = x n) (d : ℕ) :
    star (rawCorr N x d) = rawCorr N x d := by
  unfold rawCorr
  rw [star_sum]
  apply Finset.sum_congr rfl
  intro n _
  rw [star_mul', star_star, hx (n + d), hx n]

/-- `|fft(x, nfft)[k]|²` is bin `k` of the DFT of the two-sided raw lag sequence (`2m-1 ≤ nfft`) -/
theorem abs2_dftBin_eq_dft_lagSeq {ω : K} {nfft : ℕ} (hω : IsPrimitiveRoot ω nfft)
    (hstar : star ω = ω⁻¹) (x : List K) (hm : 1 ≤ x.length) (hnfft : 2 * x.length - 1 ≤ nfft)
    (k : ℕ) :
    abs2 (dftBin (twiddles ω nfft) nfft x k)
      = dftBin (twiddles ω nfft) nfft
          (correlogramSeq (vec x.length (rawCorr x.length (nth x)))
            (vec x.length (rawCorr x.length (nth x))) (vec (x.length - 1) (fun _ => (1 : K)))
            (x.length - 1) nfft) k := by
  set m := x.length with hmdef
  have hn : 0 < nfft := by omega
  have h1 : ω ^ nfft = 1 := hω.pow_eq_one
  have hω0 : ω ≠ 0 := hω.ne_zero hn.ne'
  have hL : 2 * (m - 1) + 1 ≤ nfft := by omega
  rw [dftBin_correlogramSeq hL h1, abs2_eq, dftBin_eq hn h1, ← hmdef,
    Nat.min_eq_left (by omega : m ≤ nfft)]
  set z := ω ^ k with hz
  have hz0 : z ≠ 0 := pow_ne_zero _ hω0
  have hzstar : star z = z⁻¹ := by rw [hz, star_pow, hstar, inv_pow]
  have hsum : ∀ j ∈ range m, nth x j * ω ^ (j * k) = nth x j * z ^ j := by
    intro j _; rw [hz, pow_mul']
  rw [Finset.sum_congr rfl hsum, wiener_khinchin m (nth x) z hz0 hzstar]
  have hm1 : m - 1 + 1 = m := by omega
  rw [hm1, nth_vec, if_pos (by omega : 0 < m)]
  congr 1
  apply Finset.sum_congr rfl
  intro l hl
  have hl' := Finset.mem_Ico.mp hl
  rw [nth_vec, if_pos hl'.2, nth_vec, if_pos (by omega : l - 1 < m - 1), mul_one, mul_one, hz,
    pow_mul' ω l k, pow_mul' ω⁻¹ l k]
  simp only [inv_pow]

/-- **A2. the autocorrelation sequence of `lpc`**: for `2m-1 ≤ nfft` the FFT route returns, at every
lag `d < m`, the real part of the raw autocorrelation `Σ_n x[n+d]·conj x[n]` divided by `m-1`. -/
theorem lpcAcf_eq {ω : K} {nfft : ℕ} (hω : IsPrimitiveRoot ω nfft) (hstar : star ω = ω⁻¹)
    (hn0 : (nfft : K) ≠ 0) (x : List K) (hnfft : 2 * x.length - 1 ≤ nfft) (d : ℕ)
    (hd : d < x.length) :
    nth (lpcAcf (twiddles ω nfft) (twiddles ω⁻¹ nfft) x nfft) d
      = rePart (rawCorr x.length (nth x) d) / ((x.length - 1 : ℕ) : K) := by
  have hm : 1 ≤ x.length := by omega
  have hdn : d < nfft := by omega
  unfold lpcAcf
  rw [nth_vec, if_pos hdn]
  have hX2 : vec nfft (fun k => abs2 (dftBin (twiddles ω nfft) nfft x k))
      = vec nfft (fun k => dftBin (twiddles ω nfft) nfft
          (correlogramSeq (vec x.length (rawCorr x.length (nth x)))
            (vec x.length (rawCorr x.length (nth x))) (vec (x.length - 1) (fun _ => (1 : K)))
            (x.length - 1) nfft) k) :=
    vec_ext (fun k _ => abs2_dftBin_eq_dft_lagSeq hω hstar x hm hnfft k)
  rw [hX2, idft_dft hω hn0 _ d hdn]
  have hL : 2 * (x.length - 1) + 1 ≤ nfft := by omega
  rcases Nat.eq_zero_or_pos d with h0 | hpos
  · subst h0
    rw [nth_correlogramSeq_zero hL, nth_vec, if_pos hd]
  · rw [nth_correlogramSeq_pos hL _ _ _ hpos (by omega), nth_vec, if_pos hd, nth_vec,
      if_pos (by omega : d - 1 < x.length - 1), mul_one]

end Acf

/-! ### `levRun` reads only the first `p` lags; `lpc` as a scaled Levinson recursion -/

section Lev
variable {K : Type} [Field K] [StarRing K]

theorem levStep_congr (T T' : List K) (s : LevState K) (k : ℕ)
    (h : ∀ j, j ≤ k → nth T j = nth T' j) : levStep T s k = levStep T' s k := by
  have hs : nth T k + sumR k (fun j => nth s.A j * nth T (k - j - 1))
      = nth T' k + sumR k (fun j => nth s.A j * nth T' (k - j - 1)) := by
    rw [sumR_eq_sum, sumR_eq_sum, h k le_rfl]
    congr 1
    apply Finset.sum_congr rfl
    intro j _
    rw [h (k - j - 1) (by omega)]
  unfold levStep
  simp only [hs]

/-- the first `p` stages of the Levinson recursion depend only on `r0` and the lags `T[0..p-1]` -/
theorem levRun_congr (r0 : K) (T T' : List K) (p : ℕ) (h : ∀ j, j < p → nth T j = nth T' j) :
    levRun r0 T p = levRun r0 T' p := by
  induction p with
  | zero => rfl
  | succ p ih =>
    show levStep T (levRun r0 T p) p = levStep T' (levRun r0 T' p) p
    rw [ih (fun j hj => h j (by omega))]
    exact levStep_congr T T' _ p (fun j hj => h j (by omega))

/-- **`lpc` is Levinson on `m/(m-1)` times the biased lags** (real data, `2m-1 ≤ nfft`,
`p ≤ m-1`): for any list `r` whose entries `0..p` are the biased lags `rawCorr_d / m`,
`lpc(x, p)` is the Levinson state of `r` with the error multiplied by `m/(m-1)`. -/
theorem lpc_eq_scaleLev {ω : K} {nfft : ℕ} (hω : IsPrimitiveRoot ω nfft) (hstar : star ω = ω⁻¹)
    (h2 : (2 : K) ≠ 0) (hn0 : (nfft : K) ≠ 0) (x : List K)
    (hreal : ∀ n, star (nth x n) = nth x n)
    (hm1 : ((x.length - 1 : ℕ) : K) ≠ 0) (hm : (x.length : K) ≠ 0)
    (hnfft : 2 * x.length - 1 ≤ nfft) (p : ℕ) (hp : p ≤ x.length - 1) (r : List K)
    (hr : ∀ d, d ≤ p → nth r d = rawCorr x.length (nth x) d / (x.length : K)) :
    lpc (twiddles ω nfft) (twiddles ω⁻¹ nfft) x nfft p
      = ScaleL.scaleLev ((x.length : K) / ((x.length - 1 : ℕ) : K)) (levRun (nth r 0) r.tail p) := by
  have hlen : 2 ≤ x.length := by
    by_contra hc
    have : x.length - 1 = 0 := by omega
    rw [this] at hm1
    exact hm1 Nat.cast_zero
  set m := x.length with hmdef
  set t : K := (m : K) / ((m - 1 : ℕ) : K) with ht
  have ht0 : t ≠ 0 := div_ne_zero hm hm1
  have hR : ∀ d, d < m → nth (lpcAcf (twiddles ω nfft) (twiddles ω⁻¹ nfft) x nfft) d
      = t * (rawCorr m (nth x) d / (m : K)) := by
    intro d hd
    rw [lpcAcf_eq hω hstar hn0 x hnfft d hd,
      rePart_of_star_eq h2 (rawCorr_star_real _ _ hreal d), ← hmdef, ht]
    field_simp
  have hR0 : rePart (nth (lpcAcf (twiddles ω nfft) (twiddles ω⁻¹ nfft) x nfft) 0)
      = t * nth r 0 := by
    rw [hR 0 (by omega), hr 0 (Nat.zero_le _)]
    apply rePart_of_star_eq h2
    rw [ht, star_mul', star_div₀, star_div₀, star_natCast, star_natCast,
      rawCorr_star_real _ _ hreal 0]
  unfold lpc
  dsimp only
  rw [hR0, ← ScaleL.levRun_smul ht0]
  apply levRun_congr
  intro j hj
  rw [nth_tail', hR (j + 1) (by omega), ArmaL.nth_map_mul_left, nth_tail', hr (j + 1) (by omega)]

end Lev

/-! ### polynomials as coefficient lists (highest power first) -/

section Poly
variable {K : Type} [Field K]

/-- evaluation of a coefficient list, highest power first (`numpy.polyval`):
`p_0 z^{n-1} + p_1 z^{n-2} + … + p_{n-1}` -/
def polyEval (p : List K) (z : K) : K := ∑ i ∈ range p.length, nth p i * z ^ (p.length - 1 - i)

theorem polyMul_eq (p q : List K) (hp : p ≠ []) (hq : q ≠ []) :
    polyMul p q = vec (p.length + q.length - 1)
      (fun n => ∑ i ∈ range (n + 1), nth p i * nth q (n - i)) := by
  have hlp : p.length ≠ 0 := fun h => hp (List.length_eq_zero_iff.mp h)
  have hlq : q.length ≠ 0 := fun h => hq (List.length_eq_zero_iff.mp h)
  unfold polyMul
  rw [if_neg (by simp [hlp, hlq])]
  apply vec_ext
  intro n _
  rw [sumR_eq_sum]

theorem polyMul_length (p q : List K) (hp : p ≠ []) (hq : q ≠ []) :
    (polyMul p q).length = p.length + q.length - 1 := by
  rw [polyMul_eq p q hp hq, vec_length]

theorem polyMul_ne_nil (p q : List K) (hp : p ≠ []) (hq : q ≠ []) : polyMul p q ≠ [] := by
  have hlp : 0 < p.length := List.length_pos_iff.mpr hp
  have hlq : 0 < q.length := List.length_pos_iff.mpr hq
  intro h
  have := polyMul_length p q hp hq
  rw [h] at this
  simp at this
  omega

/-- the product with an empty list is empty (`numpy.convolve` would raise; the model totalises) -/
theorem polyMul_nil_left (q : List K) : polyMul ([] : List K) q = [] := by
  unfold polyMul
  rw [if_pos (Or.inl List.length_nil)]

/-- entry `n` of the product: the convolution sum -/
theorem nth_polyMul (p q : List K) (hp : p ≠ []) (hq : q ≠ []) (n : ℕ)
    (hn : n < p.length + q.length - 1) :
    nth (polyMul p q) n = ∑ i ∈ range (n + 1), nth p i * nth q (n - i) := by
  rw [polyMul_eq p q hp hq, nth_vec, if_pos hn]

/-- **evaluation is multiplicative** -/
theorem polyMul_eval (p q : List K) (hp : p ≠ []) (hq : q ≠ []) (z : K) :
    polyEval (polyMul p q) z = polyEval p z * polyEval q z := by
  have hlp : 0 < p.length := List.length_pos_iff.mpr hp
  have hlq : 0 < q.length := List.length_pos_iff.mpr hq
  unfold polyEval
  rw [polyMul_length p q hp hq]
  set N := p.length + q.length - 1 with hN
  let g : ℕ → ℕ → K := fun i j => nth p i * nth q j * z ^ (N - 1 - (i + j))
  have h1 : ∀ n ∈ range N, nth (polyMul p q) n * z ^ (N - 1 - n)
      = ∑ i ∈ range (n + 1), g i (n - i) := by
    intro n hn
    rw [nth_polyMul p q hp hq n (mem_range.mp hn), Finset.sum_mul]
    apply Finset.sum_congr rfl
    intro i hi
    have : i + (n - i) = n := by have := mem_range.mp hi; omega
    show _ = nth p i * nth q (n - i) * z ^ (N - 1 - (i + (n - i)))
    rw [this]
  rw [Finset.sum_congr rfl h1, sum_triangle N g,
    sum_range_zero_tail _ (by omega : p.length ≤ N), Finset.sum_mul_sum]
  · apply Finset.sum_congr rfl
    intro i hi
    have hi' := mem_range.mp hi
    rw [sum_range_zero_tail _ (by omega : q.length ≤ N - i)]
    · apply Finset.sum_congr rfl
      intro j hj
      have hj' := mem_range.mp hj
      have : N - 1 - (i + j) = (p.length - 1 - i) + (q.length - 1 - j) := by omega
      show nth p i * nth q j * z ^ (N - 1 - (i + j)) = _
      rw [this, pow_add]
      ring
    · intro j hj _
      show nth p i * nth q j * z ^ (N - 1 - (i + j)) = 0
      rw [nth_of_ge q j hj, mul_zero, zero_mul]
  · intro i hi _
    apply Finset.sum_eq_zero
    intro j _
    show nth p i * nth q j * z ^ (N - 1 - (i + j)) = 0
    rw [nth_of_ge p i hi, zero_mul, zero_mul]

/-- a monic linear factor `[1, -r]` evaluates to `z - r` -/
theorem polyEval_linear (r z : K) : polyEval [1, -r] z = z - r := by
  simp [polyEval, Finset.sum_range_succ, nth]
  ring

theorem polyEval_one (z : K) : polyEval ([1] : List K) z = 1 := by
  simp [polyEval, nth]

/-- multiplying by the constant polynomial `[1]` changes nothing -/
theorem polyMul_one (p : List K) : polyMul p [1] = p := by
  by_cases hp : p = []
  · rw [hp, polyMul_nil_left]
  · rw [polyMul_eq p [1] hp (by simp)]
    conv_rhs => rw [eq_vec_nth p]
    have : p.length + ([1] : List K).length - 1 = p.length := by simp
    rw [this]
    apply vec_ext
    intro n _
    rw [Finset.sum_range_succ, Nat.sub_self]
    have hz : ∑ i ∈ range n, nth p i * nth ([1] : List K) (n - i) = 0 := by
      apply Finset.sum_eq_zero
      intro i hi
      have := mem_range.mp hi
      rw [nth_of_ge ([1] : List K) (n - i) (by simp; omega), mul_zero]
    rw [hz, zero_add]
    simp [nth]

/-- the fold of `numpy.poly`: non-empty, one more coefficient per root, and its evaluation is the
accumulator's times the product of the linear factors -/
theorem foldl_polyMul_eval (rs : List K) (acc : List K) (hacc : acc ≠ []) (z : K) :
    rs.foldl (fun acc r => polyMul acc [1, -r]) acc ≠ []
    ∧ (rs.foldl (fun acc r => polyMul acc [1, -r]) acc).length = acc.length + rs.length
    ∧ polyEval (rs.foldl (fun acc r => polyMul acc [1, -r]) acc) z
        = polyEval acc z * (rs.map (fun r => z - r)).prod := by
  induction rs generalizing acc with
  | nil => simp [hacc]
  | cons r rs ih =>
    have hne : polyMul acc [1, -r] ≠ [] := polyMul_ne_nil acc [1, -r] hacc (by simp)
    have hlen : (polyMul acc [1, -r]).length = acc.length + 1 := by
      rw [polyMul_length acc [1, -r] hacc (by simp)]; simp
    obtain ⟨h1, h2, h3⟩ := ih (polyMul acc [1, -r]) hne
    refine ⟨h1, ?_, ?_⟩
    · rw [List.foldl_cons, h2, hlen, List.length_cons]; omega
    · rw [List.foldl_cons, h3, polyMul_eval acc [1, -r] hacc (by simp), polyEval_linear,
        List.map_cons, List.prod_cons, mul_assoc]

/-- **`numpy.poly`**: `polyFromRoots rs` is monic of degree `len rs` with value `∏ (z - r)` -/
theorem polyFromRoots_eval (rs : List K) (z : K) :
    polyEval (polyFromRoots rs) z = (rs.map (fun r => z - r)).prod := by
  unfold polyFromRoots
  rw [(foldl_polyMul_eval rs [1] (by simp) z).2.2, polyEval_one, one_mul]

theorem polyFromRoots_length (rs : List K) : (polyFromRoots rs).length = rs.length + 1 := by
  unfold polyFromRoots
  rw [(foldl_polyMul_eval rs [1] (by simp) 0).2.1]
  simp
  omega

end Poly

/-! ### the sum / difference polynomials of `poly2lsf` and the recombination of `lsf2poly` -/

section Lsf
variable {K : Type} [Field K]

theorem neg_one_pow_sub_of_odd {N i : ℕ} (hN : N % 2 = 1) (hi : i ≤ N) :
    (-1 : K) ^ (N - i) = -(-1) ^ i := by
  rcases Nat.even_or_odd i with h | h
  · have h' : Odd (N - i) := by rw [Nat.odd_iff]; rw [Nat.even_iff] at h; omega
    rw [h.neg_one_pow, h'.neg_one_pow]
  · have h' : Even (N - i) := by rw [Nat.even_iff]; rw [Nat.odd_iff] at h; omega
    rw [h.neg_one_pow, h'.neg_one_pow, neg_neg]

theorem neg_one_pow_sub_of_even {N i : ℕ} (hN : N % 2 = 0) (hi : i ≤ N) :
    (-1 : K) ^ (N - i) = (-1) ^ i := by
  rcases Nat.even_or_odd i with h | h
  · have h' : Even (N - i) := by rw [Nat.even_iff]; rw [Nat.even_iff] at h; omega
    rw [h.neg_one_pow, h'.neg_one_pow]
  · have h' : Odd (N - i) := by rw [Nat.odd_iff]; rw [Nat.odd_iff] at h; omega
    rw [h.neg_one_pow, h'.neg_one_pow]

theorem lsfSplit_fst (a : List K) :
    (lsfSplit a).1 = vec (a.length + 1)
      (fun i => nth (a ++ [0]) i - nth (a ++ [0]) (a.length - i)) := by
  unfold lsfSplit
  simp only [List.length_append, List.length_singleton, Nat.add_sub_cancel]

theorem lsfSplit_snd (a : List K) :
    (lsfSplit a).2 = vec (a.length + 1)
      (fun i => nth (a ++ [0]) i + nth (a ++ [0]) (a.length - i)) := by
  unfold lsfSplit
  simp only [List.length_append, List.length_singleton, Nat.add_sub_cancel]

theorem lsfSplit_length (a : List K) :
    (lsfSplit a).1.length = a.length + 1 ∧ (lsfSplit a).2.length = a.length + 1 := by
  rw [lsfSplit_fst, lsfSplit_snd, vec_length, vec_length]
  exact ⟨rfl, rfl⟩

/-- `(P1 + Q1)/2 = a ++ [0]`, entry by entry (all indices, zero padded) -/
theorem lsfSplit_half_sum (h2 : (2 : K) ≠ 0) (a : List K) (i : ℕ) :
    (nth (lsfSplit a).1 i + nth (lsfSplit a).2 i) / 2 = nth (a ++ [0]) i := by
  rw [lsfSplit_fst, lsfSplit_snd, nth_vec, nth_vec]
  by_cases hi : i < a.length + 1
  · rw [if_pos hi, if_pos hi]
    field_simp
    ring
  · rw [if_neg hi, if_neg hi, nth_of_ge _ i (by simp; omega)]
    simp

/-- `P1` is antisymmetric -/
theorem lsfSplit_fst_antisymm (a : List K) (i : ℕ) (hi : i ≤ a.length) :
    nth (lsfSplit a).1 (a.length - i) = -nth (lsfSplit a).1 i := by
  rw [lsfSplit_fst, nth_vec, nth_vec, if_pos (by omega), if_pos (by omega)]
  have : a.length - (a.length - i) = i := by omega
  rw [this]
  ring

/-- `Q1` is symmetric -/
theorem lsfSplit_snd_symm (a : List K) (i : ℕ) (hi : i ≤ a.length) :
    nth (lsfSplit a).2 (a.length - i) = nth (lsfSplit a).2 i := by
  rw [lsfSplit_snd, nth_vec, nth_vec, if_pos (by omega), if_pos (by omega)]
  have : a.length - (a.length - i) = i := by omega
  rw [this]
  ring

/-- evaluation of `P1` / `Q1` at `z` as two sums over `a ++ [0]` -/
theorem polyEval_lsfSplit_fst (a : List K) (z : K) :
    polyEval (lsfSplit a).1 z
      = ∑ i ∈ range (a.length + 1), nth (a ++ [0]) i * z ^ (a.length - i)
        - ∑ i ∈ range (a.length + 1), nth (a ++ [0]) i * z ^ i := by
  unfold polyEval
  rw [(lsfSplit_length a).1, lsfSplit_fst, Nat.add_sub_cancel]
  have h : ∀ i ∈ range (a.length + 1),
      nth (vec (a.length + 1) (fun i => nth (a ++ [0]) i - nth (a ++ [0]) (a.length - i))) i
          * z ^ (a.length - i)
        = nth (a ++ [0]) i * z ^ (a.length - i)
          - (fun j => nth (a ++ [0]) j * z ^ j) (a.length + 1 - 1 - i) := by
    intro i hi
    rw [nth_vec, if_pos (mem_range.mp hi), sub_mul]
    simp only [Nat.add_sub_cancel]
  rw [Finset.sum_congr rfl h, Finset.sum_sub_distrib,
    Finset.sum_range_reflect (fun j => nth (a ++ [0]) j * z ^ j) (a.length + 1)]

theorem polyEval_lsfSplit_snd (a : List K) (z : K) :
    polyEval (lsfSplit a).2 z
      = ∑ i ∈ range (a.length + 1), nth (a ++ [0]) i * z ^ (a.length - i)
        + ∑ i ∈ range (a.length + 1), nth (a ++ [0]) i * z ^ i := by
  unfold polyEval
  rw [(lsfSplit_length a).2, lsfSplit_snd, Nat.add_sub_cancel]
  have h : ∀ i ∈ range (a.length + 1),
      nth (vec (a.length + 1) (fun i => nth (a ++ [0]) i + nth (a ++ [0]) (a.length - i))) i
          * z ^ (a.length - i)
        = nth (a ++ [0]) i * z ^ (a.length - i)
          + (fun j => nth (a ++ [0]) j * z ^ j) (a.length + 1 - 1 - i) := by
    intro i hi
    rw [nth_vec, if_pos (mem_range.mp hi), add_mul]
    simp only [Nat.add_sub_cancel]
  rw [Finset.sum_congr rfl h, Finset.sum_add_distrib,
    Finset.sum_range_reflect (fun j => nth (a ++ [0]) j * z ^ j) (a.length + 1)]

/-- the difference polynomial always has the root `z = 1` -/
theorem lsfSplit_fst_root_one (a : List K) : polyEval (lsfSplit a).1 1 = 0 := by
  rw [polyEval_lsfSplit_fst]
  simp only [one_pow]
  exact sub_self _

/-- the difference polynomial has the root `z = -1` when the order `p = len a - 1` is odd -/
theorem lsfSplit_fst_root_neg_one (a : List K) (ha : a.length % 2 = 0) :
    polyEval (lsfSplit a).1 (-1) = 0 := by
  rw [polyEval_lsfSplit_fst]
  have h : ∀ i ∈ range (a.length + 1), nth (a ++ [0]) i * (-1 : K) ^ (a.length - i)
      = nth (a ++ [0]) i * (-1) ^ i := by
    intro i hi
    have := mem_range.mp hi
    rw [neg_one_pow_sub_of_even ha (by omega)]
  rw [Finset.sum_congr rfl h]
  exact sub_self _

/-- the sum polynomial has the root `z = -1` when the order `p = len a - 1` is even -/
theorem lsfSplit_snd_root_neg_one (a : List K) (ha : a.length % 2 = 1) :
    polyEval (lsfSplit a).2 (-1) = 0 := by
  rw [polyEval_lsfSplit_snd]
  have h : ∀ i ∈ range (a.length + 1), nth (a ++ [0]) i * (-1 : K) ^ (a.length - i)
      = -(nth (a ++ [0]) i * (-1) ^ i) := by
    intro i hi
    have := mem_range.mp hi
    rw [neg_one_pow_sub_of_odd ha (by omega), mul_neg]
  rw [Finset.sum_congr rfl h, Finset.sum_neg_distrib]
  exact neg_add_cancel _

/-- the recombination of `lsf2poly` applied to the two halves of `lsfSplit a` returns `a`:
`take (n-1) ((P1 + Q1)/2) = a` -/
theorem recombine_lsfSplit (h2 : (2 : K) ≠ 0) (a : List K) :
    (vec (max (lsfSplit a).1.length (lsfSplit a).2.length)
        (fun i => (nth (lsfSplit a).1 i + nth (lsfSplit a).2 i) / ((2 : ℕ) : K))).take
      ((vec (max (lsfSplit a).1.length (lsfSplit a).2.length)
        (fun i => (nth (lsfSplit a).1 i + nth (lsfSplit a).2 i) / ((2 : ℕ) : K))).length - 1) = a := by
  rw [vec_length, (lsfSplit_length a).1, (lsfSplit_length a).2, Nat.max_self, Nat.add_sub_cancel]
  have hv : vec (a.length + 1)
      (fun i => (nth (lsfSplit a).1 i + nth (lsfSplit a).2 i) / ((2 : ℕ) : K)) = a ++ [0] := by
    conv_rhs => rw [eq_vec_nth (a ++ [0])]
    have : (a ++ [(0 : K)]).length = a.length + 1 := by simp
    rw [this]
    apply vec_ext
    intro i _
    rw [Nat.cast_ofNat]
    exact lsfSplit_half_sum h2 a i
  rw [hv, List.take_left']
  rfl

end Lsf

/-! ### synthetic division: a root can be divided out (`deconvolve` leaves zero remainder) -/

section Deflate
variable {K : Type} [Field K]

/-- convolution with a monic linear factor, entry by entry (all indices) -/
theorem nth_polyMul_linear (P : List K) (hP : P ≠ []) (c : K) (k : ℕ) :
    nth (polyMul P [1, c]) k = nth P k + (if k = 0 then 0 else c * nth P (k - 1)) := by
  have hlen : (polyMul P [1, c]).length = P.length + 1 := by
    rw [polyMul_length P [1, c] hP (by simp)]; simp
  by_cases hk : k < P.length + 1
  · rw [nth_polyMul P [1, c] hP (by simp) k (by simpa using hk), Finset.sum_range_succ,
      Nat.sub_self]
    have h0 : nth ([1, c] : List K) 0 = 1 := rfl
    rw [h0, mul_one, add_comm]
    congr 1
    rcases k with _ | k
    · simp
    · rw [if_neg (by omega), Finset.sum_range_succ]
      have e1 : k + 1 - k = 1 := by omega
      have h1 : nth ([1, c] : List K) 1 = c := rfl
      have hz : ∑ i ∈ range k, nth P i * nth ([1, c] : List K) (k + 1 - i) = 0 := by
        apply Finset.sum_eq_zero
        intro i hi
        have := mem_range.mp hi
        rw [nth_of_ge ([1, c] : List K) (k + 1 - i) (by simp; omega), mul_zero]
      rw [hz, zero_add, e1, h1, Nat.add_sub_cancel, mul_comm]
  · rw [nth_of_ge _ k (by rw [hlen]; omega), nth_of_ge P k (by omega), if_neg (by omega),
      nth_of_ge P (k - 1) (by omega), mul_zero, add_zero]

/-- the two linear fixed factors multiply to the quadratic one: `(P·[1,1])·[1,-1] = P·[1,0,-1]` -/
theorem polyMul_linear_pair (P : List K) (hP : P ≠ []) :
    polyMul (polyMul P [1, 1]) [1, -1] = polyMul P [1, 0, -1] := by
  have hne : polyMul P ([1, 1] : List K) ≠ [] := polyMul_ne_nil P [1, 1] hP (by simp)
  have hl1 : (polyMul (polyMul P [1, 1]) ([1, -1] : List K)).length = P.length + 2 := by
    have hpos := List.length_pos_iff.mpr hP
    rw [polyMul_length _ _ hne (by simp), polyMul_length P [1, 1] hP (by simp)]
    simp only [List.length_cons, List.length_nil]
    omega
  have hl2 : (polyMul P ([1, 0, -1] : List K)).length = P.length + 2 := by
    rw [polyMul_length P _ hP (by simp)]; simp
  rw [eq_vec_nth (polyMul (polyMul P [1, 1]) ([1, -1] : List K)),
    eq_vec_nth (polyMul P ([1, 0, -1] : List K)), hl1, hl2]
  apply vec_ext
  intro k hk
  rw [nth_polyMul_linear _ hne, nth_polyMul_linear P hP, nth_polyMul P _ hP (by simp) k
    (by simpa using hk)]
  rcases k with _ | _ | k
  · simp [nth]
  · rw [if_neg (by omega), if_neg (by omega), nth_polyMul_linear P hP]
    simp [Finset.sum_range_succ, nth]
  · rw [if_neg (by omega), if_neg (by omega), nth_polyMul_linear P hP, if_neg (by omega)]
    simp only [Nat.add_sub_cancel]
    rw [Finset.sum_range_succ, Finset.sum_range_succ, Finset.sum_range_succ]
    have hz : ∑ i ∈ range k, nth P i * nth ([1, 0, -1] : List K) (k + 1 + 1 - i) = 0 := by
      apply Finset.sum_eq_zero
      intro i hi
      have := mem_range.mp hi
      rw [nth_of_ge ([1, 0, -1] : List K) (k + 1 + 1 - i) (by simp; omega), mul_zero]
    have e0 : k + 1 + 1 - (k + 1 + 1) = 0 := by omega
    have e1 : k + 1 + 1 - (k + 1) = 1 := by omega
    have e2 : k + 1 + 1 - k = 2 := by omega
    have h0 : nth ([1, 0, -1] : List K) 0 = 1 := rfl
    have h1 : nth ([1, 0, -1] : List K) 1 = 0 := rfl
    have h2 : nth ([1, 0, -1] : List K) 2 = -1 := rfl
    rw [hz, e0, e1, e2, h0, h1, h2]
    ring

/-- **synthetic division (Horner)**: a coefficient list with at least two entries that vanishes at
`r` is `P · [1, -r]` for the list `P` of its Horner partial sums — the remainder of `deconvolve` is
zero and the quotient keeps the leading coefficient -/
theorem exists_polyMul_linear (c : List K) (hc : 2 ≤ c.length) (r : K) (hr : polyEval c r = 0) :
    ∃ P : List K, P.length = c.length - 1 ∧ polyMul P [1, -r] = c ∧ nth P 0 = nth c 0 := by
  set n := c.length - 1 with hn
  let S : ℕ → K := fun k => ∑ i ∈ range (k + 1), nth c i * r ^ (k - i)
  have hS0 : S 0 = nth c 0 := by simp [S]
  have hSsucc : ∀ k, S (k + 1) = nth c (k + 1) + r * S k := by
    intro k
    show ∑ i ∈ range (k + 1 + 1), nth c i * r ^ (k + 1 - i) = _
    rw [Finset.sum_range_succ, Nat.sub_self, pow_zero, mul_one, add_comm]
    congr 1
    show _ = r * ∑ i ∈ range (k + 1), nth c i * r ^ (k - i)
    rw [Finset.mul_sum]
    apply Finset.sum_congr rfl
    intro i hi
    have := mem_range.mp hi
    have : k + 1 - i = (k - i) + 1 := by omega
    rw [this, pow_succ]
    ring
  have hSn : S n = 0 := by
    rw [← hr]
    unfold polyEval
    have : n + 1 = c.length := by omega
    show ∑ i ∈ range (n + 1), nth c i * r ^ (n - i) = _
    rw [this]
  have hPne : vec n S ≠ [] := by
    intro h
    have := vec_length n S
    rw [h] at this
    simp at this
    omega
  refine ⟨vec n S, vec_length n S, ?_, ?_⟩
  · conv_rhs => rw [eq_vec_nth c]
    have hl : (polyMul (vec n S) ([1, -r] : List K)).length = c.length := by
      rw [polyMul_length _ _ hPne (by simp), vec_length]; simp; omega
    rw [eq_vec_nth (polyMul (vec n S) ([1, -r] : List K)), hl]
    apply vec_ext
    intro k hk
    rw [nth_polyMul_linear _ hPne, nth_vec, nth_vec]
    rcases k with _ | k
    · rw [if_pos (by omega), if_pos rfl, add_zero, hS0]
    · rw [if_neg (Nat.succ_ne_zero k), Nat.add_sub_cancel, if_pos (by omega : k < n)]
      by_cases hk1 : k + 1 < n
      · rw [if_pos hk1, hSsucc]; ring
      · have hkn : k + 1 = n := by omega
        have := hSsucc k
        rw [hkn, hSn] at this
        rw [if_neg hk1, hkn]
        have h' : nth c n = -(r * S k) := by
          have h'' : nth c n + r * S k = 0 := this.symm
          exact eq_neg_of_add_eq_zero_left h''
        rw [h']; ring
  · rw [nth_vec, if_pos (by omega), hS0]

end Deflate

section Lead
variable {K : Type} [Field K]

/-- both halves of `lsfSplit a` start with the leading coefficient of `a` -/
theorem lsfSplit_lead (a : List K) (ha : a ≠ []) :
    nth (lsfSplit a).1 0 = nth a 0 ∧ nth (lsfSplit a).2 0 = nth a 0 := by
  have hpos : 0 < a.length := List.length_pos_iff.mpr ha
  have h0 : nth (a ++ [(0 : K)]) 0 = nth a 0 := by
    unfold nth
    rw [List.getD_eq_getElem?_getD, List.getD_eq_getElem?_getD, List.getElem?_append_left hpos]
  have hl : nth (a ++ [(0 : K)]) a.length = 0 := by
    unfold nth
    simp [List.getD_eq_getElem?_getD]
  rw [lsfSplit_fst, lsfSplit_snd, nth_vec, nth_vec, if_pos (by omega), Nat.sub_zero, h0, hl]
  exact ⟨sub_zero _, add_zero _⟩

end Lead

end SpecVerif.LpcL
