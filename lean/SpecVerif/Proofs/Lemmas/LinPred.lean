import SpecVerif.Proofs.Lemmas.Basic
import SpecVerif.Model.Levinson
import SpecVerif.Model.RealFn
import Mathlib.Algebra.Star.Basic
import Mathlib.Tactic.FieldSimp
import Mathlib.Tactic.LinearCombination
import Mathlib.Algebra.BigOperators.Group.List.Basic
import Mathlib.Analysis.SpecialFunctions.Artanh
import Mathlib.Analysis.SpecialFunctions.Trigonometric.Inverse
/-
  Helper lemmas on the linear-prediction conversions (`levup`, `levdown`, `rc2poly`, `poly2rc`,
  `levRun`) and the instance of the real special functions at `ℝ`.
-/
namespace SpecVerif
open Finset

section
variable {K : Type} [Field K] [StarRing K]

/-! ### entries of step-up / step-down -/

theorem levup_length' (a : List K) (k : K) : (levup a k).length = a.length + 1 := by
  simp [levup]

theorem levdown_length' (b : List K) : (levdown b).length = b.length - 1 := by
  simp [levdown]

theorem nth_levup_lt (a : List K) (k : K) (j : ℕ) (h : j < a.length) :
    nth (levup a k) j = nth a j + k * star (nth a (a.length - 1 - j)) := by
  unfold levup
  rw [nth_vec, if_pos (by omega), if_pos h]
  rfl

theorem nth_levup_last (a : List K) (k : K) : nth (levup a k) a.length = k := by
  unfold levup
  rw [nth_vec, if_pos (by omega), if_neg (by omega)]

theorem nth_levdown_lt (b : List K) (j : ℕ) (h : j < b.length - 1) :
    nth (levdown b) j
      = (nth b j - nth b (b.length - 1) * star (nth b (b.length - 1 - 1 - j)))
          / (1 - nth b (b.length - 1) * star (nth b (b.length - 1))) := by
  unfold levdown
  simp only [nth_vec, if_pos h]
  rfl

/-- the "self-conjugate" denominator -/
theorem star_one_sub_mul_star (k : K) : star (1 - k * star k) = 1 - k * star k := by
  simp [star_sub, star_mul]

theorem levdown_levup' (a : List K) (k : K) (hk : 1 - k * star k ≠ 0) :
    levdown (levup a k) = a := by
  have hl := levup_length' a k
  conv_rhs => rw [eq_vec_nth a]
  unfold levdown
  simp only [hl, Nat.add_sub_cancel, nth_levup_last, abs2_eq, conj_eq_star]
  apply vec_ext
  intro j hj
  rw [nth_levup_lt a k j hj, nth_levup_lt a k (a.length - 1 - j) (by omega)]
  have : a.length - 1 - (a.length - 1 - j) = j := by omega
  rw [this]
  simp only [star_add, star_mul, star_star]
  field_simp
  ring

theorem levup_levdown' (b : List K) (hb : b ≠ [])
    (hk : 1 - nth b (b.length - 1) * star (nth b (b.length - 1)) ≠ 0) :
    levup (levdown b) (nth b (b.length - 1)) = b := by
  have hpos : 0 < b.length := List.length_pos_iff.mpr hb
  have hl := levdown_length' b
  conv_rhs => rw [eq_vec_nth b]
  unfold levup
  rw [hl]
  have hlen : b.length - 1 + 1 = b.length := by omega
  rw [hlen]
  apply vec_ext
  intro j hj
  by_cases hjm : j < b.length - 1
  · rw [if_pos hjm, nth_levdown_lt b j hjm, nth_levdown_lt b (b.length - 1 - 1 - j) (by omega)]
    have : b.length - 1 - 1 - (b.length - 1 - 1 - j) = j := by omega
    rw [this]
    rw [conj_eq_star, star_div₀, star_one_sub_mul_star]
    simp only [star_sub, star_mul, star_star]
    field_simp
    ring
  · rw [if_neg hjm]
    have : j = b.length - 1 := by omega
    rw [this]

/-! ### `rc2poly` as a right fold -/

theorem rc2poly_nil (r0 : K) : rc2poly ([] : List K) r0 = ([], r0) := rfl

theorem rc2poly_append_singleton (kr : List K) (k r0 : K) :
    rc2poly (kr ++ [k]) r0
      = (levup (rc2poly kr r0).1 k, (1 - star k * k) * (rc2poly kr r0).2) := by
  unfold rc2poly
  rw [List.foldl_append]
  rfl

theorem rc2poly_length' (kr : List K) (r0 : K) : (rc2poly kr r0).1.length = kr.length := by
  induction kr using List.reverseRecOn with
  | nil => rfl
  | append_singleton kr k ih =>
    rw [rc2poly_append_singleton, levup_length', ih, List.length_append, List.length_singleton]

/-! ### `poly2rc` peels the last coefficient -/

theorem poly2rc_nil : poly2rc ([] : List K) = [] := rfl

/-- for a non-empty polynomial, `poly2rc` is `poly2rc` of the stepped-down polynomial followed by the
last coefficient (unconditionally: this is how the recursion is *defined*) -/
theorem poly2rc_eq_append (a : List K) (ha : a ≠ []) :
    poly2rc a = poly2rc (levdown a) ++ [nth a (a.length - 1)] := by
  have hpos : 0 < a.length := List.length_pos_iff.mpr ha
  obtain ⟨n, hn⟩ : ∃ n, a.length = n + 1 := ⟨a.length - 1, by omega⟩
  unfold poly2rc
  rw [levdown_length', hn, Nat.add_sub_cancel]
  simp only [stepDowns, List.map_cons, List.reverse_cons, hn, Nat.add_sub_cancel]

theorem poly2rc_levup (a : List K) (k : K) (hk : 1 - k * star k ≠ 0) :
    poly2rc (levup a k) = poly2rc a ++ [k] := by
  have hne : levup a k ≠ [] := by
    intro h
    have := levup_length' a k
    rw [h] at this
    simp at this
  rw [poly2rc_eq_append _ hne, levdown_levup' a k hk, levup_length', Nat.add_sub_cancel,
    nth_levup_last]

theorem poly2rc_length (a : List K) : (poly2rc a).length = a.length := by
  generalize hn : a.length = n
  induction n generalizing a with
  | zero =>
    have : a = [] := List.length_eq_zero_iff.mp hn
    subst this; rfl
  | succ n ih =>
    have ha : a ≠ [] := by intro h; subst h; simp at hn
    rw [poly2rc_eq_append a ha, List.length_append, List.length_singleton,
      ih (levdown a) (by rw [levdown_length', hn]; rfl)]

/-! ### Levinson's state -/

theorem levRun_succ_lp (r0 : K) (T : List K) (p : ℕ) :
    levRun r0 T (p + 1) = levStep T (levRun r0 T p) p := rfl

end

/-! ### `ac2rc ∘ rc2ac = id`: generic list facts -/

section
variable {K : Type} [Zero K]

theorem nth_tail (l : List K) (i : ℕ) : nth l.tail i = nth l (i + 1) := by
  unfold nth; simp [List.getD_eq_getElem?_getD]

theorem take_succ_nth (kr : List K) (m : ℕ) (h : m < kr.length) :
    kr.take (m + 1) = kr.take m ++ [nth kr m] := by
  rw [nth_of_lt kr m h]; exact List.take_succ_eq_append_getElem h

/-! #### the lag recursion of `poly2ac` as an "append the next value" fold -/


/-- `m` steps of a fold that appends `g R m` to `R` -/
def acFold (g : List K → ℕ → K) (e0 : K) (m : ℕ) : List K :=
  (List.range m).foldl (fun R m => R ++ [g R m]) [e0]

omit [Zero K] in
theorem acFold_zero (g : List K → ℕ → K) (e0 : K) : acFold g e0 0 = [e0] := rfl

omit [Zero K] in
theorem acFold_succ (g : List K → ℕ → K) (e0 : K) (m : ℕ) :
    acFold g e0 (m + 1) = acFold g e0 m ++ [g (acFold g e0 m) m] := by
  unfold acFold
  rw [List.range_succ, List.foldl_append]
  rfl

omit [Zero K] in
theorem acFold_length (g : List K → ℕ → K) (e0 : K) (m : ℕ) : (acFold g e0 m).length = m + 1 := by
  induction m with
  | zero => rfl
  | succ m ih => rw [acFold_succ, List.length_append, ih, List.length_singleton]

theorem nth_append_left (l l' : List K) (j : ℕ) (h : j < l.length) :
    nth (l ++ l') j = nth l j := by
  unfold nth
  simp [List.getD_eq_getElem?_getD, List.getElem?_append_left h]

theorem nth_append_length (l : List K) (x : K) : nth (l ++ [x]) l.length = x := by
  unfold nth
  simp [List.getD_eq_getElem?_getD]

/-- earlier entries are never changed by later steps -/
theorem nth_acFold_stable (g : List K → ℕ → K) (e0 : K) (m m' j : ℕ) (hj : j ≤ m) (hm : m ≤ m') :
    nth (acFold g e0 m') j = nth (acFold g e0 m) j := by
  induction m' with
  | zero =>
    have : m = 0 := by omega
    subst this; rfl
  | succ n ih =>
    by_cases h : m = n + 1
    · subst h; rfl
    · rw [acFold_succ, nth_append_left _ _ _ (by rw [acFold_length]; omega)]
      exact ih (by omega)

theorem nth_acFold_succ (g : List K → ℕ → K) (e0 : K) (m p : ℕ) (h : m < p) :
    nth (acFold g e0 p) (m + 1) = g (acFold g e0 m) m := by
  rw [nth_acFold_stable g e0 (m + 1) p (m + 1) le_rfl h, acFold_succ]
  have := nth_append_length (acFold g e0 m) (g (acFold g e0 m) m)
  rwa [acFold_length] at this

theorem nth_acFold_zero (g : List K → ℕ → K) (e0 : K) (p : ℕ) : nth (acFold g e0 p) 0 = e0 := by
  rw [nth_acFold_stable g e0 0 p 0 le_rfl (Nat.zero_le _)]; rfl


theorem getD_vec_lp {α : Type} (n : ℕ) (f : ℕ → α) (i : ℕ) (d : α) :
    (vec n f).getD i d = if i < n then f i else d := by
  unfold vec
  by_cases h : i < n <;> simp [h, List.getD_eq_getElem?_getD]

end

section RoundTrip
variable {K : Type} [Field K] [StarRing K]

/-- the lag `R_{m+1}` that `poly2ac` appends at step `m`, from the lags `R` found so far -/
def acNext (polys : List (List K)) (errs : List K) (k1 e0 : K) (R : List K) (m : ℕ) : K :=
  if m = 0 then -k1 * e0
  else -(sumR m (fun i => nth (polys.getD (m - 1) []) i * nth R (m - i)))
        - nth (polys.getD m []) m * nth errs (m - 1)

theorem poly2ac_eq_acFold (a : List K) (efinal : K) :
    poly2ac a efinal =
      acFold (acNext (stepDowns a a.length).reverse (stepDownErrs a efinal a.length).reverse
        (nth ((stepDowns a a.length).reverse.getD 0 []) 0)
        (nth (stepDownErrs a efinal a.length).reverse 0
          / (1 - abs2 (nth ((stepDowns a a.length).reverse.getD 0 []) 0))))
        (nth (stepDownErrs a efinal a.length).reverse 0
          / (1 - abs2 (nth ((stepDowns a a.length).reverse.getD 0 []) 0))) a.length := by
  unfold poly2ac acFold acNext
  simp only []
  congr 1
  funext R m
  split <;> rfl


/-! #### step-down of a stepped-up polynomial retraces the step-up -/

theorem levup_ne_nil (a : List K) (k : K) : levup a k ≠ [] := by
  intro h
  have := levup_length' a k
  rw [h] at this
  simp at this

/-- the lower-order polynomials of `rc2poly kr` are the `rc2poly` of the prefixes of `kr` -/
theorem stepDowns_rc2poly (kr : List K) (r0 : K) (hk : ∀ k ∈ kr, 1 - k * star k ≠ 0) :
    (stepDowns (rc2poly kr r0).1 kr.length).reverse
      = (List.range kr.length).map (fun i => (rc2poly (kr.take (i + 1)) r0).1) := by
  induction kr using List.reverseRecOn with
  | nil => rfl
  | append_singleton kr k ih =>
    rw [List.length_append, List.length_singleton, List.range_succ, List.map_append,
      rc2poly_append_singleton]
    simp only [stepDowns, List.reverse_cons, List.map_cons, List.map_nil]
    rw [levdown_levup' _ _ (hk k (by simp)), ih (fun k' hk' => hk k' (by simp [hk']))]
    congr 1
    · apply List.map_congr_left
      intro i hi
      rw [List.take_append_of_le_length (by have := List.mem_range.mp hi; omega)]
    · rw [List.take_of_length_le (by simp), rc2poly_append_singleton]

/-- the lower-order errors of `rc2poly kr` are those of the prefixes of `kr` -/
theorem stepDownErrs_rc2poly (kr : List K) (r0 : K) (hk : ∀ k ∈ kr, 1 - k * star k ≠ 0) :
    (stepDownErrs (rc2poly kr r0).1 (rc2poly kr r0).2 kr.length).reverse
      = (List.range kr.length).map (fun i => (rc2poly (kr.take (i + 1)) r0).2) := by
  induction kr using List.reverseRecOn with
  | nil => rfl
  | append_singleton kr k ih =>
    have hk' : 1 - star k * k ≠ 0 := by rw [mul_comm]; exact hk k (by simp)
    rw [List.length_append, List.length_singleton, List.range_succ, List.map_append,
      rc2poly_append_singleton]
    simp only [stepDownErrs, List.reverse_cons, List.map_cons, List.map_nil]
    rw [levdown_levup' _ _ (hk k (by simp)), levup_length', Nat.add_sub_cancel, nth_levup_last,
      conj_eq_star, mul_div_cancel_left₀ _ hk', ih (fun k' hk' => hk k' (by simp [hk']))]
    congr 1
    · apply List.map_congr_left
      intro i hi
      rw [List.take_append_of_le_length (by have := List.mem_range.mp hi; omega)]
    · rw [List.take_of_length_le (by simp), rc2poly_append_singleton]

theorem rc2poly_snd_ne_zero (kr : List K) (r0 : K) (hr0 : r0 ≠ 0)
    (hk : ∀ k ∈ kr, 1 - k * star k ≠ 0) : (rc2poly kr r0).2 ≠ 0 := by
  induction kr using List.reverseRecOn with
  | nil => exact hr0
  | append_singleton kr k ih =>
    rw [rc2poly_append_singleton]
    have hk' : 1 - star k * k ≠ 0 := by rw [mul_comm]; exact hk k (by simp)
    exact mul_ne_zero hk' (ih (fun k' hk' => hk k' (by simp [hk'])))


theorem rc2poly_take_succ (kr : List K) (r0 : K) (m : ℕ) (h : m < kr.length) :
    rc2poly (kr.take (m + 1)) r0
      = (levup (rc2poly (kr.take m) r0).1 (nth kr m),
         (1 - star (nth kr m) * nth kr m) * (rc2poly (kr.take m) r0).2) := by
  rw [take_succ_nth kr m h, rc2poly_append_singleton]

theorem rc2poly_take_length (kr : List K) (r0 : K) (m : ℕ) (h : m ≤ kr.length) :
    (rc2poly (kr.take m) r0).1.length = m := by
  rw [rc2poly_length', List.length_take, Nat.min_eq_left h]

/-- `rc2ac` as the fold, with the step-down data replaced by the prefixes' `rc2poly` -/
theorem rc2ac_eq_acFold (kr : List K) (r0 : K) (hk : ∀ k ∈ kr, 1 - k * star k ≠ 0) :
    rc2ac kr r0 =
      acFold (acNext (vec kr.length (fun i => (rc2poly (kr.take (i + 1)) r0).1))
          (vec kr.length (fun i => (rc2poly (kr.take (i + 1)) r0).2))
          (nth ((vec kr.length (fun i => (rc2poly (kr.take (i + 1)) r0).1)).getD 0 []) 0)
          (nth (vec kr.length (fun i => (rc2poly (kr.take (i + 1)) r0).2)) 0
            / (1 - abs2 (nth ((vec kr.length (fun i => (rc2poly (kr.take (i + 1)) r0).1)).getD 0 []) 0))))
        (nth (vec kr.length (fun i => (rc2poly (kr.take (i + 1)) r0).2)) 0
            / (1 - abs2 (nth ((vec kr.length (fun i => (rc2poly (kr.take (i + 1)) r0).1)).getD 0 []) 0)))
        kr.length := by
  unfold rc2ac
  simp only []
  rw [poly2ac_eq_acFold, rc2poly_length', stepDowns_rc2poly kr r0 hk, stepDownErrs_rc2poly kr r0 hk]
  rfl

/-- first polynomial coefficient / zero lag recovered by `rc2ac` when there is at least one
reflection coefficient -/
theorem rc2ac_k1_e0 (kr : List K) (r0 : K) (hp : 0 < kr.length)
    (hk : ∀ k ∈ kr, 1 - k * star k ≠ 0) :
    nth ((vec kr.length (fun i => (rc2poly (kr.take (i + 1)) r0).1)).getD 0 []) 0 = nth kr 0 ∧
    nth (vec kr.length (fun i => (rc2poly (kr.take (i + 1)) r0).2)) 0
        / (1 - abs2 (nth ((vec kr.length (fun i => (rc2poly (kr.take (i + 1)) r0).1)).getD 0 []) 0))
      = r0 := by
  have h1 : nth ((vec kr.length (fun i => (rc2poly (kr.take (i + 1)) r0).1)).getD 0 []) 0
      = nth kr 0 := by
    rw [getD_vec_lp, if_pos hp, rc2poly_take_succ kr r0 0 hp]
    exact nth_levup_last ([] : List K) (nth kr 0)
  refine ⟨h1, ?_⟩
  rw [h1, nth_vec, if_pos hp, rc2poly_take_succ kr r0 0 hp, abs2_eq]
  have hne : 1 - nth kr 0 * star (nth kr 0) ≠ 0 := by
    apply hk
    rw [nth_of_lt kr 0 hp]
    exact List.getElem_mem hp
  show (1 - star (nth kr 0) * nth kr 0) * r0 / (1 - nth kr 0 * star (nth kr 0)) = r0
  rw [mul_comm (star (nth kr 0))]
  field_simp

/-- zero lag of `rc2ac` -/
theorem nth_rc2ac_zero (kr : List K) (r0 : K) (hp : 0 < kr.length)
    (hk : ∀ k ∈ kr, 1 - k * star k ≠ 0) : nth (rc2ac kr r0) 0 = r0 := by
  rw [rc2ac_eq_acFold kr r0 hk, nth_acFold_zero]
  exact (rc2ac_k1_e0 kr r0 hp hk).2

theorem rc2ac_length' (kr : List K) (r0 : K) (hk : ∀ k ∈ kr, 1 - k * star k ≠ 0) :
    (rc2ac kr r0).length = kr.length + 1 := by
  rw [rc2ac_eq_acFold kr r0 hk, acFold_length]

/-- the lags produced by `rc2ac` satisfy the (inverse) Levinson recursion with the prefixes'
polynomials and errors -/
theorem nth_rc2ac_succ (kr : List K) (r0 : K) (hk : ∀ k ∈ kr, 1 - k * star k ≠ 0)
    (m : ℕ) (hm : m < kr.length) :
    nth (rc2ac kr r0) (m + 1)
      = -(∑ i ∈ range m, nth (rc2poly (kr.take m) r0).1 i * nth (rc2ac kr r0) (m - i))
        - nth kr m * (rc2poly (kr.take m) r0).2 := by
  have hp : 0 < kr.length := by omega
  obtain ⟨hk1, he0⟩ := rc2ac_k1_e0 kr r0 hp hk
  have hR := rc2ac_eq_acFold kr r0 hk
  rw [he0, hk1] at hR
  rw [hR, nth_acFold_succ _ _ m kr.length hm]
  unfold acNext
  by_cases h0 : m = 0
  · subst h0
    rw [if_pos rfl]
    simp [rc2poly_nil]
  · rw [if_neg h0]
    have hm1 : m - 1 + 1 = m := by omega
    rw [getD_vec_lp, if_pos (by omega), getD_vec_lp, if_pos hm, nth_vec, if_pos (by omega), hm1,
      rc2poly_take_succ kr r0 m hm, sumR_eq_sum]
    have hlast : nth (levup (rc2poly (kr.take m) r0).1 (nth kr m)) m = nth kr m := by
      have := nth_levup_last (rc2poly (kr.take m) r0).1 (nth kr m)
      rwa [rc2poly_take_length kr r0 m (by omega)] at this
    rw [hlast]
    congr 2
    apply Finset.sum_congr rfl
    intro i hi
    have := mem_range.mp hi
    rw [nth_acFold_stable _ _ m kr.length (m - i) (by omega) (by omega)]

/-- **`ac2rc ∘ rc2ac`**: Levinson run on the lags produced by `rc2ac` retraces the reflection
coefficients stage by stage -/
theorem levRun_rc2ac_ref (kr : List K) (r0 : K) (hr0 : r0 ≠ 0)
    (hk : ∀ k ∈ kr, 1 - k * star k ≠ 0) (m : ℕ) (hm : m ≤ kr.length) :
    (levRun r0 (rc2ac kr r0).tail m).ref = kr.take m ∧
    (levRun r0 (rc2ac kr r0).tail m).A = (rc2poly (kr.take m) r0).1 ∧
    (levRun r0 (rc2ac kr r0).tail m).P = (rc2poly (kr.take m) r0).2 := by
  induction m with
  | zero => exact ⟨rfl, rfl, rfl⟩
  | succ m ih =>
    obtain ⟨ihr, iha, ihp⟩ := ih (by omega)
    have hm' : m < kr.length := by omega
    have hE : (rc2poly (kr.take m) r0).2 ≠ 0 :=
      rc2poly_snd_ne_zero _ r0 hr0 (fun k hk' => hk k (List.mem_of_mem_take hk'))
    have htemp : -(nth (rc2ac kr r0).tail m
          + sumR m (fun j => nth (levRun r0 (rc2ac kr r0).tail m).A j
              * nth (rc2ac kr r0).tail (m - j - 1))) / (levRun r0 (rc2ac kr r0).tail m).P
        = nth kr m := by
      rw [iha, ihp, nth_tail, nth_rc2ac_succ kr r0 hk m hm', sumR_eq_sum]
      have : ∀ j ∈ range m, nth (rc2poly (kr.take m) r0).1 j * nth (rc2ac kr r0).tail (m - j - 1)
          = nth (rc2poly (kr.take m) r0).1 j * nth (rc2ac kr r0) (m - j) := by
        intro j hj
        have := mem_range.mp hj
        rw [nth_tail]
        congr 2
        omega
      rw [Finset.sum_congr rfl this]
      field_simp
      ring
    rw [levRun_succ_lp]
    unfold levStep
    simp only [htemp]
    rw [rc2poly_take_succ kr r0 m hm', take_succ_nth kr m hm', ihr, iha, ihp, abs2_eq]
    refine ⟨rfl, rfl, ?_⟩
    ring

end RoundTrip

/-! ### `rc2ac ∘ ac2rc = id` and the polynomial side -/

section RoundTrip2
variable {K : Type} [Field K] [StarRing K]

theorem levRun_ref_length_lp (r0 : K) (T : List K) (p : ℕ) : (levRun r0 T p).ref.length = p := by
  induction p with
  | zero => rfl
  | succ p ih =>
    rw [levRun_succ_lp]; unfold levStep
    simp only [List.length_append, List.length_singleton, ih]

theorem levRun_ref_take_lp (r0 : K) (T : List K) (p m : ℕ) (hm : m ≤ p) :
    (levRun r0 T p).ref.take m = (levRun r0 T m).ref := by
  induction p with
  | zero =>
    have : m = 0 := by omega
    subst this; rfl
  | succ p ih =>
    by_cases h : m = p + 1
    · subst h
      rw [List.take_of_length_le (by rw [levRun_ref_length_lp])]
    · rw [← ih (by omega), levRun_succ_lp]
      unfold levStep
      simp only []
      rw [List.take_append_of_le_length (by rw [levRun_ref_length_lp]; omega)]

/-- Levinson's state in terms of `rc2poly` (the commuting square, as an equation of pairs) -/
theorem rc2poly_levRun_ref (r0 : K) (T : List K) (p : ℕ) :
    rc2poly (levRun r0 T p).ref r0 = ((levRun r0 T p).A, (levRun r0 T p).P) := by
  induction p with
  | zero => rfl
  | succ p ih =>
    rw [levRun_succ_lp]
    unfold levStep
    simp only [rc2poly_append_singleton, ih, abs2_eq]
    congr 1
    ring

/-- a non-zero final error means every earlier error was non-zero … -/
theorem levRun_P_ne_zero (r0 : K) (T : List K) (p : ℕ) (hP : (levRun r0 T p).P ≠ 0)
    (m : ℕ) (hm : m ≤ p) : (levRun r0 T m).P ≠ 0 := by
  induction p with
  | zero =>
    have : m = 0 := by omega
    subst this; exact hP
  | succ p ih =>
    by_cases h : m = p + 1
    · subst h; exact hP
    · apply ih _ (by omega)
      intro h0
      apply hP
      rw [levRun_succ_lp]
      unfold levStep
      simp only [h0, zero_mul]

/-- … and every reflection coefficient is off the unit circle -/
theorem levRun_ref_ne (r0 : K) (T : List K) (p : ℕ) (hP : (levRun r0 T p).P ≠ 0) :
    ∀ k ∈ (levRun r0 T p).ref, 1 - k * star k ≠ 0 := by
  induction p with
  | zero => intro k hk; simp [levRun] at hk
  | succ p ih =>
    have hPp := levRun_P_ne_zero r0 T (p + 1) hP p (by omega)
    rw [levRun_succ_lp] at hP ⊢
    unfold levStep at hP ⊢
    simp only [abs2_eq] at hP ⊢
    intro k hk
    rcases List.mem_append.mp hk with h | h
    · exact ih hPp k h
    · rw [List.mem_singleton] at h
      subst h
      exact right_ne_zero_of_mul hP

/-- the `m`-th reflection coefficient of a longer run is the one computed at stage `m` -/
theorem nth_levRun_ref_lp (r0 : K) (T : List K) (p m : ℕ) (hm : m < p) :
    nth (levRun r0 T p).ref m
      = -(nth T m + sumR m (fun j => nth (levRun r0 T m).A j * nth T (m - j - 1)))
          / (levRun r0 T m).P := by
  have h1 := take_succ_nth (levRun r0 T p).ref m (by rw [levRun_ref_length_lp]; exact hm)
  rw [levRun_ref_take_lp r0 T p (m + 1) (by omega), levRun_ref_take_lp r0 T p m (by omega)] at h1
  rw [levRun_succ_lp] at h1
  unfold levStep at h1
  simp only [] at h1
  have h2 := List.append_cancel_left h1
  exact (List.singleton_inj.mp h2).symm

omit [StarRing K] in
theorem nth_cons_zero (x : K) (l : List K) : nth (x :: l) 0 = x := rfl
omit [StarRing K] in
theorem nth_cons_succ (x : K) (l : List K) (i : ℕ) : nth (x :: l) (i + 1) = nth l i := rfl

/-- the lags rebuilt from Levinson's reflection coefficients are the input lags -/
theorem nth_rc2ac_levRun (r0 : K) (T : List K) (p : ℕ) (hP : (levRun r0 T p).P ≠ 0)
    (m : ℕ) (hm : m < p) :
    nth (rc2ac (levRun r0 T p).ref r0) (m + 1) = nth T m := by
  have hk := levRun_ref_ne r0 T p hP
  induction m using Nat.strong_induction_on with
  | _ m ih =>
    have hPm := levRun_P_ne_zero r0 T p hP m (by omega)
    rw [nth_rc2ac_succ _ r0 hk m (by rw [levRun_ref_length_lp]; exact hm),
      levRun_ref_take_lp r0 T p m (by omega), rc2poly_levRun_ref, nth_levRun_ref_lp r0 T p m hm,
      sumR_eq_sum]
    have : ∀ i ∈ range m, nth (levRun r0 T m).A i * nth (rc2ac (levRun r0 T p).ref r0) (m - i)
        = nth (levRun r0 T m).A i * nth T (m - i - 1) := by
      intro i hi
      have := mem_range.mp hi
      have e : m - i = (m - i - 1) + 1 := by omega
      rw [e, ih (m - i - 1) (by omega) (by omega)]
      rfl
    rw [Finset.sum_congr rfl this]
    show -(∑ i ∈ range m, nth (levRun r0 T m).A i * nth T (m - i - 1))
      - -(nth T m + ∑ i ∈ range m, nth (levRun r0 T m).A i * nth T (m - i - 1))
          / (levRun r0 T m).P * (levRun r0 T m).P = nth T m
    field_simp
    ring

theorem rc2ac_levRun (r0 : K) (T : List K) (hT : T ≠ []) (hP : (levRun r0 T T.length).P ≠ 0) :
    rc2ac (levRun r0 T T.length).ref r0 = r0 :: T := by
  have hpos : 0 < T.length := List.length_pos_iff.mpr hT
  have hk := levRun_ref_ne r0 T T.length hP
  have hlen : (rc2ac (levRun r0 T T.length).ref r0).length = T.length + 1 := by
    rw [rc2ac_length' _ r0 hk, levRun_ref_length_lp]
  rw [eq_vec_nth (rc2ac (levRun r0 T T.length).ref r0), eq_vec_nth (r0 :: T), hlen,
    List.length_cons]
  apply vec_ext
  intro i hi
  cases i with
  | zero =>
    rw [nth_cons_zero, nth_rc2ac_zero _ r0 (by rw [levRun_ref_length_lp]; exact hpos) hk]
  | succ i =>
    rw [nth_cons_succ, nth_rc2ac_levRun r0 T T.length hP i (by omega)]


/-! #### the polynomial side: `ac2poly ∘ poly2ac` -/

theorem rc2poly_error' (kr : List K) (r0 : K) :
    (rc2poly kr r0).2 = r0 * (kr.map (fun k => 1 - star k * k)).prod := by
  induction kr using List.reverseRecOn with
  | nil => simp [rc2poly_nil]
  | append_singleton kr k ih =>
    rw [rc2poly_append_singleton, ih, List.map_append, List.prod_append]
    simp only [List.map_cons, List.map_nil, List.prod_cons, List.prod_nil]
    ring

theorem rc2poly_poly2rc' (a : List K) (r0 : K) (hk : ∀ k ∈ poly2rc a, 1 - k * star k ≠ 0) :
    (rc2poly (poly2rc a) r0).1 = a := by
  generalize hn : a.length = n
  induction n generalizing a with
  | zero =>
    have : a = [] := List.length_eq_zero_iff.mp hn
    subst this; rfl
  | succ n ih =>
    have ha : a ≠ [] := by intro h; subst h; simp at hn
    have hsplit := poly2rc_eq_append a ha
    rw [hsplit] at hk
    rw [hsplit, rc2poly_append_singleton]
    show levup (rc2poly (poly2rc (levdown a)) r0).1 (nth a (a.length - 1)) = a
    rw [ih (levdown a) (fun k' hk' => hk k' (by simp [hk'])) (by rw [levdown_length', hn]; rfl)]
    exact levup_levdown' a ha (hk _ (by simp))

/-- `poly2ac a e` is `rc2ac` of the step-down reflection coefficients with the zero lag
`e / ∏(1 - |k_i|²)` -/
theorem poly2ac_eq_rc2ac (a : List K) (e : K) (hk : ∀ k ∈ poly2rc a, 1 - k * star k ≠ 0) :
    poly2ac a e
      = rc2ac (poly2rc a) (e / ((poly2rc a).map (fun k => 1 - star k * k)).prod) := by
  have hD : ((poly2rc a).map (fun k => 1 - star k * k)).prod ≠ 0 := by
    have := rc2poly_snd_ne_zero (poly2rc a) (1 : K) one_ne_zero hk
    rwa [rc2poly_error', one_mul] at this
  unfold rc2ac
  simp only []
  rw [rc2poly_poly2rc' a _ hk, rc2poly_error', div_mul_cancel₀ _ hD]

theorem levRun_poly2ac (a : List K) (e : K) (ha : a ≠ []) (he : e ≠ 0)
    (hk : ∀ k ∈ poly2rc a, 1 - k * star k ≠ 0) :
    (levRun (nth (poly2ac a e) 0) (poly2ac a e).tail a.length).A = a ∧
    (levRun (nth (poly2ac a e) 0) (poly2ac a e).tail a.length).P = e ∧
    (levRun (nth (poly2ac a e) 0) (poly2ac a e).tail a.length).ref = poly2rc a := by
  have hD : ((poly2rc a).map (fun k => 1 - star k * k)).prod ≠ 0 := by
    have := rc2poly_snd_ne_zero (poly2rc a) (1 : K) one_ne_zero hk
    rwa [rc2poly_error', one_mul] at this
  have hpos : 0 < (poly2rc a).length := by
    rw [poly2rc_length]; exact List.length_pos_iff.mpr ha
  have hr0 : e / ((poly2rc a).map (fun k => 1 - star k * k)).prod ≠ 0 := div_ne_zero he hD
  rw [poly2ac_eq_rc2ac a e hk, nth_rc2ac_zero _ _ hpos hk]
  obtain ⟨h1, h2, h3⟩ := levRun_rc2ac_ref (poly2rc a) _ hr0 hk (poly2rc a).length le_rfl
  rw [List.take_length] at h1 h2 h3
  rw [poly2rc_length] at h1 h2 h3
  refine ⟨?_, ?_, h1⟩
  · rw [h2, rc2poly_poly2rc' a _ hk]
  · rw [h3, rc2poly_error', div_mul_cancel₀ _ hD]

end RoundTrip2

/-! ### the real special functions at `ℝ` -/

noncomputable instance instRealFnReal : RealFn ℝ where
  pi := Real.pi
  cos := Real.cos
  sin := Real.sin
  exp := Real.exp
  log := Real.log
  sqrt := Real.sqrt
  tanh := Real.tanh
  artanh := Real.artanh
  arcsin := Real.arcsin
  abs := fun x => |x|
  sinc := fun x => if x = 0 then 1 else Real.sin (Real.pi * x) / (Real.pi * x)
  lt := fun a b => decide (a < b)

theorem rc2lar_real (k : ℝ) : rc2lar k = -2 * Real.artanh (-k) := by
  simp [rc2lar, RealFn.artanh]

theorem lar2rc_real (g : ℝ) : lar2rc g = -Real.tanh (-g / 2) := by
  simp [lar2rc, RealFn.tanh]

theorem rc2is_real (k : ℝ) : rc2is k = 2 / Real.pi * Real.arcsin k := by
  simp [rc2is, RealFn.arcsin, RealFn.pi]

theorem is2rc_real (s : ℝ) : is2rc s = Real.sin (s * Real.pi / 2) := by
  simp [is2rc, RealFn.sin, RealFn.pi]

end SpecVerif
