import SpecVerif.Model.Daniell
import SpecVerif.Proofs.Lemmas.Basic
import SpecVerif.Proofs.Lemmas.Arma
import Mathlib.Algebra.BigOperators.Field
import Mathlib.Algebra.Order.BigOperators.Ring.Finset
import Mathlib.Algebra.Order.Field.Basic
import Mathlib.Tactic.Ring
/-
  Helper lemmas for the Daniell periodogram (`Model/Daniell.lean`).
-/
namespace SpecVerif.DaniellL
open Finset SpecVerif

/-- the number of outputs lies between the truncated and the rounded-up quotient -/
theorem daniellLen_bounds (L P : ℕ) :
    L / (2 * P + 1) ≤ daniellLen L P ∧ daniellLen L P ≤ (L + (2 * P + 1) - 1) / (2 * P + 1) := by
  have hfl : L / (2 * P + 1) ≤ (L + (2 * P + 1) - 1) / (2 * P + 1) :=
    Nat.div_le_div_right (by omega)
  unfold daniellLen
  simp only
  split <;> split <;> omega

/-- every averaging window starts inside the periodogram: `(len − 1)(2P+1) < L` -/
theorem daniell_window_start (L P i : ℕ) (hi : i < daniellLen L P) : i * (2 * P + 1) < L := by
  have h2 := (daniellLen_bounds L P).2
  have hpos : 0 < 2 * P + 1 := by omega
  have hi' : i + 1 ≤ (L + (2 * P + 1) - 1) / (2 * P + 1) := by omega
  have := (Nat.le_div_iff_mul_le hpos).mp hi'
  have e : (i + 1) * (2 * P + 1) = i * (2 * P + 1) + (2 * P + 1) := by ring
  omega

/-- with `P ≥ 1` and at least two periodogram bins, every output averages at least one bin -/
theorem daniellCount_pos (L P i : ℕ) (hP : 1 ≤ P) (hL : 2 ≤ L) (hi : i < daniellLen L P) :
    0 < daniellCount L P i := by
  have hs := daniell_window_start L P i hi
  unfold daniellCount daniellHi daniellLo
  rcases Nat.eq_zero_or_pos i with rfl | hipos
  · simp only [Nat.zero_mul, Nat.zero_sub, Nat.zero_add]
    omega
  · have : P < i * (2 * P + 1) := by
      calc P < 1 * (2 * P + 1) := by omega
        _ ≤ i * (2 * P + 1) := Nat.mul_le_mul_right _ hipos
    omega

/-- the count never exceeds the nominal `2P+1` -/
theorem daniellCount_le (L P i : ℕ) : daniellCount L P i ≤ 2 * P + 1 := by
  unfold daniellCount daniellHi daniellLo
  omega

section Field
variable {K : Type} [Field K]

theorem daniellBin_smul (s : K) (psd : List K) (P i : ℕ) :
    daniellBin (psd.map (s * ·)) P i = s * daniellBin psd P i := by
  unfold daniellBin
  simp only [List.length_map, sumR_eq_sum]
  rw [show (fun v => s * v) = (s * ·) from rfl]
  simp only [ArmaL.nth_map_mul_left, ← Finset.mul_sum, mul_div_assoc]

theorem daniell_smul (s : K) (psd : List K) (P : ℕ) :
    daniell (psd.map (s * ·)) P = (daniell psd P).map (s * ·) := by
  unfold daniell
  rw [List.length_map]
  unfold vec
  rw [List.map_map]
  apply List.map_congr_left
  intro i _
  exact daniellBin_smul s psd P i

/-- each output is the arithmetic mean of the bins it covers -/
theorem daniellBin_mean [CharZero K] (psd : List K) (P i : ℕ) (hc : 0 < daniellCount psd.length P i) :
    (daniellCount psd.length P i : K) * daniellBin psd P i
      = ∑ j ∈ range (daniellCount psd.length P i), nth psd (daniellLo P i + j) := by
  unfold daniellBin
  have : (daniellCount psd.length P i : K) ≠ 0 := Nat.cast_ne_zero.mpr (by omega)
  rw [sumR_eq_sum, mul_div_cancel₀ _ this]

end Field

section Ordered
variable {K : Type} [Field K] [LinearOrder K] [IsStrictOrderedRing K]

/-- a mean of non-negative values is non-negative; of positive values (over a non-empty window) positive -/
theorem daniellBin_nonneg (psd : List K) (P i : ℕ) (h : ∀ n, 0 ≤ nth psd n) : 0 ≤ daniellBin psd P i := by
  unfold daniellBin
  rw [sumR_eq_sum]
  exact div_nonneg (Finset.sum_nonneg (fun j _ => h _)) (Nat.cast_nonneg _)

theorem daniellBin_pos (psd : List K) (P i : ℕ) (hc : 0 < daniellCount psd.length P i)
    (h : ∀ n, n < psd.length → 0 < nth psd n) (hhi : daniellHi psd.length P i ≤ psd.length) :
    0 < daniellBin psd P i := by
  unfold daniellBin
  rw [sumR_eq_sum]
  apply div_pos
  · apply Finset.sum_pos
    · intro j hj
      apply h
      have := Finset.mem_range.mp hj
      unfold daniellCount at this
      omega
    · exact ⟨0, Finset.mem_range.mpr hc⟩
  · exact Nat.cast_pos.mpr hc

end Ordered

end SpecVerif.DaniellL
