import SpecVerif.Proofs.Lemmas.DFT
import SpecVerif.Model.Periodogram
import Mathlib.Algebra.BigOperators.Intervals
import Mathlib.Algebra.BigOperators.Ring.Finset
import Mathlib.Algebra.BigOperators.Field
import Mathlib.Algebra.Star.BigOperators
import Mathlib.Algebra.Field.Basic
import Mathlib.Tactic.Ring
import Mathlib.Tactic.Linarith
import Mathlib.Tactic.Abel
import Mathlib.Tactic.FieldSimp
/-
  Wiener–Khinchin lemmas: a square summed by diagonals, the function-level identity
  `|Σ x_a z^a|² = r_0 + Σ_{m≥1} (r_m z^m + star r_m z^{-m})` on the unit circle, the DFT of the lag
  sequence `correlogramSeq` when its two halves do not overlap, and the resulting closed form of a
  bin of the model's `correlogram`.
-/
namespace SpecVerif
open Finset BigOperators

section Diag
variable {M : Type} [AddCommMonoid M]


/-- strict lower triangle summed by diagonals: `a = n + m`, `b = n`, `m ≥ 1`. -/
theorem sum_lower_by_diag (N : ℕ) (g : ℕ → ℕ → M) :
    ∑ a ∈ range N, ∑ b ∈ range a, g a b
      = ∑ m ∈ Ico 1 N, ∑ n ∈ range (N - m), g (n + m) n := by
  induction N with
  | zero => simp
  | succ N ih =>
    rw [Finset.sum_range_succ, ih]
    -- RHS: split off for each m the term n = N - m, and the m = N … careful
    have h1 : ∑ m ∈ Ico 1 (N + 1), ∑ n ∈ range (N + 1 - m), g (n + m) n
        = ∑ m ∈ Ico 1 (N + 1), ((∑ n ∈ range (N - m), g (n + m) n) + g N (N - m)) := by
      apply Finset.sum_congr rfl
      intro m hm
      have hm' := Finset.mem_Ico.mp hm
      have : N + 1 - m = (N - m) + 1 := by omega
      rw [this, Finset.sum_range_succ]
      have : N - m + m = N := by omega
      rw [this]
    rw [h1, Finset.sum_add_distrib]
    congr 1
    · -- the extra m = N term has empty inner range
      rcases Nat.eq_zero_or_pos N with h0 | hpos
      · subst h0; simp
      · rw [Finset.sum_Ico_succ_top (by omega : 1 ≤ N)]
        simp
    · -- Σ_{b<N} g N b = Σ_{m=1}^{N} g N (N-m)
      rw [Finset.sum_Ico_eq_sum_range]
      simp only [Nat.add_sub_cancel]
      rw [← Finset.sum_range_reflect]
      apply Finset.sum_congr rfl
      intro j hj
      have := Finset.mem_range.mp hj
      congr 1; omega

/-- full square = diagonal + lower + upper, both by diagonals. -/
theorem sum_square_by_diag (N : ℕ) (g : ℕ → ℕ → M) :
    ∑ a ∈ range N, ∑ b ∈ range N, g a b
      = (∑ a ∈ range N, g a a)
        + ∑ m ∈ Ico 1 N, ∑ n ∈ range (N - m), (g (n + m) n + g n (n + m)) := by
  have split : ∀ a ∈ range N, ∑ b ∈ range N, g a b
      = g a a + ∑ b ∈ range a, g a b + ∑ b ∈ Ico (a + 1) N, g a b := by
    intro a ha
    have ha' := Finset.mem_range.mp ha
    rw [Finset.range_eq_Ico, ← Finset.sum_Ico_consecutive _ (Nat.zero_le a) (by omega : a ≤ N),
      ← Finset.sum_Ico_consecutive _ (by omega : a ≤ a + 1) (by omega : a + 1 ≤ N)]
    simp only [Nat.Ico_succ_singleton, Finset.sum_singleton, ← Finset.range_eq_Ico]
    abel
  rw [Finset.sum_congr rfl split]
  simp only [Finset.sum_add_distrib]
  rw [sum_lower_by_diag N g]
  -- upper triangle: swap order of summation then use the lower lemma on gᵀ
  have upper : ∑ a ∈ range N, ∑ b ∈ Ico (a + 1) N, g a b = ∑ b ∈ range N, ∑ a ∈ range b, g a b := by
    have := Finset.sum_comm' (s := range N) (t := fun a => Ico (a + 1) N) (t' := range N)
      (s' := fun b => range b) (f := fun a b => g a b)
      (by intro a b; simp only [Finset.mem_Ico, Finset.mem_range]; omega)
    exact this
  rw [upper, sum_lower_by_diag N (fun a b => g b a)]
  abel

end Diag

section WK
variable {K : Type} [Field K] [StarRing K]


/-- raw (un-normalised) autocorrelation at lag m ≥ 0 -/
def rawCorr (N : ℕ) (x : ℕ → K) (m : ℕ) : K := ∑ n ∈ range (N - m), x (n + m) * star (x n)

/-- Wiener–Khinchin at one frequency `z` on the unit circle (`star z = z⁻¹`). -/
theorem wiener_khinchin (N : ℕ) (x : ℕ → K) (z : K) (hz : z ≠ 0) (hstar : star z = z⁻¹) :
    (∑ a ∈ range N, x a * z ^ a) * star (∑ a ∈ range N, x a * z ^ a)
      = rawCorr N x 0
        + ∑ m ∈ Ico 1 N, (rawCorr N x m * z ^ m + star (rawCorr N x m) * z⁻¹ ^ m) := by
  rw [star_sum, Finset.sum_mul_sum]
  simp only [star_mul', star_pow, hstar]
  rw [sum_square_by_diag N (fun a b => x a * z ^ a * (star (x b) * z⁻¹ ^ b))]
  congr 1
  · unfold rawCorr
    simp only [Nat.sub_zero, Nat.add_zero]
    apply Finset.sum_congr rfl
    intro a _
    have : z ^ a * z⁻¹ ^ a = 1 := by rw [← mul_pow, mul_inv_cancel₀ hz, one_pow]
    calc x a * z ^ a * (star (x a) * z⁻¹ ^ a) = x a * star (x a) * (z ^ a * z⁻¹ ^ a) := by ring
      _ = x a * star (x a) := by rw [this, mul_one]
  · apply Finset.sum_congr rfl
    intro m _
    unfold rawCorr
    rw [star_sum, Finset.sum_mul, Finset.sum_mul, ← Finset.sum_add_distrib]
    apply Finset.sum_congr rfl
    intro n _
    have h1 : z ^ (n + m) * z⁻¹ ^ n = z ^ m := by
      rw [pow_add, mul_comm (z ^ n), mul_assoc, ← mul_pow, mul_inv_cancel₀ hz, one_pow, mul_one]
    have h2 : z ^ n * z⁻¹ ^ (n + m) = z⁻¹ ^ m := by
      rw [pow_add, ← mul_assoc, ← mul_pow, mul_inv_cancel₀ hz, one_pow, one_mul]
    simp only [star_mul', star_star]
    calc x (n + m) * z ^ (n + m) * (star (x n) * z⁻¹ ^ n) + x n * z ^ n * (star (x (n + m)) * z⁻¹ ^ (n + m))
        = x (n + m) * star (x n) * (z ^ (n + m) * z⁻¹ ^ n) + star (x (n + m)) * x n * (z ^ n * z⁻¹ ^ (n + m)) := by ring
      _ = x (n + m) * star (x n) * z ^ m + star (x (n + m)) * x n * z⁻¹ ^ m := by rw [h1, h2]


omit [StarRing K] in
/-- `ω^{(n-m)k} = (ω⁻¹)^{mk}` for an `n`-th root of unity and `m ≤ n` -/
theorem pow_sub_mul_eq_inv_pow {ω : K} {n : ℕ} (hω0 : ω ≠ 0) (hω : ω ^ n = 1) {m : ℕ} (hm : m ≤ n)
    (k : ℕ) : ω ^ ((n - m) * k) = ω⁻¹ ^ (m * k) := by
  have h1 : ω ^ ((n - m) * k) * ω ^ (m * k) = 1 := by
    rw [← pow_add, ← Nat.add_mul, Nat.sub_add_cancel hm, pow_mul, hω, one_pow]
  have h2 : ω ^ (m * k) ≠ 0 := pow_ne_zero _ hω0
  rw [inv_pow]
  exact eq_inv_of_mul_eq_one_left h1

/-- the entries of the lag sequence when the two halves do not overlap (`2·lag+1 ≤ NFFT`) -/
theorem nth_correlogramSeq_zero {nfft L : ℕ} (hL : 2 * L + 1 ≤ nfft) (rxy ryx w : List K) :
    nth (correlogramSeq rxy ryx w L nfft) 0 = nth rxy 0 := by
  unfold correlogramSeq
  rw [nth_vec, if_pos (by omega), if_pos rfl]

theorem nth_correlogramSeq_pos {nfft L : ℕ} (hL : 2 * L + 1 ≤ nfft) (rxy ryx w : List K) {m : ℕ}
    (h1 : 1 ≤ m) (h2 : m ≤ L) :
    nth (correlogramSeq rxy ryx w L nfft) m = nth rxy m * nth w (m - 1) := by
  unfold correlogramSeq
  rw [nth_vec, if_pos (by omega), if_neg (by omega), if_neg (by omega), if_pos h2]

theorem nth_correlogramSeq_mid {nfft L : ℕ} (rxy ryx w : List K) {i : ℕ}
    (h1 : L < i) (h2 : i < nfft - L) :
    nth (correlogramSeq rxy ryx w L nfft) i = 0 := by
  unfold correlogramSeq
  rw [nth_vec, if_pos (by omega), if_neg (by omega), if_neg (by omega), if_neg (by omega)]

theorem nth_correlogramSeq_neg {nfft L : ℕ} (hL : 2 * L + 1 ≤ nfft) (rxy ryx w : List K) {m : ℕ}
    (h1 : 1 ≤ m) (h2 : m ≤ L) :
    nth (correlogramSeq rxy ryx w L nfft) (nfft - m) = star (nth ryx m) * nth w (m - 1) := by
  unfold correlogramSeq
  rw [nth_vec, if_pos (by omega), if_neg (by omega), if_pos (by omega), conj_eq_star]
  have : nfft - (nfft - m) = m := by omega
  rw [this]

/-- **DFT of the lag sequence without wrap-around**: for `2·lag+1 ≤ NFFT`,
`DFT(seq)[k] = r_0 + Σ_{m=1}^{lag} (rxy_m w_{m-1} ω^{mk} + star(ryx_m) w_{m-1} ω^{-mk})`. -/
theorem dftBin_correlogramSeq {ω : K} {nfft L : ℕ} (hL : 2 * L + 1 ≤ nfft) (hω : ω ^ nfft = 1)
    (rxy ryx w : List K) (k : ℕ) :
    dftBin (twiddles ω nfft) nfft (correlogramSeq rxy ryx w L nfft) k
      = nth rxy 0 + ∑ m ∈ Ico 1 (L + 1),
          (nth rxy m * nth w (m - 1) * ω ^ (m * k)
            + star (nth ryx m) * nth w (m - 1) * ω⁻¹ ^ (m * k)) := by
  have hn : 0 < nfft := by omega
  have hω0 : ω ≠ 0 := by
    intro h; rw [h, zero_pow hn.ne'] at hω; exact zero_ne_one hω
  rw [dftBin_eq hn hω]
  have hlen : min (correlogramSeq rxy ryx w L nfft).length nfft = nfft := by
    simp [correlogramSeq]
  rw [hlen]
  set s := correlogramSeq rxy ryx w L nfft with hs
  rw [Finset.range_eq_Ico,
    ← Finset.sum_Ico_consecutive _ (Nat.zero_le 1) (by omega : 1 ≤ nfft),
    ← Finset.sum_Ico_consecutive _ (by omega : 1 ≤ L + 1) (by omega : L + 1 ≤ nfft),
    ← Finset.sum_Ico_consecutive _ (by omega : L + 1 ≤ nfft - L) (by omega : nfft - L ≤ nfft)]
  have e0 : ∑ i ∈ Ico 0 1, nth s i * ω ^ (i * k) = nth rxy 0 := by
    rw [Finset.sum_Ico_succ_top (Nat.zero_le 0), Finset.Ico_self, Finset.sum_empty, zero_add,
      hs, nth_correlogramSeq_zero hL, Nat.zero_mul, pow_zero, mul_one]
  have e1 : ∑ i ∈ Ico 1 (L + 1), nth s i * ω ^ (i * k)
      = ∑ m ∈ Ico 1 (L + 1), nth rxy m * nth w (m - 1) * ω ^ (m * k) := by
    apply Finset.sum_congr rfl
    intro m hm
    have hm' := Finset.mem_Ico.mp hm
    rw [hs, nth_correlogramSeq_pos hL rxy ryx w hm'.1 (by omega)]
  have e2 : ∑ i ∈ Ico (L + 1) (nfft - L), nth s i * ω ^ (i * k) = 0 := by
    apply Finset.sum_eq_zero
    intro i hi
    have hi' := Finset.mem_Ico.mp hi
    rw [hs, nth_correlogramSeq_mid rxy ryx w (by omega) hi'.2, zero_mul]
  have e3 : ∑ i ∈ Ico (nfft - L) nfft, nth s i * ω ^ (i * k)
      = ∑ m ∈ Ico 1 (L + 1), star (nth ryx m) * nth w (m - 1) * ω⁻¹ ^ (m * k) := by
    have hr := Finset.sum_Ico_reflect (fun i => nth s i * ω ^ (i * k)) 1
      (by omega : L + 1 ≤ nfft + 1)
    have ha : nfft + 1 - (L + 1) = nfft - L := by omega
    have hb : nfft + 1 - 1 = nfft := by omega
    rw [ha, hb] at hr
    rw [← hr]
    apply Finset.sum_congr rfl
    intro m hm
    have hm' := Finset.mem_Ico.mp hm
    rw [hs, nth_correlogramSeq_neg hL rxy ryx w hm'.1 (by omega),
      pow_sub_mul_eq_inv_pow hω0 hω (by omega : m ≤ nfft)]
  rw [e0, e1, e2, e3, zero_add, ← Finset.sum_add_distrib]

/-- the model's raw lag sum of the autocorrelation is `rawCorr` of the total indexing -/
theorem corrRaw_self_eq (x : List K) (n m : ℕ) : corrRaw x x n m = rawCorr n (nth x) m := by
  unfold corrRaw rawCorr
  rw [sumR_eq_sum]
  rfl

/-- lag `m ≤ maxlags` of the biased autocorrelation is `rawCorr_m / N` -/
theorem nth_correlation_biased_self (x : List K) (L : ℕ) (rms2 : K) {m : ℕ} (hm : m ≤ L) :
    nth (correlation x x L .biased rms2) m = rawCorr x.length (nth x) m / (x.length : K) := by
  unfold correlation
  simp only [nth_vec, Nat.max_self]
  rw [if_pos (by omega), corrRaw_self_eq]

/-- `rePart` fixes self-adjoint elements when `2 ≠ 0` -/
theorem rePart_of_star_eq {z : K} (h2 : (2 : K) ≠ 0) (hz : star z = z) : rePart z = z := by
  unfold rePart
  rw [conj_eq_star, hz, Nat.cast_ofNat]
  field_simp
  ring

/-- **closed form of a correlogram bin**: rectangular lag window, `lag = N-1`, biased normalisation and
`2N-1 ≤ NFFT` (no wrap-around) give `|Σ_j x_j ω^{jk}|²/N` in every bin. -/
theorem correlogram_bin_eq {ω : K} {nfft : ℕ} (x w : List K) (rms2 : K) (hN : 1 ≤ x.length)
    (hnfft : 2 * x.length - 1 ≤ nfft) (hω : ω ^ nfft = 1) (hstar : star ω = ω⁻¹)
    (hw : ∀ i, i < x.length - 1 → nth w i = 1) (h2 : (2 : K) ≠ 0) (k : ℕ) (hk : k < nfft) :
    nth (correlogram (twiddles ω nfft) x x w (x.length - 1) nfft .biased rms2) k
      = (∑ j ∈ range x.length, nth x j * ω ^ (j * k))
          * star (∑ j ∈ range x.length, nth x j * ω ^ (j * k)) / (x.length : K) := by
  have hn : 0 < nfft := by omega
  have hω0 : ω ≠ 0 := by
    intro h; rw [h, zero_pow hn.ne'] at hω; exact zero_ne_one hω
  set N := x.length with hNdef
  have hL : 2 * (N - 1) + 1 ≤ nfft := by omega
  unfold correlogram correlogramPsd
  simp only [nth_vec, if_pos hk]
  rw [dftBin_correlogramSeq hL hω]
  -- the frequency on the unit circle
  set z := ω ^ k with hz
  have hz0 : z ≠ 0 := pow_ne_zero _ hω0
  have hzstar : star z = z⁻¹ := by rw [hz, star_pow, hstar, inv_pow]
  have hwk := wiener_khinchin N (nth x) z hz0 hzstar
  have hsum : ∀ j ∈ range N, nth x j * ω ^ (j * k) = nth x j * z ^ j := by
    intro j _; rw [hz, pow_mul']
  rw [Finset.sum_congr rfl hsum, hwk]
  have hNsub : N - 1 + 1 = N := by omega
  rw [hNsub]
  have hterm : ∀ m ∈ Ico 1 N,
      nth (correlation x x (N - 1) Norm.biased rms2) m * nth w (m - 1) * ω ^ (m * k)
        + star (nth (correlation x x (N - 1) Norm.biased rms2) m) * nth w (m - 1) * ω⁻¹ ^ (m * k)
      = (rawCorr N (nth x) m * z ^ m + star (rawCorr N (nth x) m) * z⁻¹ ^ m) / (N : K) := by
    intro m hm
    have hm' := Finset.mem_Ico.mp hm
    rw [nth_correlation_biased_self x (N - 1) rms2 (by omega : m ≤ N - 1), hw (m - 1) (by omega),
      star_div₀, star_natCast, hz, pow_mul' ω m k, pow_mul' ω⁻¹ m k, inv_pow]
    ring
  rw [Finset.sum_congr rfl hterm, nth_correlation_biased_self x (N - 1) rms2 (Nat.zero_le _),
    ← Finset.sum_div, ← add_div]
  apply rePart_of_star_eq h2
  rw [← hwk, star_div₀, star_natCast, star_mul', star_star, mul_comm]

end WK
end SpecVerif
