import SpecVerif.Proofs.Lemmas.LsfCircle
import Mathlib.Analysis.Calculus.LocalExtr.Rolle
import Mathlib.Analysis.Calculus.Deriv.Slope
import Mathlib.Analysis.SpecialFunctions.ExpDeriv
import Mathlib.Analysis.Complex.RealDeriv
/-
  Interlacing (alternation) of the zeros of the two line-spectral polynomials on the unit circle.

  Notation of `Lemmas/SchurCohn.lean` / `Lemmas/LsfCircle.lean`: `X(z) = z·A(z) − B(z)`, `Y(z) = z·A(z) + B(z)`
  (`= P1`, `Q1` of `poly2lsf` for real coefficients).  The Christoffel–Darboux kernel `S` of the step-up
  recursion (`LsfCircleL.cd_kernel`) gives, for ALL complex `z`, `w`,
      `X(z)·conj Y(w) + Y(z)·conj X(w) = −2·(1 − z·conj w)·S(z, w)`                     (`kernel_pair`),
  which is symmetric in `X ↔ Y`.  On the circle (`w = e^{is}`, `z = e^{it}`) it says that `φ = X/Y` is purely
  imaginary and that `φ(z) − φ(w) = (z − w)·2·conj(w)·S(z,w)/(Y(z)·conj Y(w))`; letting `t → s`
      `d/dt φ(e^{it}) |_{t=s} = i·2·S(w,w)/|Y(w)|²`,   `S(w,w) ≥ |A(w)|² > 0`           (`hasDerivAt_ratio`),
  i.e. the phase of the all-pass function `zA/B` is strictly monotone (only the continuity of `S` in its
  first argument is used, no derivative of a polynomial is computed).  Sturm's separation argument
  (`kernel_sturm`): if `X` vanished at `e^{it1}`, `e^{it2}` and `Y` had no zero on `[t1, t2]`, the real
  function `Im φ(e^{it})` would have equal values at `t1`, `t2` and a positive derivative in between,
  contradicting Rolle's theorem.  The same with `X ↔ Y`.
-/
namespace SpecVerif.LsfInterlaceL
open Finset SpecVerif SpecVerif.SchurL SpecVerif.LpcL SpecVerif.LsfCircleL Filter Topology

/-- the point `e^{it}` of the unit circle -/
noncomputable def eit (t : ℝ) : ℂ := Complex.exp (t * Complex.I)

theorem eit_def (t : ℝ) : eit t = Complex.exp (t * Complex.I) := rfl

theorem norm_eit (t : ℝ) : ‖eit t‖ = 1 := Complex.norm_exp_ofReal_mul_I t

theorem eit_mul_star (t : ℝ) : eit t * star (eit t) = 1 := by
  rw [RCLike.star_def, RCLike.mul_conj, norm_eit]; simp

theorem hasDerivAt_eit (s : ℝ) : HasDerivAt eit (Complex.I * eit s) s := by
  have h1 : HasDerivAt (fun t : ℝ => (t : ℂ) * Complex.I) Complex.I s := by
    simpa using ((hasDerivAt_id s).ofReal_comp).mul_const Complex.I
  have h2 := h1.cexp
  rw [mul_comm] at h2
  exact h2

theorem continuous_eit : Continuous eit := by
  unfold eit
  fun_prop

/-- product rule when one factor vanishes at the point and the other is only continuous there -/
theorem hasDerivAt_mul_of_zero {u g : ℝ → ℂ} {s : ℝ} {u' : ℂ} (hu : HasDerivAt u u' s)
    (hu0 : u s = 0) (hg : ContinuousAt g s) : HasDerivAt (fun t => u t * g t) (u' * g s) s := by
  rw [hasDerivAt_iff_tendsto_slope] at hu ⊢
  have hsl : slope (fun t => u t * g t) s = fun t => slope u s t * g t := by
    funext t
    rw [slope_def_module, slope_def_module, hu0, zero_mul, sub_zero, sub_zero, smul_mul_assoc]
  rw [hsl]
  exact hu.mul (hg.tendsto.mono_left nhdsWithin_le_nhds)

/-- **phase monotonicity in kernel form**: if `X(z)·conj Y(w) + Y(z)·conj X(w) = −2(1 − z·conj w)·S(z,w)`
with `S` continuous in `z`, then at a point `w = e^{is}` of the circle where `Y ≠ 0` the function
`t ↦ X(e^{it})/Y(e^{it})` has the derivative `i·2·S(w,w)/|Y(w)|²` -/
theorem hasDerivAt_ratio (X Y : ℂ → ℂ) (S : ℂ → ℂ → ℂ) (hY : Continuous Y)
    (hS : ∀ w, Continuous fun z => S z w)
    (hker : ∀ z w, X z * star (Y w) + Y z * star (X w) = -(2 * (1 - z * star w) * S z w))
    (s : ℝ) (hYs : Y (eit s) ≠ 0) (r : ℝ) (hr : S (eit s) (eit s) = (r : ℂ)) :
    HasDerivAt (fun t => X (eit t) / Y (eit t))
      (Complex.I * ((2 * r / ‖Y (eit s)‖ ^ 2 : ℝ) : ℂ)) s := by
  set w := eit s with hw
  have hww : w * star w = 1 := eit_mul_star s
  have hsY : star (Y w) ≠ 0 := by
    intro h; apply hYs; rw [← star_star (Y w), h, star_zero]
  -- `φ(w)` is purely imaginary
  have himag : X w / Y w = -(star (X w) / star (Y w)) := by
    have h := hker w w
    rw [hww] at h
    field_simp
    linear_combination h
  let g : ℝ → ℂ := fun t => 2 * star w * S (eit t) w / (Y (eit t) * star (Y w))
  have hg : ContinuousAt g s := by
    have h1 : ContinuousAt (fun t => 2 * star w * S (eit t) w) s :=
      (continuous_const.mul ((hS w).comp continuous_eit)).continuousAt
    have h2 : ContinuousAt (fun t => Y (eit t) * star (Y w)) s :=
      ((hY.comp continuous_eit).mul continuous_const).continuousAt
    exact h1.div h2 (mul_ne_zero hYs hsY)
  have hev : (fun t => X (eit t) / Y (eit t)) =ᶠ[𝓝 s] fun t => X w / Y w + (eit t - w) * g t := by
    filter_upwards [(hY.comp continuous_eit).continuousAt.eventually_ne hYs] with t ht
    have ht' : Y (eit t) ≠ 0 := ht
    have h := hker (eit t) w
    show X (eit t) / Y (eit t)
      = X w / Y w + (eit t - w) * (2 * star w * S (eit t) w / (Y (eit t) * star (Y w)))
    rw [himag]
    field_simp
    linear_combination h + 2 * S (eit t) w * hww
  have hu : HasDerivAt (fun t => eit t - w) (Complex.I * w) s := (hasDerivAt_eit s).sub_const w
  have hd : HasDerivAt (fun t => X w / Y w + (eit t - w) * g t) (Complex.I * w * g s) s :=
    (hasDerivAt_mul_of_zero hu (sub_self w) hg).const_add _
  have hval : Complex.I * w * g s = Complex.I * ((2 * r / ‖Y w‖ ^ 2 : ℝ) : ℂ) := by
    show Complex.I * w * (2 * star w * S (eit s) w / (Y (eit s) * star (Y w))) = _
    rw [← hw, hr]
    have hn : Y w * star (Y w) = ((‖Y w‖ ^ 2 : ℝ) : ℂ) := by
      rw [RCLike.star_def, RCLike.mul_conj]; push_cast; rfl
    rw [hn]
    have h3 : Complex.I * w * (2 * star w * (r : ℂ) / ((‖Y w‖ ^ 2 : ℝ) : ℂ))
        = Complex.I * (2 * (w * star w) * (r : ℂ) / ((‖Y w‖ ^ 2 : ℝ) : ℂ)) := by ring
    rw [h3, hww]
    push_cast
    ring
  rw [← hval]
  exact hd.congr_of_eventuallyEq hev

/-- **Sturm separation from the kernel**: two continuous functions `X`, `Y` without common zero, tied by
`X(z)·conj Y(w) + Y(z)·conj X(w) = −2(1 − z·conj w)·S(z,w)` with `S(w,w) > 0` on the circle: between two
zeros `e^{it1}`, `e^{it2}` (`t1 < t2`) of `X` there is a zero `e^{is}`, `t1 < s < t2`, of `Y` -/
theorem kernel_sturm (X Y : ℂ → ℂ) (S : ℂ → ℂ → ℂ) (hY : Continuous Y)
    (hS : ∀ w, Continuous fun z => S z w)
    (hpos : ∀ w : ℂ, ‖w‖ = 1 → ∃ r : ℝ, S w w = (r : ℂ) ∧ 0 < r)
    (hker : ∀ z w, X z * star (Y w) + Y z * star (X w) = -(2 * (1 - z * star w) * S z w))
    (hnc : ∀ z, X z = 0 → Y z ≠ 0)
    (t1 t2 : ℝ) (h12 : t1 < t2) (h1 : X (eit t1) = 0) (h2 : X (eit t2) = 0) :
    ∃ s, t1 < s ∧ s < t2 ∧ Y (eit s) = 0 := by
  by_contra hno
  push Not at hno
  have hY0 : ∀ s ∈ Set.Icc t1 t2, Y (eit s) ≠ 0 := by
    intro s hs
    rcases eq_or_lt_of_le hs.1 with h | h
    · rw [← h]; exact hnc _ h1
    rcases eq_or_lt_of_le hs.2 with h' | h'
    · rw [h']; exact hnc _ h2
    · exact hno s h h'
  let f : ℝ → ℝ := fun t => (X (eit t) / Y (eit t)).im
  let f' : ℝ → ℝ := fun t => 2 * (S (eit t) (eit t)).re / ‖Y (eit t)‖ ^ 2
  have hder : ∀ s ∈ Set.Icc t1 t2, HasDerivAt f (f' s) s := by
    intro s hs
    obtain ⟨r, hr, _⟩ := hpos (eit s) (norm_eit s)
    have h := hasDerivAt_ratio X Y S hY hS hker s (hY0 s hs) r hr
    have h' := (Complex.imCLM.hasFDerivAt).comp_hasDerivAt s h
    have hre : (S (eit s) (eit s)).re = r := by rw [hr]; exact Complex.ofReal_re r
    have hv : Complex.imCLM (Complex.I * ((2 * r / ‖Y (eit s)‖ ^ 2 : ℝ) : ℂ)) = f' s := by
      show (Complex.I * ((2 * r / ‖Y (eit s)‖ ^ 2 : ℝ) : ℂ)).im = _
      rw [Complex.I_mul_im, Complex.ofReal_re]
      show _ = 2 * (S (eit s) (eit s)).re / ‖Y (eit s)‖ ^ 2
      rw [hre]
    rw [hv] at h'
    exact h'
  have hcont : ContinuousOn f (Set.Icc t1 t2) :=
    fun x hx => (hder x hx).continuousAt.continuousWithinAt
  have hends : f t1 = f t2 := by
    show (X (eit t1) / Y (eit t1)).im = (X (eit t2) / Y (eit t2)).im
    rw [h1, h2, zero_div, zero_div]
  obtain ⟨c, hc, hc0⟩ := exists_hasDerivAt_eq_zero h12 hcont hends
    (fun x hx => hder x (Set.Ioo_subset_Icc_self hx))
  obtain ⟨r, hr, hrpos⟩ := hpos (eit c) (norm_eit c)
  have hYc := hY0 c (Set.Ioo_subset_Icc_self hc)
  have hpos' : 0 < f' c := by
    show 0 < 2 * (S (eit c) (eit c)).re / ‖Y (eit c)‖ ^ 2
    rw [hr, Complex.ofReal_re]
    have : 0 < ‖Y (eit c)‖ := norm_pos_iff.mpr hYc
    positivity
  linarith

/-! ### the kernel identity for `X = zA − B`, `Y = zA + B` -/

/-- the pair identity, from the Christoffel–Darboux identity, for all `z`, `w` -/
theorem kernel_pair {K : Type} [Field K] [StarRing K] (A B : K → K) (S : K → K → K)
    (hS : ∀ z w, B z * star (B w) - z * star w * (A z * star (A w)) = (1 - z * star w) * S z w)
    (z w : K) :
    (z * A z - B z) * star (w * A w + B w) + (z * A z + B z) * star (w * A w - B w)
      = -(2 * (1 - z * star w) * S z w) := by
  simp only [star_add, star_sub, star_mul']
  linear_combination (-2 : K) * hS z w

/-- `zA − B` and `zA + B` have no common zero (all `|k_i| < 1`; complex coefficients allowed) -/
theorem no_common_zero (kr : List ℂ) (r0 : ℂ) (hk : ∀ k ∈ kr, ‖k‖ < 1) (z : ℂ)
    (h1 : z * polyA (rc2poly kr r0).1 z - polyB (rc2poly kr r0).1 z = 0)
    (h2 : z * polyA (rc2poly kr r0).1 z + polyB (rc2poly kr r0).1 z = 0) : False := by
  have h2ne : (2 : ℂ) ≠ 0 := two_ne_zero
  have hzA : z * polyA (rc2poly kr r0).1 z = 0 := by
    have : (2 : ℂ) * (z * polyA (rc2poly kr r0).1 z) = 0 := by linear_combination h1 + h2
    exact (mul_eq_zero.mp this).resolve_left h2ne
  have hBz : polyB (rc2poly kr r0).1 z = 0 := by
    have : (2 : ℂ) * polyB (rc2poly kr r0).1 z = 0 := by linear_combination h2 - h1
    exact (mul_eq_zero.mp this).resolve_left h2ne
  rcases le_or_gt ‖z‖ 1 with h | h
  · exact (schur_mirror_invariant kr r0 hk z h).2 hBz
  · have hz0 : z ≠ 0 := by
      intro h0; rw [h0, norm_zero] at h; linarith
    exact (schur_invariant_strict kr r0 hk z h.le).2 ((mul_eq_zero.mp hzA).resolve_left hz0)

theorem continuous_polyB (a : List ℂ) : Continuous (polyB a) := by
  show Continuous (fun z => 1 + ∑ j ∈ range a.length, star (nth a j) * z ^ (j + 1))
  fun_prop

/-- **interlacing of the zeros of `zA − B` and `zA + B` on the unit circle** (all `|k_i| < 1`, complex
coefficients allowed): between two zeros of one there is a zero of the other -/
theorem mulA_polyB_interlace (kr : List ℂ) (r0 : ℂ) (hk : ∀ k ∈ kr, ‖k‖ < 1) (t1 t2 : ℝ)
    (h12 : t1 < t2) :
    ((eit t1) * polyA (rc2poly kr r0).1 (eit t1) - polyB (rc2poly kr r0).1 (eit t1) = 0 →
      (eit t2) * polyA (rc2poly kr r0).1 (eit t2) - polyB (rc2poly kr r0).1 (eit t2) = 0 →
      ∃ s, t1 < s ∧ s < t2 ∧
        (eit s) * polyA (rc2poly kr r0).1 (eit s) + polyB (rc2poly kr r0).1 (eit s) = 0)
    ∧ ((eit t1) * polyA (rc2poly kr r0).1 (eit t1) + polyB (rc2poly kr r0).1 (eit t1) = 0 →
      (eit t2) * polyA (rc2poly kr r0).1 (eit t2) + polyB (rc2poly kr r0).1 (eit t2) = 0 →
      ∃ s, t1 < s ∧ s < t2 ∧
        (eit s) * polyA (rc2poly kr r0).1 (eit s) - polyB (rc2poly kr r0).1 (eit s) = 0) := by
  set a := (rc2poly kr r0).1 with ha
  obtain ⟨S, hS1, hS2, hS3⟩ := cd_kernel kr r0 (fun k hk' => (hk k hk').le)
  have hpos : ∀ w : ℂ, ‖w‖ = 1 → ∃ r : ℝ, S w w = (r : ℂ) ∧ 0 < r := by
    intro w hw
    obtain ⟨r, hr1, hr2⟩ := hS2 w
    have hA : polyA a w ≠ 0 := (schur_invariant_strict kr r0 hk w hw.ge).2
    have : 0 < ‖polyA a w‖ ^ 2 := pow_pos (norm_pos_iff.mpr hA) 2
    exact ⟨r, hr1, by linarith⟩
  have hcX : Continuous fun z : ℂ => z * polyA a z - polyB a z :=
    (continuous_id.mul (continuous_polyA a)).sub (continuous_polyB a)
  have hcY : Continuous fun z : ℂ => z * polyA a z + polyB a z :=
    (continuous_id.mul (continuous_polyA a)).add (continuous_polyB a)
  have hker := kernel_pair (polyA a) (polyB a) S hS3
  constructor
  · intro h1 h2
    exact kernel_sturm (fun z => z * polyA a z - polyB a z) (fun z => z * polyA a z + polyB a z) S
      hcY hS1 hpos hker (fun z hz hz' => no_common_zero kr r0 hk z hz hz') t1 t2 h12 h1 h2
  · intro h1 h2
    exact kernel_sturm (fun z => z * polyA a z + polyB a z) (fun z => z * polyA a z - polyB a z) S
      hcX hS1 hpos (fun z w => by rw [add_comm]; exact hker z w)
      (fun z hz hz' => no_common_zero kr r0 hk z hz' hz) t1 t2 h12 h1 h2

/-- **interlacing of the zeros of `P1` and `Q1`** of `a = 1 :: rc2poly kr` (real `|k_i| < 1`) -/
theorem lsfSplit_interlace (kr : List ℂ) (r0 : ℂ) (hreal : ∀ k ∈ kr, star k = k)
    (hk : ∀ k ∈ kr, ‖k‖ < 1) (t1 t2 : ℝ) (h12 : t1 < t2) :
    (polyEval (lsfSplit ((1 : ℂ) :: (rc2poly kr r0).1)).1 (eit t1) = 0 →
      polyEval (lsfSplit ((1 : ℂ) :: (rc2poly kr r0).1)).1 (eit t2) = 0 →
      ∃ s, t1 < s ∧ s < t2 ∧ polyEval (lsfSplit ((1 : ℂ) :: (rc2poly kr r0).1)).2 (eit s) = 0)
    ∧ (polyEval (lsfSplit ((1 : ℂ) :: (rc2poly kr r0).1)).2 (eit t1) = 0 →
      polyEval (lsfSplit ((1 : ℂ) :: (rc2poly kr r0).1)).2 (eit t2) = 0 →
      ∃ s, t1 < s ∧ s < t2 ∧ polyEval (lsfSplit ((1 : ℂ) :: (rc2poly kr r0).1)).1 (eit s) = 0) := by
  have hB := polyB_eq_polyR (rc2poly kr r0).1 (rc2poly_star_fixed kr r0 hreal)
  have hP : ∀ z, polyEval (lsfSplit ((1 : ℂ) :: (rc2poly kr r0).1)).1 z
      = z * polyA (rc2poly kr r0).1 z - polyB (rc2poly kr r0).1 z := by
    intro z; rw [(polyEval_lsfSplit_cons _ z).1, hB z]
  have hQ : ∀ z, polyEval (lsfSplit ((1 : ℂ) :: (rc2poly kr r0).1)).2 z
      = z * polyA (rc2poly kr r0).1 z + polyB (rc2poly kr r0).1 z := by
    intro z; rw [(polyEval_lsfSplit_cons _ z).2, hB z]
  simp only [hP, hQ]
  exact mulA_polyB_interlace kr r0 hk t1 t2 h12

/-! ### the computed root lists: angles in `(0, π)` alternate between `rQ` and `rP` -/

theorem arg_eit (s : ℝ) (h0 : -Real.pi < s) (h1 : s ≤ Real.pi) : (eit s).arg = s := by
  rw [eit, Complex.arg_exp_mul_I, toIocMod_eq_self]
  exact ⟨h0, by linarith⟩

theorem eit_zero : eit 0 = 1 := by simp [eit]

theorem eit_pi : eit Real.pi = -1 := by rw [eit, Complex.exp_pi_mul_I]

theorem eit_arg (r : ℂ) (h1 : ‖r‖ = 1) : eit r.arg = r := by
  have := Complex.norm_mul_exp_arg_mul_I r
  rwa [h1, Complex.ofReal_one, one_mul] at this

theorem eit_ne_one (s : ℝ) (h0 : 0 < s) (h1 : s < Real.pi) : eit s ≠ 1 := by
  intro h
  have := arg_eit s (by linarith [Real.pi_pos]) h1.le
  rw [h, Complex.arg_one] at this
  linarith

theorem eit_ne_neg_one (s : ℝ) (h0 : 0 < s) (h1 : s < Real.pi) : eit s ≠ -1 := by
  intro h
  have := arg_eit s (by linarith [Real.pi_pos]) h1.le
  rw [h, Complex.arg_neg_one] at this
  linarith

/-- **interlacing for the root lists computed by `poly2lsf`** (any lists that multiply back to the
deflated polynomials): between the angles `0 ≤ t1 < t2 ≤ π` of two zeros of `P1` lies the angle of a
listed root of `Q`, and vice versa -/
theorem lsf_computed_between (kr : List ℂ) (r0 : ℂ) (hreal : ∀ k ∈ kr, star k = k)
    (hk : ∀ k ∈ kr, ‖k‖ < 1) (p : ℕ) (P Q rP rQ : List ℂ)
    (hP : polyMul P (if p % 2 = 1 then [1, 0, -1] else [1, -1])
      = (lsfSplit ((1 : ℂ) :: (rc2poly kr r0).1)).1)
    (hQ : polyMul Q (if p % 2 = 1 then [1] else [1, 1])
      = (lsfSplit ((1 : ℂ) :: (rc2poly kr r0).1)).2)
    (hrP : polyFromRoots rP = P) (hrQ : polyFromRoots rQ = Q)
    (t1 t2 : ℝ) (h0 : 0 ≤ t1) (h12 : t1 < t2) (hpi : t2 ≤ Real.pi) :
    (polyEval (lsfSplit ((1 : ℂ) :: (rc2poly kr r0).1)).1 (eit t1) = 0 →
      polyEval (lsfSplit ((1 : ℂ) :: (rc2poly kr r0).1)).1 (eit t2) = 0 →
      ∃ q ∈ rQ, t1 < q.arg ∧ q.arg < t2)
    ∧ (polyEval (lsfSplit ((1 : ℂ) :: (rc2poly kr r0).1)).2 (eit t1) = 0 →
      polyEval (lsfSplit ((1 : ℂ) :: (rc2poly kr r0).1)).2 (eit t2) = 0 →
      ∃ r ∈ rP, t1 < r.arg ∧ r.arg < t2) := by
  have hfac := fun z => lsf_factor_eval p P Q rP rQ _ _ hP hQ hrP hrQ z
  obtain ⟨hI1, hI2⟩ := lsfSplit_interlace kr r0 hreal hk t1 t2 h12
  constructor
  · intro h1 h2
    obtain ⟨s, hs1, hs2, hs⟩ := hI1 h1 h2
    have hs0 : 0 < s := by linarith
    have hsp : s < Real.pi := by linarith
    refine ⟨eit s, ?_, ?_⟩
    · rw [(hfac (eit s)).2] at hs
      have hfne : (if p % 2 = 1 then (1 : ℂ) else eit s + 1) ≠ 0 := by
        by_cases hodd : p % 2 = 1
        · rw [if_pos hodd]; exact one_ne_zero
        · rw [if_neg hodd]
          exact fun h => eit_ne_neg_one s hs0 hsp (eq_neg_of_add_eq_zero_left h)
      exact mem_of_prod_roots_eq_zero rQ _ ((mul_eq_zero.mp hs).resolve_right hfne)
    · rw [arg_eit s (by linarith [Real.pi_pos]) hsp.le]
      exact ⟨hs1, hs2⟩
  · intro h1 h2
    obtain ⟨s, hs1, hs2, hs⟩ := hI2 h1 h2
    have hs0 : 0 < s := by linarith
    have hsp : s < Real.pi := by linarith
    refine ⟨eit s, ?_, ?_⟩
    · rw [(hfac (eit s)).1] at hs
      have hfne : (if p % 2 = 1 then eit s ^ 2 - 1 else eit s - 1) ≠ 0 := by
        by_cases hodd : p % 2 = 1
        · rw [if_pos hodd]
          have : eit s ^ 2 - 1 = (eit s - 1) * (eit s + 1) := by ring
          rw [this]
          exact mul_ne_zero (sub_ne_zero.mpr (eit_ne_one s hs0 hsp))
            (fun h => eit_ne_neg_one s hs0 hsp (eq_neg_of_add_eq_zero_left h))
        · rw [if_neg hodd]; exact sub_ne_zero.mpr (eit_ne_one s hs0 hsp)
      exact mem_of_prod_roots_eq_zero rP _ ((mul_eq_zero.mp hs).resolve_right hfne)
    · rw [arg_eit s (by linarith [Real.pi_pos]) hsp.le]
      exact ⟨hs1, hs2⟩

/-- **the pattern of the computed roots** (real `|k_i| < 1`, root contract): between the positive angles
of two roots of `rP` lies the angle of a root of `rQ` and vice versa; below the positive angle of a root
of `rP` lies the positive angle of a root of `rQ` (`P1(1) = 0`); above the positive angle of a root of
`rQ` (even order, `Q1(−1) = 0`) resp. of `rP` (odd order, `P1(−1) = 0`) lies the angle of a root of the
other list -/
theorem lsf_computed_interlace (kr : List ℂ) (r0 : ℂ) (hreal : ∀ k ∈ kr, star k = k)
    (hk : ∀ k ∈ kr, ‖k‖ < 1) (p : ℕ) (hp : kr.length = p) (P Q rP rQ : List ℂ)
    (hP : polyMul P (if p % 2 = 1 then [1, 0, -1] else [1, -1])
      = (lsfSplit ((1 : ℂ) :: (rc2poly kr r0).1)).1)
    (hQ : polyMul Q (if p % 2 = 1 then [1] else [1, 1])
      = (lsfSplit ((1 : ℂ) :: (rc2poly kr r0).1)).2)
    (hrP : polyFromRoots rP = P) (hrQ : polyFromRoots rQ = Q) :
    (∀ r1 ∈ rP, ∀ r2 ∈ rP, 0 < r1.arg → r1.arg < r2.arg →
        ∃ q ∈ rQ, r1.arg < q.arg ∧ q.arg < r2.arg)
    ∧ (∀ q1 ∈ rQ, ∀ q2 ∈ rQ, 0 < q1.arg → q1.arg < q2.arg →
        ∃ r ∈ rP, q1.arg < r.arg ∧ r.arg < q2.arg)
    ∧ (∀ r ∈ rP, 0 < r.arg → ∃ q ∈ rQ, 0 < q.arg ∧ q.arg < r.arg)
    ∧ (p % 2 = 0 → ∀ q ∈ rQ, 0 < q.arg → ∃ r ∈ rP, q.arg < r.arg ∧ r.arg < Real.pi)
    ∧ (p % 2 = 1 → ∀ r ∈ rP, 0 < r.arg → ∃ q ∈ rQ, r.arg < q.arg ∧ q.arg < Real.pi) := by
  set a := (1 : ℂ) :: (rc2poly kr r0).1 with ha
  have halen : a.length = p + 1 := by rw [ha, List.length_cons, rc2poly_length', hp]
  have hfac := fun z => lsf_factor_eval p P Q rP rQ _ _ hP hQ hrP hrQ z
  have hbet := lsf_computed_between kr r0 hreal hk p P Q rP rQ hP hQ hrP hrQ
  obtain ⟨hunit, _, _, _⟩ := lsf_computed_roots kr r0 hreal hk p hp P Q rP rQ hP hQ hrP hrQ
  have hzP : ∀ r ∈ rP, polyEval (lsfSplit a).1 (eit r.arg) = 0 := by
    intro r hr
    rw [eit_arg r (hunit r (List.mem_append.mpr (Or.inl hr))).1, (hfac r).1,
      List.prod_eq_zero (List.mem_map.mpr ⟨r, hr, sub_self r⟩), zero_mul]
  have hzQ : ∀ r ∈ rQ, polyEval (lsfSplit a).2 (eit r.arg) = 0 := by
    intro r hr
    rw [eit_arg r (hunit r (List.mem_append.mpr (Or.inr hr))).1, (hfac r).2,
      List.prod_eq_zero (List.mem_map.mpr ⟨r, hr, sub_self r⟩), zero_mul]
  have hone : polyEval (lsfSplit a).1 (eit 0) = 0 := by
    rw [eit_zero]; exact lsfSplit_fst_root_one a
  refine ⟨?_, ?_, ?_, ?_, ?_⟩
  · intro r1 h1 r2 h2 h0 h12
    exact (hbet r1.arg r2.arg h0.le h12 (Complex.arg_le_pi r2)).1 (hzP r1 h1) (hzP r2 h2)
  · intro q1 h1 q2 h2 h0 h12
    exact (hbet q1.arg q2.arg h0.le h12 (Complex.arg_le_pi q2)).2 (hzQ q1 h1) (hzQ q2 h2)
  · intro r hr h0
    exact (hbet 0 r.arg le_rfl h0 (Complex.arg_le_pi r)).1 hone (hzP r hr)
  · intro hev q hq h0
    have hqpi : q.arg < Real.pi := by
      refine lt_of_le_of_ne (Complex.arg_le_pi q) (fun h => ?_)
      have h1 := eit_arg q (hunit q (List.mem_append.mpr (Or.inr hq))).1
      rw [h, eit_pi] at h1
      exact (hunit q (List.mem_append.mpr (Or.inr hq))).2.2 h1.symm
    have hm1 : polyEval (lsfSplit a).2 (eit Real.pi) = 0 := by
      rw [eit_pi]; exact lsfSplit_snd_root_neg_one a (by omega)
    exact (hbet q.arg Real.pi h0.le hqpi le_rfl).2 (hzQ q hq) hm1
  · intro hodd r hr h0
    have hrpi : r.arg < Real.pi := by
      refine lt_of_le_of_ne (Complex.arg_le_pi r) (fun h => ?_)
      have h1 := eit_arg r (hunit r (List.mem_append.mpr (Or.inl hr))).1
      rw [h, eit_pi] at h1
      exact (hunit r (List.mem_append.mpr (Or.inl hr))).2.2 h1.symm
    have hm1 : polyEval (lsfSplit a).1 (eit Real.pi) = 0 := by
      rw [eit_pi]; exact lsfSplit_fst_root_neg_one a (by omega)
    exact (hbet r.arg Real.pi h0.le hrpi le_rfl).1 (hzP r hr) hm1

/-- in a strictly increasing list, `L[i] < L[j]` forces `i < j` -/
theorem index_lt_of_getElem_lt (L : List ℝ) (hs : L.Pairwise (· < ·)) (i j : ℕ) (hi : i < L.length)
    (hj : j < L.length) (h : L[i] < L[j]) : i < j := by
  by_contra hn
  rcases Nat.lt_or_eq_of_le (Nat.le_of_not_lt hn) with h' | h'
  · have := List.pairwise_iff_getElem.mp hs j i hj hi h'
    linarith
  · subst h'
    exact lt_irrefl _ h

/-- **alternation in a sorted list**: every entry of a strictly increasing list is of kind `Pp` or of
kind `Qp`; below every `Pp`-entry there is an entry, and strictly between two entries of the same kind
there is an entry.  Then the entries alternate, starting with `Qp`: even positions are `Qp`, odd `Pp` -/
theorem alternate_of_sorted (L : List ℝ) (hs : L.Pairwise (· < ·)) (Pp Qp : ℝ → Prop)
    (hall : ∀ x ∈ L, Pp x ∨ Qp x)
    (ha : ∀ x ∈ L, Pp x → ∃ y ∈ L, y < x)
    (hb : ∀ x ∈ L, ∀ y ∈ L, Pp x → Pp y → x < y → ∃ z ∈ L, x < z ∧ z < y)
    (hc : ∀ x ∈ L, ∀ y ∈ L, Qp x → Qp y → x < y → ∃ z ∈ L, x < z ∧ z < y) :
    ∀ (i : ℕ) (hi : i < L.length), (i % 2 = 0 → Qp L[i]) ∧ (i % 2 = 1 → Pp L[i]) := by
  intro i
  induction i with
  | zero =>
    intro hi
    refine ⟨fun _ => ?_, fun h => absurd h (by omega)⟩
    rcases hall _ (List.getElem_mem hi) with h | h
    · obtain ⟨y, hy, hlt⟩ := ha _ (List.getElem_mem hi) h
      obtain ⟨j, hj, rfl⟩ := List.getElem_of_mem hy
      have := index_lt_of_getElem_lt L hs j 0 hj hi hlt
      omega
    · exact h
  | succ i ih =>
    intro hi
    have hi' : i < L.length := by omega
    obtain ⟨ihQ, ihP⟩ := ih hi'
    have hlt : L[i] < L[i + 1] := List.pairwise_iff_getElem.mp hs i (i + 1) hi' hi (by omega)
    have hnone : ∀ z ∈ L, ¬ (L[i] < z ∧ z < L[i + 1]) := by
      intro z hz hzz
      obtain ⟨j, hj, rfl⟩ := List.getElem_of_mem hz
      have h1 := index_lt_of_getElem_lt L hs i j hi' hj hzz.1
      have h2 := index_lt_of_getElem_lt L hs j (i + 1) hj hi hzz.2
      omega
    constructor
    · intro hev
      have hP := ihP (by omega)
      rcases hall _ (List.getElem_mem hi) with h | h
      · obtain ⟨z, hz, hzz⟩ := hb _ (List.getElem_mem hi') _ (List.getElem_mem hi) hP h hlt
        exact absurd hzz (hnone z hz)
      · exact h
    · intro hodd
      have hQ := ihQ (by omega)
      rcases hall _ (List.getElem_mem hi) with h | h
      · exact h
      · obtain ⟨z, hz, hzz⟩ := hc _ (List.getElem_mem hi') _ (List.getElem_mem hi) hQ h hlt
        exact absurd hzz (hnone z hz)

end SpecVerif.LsfInterlaceL
