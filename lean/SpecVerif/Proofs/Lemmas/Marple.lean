import SpecVerif.Model.Marple
import SpecVerif.Model.Estimators
/-
  Helper lemmas for the transliterated Marple recursions (Model/Marple.lean): loop invariants of
  `forUp` / `forDown`, inversion of `Except` binds, and "the coefficient work array keeps its length"
  through every piece of the two main loops.  No algebra is needed: the lemmas hold for any scalar type
  carrying the operation classes of the model (in particular for `CRat` and `CFloat`).

  Also: decidable equality on `CRat` (the Model derives only `BEq`), used by the kernel-checked
  instances `recursion = least squares` in `Proofs/C14.lean`.
-/
set_option linter.unusedSectionVars false

namespace SpecVerif

deriving instance DecidableEq for CRat

namespace MarpleL

theorem forUp_inv {σ : Type} (P : σ → Prop) (f : Nat → σ → σ) (hf : ∀ k s, P s → P (f k s)) :
    ∀ n s, P s → P (forUp f n s)
  | 0, _, h => h
  | n + 1, s, h => hf n _ (forUp_inv P f hf n s h)

theorem forDown_inv {σ : Type} (P : σ → Prop) (f : Nat → σ → σ) (hf : ∀ k s, P s → P (f k s)) :
    ∀ n s, P s → P (forDown f n s)
  | 0, _, h => h
  | n + 1, s, h => forDown_inv P f hf n (f n s) (hf n s h)

theorem bind_ok {ε α β : Type} {x : Except ε α} {f : α → Except ε β} {b : β}
    (h : (x >>= f) = .ok b) : ∃ a, x = .ok a ∧ f a = .ok b := by
  cases x with
  | error e => simp [bind, Except.bind] at h
  | ok a => exact ⟨a, rfl, h⟩

section
variable {K : Type} [Add K] [Sub K] [Mul K] [Div K] [Neg K] [OfNat K 0] [OfNat K 1] [NatCast K]
  [Conj K] [IsZero K]

theorem covOrderUpdate_af {x : List K} {N m : Nat} {last : Bool} {s s' : CovSt K}
    (h : covOrderUpdate x N m last s = .ok s') : s'.af.length = s.af.length := by
  unfold covOrderUpdate at h
  obtain ⟨r1, -, h⟩ := bind_ok h
  obtain ⟨r2, -, h⟩ := bind_ok h
  obtain ⟨r3, -, h⟩ := bind_ok h
  obtain ⟨r4, -, h⟩ := bind_ok h
  simp only [pure, Except.pure, Except.ok.injEq] at h
  subst h
  apply forUp_inv (fun st : List K × List K × List K × List K => st.1.length = s.af.length)
  · intro k st hst
    simpa using hst
  · simp

theorem covTimeUpdate_af {x : List K} {N m : Nat} {s s' : CovSt K}
    (h : covTimeUpdate x N m s = .ok s') : s'.af.length = s.af.length := by
  unfold covTimeUpdate at h
  obtain ⟨r1, -, h⟩ := bind_ok h
  obtain ⟨r2, -, h⟩ := bind_ok h
  obtain ⟨r3, -, h⟩ := bind_ok h
  obtain ⟨r4, -, h⟩ := bind_ok h
  simp only [pure, Except.pure, Except.ok.injEq] at h
  subst h
  apply forDown_inv (fun st : List K × List K × List K × List K => st.1.length = s.af.length)
  · intro k st hst
    simpa using hst
  · simp

theorem covLoop_af {x : List K} {N order : Nat} :
    ∀ (fuel m : Nat) (s s' : CovSt K), covLoop x N order fuel m s = .ok s' →
      s'.af.length = s.af.length
  | 0, _, s, s', h => by
      simp only [covLoop, Except.ok.injEq] at h
      rw [h]
  | fuel + 1, m, s, s', h => by
      rw [covLoop] at h
      obtain ⟨s1, h1, h⟩ := bind_ok h
      have l1 := covOrderUpdate_af h1
      split at h
      · obtain ⟨pf, -, h⟩ := bind_ok h
        obtain ⟨pb, -, h⟩ := bind_ok h
        simp only [pure, Except.pure, Except.ok.injEq] at h
        subst h
        exact l1
      · obtain ⟨s2, h2, h⟩ := bind_ok h
        rw [covLoop_af fuel (m + 1) s2 s' h, covTimeUpdate_af h2, l1]

theorem arcovarMarpleCore_length {x : List K} {p : Nat} {a : List K} {e : K}
    (h : arcovarMarpleCore x p = .ok (a, e)) : a.length = p := by
  unfold arcovarMarpleCore at h
  simp only at h
  split at h
  · exact absurd h (by simp)
  · rename_i hNp
    split at h
    · exact absurd h (by simp)
    · split at h
      · rename_i hp
        simp only [Except.ok.injEq, Prod.mk.injEq] at h
        rw [← h.1, hp]; rfl
      · obtain ⟨q1, -, h⟩ := bind_ok h
        obtain ⟨qN, -, h⟩ := bind_ok h
        obtain ⟨c0, -, h⟩ := bind_ok h
        obtain ⟨d0, -, h⟩ := bind_ok h
        obtain ⟨sF, hl, h⟩ := bind_ok h
        simp only [pure, Except.pure, Except.ok.injEq, Prod.mk.injEq] at h
        have := covLoop_af _ _ _ _ hl
        simp only [List.length_replicate] at this
        rw [← h.1, List.length_take, this]
        omega

end

section Mod
variable {K : Type} [Add K] [Sub K] [Mul K] [Div K] [Neg K] [OfNat K 0] [OfNat K 1] [NatCast K]
  [Conj K] [IsZero K] [ReOrd K]

theorem modOrderUpdate_A {X : List K} {N M : Nat} {s : ModSt K} {mid : ModMid K}
    (h : modOrderUpdate X N M s = .ok mid) : mid.s.A.length = s.A.length := by
  unfold modOrderUpdate at h
  simp only at h
  obtain ⟨C1, -, h⟩ := bind_ok h
  simp only [pure, Except.pure, Except.ok.injEq] at h
  subst h
  apply forUp_inv (fun A : List K => A.length = s.A.length)
  · intro k A hA
    split <;> simpa using hA
  · simp

theorem modTimeUpdate_A {X : List K} {N M : Nat} {mid : ModMid K} {s' : ModSt K}
    (h : modTimeUpdate X N M mid = .ok s') : s'.A.length = mid.s.A.length := by
  unfold modTimeUpdate at h
  simp only at h
  obtain ⟨R1, -, h⟩ := bind_ok h
  split at h
  · exact absurd h (by simp)
  · split at h
    · exact absurd h (by simp)
    · obtain ⟨R1', -, h⟩ := bind_ok h
      obtain ⟨R2', -, h⟩ := bind_ok h
      split at h
      · exact absurd h (by simp)
      · split at h
        · exact absurd h (by simp)
        · simp only [pure, Except.pure, Except.ok.injEq] at h
          subst h
          apply forDown_inv (fun st : List K × List K × List K => st.1.length = mid.s.A.length)
          · intro k st hst
            simpa using hst
          · simp

theorem modLoop_length {X : List K} {N IP : Nat} :
    ∀ (fuel M : Nat) (s : ModSt K) (a : List K) (e : K), modLoop X N IP fuel M s = .ok (a, e) →
      a.length = min IP s.A.length
  | 0, _, _, _, _, h => by simp [modLoop] at h
  | fuel + 1, M, s, a, e, h => by
      rw [modLoop] at h
      obtain ⟨mid, h1, h⟩ := bind_ok h
      have l1 := modOrderUpdate_A h1
      split at h
      · obtain ⟨P, -, h⟩ := bind_ok h
        simp only [pure, Except.pure, Except.ok.injEq, Prod.mk.injEq] at h
        rw [← h.1, List.length_take, l1]
      · obtain ⟨s2, h2, h⟩ := bind_ok h
        rw [modLoop_length fuel (M + 1) s2 a e h, modTimeUpdate_A h2, l1]

theorem modcovarMarpleCore_length {X : List K} {p : Nat} {a : List K} {e : K}
    (h : modcovarMarpleCore X p = .ok (a, e)) : a.length = p := by
  unfold modcovarMarpleCore at h
  simp only at h
  split at h
  · exact absurd h (by simp)
  · split at h
    · exact absurd h (by simp)
    · rename_i hNp
      split at h
      · rename_i hp
        simp only [Except.ok.injEq, Prod.mk.injEq] at h
        rw [← h.1, hp]; rfl
      · obtain ⟨R4, -, h⟩ := bind_ok h
        have := modLoop_length _ _ _ _ _ h
        simp only [List.length_replicate] at this
        rw [this]
        omega

end Mod
end MarpleL
end SpecVerif
