import SpecVerif.Model.LinAlg
import SpecVerif.Proofs.Lemmas.GaussJordan
import Mathlib.Algebra.Field.Rat
import Mathlib.Algebra.Order.Ring.Rat
import Mathlib.Algebra.Star.Basic
import Mathlib.Algebra.CharZero.Defs
import Mathlib.Data.Rat.Cast.Defs
import Mathlib.Tactic.Ring
import Mathlib.Tactic.FieldSimp
import Mathlib.Tactic.NormNum.Basic
/-
  The Gaussian rationals `CRat` of the executable model are a field with involution, and the
  field structure IS the model's hand-written arithmetic.

  Purpose.  The model (`SpecVerif/Model/*.lean`) is generic in a scalar type `K` that is given by separate
  operation classes (`[Add K] [Sub K] [Mul K] [Div K] [Neg K] [OfNat K 0] [OfNat K 1] [NatCast K] [Conj K]`,
  `[IsZero K]`, `[ReOrd K]`).  The property theorems (`SpecVerif/Proofs/**`) are stated for
  `{K} [Field K] [StarRing K]`; the differential test against the Python library executes the model at
  `K = CRat` with the instances written by hand in `Model/Basic.lean` / `Model/LinAlg.lean`.  This file
  closes the gap between the two:

  * `instance : Field CRat`, `instance : StarRing CRat`, `instance : CharZero CRat` are built from the
    model's own `Add/Sub/Neg/Mul/Div/OfNat 0/OfNat 1/NatCast/Conj` instances (`add := (· + ·)` …, `inv a :=
    1 / a` with the model's division, `star := conj`), so every operation reached THROUGH the field
    structure is definitionally (`rfl`) the operation that the compiled model executes — see the block of
    `example … := rfl` at the end;
  * the model's Boolean tests at `CRat` are lawful: `isZero z = true ↔ z = 0`
    (`instance : GJL.LawfulIsZero CRat`), `reLe0 z = true ↔ z.re ≤ 0`, `reGt a b = true ↔ a.re > b.re`, and the
    two scaling facts that `Proofs/C03.lean` takes as hypotheses hold for `t = c * star c`, `c ≠ 0`;
  * consequently each generic theorem can be specialised to `K := CRat` by plain `exact` and then speaks
    about the executed code; the `…_CRat` theorems appended to `Proofs/C01, C03, C06, C09, C10, C13, C14,
    C16` are such instantiation checks.

  Lemmas are in the namespace `SpecVerif.CRatL`; the instances are in `SpecVerif`.
-/
namespace SpecVerif
namespace CRatL

/-! ### components -/

@[ext] theorem _root_.SpecVerif.CRat.ext {a b : CRat} (hre : a.re = b.re) (him : a.im = b.im) :
    a = b := by
  cases a; cases b; simp only [CRat.mk.injEq]; exact ⟨hre, him⟩

@[simp] theorem add_re (a b : CRat) : (a + b).re = a.re + b.re := rfl
@[simp] theorem add_im (a b : CRat) : (a + b).im = a.im + b.im := rfl
@[simp] theorem sub_re (a b : CRat) : (a - b).re = a.re - b.re := rfl
@[simp] theorem sub_im (a b : CRat) : (a - b).im = a.im - b.im := rfl
@[simp] theorem neg_re (a : CRat) : (-a).re = -a.re := rfl
@[simp] theorem neg_im (a : CRat) : (-a).im = -a.im := rfl
@[simp] theorem mul_re (a b : CRat) : (a * b).re = a.re * b.re - a.im * b.im := rfl
@[simp] theorem mul_im (a b : CRat) : (a * b).im = a.re * b.im + a.im * b.re := rfl
@[simp] theorem div_re (a b : CRat) :
    (a / b).re = (a.re * b.re + a.im * b.im) / (b.re * b.re + b.im * b.im) := rfl
@[simp] theorem div_im (a b : CRat) :
    (a / b).im = (a.im * b.re - a.re * b.im) / (b.re * b.re + b.im * b.im) := rfl
@[simp] theorem zero_re : (0 : CRat).re = 0 := rfl
@[simp] theorem zero_im : (0 : CRat).im = 0 := rfl
@[simp] theorem one_re : (1 : CRat).re = 1 := rfl
@[simp] theorem one_im : (1 : CRat).im = 0 := rfl
@[simp] theorem natCast_re (n : ℕ) : ((n : ℕ) : CRat).re = (n : ℚ) := rfl
@[simp] theorem natCast_im (n : ℕ) : ((n : ℕ) : CRat).im = 0 := rfl
@[simp] theorem conj_re (a : CRat) : (conj a).re = a.re := rfl
@[simp] theorem conj_im (a : CRat) : (conj a).im = -a.im := rfl

/-- `z = 0` iff the squared modulus `re² + im²` (the denominator of the model's division) vanishes -/
theorem normSq_eq_zero_iff (a : CRat) : a.re * a.re + a.im * a.im = 0 ↔ a = 0 := by
  constructor
  · intro h
    obtain ⟨h1, h2⟩ := mul_self_add_mul_self_eq_zero.mp h
    exact CRat.ext h1 h2
  · rintro rfl; simp

theorem normSq_ne_zero {a : CRat} (h : a ≠ 0) : a.re * a.re + a.im * a.im ≠ 0 :=
  fun h0 => h ((normSq_eq_zero_iff a).mp h0)

theorem normSq_pos {a : CRat} (h : a ≠ 0) : 0 < a.re * a.re + a.im * a.im :=
  lt_of_le_of_ne (add_nonneg (mul_self_nonneg _) (mul_self_nonneg _)) (normSq_ne_zero h).symm

/-- the model's division is multiplication by the model's `1 / ·` (no side condition: both sides are
the same rational expressions also when the denominator is `0`) -/
theorem div_eq_mul_one_div (a b : CRat) : a / b = a * (1 / b) := by
  ext
  · simp only [div_re, mul_re, div_im, one_re, one_im]; ring
  · simp only [div_re, mul_im, div_im, one_re, one_im]; ring

theorem mul_one_div_cancel {a : CRat} (h : a ≠ 0) : a * (1 / a) = 1 := by
  have hd := normSq_ne_zero h
  ext
  · simp only [div_re, mul_re, div_im, one_re, one_im]
    have e : a.re * ((1 * a.re + 0 * a.im) / (a.re * a.re + a.im * a.im))
        - a.im * ((0 * a.re - 1 * a.im) / (a.re * a.re + a.im * a.im))
        = (a.re * a.re + a.im * a.im) / (a.re * a.re + a.im * a.im) := by ring
    rw [e, div_self hd]
  · simp only [div_re, mul_im, div_im, one_re, one_im]
    ring

theorem one_div_zero : (1 : CRat) / 0 = 0 := by
  ext <;> simp

end CRatL

open CRatL

/-! ### the field structure: every operation is the model's -/

/-- integer cast: the real rational `z` -/
instance CRat.instIntCast : IntCast CRat := ⟨fun z => ⟨(z : ℚ), 0⟩⟩
/-- rational cast: the real rational `q` -/
instance CRat.instRatCast : RatCast CRat := ⟨fun q => ⟨q, 0⟩⟩
/-- nonnegative rational cast -/
instance CRat.instNNRatCast : NNRatCast CRat := ⟨fun q => ⟨(q : ℚ), 0⟩⟩
/-- inverse: the model's division applied to `1` -/
instance CRat.instInv : Inv CRat := ⟨fun a => 1 / a⟩

namespace CRatL
@[simp] theorem intCast_re (z : ℤ) : ((z : ℤ) : CRat).re = (z : ℚ) := rfl
@[simp] theorem intCast_im (z : ℤ) : ((z : ℤ) : CRat).im = 0 := rfl
@[simp] theorem ratCast_re (q : ℚ) : ((q : ℚ) : CRat).re = q := rfl
@[simp] theorem ratCast_im (q : ℚ) : ((q : ℚ) : CRat).im = 0 := rfl
@[simp] theorem nnratCast_re (q : ℚ≥0) : ((q : ℚ≥0) : CRat).re = (q : ℚ) := rfl
@[simp] theorem nnratCast_im (q : ℚ≥0) : ((q : ℚ≥0) : CRat).im = 0 := rfl
theorem inv_def (a : CRat) : a⁻¹ = 1 / a := rfl
end CRatL

instance CRat.instCommRing : CommRing CRat where
  add := (· + ·)
  zero := (0 : CRat)
  neg := (- ·)
  sub := (· - ·)
  mul := (· * ·)
  one := (1 : CRat)
  natCast := fun n => ((n : ℕ) : CRat)
  intCast := fun z => ((z : ℤ) : CRat)
  nsmul := nsmulRec
  zsmul := zsmulRec
  npow := npowRec
  add_assoc a b c := by ext <;> simp only [add_re, add_im] <;> ring
  zero_add a := by ext <;> simp only [add_re, add_im, zero_re, zero_im] <;> ring
  add_zero a := by ext <;> simp only [add_re, add_im, zero_re, zero_im] <;> ring
  add_comm a b := by ext <;> simp only [add_re, add_im] <;> ring
  neg_add_cancel a := by ext <;> simp only [add_re, add_im, neg_re, neg_im, zero_re, zero_im] <;> ring
  sub_eq_add_neg a b := by ext <;> simp only [add_re, add_im, neg_re, neg_im, sub_re, sub_im] <;> ring
  mul_assoc a b c := by ext <;> simp only [mul_re, mul_im] <;> ring
  one_mul a := by ext <;> simp only [mul_re, mul_im, one_re, one_im] <;> ring
  mul_one a := by ext <;> simp only [mul_re, mul_im, one_re, one_im] <;> ring
  mul_comm a b := by ext <;> simp only [mul_re, mul_im] <;> ring
  zero_mul a := by ext <;> simp only [mul_re, mul_im, zero_re, zero_im] <;> ring
  mul_zero a := by ext <;> simp only [mul_re, mul_im, zero_re, zero_im] <;> ring
  left_distrib a b c := by ext <;> simp only [mul_re, mul_im, add_re, add_im] <;> ring
  right_distrib a b c := by ext <;> simp only [mul_re, mul_im, add_re, add_im] <;> ring
  natCast_zero := by ext <;> simp only [natCast_re, natCast_im, zero_re, zero_im, Nat.cast_zero]
  natCast_succ n := by
    ext <;> simp only [natCast_re, natCast_im, add_re, add_im, one_re, one_im, Nat.cast_succ, add_zero]
  intCast_ofNat n := by
    ext <;> simp only [intCast_re, intCast_im, natCast_re, natCast_im, Int.cast_natCast]
  intCast_negSucc n := by
    ext <;> simp only [intCast_re, intCast_im, natCast_re, natCast_im, neg_re, neg_im,
      Int.cast_negSucc, neg_zero]

instance CRat.instField : Field CRat where
  toCommRing := CRat.instCommRing
  inv := fun a => 1 / a
  div := (· / ·)
  div_eq_mul_inv a b := div_eq_mul_one_div a b
  zpow := zpowRec
  exists_pair_ne := ⟨0, 1, fun h => by
    have := congrArg CRat.re h
    simp only [zero_re, one_re] at this
    exact zero_ne_one this⟩
  mul_inv_cancel a h := mul_one_div_cancel h
  inv_zero := one_div_zero
  nnratCast := fun q => ((q : ℚ≥0) : CRat)
  ratCast := fun q => ((q : ℚ) : CRat)
  nnqsmul := _
  qsmul := _
  nnratCast_def q := by
    have hd : ((q.den : ℕ) : ℚ) ≠ 0 := Nat.cast_ne_zero.mpr q.den_ne_zero
    ext
    · simp only [nnratCast_re, div_re, natCast_re, natCast_im]
      have h : (q : ℚ) = (q.num : ℚ) / (q.den : ℚ) := by
        conv_lhs => rw [← NNRat.num_div_den q]
        push_cast
        rfl
      rw [h]
      field_simp
      ring
    · simp only [nnratCast_im, div_im, natCast_re, natCast_im]
      ring
  ratCast_def q := by
    have hd : ((q.den : ℕ) : ℚ) ≠ 0 := Nat.cast_ne_zero.mpr q.den_ne_zero
    ext
    · simp only [ratCast_re, div_re, natCast_re, natCast_im, intCast_re, intCast_im]
      conv_lhs => rw [← Rat.num_div_den q]
      field_simp
      ring
    · simp only [ratCast_im, div_im, natCast_re, natCast_im, intCast_re, intCast_im]
      ring

/-- the involution of the field structure is the model's `conj` -/
instance CRat.instStarRing : StarRing CRat where
  star := conj
  star_involutive a := by
    ext
    · simp only [conj_re]
    · simp only [conj_im, neg_neg]
  star_mul a b := by ext <;> simp only [conj_re, conj_im, mul_re, mul_im] <;> ring
  star_add a b := by
    ext
    · simp only [conj_re, add_re]
    · simp only [conj_im, add_im]; ring

namespace CRatL
@[simp] theorem star_re (a : CRat) : (star a).re = a.re := rfl
@[simp] theorem star_im (a : CRat) : (star a).im = -a.im := rfl
theorem star_eq_conj (a : CRat) : star a = CRat.instConj.conj a := rfl
@[simp] theorem inv_re (a : CRat) : (a⁻¹).re = a.re / (a.re * a.re + a.im * a.im) := by
  show ((1 : CRat) / a).re = _
  simp only [div_re, one_re, one_im]; ring
@[simp] theorem inv_im (a : CRat) : (a⁻¹).im = -a.im / (a.re * a.re + a.im * a.im) := by
  show ((1 : CRat) / a).im = _
  simp only [div_im, one_re, one_im]; ring
end CRatL

instance CRat.instCharZero : CharZero CRat where
  cast_injective m n h := by
    have := congrArg CRat.re h
    simpa only [natCast_re, Nat.cast_inj] using this

/-! ### the model's Boolean tests at `CRat` are lawful -/
namespace CRatL

/-- the model's pivot test `z.re == 0 && z.im == 0` decides `z = 0` -/
theorem isZero_iff (z : CRat) : isZero z = true ↔ z = 0 := by
  show (z.re == 0 && z.im == 0) = true ↔ z = 0
  rw [Bool.and_eq_true, beq_iff_eq, beq_iff_eq]
  constructor
  · rintro ⟨h1, h2⟩; exact CRat.ext h1 h2
  · rintro rfl; exact ⟨rfl, rfl⟩

/-- the model's guard `reLe0` is the test `Re z ≤ 0` -/
theorem reLe0_iff (z : CRat) : reLe0 z = true ↔ z.re ≤ 0 := by
  show decide (z.re ≤ 0) = true ↔ _
  exact decide_eq_true_iff

/-- the model's comparison `reGt` is the test `Re a > Re b` -/
theorem reGt_iff (a b : CRat) : reGt a b = true ↔ a.re > b.re := by
  show decide (a.re > b.re) = true ↔ _
  exact decide_eq_true_iff

theorem abs2_re (c : CRat) : (c * star c).re = c.re * c.re + c.im * c.im := by
  simp only [mul_re, star_re, star_im]; ring

theorem abs2_im (c : CRat) : (c * star c).im = 0 := by
  simp only [mul_im, star_re, star_im]; ring

theorem abs2_mul_re (c z : CRat) :
    ((c * star c) * z).re = (c.re * c.re + c.im * c.im) * z.re := by
  rw [mul_re, abs2_re, abs2_im]; ring

/-- the sign test does not see a factor `|c|²`, `c ≠ 0` (hypothesis `hre` of
`C03.levinson_scale_status`, `C03.arburg_scale`, `C03.mt_adapt_scale` at `CRat`) -/
theorem reLe0_abs2_mul_CRat {c : CRat} (hc : c ≠ 0) (z : CRat) :
    reLe0 ((c * star c) * z) = reLe0 z := by
  rw [Bool.eq_iff_iff, reLe0_iff, reLe0_iff, abs2_mul_re]
  have hs := normSq_pos hc
  constructor
  · intro h
    rw [← mul_zero (c.re * c.re + c.im * c.im)] at h
    exact (mul_le_mul_iff_right₀ hs).mp h
  · intro h
    rw [← mul_zero (c.re * c.re + c.im * c.im)]
    exact (mul_le_mul_iff_right₀ hs).mpr h

/-- the comparison does not see a common factor `|c|²`, `c ≠ 0` (hypothesis `hgt` of
`C03.signal_space_scale`, `C03.mt_adapt_scale` at `CRat`) -/
theorem reGt_abs2_mul_CRat {c : CRat} (hc : c ≠ 0) (a b : CRat) :
    reGt ((c * star c) * a) ((c * star c) * b) = reGt a b := by
  rw [Bool.eq_iff_iff, reGt_iff, reGt_iff, abs2_mul_re, abs2_mul_re]
  exact mul_lt_mul_iff_right₀ (normSq_pos hc)

end CRatL

instance CRat.instLawfulIsZero : GJL.LawfulIsZero CRat := ⟨CRatL.isZero_iff⟩

/-! ### definitional checks: the operations reached through `Field CRat` / `StarRing CRat` are the
model's hand-written instances.  Every check is closed by `rfl` at *instance* transparency
(`with_reducible_and_instances`: only reducible definitions and instances are unfolded), the transparency
at which `rw` / `simp` compare instance arguments — so generic lemmas rewrite goals that are stated with
the model's instances (see the last examples). -/
section DefeqChecks

example : (CRat.instField.toDivisionRing.toRing.toNonAssocRing.toNonUnitalNonAssocRing.toMul : Mul CRat)
    = CRat.instMul := by with_reducible_and_instances rfl
example : (Distrib.toAdd : Add CRat) = CRat.instAdd := by with_reducible_and_instances rfl
example : (Distrib.toMul : Mul CRat) = CRat.instMul := by with_reducible_and_instances rfl
example : (Ring.toSub : Sub CRat) = CRat.instSub := by with_reducible_and_instances rfl
example : (Ring.toNeg : Neg CRat) = CRat.instNeg := by with_reducible_and_instances rfl
example : (DivisionRing.toDiv : Div CRat) = CRat.instDiv := by with_reducible_and_instances rfl
example : (DivInvMonoid.toDiv : Div CRat) = CRat.instDiv := by with_reducible_and_instances rfl
example : (Zero.toOfNat0 : OfNat CRat 0) = CRat.instOfNatOfNatNat := by
  with_reducible_and_instances rfl
example : (One.toOfNat1 : OfNat CRat 1) = CRat.instOfNatOfNatNat_1 := by
  with_reducible_and_instances rfl
example : (@Zero.zero CRat MulZeroClass.toZero) = ⟨0, 0⟩ := rfl
example : (@One.one CRat inferInstance) = ⟨1, 0⟩ := rfl
example : (Semiring.toNatCast : NatCast CRat) = CRat.instNatCast := by
  with_reducible_and_instances rfl
example : (NonAssocSemiring.toNatCast : NatCast CRat) = CRat.instNatCast := by
  with_reducible_and_instances rfl
example (n : ℕ) : (@Nat.cast CRat Semiring.toNatCast n) = ⟨(n : ℚ), 0⟩ := rfl
/-- the bridge `Conj K := ⟨star⟩` of `Lemmas/Basic.lean` at `CRat` is the model's `Conj CRat` -/
example : (instConjStar : Conj CRat) = CRat.instConj := by with_reducible_and_instances rfl
example : (@instConjStar CRat (StarRing.toStarAddMonoid.toInvolutiveStar.toStar) : Conj CRat)
    = CRat.instConj := rfl
example (a : CRat) : a⁻¹ = CRat.instDiv.div 1 a := rfl
example : (DivisionRing.toInv : Inv CRat) = CRat.instInv := by with_reducible_and_instances rfl
example : (Ring.toIntCast : IntCast CRat) = CRat.instIntCast := by with_reducible_and_instances rfl
example : (DivisionRing.toRatCast : RatCast CRat) = CRat.instRatCast := by
  with_reducible_and_instances rfl
example : (DivisionRing.toNNRatCast : NNRatCast CRat) = CRat.instNNRatCast := by
  with_reducible_and_instances rfl

/-- the generic bridging lemmas of `Lemmas/Basic.lean` apply to the model's helpers at the model's
instances -/
example (n : ℕ) (f : ℕ → CRat) :
    @sumR CRat CRat.instAdd CRat.instOfNatOfNatNat n f = ∑ i ∈ Finset.range n, f i := sumR_eq_sum n f
example (x : CRat) (n : ℕ) :
    @powN CRat CRat.instMul CRat.instOfNatOfNatNat_1 x n = x ^ n := powN_eq_pow x n
example (z : CRat) : @abs2 CRat CRat.instMul CRat.instConj z = z * star z := abs2_eq z

/-- Mathlib's lemmas and tactics act on goals written with the model's instances -/
example (a b : CRat) : a * b = b * a := by rw [mul_comm]
example (a : CRat) (h : a ≠ 0) : a / a = 1 := by rw [div_self h]
example (a : CRat) : conj (conj a) = a := by rw [conj_eq_star, conj_eq_star, star_star]
example (a b : CRat) : (a + b) * (a - b) = a * a - b * b := by ring
example : ((3 : ℕ) : CRat) = 1 + 1 + 1 := by norm_num

end DefeqChecks

end SpecVerif
