import SpecVerif.Proofs.Lemmas.Basic
import SpecVerif.Proofs.Lemmas.LinPred
import SpecVerif.Model.Levinson
import Mathlib.Algebra.BigOperators.Intervals
import Mathlib.Algebra.Star.BigOperators
import Mathlib.Analysis.RCLike.Basic
import Mathlib.Tactic.Ring
import Mathlib.Tactic.Linarith
/-
  Schur–Cohn stability for the step-up recursion (`levup`, `rc2poly`).

  For a coefficient list `a = [a_1..a_m]` (no leading 1)
    `polyA a z = z^m + Σ_{j<m} a_j z^{m-1-j}`        — what the Python code hands to `numpy.roots`
    `polyB a z = 1 + Σ_{j<m} conj(a_j) z^{j+1}`      — the reciprocal polynomial `z^m conj(A(1/conj z))`.
  Step-up:  `A' = z·A + k·B`,  `B' = B + conj(k)·z·A`,  hence
    `|A'|² − |B'|² = (1 − |k|²)(|z|²|A|² − |B|²)`.
  Induction over the reflection coefficients gives, for `|k_i| < 1` and `|z| ≥ 1`:
  `|B(z)| ≤ |A(z)|` and `A(z) ≠ 0`, i.e. all roots of `A` are strictly inside the unit circle; with
  `|k_i| ≤ 1` all roots are in the closed unit disc.  Pure algebra and norms, no complex analysis.
-/
namespace SpecVerif.SchurL
open Finset SpecVerif

section Alg
variable {K : Type} [Field K] [StarRing K]

/-- the prediction polynomial `z^m + a_1 z^{m-1} + … + a_m` of the coefficient list `a` (order `m`) -/
def polyA (a : List K) (z : K) : K :=
  z ^ a.length + ∑ j ∈ range a.length, nth a j * z ^ (a.length - 1 - j)

/-- the reciprocal polynomial `1 + conj(a_1) z + … + conj(a_m) z^m` -/
def polyB (a : List K) (z : K) : K :=
  1 + ∑ j ∈ range a.length, star (nth a j) * z ^ (j + 1)

/-- the polynomial of the model's PSD code, `1 + a_1 w + … + a_m w^m` -/
def polyR (a : List K) (w : K) : K :=
  1 + ∑ j ∈ range a.length, nth a j * w ^ (j + 1)

omit [StarRing K] in
theorem polyA_nil (z : K) : polyA ([] : List K) z = 1 := by
  simp [polyA]

theorem polyB_nil (z : K) : polyB ([] : List K) z = 1 := by
  simp [polyB]

omit [StarRing K] in
/-- `polyA` with the order named explicitly -/
theorem polyA_eq (a : List K) (m : ℕ) (hm : a.length = m) (z : K) :
    polyA a z = z ^ m + ∑ j ∈ range m, nth a j * z ^ (m - 1 - j) := by
  subst hm; rfl

/-- **step-up, `A`**: `A' (z) = z·A(z) + k·B(z)` -/
theorem polyA_levup (a : List K) (k z : K) :
    polyA (levup a k) z = z * polyA a z + k * polyB a z := by
  unfold polyA polyB
  rw [levup_length', Finset.sum_range_succ, nth_levup_last]
  have e1 : ∀ j ∈ range a.length,
      nth (levup a k) j * z ^ (a.length + 1 - 1 - j)
        = z * (nth a j * z ^ (a.length - 1 - j))
          + k * (star (nth a (a.length - 1 - j)) * z ^ (a.length - 1 - j + 1)) := by
    intro j hj
    have hj' := mem_range.mp hj
    rw [nth_levup_lt a k j hj']
    have h1 : a.length + 1 - 1 - j = (a.length - 1 - j) + 1 := by omega
    rw [h1, pow_succ]
    ring
  rw [Finset.sum_congr rfl e1, Finset.sum_add_distrib, ← Finset.mul_sum, ← Finset.mul_sum]
  rw [Finset.sum_range_reflect (fun i => star (nth a i) * z ^ (i + 1)) a.length]
  have h2 : a.length + 1 - 1 - a.length = 0 := by omega
  rw [h2, pow_zero, pow_succ]
  ring

/-- **step-up, `B`**: `B' (z) = B(z) + conj(k)·z·A(z)` -/
theorem polyB_levup (a : List K) (k z : K) :
    polyB (levup a k) z = polyB a z + star k * z * polyA a z := by
  unfold polyA polyB
  rw [levup_length', Finset.sum_range_succ, nth_levup_last]
  have e1 : ∀ j ∈ range a.length,
      star (nth (levup a k) j) * z ^ (j + 1)
        = star (nth a j) * z ^ (j + 1)
          + star k * z * (nth a (a.length - 1 - j) * z ^ (a.length - 1 - (a.length - 1 - j))) := by
    intro j hj
    have hj' := mem_range.mp hj
    rw [nth_levup_lt a k j hj']
    have h1 : a.length - 1 - (a.length - 1 - j) = j := by omega
    rw [h1, pow_succ, star_add, star_mul, star_star]
    ring
  rw [Finset.sum_congr rfl e1, Finset.sum_add_distrib, ← Finset.mul_sum]
  rw [Finset.sum_range_reflect (fun i => nth a i * z ^ (a.length - 1 - i)) a.length]
  rw [pow_succ]
  ring

omit [StarRing K] in
/-- `polyR a w = w^m · polyA a (1/w)` for `w ≠ 0` -/
theorem polyR_eq_pow_mul_polyA_inv (a : List K) (w : K) (hw : w ≠ 0) :
    polyR a w = w ^ a.length * polyA a w⁻¹ := by
  unfold polyR polyA
  rw [mul_add, inv_pow, mul_inv_cancel₀ (pow_ne_zero _ hw), Finset.mul_sum]
  congr 1
  apply Finset.sum_congr rfl
  intro j hj
  have hj' := mem_range.mp hj
  have h1 : a.length = (j + 1) + (a.length - 1 - j) := by omega
  have hne : w ^ (a.length - 1 - j) ≠ 0 := pow_ne_zero _ hw
  rw [inv_pow]
  conv_rhs => rw [h1, pow_add]
  have h2 : j + 1 + (a.length - 1 - j) - 1 - j = a.length - 1 - j := by omega
  rw [h2]
  field_simp

end Alg

section RC
variable {F : Type} [RCLike F]

/-- `|zX + kY|² − |Y + conj(k) z X|² = (1 − |k|²)(|z|²|X|² − |Y|²)`: the cross terms cancel -/
theorem norm_sq_stepup (X Y z k : F) :
    ‖z * X + k * Y‖ ^ 2 - ‖Y + star k * z * X‖ ^ 2
      = (1 - ‖k‖ ^ 2) * (‖z‖ ^ 2 * ‖X‖ ^ 2 - ‖Y‖ ^ 2) := by
  have h : ∀ w : F, ((‖w‖ : ℝ) : F) ^ 2 = w * star w := fun w => by
    rw [RCLike.star_def, RCLike.mul_conj]
  apply RCLike.ofReal_injective (K := F)
  push_cast
  rw [h, h, h, h, h, h]
  simp only [star_add, star_mul, star_star]
  ring

/-- the invariant `|B| ≤ |A|` is preserved by a step-up with `|k| ≤ 1` at a point with `|z| ≥ 1` -/
theorem stepup_norm_le (X Y z k : F) (hk : ‖k‖ ≤ 1) (hz : 1 ≤ ‖z‖) (hXY : ‖Y‖ ≤ ‖X‖) :
    ‖Y + star k * z * X‖ ≤ ‖z * X + k * Y‖ := by
  have hid := norm_sq_stepup X Y z k
  have h1 : 0 ≤ 1 - ‖k‖ ^ 2 := by
    have := norm_nonneg k
    nlinarith
  have h2 : 0 ≤ ‖z‖ ^ 2 * ‖X‖ ^ 2 - ‖Y‖ ^ 2 := by
    have hY := norm_nonneg Y
    have hX := norm_nonneg X
    have hYX : ‖Y‖ ^ 2 ≤ ‖X‖ ^ 2 := pow_le_pow_left₀ hY hXY 2
    have hz2 : 1 ≤ ‖z‖ ^ 2 := one_le_pow₀ hz
    nlinarith [sq_nonneg ‖X‖]
  have h3 : ‖Y + star k * z * X‖ ^ 2 ≤ ‖z * X + k * Y‖ ^ 2 := by
    have := mul_nonneg h1 h2
    linarith
  exact (pow_le_pow_iff_left₀ (norm_nonneg _) (norm_nonneg _) two_ne_zero).mp h3

/-- strict case: `|k| < 1`, `|z| ≥ 1`, `|Y| ≤ |X|`, `X ≠ 0` ⇒ `zX + kY ≠ 0` -/
theorem stepup_ne_zero_strict (X Y z k : F) (hk : ‖k‖ < 1) (hz : 1 ≤ ‖z‖) (hXY : ‖Y‖ ≤ ‖X‖)
    (hX : X ≠ 0) : z * X + k * Y ≠ 0 := by
  intro h0
  have hXpos : 0 < ‖X‖ := norm_pos_iff.mpr hX
  have heq : z * X = -(k * Y) := eq_neg_of_add_eq_zero_left h0
  have hn : ‖z‖ * ‖X‖ = ‖k‖ * ‖Y‖ := by
    rw [← norm_mul, ← norm_mul, heq, norm_neg]
  have h1 : ‖k‖ * ‖Y‖ ≤ ‖k‖ * ‖X‖ := mul_le_mul_of_nonneg_left hXY (norm_nonneg k)
  have h2 : ‖k‖ * ‖X‖ < 1 * ‖X‖ := mul_lt_mul_of_pos_right hk hXpos
  have h3 : 1 * ‖X‖ ≤ ‖z‖ * ‖X‖ := mul_le_mul_of_nonneg_right hz (norm_nonneg X)
  linarith

/-- weak case: `|k| ≤ 1`, `|z| > 1`, `|Y| ≤ |X|`, `X ≠ 0` ⇒ `zX + kY ≠ 0` -/
theorem stepup_ne_zero_weak (X Y z k : F) (hk : ‖k‖ ≤ 1) (hz : 1 < ‖z‖) (hXY : ‖Y‖ ≤ ‖X‖)
    (hX : X ≠ 0) : z * X + k * Y ≠ 0 := by
  intro h0
  have hXpos : 0 < ‖X‖ := norm_pos_iff.mpr hX
  have heq : z * X = -(k * Y) := eq_neg_of_add_eq_zero_left h0
  have hn : ‖z‖ * ‖X‖ = ‖k‖ * ‖Y‖ := by
    rw [← norm_mul, ← norm_mul, heq, norm_neg]
  have h1 : ‖k‖ * ‖Y‖ ≤ ‖k‖ * ‖X‖ := mul_le_mul_of_nonneg_left hXY (norm_nonneg k)
  have h2 : ‖k‖ * ‖X‖ ≤ 1 * ‖X‖ := mul_le_mul_of_nonneg_right hk (norm_nonneg X)
  have h3 : 1 * ‖X‖ < ‖z‖ * ‖X‖ := mul_lt_mul_of_pos_right hz hXpos
  linarith

/-- **Schur–Cohn invariant, strict**: all `|k_i| < 1` ⇒ for `|z| ≥ 1`, `|B(z)| ≤ |A(z)|` and
`A(z) ≠ 0` -/
theorem schur_invariant_strict (kr : List F) (r0 : F) (hk : ∀ k ∈ kr, ‖k‖ < 1) (z : F)
    (hz : 1 ≤ ‖z‖) :
    ‖polyB (rc2poly kr r0).1 z‖ ≤ ‖polyA (rc2poly kr r0).1 z‖ ∧ polyA (rc2poly kr r0).1 z ≠ 0 := by
  induction kr using List.reverseRecOn with
  | nil =>
    rw [rc2poly_nil, polyA_nil, polyB_nil]
    exact ⟨le_refl _, one_ne_zero⟩
  | append_singleton kr k ih =>
    have ih' := ih (fun k' hk' => hk k' (by simp [hk']))
    have hk1 : ‖k‖ < 1 := hk k (by simp)
    rw [rc2poly_append_singleton]
    simp only [polyA_levup, polyB_levup]
    exact ⟨stepup_norm_le _ _ z k hk1.le hz ih'.1,
      stepup_ne_zero_strict _ _ z k hk1 hz ih'.1 ih'.2⟩

/-- **Schur–Cohn invariant, weak**: all `|k_i| ≤ 1` ⇒ for `|z| > 1`, `|B(z)| ≤ |A(z)|` and
`A(z) ≠ 0` -/
theorem schur_invariant_weak (kr : List F) (r0 : F) (hk : ∀ k ∈ kr, ‖k‖ ≤ 1) (z : F)
    (hz : 1 < ‖z‖) :
    ‖polyB (rc2poly kr r0).1 z‖ ≤ ‖polyA (rc2poly kr r0).1 z‖ ∧ polyA (rc2poly kr r0).1 z ≠ 0 := by
  induction kr using List.reverseRecOn with
  | nil =>
    rw [rc2poly_nil, polyA_nil, polyB_nil]
    exact ⟨le_refl _, one_ne_zero⟩
  | append_singleton kr k ih =>
    have ih' := ih (fun k' hk' => hk k' (by simp [hk']))
    have hk1 : ‖k‖ ≤ 1 := hk k (by simp)
    rw [rc2poly_append_singleton]
    simp only [polyA_levup, polyB_levup]
    exact ⟨stepup_norm_le _ _ z k hk1 hz.le ih'.1,
      stepup_ne_zero_weak _ _ z k hk1 hz ih'.1 ih'.2⟩

/-- **Schur–Cohn stability**: if every reflection coefficient has modulus `< 1`, the step-up
polynomial has no zero on or outside the unit circle -/
theorem stable_of_refl_lt_one (kr : List F) (r0 : F) (hk : ∀ k ∈ kr, ‖k‖ < 1) (z : F)
    (hz : 1 ≤ ‖z‖) : polyA (rc2poly kr r0).1 z ≠ 0 :=
  (schur_invariant_strict kr r0 hk z hz).2

/-- non-vacuity: `kr = [1/2, -1/3]` over `ℝ` satisfies the hypothesis; the polynomial is
`z² + (1/3) z − 1/3` -/
example : (∀ k ∈ [(1 / 2 : ℝ), -1 / 3], ‖k‖ < 1) ∧
    (rc2poly [(1 / 2 : ℝ), -1 / 3] 1).1 = [1 / 3, -1 / 3] := by
  constructor
  · intro k hk
    simp only [List.mem_cons, List.not_mem_nil, or_false] at hk
    rcases hk with rfl | rfl <;> rw [Real.norm_eq_abs, abs_lt] <;> constructor <;> norm_num
  · norm_num [rc2poly, levup, vec, nth, conj, List.range, List.range.loop]

/-- … equivalently every root lies strictly inside the unit circle -/
theorem root_norm_lt_one_of_refl_lt_one (kr : List F) (r0 : F) (hk : ∀ k ∈ kr, ‖k‖ < 1) (z : F)
    (hz : polyA (rc2poly kr r0).1 z = 0) : ‖z‖ < 1 := by
  by_contra h
  exact stable_of_refl_lt_one kr r0 hk z (not_lt.mp h) hz

/-- if every reflection coefficient has modulus `≤ 1`, the step-up polynomial has no zero outside
the closed unit disc -/
theorem ne_zero_of_refl_le_one (kr : List F) (r0 : F) (hk : ∀ k ∈ kr, ‖k‖ ≤ 1) (z : F)
    (hz : 1 < ‖z‖) : polyA (rc2poly kr r0).1 z ≠ 0 :=
  (schur_invariant_weak kr r0 hk z hz).2

/-- … equivalently every root lies in the closed unit disc -/
theorem roots_in_closed_disc_of_refl_le_one (kr : List F) (r0 : F) (hk : ∀ k ∈ kr, ‖k‖ ≤ 1) (z : F)
    (hz : polyA (rc2poly kr r0).1 z = 0) : ‖z‖ ≤ 1 := by
  by_contra h
  exact ne_zero_of_refl_le_one kr r0 hk z (not_le.mp h) hz

/-- membership form of the index-wise bounds the property files provide -/
theorem forall_mem_of_forall_nth {P : F → Prop} (l : List F) (n : ℕ) (hn : l.length = n)
    (h : ∀ i, i < n → P (nth l i)) : ∀ k ∈ l, P k := by
  intro k hk
  obtain ⟨i, hi, rfl⟩ := List.getElem_of_mem hk
  rw [← nth_of_lt l i hi]
  exact h i (hn ▸ hi)

/-- the reversed polynomial `1 + a_1 w + … + a_m w^m` (the one evaluated by the PSD code) of a step-up
polynomial with all `|k_i| < 1` has no zero in the closed unit disc — in particular none on the
frequency grid `|w| = 1` -/
theorem polyR_ne_zero_of_refl_lt_one (kr : List F) (r0 : F) (hk : ∀ k ∈ kr, ‖k‖ < 1) (w : F)
    (hw : ‖w‖ ≤ 1) : polyR (rc2poly kr r0).1 w ≠ 0 := by
  by_cases h0 : w = 0
  · subst h0
    unfold polyR
    rw [Finset.sum_eq_zero (fun j _ => by rw [zero_pow (by omega), mul_zero]), add_zero]
    exact one_ne_zero
  · rw [polyR_eq_pow_mul_polyA_inv _ w h0]
    refine mul_ne_zero (pow_ne_zero _ h0) (stable_of_refl_lt_one kr r0 hk _ ?_)
    rw [norm_inv]
    exact (one_le_inv₀ (norm_pos_iff.mpr h0)).mpr hw

/-! ### the Levinson recursion: its polynomial is the step-up polynomial of its reflection coefficients -/

/-- explicit form for a step-up polynomial of `n` reflection coefficients, strict case -/
theorem rc2poly_root_lt_one (kr : List F) (r0 : F) (n : ℕ) (hn : kr.length = n)
    (hk : ∀ i, i < n → ‖nth kr i‖ < 1) (z : F)
    (hz : z ^ n + ∑ j ∈ range n, nth (rc2poly kr r0).1 j * z ^ (n - 1 - j) = 0) : ‖z‖ < 1 := by
  apply root_norm_lt_one_of_refl_lt_one kr r0 (forall_mem_of_forall_nth kr n hn hk) z
  rw [polyA_eq _ n (by rw [rc2poly_length', hn])]
  exact hz

/-- explicit form for a step-up polynomial of `n` reflection coefficients, weak case -/
theorem rc2poly_root_le_one (kr : List F) (r0 : F) (n : ℕ) (hn : kr.length = n)
    (hk : ∀ i, i < n → ‖nth kr i‖ ≤ 1) (z : F)
    (hz : z ^ n + ∑ j ∈ range n, nth (rc2poly kr r0).1 j * z ^ (n - 1 - j) = 0) : ‖z‖ ≤ 1 := by
  apply roots_in_closed_disc_of_refl_le_one kr r0 (forall_mem_of_forall_nth kr n hn hk) z
  rw [polyA_eq _ n (by rw [rc2poly_length', hn])]
  exact hz

/-- explicit form, reversed polynomial: no zero with `|w| ≤ 1` -/
theorem rc2poly_rev_ne_zero (kr : List F) (r0 : F) (n : ℕ) (hn : kr.length = n)
    (hk : ∀ i, i < n → ‖nth kr i‖ < 1) (w : F) (hw : ‖w‖ ≤ 1) :
    1 + ∑ j ∈ range n, nth (rc2poly kr r0).1 j * w ^ (j + 1) ≠ 0 := by
  have h := polyR_ne_zero_of_refl_lt_one kr r0 (forall_mem_of_forall_nth kr n hn hk) w hw
  unfold polyR at h
  rwa [rc2poly_length', hn] at h

/-- **Levinson, all `|k_i| < 1`**: every root of `z^p + a_1 z^{p-1} + … + a_p` is strictly inside the
unit circle -/
theorem levRun_root_lt_one (r0 : F) (T : List F) (p : ℕ)
    (hk : ∀ i, i < p → ‖nth (levRun r0 T p).ref i‖ < 1) (z : F)
    (hz : z ^ p + ∑ j ∈ range p, nth (levRun r0 T p).A j * z ^ (p - 1 - j) = 0) : ‖z‖ < 1 := by
  apply rc2poly_root_lt_one (levRun r0 T p).ref r0 p (levRun_ref_length_lp r0 T p) hk z
  rw [rc2poly_levRun_ref]
  exact hz

/-- **Levinson, all `|k_i| < 1`**: `1 + a_1 w + … + a_p w^p ≠ 0` for `|w| ≤ 1` -/
theorem levRun_rev_ne_zero (r0 : F) (T : List F) (p : ℕ)
    (hk : ∀ i, i < p → ‖nth (levRun r0 T p).ref i‖ < 1) (w : F) (hw : ‖w‖ ≤ 1) :
    1 + ∑ j ∈ range p, nth (levRun r0 T p).A j * w ^ (j + 1) ≠ 0 := by
  have h := rc2poly_rev_ne_zero (levRun r0 T p).ref r0 p (levRun_ref_length_lp r0 T p) hk w hw
  rwa [rc2poly_levRun_ref] at h

end RC

end SpecVerif.SchurL
