import SpecVerif.Proofs.Lemmas.Basic
import SpecVerif.Proofs.Lemmas.DFT
import SpecVerif.Proofs.Lemmas.Arma
import SpecVerif.Proofs.Lemmas.WienerKhinchin
import SpecVerif.Proofs.Lemmas.Minvar
import SpecVerif.Proofs.Lemmas.Mtm
import SpecVerif.Proofs.Lemmas.Eigen
import SpecVerif.Model.Periodogram
import SpecVerif.Model.Arma
import SpecVerif.Model.Minvar
import SpecVerif.Model.Eigen
import SpecVerif.Model.Mtm
import SpecVerif.Model.ClassGlue
import Mathlib.Algebra.BigOperators.Intervals
import Mathlib.Tactic.Ring
/-
  Helper lemmas for C05 ("NFFT only chooses the sampling grid").

  The common idea: when no sample / coefficient / lag is cut off or wrapped around, bin `k` of an
  `nfft`-point DFT of a sequence of `L ≤ nfft` samples is the polynomial `Σ_{t<L} x_t z^t` at
  `z = ω^k`, so it depends on `(ω, nfft, k)` only through the point `z = ω^k` of the unit circle
  (the physical frequency).  Two grids `(ω₁, n₁)`, `(ω₂, n₂)` and two bins with `ω₁^k₁ = ω₂^k₂`
  therefore give the same value.  `Ω^c = ω`, `k₁ = c·j`, `k₂ = j` is the nested-grid case.
-/
namespace SpecVerif.GridL
open Finset SpecVerif SpecVerif.ArmaL

variable {K : Type} [Field K]

/-! ### roots of unity of nested grids -/

/-- the coarse root `ω = Ω^c` of a fine `c·n`-th root `Ω` is an `n`-th root of unity -/
theorem coarse_pow_eq_one {Ω ω : K} {c n : ℕ} (hΩ : Ω ^ (c * n) = 1) (hΩω : Ω ^ c = ω) :
    ω ^ n = 1 := by
  rw [← hΩω, ← pow_mul]; exact hΩ

/-- coarse bin `j` and fine bin `c·j` are the same point of the unit circle -/
theorem fine_pow_eq {Ω ω : K} {c : ℕ} (hΩω : Ω ^ c = ω) (j : ℕ) : Ω ^ (c * j) = ω ^ j := by
  rw [pow_mul, hΩω]

/-- `Ω^{t·(c·j)} = ω^{t·j}` -/
theorem fine_pow_mul_eq {Ω ω : K} {c : ℕ} (hΩω : Ω ^ c = ω) (t j : ℕ) :
    Ω ^ (t * (c * j)) = ω ^ (t * j) := by
  rw [← hΩω, ← pow_mul]
  congr 1
  ring

/-! ### index arithmetic of nested grids -/

theorem fine_index_lt {c n j : ℕ} (hc : 0 < c) (hj : j < n) : c * j < c * n :=
  Nat.mul_lt_mul_of_pos_left hj hc

theorem le_fine {c n : ℕ} (hc : 0 < c) : n ≤ c * n := Nat.le_mul_of_pos_left n hc

/-- `2j ≤ n → 2(cj) ≤ cn` -/
theorem two_mul_fine_le {c n j : ℕ} (h : 2 * j ≤ n) : 2 * (c * j) ≤ c * n := by
  have := Nat.mul_le_mul_left c h
  calc 2 * (c * j) = c * (2 * j) := by ring
    _ ≤ c * n := this

/-- a kept bin of `rfft` (`j ≤ n/2`) maps to a kept bin of the fine `rfft` -/
theorem half_index_fine {c n j : ℕ} (hj : j < n / 2 + 1) : c * j < (c * n) / 2 + 1 := by
  have h : 2 * j ≤ n := by omega
  have := two_mul_fine_le (c := c) h
  generalize c * j = a at *
  generalize c * n = b at *
  omega

/-- a kept index of the one-sided class fold (`n/2+1` values for even, `(n+1)/2` for odd `n`) maps to a
    kept index of the fine fold, whatever the parities -/
theorem fold_index_fine {c n j : ℕ}
    (hj : j < (if n % 2 = 0 then n / 2 + 1 else (n + 1) / 2)) :
    c * j < (if (c * n) % 2 = 0 then (c * n) / 2 + 1 else (c * n + 1) / 2) := by
  have h : 2 * j ≤ n := by split_ifs at hj <;> omega
  have := two_mul_fine_le (c := c) h
  generalize c * j = a at *
  generalize c * n = b at *
  split_ifs <;> omega

/-! ### the DFT bin as a function of the point `z = ω^k` -/

/-- without truncation (`len x ≤ nfft`) bin `k` is the polynomial `Σ_{t<len x} x_t z^t` at `z = ω^k` -/
theorem dftBin_eq_polyPoint {ω : K} {n : ℕ} (hn : 0 < n) (hω : ω ^ n = 1) (x : List K)
    (hx : x.length ≤ n) (k : ℕ) :
    dftBin (twiddles ω n) n x k = ∑ t ∈ range x.length, nth x t * (ω ^ k) ^ t := by
  rw [dftBin_eq hn hω, min_eq_left hx]
  apply Finset.sum_congr rfl
  intro t _
  rw [← pow_mul, mul_comm k t]

/-- **same frequency, same DFT value**: two grids, two bins with `ω₁^k₁ = ω₂^k₂`, no truncation -/
theorem dftBin_same_freq {ω₁ ω₂ : K} {n₁ n₂ k₁ k₂ : ℕ} (hn₁ : 0 < n₁) (hn₂ : 0 < n₂)
    (h₁ : ω₁ ^ n₁ = 1) (h₂ : ω₂ ^ n₂ = 1) (hz : ω₁ ^ k₁ = ω₂ ^ k₂) (x : List K)
    (hx₁ : x.length ≤ n₁) (hx₂ : x.length ≤ n₂) :
    dftBin (twiddles ω₁ n₁) n₁ x k₁ = dftBin (twiddles ω₂ n₂) n₂ x k₂ := by
  rw [dftBin_eq_polyPoint hn₁ h₁ x hx₁, dftBin_eq_polyPoint hn₂ h₂ x hx₂, hz]

/-- the model polynomial `1 + Σ c_j z^{j+1}` depends on `(ω, k)` through `z = ω^k` only -/
theorem polyAt_eq_polyPoint (ω : K) (c : List K) (k : ℕ) :
    polyAt ω c k = 1 + ∑ j ∈ range c.length, nth c j * (ω ^ k) ^ (j + 1) := by
  unfold polyAt
  congr 1
  apply Finset.sum_congr rfl
  intro j _
  rw [← pow_mul, mul_comm k (j + 1)]

theorem polyAt_same_freq {ω₁ ω₂ : K} {k₁ k₂ : ℕ} (hz : ω₁ ^ k₁ = ω₂ ^ k₂) (c : List K) :
    polyAt ω₁ c k₁ = polyAt ω₂ c k₂ := by
  rw [polyAt_eq_polyPoint, polyAt_eq_polyPoint, hz]

/-- the zero-padded coefficient sequences of two admissible grids have the same DFT value at a common
    frequency (the sequences differ, by the amount of zero padding) -/
theorem dftBin_polySeq_same_freq {ω₁ ω₂ : K} {n₁ n₂ k₁ k₂ : ℕ} (h₁ : ω₁ ^ n₁ = 1)
    (h₂ : ω₂ ^ n₂ = 1) (hz : ω₁ ^ k₁ = ω₂ ^ k₂) (c : List K) (hc₁ : c.length < n₁)
    (hc₂ : c.length < n₂) :
    dftBin (twiddles ω₁ n₁) n₁ (polySeq c n₁) k₁ = dftBin (twiddles ω₂ n₂) n₂ (polySeq c n₂) k₂ := by
  rw [dftBin_polySeq h₁ c hc₁, dftBin_polySeq h₂ c hc₂, polyAt_same_freq hz]

/-- `ω^{mk}` and `ω^{-mk}` through `z = ω^k` -/
theorem pow_mul_eq_point (ω : K) (m k : ℕ) : ω ^ (m * k) = (ω ^ k) ^ m := by
  rw [← pow_mul, mul_comm]

theorem inv_pow_mul_eq_point (ω : K) (m k : ℕ) : ω⁻¹ ^ (m * k) = ((ω ^ k)⁻¹) ^ m := by
  rw [← inv_pow, ← pow_mul, mul_comm]

section Star
variable [StarRing K]

/-! ### periodogram and eigenspectrum -/

/-- entry `k` of the model periodogram, for a kept bin -/
theorem nth_speriodogram (tw x w : List K) (n : ℕ) (isReal : Bool) {k : ℕ}
    (hk : k < (if isReal then n / 2 + 1 else n)) :
    nth (speriodogram tw x w n isReal) k
      = abs2 (dftBin tw n (vec x.length (fun j => nth x j * nth w j)) k) / (x.length : K) := by
  unfold speriodogram
  simp only [nth_vec, hk, if_true]

theorem speriodogram_same_freq {ω₁ ω₂ : K} {n₁ n₂ k₁ k₂ : ℕ} (hn₁ : 0 < n₁) (hn₂ : 0 < n₂)
    (h₁ : ω₁ ^ n₁ = 1) (h₂ : ω₂ ^ n₂ = 1) (hz : ω₁ ^ k₁ = ω₂ ^ k₂) (x w : List K)
    (hx₁ : x.length ≤ n₁) (hx₂ : x.length ≤ n₂) (isReal : Bool)
    (hk₁ : k₁ < (if isReal then n₁ / 2 + 1 else n₁))
    (hk₂ : k₂ < (if isReal then n₂ / 2 + 1 else n₂)) :
    nth (speriodogram (twiddles ω₁ n₁) x w n₁ isReal) k₁
      = nth (speriodogram (twiddles ω₂ n₂) x w n₂ isReal) k₂ := by
  rw [nth_speriodogram _ x w n₁ isReal hk₁, nth_speriodogram _ x w n₂ isReal hk₂,
    dftBin_same_freq hn₁ hn₂ h₁ h₂ hz _ (by simpa using hx₁) (by simpa using hx₂)]

omit [StarRing K] in
theorem nth_eigenspectrum_raw (tw x taper : List K) (n : ℕ) {k : ℕ} (hk : k < n) :
    nth (eigenspectrum tw x taper n) k
      = dftBin tw n (vec x.length (fun j => nth taper j * nth x j)) k := by
  unfold eigenspectrum
  simp only [nth_vec, hk, if_true]

omit [StarRing K] in
theorem eigenspectrum_same_freq {ω₁ ω₂ : K} {n₁ n₂ k₁ k₂ : ℕ} (hn₁ : 0 < n₁) (hn₂ : 0 < n₂)
    (h₁ : ω₁ ^ n₁ = 1) (h₂ : ω₂ ^ n₂ = 1) (hz : ω₁ ^ k₁ = ω₂ ^ k₂) (x taper : List K)
    (hx₁ : x.length ≤ n₁) (hx₂ : x.length ≤ n₂) (hk₁ : k₁ < n₁) (hk₂ : k₂ < n₂) :
    nth (eigenspectrum (twiddles ω₁ n₁) x taper n₁) k₁
      = nth (eigenspectrum (twiddles ω₂ n₂) x taper n₂) k₂ := by
  rw [nth_eigenspectrum_raw _ x taper n₁ hk₁, nth_eigenspectrum_raw _ x taper n₂ hk₂,
    dftBin_same_freq hn₁ hn₂ h₁ h₂ hz _ (by simpa using hx₁) (by simpa using hx₂)]

/-! ### `arma2psd` -/

/-- the `|B|²` / `|A|²` factor of `arma2psd` (`1` for `None`) -/
def armaFactor (tw : List K) (C : Option (List K)) (n k : ℕ) : K :=
  match C with
  | some c => abs2 (dftBin tw n (polySeq c n) k)
  | none => 1

theorem nth_arma2psd (tw : List K) (A B : Option (List K)) (rho T : K) (n : ℕ) {k : ℕ}
    (hk : k < n) :
    nth (arma2psd tw A B rho T n) k = rho / T * armaFactor tw B n k / armaFactor tw A n k := by
  unfold arma2psd armaFactor
  rw [nth_vec, if_pos hk]
  cases A <;> cases B <;> rfl

theorem armaFactor_same_freq {ω₁ ω₂ : K} {n₁ n₂ k₁ k₂ : ℕ} (h₁ : ω₁ ^ n₁ = 1)
    (h₂ : ω₂ ^ n₂ = 1) (hz : ω₁ ^ k₁ = ω₂ ^ k₂) (C : Option (List K))
    (hC₁ : ∀ c, C = some c → c.length < n₁) (hC₂ : ∀ c, C = some c → c.length < n₂) :
    armaFactor (twiddles ω₁ n₁) C n₁ k₁ = armaFactor (twiddles ω₂ n₂) C n₂ k₂ := by
  cases C with
  | none => rfl
  | some c =>
    unfold armaFactor
    simp only
    rw [dftBin_polySeq_same_freq h₁ h₂ hz c (hC₁ c rfl) (hC₂ c rfl)]

theorem arma2psd_same_freq {ω₁ ω₂ : K} {n₁ n₂ k₁ k₂ : ℕ} (h₁ : ω₁ ^ n₁ = 1)
    (h₂ : ω₂ ^ n₂ = 1) (hz : ω₁ ^ k₁ = ω₂ ^ k₂) (A B : Option (List K))
    (hA₁ : ∀ a, A = some a → a.length < n₁) (hA₂ : ∀ a, A = some a → a.length < n₂)
    (hB₁ : ∀ b, B = some b → b.length < n₁) (hB₂ : ∀ b, B = some b → b.length < n₂)
    (rho T : K) (hk₁ : k₁ < n₁) (hk₂ : k₂ < n₂) :
    nth (arma2psd (twiddles ω₁ n₁) A B rho T n₁) k₁
      = nth (arma2psd (twiddles ω₂ n₂) A B rho T n₂) k₂ := by
  rw [nth_arma2psd _ A B rho T n₁ hk₁, nth_arma2psd _ A B rho T n₂ hk₂,
    armaFactor_same_freq h₁ h₂ hz A hA₁ hA₂, armaFactor_same_freq h₁ h₂ hz B hB₁ hB₂]

/-! ### correlogram -/

/-- the DFT of the lag sequence at a common frequency does not depend on the (admissible) grid -/
theorem dftBin_correlogramSeq_same_freq {ω₁ ω₂ : K} {n₁ n₂ k₁ k₂ L : ℕ} (hL₁ : 2 * L + 1 ≤ n₁)
    (hL₂ : 2 * L + 1 ≤ n₂) (h₁ : ω₁ ^ n₁ = 1) (h₂ : ω₂ ^ n₂ = 1) (hz : ω₁ ^ k₁ = ω₂ ^ k₂)
    (rxy ryx w : List K) :
    dftBin (twiddles ω₁ n₁) n₁ (correlogramSeq rxy ryx w L n₁) k₁
      = dftBin (twiddles ω₂ n₂) n₂ (correlogramSeq rxy ryx w L n₂) k₂ := by
  rw [dftBin_correlogramSeq hL₁ h₁, dftBin_correlogramSeq hL₂ h₂]
  congr 1
  apply Finset.sum_congr rfl
  intro m _
  rw [pow_mul_eq_point ω₁, pow_mul_eq_point ω₂, inv_pow_mul_eq_point ω₁, inv_pow_mul_eq_point ω₂, hz]

theorem nth_correlogramPsd (tw rxy ryx w : List K) (L n : ℕ) {k : ℕ} (hk : k < n) :
    nth (correlogramPsd tw rxy ryx w L n) k
      = rePart (dftBin tw n (correlogramSeq rxy ryx w L n) k) := by
  unfold correlogramPsd
  simp only [nth_vec, hk, if_true]

theorem correlogramPsd_same_freq {ω₁ ω₂ : K} {n₁ n₂ k₁ k₂ L : ℕ} (hL₁ : 2 * L + 1 ≤ n₁)
    (hL₂ : 2 * L + 1 ≤ n₂) (h₁ : ω₁ ^ n₁ = 1) (h₂ : ω₂ ^ n₂ = 1) (hz : ω₁ ^ k₁ = ω₂ ^ k₂)
    (rxy ryx w : List K) (hk₁ : k₁ < n₁) (hk₂ : k₂ < n₂) :
    nth (correlogramPsd (twiddles ω₁ n₁) rxy ryx w L n₁) k₁
      = nth (correlogramPsd (twiddles ω₂ n₂) rxy ryx w L n₂) k₂ := by
  rw [nth_correlogramPsd _ rxy ryx w L n₁ hk₁, nth_correlogramPsd _ rxy ryx w L n₂ hk₂,
    dftBin_correlogramSeq_same_freq hL₁ hL₂ h₁ h₂ hz]

/-! ### minimum variance -/

theorem dftBin_minvarPsi_same_freq {ω₁ ω₂ : K} {n₁ n₂ k₁ k₂ : ℕ} (h₁ : ω₁ ^ n₁ = 1)
    (h₂ : ω₂ ^ n₂ = 1) (hz : ω₁ ^ k₁ = ω₂ ^ k₂) (a : List K) (P : K) (ha : 0 < a.length)
    (hno₁ : 2 * a.length ≤ n₁ + 1) (hno₂ : 2 * a.length ≤ n₂ + 1) :
    dftBin (twiddles ω₁ n₁) n₁ (minvarPsi a P n₁) k₁
      = dftBin (twiddles ω₂ n₂) n₂ (minvarPsi a P n₂) k₂ := by
  have hn₁ : 0 < n₁ := by omega
  have hn₂ : 0 < n₂ := by omega
  rw [dftBin_eq hn₁ h₁, dftBin_eq hn₂ h₂, minvarPsi_length, minvarPsi_length, Nat.min_self,
    Nat.min_self, MinvarL.dft_minvarPsi h₁ a P ha hno₁, MinvarL.dft_minvarPsi h₂ a P ha hno₂]
  congr 1
  apply Finset.sum_congr rfl
  intro m _
  rw [pow_mul_eq_point ω₁, pow_mul_eq_point ω₂, inv_pow_mul_eq_point ω₁, inv_pow_mul_eq_point ω₂, hz]

theorem nth_minvarPsd (tw a : List K) (P fs : K) (n : ℕ) {k : ℕ} (hk : k < n) :
    nth (minvarPsd tw a P fs n) k = fs / rePart (dftBin tw n (minvarPsi a P n) k) := by
  unfold minvarPsd
  simp only [nth_vec, hk, if_true]

theorem minvarPsd_same_freq {ω₁ ω₂ : K} {n₁ n₂ k₁ k₂ : ℕ} (h₁ : ω₁ ^ n₁ = 1)
    (h₂ : ω₂ ^ n₂ = 1) (hz : ω₁ ^ k₁ = ω₂ ^ k₂) (a : List K) (P fs : K) (ha : 0 < a.length)
    (hno₁ : 2 * a.length ≤ n₁ + 1) (hno₂ : 2 * a.length ≤ n₂ + 1) (hk₁ : k₁ < n₁) (hk₂ : k₂ < n₂) :
    nth (minvarPsd (twiddles ω₁ n₁) a P fs n₁) k₁ = nth (minvarPsd (twiddles ω₂ n₂) a P fs n₂) k₂ := by
  rw [nth_minvarPsd _ a P fs n₁ hk₁, nth_minvarPsd _ a P fs n₂ hk₂,
    dftBin_minvarPsi_same_freq h₁ h₂ hz a P ha hno₁ hno₂]

/-! ### MUSIC / eigenvector denominator -/

theorem eigenDenom_same_freq {ω₁ ω₂ : K} {n₁ n₂ k₁ k₂ : ℕ} (hn₁ : 0 < n₁) (hn₂ : 0 < n₂)
    (h₁ : ω₁ ^ n₁ = 1) (h₂ : ω₂ ^ n₂ = 1) (hz : ω₁ ^ k₁ = ω₂ ^ k₂) (cols : List (List K))
    (S : List K) (nsig P : ℕ) (ev : Bool)
    (hc₁ : ∀ i, nsig ≤ i → i < P → (cols.getD i []).length ≤ n₁)
    (hc₂ : ∀ i, nsig ≤ i → i < P → (cols.getD i []).length ≤ n₂) :
    eigenDenom (twiddles ω₁ n₁) cols S nsig P n₁ ev k₁
      = eigenDenom (twiddles ω₂ n₂) cols S nsig P n₂ ev k₂ := by
  unfold eigenDenom
  rw [sumR_eq_sum, sumR_eq_sum]
  apply Finset.sum_congr rfl
  intro j hj
  have hj' := mem_range.mp hj
  simp only []
  rw [dftBin_same_freq hn₁ hn₂ h₁ h₂ hz _ (hc₁ (j + nsig) (by omega) (by omega))
    (hc₂ (j + nsig) (by omega) (by omega))]

end Star

/-! ### class glue -/

/-- entry `k` of the unscaled one-sided class output on real data is `2·raw[k]` for a kept `k` -/
theorem nth_classPsd_real (raw : List K) (n : ℕ) (twoPi fs : K) {k : ℕ}
    (hk : k < (if n % 2 = 0 then n / 2 + 1 else (n + 1) / 2)) :
    nth (classPsd raw true n false twoPi fs) k = 2 * nth raw k := by
  rw [classPsd_false]
  simp only [if_true]
  unfold foldReal
  rw [nth_vec, if_pos hk, Nat.cast_ofNat]

theorem nth_classPsd_complex (raw : List K) (n : ℕ) (twoPi fs : K) (k : ℕ) :
    nth (classPsd raw false n false twoPi fs) k = nth raw k := by
  rw [classPsd_false]
  simp

/-- the Periodogram class glue on real data (`take`): the kept `rfft` bins, not doubled -/
theorem nth_takeReal (raw : List K) (n : ℕ) {k : ℕ} (hk : k < n / 2 + 1) :
    nth (takeReal raw n) k = nth raw k := by
  unfold takeReal
  rw [nth_vec, if_pos hk]

/-! ### multitaper: the table of squared eigenspectra, the adaptive pass -/

section Mt
variable [StarRing K]

/-- the table `SkA[t][f] = |Sk_t[f]|²` that `pmtm` / `MultiTapering` build from the tapers -/
def mtSkA (tw x : List K) (tapers : List (List K)) (n : ℕ) : List (List K) :=
  (tapers.map (fun tp => eigenspectrum tw x tp n)).map (fun r => r.map abs2)

theorem getD_mtSkA (tw x : List K) (tapers : List (List K)) (n t : ℕ) :
    (mtSkA tw x tapers n).getD t []
      = if t < tapers.length then (eigenspectrum tw x (tapers.getD t []) n).map abs2 else [] := by
  unfold mtSkA
  by_cases h : t < tapers.length
  · simp [List.getD_eq_getElem?_getD, h]
  · simp [List.getD_eq_getElem?_getD, h]

theorem nth_mtSkA (tw x : List K) (tapers : List (List K)) (n t k : ℕ) :
    nth ((mtSkA tw x tapers n).getD t []) k
      = if t < tapers.length then abs2 (nth (eigenspectrum tw x (tapers.getD t []) n) k) else 0 := by
  rw [getD_mtSkA]
  by_cases h : t < tapers.length
  · rw [if_pos h, if_pos h]
    exact nth_map_zero (fun z => abs2 z) (by simp) _ k
  · rw [if_neg h, if_neg h]
    rfl

theorem mtSkA_same_freq {ω₁ ω₂ : K} {n₁ n₂ k₁ k₂ : ℕ} (hn₁ : 0 < n₁) (hn₂ : 0 < n₂)
    (h₁ : ω₁ ^ n₁ = 1) (h₂ : ω₂ ^ n₂ = 1) (hz : ω₁ ^ k₁ = ω₂ ^ k₂) (x : List K)
    (tapers : List (List K)) (hx₁ : x.length ≤ n₁) (hx₂ : x.length ≤ n₂) (hk₁ : k₁ < n₁)
    (hk₂ : k₂ < n₂) (t : ℕ) :
    nth ((mtSkA (twiddles ω₁ n₁) x tapers n₁).getD t []) k₁
      = nth ((mtSkA (twiddles ω₂ n₂) x tapers n₂).getD t []) k₂ := by
  rw [nth_mtSkA, nth_mtSkA,
    eigenspectrum_same_freq hn₁ hn₂ h₁ h₂ hz x (tapers.getD t []) hx₁ hx₂ hk₁ hk₂]

end Mt

section Adapt
open SpecVerif.MtmL

/-- two adaptive-loop states, on the fine grid `c·n` and on the coarse grid `n`, agree at the common
    frequencies: spectrum estimate and weights at fine bin `c·j` equal those at coarse bin `j` -/
def AdaptAgree (c n nwin : ℕ) (stF stC : AdaptState K) : Prop :=
  (∀ j, j < n → nth stF.S (c * j) = nth stC.S j) ∧
  (∀ j, j < n → ∀ t, t < nwin → nth (stF.wk.getD (c * j) []) t = nth (stC.wk.getD j []) t)

/-- one pass of the adaptive loop is pointwise in frequency: if the squared eigenspectra and the current
    estimates agree at the common frequencies, so do the new weights and the new estimates -/
theorem adaptAgree_step {c n nwin : ℕ} (hc : 0 < c) (SkF SkC : List (List K)) (lams : List K)
    (sig2 : K)
    (hSk : ∀ t j, j < n → nth (SkF.getD t []) (c * j) = nth (SkC.getD t []) j)
    (stF stC : AdaptState K) (h : ∀ j, j < n → nth stF.S (c * j) = nth stC.S j) :
    AdaptAgree c n nwin (adaptStep SkF lams sig2 (c * n) nwin stF)
      (adaptStep SkC lams sig2 n nwin stC) := by
  have hw : ∀ j, j < n → ∀ t, t < nwin →
      nth ((adaptStep SkF lams sig2 (c * n) nwin stF).wk.getD (c * j) []) t
        = nth ((adaptStep SkC lams sig2 n nwin stC).wk.getD j []) t := by
    intro j hj t ht
    rw [adaptStep_wk_entry SkF lams sig2 (c * n) nwin stF (fine_index_lt hc hj) ht,
      adaptStep_wk_entry SkC lams sig2 n nwin stC hj ht, h j hj]
  refine ⟨?_, hw⟩
  intro j hj
  rw [adaptStep_S_entry SkF lams sig2 (c * n) nwin stF (fine_index_lt hc hj),
    adaptStep_S_entry SkC lams sig2 n nwin stC hj]
  congr 1
  · apply Finset.sum_congr rfl
    intro t ht
    rw [hw j hj t (mem_range.mp ht), hSk t j hj]
  · apply Finset.sum_congr rfl
    intro t ht
    rw [hw j hj t (mem_range.mp ht)]

/-- the same number of passes keeps the agreement -/
theorem adaptAgree_iterate {c n nwin : ℕ} (hc : 0 < c) (SkF SkC : List (List K)) (lams : List K)
    (sig2 : K)
    (hSk : ∀ t j, j < n → nth (SkF.getD t []) (c * j) = nth (SkC.getD t []) j)
    (stF stC : AdaptState K) (h : AdaptAgree c n nwin stF stC) (k : ℕ) :
    AdaptAgree c n nwin ((adaptStep SkF lams sig2 (c * n) nwin)^[k] stF)
      ((adaptStep SkC lams sig2 n nwin)^[k] stC) := by
  induction k with
  | zero => exact h
  | succ k ih =>
    rw [Function.iterate_succ_apply', Function.iterate_succ_apply']
    exact adaptAgree_step hc SkF SkC lams sig2 hSk _ _ ih.1

/-- the start states of the adaptive loop agree at the common frequencies -/
theorem adaptAgree_init {c n : ℕ} (hc : 0 < c) (SkF SkC : List (List K)) (lams : List K)
    (hSk : ∀ t j, j < n → nth (SkF.getD t []) (c * j) = nth (SkC.getD t []) j) :
    AdaptAgree c n lams.length (adaptInit lams SkF (c * n)) (adaptInit lams SkC n) := by
  constructor
  · intro j hj
    show nth (vec (c * n) (fun f => (nth (SkF.getD 0 []) f + nth (SkF.getD 1 []) f) / 2)) (c * j)
      = nth (vec n (fun f => (nth (SkC.getD 0 []) f + nth (SkC.getD 1 []) f) / 2)) j
    rw [nth_vec, nth_vec, if_pos (fine_index_lt hc hj), if_pos hj, hSk 0 j hj, hSk 1 j hj]
  · intro j hj t ht
    rw [adaptInit_wk_entry lams SkF (fine_index_lt hc hj) ht, adaptInit_wk_entry lams SkC hj ht]

end Adapt

end SpecVerif.GridL
