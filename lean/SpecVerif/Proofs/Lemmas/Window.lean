import SpecVerif.Proofs.Lemmas.Basic
import SpecVerif.Proofs.Lemmas.LinPred
import SpecVerif.Model.Window
import Mathlib.Algebra.Order.Chebyshev
import Mathlib.Analysis.SpecialFunctions.Trigonometric.Basic
import Mathlib.Analysis.SpecialFunctions.Trigonometric.Bounds
import Mathlib.Analysis.SpecialFunctions.Exp
import Mathlib.Tactic.Linarith
import Mathlib.Tactic.NormNum
import Mathlib.Tactic.Positivity
import Mathlib.Tactic.FieldSimp
import Mathlib.Data.Finset.Card
import Mathlib.Data.List.Nodup
/-
  Helper lemmas on the window generators of `Model/Window.lean` at `R := ℝ` (instance `instRealFnReal`).
-/
namespace SpecVerif.WinL
open Finset SpecVerif

/-! ### the model's real functions at `ℝ` -/

theorem two_real : (two : ℝ) = 2 := by simp [two]
theorem pi_real : (RealFn.pi : ℝ) = Real.pi := rfl
theorem cos_real (x : ℝ) : RealFn.cos x = Real.cos x := rfl
theorem sin_real (x : ℝ) : RealFn.sin x = Real.sin x := rfl
theorem exp_real (x : ℝ) : RealFn.exp x = Real.exp x := rfl
theorem abs_real (x : ℝ) : RealFn.abs x = |x| := rfl
theorem sinc_real (x : ℝ) :
    RealFn.sinc x = if x = 0 then 1 else Real.sin (Real.pi * x) / (Real.pi * x) := rfl
theorem lt_real (a b : ℝ) : RealFn.lt a b = decide (a < b) := rfl

theorem dec_real (m d : ℕ) : (dec m d : ℝ) = (m : ℝ) / 10 ^ d := by simp [dec]

theorem theta_real (N n : ℕ) : (theta N n : ℝ) = 2 * Real.pi * n / ((N - 1 : ℕ) : ℝ) := by
  simp [theta, two_real, pi_real]

theorem cosSum_real (a0 a1 a2 a3 a4 x : ℝ) :
    cosSum a0 a1 a2 a3 a4 x
      = a0 - a1 * Real.cos x + a2 * Real.cos (2 * x) - a3 * Real.cos (3 * x) + a4 * Real.cos (4 * x) := by
  simp [cosSum, two_real, cos_real]

/-! ### indexing the guarded generators `if N = 1 then [1] else vec N f` -/

theorem nth_guard (N : ℕ) (f : ℕ → ℝ) (n : ℕ) (hn : n < N) :
    nth (if N = 1 then [1] else vec N f) n = if N = 1 then 1 else f n := by
  by_cases h : N = 1
  · subst h
    have : n = 0 := by omega
    subst this
    simp [nth]
  · simp [h, hn]

theorem length_guard (N : ℕ) (f : ℕ → ℝ) : (if N = 1 then [1] else vec N f).length = N := by
  by_cases h : N = 1
  · simp [h]
  · simp [h]

/-- symmetry of a guarded generator from symmetry of its sample formula for `N ≥ 2` -/
theorem symm_guard (N : ℕ) (f : ℕ → ℝ) (h : 2 ≤ N → ∀ n, n < N → f n = f (N - 1 - n))
    (n : ℕ) (hn : n < N) :
    nth (if N = 1 then [1] else vec N f) n = nth (if N = 1 then [1] else vec N f) (N - 1 - n) := by
  rw [nth_guard N f n hn, nth_guard N f (N - 1 - n) (by omega)]
  by_cases h1 : N = 1
  · simp [h1]
  · simp only [h1, if_false]
    exact h (by omega) n hn

/-- symmetry of an unguarded generator `vec N f` -/
theorem symm_vec (N : ℕ) (f : ℕ → ℝ) (h : 2 ≤ N → ∀ n, n < N → f n = f (N - 1 - n))
    (n : ℕ) (hn : n < N) :
    nth (vec N f) n = nth (vec N f) (N - 1 - n) := by
  have hn' : N - 1 - n < N := by omega
  simp only [nth_vec, hn, hn', if_true]
  by_cases h2 : 2 ≤ N
  · exact h h2 n hn
  · have : n = 0 := by omega
    subst this
    have : N - 1 - 0 = 0 := by omega
    rw [this]

/-! ### ENBW -/

theorem enbw_real (w : List ℝ) :
    enbw w = (w.length : ℝ) * (∑ i ∈ range w.length, nth w i ^ 2) / (∑ i ∈ range w.length, nth w i) ^ 2 := by
  simp [enbw, nth, pow_two]

/-! ### lengths -/

theorem length_flattop (N : ℕ) (p : Bool) : (wFlattop (R := ℝ) N p).length = N := by
  unfold wFlattop
  split
  · next h => simp [h.2]
  · simp

theorem length_tukey (N : ℕ) (r : ℝ) (z o : Bool) : (wTukey N r z o).length = N := by
  unfold wTukey wHann
  split_ifs <;> simp [*]

theorem length_taylor (N nbar : ℕ) (sll : ℝ) : (wTaylor N nbar sll).length = N := by
  simp [wTaylor]


/-! ### mirror lemmas -/

theorem cast_pred_ne (N : ℕ) (h : 2 ≤ N) : ((N - 1 : ℕ) : ℝ) ≠ 0 := by
  have : N - 1 ≠ 0 := by omega
  exact_mod_cast this

theorem cast_pred_pos (N : ℕ) (h : 2 ≤ N) : (0 : ℝ) < ((N - 1 : ℕ) : ℝ) := by
  have : 0 < N - 1 := by omega
  exact_mod_cast this

theorem cast_mirror (N n : ℕ) (hn : n < N) : ((N - 1 - n : ℕ) : ℝ) = ((N - 1 : ℕ) : ℝ) - n := by
  rw [Nat.cast_sub (by omega)]

theorem theta_mirror (N n : ℕ) (h : 2 ≤ N) (hn : n < N) :
    (theta N (N - 1 - n) : ℝ) = 2 * Real.pi - theta N n := by
  rw [theta_real, theta_real, cast_mirror N n hn]
  have := cast_pred_ne N h
  field_simp

theorem cos_mul_mirror (k : ℕ) (x : ℝ) :
    Real.cos ((k : ℝ) * (2 * Real.pi - x)) = Real.cos ((k : ℝ) * x) := by
  rw [mul_sub, Real.cos_nat_mul_two_pi_sub]

theorem cosSum_mirror (a0 a1 a2 a3 a4 x : ℝ) :
    cosSum a0 a1 a2 a3 a4 (2 * Real.pi - x) = cosSum a0 a1 a2 a3 a4 x := by
  rw [cosSum_real, cosSum_real, Real.cos_two_pi_sub]
  have h2 := cos_mul_mirror 2 x
  have h3 := cos_mul_mirror 3 x
  have h4 := cos_mul_mirror 4 x
  norm_num at h2 h3 h4
  rw [h2, h3, h4]

theorem linspace_real (a b : ℝ) (N n : ℕ) (h : 2 ≤ N) :
    linspace a b N n = a + (n : ℝ) * ((b - a) / ((N - 1 : ℕ) : ℝ)) := by
  unfold linspace
  rw [if_neg (by omega)]

theorem linspace_le_one (a b : ℝ) (N n : ℕ) (h : N ≤ 1) : linspace a b N n = a := by
  unfold linspace
  rw [if_pos h]

theorem linspace_mirror (a : ℝ) (N n : ℕ) (h : 2 ≤ N) (hn : n < N) :
    linspace (-a) a N (N - 1 - n) = - linspace (-a) a N n := by
  rw [linspace_real _ _ _ _ h, linspace_real _ _ _ _ h, cast_mirror N n hn]
  have := cast_pred_ne N h
  field_simp
  ring

theorem tHalf_mirror (N n : ℕ) (h : 2 ≤ N) (hn : n < N) :
    (tHalf N (N - 1 - n) : ℝ) = - tHalf N n := by
  unfold tHalf
  exact linspace_mirror _ N n h hn

theorem sinc_neg (x : ℝ) : RealFn.sinc (-x) = RealFn.sinc x := by
  rw [sinc_real, sinc_real]
  by_cases h : x = 0
  · simp [h]
  · simp [h, Real.sin_neg]

theorem flattop_sym_eq (N : ℕ) :
    wFlattop (R := ℝ) N false = if N = 1 then [1] else
      vec N (fun n => cosSum (dec 21557895 8) (dec 41663158 8) (dec 277263158 9) (dec 83578947 9)
        (dec 6947368 9) (theta N n)) := by
  simp [wFlattop]

theorem flattop_per_eq (N : ℕ) :
    wFlattop (R := ℝ) N true =
      vec N (fun n => cosSum (dec 21557895 8) (dec 41663158 8) (dec 277263158 9) (dec 83578947 9)
        (dec 6947368 9) (2 * Real.pi * (n : ℝ) / (N : ℝ))) := by
  simp [wFlattop, two_real, pi_real]

theorem abs_sub_half_mirror (N n : ℕ) (h : 2 ≤ N) (hn : n < N) :
    |((N - 1 - n : ℕ) : ℝ) / ((N - 1 : ℕ) : ℝ) - 1 / 2| = |(n : ℝ) / ((N - 1 : ℕ) : ℝ) - 1 / 2| := by
  rw [cast_mirror N n hn, ← abs_neg]
  congr 1
  have := cast_pred_ne N h
  field_simp
  ring

theorem symm_coeff4 (N : ℕ) (a0 a1 a2 a3 : ℝ) (n : ℕ) (hn : n < N) :
    nth (wCoeff4 N a0 a1 a2 a3) n = nth (wCoeff4 N a0 a1 a2 a3) (N - 1 - n) := by
  unfold wCoeff4
  refine symm_guard N _ (fun h n hn => ?_) n hn
  rw [theta_mirror N n h hn, cosSum_mirror]


/-! ### maxima and centre samples -/

theorem max_guard (N : ℕ) (f : ℕ → ℝ) (h : 2 ≤ N → ∀ n, n < N → f n ≤ 1) (n : ℕ) (hn : n < N) :
    nth (if N = 1 then [1] else vec N f) n ≤ 1 := by
  rw [nth_guard N f n hn]
  by_cases h1 : N = 1
  · simp [h1]
  · simp only [h1, if_false]
    exact h (by omega) n hn

theorem max_vec (N : ℕ) (f : ℕ → ℝ) (h : ∀ n, n < N → f n ≤ 1) (n : ℕ) (hn : n < N) :
    nth (vec N f) n ≤ 1 := by
  simp only [nth_vec, hn, if_true]
  exact h n hn

theorem centre_guard (N : ℕ) (h3 : 3 ≤ N) (f : ℕ → ℝ) :
    nth (if N = 1 then [1] else vec N f) ((N - 1) / 2) = f ((N - 1) / 2) := by
  rw [nth_guard N f _ (by omega), if_neg (by omega)]

theorem centre_vec (N : ℕ) (h1 : 1 ≤ N) (f : ℕ → ℝ) :
    nth (vec N f) ((N - 1) / 2) = f ((N - 1) / 2) := by
  have : (N - 1) / 2 < N := by omega
  simp only [nth_vec, this, if_true]

theorem cast_half (N : ℕ) (hodd : N % 2 = 1) :
    (((N - 1) / 2 : ℕ) : ℝ) = ((N - 1 : ℕ) : ℝ) / 2 := by
  have : N - 1 = 2 * ((N - 1) / 2) := by omega
  rw [eq_div_iff (by norm_num)]
  exact_mod_cast (by omega : (N - 1) / 2 * 2 = N - 1)

theorem theta_centre (N : ℕ) (h3 : 3 ≤ N) (hodd : N % 2 = 1) :
    (theta N ((N - 1) / 2) : ℝ) = Real.pi := by
  rw [theta_real, cast_half N hodd]
  have := cast_pred_ne N (by omega)
  field_simp

theorem linspace_centre (a : ℝ) (N : ℕ) (h3 : 3 ≤ N) (hodd : N % 2 = 1) :
    linspace (-a) a N ((N - 1) / 2) = 0 := by
  rw [linspace_real _ _ _ _ (by omega), cast_half N hodd]
  have := cast_pred_ne N (by omega)
  field_simp
  ring

theorem tHalf_centre (N : ℕ) (h3 : 3 ≤ N) (hodd : N % 2 = 1) :
    (tHalf N ((N - 1) / 2) : ℝ) = 0 := by
  unfold tHalf
  exact linspace_centre _ N h3 hodd

theorem cosSum_le (a0 a1 a2 a3 a4 x : ℝ) (h1 : 0 ≤ a1) (h2 : 0 ≤ a2) (h3 : 0 ≤ a3) (h4 : 0 ≤ a4) :
    cosSum a0 a1 a2 a3 a4 x ≤ a0 + a1 + a2 + a3 + a4 := by
  rw [cosSum_real]
  have e1 := mul_le_mul_of_nonneg_left (Real.neg_one_le_cos x) h1
  have e2 := mul_le_mul_of_nonneg_left (Real.cos_le_one (2 * x)) h2
  have e3 := mul_le_mul_of_nonneg_left (Real.neg_one_le_cos (3 * x)) h3
  have e4 := mul_le_mul_of_nonneg_left (Real.cos_le_one (4 * x)) h4
  linarith

theorem cosSum_pi (a0 a1 a2 a3 a4 : ℝ) :
    cosSum a0 a1 a2 a3 a4 Real.pi = a0 + a1 + a2 + a3 + a4 := by
  rw [cosSum_real]
  have e2 : Real.cos (2 * Real.pi) = 1 := Real.cos_two_pi
  have e3 : Real.cos (3 * Real.pi) = -1 := by
    rw [show (3 : ℝ) * Real.pi = ((3 : ℕ) : ℝ) * Real.pi by norm_num, Real.cos_nat_mul_pi]; norm_num
  have e4 : Real.cos (4 * Real.pi) = 1 := by
    rw [show (4 : ℝ) * Real.pi = ((4 : ℕ) : ℝ) * Real.pi by norm_num, Real.cos_nat_mul_pi]; norm_num
  rw [Real.cos_pi, e2, e3, e4]
  ring

theorem dec_nonneg (m d : ℕ) : (0 : ℝ) ≤ dec m d := by
  rw [dec_real]; positivity


theorem max_coeff4 (N : ℕ) (a0 a1 a2 a3 : ℝ) (h1 : 0 ≤ a1) (h2 : 0 ≤ a2) (h3 : 0 ≤ a3)
    (hs : a0 + a1 + a2 + a3 = 1) (n : ℕ) (hn : n < N) : nth (wCoeff4 N a0 a1 a2 a3) n ≤ 1 := by
  unfold wCoeff4
  refine max_guard N _ (fun _ n _ => ?_) n hn
  have := cosSum_le a0 a1 a2 a3 0 (theta N n) h1 h2 h3 le_rfl
  linarith

theorem centre_coeff4 (N : ℕ) (a0 a1 a2 a3 : ℝ) (hs : a0 + a1 + a2 + a3 = 1)
    (h3 : 3 ≤ N) (hodd : N % 2 = 1) : nth (wCoeff4 N a0 a1 a2 a3) ((N - 1) / 2) = 1 := by
  unfold wCoeff4
  rw [centre_guard N h3, theta_centre N h3 hodd, cosSum_pi]
  linarith


theorem sinc_le_one (x : ℝ) : RealFn.sinc x ≤ 1 := by
  rw [sinc_real]
  split_ifs with h
  · exact le_rfl
  · have hpx : Real.pi * x ≠ 0 := mul_ne_zero Real.pi_ne_zero h
    refine (le_abs_self _).trans ?_
    rw [abs_div]
    exact div_le_one_of_le₀ Real.abs_sin_le_abs (abs_nonneg _)

theorem sinc_zero : RealFn.sinc (0 : ℝ) = 1 := by
  rw [sinc_real, if_pos rfl]

theorem linspace_abs_le (N n : ℕ) (hn : n < N) : |linspace (-1 : ℝ) 1 N n| ≤ 1 := by
  by_cases h : 2 ≤ N
  · rw [linspace_real _ _ _ _ h, abs_le]
    have hp := cast_pred_pos N h
    have hle : (n : ℝ) ≤ ((N - 1 : ℕ) : ℝ) := by exact_mod_cast (by omega : n ≤ N - 1)
    have h0 : (0 : ℝ) ≤ (n : ℝ) := Nat.cast_nonneg n
    have e : (n : ℝ) * ((1 - -1) / ((N - 1 : ℕ) : ℝ)) = 2 * ((n : ℝ) / ((N - 1 : ℕ) : ℝ)) := by
      field_simp; ring
    have q0 : 0 ≤ (n : ℝ) / ((N - 1 : ℕ) : ℝ) := div_nonneg h0 hp.le
    have q1 : (n : ℝ) / ((N - 1 : ℕ) : ℝ) ≤ 1 := (div_le_one hp).mpr hle
    rw [e]
    constructor <;> linarith
  · rw [linspace_le_one _ _ _ _ (by omega)]
    simp

theorem bohman_le_one (x : ℝ) (h0 : 0 ≤ x) (h1 : x ≤ 1) :
    (1 - x) * Real.cos (Real.pi * x) + 1 / Real.pi * Real.sin (Real.pi * x) ≤ 1 := by
  have hpi := Real.pi_pos
  have e1 : (1 - x) * Real.cos (Real.pi * x) ≤ (1 - x) :=
    mul_le_of_le_one_right (by linarith) (Real.cos_le_one _)
  have e2 : Real.sin (Real.pi * x) ≤ Real.pi * x := Real.sin_le (by positivity)
  have e3 : 1 / Real.pi * Real.sin (Real.pi * x) ≤ 1 / Real.pi * (Real.pi * x) :=
    mul_le_mul_of_nonneg_left e2 (by positivity)
  have e4 : 1 / Real.pi * (Real.pi * x) = x := by field_simp
  linarith


theorem linspace_abs_le_gen (a : ℝ) (ha : 0 ≤ a) (N n : ℕ) (hn : n < N) : |linspace (-a) a N n| ≤ a := by
  by_cases h : 2 ≤ N
  · rw [linspace_real _ _ _ _ h, abs_le]
    have hp := cast_pred_pos N h
    have hle : (n : ℝ) ≤ ((N - 1 : ℕ) : ℝ) := by exact_mod_cast (by omega : n ≤ N - 1)
    have h0 : (0 : ℝ) ≤ (n : ℝ) := Nat.cast_nonneg n
    have e : (n : ℝ) * ((a - -a) / ((N - 1 : ℕ) : ℝ)) = 2 * a * ((n : ℝ) / ((N - 1 : ℕ) : ℝ)) := by
      field_simp; ring
    have q0 : 0 ≤ (n : ℝ) / ((N - 1 : ℕ) : ℝ) := div_nonneg h0 hp.le
    have q1 : (n : ℝ) / ((N - 1 : ℕ) : ℝ) ≤ 1 := (div_le_one hp).mpr hle
    rw [e]
    constructor <;> nlinarith
  · rw [linspace_le_one _ _ _ _ (by omega)]
    simp [abs_of_nonneg ha]

/-- the two Parzen cubics are `≤ 1` on the ranges where the code uses them -/
theorem parzen_outer_le (u : ℝ) (h0 : 1 / 4 ≤ u) (h1 : u ≤ 1) :
    2 * ((1 - u) * (1 - u) * (1 - u)) ≤ 1 := by
  have hv0 : 0 ≤ 1 - u := by linarith
  have hv1 : 1 - u ≤ 3 / 4 := by linarith
  have h2 : (1 - u) * (1 - u) ≤ 9 / 16 := by nlinarith
  have h3 : (1 - u) * (1 - u) * (1 - u) ≤ 27 / 64 := by nlinarith [mul_nonneg hv0 hv0]
  linarith

theorem parzen_inner_le (u : ℝ) (h1 : u ≤ 1) :
    1 - 6 * (u * u) + 6 * (u * u * u) ≤ 1 := by
  nlinarith [mul_nonneg (mul_self_nonneg u) (sub_nonneg.mpr h1)]

theorem tukey_shape_symm (N L : ℕ) (lobe : ℕ → ℝ) (h2L : 2 * L ≤ N) (n : ℕ) (hn : n < N) :
    (if n < L then lobe n else if N - L ≤ n then lobe (N - 1 - n) else 1)
      = (if N - 1 - n < L then lobe (N - 1 - n)
          else if N - L ≤ N - 1 - n then lobe (N - 1 - (N - 1 - n)) else 1) := by
  have e : N - 1 - (N - 1 - n) = n := by omega
  rw [e]
  split_ifs <;> first | rfl | omega

theorem filter_length_le (N K : ℕ) (p : ℕ → Bool) (h : ∀ n, n < N → p n = true → n < K) :
    ((List.range N).filter p).length ≤ K := by
  have hnd : ((List.range N).filter p).Nodup := List.Nodup.filter _ List.nodup_range
  rw [← List.toFinset_card_of_nodup hnd]
  calc ((List.range N).filter p).toFinset.card ≤ (Finset.range K).card := by
        apply Finset.card_le_card
        intro x hx
        rw [List.mem_toFinset, List.mem_filter, List.mem_range] at hx
        exact Finset.mem_range.mpr (h x hx.1 hx.2)
    _ = K := Finset.card_range K

theorem tukey_L_le (N : ℕ) (r : ℝ) (hr : r ≤ 1) (hN : 2 ≤ N) :
    2 * ((List.range N).filter (fun n => RealFn.lt (linspace (0 : ℝ) 1 N n) (r / two))).length ≤ N := by
  have := filter_length_le N (N / 2) (fun n => RealFn.lt (linspace (0 : ℝ) 1 N n) (r / two)) (by
    intro n _ hp
    rw [lt_real, decide_eq_true_eq, linspace_real _ _ _ _ hN, two_real] at hp
    have hpos := cast_pred_pos N hN
    have h1 : (n : ℝ) / ((N - 1 : ℕ) : ℝ) < 1 / 2 := by
      have : (0 : ℝ) + (n : ℝ) * ((1 - 0) / ((N - 1 : ℕ) : ℝ)) = (n : ℝ) / ((N - 1 : ℕ) : ℝ) := by ring
      rw [this] at hp
      linarith
    rw [div_lt_iff₀ hpos] at h1
    have h2 : (2 * n : ℝ) < ((N - 1 : ℕ) : ℝ) := by linarith
    have h3 : 2 * n < N - 1 := by exact_mod_cast h2
    omega)
  omega


theorem nth_poisson_nonneg (N : ℕ) (alpha : ℝ) (n : ℕ) : 0 ≤ nth (wPoisson N alpha) n := by
  unfold wPoisson
  rw [nth_vec]
  split_ifs
  · exact (Real.exp_pos _).le
  · exact le_rfl

theorem tukey_else_eq (N : ℕ) (r : ℝ) (h1 : N ≠ 1) :
    wTukey N r false false =
      vec N (fun n =>
        if n < ((List.range N).filter (fun n => RealFn.lt (linspace (0 : ℝ) 1 N n) (r / two))).length then
          dec 5 1 * (1 + RealFn.cos (two * RealFn.pi / r * (linspace (0 : ℝ) 1 N n - r / two)))
        else if N - ((List.range N).filter (fun n => RealFn.lt (linspace (0 : ℝ) 1 N n) (r / two))).length ≤ n then
          dec 5 1 * (1 + RealFn.cos (two * RealFn.pi / r * (linspace (0 : ℝ) 1 N (N - 1 - n) - r / two)))
        else 1) := by
  unfold wTukey
  rw [if_neg h1]
  simp only [Bool.false_eq_true, if_false]

theorem lobe_le_one (y : ℝ) : (dec 5 1 : ℝ) * (1 + RealFn.cos y) ≤ 1 := by
  have := Real.cos_le_one y
  rw [dec_real, cos_real]
  norm_num
  linarith


theorem taylor_cos_mirror (N n : ℕ) (hn : n < N) (m : ℕ) :
    RealFn.cos (two * RealFn.pi * (m : ℝ) * (((N - 1 - n : ℕ) : ℝ) - (N : ℝ) / two + dec 5 1) / (N : ℝ))
      = RealFn.cos (two * RealFn.pi * (m : ℝ) * ((n : ℝ) - (N : ℝ) / two + dec 5 1) / (N : ℝ)) := by
  rw [cos_real, cos_real, ← Real.cos_neg]
  congr 1
  have hc : ((N - 1 - n : ℕ) : ℝ) = (N : ℝ) - 1 - n := by
    rw [Nat.cast_sub (by omega), Nat.cast_sub (by omega)]; simp
  rw [hc, two_real, dec_real]
  ring

end SpecVerif.WinL
