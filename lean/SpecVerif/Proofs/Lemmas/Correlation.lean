import SpecVerif.Proofs.Lemmas.Basic
import SpecVerif.Model.Correlation
import Mathlib.Algebra.BigOperators.Field
import Mathlib.Analysis.Complex.Norm
import Mathlib.Data.Complex.BigOperators
/-
  Helper lemmas for C09: the correlation sums of `Model/Correlation.lean` as `Finset` sums, entry
  formulas for `correlation`, `xcorr`, `corrmtx`, and the re-indexing identity behind
  `XᴴX = N·Toeplitz(r_biased)` for the 'autocorrelation' data matrix.
-/
namespace SpecVerif
open Finset

/-- entry `(i,j)` of a matrix given as a list of rows (zero outside) -/
def mentry {K : Type} [OfNat K 0] (M : List (List K)) (i j : ℕ) : K := nth (M.getD i []) j

/-- the Hermitian Toeplitz matrix with first column `r`: `T[a][b] = r[a-b]` for `b ≤ a` and
`conj r[b-a]` above the diagonal -/
def hermToep {K : Type} [OfNat K 0] [Star K] (r : List K) (a b : ℕ) : K :=
  if b ≤ a then nth r (a - b) else star (nth r (b - a))

/-- the zero-padded, shifted data `x[i-j]` (`0` when `i < j`): entry of the autocorrelation data
matrix -/
def shiftEntry {K : Type} [OfNat K 0] (x : List K) (i j : ℕ) : K :=
  if j ≤ i then nth x (i - j) else 0

theorem getD_vec {α : Type} (n : ℕ) (f : ℕ → α) (i : ℕ) (d : α) :
    (vec n f).getD i d = if i < n then f i else d := by
  unfold vec
  by_cases h : i < n
  · simp [h, List.getD_eq_getElem?_getD]
  · simp [h, List.getD_eq_getElem?_getD]

section
variable {K : Type} [Field K] [StarRing K]

theorem corrRaw_eq (x y : List K) (n k : ℕ) :
    corrRaw x y n k = ∑ j ∈ range (n - k), nth x (j + k) * star (nth y j) := by
  simp [corrRaw]

theorem meanPow_eq (x : List K) (n : ℕ) :
    meanPow x n = (∑ j ∈ range n, nth x j * star (nth x j)) / (n : K) := by
  simp [meanPow]

theorem corrRaw_zero_eq (x : List K) (n : ℕ) :
    corrRaw x x n 0 = ∑ j ∈ range n, nth x j * star (nth x j) := by
  simp [corrRaw]

/-- the raw sum vanishes when the lag exceeds the data length (all products hit the zero padding) -/
theorem corrRaw_eq_zero_of_le (x y : List K) (n k : ℕ) (h : n ≤ k) : corrRaw x y n k = 0 := by
  rw [corrRaw_eq, Nat.sub_eq_zero_of_le h, Finset.sum_range_zero]

/-- entry `k ≤ maxlags` of `correlation` -/
theorem nth_correlation (x y : List K) (L : ℕ) (norm : Norm) (rms2 : K) (k : ℕ) (hk : k ≤ L) :
    nth (correlation x y L norm rms2) k =
      (match norm with
        | .biased => corrRaw x y (max x.length y.length) k / ((max x.length y.length : ℕ) : K)
        | .unbiased =>
            corrRaw x y (max x.length y.length) k / ((max x.length y.length - k : ℕ) : K)
        | .none => corrRaw x y (max x.length y.length) k
        | .coeff => if k = 0 then 1
            else corrRaw x y (max x.length y.length) k / rms2 / ((max x.length y.length : ℕ) : K)) := by
  unfold correlation
  simp only [nth_vec, Nat.lt_succ_of_le hk, if_true]
  cases norm <;> rfl

/-- entry `i ≤ 2L` of `xcorr` -/
theorem nth_xcorr (x y : List K) (L : ℕ) (norm : Norm) (rms2 : K) (i : ℕ) (hi : i ≤ 2 * L) :
    nth (xcorr x y L norm rms2) i =
      (match norm with
        | .biased =>
            (if L ≤ i then corrRaw x y x.length (if L ≤ i then i - L else L - i)
              else conj (corrRaw y x x.length (if L ≤ i then i - L else L - i))) / (x.length : K)
        | .unbiased =>
            (if L ≤ i then corrRaw x y x.length (if L ≤ i then i - L else L - i)
              else conj (corrRaw y x x.length (if L ≤ i then i - L else L - i)))
              / ((x.length - (if L ≤ i then i - L else L - i) : ℕ) : K)
        | .none =>
            (if L ≤ i then corrRaw x y x.length (if L ≤ i then i - L else L - i)
              else conj (corrRaw y x x.length (if L ≤ i then i - L else L - i)))
        | .coeff =>
            (if L ≤ i then corrRaw x y x.length (if L ≤ i then i - L else L - i)
              else conj (corrRaw y x x.length (if L ≤ i then i - L else L - i)))
              / rms2 / (x.length : K)) := by
  unfold xcorr
  simp only [nth_vec, Nat.lt_succ_of_le hi, if_true]
  cases norm <;> rfl

/-! ### `corrmtx` -/

omit [StarRing K] in
theorem mentry_vec_vec (R C : ℕ) (f : ℕ → ℕ → K) (i j : ℕ) (hi : i < R) (hj : j < C) :
    mentry (vec R (fun i => vec C (f i))) i j = f i j := by
  unfold mentry
  rw [getD_vec, if_pos hi, nth_vec, if_pos hj]

theorem mentry_autocorrelation (x : List K) (m i j : ℕ) (hi : i < x.length + m) (hj : j ≤ m) :
    mentry (corrmtx x m .autocorrelation) i j = shiftEntry x i j := by
  unfold corrmtx
  exact mentry_vec_vec _ _ _ i j hi (Nat.lt_succ_of_le hj)

theorem mentry_prewindowed (x : List K) (m i j : ℕ) (hi : i < x.length) (hj : j ≤ m) :
    mentry (corrmtx x m .prewindowed) i j = shiftEntry x i j := by
  unfold corrmtx
  exact mentry_vec_vec _ _ _ i j hi (Nat.lt_succ_of_le hj)

theorem mentry_postwindowed (x : List K) (m i j : ℕ) (hi : i < x.length) (hj : j ≤ m) :
    mentry (corrmtx x m .postwindowed) i j = nth x (i + m - j) := by
  unfold corrmtx
  simp only
  rw [mentry_vec_vec _ _ (fun i j => if j ≤ i + m then nth x (i + m - j) else (0 : K)) i j hi
    (Nat.lt_succ_of_le hj), if_pos (by omega)]

theorem mentry_covariance (x : List K) (m i j : ℕ) (hi : i < x.length - m) (hj : j ≤ m) :
    mentry (corrmtx x m .covariance) i j = nth x (i + m - j) := by
  unfold corrmtx
  simp only
  rw [mentry_vec_vec _ _ (fun i j => if j ≤ i + m then nth x (i + m - j) else (0 : K)) i j hi
    (Nat.lt_succ_of_le hj), if_pos (by omega)]

theorem mentry_modified_top (x : List K) (m i j : ℕ) (hi : i < x.length - m) (hj : j ≤ m) :
    mentry (corrmtx x m .modified) i j = nth x (i + m - j) := by
  unfold corrmtx mentry
  simp only
  rw [getD_vec, if_pos (by omega), if_pos hi, nth_vec, if_pos (Nat.lt_succ_of_le hj),
    if_pos (by omega)]

theorem mentry_modified_bottom (x : List K) (m i j : ℕ) (hi : i < x.length - m) (hj : j ≤ m) :
    mentry (corrmtx x m .modified) (x.length - m + i) j = star (nth x (i + j)) := by
  unfold corrmtx mentry
  simp only
  rw [getD_vec, if_pos (by omega), if_neg (by omega), nth_vec, if_pos (Nat.lt_succ_of_le hj),
    conj_eq_star, Nat.add_sub_cancel_left]

/-! ### the Gram identity -/

/-- re-indexing: for `b ≤ a ≤ m`, `Σ_{i<N+m} conj(x[i-a])·x[i-b] = Σ_{n<N-(a-b)} x[n+(a-b)]·conj x[n]` -/
theorem gram_shift_ge (x : List K) (m a b : ℕ) (ha : a ≤ m) (hba : b ≤ a) :
    ∑ i ∈ range (x.length + m), star (shiftEntry x i a) * shiftEntry x i b
      = corrRaw x x x.length (a - b) := by
  have hsplit : x.length + m = a + (x.length + m - a) := by omega
  rw [hsplit, Finset.sum_range_add]
  have h0 : ∑ i ∈ range a, star (shiftEntry x i a) * shiftEntry x i b = 0 := by
    apply Finset.sum_eq_zero
    intro i hi
    have : ¬ a ≤ i := by have := mem_range.mp hi; omega
    simp [shiftEntry, this]
  rw [h0, zero_add, corrRaw_eq]
  symm
  apply Finset.sum_subset_zero_on_sdiff
  · intro j hj
    have := mem_range.mp hj
    exact mem_range.mpr (by omega)
  · intro j hj
    rw [mem_sdiff, mem_range, mem_range] at hj
    have h1 : x.length ≤ a + j - b := by omega
    have hb' : b ≤ a + j := by omega
    simp [shiftEntry, hb', nth_of_ge x _ h1]
  · intro j _
    have hb' : b ≤ a + j := by omega
    have e1 : a + j - a = j := by omega
    have e2 : a + j - b = j + (a - b) := by omega
    simp only [shiftEntry, Nat.le_add_right, if_true, hb', e1, e2]
    ring

/-- `star` of a raw autocorrelation-type sum swaps the roles of the two sequences -/
theorem gram_shift_star (x : List K) (n a b : ℕ) :
    star (∑ i ∈ range n, star (shiftEntry x i a) * shiftEntry x i b)
      = ∑ i ∈ range n, star (shiftEntry x i b) * shiftEntry x i a := by
  rw [star_sum]
  apply Finset.sum_congr rfl
  intro i _
  rw [star_mul', star_star, mul_comm]

/-- the Gram matrix of the shifted data is the Hermitian Toeplitz matrix of the raw lag sums -/
theorem gram_shift (x : List K) (m a b : ℕ) (ha : a ≤ m) (hb : b ≤ m) :
    ∑ i ∈ range (x.length + m), star (shiftEntry x i a) * shiftEntry x i b
      = if b ≤ a then corrRaw x x x.length (a - b) else star (corrRaw x x x.length (b - a)) := by
  by_cases h : b ≤ a
  · rw [if_pos h, gram_shift_ge x m a b ha h]
  · rw [if_neg h, ← gram_shift_ge x m b a hb (by omega), gram_shift_star]

/-- quadratic form of a Gram matrix: `Σ_a Σ_b conj(v_a)·(Σ_i conj(X_ia) X_ib)·v_b = Σ_i |Σ_b X_ib v_b|²` -/
theorem quad_form_gram (R C : ℕ) (X : ℕ → ℕ → K) (v : ℕ → K) :
    ∑ a ∈ range C, ∑ b ∈ range C, star (v a) * (∑ i ∈ range R, star (X i a) * X i b) * v b
      = ∑ i ∈ range R, star (∑ b ∈ range C, X i b * v b) * (∑ b ∈ range C, X i b * v b) := by
  have hR : ∀ i ∈ range R,
      star (∑ b ∈ range C, X i b * v b) * (∑ b ∈ range C, X i b * v b)
        = ∑ a ∈ range C, ∑ b ∈ range C, star (v a) * (star (X i a) * X i b) * v b := by
    intro i _
    rw [star_sum, Finset.sum_mul_sum]
    apply Finset.sum_congr rfl
    intro a _
    apply Finset.sum_congr rfl
    intro b _
    rw [star_mul']
    ring
  rw [Finset.sum_congr rfl hR]
  symm
  rw [Finset.sum_comm]
  apply Finset.sum_congr rfl
  intro a _
  rw [Finset.sum_comm]
  apply Finset.sum_congr rfl
  intro b _
  rw [Finset.mul_sum, Finset.sum_mul]

end

/-! ### complex data: Cauchy–Schwarz-type bound and positivity -/
section Cplx

/-- a shifted partial sum of non-negative terms is at most the full sum -/
theorem sum_shift_le (g : ℕ → ℝ) (hg : ∀ j, 0 ≤ g j) (n k : ℕ) :
    ∑ j ∈ range (n - k), g (j + k) ≤ ∑ j ∈ range n, g j := by
  have h : ∑ j ∈ range (n - k), g (j + k) = ∑ j ∈ Ico k n, g j := by
    rw [Finset.sum_Ico_eq_sum_range]
    exact Finset.sum_congr rfl (fun j _ => by rw [add_comm])
  rw [h]
  apply Finset.sum_le_sum_of_subset_of_nonneg
  · intro j hj
    exact mem_range.mpr (mem_Ico.mp hj).2
  · intro j _ _
    exact hg j

/-- lag 0 of the raw autocorrelation is the (real) energy `Σ|x_j|²` -/
theorem corrRaw_zero_complex (x : List ℂ) (n : ℕ) :
    corrRaw x x n 0 = ((∑ j ∈ range n, ‖nth x j‖ ^ 2 : ℝ) : ℂ) := by
  rw [corrRaw_zero_eq, Complex.ofReal_sum]
  apply Finset.sum_congr rfl
  intro j _
  rw [Complex.star_def, Complex.mul_conj, Complex.normSq_eq_norm_sq]

/-- `|Σ_{j<n-k} x[j+k]·conj x[j]| ≤ Σ_{j<n} |x[j]|²` (termwise `2ab ≤ a²+b²`) -/
theorem norm_corrRaw_le (x : List ℂ) (n k : ℕ) :
    ‖corrRaw x x n k‖ ≤ ∑ j ∈ range n, ‖nth x j‖ ^ 2 := by
  have hg : ∀ j, 0 ≤ ‖nth x j‖ ^ 2 := fun j => sq_nonneg _
  have h1 : ‖corrRaw x x n k‖ ≤ ∑ j ∈ range (n - k), ‖nth x (j + k)‖ * ‖nth x j‖ := by
    rw [corrRaw_eq]
    refine (norm_sum_le _ _).trans (le_of_eq ?_)
    apply Finset.sum_congr rfl
    intro j _
    rw [Complex.norm_mul, Complex.star_def, Complex.norm_conj]
  have h2 : ∑ j ∈ range (n - k), ‖nth x (j + k)‖ * ‖nth x j‖
      ≤ ∑ j ∈ range (n - k), (‖nth x (j + k)‖ ^ 2 + ‖nth x j‖ ^ 2) / 2 := by
    apply Finset.sum_le_sum
    intro j _
    have := two_mul_le_add_sq ‖nth x (j + k)‖ ‖nth x j‖
    linarith
  have h3 : ∑ j ∈ range (n - k), ‖nth x (j + k)‖ ^ 2 ≤ ∑ j ∈ range n, ‖nth x j‖ ^ 2 :=
    sum_shift_le (fun j => ‖nth x j‖ ^ 2) hg n k
  have h4 : ∑ j ∈ range (n - k), ‖nth x j‖ ^ 2 ≤ ∑ j ∈ range n, ‖nth x j‖ ^ 2 := by
    apply Finset.sum_le_sum_of_subset_of_nonneg
    · intro j hj
      have := mem_range.mp hj
      exact mem_range.mpr (by omega)
    · intro j _ _
      exact hg j
  have h5 : ∑ j ∈ range (n - k), (‖nth x (j + k)‖ ^ 2 + ‖nth x j‖ ^ 2) / 2
      = (∑ j ∈ range (n - k), ‖nth x (j + k)‖ ^ 2 + ∑ j ∈ range (n - k), ‖nth x j‖ ^ 2) / 2 := by
    rw [← Finset.sum_add_distrib, Finset.sum_div]
  linarith

/-- `Σ_i conj(S_i)·S_i` is the non-negative real `Σ_i |S_i|²` -/
theorem sum_star_mul_self_complex (R : ℕ) (S : ℕ → ℂ) :
    ∑ i ∈ range R, star (S i) * S i = ((∑ i ∈ range R, ‖S i‖ ^ 2 : ℝ) : ℂ) := by
  rw [Complex.ofReal_sum]
  apply Finset.sum_congr rfl
  intro i _
  rw [Complex.star_def, ← Complex.normSq_eq_conj_mul_self, Complex.normSq_eq_norm_sq]

end Cplx
end SpecVerif
