import SpecVerif.Proofs.Lemmas.Basic
import SpecVerif.Proofs.Lemmas.DFT
import SpecVerif.Proofs.Lemmas.WienerKhinchin
import SpecVerif.Proofs.Lemmas.Arma
import SpecVerif.Proofs.Lemmas.Burg
import SpecVerif.Model.Minvar
import Mathlib.Algebra.BigOperators.Intervals
import Mathlib.Algebra.BigOperators.Ring.Finset
import Mathlib.Algebra.Star.BigOperators
import Mathlib.Algebra.Field.Basic
import Mathlib.Tactic.Ring
import Mathlib.Tactic.Abel
/-
  Helper lemmas for C16 (`SpecVerif/Model/Minvar.lean`): the Gohberg–Semencul matrix
  `G = L₁L₁ᴴ − L₂L₂ᴴ` of a polynomial `a`, its diagonal sums (Musicus' ψ sequence times `P`), the
  quadratic form `e(z)ᴴ M e(z)` of a Hermitian matrix summed by diagonals, and the DFT of ψ written as
  `ψ_0 + Σ_K (ψ_K ω^{Kk} + conj ψ_K ω^{-Kk})`.
-/
namespace SpecVerif.MinvarL
open Finset SpecVerif SpecVerif.ArmaL

variable {K : Type} [Field K] [StarRing K]

/-! ### the Gohberg–Semencul matrix -/

/-- first column `[0, conj a_{m-1}, …, conj a_1]` of the lower-triangular Toeplitz matrix `L₂`
    (`a = [a_0, …, a_{m-1}]`) -/
def gsB (m : ℕ) (a : ℕ → K) (s : ℕ) : K := if s = 0 then 0 else star (a (m - s))

/-- entry `(i, j)` of `L₁L₁ᴴ − L₂L₂ᴴ`, `L₁ = (a_{i-j})_{i ≥ j}`, `L₂ = (b_{i-j})_{i ≥ j}`, `b = gsB m a`:
    `Σ_{t ≤ min i j} (a_{i-t}·conj a_{j-t} − b_{i-t}·conj b_{j-t})` -/
def gsG (m : ℕ) (a : ℕ → K) (i j : ℕ) : K :=
  ∑ t ∈ range (min i j + 1),
    (a (i - t) * star (a (j - t)) - gsB m a (i - t) * star (gsB m a (j - t)))

/-- the integer weight `m-K-2i` of the ψ sequence, written with natural-number casts as in the model -/
def psiWeight (n i : ℕ) : K :=
  if 2 * i ≤ n then (((n - 2 * i : ℕ) : K)) else -(((2 * i - n : ℕ) : K))

/-- the `K`-th lower diagonal sum `Σ_{j<m-K} M_{j+K,j}` of an `m × m` matrix -/
def diagSum (m : ℕ) (M : ℕ → ℕ → K) (k : ℕ) : K := ∑ j ∈ range (m - k), M (j + k) j

/-- the quadratic form `eᴴ M e = Σ_{i<m} Σ_{j<m} conj(e_i)·M_{ij}·e_j` -/
def quadForm (m : ℕ) (M : ℕ → ℕ → K) (e : ℕ → K) : K :=
  ∑ i ∈ range m, ∑ j ∈ range m, star (e i) * M i j * e j

/-- entry `(i, t)` of the lower-triangular Toeplitz matrix with first column `c` -/
def lowerToeplitz (c : ℕ → K) (i t : ℕ) : K := if t ≤ i then c (i - t) else 0

/-- `(L Lᴴ)_{ij} = Σ_{t ≤ min i j} c_{i-t}·conj c_{j-t}` for a lower-triangular Toeplitz `L` -/
theorem lowerToeplitz_mul_adjoint (m : ℕ) (c : ℕ → K) (i j : ℕ) (hi : i < m) (_hj : j < m) :
    ∑ t ∈ range m, lowerToeplitz c i t * star (lowerToeplitz c j t)
      = ∑ t ∈ range (min i j + 1), c (i - t) * star (c (j - t)) := by
  symm
  have h1 : ∀ t ∈ range (min i j + 1), c (i - t) * star (c (j - t))
      = lowerToeplitz c i t * star (lowerToeplitz c j t) := by
    intro t ht
    have ht' := mem_range.mp ht
    unfold lowerToeplitz
    rw [if_pos (by omega), if_pos (by omega)]
  rw [Finset.sum_congr rfl h1]
  apply Finset.sum_subset
  · intro t ht
    have ht' := mem_range.mp ht
    exact mem_range.mpr (by omega)
  · intro t _ ht
    have ht' : ¬ t < min i j + 1 := fun h => ht (mem_range.mpr h)
    unfold lowerToeplitz
    by_cases h : t ≤ i
    · rw [if_neg (by omega : ¬ t ≤ j), star_zero, mul_zero]
    · rw [if_neg h, zero_mul]

/-- `gsG` is `L₁L₁ᴴ − L₂L₂ᴴ` as a difference of matrix products -/
theorem gsG_eq_products (m : ℕ) (a : ℕ → K) (i j : ℕ) (hi : i < m) (hj : j < m) :
    gsG m a i j
      = ∑ t ∈ range m, lowerToeplitz a i t * star (lowerToeplitz a j t)
        - ∑ t ∈ range m, lowerToeplitz (gsB m a) i t * star (lowerToeplitz (gsB m a) j t) := by
  rw [lowerToeplitz_mul_adjoint m a i j hi hj, lowerToeplitz_mul_adjoint m (gsB m a) i j hi hj,
    ← Finset.sum_sub_distrib]
  rfl

omit [StarRing K] in
theorem psiWeight_eq (n i : ℕ) (hi : i ≤ n) : (psiWeight n i : K) = ((n - i : ℕ) : K) - (i : K) := by
  unfold psiWeight
  rw [Nat.cast_sub hi]
  split_ifs with h
  · rw [Nat.cast_sub h]; push_cast; ring
  · rw [Nat.cast_sub (by omega : n ≤ 2 * i)]; push_cast; ring

/-- `G` is Hermitian -/
theorem gsG_hermitian (m : ℕ) (a : ℕ → K) (i j : ℕ) : gsG m a j i = star (gsG m a i j) := by
  unfold gsG
  rw [star_sum, Nat.min_comm]
  apply Finset.sum_congr rfl
  intro t _
  rw [star_sub, star_mul', star_mul', star_star, star_star]
  ring

omit [StarRing K] in
/-- a triangle summed by columns: `Σ_{j<n} Σ_{s≤j} f s = Σ_{s<n} (n-s)·f s` -/
theorem sum_triangle_const (n : ℕ) (f : ℕ → K) :
    ∑ j ∈ range n, ∑ s ∈ range (j + 1), f s = ∑ s ∈ range n, ((n - s : ℕ) : K) * f s := by
  induction n with
  | zero => simp
  | succ n ih =>
    rw [Finset.sum_range_succ, ih, Finset.sum_range_succ (fun s => ((n + 1 - s : ℕ) : K) * f s),
      Finset.sum_range_succ f]
    have h : ∀ s ∈ range n, ((n + 1 - s : ℕ) : K) * f s = ((n - s : ℕ) : K) * f s + f s := by
      intro s hs
      have hs' := mem_range.mp hs
      have e : n + 1 - s = (n - s) + 1 := by omega
      rw [e]; push_cast; ring
    rw [Finset.sum_congr rfl h, Finset.sum_add_distrib]
    have e : n + 1 - n = 1 := by omega
    rw [e]; push_cast; ring

/-- along the `k`-th lower diagonal the entry of `G` is a partial sum of a fixed sequence -/
theorem gsG_diag (m : ℕ) (a : ℕ → K) (j k : ℕ) :
    gsG m a (j + k) j
      = ∑ s ∈ range (j + 1),
          (a (s + k) * star (a s) - gsB m a (s + k) * star (gsB m a s)) := by
  unfold gsG
  have hmin : min (j + k) j = j := by omega
  rw [hmin, ← Finset.sum_range_reflect]
  apply Finset.sum_congr rfl
  intro s hs
  have hs' := mem_range.mp hs
  have e1 : j + k - (j + 1 - 1 - s) = s + k := by omega
  have e2 : j - (j + 1 - 1 - s) = s := by omega
  rw [e1, e2]

/-- the `L₂L₂ᴴ` part of a diagonal sum, re-indexed by `i = n - s` -/
theorem sum_gsB_reflect (m : ℕ) (a : ℕ → K) (k : ℕ) (hk : k < m) :
    ∑ s ∈ range (m - k), ((m - k - s : ℕ) : K) * (gsB m a (s + k) * star (gsB m a s))
      = ∑ i ∈ range (m - k), (i : K) * (star (a i) * a (i + k)) := by
  obtain ⟨n, hn⟩ : ∃ n, m - k = n + 1 := ⟨m - k - 1, by omega⟩
  rw [hn, Finset.sum_range_succ', Finset.sum_range_succ' (fun i => (i : K) * (star (a i) * a (i + k)))]
  have z1 : gsB m a 0 = 0 := by unfold gsB; rw [if_pos rfl]
  rw [z1, star_zero, mul_zero, mul_zero, add_zero, Nat.cast_zero, zero_mul, add_zero,
    ← Finset.sum_range_reflect]
  apply Finset.sum_congr rfl
  intro s hs
  have hs' := mem_range.mp hs
  have b1 : gsB m a (n - 1 - s + 1 + k) = star (a (s + 1)) := by
    unfold gsB
    rw [if_neg (by omega)]
    congr 2; omega
  have b2 : gsB m a (n - 1 - s + 1) = star (a (s + 1 + k)) := by
    unfold gsB
    rw [if_neg (by omega)]
    congr 2; omega
  have e : n + 1 - (n - 1 - s + 1) = s + 1 := by omega
  rw [b1, b2, star_star, e]

/-- **diagonal sums of the Gohberg–Semencul matrix**: the `k`-th lower diagonal of `L₁L₁ᴴ − L₂L₂ᴴ` sums
    to `Σ_{i<m-k} (m-k-2i)·conj(a_i)·a_{i+k}` — the numerator of Musicus' `ψ_k`.  (Position `i` of the
    diagonal is counted `m-k-i` times by `L₁L₁ᴴ` and `i` times by `L₂L₂ᴴ`.) -/
theorem diagSum_gsG (m : ℕ) (a : ℕ → K) (k : ℕ) (hk : k < m) :
    diagSum m (gsG m a) k
      = ∑ i ∈ range (m - k), psiWeight (m - k) i * star (a i) * a (i + k) := by
  unfold diagSum
  simp only [gsG_diag]
  rw [sum_triangle_const]
  simp only [mul_sub]
  rw [Finset.sum_sub_distrib, sum_gsB_reflect m a k hk, ← Finset.sum_sub_distrib]
  apply Finset.sum_congr rfl
  intro i hi
  have hi' := mem_range.mp hi
  rw [psiWeight_eq (m - k) i (by omega)]
  ring

/-- for a list `a` of length `m` the diagonal sum is the model's lag times `P` -/
theorem diagSum_gsG_eq_lag (a : List K) {P : K} (hP : P ≠ 0) (k : ℕ) (hk : k < a.length) :
    diagSum a.length (gsG a.length (nth a)) k = minvarLag a P k * P := by
  rw [diagSum_gsG a.length (nth a) k hk]
  unfold minvarLag psiWeight
  rw [div_mul_cancel₀ _ hP]

/-! ### the quadratic form by diagonals -/

/-- **`e(z)ᴴ M e(z)` by diagonals**: for a Hermitian `M` and `z` on the unit circle (`e_i = z^i`),
    `Σ_i Σ_j conj(z^i)·M_{ij}·z^j = d_0 + Σ_{K=1}^{m-1} (d_K·z^{-K} + conj(d_K)·z^K)`, `d_K` the `K`-th lower
    diagonal sum. -/
theorem quadForm_pow_by_diag (m : ℕ) (M : ℕ → ℕ → K) (hM : ∀ i j, i < m → j < m → M j i = star (M i j))
    (z : K) (hz : z ≠ 0) (hstar : star z = z⁻¹) :
    quadForm m M (fun i => z ^ i)
      = diagSum m M 0
        + ∑ k ∈ Ico 1 m, (diagSum m M k * z⁻¹ ^ k + star (diagSum m M k) * z ^ k) := by
  unfold quadForm
  rw [sum_square_by_diag m (fun i j => star (z ^ i) * M i j * z ^ j)]
  congr 1
  · unfold diagSum
    rw [Nat.sub_zero]
    apply Finset.sum_congr rfl
    intro i _
    have : z⁻¹ ^ i * z ^ i = 1 := by rw [← mul_pow, inv_mul_cancel₀ hz, one_pow]
    rw [Nat.add_zero, star_pow, hstar]
    calc z⁻¹ ^ i * M i i * z ^ i = M i i * (z⁻¹ ^ i * z ^ i) := by ring
      _ = M i i := by rw [this, mul_one]
  · apply Finset.sum_congr rfl
    intro k hk
    have hk' := Finset.mem_Ico.mp hk
    unfold diagSum
    rw [star_sum, Finset.sum_mul, Finset.sum_mul, ← Finset.sum_add_distrib]
    apply Finset.sum_congr rfl
    intro n hn
    have hn' := mem_range.mp hn
    have h1 : z⁻¹ ^ (n + k) * z ^ n = z⁻¹ ^ k := by
      rw [pow_add, mul_comm (z⁻¹ ^ n), mul_assoc, ← mul_pow, inv_mul_cancel₀ hz, one_pow, mul_one]
    have h2 : z⁻¹ ^ n * z ^ (n + k) = z ^ k := by
      rw [pow_add, ← mul_assoc, ← mul_pow, inv_mul_cancel₀ hz, one_pow, one_mul]
    rw [hM (n + k) n (by omega) (by omega), star_pow, star_pow, hstar]
    calc z⁻¹ ^ (n + k) * M (n + k) n * z ^ n + z⁻¹ ^ n * star (M (n + k) n) * z ^ (n + k)
        = M (n + k) n * (z⁻¹ ^ (n + k) * z ^ n) + star (M (n + k) n) * (z⁻¹ ^ n * z ^ (n + k)) := by
          ring
      _ = M (n + k) n * z⁻¹ ^ k + star (M (n + k) n) * z ^ k := by rw [h1, h2]

/-- the quadratic form is linear in the matrix: dividing every entry by `P` divides the form -/
theorem quadForm_div (m : ℕ) (M : ℕ → ℕ → K) (P : K) (e : ℕ → K) :
    quadForm m (fun i j => M i j / P) e = quadForm m M e / P := by
  unfold quadForm
  rw [Finset.sum_div]
  apply Finset.sum_congr rfl
  intro i _
  rw [Finset.sum_div]
  apply Finset.sum_congr rfl
  intro j _
  ring

/-- the quadratic form only looks at the entries `i, j < m` -/
theorem quadForm_congr (m : ℕ) {M N : ℕ → ℕ → K} (h : ∀ i j, i < m → j < m → M i j = N i j)
    (e : ℕ → K) : quadForm m M e = quadForm m N e := by
  unfold quadForm
  apply Finset.sum_congr rfl
  intro i hi
  apply Finset.sum_congr rfl
  intro j hj
  rw [h i j (mem_range.mp hi) (mem_range.mp hj)]

/-! ### the DFT of ψ -/

/-- **DFT of ψ without wrap-around**: for `1 ≤ m = len a` and `2m ≤ NFFT+1`,
    `Σ_j ψ_j ω^{jk} = ψ_0 + Σ_{K=1}^{m-1} (ψ_K·ω^{Kk} + conj(ψ_K)·ω^{-Kk})` -/
theorem dft_minvarPsi {ω : K} {n : ℕ} (hω : ω ^ n = 1) (a : List K) (P : K) (ha : 0 < a.length)
    (hno : 2 * a.length ≤ n + 1) (k : ℕ) :
    ∑ j ∈ range n, nth (minvarPsi a P n) j * ω ^ (j * k)
      = minvarLag a P 0 + ∑ j ∈ Ico 1 a.length,
          (minvarLag a P j * ω ^ (j * k) + star (minvarLag a P j) * ω⁻¹ ^ (j * k)) := by
  have hn : 0 < n := by omega
  have hω0 : ω ≠ 0 := by
    intro h; rw [h, zero_pow hn.ne'] at hω; exact zero_ne_one hω
  set m := a.length with hm
  set s := minvarPsi a P n with hs
  rw [Finset.range_eq_Ico,
    ← Finset.sum_Ico_consecutive _ (Nat.zero_le 1) (by omega : 1 ≤ n),
    ← Finset.sum_Ico_consecutive _ (by omega : 1 ≤ m) (by omega : m ≤ n),
    ← Finset.sum_Ico_consecutive _ (by omega : m ≤ n + 1 - m) (by omega : n + 1 - m ≤ n)]
  have e0 : ∑ i ∈ Ico 0 1, nth s i * ω ^ (i * k) = minvarLag a P 0 := by
    rw [Finset.sum_Ico_succ_top (Nat.zero_le 0), Finset.Ico_self, Finset.sum_empty, zero_add,
      hs, nth_minvarPsi_low a P ha hn, Nat.zero_mul, pow_zero, mul_one]
  have e1 : ∑ i ∈ Ico 1 m, nth s i * ω ^ (i * k)
      = ∑ j ∈ Ico 1 m, minvarLag a P j * ω ^ (j * k) := by
    apply Finset.sum_congr rfl
    intro j hj
    have hj' := Finset.mem_Ico.mp hj
    rw [hs, nth_minvarPsi_low a P hj'.2 (by omega)]
  have e2 : ∑ i ∈ Ico m (n + 1 - m), nth s i * ω ^ (i * k) = 0 := by
    apply Finset.sum_eq_zero
    intro i hi
    have hi' := Finset.mem_Ico.mp hi
    rw [hs, nth_minvarPsi_mid a P hi'.1 (by omega), zero_mul]
  have e3 : ∑ i ∈ Ico (n + 1 - m) n, nth s i * ω ^ (i * k)
      = ∑ j ∈ Ico 1 m, star (minvarLag a P j) * ω⁻¹ ^ (j * k) := by
    have hr := Finset.sum_Ico_reflect (fun i => nth s i * ω ^ (i * k)) 1
      (by omega : m ≤ n + 1)
    have hb : n + 1 - 1 = n := by omega
    rw [hb] at hr
    rw [← hr]
    apply Finset.sum_congr rfl
    intro j hj
    have hj' := Finset.mem_Ico.mp hj
    rw [hs, nth_minvarPsi_high a P hj'.1 hj'.2 (by omega),
      pow_sub_mul_eq_inv_pow hω0 hω (by omega : j ≤ n)]
  rw [e0, e1, e2, e3, zero_add, ← Finset.sum_add_distrib]

/-- **DFT(ψ) is the Gohberg–Semencul quadratic form**: for `m = len a ≥ 1`, `2m ≤ NFFT+1`, `P ≠ 0`
    self-adjoint, `Σ_j ψ_j ω^{jk} = e(k)ᴴ (G/P) e(k)` with `G = L₁L₁ᴴ − L₂L₂ᴴ`, `e(k)_i = ω^{-ik}` -/
theorem dft_minvarPsi_eq_quadForm {ω : K} {n : ℕ} (hω : ω ^ n = 1) (hstar : star ω = ω⁻¹)
    (a : List K) {P : K} (hP : star P = P) (hP0 : P ≠ 0) (ha : 0 < a.length)
    (hno : 2 * a.length ≤ n + 1) (k : ℕ) :
    ∑ j ∈ range n, nth (minvarPsi a P n) j * ω ^ (j * k)
      = quadForm a.length (gsG a.length (nth a)) (fun i => (ω⁻¹ ^ k) ^ i) / P := by
  have hn : 0 < n := by omega
  have hω0 : ω ≠ 0 := by
    intro h; rw [h, zero_pow hn.ne'] at hω; exact zero_ne_one hω
  have hz0 : ω⁻¹ ^ k ≠ 0 := pow_ne_zero _ (inv_ne_zero hω0)
  have hzs : star (ω⁻¹ ^ k) = (ω⁻¹ ^ k)⁻¹ := by
    rw [star_pow, star_inv₀, hstar, inv_pow, inv_pow, inv_inv]
  rw [dft_minvarPsi hω a P ha hno k,
    quadForm_pow_by_diag a.length (gsG a.length (nth a))
      (fun i j _ _ => gsG_hermitian a.length (nth a) i j) (ω⁻¹ ^ k) hz0 hzs,
    add_div, Finset.sum_div, diagSum_gsG_eq_lag a hP0 0 ha, mul_div_assoc, div_self hP0, mul_one]
  congr 1
  apply Finset.sum_congr rfl
  intro j hj
  have hj' := Finset.mem_Ico.mp hj
  have e1 : (ω⁻¹ ^ k)⁻¹ ^ j = ω ^ (j * k) := by
    rw [← inv_pow, inv_inv, ← pow_mul, mul_comm]
  have e2 : (ω⁻¹ ^ k) ^ j = ω⁻¹ ^ (j * k) := by rw [← pow_mul, mul_comm]
  rw [diagSum_gsG_eq_lag a hP0 j hj'.2, star_mul', hP, e1, e2, add_div]
  congr 1
  · rw [mul_right_comm, mul_div_assoc, div_self hP0, mul_one]
  · rw [mul_right_comm, mul_div_assoc, div_self hP0, mul_one]

/-! ### `minvar` returns the Burg model -/

theorem one_cons_length_burg (x : List K) (m : ℕ) (hm : 1 ≤ m) :
    ((1 : K) :: (burgRun x (m - 1)).a).length = m := by
  rw [List.length_cons, BurgL.burgRun_a_length]; omega

end SpecVerif.MinvarL
