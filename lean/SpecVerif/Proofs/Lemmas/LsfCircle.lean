import SpecVerif.Proofs.Lemmas.SchurCohn
import SpecVerif.Proofs.Lemmas.LpcLsf
import Mathlib.Topology.Algebra.Monoid
import Mathlib.Analysis.SpecialFunctions.Complex.Arg
import Mathlib.Tactic.LinearCombination
/-
  The zeros of the line-spectral-frequency polynomials lie on the unit circle.

  Notation of `Lemmas/SchurCohn.lean`: for a coefficient list `c = [c_1..c_m]` (no leading 1)
    `polyA c z = z^m + Σ c_j z^{m-1-j}`,  `polyB c z = 1 + Σ conj(c_j) z^{j+1}`,
    `polyR c z = 1 + Σ c_j z^{j+1}` (`= polyB` for self-conjugate, i.e. real, coefficients).
  With `a = 1 :: c` the two polynomials of `poly2lsf` (`lsfSplit a = (P1, Q1)`, highest power first) are
    `P1(z) = z·A(z) − R(z)`,   `Q1(z) = z·A(z) + R(z)`            (`polyEval_lsfSplit_cons`).
  Step-up: `A' = zA + kB`, `B' = B + conj(k) z A`, `|A'|² − |B'|² = (1−|k|²)(|z|²|A|² − |B|²)`
  (`SchurL.norm_sq_stepup`).  For all `|k_i| < 1`:
    * `|z| ≥ 1`:  `|B| ≤ |A|`, `A ≠ 0`          (`SchurL.schur_invariant_strict`),
    * `|z| ≤ 1`:  `|A| ≤ |B|`, `B ≠ 0`          (`schur_mirror_invariant`, here),
    * strict versions for at least one stage and `|z| > 1` resp. `|z| < 1`,
  hence `|zA| > |B|` outside and `|zA| < |B|` inside the circle (the factor `z` gives strictness even
  for order 0), so `zA + cB ≠ 0` for every unimodular `c` and every `z` with `|z| ≠ 1` (`z = 0`
  included).  No complex analysis, only norms.

  Simplicity of the zeros (`cd_kernel`, `cd_kernel_at_zero`, `no_double_zero`): the polarised step-up
  identity gives the Christoffel–Darboux kernel
    `B(z)·conj B(w) − z·conj(w)·A(z)·conj A(w) = (1 − z·conj w)·S(z,w)`,  `S(w,w) ≥ |A(w)|²`,
  so at a zero `z0` of `zA + cB`:  `−conj(z0 A(z0))·(zA + cB)(z) = (1 − z conj z0)·S(z,z0)`; a factor
  `(z − z0)²·H(z)` with continuous `H` would force `S(z0,z0) = 0` (the only topology used: a continuous
  function vanishing off a point vanishes at it).  `lsf_computed_roots`: consequences for root lists that
  multiply back to the deflated polynomials; `unit_arg`, `pos_angle_count`: angles over `ℂ`.
  Interlacing of the zeros of `P1` and `Q1`: `Lemmas/LsfInterlace.lean`.
-/
namespace SpecVerif.LsfCircleL
open Finset SpecVerif SpecVerif.SchurL SpecVerif.LpcL

/-! ### the mirror Schur–Cohn invariant (inside the closed unit disc) and the strict versions -/

section RC
variable {F : Type} [RCLike F]

/-- mirror of `SchurL.stepup_norm_le`: `|A| ≤ |B|` is preserved by a step-up with `|k| ≤ 1` at a point
with `|z| ≤ 1` -/
theorem stepup_norm_le_mirror (X Y z k : F) (hk : ‖k‖ ≤ 1) (hz : ‖z‖ ≤ 1) (hXY : ‖X‖ ≤ ‖Y‖) :
    ‖z * X + k * Y‖ ≤ ‖Y + star k * z * X‖ := by
  have hid := norm_sq_stepup X Y z k
  have h1 : 0 ≤ 1 - ‖k‖ ^ 2 := by
    have := norm_nonneg k
    nlinarith
  have h2 : ‖z‖ ^ 2 * ‖X‖ ^ 2 - ‖Y‖ ^ 2 ≤ 0 := by
    have hX := norm_nonneg X
    have hXY2 : ‖X‖ ^ 2 ≤ ‖Y‖ ^ 2 := pow_le_pow_left₀ hX hXY 2
    have hz2 : ‖z‖ ^ 2 ≤ 1 := pow_le_one₀ (norm_nonneg z) hz
    nlinarith [sq_nonneg ‖X‖]
  have h3 : ‖z * X + k * Y‖ ^ 2 ≤ ‖Y + star k * z * X‖ ^ 2 := by
    have := mul_nonpos_of_nonneg_of_nonpos h1 h2
    linarith
  exact (pow_le_pow_iff_left₀ (norm_nonneg _) (norm_nonneg _) two_ne_zero).mp h3

/-- `|k| < 1`, `|z| ≤ 1`, `|X| ≤ |Y|`, `Y ≠ 0` ⇒ `Y + conj(k) z X ≠ 0` -/
theorem stepup_B_ne_zero (X Y z k : F) (hk : ‖k‖ < 1) (hz : ‖z‖ ≤ 1) (hXY : ‖X‖ ≤ ‖Y‖)
    (hY : Y ≠ 0) : Y + star k * z * X ≠ 0 := by
  intro h0
  have hYpos : 0 < ‖Y‖ := norm_pos_iff.mpr hY
  have heq : Y = -(star k * z * X) := eq_neg_of_add_eq_zero_left h0
  have hn : ‖Y‖ = ‖k‖ * ‖z‖ * ‖X‖ := by
    conv_lhs => rw [heq]
    rw [norm_neg, norm_mul, norm_mul, norm_star]
  have h1 : ‖k‖ * ‖z‖ ≤ ‖k‖ * 1 := mul_le_mul_of_nonneg_left hz (norm_nonneg k)
  have h2 : ‖k‖ * ‖z‖ * ‖X‖ ≤ ‖k‖ * 1 * ‖Y‖ :=
    mul_le_mul h1 hXY (norm_nonneg X) (by positivity)
  have h3 : ‖k‖ * 1 * ‖Y‖ < 1 * ‖Y‖ := by
    rw [mul_one]; exact mul_lt_mul_of_pos_right hk hYpos
  linarith

/-- **mirror Schur–Cohn invariant**: all `|k_i| < 1` ⇒ for `|z| ≤ 1`, `|A(z)| ≤ |B(z)|` and
`B(z) ≠ 0` -/
theorem schur_mirror_invariant (kr : List F) (r0 : F) (hk : ∀ k ∈ kr, ‖k‖ < 1) (z : F)
    (hz : ‖z‖ ≤ 1) :
    ‖polyA (rc2poly kr r0).1 z‖ ≤ ‖polyB (rc2poly kr r0).1 z‖ ∧ polyB (rc2poly kr r0).1 z ≠ 0 := by
  induction kr using List.reverseRecOn with
  | nil =>
    rw [rc2poly_nil, polyA_nil, polyB_nil]
    exact ⟨le_refl _, one_ne_zero⟩
  | append_singleton kr k ih =>
    have ih' := ih (fun k' hk' => hk k' (by simp [hk']))
    have hk1 : ‖k‖ < 1 := hk k (by simp)
    rw [rc2poly_append_singleton]
    simp only [polyA_levup, polyB_levup]
    exact ⟨stepup_norm_le_mirror _ _ z k hk1.le hz ih'.1,
      stepup_B_ne_zero _ _ z k hk1 hz ih'.1 ih'.2⟩

/-- strict step outside: `|k| < 1`, `|z| > 1`, `|Y| ≤ |X|`, `X ≠ 0` ⇒ `|B'| < |A'|` -/
theorem stepup_norm_lt (X Y z k : F) (hk : ‖k‖ < 1) (hz : 1 < ‖z‖) (hXY : ‖Y‖ ≤ ‖X‖)
    (hX : X ≠ 0) : ‖Y + star k * z * X‖ < ‖z * X + k * Y‖ := by
  have hid := norm_sq_stepup X Y z k
  have hXpos : 0 < ‖X‖ := norm_pos_iff.mpr hX
  have h1 : 0 < 1 - ‖k‖ ^ 2 := by
    have := norm_nonneg k
    nlinarith
  have h2 : 0 < ‖z‖ ^ 2 * ‖X‖ ^ 2 - ‖Y‖ ^ 2 := by
    have hY := norm_nonneg Y
    have hYX : ‖Y‖ ^ 2 ≤ ‖X‖ ^ 2 := pow_le_pow_left₀ hY hXY 2
    have hz2 : 1 < ‖z‖ ^ 2 := one_lt_pow₀ hz two_ne_zero
    have hX2 : 0 < ‖X‖ ^ 2 := pow_pos hXpos 2
    nlinarith
  have h3 : ‖Y + star k * z * X‖ ^ 2 < ‖z * X + k * Y‖ ^ 2 := by
    have := mul_pos h1 h2
    linarith
  exact (pow_lt_pow_iff_left₀ (norm_nonneg _) (norm_nonneg _) two_ne_zero).mp h3

/-- strict step inside: `|k| < 1`, `|z| < 1`, `|X| ≤ |Y|`, `Y ≠ 0` ⇒ `|A'| < |B'|` -/
theorem stepup_norm_lt_mirror (X Y z k : F) (hk : ‖k‖ < 1) (hz : ‖z‖ < 1) (hXY : ‖X‖ ≤ ‖Y‖)
    (hY : Y ≠ 0) : ‖z * X + k * Y‖ < ‖Y + star k * z * X‖ := by
  have hid := norm_sq_stepup X Y z k
  have hYpos : 0 < ‖Y‖ := norm_pos_iff.mpr hY
  have h1 : 0 < 1 - ‖k‖ ^ 2 := by
    have := norm_nonneg k
    nlinarith
  have h2 : ‖z‖ ^ 2 * ‖X‖ ^ 2 - ‖Y‖ ^ 2 < 0 := by
    have hX := norm_nonneg X
    have hXY2 : ‖X‖ ^ 2 ≤ ‖Y‖ ^ 2 := pow_le_pow_left₀ hX hXY 2
    have hz2 : ‖z‖ ^ 2 < 1 := pow_lt_one₀ (norm_nonneg z) hz two_ne_zero
    have hY2 : 0 < ‖Y‖ ^ 2 := pow_pos hYpos 2
    have hz0 : 0 ≤ ‖z‖ ^ 2 := sq_nonneg _
    nlinarith
  have h3 : ‖z * X + k * Y‖ ^ 2 < ‖Y + star k * z * X‖ ^ 2 := by
    have := mul_neg_of_pos_of_neg h1 h2
    linarith
  exact (pow_lt_pow_iff_left₀ (norm_nonneg _) (norm_nonneg _) two_ne_zero).mp h3

/-- **strict Schur–Cohn, outside**: at least one stage, all `|k_i| < 1`, `|z| > 1` ⇒
`|B(z)| < |A(z)|` (for order 0 both are 1) -/
theorem schur_strict_outside (kr : List F) (r0 : F) (hne : kr ≠ []) (hk : ∀ k ∈ kr, ‖k‖ < 1)
    (z : F) (hz : 1 < ‖z‖) :
    ‖polyB (rc2poly kr r0).1 z‖ < ‖polyA (rc2poly kr r0).1 z‖ := by
  induction kr using List.reverseRecOn with
  | nil => exact absurd rfl hne
  | append_singleton kr k _ =>
    have ih' := schur_invariant_strict kr r0 (fun k' hk' => hk k' (by simp [hk'])) z hz.le
    have hk1 : ‖k‖ < 1 := hk k (by simp)
    rw [rc2poly_append_singleton]
    simp only [polyA_levup, polyB_levup]
    exact stepup_norm_lt _ _ z k hk1 hz ih'.1 ih'.2

/-- **strict Schur–Cohn, inside**: at least one stage, all `|k_i| < 1`, `|z| < 1` ⇒
`|A(z)| < |B(z)|` -/
theorem schur_strict_inside (kr : List F) (r0 : F) (hne : kr ≠ []) (hk : ∀ k ∈ kr, ‖k‖ < 1)
    (z : F) (hz : ‖z‖ < 1) :
    ‖polyA (rc2poly kr r0).1 z‖ < ‖polyB (rc2poly kr r0).1 z‖ := by
  induction kr using List.reverseRecOn with
  | nil => exact absurd rfl hne
  | append_singleton kr k _ =>
    have ih' := schur_mirror_invariant kr r0 (fun k' hk' => hk k' (by simp [hk'])) z hz.le
    have hk1 : ‖k‖ < 1 := hk k (by simp)
    rw [rc2poly_append_singleton]
    simp only [polyA_levup, polyB_levup]
    exact stepup_norm_lt_mirror _ _ z k hk1 hz ih'.1 ih'.2

/-- outside the circle `|B(z)| < |z·A(z)|` (any order, order 0 included) -/
theorem norm_polyB_lt_norm_mul_polyA (kr : List F) (r0 : F) (hk : ∀ k ∈ kr, ‖k‖ < 1) (z : F)
    (hz : 1 < ‖z‖) :
    ‖polyB (rc2poly kr r0).1 z‖ < ‖z * polyA (rc2poly kr r0).1 z‖ := by
  obtain ⟨h1, h2⟩ := schur_invariant_strict kr r0 hk z hz.le
  have hpos : 0 < ‖polyA (rc2poly kr r0).1 z‖ := norm_pos_iff.mpr h2
  rw [norm_mul]
  have : 1 * ‖polyA (rc2poly kr r0).1 z‖ < ‖z‖ * ‖polyA (rc2poly kr r0).1 z‖ :=
    mul_lt_mul_of_pos_right hz hpos
  linarith

/-- inside the circle `|z·A(z)| < |B(z)|` (`z = 0` included) -/
theorem norm_mul_polyA_lt_norm_polyB (kr : List F) (r0 : F) (hk : ∀ k ∈ kr, ‖k‖ < 1) (z : F)
    (hz : ‖z‖ < 1) :
    ‖z * polyA (rc2poly kr r0).1 z‖ < ‖polyB (rc2poly kr r0).1 z‖ := by
  obtain ⟨h1, h2⟩ := schur_mirror_invariant kr r0 hk z hz.le
  have hpos : 0 < ‖polyB (rc2poly kr r0).1 z‖ := norm_pos_iff.mpr h2
  rw [norm_mul]
  have h3 : ‖z‖ * ‖polyA (rc2poly kr r0).1 z‖ ≤ ‖z‖ * ‖polyB (rc2poly kr r0).1 z‖ :=
    mul_le_mul_of_nonneg_left h1 (norm_nonneg z)
  have h4 : ‖z‖ * ‖polyB (rc2poly kr r0).1 z‖ < 1 * ‖polyB (rc2poly kr r0).1 z‖ :=
    mul_lt_mul_of_pos_right hz hpos
  linarith

/-- **off the unit circle `z·A(z) + c·B(z) ≠ 0`** for every unimodular constant `c` (the line spectral
polynomials are `c = ∓1`); `z = 0` is included -/
theorem mul_polyA_add_polyB_ne_zero (kr : List F) (r0 : F) (hk : ∀ k ∈ kr, ‖k‖ < 1) (c z : F)
    (hc : ‖c‖ = 1) (hz : ‖z‖ ≠ 1) :
    z * polyA (rc2poly kr r0).1 z + c * polyB (rc2poly kr r0).1 z ≠ 0 := by
  intro h0
  have heq : z * polyA (rc2poly kr r0).1 z = -(c * polyB (rc2poly kr r0).1 z) :=
    eq_neg_of_add_eq_zero_left h0
  have hn : ‖z * polyA (rc2poly kr r0).1 z‖ = ‖polyB (rc2poly kr r0).1 z‖ := by
    rw [heq, norm_neg, norm_mul, hc, one_mul]
  rcases lt_or_gt_of_ne hz with h | h
  · have := norm_mul_polyA_lt_norm_polyB kr r0 hk z h
    linarith
  · have := norm_polyB_lt_norm_mul_polyA kr r0 hk z h
    linarith

end RC

/-! ### real (self-conjugate) coefficients -/

section Real
variable {K : Type} [Field K] [StarRing K]

/-- step-up with a self-conjugate reflection coefficient keeps the coefficients self-conjugate -/
theorem levup_star_fixed (a : List K) (k : K) (ha : ∀ j, star (nth a j) = nth a j)
    (hk : star k = k) (j : ℕ) : star (nth (levup a k) j) = nth (levup a k) j := by
  rcases Nat.lt_trichotomy j a.length with h | h | h
  · rw [nth_levup_lt a k j h, star_add, star_mul', star_star, ha, hk, ha]
  · rw [h, nth_levup_last, hk]
  · rw [nth_of_ge _ j (by rw [levup_length']; omega), star_zero]

/-- real reflection coefficients give a real step-up polynomial -/
theorem rc2poly_star_fixed (kr : List K) (r0 : K) (hk : ∀ k ∈ kr, star k = k) (j : ℕ) :
    star (nth (rc2poly kr r0).1 j) = nth (rc2poly kr r0).1 j := by
  induction kr using List.reverseRecOn generalizing j with
  | nil => rw [rc2poly_nil, nth_of_ge _ j (by simp), star_zero]
  | append_singleton kr k ih =>
    rw [rc2poly_append_singleton]
    exact levup_star_fixed _ k (fun i => ih (fun k' hk' => hk k' (by simp [hk'])) i)
      (hk k (by simp)) j

/-- step-down keeps the coefficients self-conjugate -/
theorem levdown_star_fixed (b : List K) (hb : ∀ j, star (nth b j) = nth b j) (j : ℕ) :
    star (nth (levdown b) j) = nth (levdown b) j := by
  by_cases h : j < b.length - 1
  · rw [nth_levdown_lt b j h, star_div₀, star_one_sub_mul_star, star_sub, star_mul', star_star,
      hb, hb, hb]
  · rw [nth_of_ge _ j (by rw [levdown_length']; omega), star_zero]

/-- the reflection coefficients of a real polynomial are real -/
theorem poly2rc_star_fixed (a : List K) (ha : ∀ j, star (nth a j) = nth a j) :
    ∀ k ∈ poly2rc a, star k = k := by
  generalize hn : a.length = n
  induction n generalizing a with
  | zero =>
    have : a = [] := List.length_eq_zero_iff.mp hn
    subst this
    intro k hk
    rw [poly2rc_nil] at hk
    exact absurd hk List.not_mem_nil
  | succ n ih =>
    have hne : a ≠ [] := by intro h; subst h; simp at hn
    intro k hk
    rw [poly2rc_eq_append a hne, List.mem_append, List.mem_singleton] at hk
    rcases hk with hk | rfl
    · exact ih (levdown a) (levdown_star_fixed a ha) (by rw [levdown_length', hn]; rfl) k hk
    · exact ha _

/-- for real coefficients the reciprocal polynomial is the reversed polynomial -/
theorem polyB_eq_polyR (a : List K) (ha : ∀ j, star (nth a j) = nth a j) (z : K) :
    polyB a z = polyR a z := by
  unfold polyB polyR
  congr 1
  apply Finset.sum_congr rfl
  intro j _
  rw [ha]

/-- a polynomial with real coefficients commutes with conjugation -/
theorem polyEval_star (p : List K) (hp : ∀ j, star (nth p j) = nth p j) (z : K) :
    polyEval p (star z) = star (polyEval p z) := by
  unfold polyEval
  rw [star_sum]
  apply Finset.sum_congr rfl
  intro i _
  rw [star_mul', star_pow, hp]

/-- the coefficients of `P1`, `Q1` of a real polynomial are real -/
theorem lsfSplit_star_fixed (a : List K) (ha : ∀ j, star (nth a j) = nth a j) (j : ℕ) :
    star (nth (lsfSplit a).1 j) = nth (lsfSplit a).1 j
    ∧ star (nth (lsfSplit a).2 j) = nth (lsfSplit a).2 j := by
  have h1 : ∀ i, star (nth (a ++ [(0 : K)]) i) = nth (a ++ [(0 : K)]) i := by
    intro i
    rcases Nat.lt_trichotomy i a.length with hi | hi | hi
    · rw [nth_append_left a [0] i hi, ha]
    · rw [hi, nth_append_length, star_zero]
    · rw [nth_of_ge _ i (by simp; omega), star_zero]
  rw [lsfSplit_fst, lsfSplit_snd, nth_vec, nth_vec]
  by_cases hj : j < a.length + 1
  · rw [if_pos hj, if_pos hj, star_sub, star_add, h1, h1]
    exact ⟨rfl, rfl⟩
  · rw [if_neg hj, if_neg hj, star_zero]
    exact ⟨rfl, rfl⟩

/-- `nth` of a list with the leading 1 -/
theorem cons_one_star_fixed (c : List K) (hc : ∀ j, star (nth c j) = nth c j) (j : ℕ) :
    star (nth ((1 : K) :: c) j) = nth ((1 : K) :: c) j := by
  rcases j with _ | j
  · rw [nth_cons_zero, star_one]
  · rw [nth_cons_succ, hc]

end Real

/-! ### `P1`, `Q1` in terms of `polyA`, `polyR` -/

section Eval
variable {K : Type} [Field K]

/-- the two sums of `polyEval_lsfSplit_fst/snd` for `a = 1 :: c`: `z·A(z)` and `R(z)` -/
theorem lsf_sums_cons (c : List K) (z : K) :
    ∑ i ∈ range (c.length + 1 + 1), nth (((1 : K) :: c) ++ [0]) i * z ^ (c.length + 1 - i)
      = z * polyA c z
    ∧ ∑ i ∈ range (c.length + 1 + 1), nth (((1 : K) :: c) ++ [0]) i * z ^ i = polyR c z := by
  have hcons : ((1 : K) :: c) ++ [0] = 1 :: (c ++ [0]) := rfl
  have hlast : nth (c ++ [(0 : K)]) c.length = 0 := nth_append_length c 0
  constructor
  · rw [Finset.sum_range_succ', Finset.sum_range_succ, hcons]
    simp only [nth_cons_succ, nth_cons_zero, hlast, zero_mul, add_zero, Nat.sub_zero, one_mul]
    unfold polyA
    rw [mul_add, Finset.mul_sum, ← pow_succ', add_comm]
    congr 1
    apply Finset.sum_congr rfl
    intro i hi
    have hi' := mem_range.mp hi
    rw [nth_append_left c [0] i hi']
    have : c.length + 1 - (i + 1) = (c.length - 1 - i) + 1 := by omega
    rw [this, pow_succ]
    ring
  · rw [Finset.sum_range_succ', Finset.sum_range_succ, hcons]
    simp only [nth_cons_succ, nth_cons_zero, hlast, zero_mul, add_zero, pow_zero, mul_one]
    unfold polyR
    rw [add_comm]
    congr 1
    apply Finset.sum_congr rfl
    intro i hi
    rw [nth_append_left c [0] i (mem_range.mp hi)]

/-- **`P1(z) = z·A(z) − R(z)` and `Q1(z) = z·A(z) + R(z)`** for `a = 1 :: c` -/
theorem polyEval_lsfSplit_cons (c : List K) (z : K) :
    polyEval (lsfSplit ((1 : K) :: c)).1 z = z * polyA c z - polyR c z
    ∧ polyEval (lsfSplit ((1 : K) :: c)).2 z = z * polyA c z + polyR c z := by
  obtain ⟨h1, h2⟩ := lsf_sums_cons c z
  rw [polyEval_lsfSplit_fst, polyEval_lsfSplit_snd]
  simp only [List.length_cons]
  rw [h1, h2]
  exact ⟨rfl, rfl⟩

end Eval

/-! ### the zeros of `P1`, `Q1` -/

section Circle
variable {F : Type} [RCLike F]

/-- `|k| < 1` implies the algebraic domain condition `1 − k·conj k ≠ 0` -/
theorem one_sub_mul_star_ne_zero (k : F) (hk : ‖k‖ < 1) : 1 - k * star k ≠ 0 := by
  intro h
  have h1 : k * star k = 1 := (sub_eq_zero.mp h).symm
  rw [RCLike.star_def, RCLike.mul_conj] at h1
  have h2 : ‖k‖ ^ 2 = 1 := by
    have := congrArg (fun x : F => ‖x‖) h1
    simpa using this
  have := norm_nonneg k
  nlinarith

/-- for real `|k_i| < 1` and `|z| ≠ 1` neither `P1` nor `Q1` of `a = 1 :: rc2poly kr` vanishes at `z` -/
theorem lsfSplit_eval_ne_zero (kr : List F) (r0 : F) (hreal : ∀ k ∈ kr, star k = k)
    (hk : ∀ k ∈ kr, ‖k‖ < 1) (z : F) (hz : ‖z‖ ≠ 1) :
    polyEval (lsfSplit ((1 : F) :: (rc2poly kr r0).1)).1 z ≠ 0
    ∧ polyEval (lsfSplit ((1 : F) :: (rc2poly kr r0).1)).2 z ≠ 0 := by
  obtain ⟨h1, h2⟩ := polyEval_lsfSplit_cons (rc2poly kr r0).1 z
  have hB := polyB_eq_polyR (rc2poly kr r0).1 (rc2poly_star_fixed kr r0 hreal) z
  rw [h1, h2, ← hB]
  constructor
  · have := mul_polyA_add_polyB_ne_zero kr r0 hk (-1) z (by rw [norm_neg, norm_one]) hz
    rwa [neg_one_mul, ← sub_eq_add_neg] at this
  · have := mul_polyA_add_polyB_ne_zero kr r0 hk 1 z norm_one hz
    rwa [one_mul] at this

/-- `P1` and `Q1` have no common zero (real `|k_i| < 1`) -/
theorem lsfSplit_no_common_zero (kr : List F) (r0 : F) (hreal : ∀ k ∈ kr, star k = k)
    (hk : ∀ k ∈ kr, ‖k‖ < 1) (z : F)
    (hP : polyEval (lsfSplit ((1 : F) :: (rc2poly kr r0).1)).1 z = 0)
    (hQ : polyEval (lsfSplit ((1 : F) :: (rc2poly kr r0).1)).2 z = 0) : False := by
  obtain ⟨h1, h2⟩ := polyEval_lsfSplit_cons (rc2poly kr r0).1 z
  have hB := polyB_eq_polyR (rc2poly kr r0).1 (rc2poly_star_fixed kr r0 hreal) z
  rw [h1, ← hB] at hP
  rw [h2, ← hB] at hQ
  have h2ne : (2 : F) ≠ 0 := two_ne_zero
  have hzA : z * polyA (rc2poly kr r0).1 z = 0 := by
    have : (2 : F) * (z * polyA (rc2poly kr r0).1 z) = 0 := by linear_combination hP + hQ
    exact (mul_eq_zero.mp this).resolve_left h2ne
  have hBz : polyB (rc2poly kr r0).1 z = 0 := by
    have : (2 : F) * polyB (rc2poly kr r0).1 z = 0 := by linear_combination hQ - hP
    exact (mul_eq_zero.mp this).resolve_left h2ne
  rcases le_or_gt ‖z‖ 1 with h | h
  · exact (schur_mirror_invariant kr r0 hk z h).2 hBz
  · have hz0 : z ≠ 0 := by
      intro h0; rw [h0, norm_zero] at h; linarith
    exact (schur_invariant_strict kr r0 hk z h.le).2 ((mul_eq_zero.mp hzA).resolve_left hz0)

end Circle

/-! ### the Christoffel–Darboux kernel of the step-up recursion and simplicity of the zeros -/

section Kernel
variable {F : Type} [RCLike F]

theorem continuous_polyA (a : List F) : Continuous (polyA a) := by
  show Continuous (fun z => z ^ a.length + ∑ j ∈ range a.length, nth a j * z ^ (a.length - 1 - j))
  fun_prop

/-- polarised form of `SchurL.norm_sq_stepup` -/
theorem stepup_polarised (X Y X' Y' z w' k k' : F) :
    (Y + k' * z * X) * (Y' + k * w' * X') - z * w' * ((z * X + k * Y) * (w' * X' + k' * Y'))
      = (1 - k * k') * (Y * Y' - z * w' * (X * X'))
        + (1 - z * w') * ((z * X + k * Y) * (w' * X' + k' * Y')) := by
  ring

/-- **Christoffel–Darboux kernel**: for `|k_i| ≤ 1` there is `S(z, w)`, continuous in `z`, with
`B(z)·conj B(w) − z·conj(w)·A(z)·conj A(w) = (1 − z·conj w)·S(z, w)` and `S(w, w)` real,
`≥ |A(w)|²` (`S = Σ_j (∏_{i>j}(1−|k_i|²)) A_j(z) conj A_j(w)` over the lower-order polynomials) -/
theorem cd_kernel (kr : List F) (r0 : F) (hk : ∀ k ∈ kr, ‖k‖ ≤ 1) :
    ∃ S : F → F → F, (∀ w, Continuous fun z => S z w)
      ∧ (∀ w, ∃ r : ℝ, S w w = (r : F) ∧ ‖polyA (rc2poly kr r0).1 w‖ ^ 2 ≤ r)
      ∧ ∀ z w, polyB (rc2poly kr r0).1 z * star (polyB (rc2poly kr r0).1 w)
          - z * star w * (polyA (rc2poly kr r0).1 z * star (polyA (rc2poly kr r0).1 w))
          = (1 - z * star w) * S z w := by
  induction kr using List.reverseRecOn with
  | nil =>
    refine ⟨fun _ _ => 1, fun _ => continuous_const, fun w => ⟨1, by simp, ?_⟩, ?_⟩
    · rw [rc2poly_nil, polyA_nil]; simp
    · intro z w
      simp only [rc2poly_nil, polyA_nil, polyB_nil, star_one, mul_one]
  | append_singleton kr k ih =>
    obtain ⟨S, hS1, hS2, hS3⟩ := ih (fun k' hk' => hk k' (by simp [hk']))
    have hk1 : ‖k‖ ≤ 1 := hk k (by simp)
    rw [rc2poly_append_singleton]
    set c := (rc2poly kr r0).1 with hc
    refine ⟨fun z w => (1 - k * star k) * S z w + polyA (levup c k) z * star (polyA (levup c k) w),
      ?_, ?_, ?_⟩
    · intro w
      exact (continuous_const.mul (hS1 w)).add ((continuous_polyA _).mul continuous_const)
    · intro w
      obtain ⟨r, hr1, hr2⟩ := hS2 w
      refine ⟨(1 - ‖k‖ ^ 2) * r + ‖polyA (levup c k) w‖ ^ 2, ?_, ?_⟩
      · show (1 - k * star k) * S w w + polyA (levup c k) w * star (polyA (levup c k) w) = _
        rw [hr1, RCLike.star_def, RCLike.mul_conj, RCLike.mul_conj]
        push_cast
        ring
      · have h1 : 0 ≤ 1 - ‖k‖ ^ 2 := by
          have := norm_nonneg k
          nlinarith
        have h2 : 0 ≤ r := le_trans (sq_nonneg _) hr2
        have := mul_nonneg h1 h2
        linarith
    · intro z w
      show _ = (1 - z * star w)
        * ((1 - k * star k) * S z w + polyA (levup c k) z * star (polyA (levup c k) w))
      simp only [polyA_levup, polyB_levup, star_add, star_mul', star_star]
      rw [stepup_polarised, hS3 z w]
      ring

/-- the kernel at a zero `z0` of `z·A + c·B` (`|c| = 1`, hence `|z0| = 1`):
`−conj(z0·A(z0))·(z·A(z) + c·B(z)) = (1 − z·conj z0)·S(z, z0)` for all `z` -/
theorem cd_kernel_at_zero (a : List F) (S : F → F → F)
    (hS : ∀ z w, polyB a z * star (polyB a w) - z * star w * (polyA a z * star (polyA a w))
      = (1 - z * star w) * S z w)
    (c z0 : F) (hc : c * star c = 1) (h0 : z0 * polyA a z0 + c * polyB a z0 = 0) (z : F) :
    -(star z0 * star (polyA a z0)) * (z * polyA a z + c * polyB a z) = (1 - z * star z0) * S z z0 := by
  have hB : polyB a z0 = -(star c * z0 * polyA a z0) := by
    have : star c * (z0 * polyA a z0 + c * polyB a z0) = 0 := by rw [h0, mul_zero]
    have hc' : star c * c = 1 := by rw [mul_comm]; exact hc
    linear_combination this - polyB a z0 * hc'
  rw [← hS z z0, hB]
  simp only [star_neg, star_mul', star_star]
  ring

/-- **the zeros of `z·A + c·B` are simple**: the polynomial is never `(z − z0)²·H(z)` with a
continuous (e.g. polynomial) cofactor `H` -/
theorem no_double_zero (kr : List F) (r0 : F) (hk : ∀ k ∈ kr, ‖k‖ < 1) (c z0 : F) (hc : ‖c‖ = 1)
    (H : F → F) (hH : Continuous H)
    (hfac : ∀ z, z * polyA (rc2poly kr r0).1 z + c * polyB (rc2poly kr r0).1 z
      = (z - z0) ^ 2 * H z) : False := by
  set a := (rc2poly kr r0).1 with ha
  have h0 : z0 * polyA a z0 + c * polyB a z0 = 0 := by rw [hfac z0]; ring
  have hz0 : ‖z0‖ = 1 := by
    by_contra hne
    exact mul_polyA_add_polyB_ne_zero kr r0 hk c z0 hc hne h0
  have hA : polyA a z0 ≠ 0 := (schur_invariant_strict kr r0 hk z0 hz0.ge).2
  have hcc : c * star c = 1 := by
    rw [RCLike.star_def, RCLike.mul_conj, hc]; simp
  have hzz : z0 * star z0 = 1 := by
    rw [RCLike.star_def, RCLike.mul_conj, hz0]; simp
  obtain ⟨S, hS1, hS2, hS3⟩ := cd_kernel kr r0 (fun k hk' => (hk k hk').le)
  have hker := cd_kernel_at_zero a S hS3 c z0 hcc h0
  -- f vanishes off z0, hence at z0
  let f : F → F := fun z => -(star z0 * star (polyA a z0)) * ((z - z0) * H z) + star z0 * S z z0
  have hf : Continuous f :=
    (continuous_const.mul ((continuous_id.sub continuous_const).mul hH)).add
      (continuous_const.mul (hS1 z0))
  have hoff : Set.EqOn f (fun _ => (0 : F)) ({z0}ᶜ : Set F) := by
    intro z hz
    have hzne : z - z0 ≠ 0 := sub_ne_zero.mpr hz
    have h1 := hker z
    rw [hfac z] at h1
    have h2 : (z - z0) * f z = 0 := by
      show (z - z0) * (-(star z0 * star (polyA a z0)) * ((z - z0) * H z) + star z0 * S z z0) = 0
      linear_combination h1 - S z z0 * hzz
    exact (mul_eq_zero.mp h2).resolve_left hzne
  have hall := Continuous.ext_on (dense_compl_singleton z0) hf continuous_const hoff
  have hfz0 : f z0 = 0 := congrFun hall z0
  obtain ⟨r, hr1, hr2⟩ := hS2 z0
  have hS0 : S z0 z0 = 0 := by
    have h3 : star z0 * S z0 z0 = 0 := by
      have : f z0 = star z0 * S z0 z0 := by
        show -(star z0 * star (polyA a z0)) * ((z0 - z0) * H z0) + star z0 * S z0 z0 = _
        ring
      rw [← this]; exact hfz0
    have hsz : star z0 ≠ 0 := by
      intro h; rw [h, mul_zero] at hzz; exact zero_ne_one hzz
    exact (mul_eq_zero.mp h3).resolve_left hsz
  rw [hr1] at hS0
  have hr0 : r = 0 := by exact_mod_cast hS0
  have hpos : 0 < ‖polyA a z0‖ ^ 2 := pow_pos (norm_pos_iff.mpr hA) 2
  linarith

end Kernel

/-! ### the computed root lists (contract of `numpy.roots`: the list multiplies back to the polynomial) -/

section RootLists
variable {K : Type} [Field K]

/-- a listed root splits off a linear factor of `∏ (z - s)` -/
theorem prod_roots_split (rs : List K) (r : K) (h : r ∈ rs) :
    ∃ l : List K, ∀ z, (rs.map (fun s => z - s)).prod = (z - r) * (l.map (fun s => z - s)).prod := by
  obtain ⟨s, t, rfl⟩ := List.append_of_mem h
  refine ⟨s ++ t, fun z => ?_⟩
  simp only [List.map_append, List.map_cons, List.prod_append, List.prod_cons]
  ring

/-- a root listed twice splits off a squared linear factor -/
theorem prod_roots_split_dup (rs : List K) (h : ¬ rs.Nodup) :
    ∃ (r : K) (l : List K), ∀ z,
      (rs.map (fun s => z - s)).prod = (z - r) ^ 2 * (l.map (fun s => z - s)).prod := by
  obtain ⟨r, hr⟩ := List.exists_duplicate_iff_not_nodup.mpr h
  obtain ⟨l, hl⟩ := (List.duplicate_iff_sublist.mp hr).exists_perm_append
  refine ⟨r, l, fun z => ?_⟩
  rw [(hl.map _).prod_eq]
  simp only [List.map_append, List.map_cons, List.map_nil, List.prod_append, List.prod_cons,
    List.prod_nil]
  ring

/-- a zero of `∏ (z - s)` is listed -/
theorem mem_of_prod_roots_eq_zero (rs : List K) (z : K)
    (h : (rs.map (fun s => z - s)).prod = 0) : z ∈ rs := by
  obtain ⟨s, hs, hz⟩ := List.mem_map.mp (List.prod_eq_zero_iff.mp h)
  rw [sub_eq_zero.mp hz]
  exact hs

theorem polyEval_quadratic (z : K) : polyEval ([1, 0, -1] : List K) z = z ^ 2 - 1 := by
  simp [polyEval, Finset.sum_range_succ, nth]
  ring

theorem polyEval_linear_plus (z : K) : polyEval ([1, 1] : List K) z = z + 1 := by
  simp [polyEval, Finset.sum_range_succ, nth]

/-- evaluation of the two split polynomials through the deflated root lists and the fixed factors -/
theorem lsf_factor_eval (p : ℕ) (P Q rP rQ S1 S2 : List K)
    (hP : polyMul P (if p % 2 = 1 then [1, 0, -1] else [1, -1]) = S1)
    (hQ : polyMul Q (if p % 2 = 1 then [1] else [1, 1]) = S2)
    (hrP : polyFromRoots rP = P) (hrQ : polyFromRoots rQ = Q) (z : K) :
    polyEval S1 z = (rP.map (fun s => z - s)).prod * (if p % 2 = 1 then z ^ 2 - 1 else z - 1)
    ∧ polyEval S2 z = (rQ.map (fun s => z - s)).prod * (if p % 2 = 1 then 1 else z + 1) := by
  have hPne : P ≠ [] := by
    intro h
    have := polyFromRoots_length rP
    rw [hrP, h] at this
    simp at this
  have hQne : Q ≠ [] := by
    intro h
    have := polyFromRoots_length rQ
    rw [hrQ, h] at this
    simp at this
  subst hP hQ
  by_cases hodd : p % 2 = 1
  · simp only [if_pos hodd]
    rw [LpcL.polyMul_eval P _ hPne (by simp), LpcL.polyMul_eval Q _ hQne (by simp),
      polyEval_quadratic, polyEval_one, ← hrP, ← hrQ, polyFromRoots_eval, polyFromRoots_eval]
    exact ⟨rfl, rfl⟩
  · simp only [if_neg hodd]
    rw [LpcL.polyMul_eval P _ hPne (by simp), LpcL.polyMul_eval Q _ hQne (by simp),
      polyEval_linear, polyEval_linear_plus, ← hrP, ← hrQ, polyFromRoots_eval, polyFromRoots_eval]
    exact ⟨rfl, rfl⟩

end RootLists

section Computed
variable {F : Type} [RCLike F]

theorem continuous_prod_roots (l : List F) :
    Continuous (fun z : F => (l.map (fun s => z - s)).prod) :=
  continuous_list_prod l (fun _ _ => continuous_id.sub continuous_const)

/-- neither `P1` nor `Q1` has a double zero (real `|k_i| < 1`): neither is `(z − z0)²·H(z)` with a
continuous cofactor -/
theorem lsfSplit_no_double_zero (kr : List F) (r0 : F) (hreal : ∀ k ∈ kr, star k = k)
    (hk : ∀ k ∈ kr, ‖k‖ < 1) (z0 : F) (H : F → F) (hH : Continuous H) :
    (¬ ∀ z, polyEval (lsfSplit ((1 : F) :: (rc2poly kr r0).1)).1 z = (z - z0) ^ 2 * H z)
    ∧ (¬ ∀ z, polyEval (lsfSplit ((1 : F) :: (rc2poly kr r0).1)).2 z = (z - z0) ^ 2 * H z) := by
  have hB := polyB_eq_polyR (rc2poly kr r0).1 (rc2poly_star_fixed kr r0 hreal)
  constructor
  · intro h
    refine no_double_zero kr r0 hk (-1) z0 (by rw [norm_neg, norm_one]) H hH (fun z => ?_)
    rw [← h z, (polyEval_lsfSplit_cons _ z).1, hB z]
    ring
  · intro h
    refine no_double_zero kr r0 hk 1 z0 norm_one H hH (fun z => ?_)
    rw [← h z, (polyEval_lsfSplit_cons _ z).2, hB z]
    ring

/-- a polynomial of minimum phase with real coefficients is the step-up polynomial of real
reflection coefficients of modulus `< 1` -/
theorem minphase_eq_rc2poly (c : List F) (hreal : ∀ j, star (nth c j) = nth c j)
    (hk : ∀ k ∈ poly2rc c, ‖k‖ < 1) :
    ∃ kr : List F, (∀ k ∈ kr, star k = k) ∧ (∀ k ∈ kr, ‖k‖ < 1) ∧ kr.length = c.length
      ∧ (rc2poly kr 1).1 = c :=
  ⟨poly2rc c, poly2rc_star_fixed c hreal, hk, poly2rc_length c,
    rc2poly_poly2rc' c 1 (fun k hk' => one_sub_mul_star_ne_zero k (hk k hk'))⟩

/-- **the root lists computed by `poly2lsf`** (any lists that multiply back to the deflated
polynomials): every root has modulus 1 and is not `±1`, all `2p` roots are distinct, and each list is
closed under conjugation -/
theorem lsf_computed_roots (kr : List F) (r0 : F) (hreal : ∀ k ∈ kr, star k = k)
    (hk : ∀ k ∈ kr, ‖k‖ < 1) (p : ℕ) (hp : kr.length = p) (P Q rP rQ : List F)
    (hP : polyMul P (if p % 2 = 1 then [1, 0, -1] else [1, -1])
      = (lsfSplit ((1 : F) :: (rc2poly kr r0).1)).1)
    (hQ : polyMul Q (if p % 2 = 1 then [1] else [1, 1])
      = (lsfSplit ((1 : F) :: (rc2poly kr r0).1)).2)
    (hrP : polyFromRoots rP = P) (hrQ : polyFromRoots rQ = Q) :
    (∀ r ∈ rP ++ rQ, ‖r‖ = 1 ∧ r ≠ 1 ∧ r ≠ -1) ∧ (rP ++ rQ).Nodup
      ∧ (∀ r ∈ rP, star r ∈ rP) ∧ (∀ r ∈ rQ, star r ∈ rQ) := by
  set a := (1 : F) :: (rc2poly kr r0).1 with ha
  have halen : a.length = p + 1 := by rw [ha, List.length_cons, rc2poly_length', hp]
  have hfac := fun z => lsf_factor_eval p P Q rP rQ _ _ hP hQ hrP hrQ z
  have hU := lsfSplit_eval_ne_zero kr r0 hreal hk
  have hN := lsfSplit_no_common_zero kr r0 hreal hk
  have hD := lsfSplit_no_double_zero kr r0 hreal hk
  have hareal : ∀ j, star (nth a j) = nth a j :=
    cons_one_star_fixed _ (rc2poly_star_fixed kr r0 hreal)
  have hone : polyEval (lsfSplit a).1 1 = 0 := lsfSplit_fst_root_one a
  -- listed roots are zeros
  have hzP : ∀ r ∈ rP, polyEval (lsfSplit a).1 r = 0 := by
    intro r hr
    rw [(hfac r).1, List.prod_eq_zero (List.mem_map.mpr ⟨r, hr, sub_self r⟩), zero_mul]
  have hzQ : ∀ r ∈ rQ, polyEval (lsfSplit a).2 r = 0 := by
    intro r hr
    rw [(hfac r).2, List.prod_eq_zero (List.mem_map.mpr ⟨r, hr, sub_self r⟩), zero_mul]
  -- `±1` are not listed
  have hP1 : (1 : F) ∉ rP := by
    intro h
    obtain ⟨l, hl⟩ := prod_roots_split rP 1 h
    by_cases hodd : p % 2 = 1
    · refine (hD 1 (fun z => (l.map (fun s => z - s)).prod * (z + 1))
        ((continuous_prod_roots l).mul (continuous_id.add continuous_const))).1 (fun z => ?_)
      rw [(hfac z).1, hl z, if_pos hodd]
      ring
    · refine (hD 1 (fun z => (l.map (fun s => z - s)).prod) (continuous_prod_roots l)).1
        (fun z => ?_)
      rw [(hfac z).1, hl z, if_neg hodd]
      ring
  have hPm1 : (-1 : F) ∉ rP := by
    intro h
    by_cases hodd : p % 2 = 1
    · obtain ⟨l, hl⟩ := prod_roots_split rP (-1) h
      refine (hD (-1) (fun z => (l.map (fun s => z - s)).prod * (z - 1))
        ((continuous_prod_roots l).mul (continuous_id.sub continuous_const))).1 (fun z => ?_)
      rw [(hfac z).1, hl z, if_pos hodd]
      ring
    · exact hN (-1) (hzP (-1) h) (lsfSplit_snd_root_neg_one a (by omega))
  have hQ1 : (1 : F) ∉ rQ := fun h => hN 1 hone (hzQ 1 h)
  have hQm1 : (-1 : F) ∉ rQ := by
    intro h
    by_cases hodd : p % 2 = 1
    · exact hN (-1) (lsfSplit_fst_root_neg_one a (by omega)) (hzQ (-1) h)
    · obtain ⟨l, hl⟩ := prod_roots_split rQ (-1) h
      refine (hD (-1) (fun z => (l.map (fun s => z - s)).prod) (continuous_prod_roots l)).2
        (fun z => ?_)
      rw [(hfac z).2, hl z, if_neg hodd]
      ring
  have hfixP : Continuous (fun z : F => if p % 2 = 1 then z ^ 2 - 1 else z - 1) := by
    by_cases hodd : p % 2 = 1
    · simp only [if_pos hodd]; fun_prop
    · simp only [if_neg hodd]; fun_prop
  have hfixQ : Continuous (fun z : F => if p % 2 = 1 then (1 : F) else z + 1) := by
    by_cases hodd : p % 2 = 1
    · simp only [if_pos hodd]; fun_prop
    · simp only [if_neg hodd]; fun_prop
  refine ⟨?_, ?_, ?_, ?_⟩
  · intro r hr
    rcases List.mem_append.mp hr with h | h
    · refine ⟨?_, fun h1 => hP1 (h1 ▸ h), fun h1 => hPm1 (h1 ▸ h)⟩
      by_contra hne
      exact (hU r hne).1 (hzP r h)
    · refine ⟨?_, fun h1 => hQ1 (h1 ▸ h), fun h1 => hQm1 (h1 ▸ h)⟩
      by_contra hne
      exact (hU r hne).2 (hzQ r h)
  · rw [List.nodup_append]
    refine ⟨?_, ?_, ?_⟩
    · by_contra hdup
      obtain ⟨r, l, hl⟩ := prod_roots_split_dup rP hdup
      refine (hD r (fun z => (l.map (fun s => z - s)).prod
          * (if p % 2 = 1 then z ^ 2 - 1 else z - 1))
        ((continuous_prod_roots l).mul hfixP)).1 (fun z => ?_)
      rw [(hfac z).1, hl z]
      ring
    · by_contra hdup
      obtain ⟨r, l, hl⟩ := prod_roots_split_dup rQ hdup
      refine (hD r (fun z => (l.map (fun s => z - s)).prod
          * (if p % 2 = 1 then (1 : F) else z + 1))
        ((continuous_prod_roots l).mul hfixQ)).2 (fun z => ?_)
      rw [(hfac z).2, hl z]
      ring
    · intro x hx y hy hxy
      exact hN x (hzP x hx) (hxy ▸ hzQ y hy)
  · intro r hr
    have h0 : polyEval (lsfSplit a).1 (star r) = 0 := by
      rw [polyEval_star _ (fun j => (lsfSplit_star_fixed a hareal j).1), hzP r hr, star_zero]
    rw [(hfac (star r)).1] at h0
    have hs1 : star r ≠ 1 := fun h => hP1 (by
      have : r = 1 := by rw [← star_star r, h, star_one]
      rw [← this]; exact hr)
    have hsm1 : star r ≠ -1 := fun h => hPm1 (by
      have : r = -1 := by rw [← star_star r, h, star_neg, star_one]
      rw [← this]; exact hr)
    have hfne : (if p % 2 = 1 then star r ^ 2 - 1 else star r - 1) ≠ 0 := by
      by_cases hodd : p % 2 = 1
      · rw [if_pos hodd]
        have : star r ^ 2 - 1 = (star r - 1) * (star r + 1) := by ring
        rw [this]
        exact mul_ne_zero (sub_ne_zero.mpr hs1) (fun h => hsm1 (eq_neg_of_add_eq_zero_left h))
      · rw [if_neg hodd]; exact sub_ne_zero.mpr hs1
    exact mem_of_prod_roots_eq_zero rP _ ((mul_eq_zero.mp h0).resolve_right hfne)
  · intro r hr
    have h0 : polyEval (lsfSplit a).2 (star r) = 0 := by
      rw [polyEval_star _ (fun j => (lsfSplit_star_fixed a hareal j).2), hzQ r hr, star_zero]
    rw [(hfac (star r)).2] at h0
    have hsm1 : star r ≠ -1 := fun h => hQm1 (by
      have : r = -1 := by rw [← star_star r, h, star_neg, star_one]
      rw [← this]; exact hr)
    have hfne : (if p % 2 = 1 then (1 : F) else star r + 1) ≠ 0 := by
      by_cases hodd : p % 2 = 1
      · rw [if_pos hodd]; exact one_ne_zero
      · rw [if_neg hodd]; exact fun h => hsm1 (eq_neg_of_add_eq_zero_left h)
    exact mem_of_prod_roots_eq_zero rQ _ ((mul_eq_zero.mp h0).resolve_right hfne)

end Computed

/-! ### angles of unimodular complex numbers -/

section Angles

/-- a unimodular complex number other than `±1` is `e^{iθ}` with `θ = arg ∈ (−π, π)`, `θ ≠ 0`, and its
conjugate has the angle `−θ` -/
theorem unit_arg (r : ℂ) (h1 : ‖r‖ = 1) (hne1 : r ≠ 1) (hnem1 : r ≠ -1) :
    Complex.exp (r.arg * Complex.I) = r ∧ -Real.pi < r.arg ∧ r.arg < Real.pi ∧ r.arg ≠ 0
      ∧ (star r).arg = -r.arg := by
  have hexp : Complex.exp (r.arg * Complex.I) = r := by
    have := Complex.norm_mul_exp_arg_mul_I r
    rwa [h1, Complex.ofReal_one, one_mul] at this
  have hpi : r.arg ≠ Real.pi := by
    intro h; apply hnem1; rw [← hexp, h, Complex.exp_pi_mul_I]
  have h0 : r.arg ≠ 0 := by
    intro h; apply hne1; rw [← hexp, h]; simp
  refine ⟨hexp, Complex.neg_pi_lt_arg r, lt_of_le_of_ne (Complex.arg_le_pi r) hpi, h0, ?_⟩
  have := Complex.arg_conj r
  rwa [if_neg hpi] at this

/-- a duplicate-free list of complex numbers closed under conjugation, none of angle `0`, conjugation
negating the angle: exactly half of them have a positive angle -/
theorem pos_angle_count (L : List ℂ) (hnd : L.Nodup) (hconj : ∀ r ∈ L, star r ∈ L)
    (harg : ∀ r ∈ L, r.arg ≠ 0 ∧ (star r).arg = -r.arg) :
    2 * (L.filter (fun r => decide (0 < r.arg))).length = L.length := by
  have hperm : (L.map star).Perm L := by
    rw [List.perm_ext_iff_of_nodup (hnd.map star_injective) hnd]
    intro x
    constructor
    · intro hx
      obtain ⟨r, hr, rfl⟩ := List.mem_map.mp hx
      exact hconj r hr
    · intro hx
      exact List.mem_map.mpr ⟨star x, hconj x hx, star_star x⟩
  have h1 : List.countP (fun r : ℂ => decide (0 < r.arg)) L
      = List.countP (fun a => decide ¬ (decide (0 < a.arg)) = true) L := by
    rw [← hperm.countP_eq, List.countP_map]
    apply List.countP_congr
    intro r hr
    obtain ⟨h0, hc⟩ := harg r hr
    simp only [Function.comp, decide_eq_true_eq, hc]
    constructor
    · intro h; linarith
    · intro h
      rcases lt_or_gt_of_ne h0 with h' | h'
      · linarith
      · exact absurd h' h
  rw [← List.countP_eq_length_filter,
    List.length_eq_countP_add_countP (fun r : ℂ => decide (0 < r.arg)) (l := L), ← h1]
  ring

end Angles

end SpecVerif.LsfCircleL
