import SpecVerif.Proofs.Lemmas.Levinson
import Mathlib.Analysis.RCLike.Basic
/-
  Positive definiteness ⇒ positive stage errors and reflection coefficients inside the unit disc
  (over `ℝ` or `ℂ`, i.e. `RCLike K`).
-/
namespace SpecVerif
open Finset

variable {K : Type} [RCLike K]

/-- positive definiteness of the leading `(p+1)×(p+1)` Hermitian Toeplitz block built from `r` -/
def ToepPD (r : ℕ → K) (p : ℕ) : Prop :=
  ∀ v : ℕ → K, (∃ i, i ≤ p ∧ v i ≠ 0) →
    0 < RCLike.re (∑ i ∈ range (p + 1), ∑ j ∈ range (p + 1), star (v i) * hR r i j * v j)

theorem levRun_P_pos_of_PD (r0 : K) (T : List K) (h0 : star r0 = r0) (p : ℕ)
    (hpd : ToepPD (rseq r0 T) p) (m : ℕ) (hm : m ≤ p) : 0 < RCLike.re (levRun r0 T m).P := by
  induction m using Nat.strong_induction_on with
  | _ m ih =>
    have hP : ∀ j, j < m → (levRun r0 T j).P ≠ 0 := by
      intro j hj hz
      have := ih j hj (by omega)
      rw [hz] at this
      simp at this
    have hE := levRun_LevEq r0 T h0 m hP
    have hq := levEq_quadForm (rseq r0 T) m p hm _ _ hE
    have := hpd (fun i => if i ≤ m then alphaOf (levRun r0 T m).A i else 0)
      ⟨0, Nat.zero_le _, by simp⟩
    rw [hq] at this
    simpa using this

theorem one_sub_mul_star_eq (k : K) : 1 - k * star k = ((1 - ‖k‖ ^ 2 : ℝ) : K) := by
  have := RCLike.mul_conj k
  rw [starRingEnd_apply] at this
  rw [this]; push_cast; ring

theorem levK_norm_lt_one_of_pos (r0 : K) (T : List K) (i : ℕ)
    (h1 : 0 < RCLike.re (levRun r0 T i).P) (h2 : 0 < RCLike.re (levRun r0 T (i + 1)).P) :
    ‖levK r0 T i‖ < 1 := by
  rw [levRun_succ_P, one_sub_mul_star_eq, RCLike.re_mul_ofReal] at h2
  have h3 : 0 < 1 - ‖levK r0 T i‖ ^ 2 := by
    by_contra hneg
    have : RCLike.re (levRun r0 T i).P * (1 - ‖levK r0 T i‖ ^ 2) ≤ 0 :=
      mul_nonpos_of_nonneg_of_nonpos h1.le (not_lt.mp hneg)
    linarith
  have h4 : 0 ≤ ‖levK r0 T i‖ := norm_nonneg _
  nlinarith

end SpecVerif
