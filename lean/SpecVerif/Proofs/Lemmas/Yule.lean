import SpecVerif.Model.Estimators
import SpecVerif.Proofs.Lemmas.WienerKhinchin
import SpecVerif.Proofs.C09
import SpecVerif.Proofs.C10
import SpecVerif.Proofs.C11
import Mathlib.Analysis.RCLike.Basic
/-
  Helper lemmas for C12 (Yule–Walker estimator `aryule`, two-stage `maEstimate`).

  Nothing about the correlation, the Levinson recursion or the conversions is re-proved here: the
  lemmas below glue `C09.gram_autocorr` / `C09.toeplitz_quadratic_form`, `C10.levinson_solves` /
  `C10.levinson_pd` and `C11.poly2ac_ac2poly` together.  New material: the triangular argument showing
  that the 'autocorrelation' data matrix of a non-zero signal has trivial kernel, and the uniqueness of
  the solution of the normal equations of an injective matrix over `ℝ`/`ℂ`.
-/
namespace SpecVerif.YuleL
open Finset SpecVerif

/-! ### lists -/

section Lists
variable {K : Type} [Zero K]

theorem nth_tail (l : List K) (j : ℕ) : nth l.tail j = nth l (j + 1) := by
  unfold nth
  cases l with
  | nil => simp
  | cons a l => simp

theorem cons_nth_tail (l : List K) (h : l ≠ []) : nth l 0 :: l.tail = l := by
  cases l with
  | nil => exact absurd rfl h
  | cons a l => simp [nth]

end Lists

/-! ### generic field with involution -/

section Generic
variable {K : Type} [Field K] [StarRing K]

/-- the biased lags `0..p` handed to Levinson by `aryule` -/
theorem aryule_unfold (x : List K) (p : ℕ) :
    aryule x p .biased
      = levRun (rePart (nth (correlation x x p .biased 1) 0)) (correlation x x p .biased 1).tail p :=
  rfl

theorem yuleR_length (x : List K) (p : ℕ) (rms2 : K) :
    (correlation x x p .biased rms2).length = p + 1 := by
  simp [correlation]

theorem yuleR_ne_nil (x : List K) (p : ℕ) (rms2 : K) : correlation x x p .biased rms2 ≠ [] := by
  intro h
  have := yuleR_length x p rms2
  rw [h] at this
  simp at this

theorem yuleT_length (x : List K) (p : ℕ) (rms2 : K) :
    (correlation x x p .biased rms2).tail.length = p := by
  rw [List.length_tail, yuleR_length, Nat.add_sub_cancel]

/-- lag 0 of the biased autocorrelation is its own real part (when `2 ≠ 0`) -/
theorem rePart_r0 (x : List K) (p : ℕ) (rms2 : K) (h2 : (2 : K) ≠ 0) :
    rePart (nth (correlation x x p .biased rms2) 0) = nth (correlation x x p .biased rms2) 0 :=
  rePart_of_star_eq h2 (C09.biased_r0_eq_meanPow x p rms2).2

/-- `aryule` with the real part removed: Levinson on `r_0, r_1..r_p` -/
theorem aryule_eq_levRun (x : List K) (p : ℕ) (h2 : (2 : K) ≠ 0) :
    aryule x p .biased
      = levRun (nth (correlation x x p .biased 1) 0) (correlation x x p .biased 1).tail p := by
  rw [aryule_unfold, rePart_r0 x p 1 h2]

/-! #### trivial kernel of the 'autocorrelation' data matrix -/

omit [StarRing K] in
/-- triangular argument: with `j0` the first non-zero sample, row `j0 + j` of `X v = 0` reads
`x[j0]·v_j + (terms with v_b, b < j) = 0`. -/
theorem shift_injective (x : List K) (m : ℕ) (hx : ∃ j, j < x.length ∧ nth x j ≠ 0) (v : ℕ → K)
    (hv : ∀ i, i < x.length + m → ∑ j ∈ range (m + 1), shiftEntry x i j * v j = 0) :
    ∀ j, j ≤ m → v j = 0 := by
  classical
  have hex : ∃ j, nth x j ≠ 0 := let ⟨j, _, h⟩ := hx; ⟨j, h⟩
  have hj0ne : nth x (Nat.find hex) ≠ 0 := Nat.find_spec hex
  have hj0min : ∀ i, i < Nat.find hex → nth x i = 0 := fun i hi => by
    by_contra h; exact Nat.find_min hex hi h
  have hj0lt : Nat.find hex < x.length := by
    by_contra h
    exact hj0ne (nth_of_ge x _ (not_lt.mp h))
  generalize Nat.find hex = j0 at hj0ne hj0min hj0lt
  intro j
  induction j using Nat.strong_induction_on with
  | _ j ih =>
    intro hj
    have hrow := hv (j0 + j) (by omega)
    rw [Finset.sum_eq_single j] at hrow
    · have e : shiftEntry x (j0 + j) j = nth x j0 := by
        unfold shiftEntry
        rw [if_pos (by omega), Nat.add_sub_cancel]
      rw [e] at hrow
      exact (mul_eq_zero.mp hrow).resolve_left hj0ne
    · intro b hb hbj
      have hb' : b ≤ m := Nat.lt_succ_iff.mp (mem_range.mp hb)
      rcases Nat.lt_or_gt_of_ne hbj with h | h
      · rw [ih b h hb', mul_zero]
      · have e : shiftEntry x (j0 + j) b = 0 := by
          unfold shiftEntry
          by_cases hle : b ≤ j0 + j
          · rw [if_pos hle]; exact hj0min _ (by omega)
          · rw [if_neg hle]
        rw [e, zero_mul]
    · intro h
      exact absurd (mem_range.mpr (by omega)) h

/-- the same for the model's `corrmtx(x, m, 'autocorrelation')` -/
theorem corrmtx_injective (x : List K) (m : ℕ) (hx : ∃ j, j < x.length ∧ nth x j ≠ 0) (v : ℕ → K)
    (hv : ∀ i, i < x.length + m →
      ∑ j ∈ range (m + 1), mentry (corrmtx x m .autocorrelation) i j * v j = 0) :
    ∀ j, j ≤ m → v j = 0 := by
  apply shift_injective x m hx v
  intro i hi
  rw [← hv i hi]
  apply Finset.sum_congr rfl
  intro j hj
  rw [mentry_autocorrelation x m i j hi (Nat.lt_succ_iff.mp (mem_range.mp hj))]

/-! #### the Gram matrix applied to a vector -/

/-- `(Xᴴ X α)_b = N·(T α)_b` -/
theorem gram_apply (x : List K) (p : ℕ) (rms2 : K) (hN : (x.length : K) ≠ 0) (α : ℕ → K) (b : ℕ)
    (hb : b ≤ p) :
    ∑ i ∈ range (x.length + p), star (mentry (corrmtx x p .autocorrelation) i b)
        * ∑ j ∈ range (p + 1), mentry (corrmtx x p .autocorrelation) i j * α j
      = (x.length : K)
          * ∑ j ∈ range (p + 1), hermToep (correlation x x p .biased rms2) b j * α j := by
  have h1 : ∀ i ∈ range (x.length + p), star (mentry (corrmtx x p .autocorrelation) i b)
        * ∑ j ∈ range (p + 1), mentry (corrmtx x p .autocorrelation) i j * α j
      = ∑ j ∈ range (p + 1), (star (mentry (corrmtx x p .autocorrelation) i b)
          * mentry (corrmtx x p .autocorrelation) i j) * α j := by
    intro i _
    rw [Finset.mul_sum]
    apply Finset.sum_congr rfl
    intro j _
    rw [mul_assoc]
  rw [Finset.sum_congr rfl h1, Finset.sum_comm, Finset.mul_sum]
  apply Finset.sum_congr rfl
  intro j hj
  rw [← Finset.sum_mul, C09.gram_autocorr x p rms2 hN b j hb (Nat.lt_succ_iff.mp (mem_range.mp hj)),
    mul_assoc]

/-- `X_{i,0} + Σ_{j<p} X_{i,j+1} a_j = Σ_{j≤p} X_{i,j} α_j` with `α = [1, a]` -/
theorem resid_eq_sum (X : ℕ → K) (a : List K) (p : ℕ) :
    X 0 + ∑ j ∈ range p, X (j + 1) * nth a j = ∑ j ∈ range (p + 1), X j * alphaOf a j := by
  rw [Finset.sum_range_succ', alphaOf_zero, mul_one, add_comm]
  rfl

/-- the Levinson normal equations for `aryule`, in `hermToep` form -/
theorem aryule_toeplitz_rows (x : List K) (p : ℕ) (h2 : (2 : K) ≠ 0)
    (hP : (aryule x p .biased).P ≠ 0) (b : ℕ) (hb : b ≤ p) :
    ∑ j ∈ range (p + 1), hermToep (correlation x x p .biased 1) b j
        * alphaOf (aryule x p .biased).A j
      = if b = 0 then (aryule x p .biased).P else 0 := by
  rw [aryule_eq_levRun x p h2] at hP ⊢
  have h0 := (C09.biased_r0_eq_meanPow x p 1).2
  exact C10.levinson_solves _ _ p h0 (by rw [yuleT_length]) (fun j hj => levRun_P_ne_zero _ _ p hP j (by omega))
    (nth (correlation x x p .biased 1)) rfl (fun j => (nth_tail _ j).symm)
    (alphaOf _) rfl (fun _ => rfl) b hb

/-- normal equations of least squares on the 'autocorrelation' data matrix, all rows `b ≤ p`:
`Σ_i conj(X_ib)·(X_i0 + Σ_j X_{i,j+1} a_j) = N·P` for `b = 0` and `0` for `1 ≤ b ≤ p` -/
theorem aryule_normal_eq (x : List K) (p : ℕ) (h2 : (2 : K) ≠ 0) (hN : (x.length : K) ≠ 0)
    (hP : (aryule x p .biased).P ≠ 0) (b : ℕ) (hb : b ≤ p) :
    ∑ i ∈ range (x.length + p), star (mentry (corrmtx x p .autocorrelation) i b)
        * (mentry (corrmtx x p .autocorrelation) i 0
            + ∑ j ∈ range p, mentry (corrmtx x p .autocorrelation) i (j + 1)
                * nth (aryule x p .biased).A j)
      = if b = 0 then (x.length : K) * (aryule x p .biased).P else 0 := by
  have h1 : ∀ i ∈ range (x.length + p), star (mentry (corrmtx x p .autocorrelation) i b)
        * (mentry (corrmtx x p .autocorrelation) i 0
            + ∑ j ∈ range p, mentry (corrmtx x p .autocorrelation) i (j + 1)
                * nth (aryule x p .biased).A j)
      = star (mentry (corrmtx x p .autocorrelation) i b)
        * ∑ j ∈ range (p + 1), mentry (corrmtx x p .autocorrelation) i j
            * alphaOf (aryule x p .biased).A j := by
    intro i _
    rw [resid_eq_sum (fun j => mentry (corrmtx x p .autocorrelation) i j)]
  rw [Finset.sum_congr rfl h1, gram_apply x p 1 hN _ b hb, aryule_toeplitz_rows x p h2 hP b hb]
  by_cases h : b = 0
  · rw [if_pos h, if_pos h]
  · rw [if_neg h, if_neg h, mul_zero]

/-- `eᴴ e = Σ_b conj(α_b)·(Xᴴ e)_b` when `e = X α` -/
theorem energy_core (R C : ℕ) (X : ℕ → ℕ → K) (α e : ℕ → K)
    (he : ∀ i, e i = ∑ b ∈ range (C + 1), X i b * α b) :
    ∑ i ∈ range R, star (e i) * e i
      = ∑ b ∈ range (C + 1), star (α b) * ∑ i ∈ range R, star (X i b) * e i := by
  have h1 : ∀ i ∈ range R, star (e i) * e i
      = ∑ b ∈ range (C + 1), star (α b) * (star (X i b) * e i) := by
    intro i _
    have hs : star (e i) = ∑ b ∈ range (C + 1), star (α b) * star (X i b) := by
      rw [he i, star_sum]
      apply Finset.sum_congr rfl
      intro b _
      rw [star_mul']
      ring
    rw [hs, Finset.sum_mul]
    apply Finset.sum_congr rfl
    intro b _
    rw [mul_assoc]
  rw [Finset.sum_congr rfl h1, Finset.sum_comm]
  apply Finset.sum_congr rfl
  intro b _
  rw [Finset.mul_sum]

/-- the residual energy of the Yule–Walker fit on the 'autocorrelation' data matrix is `N·P` -/
theorem aryule_resid_energy (x : List K) (p : ℕ) (h2 : (2 : K) ≠ 0) (hN : (x.length : K) ≠ 0)
    (hP : (aryule x p .biased).P ≠ 0) :
    ∑ i ∈ range (x.length + p),
        star (mentry (corrmtx x p .autocorrelation) i 0
            + ∑ j ∈ range p, mentry (corrmtx x p .autocorrelation) i (j + 1)
                * nth (aryule x p .biased).A j)
        * (mentry (corrmtx x p .autocorrelation) i 0
            + ∑ j ∈ range p, mentry (corrmtx x p .autocorrelation) i (j + 1)
                * nth (aryule x p .biased).A j)
      = (x.length : K) * (aryule x p .biased).P := by
  rw [energy_core (x.length + p) p (fun i b => mentry (corrmtx x p .autocorrelation) i b)
    (alphaOf (aryule x p .biased).A)
    (fun i => mentry (corrmtx x p .autocorrelation) i 0
            + ∑ j ∈ range p, mentry (corrmtx x p .autocorrelation) i (j + 1)
                * nth (aryule x p .biased).A j)
    (fun i => resid_eq_sum (fun j => mentry (corrmtx x p .autocorrelation) i j) _ p)]
  rw [Finset.sum_range_succ', aryule_normal_eq x p h2 hN hP 0 (Nat.zero_le _), if_pos rfl,
    alphaOf_zero, star_one, one_mul]
  have : ∑ b ∈ range p, star (alphaOf (aryule x p .biased).A (b + 1))
      * ∑ i ∈ range (x.length + p), star (mentry (corrmtx x p .autocorrelation) i (b + 1))
        * (mentry (corrmtx x p .autocorrelation) i 0
            + ∑ j ∈ range p, mentry (corrmtx x p .autocorrelation) i (j + 1)
                * nth (aryule x p .biased).A j) = 0 := by
    apply Finset.sum_eq_zero
    intro b hb
    rw [aryule_normal_eq x p h2 hN hP (b + 1) (by have := mem_range.mp hb; omega),
      if_neg (Nat.succ_ne_zero b), mul_zero]
  rw [this, zero_add]

end Generic

/-! ### real or complex data -/

section RC
variable {F : Type} [RCLike F]

theorem two_ne_zero_rc : (2 : F) ≠ 0 := two_ne_zero

/-- `Σ_i conj(S_i)·S_i` is the non-negative real `Σ_i |S_i|²` -/
theorem sum_star_mul_self_rc (R : ℕ) (S : ℕ → F) :
    ∑ i ∈ range R, star (S i) * S i = ((∑ i ∈ range R, ‖S i‖ ^ 2 : ℝ) : F) := by
  rw [RCLike.ofReal_sum]
  apply Finset.sum_congr rfl
  intro i _
  rw [← starRingEnd_apply, RCLike.conj_mul, RCLike.ofReal_pow]

/-- `vᴴ T v = ‖X v‖² / N` as an element of `F` (the `RCLike` form of `C09.toeplitz_psd`) -/
theorem quad_form_eq_rc (x : List F) (hN : 0 < x.length) (m : ℕ) (rms2 : F) (v : ℕ → F) :
    ∑ a ∈ range (m + 1), ∑ b ∈ range (m + 1),
        star (v a) * hermToep (correlation x x m .biased rms2) a b * v b
      = (((∑ i ∈ range (x.length + m),
            ‖∑ b ∈ range (m + 1), mentry (corrmtx x m .autocorrelation) i b * v b‖ ^ 2)
          / (x.length : ℝ) : ℝ) : F) := by
  have hNC : ((x.length : ℕ) : F) ≠ 0 := by
    exact_mod_cast hN.ne'
  have h := C09.toeplitz_quadratic_form x m rms2 hNC v
  rw [sum_star_mul_self_rc] at h
  rw [RCLike.ofReal_div, RCLike.ofReal_natCast, ← h, mul_div_cancel_left₀ _ hNC]

/-- positive definiteness of the Toeplitz form of the biased autocorrelation of a non-zero signal -/
theorem toeplitz_pd_rc (x : List F) (hx : ∃ j, j < x.length ∧ nth x j ≠ 0) (m : ℕ) (rms2 : F)
    (v : ℕ → F) (hv : ∃ i, i ≤ m ∧ v i ≠ 0) :
    0 < RCLike.re (∑ a ∈ range (m + 1), ∑ b ∈ range (m + 1),
        star (v a) * hermToep (correlation x x m .biased rms2) a b * v b) := by
  have hN : 0 < x.length := by
    obtain ⟨j, hj, _⟩ := hx
    omega
  rw [quad_form_eq_rc x hN m rms2 v, RCLike.ofReal_re]
  apply div_pos _ (by exact_mod_cast hN)
  apply Finset.sum_pos'
  · intro i _
    exact sq_nonneg _
  · by_contra hcon
    push Not at hcon
    obtain ⟨i, hi, hvi⟩ := hv
    apply hvi
    apply corrmtx_injective x m hx v _ i hi
    intro i' hi'
    have := hcon i' (mem_range.mpr hi')
    have h0 : ‖∑ b ∈ range (m + 1), mentry (corrmtx x m .autocorrelation) i' b * v b‖ ^ 2 = 0 :=
      le_antisymm this (sq_nonneg _)
    exact norm_eq_zero.mp ((pow_eq_zero_iff two_ne_zero).mp h0)

/-- the hypothesis of `C10.levinson_pd` for the lags of `aryule` -/
theorem yule_pd_form (x : List F) (hx : ∃ j, j < x.length ∧ nth x j ≠ 0) (p : ℕ) (rms2 : F)
    (v : ℕ → F) (hv : ∃ i, i ≤ p ∧ v i ≠ 0) :
    0 < RCLike.re (∑ i ∈ range (p + 1), ∑ j ∈ range (p + 1),
        star (v i) * (if j ≤ i then nth (correlation x x p .biased rms2) (i - j)
          else star (nth (correlation x x p .biased rms2) (j - i))) * v j) :=
  toeplitz_pd_rc x hx p rms2 v hv

/-- all stage errors real and positive, all reflection coefficients inside the unit disc -/
theorem aryule_pd_params (x : List F) (hx : ∃ j, j < x.length ∧ nth x j ≠ 0) (p : ℕ) :
    (∀ m, m ≤ p →
      star (levRun (nth (correlation x x p .biased 1) 0) (correlation x x p .biased 1).tail m).P
        = (levRun (nth (correlation x x p .biased 1) 0) (correlation x x p .biased 1).tail m).P ∧
      0 < RCLike.re
        (levRun (nth (correlation x x p .biased 1) 0) (correlation x x p .biased 1).tail m).P) ∧
    (∀ i, i < p → ‖nth (aryule x p .biased).ref i‖ < 1) := by
  rw [aryule_eq_levRun x p two_ne_zero_rc]
  exact C10.levinson_pd _ _ p (C09.biased_r0_eq_meanPow x p 1).2 (by rw [yuleT_length])
    (nth (correlation x x p .biased 1)) rfl (fun j => (nth_tail _ j).symm)
    (yule_pd_form x hx p 1)

theorem aryule_P_pos (x : List F) (hx : ∃ j, j < x.length ∧ nth x j ≠ 0) (p : ℕ) :
    star (aryule x p .biased).P = (aryule x p .biased).P ∧ 0 < RCLike.re (aryule x p .biased).P := by
  have h := (aryule_pd_params x hx p).1 p le_rfl
  rw [← aryule_eq_levRun x p two_ne_zero_rc] at h
  exact h

theorem aryule_P_ne_zero (x : List F) (hx : ∃ j, j < x.length ∧ nth x j ≠ 0) (p : ℕ) :
    (aryule x p .biased).P ≠ 0 := by
  intro h
  have := (aryule_P_pos x hx p).2
  rw [h] at this
  simp at this

/-! #### uniqueness of the least-squares solution -/

/-- if `X` (rows `i < R`, columns `j ≤ C`) has trivial kernel, two solutions of the normal equations
`X_cᴴ (X_0 + X_c a) = 0` agree -/
theorem normal_eq_unique (R C : ℕ) (X : ℕ → ℕ → F)
    (hinj : ∀ v : ℕ → F, (∀ i, i < R → ∑ j ∈ range (C + 1), X i j * v j = 0) →
      ∀ j, j ≤ C → v j = 0)
    (a a' : ℕ → F)
    (ha : ∀ b, 1 ≤ b → b ≤ C →
      ∑ i ∈ range R, star (X i b) * (X i 0 + ∑ j ∈ range C, X i (j + 1) * a j) = 0)
    (ha' : ∀ b, 1 ≤ b → b ≤ C →
      ∑ i ∈ range R, star (X i b) * (X i 0 + ∑ j ∈ range C, X i (j + 1) * a' j) = 0) :
    ∀ j, j < C → a j = a' j := by
  -- the difference vector, padded with a leading zero
  let w : ℕ → F := fun j => if j = 0 then 0 else a (j - 1) - a' (j - 1)
  let S : ℕ → F := fun i => ∑ j ∈ range (C + 1), X i j * w j
  have hS : ∀ i, S i = (X i 0 + ∑ j ∈ range C, X i (j + 1) * a j)
      - (X i 0 + ∑ j ∈ range C, X i (j + 1) * a' j) := by
    intro i
    show ∑ j ∈ range (C + 1), X i j * w j = _
    rw [Finset.sum_range_succ', add_sub_add_left_eq_sub, ← Finset.sum_sub_distrib]
    have : X i 0 * w 0 = 0 := by simp [w]
    rw [this, add_zero]
    apply Finset.sum_congr rfl
    intro j _
    simp only [w, Nat.succ_ne_zero, if_false, Nat.add_sub_cancel]
    ring
  have hcol : ∀ b, b ≤ C → star (w b) * ∑ i ∈ range R, star (X i b) * S i = 0 := by
    intro b hb
    rcases Nat.eq_zero_or_pos b with h0 | hpos
    · subst h0
      simp [w]
    · have : ∑ i ∈ range R, star (X i b) * S i = 0 := by
        simp only [hS, mul_sub]
        rw [Finset.sum_sub_distrib, ha b hpos hb, ha' b hpos hb, sub_zero]
      rw [this, mul_zero]
  have hquad : ∑ i ∈ range R, star (S i) * S i = 0 := by
    have e : ∀ i ∈ range R, star (S i) * S i
        = ∑ b ∈ range (C + 1), star (w b) * (star (X i b) * S i) := by
      intro i _
      have : star (S i) = ∑ b ∈ range (C + 1), star (w b) * star (X i b) := by
        show star (∑ j ∈ range (C + 1), X i j * w j) = _
        rw [star_sum]
        apply Finset.sum_congr rfl
        intro b _
        rw [star_mul']
        ring
      rw [this, Finset.sum_mul]
      apply Finset.sum_congr rfl
      intro b _
      rw [mul_assoc]
    rw [Finset.sum_congr rfl e, Finset.sum_comm]
    apply Finset.sum_eq_zero
    intro b hb
    rw [← Finset.mul_sum]
    exact hcol b (Nat.lt_succ_iff.mp (mem_range.mp hb))
  rw [sum_star_mul_self_rc] at hquad
  have hsum : ∑ i ∈ range R, ‖S i‖ ^ 2 = 0 := RCLike.ofReal_eq_zero.mp hquad
  have hzero : ∀ i, i < R → S i = 0 := by
    intro i hi
    have := (Finset.sum_eq_zero_iff_of_nonneg (fun i _ => sq_nonneg ‖S i‖)).mp hsum i
      (mem_range.mpr hi)
    exact norm_eq_zero.mp ((pow_eq_zero_iff two_ne_zero).mp this)
  have hw := hinj w hzero
  intro j hj
  have := hw (j + 1) (by omega)
  simp only [w, Nat.succ_ne_zero, if_false, Nat.add_sub_cancel] at this
  exact sub_eq_zero.mp this

/-! #### the least-squares criterion at any other coefficient vector -/

/-- Pythagoras: if `Dᴴ e = 0` then `‖e + D‖² = ‖e‖² + ‖D‖²` -/
theorem pyth_core (R : ℕ) (e D : ℕ → F) (h : ∑ i ∈ range R, star (D i) * e i = 0) :
    ∑ i ∈ range R, ‖e i + D i‖ ^ 2
      = ∑ i ∈ range R, ‖e i‖ ^ 2 + ∑ i ∈ range R, ‖D i‖ ^ 2 := by
  have h' : ∑ i ∈ range R, star (e i) * D i = 0 := by
    have := congrArg star h
    rw [star_sum, star_zero] at this
    rw [← this]
    apply Finset.sum_congr rfl
    intro i _
    rw [star_mul', star_star, mul_comm]
  have key : ∑ i ∈ range R, star (e i + D i) * (e i + D i)
      = ∑ i ∈ range R, star (e i) * e i + ∑ i ∈ range R, star (D i) * D i := by
    have e1 : ∀ i ∈ range R, star (e i + D i) * (e i + D i)
        = star (e i) * e i + star (D i) * D i + star (D i) * e i + star (e i) * D i := by
      intro i _
      rw [star_add]
      ring
    rw [Finset.sum_congr rfl e1, Finset.sum_add_distrib, Finset.sum_add_distrib,
      Finset.sum_add_distrib, h, h', add_zero, add_zero]
  rw [sum_star_mul_self_rc, sum_star_mul_self_rc, sum_star_mul_self_rc, ← RCLike.ofReal_add] at key
  exact (RCLike.ofReal_inj (K := F)).mp key

/-- a solution `a` of the normal equations minimises `‖X_0 + X_c a'‖²` over all `a'`, with excess
`‖X_c (a' - a)‖²` -/
theorem ls_pythagoras (R C : ℕ) (X : ℕ → ℕ → F) (a a' : ℕ → F)
    (ha : ∀ b, 1 ≤ b → b ≤ C →
      ∑ i ∈ range R, star (X i b) * (X i 0 + ∑ j ∈ range C, X i (j + 1) * a j) = 0) :
    ∑ i ∈ range R, ‖X i 0 + ∑ j ∈ range C, X i (j + 1) * a' j‖ ^ 2
      = ∑ i ∈ range R, ‖X i 0 + ∑ j ∈ range C, X i (j + 1) * a j‖ ^ 2
        + ∑ i ∈ range R, ‖∑ j ∈ range C, X i (j + 1) * (a' j - a j)‖ ^ 2 := by
  have hcross : ∑ i ∈ range R, star (∑ j ∈ range C, X i (j + 1) * (a' j - a j))
      * (X i 0 + ∑ j ∈ range C, X i (j + 1) * a j) = 0 := by
    have e1 : ∀ i ∈ range R, star (∑ j ∈ range C, X i (j + 1) * (a' j - a j))
        * (X i 0 + ∑ j ∈ range C, X i (j + 1) * a j)
        = ∑ b ∈ range C, star (a' b - a b)
            * (star (X i (b + 1)) * (X i 0 + ∑ j ∈ range C, X i (j + 1) * a j)) := by
      intro i _
      rw [star_sum, Finset.sum_mul]
      apply Finset.sum_congr rfl
      intro b _
      rw [star_mul']
      ring
    rw [Finset.sum_congr rfl e1, Finset.sum_comm]
    apply Finset.sum_eq_zero
    intro b hb
    rw [← Finset.mul_sum, ha (b + 1) (by omega) (by have := mem_range.mp hb; omega), mul_zero]
  rw [← pyth_core R _ _ hcross]
  apply Finset.sum_congr rfl
  intro i _
  congr 2
  rw [add_assoc, ← Finset.sum_add_distrib]
  congr 1
  apply Finset.sum_congr rfl
  intro j _
  ring

end RC

end SpecVerif.YuleL
