import SpecVerif.Proofs.Lemmas.Minvar
import SpecVerif.Proofs.Lemmas.Levinson
import SpecVerif.Proofs.Lemmas.LinPred
import SpecVerif.Proofs.Lemmas.LevinsonPD
import SpecVerif.Proofs.Lemmas.Burg
import Mathlib.Algebra.BigOperators.Ring.List
import Mathlib.Analysis.RCLike.Basic
import Mathlib.Tactic.LinearCombination
/-
  The Gohberg–Semencul identity, by finite sums only.

  `R = hR r` is the Hermitian Toeplitz matrix of the lags `r` (`R_{ij} = r(i-j)` for `j ≤ i`,
  `conj r(j-i)` above the diagonal, `Lemmas/Levinson.lean`), `a = [1, a_1, …, a_p]` and `P` solve the
  order-`p` normal equations `Σ_j R_{ij} a_j = P δ_{i0}` (`LevEq r p a P`), and
  `G = gsG (p+1) a = L₁L₁ᴴ − L₂L₂ᴴ` (`Lemmas/Minvar.lean`).  Then `R·G = P·I = G·R` on the indices
  `≤ p`, hence every right (or left) inverse of `R` equals `G/P`.

  Proof: `C = R·G` has first column `P e_0` (normal equations, `G_{l0} = a_l`), last column `P e_p`
  (conjugate-reversed equations, `G_{lp} = conj a_{p-l}`), and is constant along its diagonals
  (`C_{i+1,j+1} = C_{ij}`, from the displacement recursion
  `G_{i+1,j+1} = G_{ij} + a_{i+1} conj a_{j+1} − b_{i+1} conj b_{j+1}` and `R_{i+1,l+1} = R_{il}`).
-/
namespace SpecVerif.GSL
open Finset SpecVerif SpecVerif.MinvarL

variable {K : Type} [Field K] [StarRing K]

/-! ### entries of the Gohberg–Semencul matrix -/

theorem gsB_zero (m : ℕ) (a : ℕ → K) : gsB m a 0 = 0 := by
  unfold gsB; rw [if_pos rfl]

theorem gsB_succ (m : ℕ) (a : ℕ → K) (s : ℕ) : gsB m a (s + 1) = star (a (m - (s + 1))) := by
  unfold gsB; rw [if_neg (Nat.succ_ne_zero s)]

/-- displacement recursion: `G_{i+1,j+1} = G_{ij} + a_{i+1} conj a_{j+1} − b_{i+1} conj b_{j+1}` -/
theorem gsG_succ_succ (m : ℕ) (a : ℕ → K) (i j : ℕ) :
    gsG m a (i + 1) (j + 1)
      = gsG m a i j
        + (a (i + 1) * star (a (j + 1)) - gsB m a (i + 1) * star (gsB m a (j + 1))) := by
  unfold gsG
  have hmin : min (i + 1) (j + 1) = min i j + 1 := by omega
  rw [hmin, Finset.sum_range_succ' _ (min i j + 1)]
  simp only [Nat.add_sub_add_right, Nat.sub_zero]

/-- first column: `G_{i0} = a_i` (for `a_0 = 1`) -/
theorem gsG_col_zero (m : ℕ) (a : ℕ → K) (ha0 : a 0 = 1) (i : ℕ) : gsG m a i 0 = a i := by
  unfold gsG
  have hmin : min i 0 = 0 := by omega
  rw [hmin, Finset.sum_range_one, Nat.sub_zero, Nat.sub_zero, gsB_zero, star_zero, mul_zero,
    sub_zero, ha0, star_one, mul_one]

/-- first row: `G_{0j} = conj a_j` -/
theorem gsG_row_zero (m : ℕ) (a : ℕ → K) (ha0 : a 0 = 1) (j : ℕ) :
    gsG m a 0 j = star (a j) := by
  rw [gsG_hermitian m a j 0, gsG_col_zero m a ha0]

/-- last row: `G_{pj} = a_{p-j}` for the `(p+1) × (p+1)` matrix (the two sums telescope) -/
theorem gsG_row_last (p : ℕ) (a : ℕ → K) (ha0 : a 0 = 1) (j : ℕ) (hj : j ≤ p) :
    gsG (p + 1) a p j = a (p - j) := by
  have hd := gsG_diag (p + 1) a j (p - j)
  have e : j + (p - j) = p := by omega
  rw [e] at hd
  rw [hd, Finset.sum_range_succ', Nat.zero_add, gsB_zero, star_zero, mul_zero, sub_zero, ha0,
    star_one, mul_one, Finset.sum_sub_distrib]
  have h2 : ∑ s ∈ range j, gsB (p + 1) a (s + 1 + (p - j)) * star (gsB (p + 1) a (s + 1))
      = ∑ s ∈ range j, a (s + 1 + (p - j)) * star (a (s + 1)) := by
    rw [← Finset.sum_range_reflect]
    apply Finset.sum_congr rfl
    intro s hs
    have hs' := mem_range.mp hs
    have e1 : j - 1 - s + 1 + (p - j) = (p - s - 1) + 1 := by omega
    rw [e1, gsB_succ, gsB_succ, star_star, mul_comm]
    congr 2
    · omega
    · congr 1; omega
  rw [h2, sub_self, zero_add]

/-- last column: `G_{lp} = conj a_{p-l}` -/
theorem gsG_col_last (p : ℕ) (a : ℕ → K) (ha0 : a 0 = 1) (l : ℕ) (hl : l ≤ p) :
    gsG (p + 1) a l p = star (a (p - l)) := by
  rw [gsG_hermitian (p + 1) a p l, gsG_row_last p a ha0 l hl]

/-! ### the product `C = R·G` -/

/-- entry `(i, j)` of `R·G`, `R = hR r`, `G = gsG (p+1) a` -/
def gsC (r : ℕ → K) (p : ℕ) (a : ℕ → K) (i j : ℕ) : K :=
  ∑ l ∈ range (p + 1), hR r i l * gsG (p + 1) a l j

/-- first column of `R·G`: the normal equations -/
theorem gsC_col_zero (r : ℕ → K) (p : ℕ) (a : ℕ → K) (P : K) (ha0 : a 0 = 1)
    (hN : LevEq r p a P) (i : ℕ) (hi : i ≤ p) :
    gsC r p a i 0 = if i = 0 then P else 0 := by
  unfold gsC
  simp only [gsG_col_zero (p + 1) a ha0]
  exact hN i hi

/-- last column of `R·G`: the conjugate-reversed normal equations -/
theorem gsC_col_last (r : ℕ → K) (h0 : star (r 0) = r 0) (p : ℕ) (a : ℕ → K) (P : K)
    (hP : star P = P) (ha0 : a 0 = 1) (hN : LevEq r p a P) (i : ℕ) (hi : i ≤ p) :
    gsC r p a i p = if i = p then P else 0 := by
  unfold gsC
  rw [← LevEqRev_of_LevEq r h0 p a P hP hN i hi]
  apply Finset.sum_congr rfl
  intro l hl
  rw [gsG_col_last p a ha0 l (Nat.lt_succ_iff.mp (mem_range.mp hl))]

/-- `R·G` is constant along its diagonals -/
theorem gsC_shift (r : ℕ → K) (h0 : star (r 0) = r 0) (p : ℕ) (a : ℕ → K) (P : K)
    (hP : star P = P) (ha0 : a 0 = 1) (hN : LevEq r p a P) (i j : ℕ) (hi : i < p) (hj : j < p) :
    gsC r p a (i + 1) (j + 1) = gsC r p a i j := by
  -- row `i+1 ≥ 1` of the normal equations
  have E1 := hN (i + 1) (by omega)
  rw [if_neg (Nat.succ_ne_zero i), Finset.sum_range_succ'] at E1
  simp only [hR_succ] at E1
  rw [ha0, mul_one] at E1
  -- row `i < p` of the reversed equations
  have E2 := LevEqRev_of_LevEq r h0 p a P hP hN i (by omega)
  rw [if_neg (by omega), Finset.sum_range_succ, Nat.sub_self, ha0, star_one, mul_one] at E2
  unfold gsC
  rw [Finset.sum_range_succ' _ p, Finset.sum_range_succ _ p]
  simp only [hR_succ, gsG_succ_succ, gsB_succ]
  rw [gsG_row_zero (p + 1) a ha0, gsG_row_last p a ha0 j (by omega), star_star]
  have e1 : p + 1 - (j + 1) = p - j := by omega
  have e2 : ∀ l, p + 1 - (l + 1) = p - l := fun l => by omega
  simp only [e1, e2]
  have hsplit : ∑ l ∈ range p, hR r i l *
        (gsG (p + 1) a l j + (a (l + 1) * star (a (j + 1)) - star (a (p - l)) * a (p - j)))
      = ∑ l ∈ range p, hR r i l * gsG (p + 1) a l j
        + (∑ l ∈ range p, hR r i l * a (l + 1)) * star (a (j + 1))
        - (∑ l ∈ range p, hR r i l * star (a (p - l))) * a (p - j) := by
    rw [Finset.sum_mul, Finset.sum_mul, ← Finset.sum_add_distrib, ← Finset.sum_sub_distrib]
    apply Finset.sum_congr rfl
    intro l _
    ring
  rw [hsplit]
  linear_combination star (a (j + 1)) * E1 - a (p - j) * E2

/-- sliding down a diagonal to column `0` -/
theorem gsC_lower (r : ℕ → K) (h0 : star (r 0) = r 0) (p : ℕ) (a : ℕ → K) (P : K)
    (hP : star P = P) (ha0 : a 0 = 1) (hN : LevEq r p a P) (d k : ℕ) (h : d + k ≤ p) :
    gsC r p a (d + k) k = gsC r p a d 0 := by
  induction k with
  | zero => rfl
  | succ k ih =>
    rw [← Nat.add_assoc, gsC_shift r h0 p a P hP ha0 hN (d + k) k (by omega) (by omega)]
    exact ih (by omega)

/-- sliding up a diagonal to column `p` -/
theorem gsC_upper (r : ℕ → K) (h0 : star (r 0) = r 0) (p : ℕ) (a : ℕ → K) (P : K)
    (hP : star P = P) (ha0 : a 0 = 1) (hN : LevEq r p a P) (e i j : ℕ) (hje : j + e = p)
    (hij : i ≤ j) : gsC r p a i j = gsC r p a (i + e) p := by
  induction e generalizing i j with
  | zero =>
    have : j = p := by omega
    subst this; rfl
  | succ e ih =>
    rw [← gsC_shift r h0 p a P hP ha0 hN i j (by omega) (by omega),
      ih (i + 1) (j + 1) (by omega) (by omega)]
    congr 1; omega

/-- **Gohberg–Semencul, `R·G = P·I`** (order `p`, indices `≤ p`) -/
theorem gsC_eq (r : ℕ → K) (h0 : star (r 0) = r 0) (p : ℕ) (a : ℕ → K) (P : K)
    (hP : star P = P) (ha0 : a 0 = 1) (hN : LevEq r p a P) (i j : ℕ) (hi : i ≤ p) (hj : j ≤ p) :
    gsC r p a i j = if i = j then P else 0 := by
  by_cases hij : j ≤ i
  · have e : i = (i - j) + j := by omega
    rw [e, gsC_lower r h0 p a P hP ha0 hN (i - j) j (by omega),
      gsC_col_zero r p a P ha0 hN (i - j) (by omega)]
    by_cases h : i = j
    · rw [if_pos (by omega), if_pos (by omega)]
    · rw [if_neg (by omega), if_neg (by omega)]
  · rw [gsC_upper r h0 p a P hP ha0 hN (p - j) i j (by omega) (by omega),
      gsC_col_last r h0 p a P hP ha0 hN (i + (p - j)) (by omega),
      if_neg (by omega), if_neg (by omega)]

/-! ### the statements for an `m × m` matrix, `m ≥ 1` -/

/-- the Hermitian Toeplitz entries with indices `< m` only see the lags `< m` -/
theorem hR_congr {r r' : ℕ → K} {m : ℕ} (h : ∀ d, d < m → r d = r' d) (i j : ℕ) (hi : i < m)
    (hj : j < m) : hR r i j = hR r' i j := by
  unfold hR
  by_cases hji : j ≤ i
  · rw [if_pos hji, if_pos hji, h _ (by omega)]
  · rw [if_neg hji, if_neg hji, h _ (by omega)]

/-- **`R·G = P·I`**: `m ≥ 1`, `a_0 = 1`, `r_0` and `P` self-adjoint, `Σ_{j<m} R_{ij} a_j = P δ_{i0}` for
`i < m`; then `Σ_{l<m} R_{il} G_{lj} = P δ_{ij}` for `i, j < m`. -/
theorem gs_right (m : ℕ) (hm : 1 ≤ m) (r a : ℕ → K) (P : K) (h0 : star (r 0) = r 0)
    (hP : star P = P) (ha0 : a 0 = 1)
    (hN : ∀ i, i < m → ∑ j ∈ range m, hR r i j * a j = if i = 0 then P else 0)
    (i j : ℕ) (hi : i < m) (hj : j < m) :
    ∑ l ∈ range m, hR r i l * gsG m a l j = if i = j then P else 0 := by
  obtain ⟨p, rfl⟩ : ∃ p, m = p + 1 := ⟨m - 1, by omega⟩
  have hL : LevEq r p a P := fun i hi => hN i (by omega)
  exact gsC_eq r h0 p a P hP ha0 hL i j (by omega) (by omega)

/-- **`G·R = P·I`** (mirror image, both matrices being Hermitian) -/
theorem gs_left (m : ℕ) (hm : 1 ≤ m) (r a : ℕ → K) (P : K) (h0 : star (r 0) = r 0)
    (hP : star P = P) (ha0 : a 0 = 1)
    (hN : ∀ i, i < m → ∑ j ∈ range m, hR r i j * a j = if i = 0 then P else 0)
    (i j : ℕ) (hi : i < m) (hj : j < m) :
    ∑ l ∈ range m, gsG m a i l * hR r l j = if i = j then P else 0 := by
  have h := congrArg star (gs_right m hm r a P h0 hP ha0 hN j i hj hi)
  rw [star_sum] at h
  have e : ∀ l ∈ range m, star (hR r j l * gsG m a l i) = gsG m a i l * hR r l j := by
    intro l _
    rw [star_mul', hR_star r h0, ← gsG_hermitian m a l i, mul_comm]
  rw [Finset.sum_congr rfl e] at h
  rw [h]
  by_cases hij : i = j
  · rw [if_pos hij, if_pos hij.symm, hP]
  · rw [if_neg hij, if_neg (fun h => hij h.symm), star_zero]

/-- **uniqueness (right inverses)**: any `X` with `R·X = I` on the indices `< m` is `G/P` -/
theorem gs_right_inverse_unique (m : ℕ) (hm : 1 ≤ m) (r a : ℕ → K) (P : K) (h0 : star (r 0) = r 0)
    (hP : star P = P) (hP0 : P ≠ 0) (ha0 : a 0 = 1)
    (hN : ∀ i, i < m → ∑ j ∈ range m, hR r i j * a j = if i = 0 then P else 0)
    (X : ℕ → ℕ → K)
    (hX : ∀ i j, i < m → j < m → ∑ l ∈ range m, hR r i l * X l j = if i = j then 1 else 0)
    (i j : ℕ) (hi : i < m) (hj : j < m) : X i j = gsG m a i j / P := by
  have hGR := gs_left m hm r a P h0 hP ha0 hN
  -- `Σ_k G_{ik} (R X)_{kj}` computed in two ways
  have h1 : ∑ k ∈ range m, gsG m a i k * ∑ l ∈ range m, hR r k l * X l j = gsG m a i j := by
    have e : ∀ k ∈ range m, gsG m a i k * ∑ l ∈ range m, hR r k l * X l j
        = if k = j then gsG m a i k else 0 := by
      intro k hk
      rw [hX k j (mem_range.mp hk) hj]
      split_ifs <;> simp
    rw [Finset.sum_congr rfl e, Finset.sum_ite_eq' (range m) j, if_pos (mem_range.mpr hj)]
  have h2 : ∑ k ∈ range m, gsG m a i k * ∑ l ∈ range m, hR r k l * X l j = P * X i j := by
    simp only [Finset.mul_sum]
    rw [Finset.sum_comm]
    have e : ∀ l ∈ range m, ∑ k ∈ range m, gsG m a i k * (hR r k l * X l j)
        = if l = i then P * X l j else 0 := by
      intro l hl
      have : ∑ k ∈ range m, gsG m a i k * (hR r k l * X l j)
          = (∑ k ∈ range m, gsG m a i k * hR r k l) * X l j := by
        rw [Finset.sum_mul]
        apply Finset.sum_congr rfl
        intro k _
        ring
      rw [this, hGR i l hi (mem_range.mp hl)]
      by_cases h : i = l
      · rw [if_pos h, if_pos h.symm]
      · rw [if_neg h, if_neg (fun h' => h h'.symm), zero_mul]
    rw [Finset.sum_congr rfl e, Finset.sum_ite_eq' (range m) i, if_pos (mem_range.mpr hi)]
  rw [eq_div_iff hP0, mul_comm, ← h2, h1]

/-- **uniqueness (left inverses)**: any `X` with `X·R = I` on the indices `< m` is `G/P` -/
theorem gs_left_inverse_unique (m : ℕ) (hm : 1 ≤ m) (r a : ℕ → K) (P : K) (h0 : star (r 0) = r 0)
    (hP : star P = P) (hP0 : P ≠ 0) (ha0 : a 0 = 1)
    (hN : ∀ i, i < m → ∑ j ∈ range m, hR r i j * a j = if i = 0 then P else 0)
    (X : ℕ → ℕ → K)
    (hX : ∀ i j, i < m → j < m → ∑ l ∈ range m, X i l * hR r l j = if i = j then 1 else 0)
    (i j : ℕ) (hi : i < m) (hj : j < m) : X i j = gsG m a i j / P := by
  have hRG := gs_right m hm r a P h0 hP ha0 hN
  -- `Σ_k (X R)_{ik} G_{kj}` computed in two ways
  have h1 : ∑ k ∈ range m, (∑ l ∈ range m, X i l * hR r l k) * gsG m a k j = gsG m a i j := by
    have e : ∀ k ∈ range m, (∑ l ∈ range m, X i l * hR r l k) * gsG m a k j
        = if k = i then gsG m a k j else 0 := by
      intro k hk
      rw [hX i k hi (mem_range.mp hk)]
      by_cases h : i = k
      · rw [if_pos h, if_pos h.symm, one_mul]
      · rw [if_neg h, if_neg (fun h' => h h'.symm), zero_mul]
    rw [Finset.sum_congr rfl e, Finset.sum_ite_eq' (range m) i, if_pos (mem_range.mpr hi)]
  have h2 : ∑ k ∈ range m, (∑ l ∈ range m, X i l * hR r l k) * gsG m a k j = X i j * P := by
    simp only [Finset.sum_mul]
    rw [Finset.sum_comm]
    have e : ∀ l ∈ range m, ∑ k ∈ range m, X i l * hR r l k * gsG m a k j
        = if l = j then X i l * P else 0 := by
      intro l hl
      have : ∑ k ∈ range m, X i l * hR r l k * gsG m a k j
          = X i l * ∑ k ∈ range m, hR r l k * gsG m a k j := by
        rw [Finset.mul_sum]
        apply Finset.sum_congr rfl
        intro k _
        ring
      rw [this, hRG l j (mem_range.mp hl) hj]
      split_ifs <;> simp
    rw [Finset.sum_congr rfl e, Finset.sum_ite_eq' (range m) j, if_pos (mem_range.mpr hj)]
  rw [eq_div_iff hP0, ← h2, h1]

/-! ### the Burg model solves the normal equations of the autocorrelation it implies -/

omit [StarRing K] in
theorem nth_tail (l : List K) (j : ℕ) : nth l.tail j = nth l (j + 1) := by
  cases l with
  | nil => rfl
  | cons x t => rfl

omit [StarRing K] in
theorem nth_one_cons (A : List K) : nth ((1 : K) :: A) = alphaOf A := by
  funext j
  cases j with
  | zero => rfl
  | succ j => rfl

/-- a non-zero Burg error power forces a non-zero mean power and reflection coefficients off the
unit circle (`ρ = ρ_0 ∏ (1 - k_i conj k_i)`) -/
theorem burg_domain_of_rho_ne_zero (x : List K) (p : ℕ) (hρ : (burgRun x p).rho ≠ 0) :
    (burgRun x 0).rho ≠ 0 ∧ ∀ k ∈ (burgRun x p).ref, 1 - k * star k ≠ 0 := by
  have hprod : (burgRun x p).rho
      = (burgRun x 0).rho * ((burgRun x p).ref.map (fun κ => 1 - κ * star κ)).prod :=
    BurgL.burgRun_rho_prod x p
  constructor
  · intro h
    apply hρ
    rw [hprod, h, zero_mul]
  · intro k hk h
    apply hρ
    rw [hprod]
    apply mul_eq_zero_of_right
    apply List.prod_eq_zero
    exact List.mem_map.mpr ⟨k, hk, h⟩

/-- **the Burg model solves the normal equations of its implied autocorrelation**: with
`ρ_0 = mean |x|²` (`(burgRun x 0).rho`), `k` the order-`p` Burg reflection coefficients and a non-zero
Burg error power `ρ`, any sequence `r` with `r_0 = ρ_0` and `r_j = rc2ac(k, ρ_0)[j]` (`1 ≤ j ≤ p`)
satisfies `Σ_{j ≤ p} R_{ij} α_j = ρ δ_{i0}` (`i ≤ p`) for the Burg polynomial `α = [1, a_1, …, a_p]`. -/
theorem burg_normal_equations (x : List K) (p : ℕ) (hρ : (burgRun x p).rho ≠ 0)
    (r : ℕ → K) (hr0 : r 0 = (burgRun x 0).rho)
    (hr : ∀ j, 0 < j → j ≤ p → r j = nth (rc2ac (burgRun x p).ref (burgRun x 0).rho) j)
    (i : ℕ) (hi : i < p + 1) :
    ∑ j ∈ range (p + 1), hR r i j * nth ((1 : K) :: (burgRun x p).a) j
      = if i = 0 then (burgRun x p).rho else 0 := by
  obtain ⟨hr0ne, hk⟩ := burg_domain_of_rho_ne_zero x p hρ
  have hprod : (burgRun x p).rho
      = (burgRun x 0).rho * ((burgRun x p).ref.map (fun κ => 1 - κ * star κ)).prod :=
    BurgL.burgRun_rho_prod x p
  have hlen : (burgRun x p).ref.length = p := BurgL.burgRun_ref_length x p
  have h := levRun_rc2ac_ref (burgRun x p).ref (burgRun x 0).rho hr0ne hk
    (burgRun x p).ref.length le_rfl
  rw [List.take_length, hlen] at h
  obtain ⟨_, hA, hPp⟩ := h
  have hA' : (levRun (burgRun x 0).rho (rc2ac (burgRun x p).ref (burgRun x 0).rho).tail p).A
      = (burgRun x p).a := by
    rw [hA, ← BurgL.burgRun_a_eq_rc2poly x p (burgRun x 0).rho]
  have hP' : (levRun (burgRun x 0).rho (rc2ac (burgRun x p).ref (burgRun x 0).rho).tail p).P
      = (burgRun x p).rho := by
    rw [hPp, rc2poly_error', hprod]
    congr 2
    apply List.map_congr_left
    intro κ _
    rw [mul_comm]
  have hLev := levRun_LevEq (burgRun x 0).rho (rc2ac (burgRun x p).ref (burgRun x 0).rho).tail
    (BurgL.burgRun_rho_star x 0) p
    (fun j hj => levRun_P_ne_zero _ _ p (by rw [hP']; exact hρ) j (by omega))
  rw [hA', hP'] at hLev
  rw [← hLev i (by omega), nth_one_cons]
  apply Finset.sum_congr rfl
  intro j hj
  have hj' := mem_range.mp hj
  rw [hR_congr (m := p + 1) (r' := rseq (burgRun x 0).rho
    (rc2ac (burgRun x p).ref (burgRun x 0).rho).tail) _ i j hi hj']
  intro d hd
  cases d with
  | zero => exact hr0
  | succ d => rw [hr (d + 1) (by omega) (by omega), rseq_succ, nth_tail]

/-! ### the quadratic form of an inverse -/

omit [StarRing K] in
/-- for `R·X = I` and `v = X e`: `R v = e` -/
theorem mul_inverse_apply (m : ℕ) (R X : ℕ → ℕ → K)
    (hRX : ∀ i j, i < m → j < m → ∑ l ∈ range m, R i l * X l j = if i = j then 1 else 0)
    (e : ℕ → K) (i : ℕ) (hi : i < m) :
    ∑ l ∈ range m, R i l * ∑ j ∈ range m, X l j * e j = e i := by
  simp only [Finset.mul_sum]
  rw [Finset.sum_comm]
  have h : ∀ j ∈ range m, ∑ l ∈ range m, R i l * (X l j * e j) = if j = i then e j else 0 := by
    intro j hj
    have : ∑ l ∈ range m, R i l * (X l j * e j) = (∑ l ∈ range m, R i l * X l j) * e j := by
      rw [Finset.sum_mul]
      apply Finset.sum_congr rfl
      intro l _
      ring
    rw [this, hRX i j hi (mem_range.mp hj)]
    by_cases h : i = j
    · rw [if_pos h, if_pos h.symm, one_mul]
    · rw [if_neg h, if_neg (fun h' => h h'.symm), zero_mul]
  rw [Finset.sum_congr rfl h, Finset.sum_ite_eq' (range m) i, if_pos (mem_range.mpr hi)]

/-- for a Hermitian `R` with `R·X = I` and `v = X e`: `eᴴ X e = vᴴ R v` -/
theorem quadForm_inverse (m : ℕ) (R X : ℕ → ℕ → K) (hR : ∀ i j, star (R i j) = R j i)
    (hRX : ∀ i j, i < m → j < m → ∑ l ∈ range m, R i l * X l j = if i = j then 1 else 0)
    (e : ℕ → K) :
    quadForm m X e = quadForm m R (fun l => ∑ j ∈ range m, X l j * e j) := by
  unfold quadForm
  have h1 : ∀ i ∈ range m, ∑ j ∈ range m, star (e i) * X i j * e j
      = ∑ l ∈ range m, star (∑ j ∈ range m, X l j * e j) * R l i * ∑ j ∈ range m, X i j * e j := by
    intro i hi
    have hv := mul_inverse_apply m R X hRX e i (mem_range.mp hi)
    have : ∑ j ∈ range m, star (e i) * X i j * e j = star (e i) * ∑ j ∈ range m, X i j * e j := by
      rw [Finset.mul_sum]
      apply Finset.sum_congr rfl
      intro j _
      ring
    rw [this, ← hv, star_sum, Finset.sum_mul]
    apply Finset.sum_congr rfl
    intro l _
    rw [star_mul', hR i l]
    ring
  rw [Finset.sum_congr rfl h1, Finset.sum_comm]

/-- the quadratic form of a Hermitian matrix is self-adjoint -/
theorem quadForm_star (m : ℕ) (R : ℕ → ℕ → K) (hR : ∀ i j, star (R i j) = R j i) (v : ℕ → K) :
    star (quadForm m R v) = quadForm m R v := by
  unfold quadForm
  rw [star_sum]
  simp only [star_sum]
  rw [Finset.sum_comm]
  apply Finset.sum_congr rfl
  intro i _
  apply Finset.sum_congr rfl
  intro j _
  rw [star_mul', star_mul', star_star, hR j i]
  ring

/-! ### the sesquilinear form of a Hermitian matrix -/

/-- `xᴴ R y = Σ_{i<N} Σ_{j<N} conj(x_i)·R_{ij}·y_j` -/
def sesq (N : ℕ) (R : ℕ → ℕ → K) (x y : ℕ → K) : K :=
  ∑ i ∈ range N, ∑ j ∈ range N, star (x i) * R i j * y j

theorem sesq_add_left (N : ℕ) (R : ℕ → ℕ → K) (x x' y : ℕ → K) :
    sesq N R (fun i => x i + x' i) y = sesq N R x y + sesq N R x' y := by
  unfold sesq
  rw [← Finset.sum_add_distrib]
  apply Finset.sum_congr rfl
  intro i _
  rw [← Finset.sum_add_distrib]
  apply Finset.sum_congr rfl
  intro j _
  rw [star_add]
  ring

theorem sesq_add_right (N : ℕ) (R : ℕ → ℕ → K) (x y y' : ℕ → K) :
    sesq N R x (fun j => y j + y' j) = sesq N R x y + sesq N R x y' := by
  unfold sesq
  rw [← Finset.sum_add_distrib]
  apply Finset.sum_congr rfl
  intro i _
  rw [← Finset.sum_add_distrib]
  apply Finset.sum_congr rfl
  intro j _
  ring

theorem sesq_smul_left (N : ℕ) (R : ℕ → ℕ → K) (c : K) (x y : ℕ → K) :
    sesq N R (fun i => c * x i) y = star c * sesq N R x y := by
  unfold sesq
  rw [Finset.mul_sum]
  apply Finset.sum_congr rfl
  intro i _
  rw [Finset.mul_sum]
  apply Finset.sum_congr rfl
  intro j _
  rw [star_mul']
  ring

theorem sesq_smul_right (N : ℕ) (R : ℕ → ℕ → K) (c : K) (x y : ℕ → K) :
    sesq N R x (fun j => c * y j) = c * sesq N R x y := by
  unfold sesq
  rw [Finset.mul_sum]
  apply Finset.sum_congr rfl
  intro i _
  rw [Finset.mul_sum]
  apply Finset.sum_congr rfl
  intro j _
  ring

/-- Hermitian symmetry -/
theorem sesq_star (N : ℕ) (R : ℕ → ℕ → K) (hR : ∀ i j, star (R i j) = R j i) (x y : ℕ → K) :
    star (sesq N R x y) = sesq N R y x := by
  unfold sesq
  rw [star_sum]
  simp only [star_sum]
  rw [Finset.sum_comm]
  apply Finset.sum_congr rfl
  intro i _
  apply Finset.sum_congr rfl
  intro j _
  rw [star_mul', star_mul', star_star, hR j i]
  ring

/-- against a vector `β` with `R β = P e_n`: `xᴴ R β = conj(x_n)·P` -/
theorem sesq_right_unit (N : ℕ) (R : ℕ → ℕ → K) (β : ℕ → K) (P : K) (n : ℕ) (hn : n < N)
    (hβ : ∀ i, i < N → ∑ j ∈ range N, R i j * β j = if i = n then P else 0) (x : ℕ → K) :
    sesq N R x β = star (x n) * P := by
  unfold sesq
  have h : ∀ i ∈ range N, ∑ j ∈ range N, star (x i) * R i j * β j
      = if i = n then star (x i) * P else 0 := by
    intro i hi
    have : ∑ j ∈ range N, star (x i) * R i j * β j = star (x i) * ∑ j ∈ range N, R i j * β j := by
      rw [Finset.mul_sum]
      apply Finset.sum_congr rfl
      intro j _
      ring
    rw [this, hβ i (mem_range.mp hi)]
    split_ifs <;> simp
  rw [Finset.sum_congr rfl h, Finset.sum_ite_eq' (range N) n, if_pos (mem_range.mpr hn)]

/-- **completing the square along `β`** (`R` Hermitian, `R β = P e_n`, `P` self-adjoint):
`(w + cβ)ᴴ R (w + cβ) = wᴴ R w + c·conj(w_n)·P + conj(c)·w_n·P + conj(c)·c·conj(β_n)·P` -/
theorem sesq_complete_square (N : ℕ) (R : ℕ → ℕ → K) (hR : ∀ i j, star (R i j) = R j i)
    (β : ℕ → K) (P : K) (hP : star P = P) (n : ℕ) (hn : n < N)
    (hβ : ∀ i, i < N → ∑ j ∈ range N, R i j * β j = if i = n then P else 0) (w : ℕ → K) (c : K) :
    sesq N R (fun i => w i + c * β i) (fun i => w i + c * β i)
      = sesq N R w w + c * (star (w n) * P) + star c * (w n * P)
        + star c * (c * (star (β n) * P)) := by
  have hright : ∀ x : ℕ → K, sesq N R x (fun i => w i + c * β i)
      = sesq N R x w + c * (star (x n) * P) := by
    intro x
    rw [sesq_add_right N R x w (fun j => c * β j), sesq_smul_right N R c x β,
      sesq_right_unit N R β P n hn hβ x]
  rw [sesq_add_left, hright w, sesq_smul_left, hright β]
  have hβw : sesq N R β w = w n * P := by
    rw [← sesq_star N R hR w β, sesq_right_unit N R β P n hn hβ w, star_mul', star_star, hP]
  rw [hβw]
  ring

/-- a vector vanishing at the last index only sees the leading block -/
theorem sesq_restrict (p : ℕ) (R : ℕ → ℕ → K) (w : ℕ → K) (hw : w (p + 1) = 0) :
    sesq (p + 1 + 1) R w w = sesq (p + 1) R w w := by
  unfold sesq
  rw [Finset.sum_range_succ _ (p + 1), hw, star_zero]
  simp only [zero_mul, Finset.sum_const_zero, add_zero]
  apply Finset.sum_congr rfl
  intro i _
  rw [Finset.sum_range_succ _ (p + 1), hw, mul_zero, add_zero]

section RC
variable {𝕜 : Type} [RCLike 𝕜]

/-- **the inverse of a positive definite Hermitian Toeplitz matrix is positive definite**: if
`vᴴ R v` has positive real part for every `v ≠ 0` and `R·X = I` (indices `< m`), then `eᴴ X e` is a
positive real number for every `e ≠ 0`. -/
theorem quadForm_inverse_pos (m : ℕ) (r : ℕ → 𝕜) (h0 : star (r 0) = r 0) (X : ℕ → ℕ → 𝕜)
    (hRX : ∀ i j, i < m → j < m → ∑ l ∈ range m, hR r i l * X l j = if i = j then 1 else 0)
    (hpd : ∀ v : ℕ → 𝕜, (∃ i, i < m ∧ v i ≠ 0) →
      0 < RCLike.re (∑ i ∈ range m, ∑ j ∈ range m, star (v i) * hR r i j * v j))
    (e : ℕ → 𝕜) (he : ∃ i, i < m ∧ e i ≠ 0) :
    ∃ q : ℝ, 0 < q ∧ ∑ i ∈ range m, ∑ j ∈ range m, star (e i) * X i j * e j = (q : 𝕜) := by
  have hq := quadForm_inverse m (hR r) X (hR_star r h0) hRX e
  have hs := quadForm_star m (hR r) (hR_star r h0) (fun l => ∑ j ∈ range m, X l j * e j)
  have hv : ∃ i, i < m ∧ (fun l => ∑ j ∈ range m, X l j * e j) i ≠ 0 := by
    by_contra hcon
    obtain ⟨i, hi, hei⟩ := he
    apply hei
    rw [← mul_inverse_apply m (hR r) X hRX e i hi]
    apply Finset.sum_eq_zero
    intro l hl
    have : (fun l => ∑ j ∈ range m, X l j * e j) l = 0 := by
      by_contra hne
      exact hcon ⟨l, mem_range.mp hl, hne⟩
    rw [show ∑ j ∈ range m, X l j * e j = 0 from this, mul_zero]
  refine ⟨RCLike.re (quadForm m (hR r) (fun l => ∑ j ∈ range m, X l j * e j)), hpd _ hv, ?_⟩
  show quadForm m X e = _
  rw [hq]
  exact (RCLike.conj_eq_iff_re.mp hs).symm

/-! ### positive stage errors ⇒ positive definite (the converse of `levRun_P_pos_of_PD`) -/

/-- one order up: if the leading `(p+1) × (p+1)` block is positive definite and the order-`(p+1)`
conjugate-reversed normal equations hold with a positive real error `P`, the `(p+2) × (p+2)` block is
positive definite (`vᴴ R v = wᴴ R w + |v_{p+1}|²·P`, `w = v − v_{p+1}·β`, `β` the reversed predictor). -/
theorem toepPD_step (r : ℕ → 𝕜) (h0 : star (r 0) = r 0) (p : ℕ) (α : ℕ → 𝕜) (P : 𝕜)
    (hP : star P = P) (hPpos : 0 < RCLike.re P) (hα0 : α 0 = 1)
    (hRev : LevEqRev r (p + 1) α P) (hpd : ToepPD r p) : ToepPD r (p + 1) := by
  intro v hv
  set β : ℕ → 𝕜 := fun j => star (α (p + 1 - j)) with hβdef
  set c : 𝕜 := v (p + 1) with hc
  set w : ℕ → 𝕜 := fun j => v j - c * β j with hwdef
  have hβn : β (p + 1) = 1 := by
    show star (α (p + 1 - (p + 1))) = 1
    rw [Nat.sub_self, hα0, star_one]
  have hwn : w (p + 1) = 0 := by
    show v (p + 1) - c * β (p + 1) = 0
    rw [hβn, mul_one, hc, sub_self]
  have hvw : v = fun i => w i + c * β i := by
    funext i
    show v i = v i - c * β i + c * β i
    ring
  have hβ : ∀ i, i < p + 1 + 1 →
      ∑ j ∈ range (p + 1 + 1), hR r i j * β j = if i = p + 1 then P else 0 :=
    fun i hi => hRev i (by omega)
  have hsq := sesq_complete_square (p + 1 + 1) (hR r) (hR_star r h0) β P hP (p + 1) (by omega) hβ w c
  rw [← hvw, hwn, hβn, sesq_restrict p (hR r) w hwn] at hsq
  simp only [star_zero, zero_mul, mul_zero, add_zero, star_one, one_mul] at hsq
  show 0 < RCLike.re (sesq (p + 1 + 1) (hR r) v v)
  rw [hsq, map_add]
  have hcc : star c * (c * P) = ((‖c‖ ^ 2 : ℝ) : 𝕜) * P := by
    rw [← mul_assoc, ← starRingEnd_apply, RCLike.conj_mul]
    push_cast
    rfl
  rw [hcc, RCLike.re_ofReal_mul]
  by_cases hc0 : c = 0
  · -- `v_{p+1} = 0`: `w = v` is non-zero on the leading block
    have hwv : w = v := by
      funext i
      show v i - c * β i = v i
      rw [hc0, zero_mul, sub_zero]
    obtain ⟨i, hi, hvi⟩ := hv
    have hip : i ≤ p := by
      by_contra hcon
      have : i = p + 1 := by omega
      apply hvi
      rw [this, ← hc, hc0]
    have := hpd w ⟨i, hip, by rw [hwv]; exact hvi⟩
    have h2 : 0 ≤ ‖c‖ ^ 2 * RCLike.re P := by positivity
    exact add_pos_of_pos_of_nonneg this h2
  · have hcpos : 0 < ‖c‖ ^ 2 * RCLike.re P := by
      have : 0 < ‖c‖ := norm_pos_iff.mpr hc0
      positivity
    have hw0 : 0 ≤ RCLike.re (sesq (p + 1) (hR r) w w) := by
      by_cases hw : ∃ i, i ≤ p ∧ w i ≠ 0
      · exact (hpd w hw).le
      · have hz : sesq (p + 1) (hR r) w w = 0 := by
          unfold sesq
          apply Finset.sum_eq_zero
          intro i hi
          apply Finset.sum_eq_zero
          intro j hj
          have : w j = 0 := by
            by_contra hne
            exact hw ⟨j, Nat.lt_succ_iff.mp (mem_range.mp hj), hne⟩
          rw [this, mul_zero]
        rw [hz, map_zero]
    exact add_pos_of_nonneg_of_pos hw0 hcpos

/-- **positive Levinson stage errors ⇒ positive definite**: if `r_0` is real and the stage errors
`P_0, …, P_p` of `LEVINSON` on `r_0 :: T` have positive real part, the leading `(p+1) × (p+1)` Hermitian
Toeplitz block is positive definite. -/
theorem toepPD_of_levRun_pos (r0 : 𝕜) (T : List 𝕜) (h0 : star r0 = r0) (p : ℕ)
    (hpos : ∀ m, m ≤ p → 0 < RCLike.re (levRun r0 T m).P) : ToepPD (rseq r0 T) p := by
  induction p with
  | zero =>
    intro v hv
    obtain ⟨i, hi, hvi⟩ := hv
    have hi0 : i = 0 := by omega
    subst hi0
    have hr : 0 < RCLike.re r0 := hpos 0 (le_refl 0)
    have e : ∑ i ∈ range (0 + 1), ∑ j ∈ range (0 + 1), star (v i) * hR (rseq r0 T) i j * v j
        = ((‖v 0‖ ^ 2 : ℝ) : 𝕜) * r0 := by
      rw [Finset.sum_range_one, Finset.sum_range_one]
      have : hR (rseq r0 T) 0 0 = r0 := rfl
      rw [this, mul_right_comm, ← starRingEnd_apply, RCLike.conj_mul]
      push_cast
      rfl
    rw [e, RCLike.re_ofReal_mul]
    have : 0 < ‖v 0‖ := norm_pos_iff.mpr hvi
    positivity
  | succ p ih =>
    have hne : ∀ j, j < p + 1 → (levRun r0 T j).P ≠ 0 := by
      intro j hj hz
      have := hpos j (by omega)
      rw [hz, map_zero] at this
      exact lt_irrefl _ this
    have hE := levRun_LevEq r0 T h0 (p + 1) hne
    have hPs := levRun_P_star r0 T h0 (p + 1)
    exact toepPD_step (rseq r0 T) h0 p _ _ hPs (hpos (p + 1) (le_refl _)) (alphaOf_zero _)
      (LevEqRev_of_LevEq (rseq r0 T) h0 (p + 1) _ _ hPs hE) (ih (fun m hm => hpos m (by omega)))

/-- the stage errors of `LEVINSON` are positive when `r_0 > 0` and all reflection coefficients found
have modulus `< 1` -/
theorem levRun_P_pos_of_refl_lt_one (r0 : 𝕜) (T : List 𝕜)
    (hr0 : 0 < RCLike.re r0) (p : ℕ) (hk : ∀ i, i < p → ‖nth (levRun r0 T p).ref i‖ < 1)
    (m : ℕ) (hm : m ≤ p) : 0 < RCLike.re (levRun r0 T m).P := by
  induction m with
  | zero => exact hr0
  | succ m ih =>
    have hkm := hk m (by omega)
    rw [nth_levRun_ref r0 T p m (by omega)] at hkm
    rw [levRun_succ_P, one_sub_mul_star_eq, RCLike.re_mul_ofReal]
    have h1 := ih (by omega)
    have h2 : 0 < 1 - ‖levK r0 T m‖ ^ 2 := by
      have := norm_nonneg (levK r0 T m)
      nlinarith
    positivity

/-- **the autocorrelation implied by a Burg model is positive definite**: over `ℝ`/`ℂ`, if the mean
power `ρ_0 = (burgRun x 0).rho` is non-zero and the order-`p` Burg reflection coefficients have modulus
`< 1`, then for every `r` with `r_0 = ρ_0`, `r_j = rc2ac(k, ρ_0)[j]` (`1 ≤ j ≤ p`) the `(p+1) × (p+1)`
Hermitian Toeplitz form is positive definite. -/
theorem burg_implied_toepPD (x : List 𝕜) (p : ℕ) (hρ0 : (burgRun x 0).rho ≠ 0)
    (hk : ∀ i, i < p → ‖nth (burgRun x p).ref i‖ < 1)
    (r : ℕ → 𝕜) (hr0 : r 0 = (burgRun x 0).rho)
    (hr : ∀ j, 0 < j → j ≤ p → r j = nth (rc2ac (burgRun x p).ref (burgRun x 0).rho) j) :
    ToepPD r p := by
  have hlen : (burgRun x p).ref.length = p := BurgL.burgRun_ref_length x p
  have hkne : ∀ κ ∈ (burgRun x p).ref, 1 - κ * star κ ≠ 0 := by
    intro κ hκ
    obtain ⟨i, hi, rfl⟩ := List.getElem_of_mem hκ
    have hlt := hk i (by omega)
    rw [nth_of_lt _ i hi] at hlt
    rw [one_sub_mul_star_eq]
    have : (0 : ℝ) < 1 - ‖(burgRun x p).ref[i]‖ ^ 2 := by
      have := norm_nonneg ((burgRun x p).ref[i])
      nlinarith
    exact_mod_cast this.ne'
  have hstar0 := BurgL.burgRun_rho_star x 0
  -- `ρ_0 = mean |x|²` is a non-negative real, non-zero by hypothesis
  have hpos0 : 0 < RCLike.re (burgRun x 0).rho := by
    have hre : 0 ≤ RCLike.re (burgRun x 0).rho := by
      show 0 ≤ RCLike.re (burgInit x).rho
      rw [BurgL.burgInit_rho]
      have hs : ∑ j ∈ range x.length, nth x j * star (nth x j)
          = ((∑ j ∈ range x.length, ‖nth x j‖ ^ 2 : ℝ) : 𝕜) := by
        push_cast
        apply Finset.sum_congr rfl
        intro j _
        rw [← starRingEnd_apply, RCLike.mul_conj]
      rw [hs, ← RCLike.ofReal_natCast, ← RCLike.ofReal_div, RCLike.ofReal_re]
      exact div_nonneg (Finset.sum_nonneg (fun j _ => by positivity)) (Nat.cast_nonneg _)
    rcases hre.lt_or_eq with h | h
    · exact h
    · exfalso
      apply hρ0
      have hreq : ((RCLike.re (burgRun x 0).rho : ℝ) : 𝕜) = (burgRun x 0).rho :=
        RCLike.conj_eq_iff_re.mp (by rw [starRingEnd_apply]; exact hstar0)
      rw [← hreq, ← h, RCLike.ofReal_zero]
  have h := levRun_rc2ac_ref (burgRun x p).ref (burgRun x 0).rho hρ0 hkne
    (burgRun x p).ref.length le_rfl
  rw [List.take_length, hlen] at h
  have hkL : ∀ i, i < p → ‖nth (levRun (burgRun x 0).rho
      (rc2ac (burgRun x p).ref (burgRun x 0).rho).tail p).ref i‖ < 1 := by
    rw [h.1]; exact hk
  have hpd := toepPD_of_levRun_pos (burgRun x 0).rho
    (rc2ac (burgRun x p).ref (burgRun x 0).rho).tail hstar0 p
    (levRun_P_pos_of_refl_lt_one _ _ hpos0 p hkL)
  intro v hv
  have := hpd v hv
  have e : ∑ i ∈ range (p + 1), ∑ j ∈ range (p + 1), star (v i) * hR r i j * v j
      = ∑ i ∈ range (p + 1), ∑ j ∈ range (p + 1), star (v i)
          * hR (rseq (burgRun x 0).rho (rc2ac (burgRun x p).ref (burgRun x 0).rho).tail) i j * v j := by
    apply Finset.sum_congr rfl
    intro i hi
    apply Finset.sum_congr rfl
    intro j hj
    rw [hR_congr (m := p + 1) _ i j (mem_range.mp hi) (mem_range.mp hj)]
    intro d hd
    cases d with
    | zero => exact hr0
    | succ d => rw [hr (d + 1) (by omega) (by omega), rseq_succ, nth_tail]
  rw [e]
  exact this

/-- with a non-zero mean power and reflection coefficients of modulus `< 1` the Burg error power is
non-zero (`ρ = ρ_0 ∏ (1 - |k_i|²)`) -/
theorem burg_rho_ne_zero_of_refl_lt_one (x : List 𝕜) (p : ℕ) (hρ0 : (burgRun x 0).rho ≠ 0)
    (hk : ∀ i, i < p → ‖nth (burgRun x p).ref i‖ < 1) : (burgRun x p).rho ≠ 0 := by
  rw [BurgL.burgRun_rho_prod_range]
  refine mul_ne_zero hρ0 ?_
  rw [Finset.prod_ne_zero_iff]
  intro i hi
  have hlt := hk i (mem_range.mp hi)
  rw [BurgL.nth_burgRun_ref x p i (mem_range.mp hi)] at hlt
  rw [one_sub_mul_star_eq]
  have : (0 : ℝ) < 1 - ‖BurgL.bK x i‖ ^ 2 := by
    have := norm_nonneg (BurgL.bK x i)
    nlinarith
  exact_mod_cast this.ne'

end RC

end SpecVerif.GSL
