import SpecVerif.Proofs.Lemmas.Eigen
import Mathlib.Algebra.Polynomial.BigOperators
import Mathlib.Algebra.Polynomial.Eval.Degree
import Mathlib.LinearAlgebra.Matrix.Rank
import Mathlib.LinearAlgebra.FiniteDimensional.Lemmas
/-
  Helper lemmas for the converse direction of `Proofs/C17.lean`: the noise-subspace denominator of
  MUSIC / EV vanishes ONLY at the true frequencies.

  * `nodePoly T x = Π_{m<T} (X - x_m)`: its coefficient vector is a null vector of the tone matrix
    (degree `T < P`), and it does not vanish off the nodes;
  * `exists_noise_nonvanishing`: if the noise vectors span the tone-null space, some noise vector does
    not annihilate the steering vector of a point that is not a tone;
  * over `RCLike`: a sum of non-negative reals with one non-zero term is non-zero; the accumulated
    denominator vanishes iff every noise-column DFT bin does.
-/
namespace SpecVerif.EigenOnlyL
open Finset Polynomial SpecVerif SpecVerif.EigenL

section Field
variable {F : Type} [Field F]

/-- the monic polynomial with the `T` nodes `x_0 … x_{T-1}` as roots -/
noncomputable def nodePoly (T : ℕ) (x : ℕ → F) : Polynomial F := ∏ m ∈ range T, (X - C (x m))

theorem nodePoly_natDegree (T : ℕ) (x : ℕ → F) : (nodePoly T x).natDegree = T := by
  unfold nodePoly
  rw [natDegree_prod_of_monic _ _ (fun m _ => monic_X_sub_C (x m))]
  simp

theorem nodePoly_eval (T : ℕ) (x : ℕ → F) (y : F) :
    (nodePoly T x).eval y = ∏ m ∈ range T, (y - x m) := by
  simp [nodePoly, eval_prod]

/-- the coefficient vector of `nodePoly` paired with the steering vector `(y^K)_{K<P}`, `T < P` -/
theorem nodePoly_sum {P T : ℕ} (hT : T < P) (x : ℕ → F) (y : F) :
    ∑ K ∈ range P, (nodePoly T x).coeff K * y ^ K = ∏ m ∈ range T, (y - x m) := by
  rw [← nodePoly_eval, eval_eq_sum_range' (by rw [nodePoly_natDegree]; exact hT)]

/-- the coefficient vector of `nodePoly` is a null vector of the tone matrix -/
theorem nodePoly_null {P T : ℕ} (hT : T < P) (x : ℕ → F) (m : ℕ) (hm : m < T) :
    ∑ K ∈ range P, (nodePoly T x).coeff K * x m ^ K = 0 := by
  rw [nodePoly_sum hT]
  exact Finset.prod_eq_zero (mem_range.mpr hm) (sub_self _)

/-- … and does not annihilate the steering vector of a point off the nodes -/
theorem nodePoly_off {P T : ℕ} (hT : T < P) (x : ℕ → F) (y : F) (hy : ∀ m, m < T → y ≠ x m) :
    ∑ K ∈ range P, (nodePoly T x).coeff K * y ^ K ≠ 0 := by
  rw [nodePoly_sum hT]
  exact Finset.prod_ne_zero_iff.mpr (fun m hm => sub_ne_zero.mpr (hy m (mem_range.mp hm)))

/-- **the noise vectors cannot all annihilate the steering vector of a non-tone**: `T < P`; the vectors
    `v_i`, `i ∈ [nsig, P)`, span the tone-null space `{u : Σ_K u_K z_m^{-K} = 0 for all m < T}` (on the
    coordinates `K < P`); `z0` is none of the `z_m`.  Then `Σ_K v_i K · z0^{-K} ≠ 0` for some `i`.
    (No hypothesis on the `z_m` themselves is needed.) -/
theorem exists_noise_nonvanishing (P T nsig : ℕ) (z : ℕ → F) (v : ℕ → ℕ → F) (hT : T < P)
    (hspan : ∀ u : ℕ → F, (∀ m, m < T → ∑ K ∈ range P, u K * (z m)⁻¹ ^ K = 0) →
      ∃ a : ℕ → F, ∀ K, K < P → u K = ∑ i ∈ Ico nsig P, a i * v i K)
    (z0 : F) (hz0 : ∀ m, m < T → z0 ≠ z m) :
    ∃ i, nsig ≤ i ∧ i < P ∧ ∑ K ∈ range P, v i K * z0⁻¹ ^ K ≠ 0 := by
  by_contra hcon
  have hall : ∀ i ∈ Ico nsig P, ∑ K ∈ range P, v i K * z0⁻¹ ^ K = 0 := by
    intro i hi
    by_contra h
    exact hcon ⟨i, (mem_Ico.mp hi).1, (mem_Ico.mp hi).2, h⟩
  set x : ℕ → F := fun m => (z m)⁻¹ with hx
  obtain ⟨a, ha⟩ := hspan (fun K => (nodePoly T x).coeff K) (fun m hm => nodePoly_null hT x m hm)
  have hne := nodePoly_off hT x z0⁻¹ (fun m hm h => hz0 m hm (inv_injective h))
  apply hne
  have e : ∀ K ∈ range P, (nodePoly T x).coeff K * z0⁻¹ ^ K
      = ∑ i ∈ Ico nsig P, a i * (v i K * z0⁻¹ ^ K) := by
    intro K hK
    rw [ha K (mem_range.mp hK), Finset.sum_mul]
    exact Finset.sum_congr rfl (fun i _ => mul_assoc _ _ _)
  rw [Finset.sum_congr rfl e, Finset.sum_comm]
  apply Finset.sum_eq_zero
  intro i hi
  rw [← Finset.mul_sum, hall i hi, mul_zero]

/-- **linear independence + dimension count gives spanning** (what an exact SVD delivers with
    `NSIG = T`): `T ≤ P` pairwise distinct nodes; the `P - T` vectors `v_i`, `i ∈ [T, P)`, are linearly
    independent (e.g. orthonormal) and lie in the tone-null space.  Then they span it. -/
theorem span_of_linearIndependent (P T : ℕ) (z : ℕ → F) (v : ℕ → ℕ → F) (hT : T ≤ P)
    (hzinj : ∀ m m', m < T → m' < T → z m = z m' → m = m')
    (hli : LinearIndependent F (fun (i : Fin (P - T)) (K : Fin P) => v (T + i) K))
    (hnull : ∀ i, T ≤ i → i < P → ∀ m, m < T → ∑ K ∈ range P, v i K * (z m)⁻¹ ^ K = 0) :
    ∀ u : ℕ → F, (∀ m, m < T → ∑ K ∈ range P, u K * (z m)⁻¹ ^ K = 0) →
      ∃ a : ℕ → F, ∀ K, K < P → u K = ∑ i ∈ Ico T P, a i * v i K := by
  intro u hu
  classical
  let x : Fin T → F := fun m => (z m)⁻¹
  have hxinj : Function.Injective x :=
    fun m m' h => Fin.ext (hzinj m m' m.2 m'.2 (inv_injective h))
  let A : Matrix (Fin T) (Fin P) F := Matrix.of fun m K => x m ^ (K : ℕ)
  have hrow : LinearIndependent F A.row := by
    rw [Fintype.linearIndependent_iff]
    intro g hg
    have h0 := amplitudes_zero_fin x g hxinj (fun I => by
      have := congrFun hg (Fin.castLE hT I)
      simpa [A, Matrix.row, Finset.sum_apply] using this)
    exact fun i => congrFun h0 i
  have hker : Module.finrank F (LinearMap.ker A.mulVecLin) = P - T := by
    have h1 := LinearMap.finrank_range_add_finrank_ker A.mulVecLin
    rw [Module.finrank_fin_fun] at h1
    have h2 : Module.finrank F (LinearMap.range A.mulVecLin) = T := by
      have := hrow.rank_matrix
      rw [Fintype.card_fin] at this
      exact this
    omega
  have hmem : ∀ (f : ℕ → F), (∀ m, m < T → ∑ K ∈ range P, f K * (z m)⁻¹ ^ K = 0) →
      (fun K : Fin P => f K) ∈ LinearMap.ker A.mulVecLin := by
    intro f hf
    rw [LinearMap.mem_ker]
    funext m
    simp only [Matrix.mulVecLin_apply, Matrix.mulVec, dotProduct, A, Matrix.of_apply, x,
      Pi.zero_apply]
    rw [Fin.sum_univ_eq_sum_range (fun K => (z m)⁻¹ ^ K * f K) P, ← hf m m.2]
    exact Finset.sum_congr rfl (fun K _ => mul_comm _ _)
  let w : Fin (P - T) → (Fin P → F) := fun i K => v (T + i) K
  have hspan : Submodule.span F (Set.range w) = LinearMap.ker A.mulVecLin := by
    apply Submodule.eq_of_le_of_finrank_eq
    · rw [Submodule.span_le]
      rintro _ ⟨i, rfl⟩
      exact hmem (v (T + i)) (hnull (T + i) (by omega) (by omega))
    · rw [finrank_span_eq_card hli, Fintype.card_fin, hker]
  have hu' := hmem u hu
  rw [← hspan, Submodule.mem_span_range_iff_exists_fun] at hu'
  obtain ⟨c, hc⟩ := hu'
  refine ⟨fun i => if h : i - T < P - T then c ⟨i - T, h⟩ else 0, ?_⟩
  intro K hK
  have := congrFun hc ⟨K, hK⟩
  simp only [Finset.sum_apply, Pi.smul_apply, smul_eq_mul, w] at this
  rw [← this, Finset.sum_Ico_eq_sum_range, ← Fin.sum_univ_eq_sum_range
    (fun j => (if h : T + j - T < P - T then c ⟨T + j - T, h⟩ else 0) * v (T + j) K) (P - T)]
  apply Finset.sum_congr rfl
  intro j _
  have e : T + (j : ℕ) - T = j := by omega
  rw [dif_pos (by rw [e]; exact j.2)]
  congr 2
  exact Fin.ext e.symm

end Field

/-! ### non-vanishing of the accumulated denominator over `RCLike` -/

section RC
variable {F : Type} [RCLike F]

/-- a finite sum of non-negative reals (embedded in `F`) with one non-zero term is a positive real -/
theorem sum_real_pos (n : ℕ) (f : ℕ → F)
    (h : ∀ j, j < n → ∃ r : ℝ, 0 ≤ r ∧ f j = (r : F)) (j0 : ℕ) (hj0 : j0 < n) (hne : f j0 ≠ 0) :
    ∃ d : ℝ, 0 < d ∧ ∑ j ∈ range n, f j = (d : F) := by
  obtain ⟨d, hd, he⟩ := sum_nonneg_real n f h
  refine ⟨d, ?_, he⟩
  have hre : d = ∑ j ∈ range n, RCLike.re (f j) := by
    have := congrArg RCLike.re he
    rw [RCLike.ofReal_re, map_sum] at this
    exact this.symm
  rw [hre]
  have hnn : ∀ j ∈ range n, 0 ≤ RCLike.re (f j) := by
    intro j hj
    obtain ⟨r, hr, hf⟩ := h j (mem_range.mp hj)
    rw [hf, RCLike.ofReal_re]; exact hr
  apply lt_of_lt_of_le _ (Finset.single_le_sum hnn (mem_range.mpr hj0))
  obtain ⟨r, hr, hf⟩ := h j0 hj0
  rw [hf, RCLike.ofReal_re]
  apply lt_of_le_of_ne hr
  intro h0
  apply hne
  rw [hf, ← h0, RCLike.ofReal_zero]

/-- MUSIC, and EV with positive real (floored) noise singular values: if one noise-column DFT bin is
    non-zero at bin `k`, the accumulated denominator is a positive real there -/
theorem eigenDenom_pos_of_term (tw : List F) (cols : List (List F)) (S : List F)
    (nsig P nfft : ℕ) (ev : Bool) (k : ℕ)
    (hS : ev = true → ∀ i, nsig ≤ i → i < P → ∃ s : ℝ, 0 < s ∧ nth S i = (s : F))
    (i : ℕ) (h1 : nsig ≤ i) (h2 : i < P) (hne : dftBin tw nfft (cols.getD i []) k ≠ 0) :
    ∃ d : ℝ, 0 < d ∧ eigenDenom tw cols S nsig P nfft ev k = (d : F) := by
  unfold eigenDenom
  rw [sumR_eq_sum]
  apply sum_real_pos _ _ _ (i - nsig) (by omega)
  · have e : i - nsig + nsig = i := by omega
    simp only [abs2_eq, e]
    have hz : dftBin tw nfft (cols.getD i []) k * star (dftBin tw nfft (cols.getD i []) k) ≠ 0 :=
      mul_ne_zero hne (by rwa [Ne, star_eq_zero])
    cases ev with
    | false => rw [if_neg (by simp)]; exact hz
    | true =>
      obtain ⟨s, hs, he⟩ := hS rfl i h1 h2
      rw [if_pos rfl, he]
      exact div_ne_zero hz (by rw [Ne, RCLike.ofReal_eq_zero]; exact hs.ne')
  · intro j hj
    simp only [abs2_eq]
    cases ev with
    | false =>
      exact ⟨_, sq_nonneg _, by rw [if_neg (by simp), mul_star_eq_ofReal]⟩
    | true =>
      obtain ⟨s, hs, he⟩ := hS rfl (j + nsig) (by omega) (by omega)
      refine ⟨‖dftBin tw nfft (cols.getD (j + nsig) []) k‖ ^ 2 / s,
        div_nonneg (sq_nonneg _) hs.le, ?_⟩
      rw [if_pos rfl, mul_star_eq_ofReal, he, RCLike.ofReal_div]

/-- over `RCLike` the accumulated denominator vanishes iff every noise-column DFT bin does -/
theorem eigenDenom_eq_zero_iff (tw : List F) (cols : List (List F)) (S : List F)
    (nsig P nfft : ℕ) (ev : Bool) (k : ℕ)
    (hS : ev = true → ∀ i, nsig ≤ i → i < P → ∃ s : ℝ, 0 < s ∧ nth S i = (s : F)) :
    eigenDenom tw cols S nsig P nfft ev k = 0
      ↔ ∀ i, nsig ≤ i → i < P → dftBin tw nfft (cols.getD i []) k = 0 := by
  constructor
  · intro h0 i h1 h2
    by_contra hne
    obtain ⟨d, hd, he⟩ := eigenDenom_pos_of_term tw cols S nsig P nfft ev k hS i h1 h2 hne
    rw [h0] at he
    have : (d : F) = 0 := he.symm
    rw [RCLike.ofReal_eq_zero] at this
    exact hd.ne' this
  · exact eigenDenom_eq_zero tw cols S nsig P nfft ev k

end RC

end SpecVerif.EigenOnlyL
