import SpecVerif.Proofs.Lemmas.Basic
import SpecVerif.Proofs.Lemmas.DFT
import SpecVerif.Proofs.Lemmas.Arma
import SpecVerif.Proofs.Lemmas.Correlation
import SpecVerif.Proofs.Lemmas.Levinson
import SpecVerif.Proofs.Lemmas.Burg
import SpecVerif.Proofs.Lemmas.Yule
import SpecVerif.Proofs.Lemmas.LeastSquares
import SpecVerif.Model.Periodogram
import SpecVerif.Model.Estimators
import SpecVerif.Model.Sides
import SpecVerif.Model.Minvar
import SpecVerif.Model.Mtm
import Mathlib.Algebra.BigOperators.Intervals
import Mathlib.Algebra.Star.BigOperators
import Mathlib.Algebra.Field.Basic
import Mathlib.Tactic.FieldSimp
import Mathlib.Tactic.Ring
/-
  Helper lemmas for C04 (frequency-shift covariance, conjugation mirror, time reversal).

  * `modulate μ x`  — `x_n ↦ μ^n x_n`   (multiplication by `e^{2πi m n/NFFT}` when `μ = ω⁻¹^m`);
  * `twist μ A`     — `A_j ↦ μ^{j+1} A_j` (what modulation does to lags `r_1..`, AR coefficients
                       `a_1..` and reflection coefficients `k_1..`, all stored without index 0);
  * `trconj x`      — `x_n ↦ conj x_{N-1-n}` (conjugated time reversal).
-/
namespace SpecVerif.ShiftL
open Finset SpecVerif SpecVerif.ArmaL

section Defs
variable {K : Type} [Field K]

/-- `x_n ↦ μ^n x_n` -/
def modulate (μ : K) (x : List K) : List K := vec x.length (fun n => μ ^ n * nth x n)

/-- `A_j ↦ μ^{j+1} A_j` for a list that stores the entries `1, 2, …` of a sequence -/
def twist (μ : K) (A : List K) : List K := vec A.length (fun j => μ ^ (j + 1) * nth A j)

/-- conjugated time reversal `y_n = conj x_{N-1-n}` -/
def trconj [StarRing K] (x : List K) : List K :=
  vec x.length (fun n => star (nth x (x.length - 1 - n)))

@[simp] theorem modulate_length (μ : K) (x : List K) : (modulate μ x).length = x.length := by
  simp [modulate]

@[simp] theorem twist_length (μ : K) (x : List K) : (twist μ x).length = x.length := by
  simp [twist]

@[simp] theorem trconj_length [StarRing K] (x : List K) : (trconj x).length = x.length := by
  simp [trconj]

/-- total indexing of a modulated list (out of range both sides are `0`) -/
theorem nth_modulate (μ : K) (x : List K) (i : ℕ) : nth (modulate μ x) i = μ ^ i * nth x i := by
  unfold modulate
  rw [nth_vec]
  by_cases h : i < x.length
  · rw [if_pos h]
  · rw [if_neg h, nth_of_ge x i (by omega), mul_zero]

theorem nth_twist (μ : K) (x : List K) (i : ℕ) : nth (twist μ x) i = μ ^ (i + 1) * nth x i := by
  unfold twist
  rw [nth_vec]
  by_cases h : i < x.length
  · rw [if_pos h]
  · rw [if_neg h, nth_of_ge x i (by omega), mul_zero]

theorem nth_trconj [StarRing K] (x : List K) (i : ℕ) (h : i < x.length) :
    nth (trconj x) i = star (nth x (x.length - 1 - i)) := by
  unfold trconj
  rw [nth_vec, if_pos h]

/-- two lists of the same length with the same total indexing are equal -/
theorem list_ext_nth {a b : List K} (hl : a.length = b.length) (h : ∀ i, i < a.length → nth a i = nth b i) :
    a = b := by
  rw [eq_vec_nth a, eq_vec_nth b, ← hl]
  exact vec_ext h

theorem nth_append_singleton (l : List K) (c : K) (i : ℕ) :
    nth (l ++ [c]) i = if i < l.length then nth l i else if i = l.length then c else 0 := by
  unfold nth
  rw [List.getD_eq_getElem?_getD, List.getD_eq_getElem?_getD]
  by_cases h : i < l.length
  · rw [if_pos h, List.getElem?_append_left h]
  · rw [if_neg h, List.getElem?_append_right (by omega)]
    by_cases h2 : i = l.length
    · subst h2; simp
    · rw [if_neg h2]
      have : 1 ≤ i - l.length := by omega
      simp [List.getElem?_eq_none_iff.mpr (show [c].length ≤ i - l.length by simpa using this)]

theorem twist_append_singleton (μ : K) (l : List K) (c : K) :
    twist μ (l ++ [c]) = twist μ l ++ [μ ^ (l.length + 1) * c] := by
  apply list_ext_nth
  · simp
  · intro i _
    rw [nth_twist, nth_append_singleton, nth_append_singleton, twist_length]
    by_cases h : i < l.length
    · rw [if_pos h, if_pos h, nth_twist]
    · rw [if_neg h, if_neg h]
      by_cases h2 : i = l.length
      · rw [if_pos h2, if_pos h2, h2]
      · rw [if_neg h2, if_neg h2, mul_zero]

end Defs

/-! ### powers of the root of unity -/
section Roots
variable {K : Type} [Field K]

theorem ne_zero_of_pow_eq_one {ω : K} {n : ℕ} (hn : 0 < n) (h : ω ^ n = 1) : ω ≠ 0 := by
  rintro rfl
  rw [zero_pow hn.ne'] at h
  exact zero_ne_one h

/-- the bin `k - m (mod NFFT)`: `ω^{(k+NFFT-m) % NFFT} = ω^k · (ω⁻¹)^m` -/
theorem pow_rot {ω : K} {n : ℕ} (h : ω ^ n = 1) (hω0 : ω ≠ 0) {k m : ℕ} (hm : m ≤ k + n) :
    ω ^ ((k + n - m) % n) = ω ^ k * ω⁻¹ ^ m := by
  rw [pow_mod_of_pow_eq_one h]
  have e : ω ^ (k + n - m) * ω ^ m = ω ^ k := by
    rw [← pow_add, Nat.sub_add_cancel hm, pow_add, h, mul_one]
  rw [← e, inv_pow, mul_assoc, mul_inv_cancel₀ (pow_ne_zero _ hω0), mul_one]

/-- the mirrored bin `-k (mod NFFT)`: `ω^{(NFFT-k) % NFFT} = (ω⁻¹)^k` -/
theorem pow_mirror {ω : K} {n : ℕ} (h : ω ^ n = 1) {k : ℕ} (hk : k ≤ n) :
    ω ^ ((n - k) % n) = ω⁻¹ ^ k := by
  rw [pow_mod_of_pow_eq_one h]
  have e : ω ^ (n - k) * ω ^ k = 1 := by
    rw [← pow_add, Nat.sub_add_cancel hk, h]
  rw [inv_pow]
  exact eq_inv_of_mul_eq_one_left e

end Roots

/-! ### the DFT of modulated / conjugated / reversed data -/
section DFT
variable {K : Type} [Field K]

/-- modulation by `(ω⁻¹)^m` moves bin `k-m` to bin `k` -/
theorem dftBin_modulate {ω : K} {n : ℕ} (hn : 0 < n) (hω : ω ^ n = 1) (x : List K) {k m : ℕ}
    (hm : m ≤ k + n) :
    dftBin (twiddles ω n) n (modulate (ω⁻¹ ^ m) x) k
      = dftBin (twiddles ω n) n x ((k + n - m) % n) := by
  have hω0 := ne_zero_of_pow_eq_one hn hω
  rw [dftBin_eq hn hω, dftBin_eq hn hω, modulate_length]
  apply Finset.sum_congr rfl
  intro j _
  have e : ω ^ (j * ((k + n - m) % n)) = (ω ^ k * ω⁻¹ ^ m) ^ j := by
    rw [mul_comm, pow_mul, pow_rot hω hω0 hm]
  rw [nth_modulate, e]
  ring

variable [StarRing K]

/-- conjugating the data mirrors and conjugates the DFT -/
theorem dftBin_map_star {ω : K} {n : ℕ} (hn : 0 < n) (hω : ω ^ n = 1) (hstar : star ω = ω⁻¹)
    (x : List K) {k : ℕ} (hk : k ≤ n) :
    dftBin (twiddles ω n) n (x.map star) k
      = star (dftBin (twiddles ω n) n x ((n - k) % n)) := by
  rw [dftBin_eq hn hω, dftBin_eq hn hω, List.length_map, star_sum]
  apply Finset.sum_congr rfl
  intro j _
  have e : ω ^ (j * ((n - k) % n)) = (ω⁻¹ ^ k) ^ j := by
    rw [mul_comm, pow_mul, pow_mirror hω hk]
  rw [nth_map_zero star (star_zero K), star_mul', e, star_pow, star_pow, star_inv₀, hstar, inv_inv,
    ← pow_mul, mul_comm k j]

/-- conjugated time reversal multiplies the conjugated DFT by the phase `ω^{(N-1)k}` -/
theorem dftBin_trconj {ω : K} {n : ℕ} (hn : 0 < n) (hω : ω ^ n = 1) (hstar : star ω = ω⁻¹)
    (x : List K) (hN : x.length ≤ n) (k : ℕ) :
    dftBin (twiddles ω n) n (trconj x) k
      = ω ^ ((x.length - 1) * k) * star (dftBin (twiddles ω n) n x k) := by
  have hω0 := ne_zero_of_pow_eq_one hn hω
  rw [dftBin_eq hn hω, dftBin_eq hn hω, trconj_length, Nat.min_eq_left hN, star_sum,
    Finset.mul_sum, ← Finset.sum_range_reflect]
  apply Finset.sum_congr rfl
  intro j hj
  have hj' : j < x.length := mem_range.mp hj
  have e1 : x.length - 1 - (x.length - 1 - j) = j := by omega
  rw [nth_trconj x _ (by omega), e1, star_mul', star_pow, hstar]
  have e2 : ω ^ ((x.length - 1) * k) = ω ^ ((x.length - 1 - j) * k) * ω ^ (j * k) := by
    rw [← pow_add, ← Nat.add_mul, Nat.sub_add_cancel (by omega)]
  rw [e2, inv_pow]
  have : ω ^ (j * k) ≠ 0 := pow_ne_zero _ hω0
  field_simp

/-- a unimodular phase does not change the squared modulus -/
theorem abs2_phase_mul {ω : K} (hω0 : ω ≠ 0) (hstar : star ω = ω⁻¹) (a : ℕ) (z : K) :
    abs2 (ω ^ a * star z) = abs2 z := by
  rw [abs2_eq, abs2_eq, star_mul', star_pow, hstar, star_star, inv_pow]
  have : ω ^ a ≠ 0 := pow_ne_zero _ hω0
  field_simp

theorem abs2_star (z : K) : abs2 (star z) = abs2 z := by
  rw [abs2_eq, abs2_eq, star_star, mul_comm]

end DFT

/-! ### correlation lags of modulated / reversed data -/
section Corr
variable {K : Type} [Field K] [StarRing K]

/-- lag `k` of modulated data is `μ^k` times the lag of the data (unimodular `μ`) -/
theorem corrRaw_modulate {μ : K} (hμ : μ * star μ = 1) (x y : List K) (n k : ℕ) :
    corrRaw (modulate μ x) (modulate μ y) n k = μ ^ k * corrRaw x y n k := by
  rw [corrRaw_eq, corrRaw_eq, Finset.mul_sum]
  apply Finset.sum_congr rfl
  intro j _
  rw [nth_modulate, nth_modulate, star_mul', star_pow, pow_add]
  have : μ ^ j * star μ ^ j = 1 := by rw [← mul_pow, hμ, one_pow]
  calc μ ^ j * μ ^ k * nth x (j + k) * (star μ ^ j * star (nth y j))
      = (μ ^ j * star μ ^ j) * (μ ^ k * (nth x (j + k) * star (nth y j))) := by ring
    _ = μ ^ k * (nth x (j + k) * star (nth y j)) := by rw [this, one_mul]

/-- every normalisation of `CORRELATION` commutes with the modulation: lag `k` picks up `μ^k` -/
theorem correlation_modulate {μ : K} (hμ : μ * star μ = 1) (x y : List K) (L : ℕ) (norm : Norm)
    (rms2 : K) :
    correlation (modulate μ x) (modulate μ y) L norm rms2
      = vec (L + 1) (fun k => μ ^ k * nth (correlation x y L norm rms2) k) := by
  apply list_ext_nth
  · simp [correlation]
  · intro k hk
    have hk' : k < L + 1 := by simpa [correlation] using hk
    rw [nth_vec, if_pos hk', nth_correlation _ _ _ _ _ _ (by omega),
      nth_correlation _ _ _ _ _ _ (by omega), modulate_length, modulate_length,
      corrRaw_modulate hμ]
    cases norm
    · simp only; rw [mul_div_assoc]
    · simp only; rw [mul_div_assoc]
    · simp only
      by_cases h0 : k = 0
      · subst h0; simp
      · rw [if_neg h0, if_neg h0, mul_div_assoc, mul_div_assoc]
    · simp only

/-- the autocorrelation lags are invariant under conjugated time reversal -/
theorem corrRaw_trconj (x : List K) (k : ℕ) :
    corrRaw (trconj x) (trconj x) x.length k = corrRaw x x x.length k := by
  rw [corrRaw_eq, corrRaw_eq, ← Finset.sum_range_reflect]
  apply Finset.sum_congr rfl
  intro j hj
  have hj' : j < x.length - k := mem_range.mp hj
  have e1 : x.length - 1 - (x.length - k - 1 - j + k) = j := by omega
  have e2 : x.length - 1 - (x.length - k - 1 - j) = j + k := by omega
  rw [nth_trconj x _ (by omega), nth_trconj x _ (by omega), star_star, e1, e2, mul_comm]

theorem correlation_trconj (x : List K) (L : ℕ) (norm : Norm) (rms2 : K) :
    correlation (trconj x) (trconj x) L norm rms2 = correlation x x L norm rms2 := by
  unfold correlation
  simp only [trconj_length, Nat.max_self]
  apply vec_ext
  intro k _
  rw [corrRaw_trconj]

end Corr

/-! ### the Levinson recursion on twisted lags -/
section Lev
variable {K : Type} [Field K] [StarRing K]

theorem levup_twist {μ : K} (hμ : μ * star μ = 1) (a : List K) (c : K) :
    levup (twist μ a) (μ ^ (a.length + 1) * c) = twist μ (levup a c) := by
  apply list_ext_nth
  · simp
  · intro j _
    rw [nth_twist, nth_levup, nth_levup, twist_length]
    by_cases h : j < a.length
    · rw [if_pos h, if_pos h, nth_twist, nth_twist, star_mul', star_pow]
      have e : μ ^ (a.length + 1) = μ ^ (j + 1) * μ ^ (a.length - 1 - j + 1) := by
        rw [← pow_add]; congr 1; omega
      have h1 : μ ^ (a.length - 1 - j + 1) * star μ ^ (a.length - 1 - j + 1) = 1 := by
        rw [← mul_pow, hμ, one_pow]
      rw [e]
      linear_combination (μ ^ (j + 1) * c * star (nth a (a.length - 1 - j))) * h1
    · rw [if_neg h, if_neg h]
      by_cases h2 : j = a.length
      · rw [if_pos h2, if_pos h2, h2]
      · rw [if_neg h2, if_neg h2, mul_zero]

theorem abs2_unimod_mul {μ : K} (hμ : μ * star μ = 1) (a : ℕ) (z : K) :
    abs2 (μ ^ a * z) = abs2 z := by
  rw [abs2_eq, abs2_eq, star_mul', star_pow]
  have : μ ^ a * star μ ^ a = 1 := by rw [← mul_pow, hμ, one_pow]
  linear_combination (z * star z) * this

omit [StarRing K] in
/-- the Levinson inner product of twisted lags and twisted coefficients -/
theorem lev_save_twist (μ : K) (T A : List K) (k : ℕ) :
    nth (twist μ T) k + sumR k (fun j => nth (twist μ A) j * nth (twist μ T) (k - j - 1))
      = μ ^ (k + 1) * (nth T k + sumR k (fun j => nth A j * nth T (k - j - 1))) := by
  rw [sumR_eq_sum, sumR_eq_sum, mul_add, Finset.mul_sum, nth_twist]
  congr 1
  apply Finset.sum_congr rfl
  intro j hj
  have hj' : j < k := mem_range.mp hj
  have e : μ ^ (k + 1) = μ ^ (j + 1) * μ ^ (k - j - 1 + 1) := by
    rw [← pow_add]; congr 1; omega
  rw [nth_twist, nth_twist, e]
  ring

theorem levStep_twist {μ : K} (hμ : μ * star μ = 1) (T : List K) (s : LevState K) (k : ℕ)
    (hA : s.A.length = k) (href : s.ref.length = k) :
    levStep (twist μ T) { A := twist μ s.A, P := s.P, ref := twist μ s.ref } k
      = { A := twist μ (levStep T s k).A, P := (levStep T s k).P,
          ref := twist μ (levStep T s k).ref } := by
  subst hA
  have htemp : -(nth (twist μ T) s.A.length
        + sumR s.A.length (fun j => nth (twist μ s.A) j * nth (twist μ T) (s.A.length - j - 1))) / s.P
      = μ ^ (s.A.length + 1)
        * (-(nth T s.A.length + sumR s.A.length (fun j => nth s.A j * nth T (s.A.length - j - 1))) / s.P) := by
    rw [lev_save_twist]; ring
  simp only [levStep, htemp]
  rw [LevState.mk.injEq]
  refine ⟨levup_twist hμ _ _, ?_, ?_⟩
  · rw [abs2_unimod_mul hμ]
  · rw [twist_append_singleton, href]

/-- **Levinson on modulated lags**: `A`, `ref` are twisted, `P` is unchanged -/
theorem levRun_twist {μ : K} (hμ : μ * star μ = 1) (r0 : K) (T : List K) (k : ℕ) :
    levRun r0 (twist μ T) k
      = { A := twist μ (levRun r0 T k).A, P := (levRun r0 T k).P,
          ref := twist μ (levRun r0 T k).ref } := by
  induction k with
  | zero => rfl
  | succ k ih =>
    rw [levRun_succ, ih, levStep_twist hμ T (levRun r0 T k) k (levRun_A_length r0 T k)
      (levRun_ref_length r0 T k)]
    rfl

theorem correlation_length (x y : List K) (L : ℕ) (norm : Norm) (rms2 : K) :
    (correlation x y L norm rms2).length = L + 1 := by
  simp [correlation]

/-- `aryule` of modulated data -/
theorem aryule_modulate {μ : K} (hμ : μ * star μ = 1) (x : List K) (p : ℕ) (norm : Norm) :
    aryule (modulate μ x) p norm
      = { A := twist μ (aryule x p norm).A, P := (aryule x p norm).P,
          ref := twist μ (aryule x p norm).ref } := by
  unfold aryule
  simp only
  rw [correlation_modulate hμ]
  have h0 : nth (vec (p + 1) fun k => μ ^ k * nth (correlation x x p norm 1) k) 0
      = nth (correlation x x p norm 1) 0 := by
    rw [nth_vec, if_pos (Nat.succ_pos p), pow_zero, one_mul]
  have ht : (vec (p + 1) fun k => μ ^ k * nth (correlation x x p norm 1) k).tail
      = twist μ (correlation x x p norm 1).tail := by
    apply list_ext_nth
    · simp [correlation_length]
    · intro j hj
      have hj' : j < p := by simpa using hj
      rw [YuleL.nth_tail, nth_twist, YuleL.nth_tail, nth_vec, if_pos (by omega)]
  rw [h0, ht, levRun_twist hμ]

theorem aryule_trconj (x : List K) (p : ℕ) (norm : Norm) :
    aryule (trconj x) p norm = aryule x p norm := by
  unfold aryule
  rw [correlation_trconj]

end Lev

/-! ### `arma2psd` of twisted / conjugated coefficients -/
section ArmaS
variable {K : Type} [Field K]

theorem polySeq_twist (μ : K) (c : List K) (n : ℕ) :
    polySeq (twist μ c) n = modulate μ (polySeq c n) := by
  unfold polySeq modulate
  rw [vec_length]
  apply vec_ext
  intro i hi
  rw [nth_vec, if_pos hi]
  by_cases h0 : i = 0
  · subst h0; simp
  · rw [if_neg h0, if_neg h0, nth_twist, Nat.sub_add_cancel (by omega)]

/-- `A(ω^k)` for twisted coefficients is `A(ω^{k-m})` -/
theorem polyAt_twist {ω : K} {n : ℕ} (hω : ω ^ n = 1) (hω0 : ω ≠ 0) (A : List K) {k m : ℕ}
    (hm : m ≤ k + n) :
    polyAt ω (twist (ω⁻¹ ^ m) A) k = polyAt ω A ((k + n - m) % n) := by
  unfold polyAt
  rw [twist_length]
  congr 1
  apply Finset.sum_congr rfl
  intro j _
  have e : ω ^ ((j + 1) * ((k + n - m) % n)) = (ω ^ k * ω⁻¹ ^ m) ^ (j + 1) := by
    rw [mul_comm, pow_mul, pow_rot hω hω0 hm]
  rw [nth_twist, e]
  ring

variable [StarRing K]

theorem polySeq_map_star (c : List K) (n : ℕ) :
    polySeq (c.map star) n = (polySeq c n).map star := by
  unfold polySeq
  rw [map_vec]
  apply vec_ext
  intro i _
  by_cases h0 : i = 0
  · rw [if_pos h0, if_pos h0, star_one]
  · rw [if_neg h0, if_neg h0, nth_map_zero star (star_zero K)]

theorem polyAt_map_star {ω : K} {n : ℕ} (hω : ω ^ n = 1) (hstar : star ω = ω⁻¹) (A : List K) {k : ℕ}
    (hk : k ≤ n) :
    polyAt ω (A.map star) k = star (polyAt ω A ((n - k) % n)) := by
  unfold polyAt
  rw [List.length_map, star_add, star_one, star_sum]
  congr 1
  apply Finset.sum_congr rfl
  intro j _
  have e : ω ^ ((j + 1) * ((n - k) % n)) = (ω⁻¹ ^ k) ^ (j + 1) := by
    rw [mul_comm, pow_mul, pow_mirror hω hk]
  rw [nth_map_zero star (star_zero K), star_mul', e, star_pow, star_pow, star_inv₀, hstar, inv_inv,
    ← pow_mul, mul_comm k (j + 1)]

/-- a list of self-adjoint entries is fixed by the entry-wise conjugation -/
theorem map_star_eq_self (A : List K) (h : ∀ j, j < A.length → star (nth A j) = nth A j) :
    A.map star = A := by
  apply list_ext_nth
  · simp
  · intro j hj
    rw [nth_map_zero star (star_zero K)]
    exact h j (by simpa using hj)

theorem arma2psd_twist {ω : K} {n : ℕ} (hn : 0 < n) (hω : ω ^ n = 1) (A B : Option (List K))
    (rho T : K) {k m : ℕ} (hk : k < n) (hm : m ≤ n) :
    nth (arma2psd (twiddles ω n) (A.map (twist (ω⁻¹ ^ m))) (B.map (twist (ω⁻¹ ^ m))) rho T n) k
      = nth (arma2psd (twiddles ω n) A B rho T n) ((k + n - m) % n) := by
  have hm' : m ≤ k + n := by omega
  unfold arma2psd
  rw [nth_vec, nth_vec, if_pos hk, if_pos (Nat.mod_lt _ hn)]
  cases A <;> cases B <;>
    simp only [Option.map_some, Option.map_none, polySeq_twist, dftBin_modulate hn hω _ hm']

theorem arma2psd_map_star {ω : K} {n : ℕ} (hn : 0 < n) (hω : ω ^ n = 1) (hstar : star ω = ω⁻¹)
    (A B : Option (List K)) (rho T : K) {k : ℕ} (hk : k < n) :
    nth (arma2psd (twiddles ω n) (A.map (List.map star)) (B.map (List.map star)) rho T n) k
      = nth (arma2psd (twiddles ω n) A B rho T n) ((n - k) % n) := by
  have hk' : k ≤ n := by omega
  unfold arma2psd
  rw [nth_vec, nth_vec, if_pos hk, if_pos (Nat.mod_lt _ hn)]
  cases A <;> cases B <;>
    simp only [Option.map_some, Option.map_none, polySeq_map_star,
      dftBin_map_star hn hω hstar _ hk', abs2_star]

end ArmaS

/-! ### periodogram data, rotation of lists, the real fold -/
section Pgram
variable {K : Type} [Field K]

/-- `numpy.roll(b, m)` from its entries -/
theorem eq_cshift_of_entries {a b : List K} {n m : ℕ} (ha : a.length = n) (hb : b.length = n)
    (hm : m < n) (h : ∀ k, k < n → nth a k = nth b ((k + n - m) % n)) : a = cshift b m := by
  apply list_ext_nth
  · simp [cshift, ha, hb]
  · intro k hk
    rw [ha] at hk
    unfold cshift
    rw [hb, nth_vec, if_pos hk, Nat.mod_eq_of_lt hm]
    exact h k hk

theorem windowed_modulate (μ : K) (x w : List K) :
    vec (modulate μ x).length (fun j => nth (modulate μ x) j * nth w j)
      = modulate μ (vec x.length (fun j => nth x j * nth w j)) := by
  unfold modulate
  simp only [vec_length]
  apply vec_ext
  intro j hj
  rw [nth_vec, nth_vec, if_pos hj, if_pos hj, mul_assoc]

variable [StarRing K]

theorem nth_speriodogram_false (tw x w : List K) (n : ℕ) {k : ℕ} (hk : k < n) :
    nth (speriodogram tw x w n false) k
      = abs2 (dftBin tw n (vec x.length (fun j => nth x j * nth w j)) k) / (x.length : K) := by
  unfold speriodogram
  simp only [nth_vec, Bool.false_eq_true, if_false, if_pos hk]

theorem windowed_map_star (x w : List K) (hw : ∀ j, j < x.length → star (nth w j) = nth w j) :
    vec (x.map star).length (fun j => nth (x.map star) j * nth w j)
      = (vec x.length (fun j => nth x j * nth w j)).map star := by
  rw [map_vec, List.length_map]
  apply vec_ext
  intro j hj
  rw [nth_map_zero star (star_zero K), star_mul', hw j hj]

theorem windowed_trconj (x w : List K) (hw : ∀ j, j < x.length → star (nth w j) = nth w j)
    (hsym : ∀ j, j < x.length → nth w (x.length - 1 - j) = nth w j) :
    vec (trconj x).length (fun j => nth (trconj x) j * nth w j)
      = trconj (vec x.length (fun j => nth x j * nth w j)) := by
  unfold trconj
  simp only [vec_length]
  apply vec_ext
  intro j hj
  rw [nth_vec, nth_vec, if_pos hj, if_pos (by omega), star_mul', hsym j hj, hw j hj]

end Pgram

/-! ### Burg's recursion on modulated data -/
section BurgS
variable {K : Type} [Field K] [StarRing K]
open SpecVerif.BurgL

/-- what modulation does to the backward-error array of stage `k`: entry `j` picks up `μ^{j-k}`
(truncated subtraction: the entries `j < k` are frozen copies of earlier stages, factor `1`) -/
def btwist (μ : K) (k : ℕ) (b : List K) : List K := vec b.length (fun j => μ ^ (j - k) * nth b j)

omit [StarRing K] in
@[simp] theorem btwist_length (μ : K) (k : ℕ) (b : List K) : (btwist μ k b).length = b.length := by
  simp [btwist]

omit [StarRing K] in
theorem nth_btwist (μ : K) (k : ℕ) (b : List K) (i : ℕ) :
    nth (btwist μ k b) i = μ ^ (i - k) * nth b i := by
  unfold btwist
  rw [nth_vec]
  by_cases h : i < b.length
  · rw [if_pos h]
  · rw [if_neg h, nth_of_ge b i (by omega), mul_zero]

/-- the Burg state of the modulated data in terms of the state of the data, after `k` stages -/
def modState (μ : K) (k : ℕ) (s : BurgState K) : BurgState K :=
  { a := twist μ s.a, rho := s.rho, ref := twist μ s.ref, ef := modulate μ s.ef,
    eb := btwist μ k s.eb, den := s.den, temp := s.temp }

theorem burgK_modState {μ : K} (hμ : μ * star μ = 1) (s : BurgState K) (N k : ℕ) :
    burgK (modState μ k s) N k = (μ ^ (k + 1) * (burgK s N k).1, (burgK s N k).2) := by
  have hnum : sumR (N - k - 1)
        (fun i => nth (modulate μ s.ef) (i + k + 1) * conj (nth (btwist μ k s.eb) (i + k)))
      = μ ^ (k + 1) * sumR (N - k - 1) (fun i => nth s.ef (i + k + 1) * conj (nth s.eb (i + k))) := by
    rw [sumR_eq_sum, sumR_eq_sum, Finset.mul_sum]
    apply Finset.sum_congr rfl
    intro i _
    rw [nth_modulate, nth_btwist, conj_eq_star, conj_eq_star, star_mul', star_pow, Nat.add_sub_cancel]
    have h1 : μ ^ i * star μ ^ i = 1 := by rw [← mul_pow, hμ, one_pow]
    have e : μ ^ (i + k + 1) = μ ^ i * μ ^ (k + 1) := by rw [← pow_add, Nat.add_assoc]
    rw [e]
    linear_combination (μ ^ (k + 1) * nth s.ef (i + k + 1) * star (nth s.eb (i + k))) * h1
  simp only [burgK, modState]
  rw [hnum]
  simp only [nth_modulate, nth_btwist, abs2_unimod_mul hμ]
  rw [Prod.mk.injEq]
  refine ⟨?_, rfl⟩
  ring

theorem burgStep_modState {μ : K} (hμ : μ * star μ = 1) (s : BurgState K) (N k : ℕ)
    (ha : s.a.length = k) (href : s.ref.length = k) :
    burgStep (modState μ k s) N k = modState μ (k + 1) (burgStep s N k) := by
  have hK := burgK_modState hμ s N k
  unfold burgStep
  simp only [hK]
  unfold modState
  simp only
  rw [BurgState.mk.injEq]
  refine ⟨?_, ?_, ?_, ?_, ?_, rfl, ?_⟩
  · rw [← ha]; exact levup_twist hμ _ _
  · rw [abs2_unimod_mul hμ]
  · rw [twist_append_singleton, href]
  · -- forward errors
    apply list_ext_nth
    · simp
    · intro j hj
      have hj' : j < N := by simpa using hj
      rw [nth_modulate, nth_vec, nth_vec, if_pos hj', if_pos hj']
      by_cases h : k < j
      · have e : μ ^ j = μ ^ (k + 1) * μ ^ (j - 1 - k) := by rw [← pow_add]; congr 1; omega
        rw [if_pos h, if_pos h, nth_modulate, nth_btwist, e]; ring
      · rw [if_neg h, if_neg h, nth_modulate]
  · -- backward errors
    apply list_ext_nth
    · simp
    · intro j hj
      have hj' : j < N := by simpa using hj
      rw [nth_btwist, nth_vec, nth_vec, if_pos hj', if_pos hj']
      by_cases h : k < j
      · rw [if_pos h, if_pos h, nth_btwist, nth_modulate, conj_eq_star, conj_eq_star, star_mul',
          star_pow]
        have e1 : j - 1 - k = j - (k + 1) := by omega
        have e : μ ^ j = μ ^ (j - (k + 1)) * μ ^ (k + 1) := by rw [← pow_add]; congr 1; omega
        have h1 : μ ^ (k + 1) * star μ ^ (k + 1) = 1 := by rw [← mul_pow, hμ, one_pow]
        rw [e1, e]
        linear_combination (μ ^ (j - (k + 1)) * star (burgK s N k).1 * nth s.ef j) * h1
      · rw [if_neg h, if_neg h, nth_btwist]
        have e1 : j - k = 0 := by omega
        have e2 : j - (k + 1) = 0 := by omega
        rw [e1, e2]
  · rw [abs2_unimod_mul hμ]

theorem burgInit_modulate {μ : K} (hμ : μ * star μ = 1) (x : List K) :
    burgInit (modulate μ x) = modState μ 0 (burgInit x) := by
  have hrho : sumR x.length (fun j => abs2 (nth (modulate μ x) j))
      = sumR x.length (fun j => abs2 (nth x j)) := by
    rw [sumR_eq_sum, sumR_eq_sum]
    apply Finset.sum_congr rfl
    intro j _
    rw [nth_modulate, abs2_unimod_mul hμ]
  unfold burgInit modState
  simp only [modulate_length, hrho]
  rw [BurgState.mk.injEq]
  refine ⟨rfl, rfl, rfl, rfl, ?_, rfl, rfl⟩
  unfold modulate btwist
  apply vec_ext
  intro j _
  rw [Nat.sub_zero]

/-- **Burg on modulated data** -/
theorem burgRun_modulate {μ : K} (hμ : μ * star μ = 1) (x : List K) (k : ℕ) :
    burgRun (modulate μ x) k = modState μ k (burgRun x k) := by
  induction k with
  | zero => exact burgInit_modulate hμ x
  | succ k ih =>
    rw [burgRun_succ, ih, modulate_length,
      burgStep_modState hμ _ _ _ (burgRun_a_length x k) (burgRun_ref_length x k)]
    rfl

/-! #### conjugated time reversal: forward and backward errors swap roles -/

/-- invariant linking the Burg state `s` of `x` and the state `t` of `y_n = conj x_{N-1-n}` after `k`
stages: same coefficients / powers, and on the live range `k ≤ j < N` the forward errors of `y` are the
conjugated, reversed backward errors of `x` and vice versa -/
def RevInv (N k : ℕ) (s t : BurgState K) : Prop :=
  t.a = s.a ∧ t.rho = s.rho ∧ t.ref = s.ref ∧ t.den = s.den ∧ t.temp = s.temp ∧
    ∀ j, k ≤ j → j < N →
      nth t.ef j = star (nth s.eb (N - 1 - j + k)) ∧ nth t.eb j = star (nth s.ef (N - 1 - j + k))

theorem burgK_rev {N k : ℕ} {s t : BurgState K} (h : RevInv N k s t) (hk : k < N) :
    burgK t N k = burgK s N k := by
  obtain ⟨_, _, _, hden, htemp, hj⟩ := h
  have hnum : sumR (N - k - 1) (fun i => nth t.ef (i + k + 1) * conj (nth t.eb (i + k)))
      = sumR (N - k - 1) (fun i => nth s.ef (i + k + 1) * conj (nth s.eb (i + k))) := by
    rw [sumR_eq_sum, sumR_eq_sum, ← Finset.sum_range_reflect]
    apply Finset.sum_congr rfl
    intro i hi
    have hi' : i < N - k - 1 := mem_range.mp hi
    have e1 : N - 1 - (N - k - 1 - 1 - i + k + 1) + k = i + k := by omega
    have e2 : N - 1 - (N - k - 1 - 1 - i + k) + k = i + k + 1 := by omega
    rw [(hj (N - k - 1 - 1 - i + k + 1) (by omega) (by omega)).1,
      (hj (N - k - 1 - 1 - i + k) (by omega) (by omega)).2, e1, e2, conj_eq_star, conj_eq_star,
      star_star, mul_comm]
  have e3 : N - 1 - k + k = N - 1 := by omega
  have e4 : N - 1 - (N - 1) + k = k := by omega
  have h1 := (hj k (le_refl k) hk).1
  have h2 := (hj (N - 1) (by omega) (by omega)).2
  rw [e3] at h1
  rw [e4] at h2
  simp only [burgK]
  rw [hnum, h1, h2, abs2_star, abs2_star, hden, htemp, Prod.mk.injEq]
  constructor
  · congr 1; ring
  · ring

theorem burgStep_rev {N k : ℕ} {s t : BurgState K} (h : RevInv N k s t) (hk : k < N) :
    RevInv N (k + 1) (burgStep s N k) (burgStep t N k) := by
  have hK := burgK_rev h hk
  obtain ⟨ha, hrho, href, _, _, hj⟩ := h
  unfold burgStep
  simp only [hK]
  refine ⟨by rw [ha], by rw [hrho], by rw [href], rfl, rfl, ?_⟩
  intro j hkj hjN
  have hj1 : N - 1 - j + (k + 1) < N := by omega
  have hj2 : k < N - 1 - j + (k + 1) := by omega
  have e1 : N - 1 - j + (k + 1) - 1 = N - 1 - j + k := by omega
  have e2 : N - 1 - (j - 1) + k = N - 1 - j + (k + 1) := by omega
  simp only [nth_vec, if_pos hjN, if_pos hj1, if_pos (show k < j by omega), if_pos hj2, e1]
  rw [(hj j (by omega) hjN).1, (hj (j - 1) (by omega) (by omega)).2, e2]
  constructor
  · rw [star_add, star_mul', conj_eq_star, star_star]
  · rw [star_add, star_mul', conj_eq_star]

theorem burgInit_rev (x : List K) : RevInv x.length 0 (burgInit x) (burgInit (trconj x)) := by
  have hrho : sumR x.length (fun j => abs2 (nth (trconj x) j))
      = sumR x.length (fun j => abs2 (nth x j)) := by
    rw [sumR_eq_sum, sumR_eq_sum, ← Finset.sum_range_reflect]
    apply Finset.sum_congr rfl
    intro j hj
    have hj' : j < x.length := mem_range.mp hj
    have e : x.length - 1 - (x.length - 1 - j) = j := by omega
    rw [nth_trconj x _ (by omega), e, abs2_star]
  unfold burgInit
  simp only [trconj_length, hrho]
  refine ⟨rfl, rfl, rfl, rfl, rfl, ?_⟩
  intro j _ hj
  rw [nth_trconj x j hj, Nat.add_zero]
  exact ⟨rfl, rfl⟩

/-- **Burg on the conjugated, time-reversed data**: the invariant holds after `k ≤ N` stages -/
theorem burgRun_rev (x : List K) (k : ℕ) (hk : k ≤ x.length) :
    RevInv x.length k (burgRun x k) (burgRun (trconj x) k) := by
  induction k with
  | zero => exact burgInit_rev x
  | succ k ih =>
    have h := burgStep_rev (ih (by omega)) (show k < x.length by omega)
    rw [burgRun_succ, burgRun_succ, trconj_length]
    exact h

end BurgS

/-! ### minimum variance, multitaper and correlogram under modulation -/
section More
variable {K : Type} [Field K] [StarRing K]

/-- for unimodular `μ` with `μ^n = 1`: `conj μ^{n-j} = μ^j` (the negative lag stored at `n-j`) -/
theorem star_pow_sub_eq {μ : K} (hμ : μ * star μ = 1) {n : ℕ} (hμn : μ ^ n = 1) {j : ℕ} (hj : j ≤ n) :
    star μ ^ (n - j) = μ ^ j := by
  have h1 : μ ^ (n - j) * star μ ^ (n - j) = 1 := by rw [← mul_pow, hμ, one_pow]
  have h2 : μ ^ j * μ ^ (n - j) = 1 := by rw [← pow_add, Nat.add_sub_cancel' hj, hμn]
  linear_combination (-(star μ ^ (n - j))) * h2 + μ ^ j * h1

theorem unimod_inv_pow {ω : K} (hω0 : ω ≠ 0) (hstar : star ω = ω⁻¹) (m : ℕ) :
    (ω⁻¹ ^ m) * star (ω⁻¹ ^ m) = 1 := by
  rw [star_pow, star_inv₀, hstar, inv_inv, ← mul_pow, inv_mul_cancel₀ hω0, one_pow]

omit [StarRing K] in
theorem inv_pow_pow_eq_one {ω : K} {n : ℕ} (hω : ω ^ n = 1) (m : ℕ) : (ω⁻¹ ^ m) ^ n = 1 := by
  rw [← pow_mul, mul_comm, pow_mul, inv_pow, hω, inv_one, one_pow]

theorem minvarPsi_eq (a : List K) (P : K) (n : ℕ) :
    minvarPsi a P n = vec n (fun j =>
      if j < a.length then minvarLag a P j
      else if 0 < n - j ∧ n - j < a.length then star (minvarLag a P (n - j)) else 0) := by
  unfold minvarPsi minvarLag
  simp only [sumR_eq_sum, conj_eq_star]

theorem minvarLag_modulate {μ : K} (hμ : μ * star μ = 1) (a a' : List K) (P : K)
    (hl : a'.length = a.length) (ha : ∀ i, nth a' i = μ ^ i * nth a i) (k : ℕ) :
    minvarLag a' P k = μ ^ k * minvarLag a P k := by
  unfold minvarLag
  rw [hl, mul_div_assoc', Finset.mul_sum]
  congr 1
  apply Finset.sum_congr rfl
  intro i _
  have h1 : μ ^ i * star μ ^ i = 1 := by rw [← mul_pow, hμ, one_pow]
  rw [ha, ha, star_mul', star_pow, pow_add]
  linear_combination ((if 2 * i ≤ a.length - k then (((a.length - k - 2 * i : ℕ) : K))
      else -(((2 * i - (a.length - k) : ℕ) : K))) * μ ^ k * star (nth a i) * nth a (i + k)) * h1

theorem minvarPsi_modulate {μ : K} (hμ : μ * star μ = 1) {n : ℕ} (hμn : μ ^ n = 1) (a a' : List K)
    (P : K) (hl : a'.length = a.length) (ha : ∀ i, nth a' i = μ ^ i * nth a i) :
    minvarPsi a' P n = modulate μ (minvarPsi a P n) := by
  rw [minvarPsi_eq, minvarPsi_eq]
  unfold modulate
  rw [vec_length, hl]
  apply vec_ext
  intro j hj
  rw [nth_vec, if_pos hj]
  by_cases h1 : j < a.length
  · rw [if_pos h1, if_pos h1, minvarLag_modulate hμ a a' P hl ha]
  · rw [if_neg h1, if_neg h1]
    by_cases h2 : 0 < n - j ∧ n - j < a.length
    · rw [if_pos h2, if_pos h2, minvarLag_modulate hμ a a' P hl ha, star_mul', star_pow,
        star_pow_sub_eq hμ hμn (by omega)]
    · rw [if_neg h2, if_neg h2, mul_zero]

theorem nth_minvarPsd (tw a : List K) (P fs : K) (n : ℕ) {k : ℕ} (hk : k < n) :
    nth (minvarPsd tw a P fs n) k = fs / rePart (dftBin tw n (minvarPsi a P n) k) := by
  unfold minvarPsd
  simp only [nth_vec, if_pos hk]

@[simp] theorem minvarPsd_length (tw a : List K) (P fs : K) (n : ℕ) :
    (minvarPsd tw a P fs n).length = n := by
  simp [minvarPsd]

omit [StarRing K] in
theorem nth_cons_modulate (μ : K) (a : List K) (i : ℕ) :
    nth ((1 : K) :: twist μ a) i = μ ^ i * nth ((1 : K) :: a) i := by
  cases i with
  | zero => simp [nth]
  | succ i =>
    have e1 : nth ((1 : K) :: twist μ a) (i + 1) = nth (twist μ a) i := by simp [nth]
    have e2 : nth ((1 : K) :: a) (i + 1) = nth a i := by simp [nth]
    rw [e1, e2, nth_twist]

/-- the PSD of `minvar` for twisted Burg coefficients is rotated -/
theorem minvarPsd_twist {ω : K} {n : ℕ} (hn : 0 < n) (hω : ω ^ n = 1) (hstar : star ω = ω⁻¹)
    (a : List K) (P fs : K) {k m : ℕ} (hk : k < n) (hm : m ≤ n) :
    nth (minvarPsd (twiddles ω n) ((1 : K) :: twist (ω⁻¹ ^ m) a) P fs n) k
      = nth (minvarPsd (twiddles ω n) ((1 : K) :: a) P fs n) ((k + n - m) % n) := by
  have hω0 := ne_zero_of_pow_eq_one hn hω
  rw [nth_minvarPsd _ _ _ _ _ hk, nth_minvarPsd _ _ _ _ _ (Nat.mod_lt _ hn),
    minvarPsi_modulate (unimod_inv_pow hω0 hstar m) (inv_pow_pow_eq_one hω m) ((1 : K) :: a) _ P
      (by simp) (nth_cons_modulate _ a),
    dftBin_modulate hn hω _ (by omega)]

/-! multitaper -/

omit [StarRing K] in
theorem nth_eigenspectrum_xw (tw x taper : List K) (n : ℕ) {k : ℕ} (hk : k < n) :
    nth (eigenspectrum tw x taper n) k
      = dftBin tw n (vec x.length (fun j => nth x j * nth taper j)) k := by
  unfold eigenspectrum
  simp only [nth_vec, if_pos hk]
  congr 1
  apply vec_ext
  intro j _
  exact mul_comm _ _

omit [StarRing K] in
/-- the taper-weighted mean of rotated eigenspectra is the rotated mean (`unity` / `eigen` weights:
one weight per taper) -/
theorem mtMean_rot (method : MtMethod) (hmeth : method ≠ .adapt) (Sk Sk' weights : List (List K))
    (n nwin : ℕ) {k k' : ℕ} (hk : k < n) (hk' : k' < n)
    (h : ∀ t, t < nwin → nth (Sk'.getD t []) k = nth (Sk.getD t []) k') :
    nth (mtMean method Sk' weights n nwin) k = nth (mtMean method Sk weights n nwin) k' := by
  unfold mtMean
  rw [nth_vec, nth_vec, if_pos hk, if_pos hk', sumR_eq_sum, sumR_eq_sum]
  congr 1
  apply Finset.sum_congr rfl
  intro t ht
  rw [h t (mem_range.mp ht)]
  cases method
  · rfl
  · rfl
  · exact absurd rfl hmeth

/-! correlogram -/

theorem correlogramSeq_modulate {μ : K} (hμ : μ * star μ = 1) {n : ℕ} (hμn : μ ^ n = 1)
    (rxy ryx rxy' ryx' w : List K) (lag : ℕ)
    (h1 : ∀ i, i ≤ lag → nth rxy' i = μ ^ i * nth rxy i)
    (h2 : ∀ i, i ≤ lag → nth ryx' i = μ ^ i * nth ryx i) :
    correlogramSeq rxy' ryx' w lag n = modulate μ (correlogramSeq rxy ryx w lag n) := by
  unfold correlogramSeq modulate
  rw [vec_length]
  apply vec_ext
  intro i hi
  rw [nth_vec, if_pos hi]
  by_cases h0 : i = 0
  · subst h0
    rw [if_pos rfl, if_pos rfl, h1 0 (Nat.zero_le _)]
  · rw [if_neg h0, if_neg h0]
    by_cases h3 : n - lag ≤ i
    · rw [if_pos h3, if_pos h3, h2 _ (by omega), conj_eq_star, conj_eq_star, star_mul', star_pow,
        star_pow_sub_eq hμ hμn (by omega), mul_assoc]
    · rw [if_neg h3, if_neg h3]
      by_cases h4 : i ≤ lag
      · rw [if_pos h4, if_pos h4, h1 i h4, mul_assoc]
      · rw [if_neg h4, if_neg h4, mul_zero]

theorem nth_correlogramPsd (tw rxy ryx w : List K) (lag n : ℕ) {k : ℕ} (hk : k < n) :
    nth (correlogramPsd tw rxy ryx w lag n) k
      = rePart (dftBin tw n (correlogramSeq rxy ryx w lag n) k) := by
  unfold correlogramPsd
  simp only [nth_vec, if_pos hk]

@[simp] theorem correlogram_length (tw x y w : List K) (lag n : ℕ) (norm : Norm) (rms2 : K) :
    (correlogram tw x y w lag n norm rms2).length = n := by
  simp [correlogram, correlogramPsd]

theorem nth_correlogram_modulate {ω : K} {n : ℕ} (hn : 0 < n) (hω : ω ^ n = 1) (hstar : star ω = ω⁻¹)
    (x y w : List K) (lag : ℕ) (norm : Norm) (rms2 : K) {k m : ℕ} (hk : k < n) (hm : m ≤ n) :
    nth (correlogram (twiddles ω n) (modulate (ω⁻¹ ^ m) x) (modulate (ω⁻¹ ^ m) y) w lag n norm rms2) k
      = nth (correlogram (twiddles ω n) x y w lag n norm rms2) ((k + n - m) % n) := by
  have hω0 := ne_zero_of_pow_eq_one hn hω
  have hμ := unimod_inv_pow hω0 hstar m
  unfold correlogram
  simp only
  rw [nth_correlogramPsd _ _ _ _ _ _ hk, nth_correlogramPsd _ _ _ _ _ _ (Nat.mod_lt _ hn),
    correlogramSeq_modulate hμ (inv_pow_pow_eq_one hω m) (correlation x y lag norm rms2)
      (correlation y x lag norm rms2) _ _ w lag
      (fun i hi => by rw [correlation_modulate hμ, nth_vec, if_pos (by omega)])
      (fun i hi => by rw [correlation_modulate hμ, nth_vec, if_pos (by omega)]),
    dftBin_modulate hn hω _ (by omega)]

/-- the `|eigenspectrum|²` table handed to `pmtmWeights` / `mtMean` (one row per taper) -/
def mtSkAbs2 (tw x : List K) (tapers : List (List K)) (n : ℕ) : List (List K) :=
  tapers.map (fun tp => (eigenspectrum tw x tp n).map abs2)

theorem nth_mtSkAbs2 (tw x : List K) (tapers : List (List K)) (n : ℕ) (t : ℕ) {k : ℕ} (hk : k < n) :
    nth ((mtSkAbs2 tw x tapers n).getD t []) k
      = if t < tapers.length then
          abs2 (dftBin tw n (vec x.length (fun j => nth x j * nth (tapers.getD t []) j)) k)
        else 0 := by
  unfold mtSkAbs2
  by_cases ht : t < tapers.length
  · rw [if_pos ht, List.getD_eq_getElem?_getD, List.getD_eq_getElem?_getD, List.getElem?_map,
      List.getElem?_eq_getElem ht]
    simp only [Option.map_some, Option.getD_some]
    rw [nth_map_zero abs2 (by rw [abs2_eq, zero_mul]), nth_eigenspectrum_xw _ _ _ _ hk]
  · rw [if_neg ht, List.getD_eq_getElem?_getD, List.getElem?_map,
      List.getElem?_eq_none_iff.mpr (by omega)]
    simp [nth]

/-- the multitaper table of the modulated data is the table of the data, every row rotated -/
theorem mtSkAbs2_modulate {ω : K} {n : ℕ} (hn : 0 < n) (hω : ω ^ n = 1) (x : List K)
    (tapers : List (List K)) (t : ℕ) {k m : ℕ} (hk : k < n) (hm : m ≤ n) :
    nth ((mtSkAbs2 (twiddles ω n) (modulate (ω⁻¹ ^ m) x) tapers n).getD t []) k
      = nth ((mtSkAbs2 (twiddles ω n) x tapers n).getD t []) ((k + n - m) % n) := by
  rw [nth_mtSkAbs2 _ _ _ _ _ hk, nth_mtSkAbs2 _ _ _ _ _ (Nat.mod_lt _ hn), windowed_modulate,
    dftBin_modulate hn hω _ (by omega)]

/-- … and of the conjugated time-reversed data the same table (real symmetric tapers, `N ≤ NFFT`) -/
theorem mtSkAbs2_trconj {ω : K} {n : ℕ} (hn : 0 < n) (hω : ω ^ n = 1) (hstar : star ω = ω⁻¹)
    (x : List K) (hN : x.length ≤ n) (tapers : List (List K))
    (hw : ∀ tp ∈ tapers, ∀ j, j < x.length → star (nth tp j) = nth tp j)
    (hsym : ∀ tp ∈ tapers, ∀ j, j < x.length → nth tp (x.length - 1 - j) = nth tp j) :
    mtSkAbs2 (twiddles ω n) (trconj x) tapers n = mtSkAbs2 (twiddles ω n) x tapers n := by
  unfold mtSkAbs2
  apply List.map_congr_left
  intro tp htp
  unfold eigenspectrum
  simp only [map_vec]
  apply vec_ext
  intro k _
  have e1 : (vec (trconj x).length fun j => nth tp j * nth (trconj x) j)
      = trconj (vec x.length fun j => nth x j * nth tp j) := by
    rw [← windowed_trconj x tp (hw tp htp) (hsym tp htp)]
    apply vec_ext; intro j _; exact mul_comm _ _
  have e2 : (vec x.length fun j => nth tp j * nth x j) = vec x.length fun j => nth x j * nth tp j := by
    apply vec_ext; intro j _; exact mul_comm _ _
  rw [e1, e2, dftBin_trconj hn hω hstar _ (by simpa using hN),
    abs2_phase_mul (ne_zero_of_pow_eq_one hn hω) hstar]

/-- the weights of `pmtm` see the data only through `N` and `Σ|x|²` -/
theorem pmtmWeights_trconj [ReOrd K] (method : MtMethod) (x lams : List K) (SkA : List (List K))
    (n : ℕ) (tolc : K) :
    pmtmWeights method (trconj x) lams SkA n tolc = pmtmWeights method x lams SkA n tolc := by
  have hrho : sumR x.length (fun j => abs2 (nth (trconj x) j))
      = sumR x.length (fun j => abs2 (nth x j)) := by
    rw [sumR_eq_sum, sumR_eq_sum, ← Finset.sum_range_reflect]
    apply Finset.sum_congr rfl
    intro j hj
    have hj' : j < x.length := mem_range.mp hj
    have e : x.length - 1 - (x.length - 1 - j) = j := by omega
    rw [nth_trconj x _ (by omega), e, abs2_star]
  unfold pmtmWeights
  cases method
  · rfl
  · rfl
  · simp only [trconj_length, hrho]

end More

/-! ### covariance / modified covariance least squares under a row reversal of the data matrix -/
section LSflip
variable {K : Type} [Field K] [StarRing K]
open SpecVerif.LSL

omit [StarRing K] in
theorem sum_flip {f f' : ℕ → K} {r : ℕ} (h : ∀ i, i < r → f' i = f (r - 1 - i)) :
    ∑ i ∈ range r, f' i = ∑ i ∈ range r, f i := by
  rw [← Finset.sum_range_reflect f r]
  exact Finset.sum_congr rfl (fun i hi => h i (mem_range.mp hi))

/-- `lsFit` as a function of its `lstsq` call -/
theorem lsFit_eq_map [IsZero K] (X : Mat K) (rows p : ℕ) :
    lsFit X rows p
      = (lstsq (negXc X rows p) (rhsX1 X rows) rows p).map (fun a => (a, lsErr X rows p (nth a))) := by
  unfold lsFit
  simp only
  change (match lstsq (negXc X rows p) (rhsX1 X rows) rows p with
    | none => none
    | some a => some (a, _)) = _
  cases hl : lstsq (negXc X rows p) (rhsX1 X rows) rows p with
  | none => rfl
  | some a0 =>
    simp only [Option.map_some, Option.some.injEq, Prod.mk.injEq, true_and]
    rw [sumR_eq_sum, sumR_eq_sum]
    unfold lsErr
    congr 1
    · apply Finset.sum_congr rfl
      intro i hi
      rw [nth_vec, if_pos (mem_range.mp hi)]
      rfl
    · apply Finset.sum_congr rfl
      intro j _
      rw [sumR_eq_sum]
      congr 1
      apply Finset.sum_congr rfl
      intro i hi
      rw [nth_vec, if_pos (mem_range.mp hi)]
      rfl

/-- reversing the order of the rows of the data matrix does not change the least-squares fit: the
normal equations and the error formula are sums over the rows -/
theorem lsFit_rowflip [IsZero K] (X X' : Mat K) (rows p : ℕ)
    (h : ∀ i, i < rows → ∀ j, mentryM X' i j = mentryM X (rows - 1 - i) j) :
    lsFit X' rows p = lsFit X rows p := by
  have hG : matMul (conjT (negXc X' rows p) rows p) (negXc X' rows p) p rows p
      = matMul (conjT (negXc X rows p) rows p) (negXc X rows p) p rows p := by
    unfold matMul
    apply vec_ext; intro a ha
    apply vec_ext; intro b hb
    rw [sumR_eq_sum, sumR_eq_sum]
    apply sum_flip
    intro i hi
    rw [mentryM_conjT _ _ _ _ _ ha hi, mentryM_conjT _ _ _ _ _ ha (by omega),
      mentryM_negXc _ _ _ _ _ hi ha, mentryM_negXc _ _ _ _ _ hi hb,
      mentryM_negXc _ _ _ _ _ (show rows - 1 - i < rows by omega) ha,
      mentryM_negXc _ _ _ _ _ (show rows - 1 - i < rows by omega) hb]
    unfold colR
    rw [h i hi, h i hi]
  have hV : matVec (conjT (negXc X' rows p) rows p) (rhsX1 X' rows) p rows
      = matVec (conjT (negXc X rows p) rows p) (rhsX1 X rows) p rows := by
    unfold matVec
    apply vec_ext; intro a ha
    rw [sumR_eq_sum, sumR_eq_sum]
    apply sum_flip
    intro i hi
    unfold rhsX1
    rw [mentryM_conjT _ _ _ _ _ ha hi, mentryM_conjT _ _ _ _ _ ha (by omega),
      mentryM_negXc _ _ _ _ _ hi ha,
      mentryM_negXc _ _ _ _ _ (show rows - 1 - i < rows by omega) ha, nth_vec, nth_vec, if_pos hi,
      if_pos (by omega)]
    unfold colR
    rw [h i hi, h i hi]
  have hE : ∀ a : ℕ → K, lsErr X' rows p a = lsErr X rows p a := by
    intro a
    unfold lsErr col0 colR
    congr 1
    · apply sum_flip; intro i hi; rw [h i hi]
    · apply Finset.sum_congr rfl
      intro j _
      congr 1
      apply sum_flip; intro i hi; rw [h i hi, h i hi]
  rw [lsFit_eq_map, lsFit_eq_map, lstsq_unfold, lstsq_unfold, hG, hV]
  simp only [hE]

/-- entries of the 'modified' data matrix beyond column `m` are zero padding -/
theorem mentry_corrmtx_modified (x : List K) (m i j : ℕ) (hi : i < 2 * (x.length - m)) :
    mentryM (corrmtx x m .modified) i j
      = if j ≤ m then
          (if i < x.length - m then nth x (i + m - j) else star (nth x (i - (x.length - m) + j)))
        else 0 := by
  unfold corrmtx mentryM
  simp only
  rw [getD_vec, if_pos hi]
  by_cases h1 : i < x.length - m
  · rw [if_pos h1, nth_vec, if_pos h1]
    by_cases h2 : j ≤ m
    · rw [if_pos (by omega), if_pos h2, if_pos (by omega)]
    · rw [if_neg (by omega), if_neg h2]
  · rw [if_neg h1, nth_vec, if_neg h1]
    by_cases h2 : j ≤ m
    · rw [if_pos (by omega), if_pos h2, conj_eq_star]
    · rw [if_neg (by omega), if_neg h2]

/-- the modified-covariance data matrix of the conjugated time-reversed data is the data matrix of the
data with its `2(N-p)` rows in reverse order (forward rows ↔ backward rows) -/
theorem corrmtx_modified_trconj (x : List K) (p : ℕ) (hp : p ≤ x.length) (i : ℕ)
    (hi : i < 2 * (x.length - p)) (j : ℕ) :
    mentryM (corrmtx (trconj x) p .modified) i j
      = mentryM (corrmtx x p .modified) (2 * (x.length - p) - 1 - i) j := by
  rw [mentry_corrmtx_modified _ _ _ _ (by simpa using hi),
    mentry_corrmtx_modified _ _ _ _ (by omega), trconj_length]
  by_cases h2 : j ≤ p
  · rw [if_pos h2, if_pos h2]
    by_cases h1 : i < x.length - p
    · have e : 2 * (x.length - p) - 1 - i - (x.length - p) + j = x.length - 1 - (i + p - j) := by
        omega
      rw [if_pos h1, if_neg (by omega), nth_trconj x _ (by omega), e]
    · have e : x.length - 1 - (i - (x.length - p) + j) = 2 * (x.length - p) - 1 - i + p - j := by
        omega
      rw [if_neg h1, if_pos (by omega), nth_trconj x _ (by omega), star_star, e]
  · rw [if_neg h2, if_neg h2]

/-- **modified covariance on the conjugated time-reversed data** -/
theorem modcovar_trconj [IsZero K] (x : List K) (p : ℕ) (hp : p ≤ x.length) :
    modcovar (trconj x) p = modcovar x p := by
  unfold modcovar
  rw [trconj_length]
  exact lsFit_rowflip _ _ _ _ (fun i hi j => corrmtx_modified_trconj x p hp i hi j)

end LSflip

end SpecVerif.ShiftL
