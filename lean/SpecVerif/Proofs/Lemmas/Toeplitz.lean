import SpecVerif.Proofs.Lemmas.Levinson
/-
  Helper lemmas for C10: the general (non-Hermitian) Toeplitz solver `TOEPLITZ`.

  `c` is the first column (`c 0 = T0`, `c (j+1) = TC[j]`), `rr` the first row (`rr 0 = T0`,
  `rr (j+1) = TR[j]`).  The auxiliary vectors `A`, `B` solve the order-`k` "Levinson" equations of the
  matrix and of its transpose.
-/
namespace SpecVerif
open Finset

set_option linter.unusedSectionVars false

variable {K : Type} [Field K] [StarRing K]

/-- general Toeplitz entry: `c (i-j)` on and below the diagonal, `rr (j-i)` above -/
def gT (c rr : ℕ → K) (i j : ℕ) : K := if j ≤ i then c (i - j) else rr (j - i)

theorem gT_succ (c rr : ℕ → K) (i j : ℕ) : gT c rr (i + 1) (j + 1) = gT c rr i j := by
  unfold gT; simp

theorem gT_low (c rr : ℕ → K) (i j : ℕ) (h : j ≤ i) : gT c rr i j = hR c i j := by
  unfold gT hR; rw [if_pos h, if_pos h]

/-- `G [α_0..α_m]ᵀ = [P,0,…,0]ᵀ` -/
def GEq (c rr : ℕ → K) (m : ℕ) (α : ℕ → K) (P : K) : Prop :=
  ∀ i, i ≤ m → ∑ j ∈ range (m + 1), gT c rr i j * α j = if i = 0 then P else 0

/-- a solution for the transpose, reversed, is annihilated by all rows but the last -/
theorem GEq_rev (c rr : ℕ → K) (hc : c 0 = rr 0) (m : ℕ) (β : ℕ → K) (P : K)
    (h : GEq rr c m β P) :
    ∀ i, i ≤ m → ∑ j ∈ range (m + 1), gT c rr i j * β (m - j) = if i = m then P else 0 := by
  intro i hi
  have key := h (m - i) (Nat.sub_le _ _)
  rw [← Finset.sum_range_reflect] at key
  have e : ∀ j ∈ range (m + 1), gT rr c (m - i) (m + 1 - 1 - j) * β (m + 1 - 1 - j)
      = gT c rr i j * β (m - j) := by
    intro j hj
    have hj' : j ≤ m := Nat.lt_succ_iff.mp (mem_range.mp hj)
    simp only [Nat.add_sub_cancel]
    congr 1
    unfold gT
    by_cases hji : j ≤ i
    · by_cases hij : i ≤ j
      · have : i = j := le_antisymm hij hji
        subst this
        simp [hc]
      · have h1 : ¬ (m - j ≤ m - i) := by omega
        rw [if_neg h1, if_pos hji]; congr 1; omega
    · have h1 : m - j ≤ m - i := by omega
      rw [if_pos h1, if_neg hji]; congr 1; omega
  rw [Finset.sum_congr rfl e] at key
  rw [key]
  by_cases him : i = m
  · subst him; simp
  · have : m - i ≠ 0 := by omega
    simp [this, him]

/-- one step of the two-vector recursion on coefficient functions -/
def stepG (α β : ℕ → K) (m : ℕ) (t : K) : ℕ → K := fun j =>
  (if j ≤ m then α j else 0) + t * (if 1 ≤ j ∧ j ≤ m + 1 then β (m + 1 - j) else 0)

theorem toeplitz_step_fun (c rr : ℕ → K) (hc : c 0 = rr 0) (m : ℕ) (α β : ℕ → K) (P : K)
    (hP0 : P ≠ 0) (hα : GEq c rr m α P) (hβ : GEq rr c m β P) :
    GEq c rr (m + 1) (stepG α β m (-(levDelta c m α) / P))
      (P * (1 - (-(levDelta c m α) / P) * (-(levDelta rr m β) / P))) := by
  set d1 := levDelta c m α with hd1
  set d2 := levDelta rr m β with hd2
  set t := -d1 / P with ht
  have h2 := GEq_rev c rr hc m β P hβ
  intro i hi
  have split : ∑ j ∈ range (m + 2), gT c rr i j * stepG α β m t j
      = (∑ j ∈ range (m + 1), gT c rr i j * α j)
        + t * ∑ j ∈ range (m + 1), gT c rr i (j + 1) * β (m - j) := by
    unfold stepG
    simp only [mul_add, Finset.sum_add_distrib]
    congr 1
    · rw [Finset.sum_range_succ]
      have : ¬ (m + 1 ≤ m) := by omega
      simp only [this, if_false, mul_zero, add_zero]
      apply Finset.sum_congr rfl
      intro j hj
      have : j ≤ m := Nat.lt_succ_iff.mp (mem_range.mp hj)
      simp [this]
    · rw [Finset.sum_range_succ' _ (m + 1)]
      have hz : ¬ ((1:ℕ) ≤ 0 ∧ 0 ≤ m + 1) := by omega
      rw [if_neg hz, mul_zero, mul_zero, add_zero]
      rw [Finset.mul_sum]
      apply Finset.sum_congr rfl
      intro j hj
      have : j ≤ m := Nat.lt_succ_iff.mp (mem_range.mp hj)
      have h1 : 1 ≤ j + 1 ∧ j + 1 ≤ m + 1 := by omega
      simp only [h1, and_self, if_true]
      have : m + 1 - (j + 1) = m - j := by omega
      rw [this]; ring
  have hd1' : ∑ j ∈ range (m + 1), gT c rr (m + 1) j * α j = d1 := by
    rw [hd1]; unfold levDelta
    apply Finset.sum_congr rfl
    intro j hj
    rw [gT_low c rr (m + 1) j (by have := mem_range.mp hj; omega)]
  rw [show m + 1 + 1 = m + 2 from rfl, split]
  rcases Nat.eq_zero_or_pos i with hi0 | hipos
  · subst hi0
    rw [hα 0 (Nat.zero_le _), if_pos rfl, if_pos rfl]
    have hs : ∑ j ∈ range (m + 1), gT c rr 0 (j + 1) * β (m - j) = d2 := by
      rw [hd2]; unfold levDelta
      rw [← Finset.sum_range_reflect]
      apply Finset.sum_congr rfl
      intro j hj
      have hj' : j ≤ m := Nat.lt_succ_iff.mp (mem_range.mp hj)
      have e1 : m + 1 - 1 - j = m - j := by omega
      have e2 : ¬ (m - j + 1 ≤ 0) := by omega
      have e3 : j ≤ m + 1 := by omega
      have e4 : m - j + 1 - 0 = m + 1 - j := by omega
      have e5 : m - (m - j) = j := by omega
      unfold gT hR
      rw [e1, if_neg e2, if_pos e3, e4, e5]
    rw [hs, ht]
    field_simp
    ring
  · obtain ⟨i', rfl⟩ : ∃ i', i = i' + 1 := ⟨i - 1, by omega⟩
    have hi' : i' ≤ m := by omega
    have hs : ∑ j ∈ range (m + 1), gT c rr (i' + 1) (j + 1) * β (m - j)
        = if i' = m then P else 0 := by
      simp only [gT_succ]
      exact h2 i' hi'
    rw [hs, if_neg (Nat.succ_ne_zero i')]
    by_cases him : i' = m
    · subst him
      rw [if_pos rfl, hd1', ht]
      field_simp
      ring
    · have hlt : i' + 1 ≤ m := by omega
      rw [hα (i' + 1) hlt]
      simp [him]

/-- solution update for any matrix `G`: given a solution of the leading `(k+1)` system and a vector
`w` with `G w = [0,…,0,P']ᵀ`, the corrected vector solves the leading `(k+2)` system. -/
theorem solve_step_fun (G : ℕ → ℕ → K) (k : ℕ) (x z w : ℕ → K) (P' : K) (hP' : P' ≠ 0)
    (hx : ∀ i, i ≤ k → ∑ j ∈ range (k + 1), G i j * x j = z i)
    (hw : ∀ i, i ≤ k + 1 → ∑ j ∈ range (k + 1 + 1), G i j * w j = if i = k + 1 then P' else 0)
    (x' : ℕ → K)
    (hx' : ∀ j, j ≤ k + 1 → x' j = (if j ≤ k then x j else 0)
      + (z (k + 1) - ∑ j ∈ range (k + 1), G (k + 1) j * x j) / P' * w j) :
    ∀ i, i ≤ k + 1 → ∑ j ∈ range (k + 1 + 1), G i j * x' j = z i := by
  intro i hi
  set beta := ∑ j ∈ range (k + 1), G (k + 1) j * x j with hb
  set alpha := (z (k + 1) - beta) / P' with ha
  have split : ∑ j ∈ range (k + 1 + 1), G i j * x' j
      = (∑ j ∈ range (k + 1), G i j * x j)
        + alpha * ∑ j ∈ range (k + 1 + 1), G i j * w j := by
    rw [Finset.mul_sum, ← sum_range_ite_le (fun j => G i j * x j) k (k + 1) (Nat.le_succ k),
      ← Finset.sum_add_distrib]
    apply Finset.sum_congr rfl
    intro j hj
    have hj' : j ≤ k + 1 := by have := mem_range.mp hj; omega
    rw [hx' j hj']
    by_cases hjk : j ≤ k
    · rw [if_pos hjk, if_pos hjk]; ring
    · rw [if_neg hjk, if_neg hjk]; ring
  rw [split, hw i hi]
  by_cases hik : i = k + 1
  · subst hik
    rw [if_pos rfl, ← hb, ha]
    field_simp
    ring
  · rw [if_neg hik, mul_zero, add_zero]
    exact hx i (by omega)

/-! ### the list-based model `toepRun` -/

/-- the vector update of `toepStep` is `stepG` on coefficient functions -/
theorem alphaOf_stepvec (A B : List K) (k : ℕ) (t : K) :
    alphaOf (vec (k + 1) (fun j => if j < k then nth A j + t * nth B (k - 1 - j) else t))
      = stepG (alphaOf A) (alphaOf B) k t := by
  funext j
  unfold stepG
  rcases j with _ | i
  · simp
  · rw [alphaOf_succ, nth_vec]
    by_cases h1 : i < k
    · have e0 : i < k + 1 := by omega
      have e1 : i + 1 ≤ k := h1
      have e2 : 1 ≤ i + 1 ∧ i + 1 ≤ k + 1 := by omega
      have e3 : k + 1 - (i + 1) = (k - 1 - i) + 1 := by omega
      rw [if_pos e0, if_pos h1, if_pos e1, if_pos e2, e3, alphaOf_succ, alphaOf_succ]
    · by_cases h2 : i = k
      · subst h2
        have e0 : i < i + 1 := by omega
        have e1 : ¬ (i + 1 ≤ i) := by omega
        have e2 : 1 ≤ i + 1 ∧ i + 1 ≤ i + 1 := by omega
        rw [if_pos e0, if_neg h1, if_neg e1, if_pos e2, Nat.sub_self, alphaOf_zero, mul_one,
          zero_add]
      · have e0 : ¬ (i < k + 1) := by omega
        have e1 : ¬ (i + 1 ≤ k) := by omega
        have e2 : ¬ (1 ≤ i + 1 ∧ i + 1 ≤ k + 1) := by omega
        rw [if_neg e0, if_neg e1, if_neg e2, mul_zero, add_zero]

theorem toepRun_succ (T0 : K) (TC TR Z : List K) (k : ℕ) :
    toepRun T0 TC TR Z (k + 1) = toepStep TC TR Z (toepRun T0 TC TR Z k) k := rfl

/-- first multiplier of stage `k+1` -/
def toepT1 (T0 : K) (TC TR Z : List K) (k : ℕ) : K :=
  -(levDelta (rseq T0 TC) k (alphaOf (toepRun T0 TC TR Z k).A)) / (toepRun T0 TC TR Z k).P

/-- second multiplier of stage `k+1` -/
def toepT2 (T0 : K) (TC TR Z : List K) (k : ℕ) : K :=
  -(levDelta (rseq T0 TR) k (alphaOf (toepRun T0 TC TR Z k).B)) / (toepRun T0 TC TR Z k).P

theorem toepRun_succ_A (T0 : K) (TC TR Z : List K) (k : ℕ) :
    alphaOf (toepRun T0 TC TR Z (k + 1)).A
      = stepG (alphaOf (toepRun T0 TC TR Z k).A) (alphaOf (toepRun T0 TC TR Z k).B) k
          (toepT1 T0 TC TR Z k) := by
  rw [← alphaOf_stepvec, toepRun_succ]
  unfold toepStep toepT1
  simp only [save_eq_levDelta T0]

theorem toepRun_succ_B (T0 : K) (TC TR Z : List K) (k : ℕ) :
    alphaOf (toepRun T0 TC TR Z (k + 1)).B
      = stepG (alphaOf (toepRun T0 TC TR Z k).B) (alphaOf (toepRun T0 TC TR Z k).A) k
          (toepT2 T0 TC TR Z k) := by
  rw [← alphaOf_stepvec, toepRun_succ]
  unfold toepStep toepT2
  simp only [save_eq_levDelta T0]

theorem toepRun_succ_P (T0 : K) (TC TR Z : List K) (k : ℕ) :
    (toepRun T0 TC TR Z (k + 1)).P
      = (toepRun T0 TC TR Z k).P * (1 - toepT1 T0 TC TR Z k * toepT2 T0 TC TR Z k) := by
  rw [toepRun_succ]
  unfold toepStep toepT1 toepT2
  simp only [save_eq_levDelta T0]

theorem toepRun_succ_X (T0 : K) (TC TR Z : List K) (k : ℕ) :
    (toepRun T0 TC TR Z (k + 1)).X
      = vec (k + 2) (fun j =>
          if j ≤ k then nth (toepRun T0 TC TR Z k).X j
            + (nth Z (k + 1) - ∑ j ∈ range (k + 1),
                  hR (rseq T0 TC) (k + 1) j * nth (toepRun T0 TC TR Z k).X j)
                / (toepRun T0 TC TR Z (k + 1)).P
              * nth (toepRun T0 TC TR Z (k + 1)).B (k - j)
          else (nth Z (k + 1) - ∑ j ∈ range (k + 1),
                  hR (rseq T0 TC) (k + 1) j * nth (toepRun T0 TC TR Z k).X j)
                / (toepRun T0 TC TR Z (k + 1)).P) := by
  rw [← beta_eq_sum T0, toepRun_succ]
  rfl

theorem toepRun_X_length (T0 : K) (TC TR Z : List K) (k : ℕ) :
    (toepRun T0 TC TR Z k).X.length = k + 1 := by
  cases k with
  | zero => rfl
  | succ k => rw [toepRun_succ_X, vec_length]

theorem rseq_zero_eq (T0 : K) (TC TR : List K) : rseq T0 TC 0 = rseq T0 TR 0 := rfl

/-- `A` and `B` solve the order-`k` equations of the matrix and of its transpose -/
theorem toepRun_GEq (T0 : K) (TC TR Z : List K) (k : ℕ)
    (hP : ∀ j, j < k → (toepRun T0 TC TR Z j).P ≠ 0) :
    GEq (rseq T0 TC) (rseq T0 TR) k (alphaOf (toepRun T0 TC TR Z k).A) (toepRun T0 TC TR Z k).P ∧
    GEq (rseq T0 TR) (rseq T0 TC) k (alphaOf (toepRun T0 TC TR Z k).B) (toepRun T0 TC TR Z k).P := by
  induction k with
  | zero =>
    constructor <;>
    · intro i hi
      have : i = 0 := by omega
      subst this
      simp [gT, toepRun]
  | succ k ih =>
    obtain ⟨hA, hB⟩ := ih (fun j hj => hP j (by omega))
    have hPk := hP k (by omega)
    constructor
    · rw [toepRun_succ_A, toepRun_succ_P]
      exact toeplitz_step_fun _ _ (rseq_zero_eq T0 TC TR) k _ _ _ hPk hA hB
    · rw [toepRun_succ_B, toepRun_succ_P, mul_comm (toepT1 T0 TC TR Z k)]
      exact toeplitz_step_fun _ _ (rseq_zero_eq T0 TR TC) k _ _ _ hPk hB hA

/-- after `k` stages `X` solves the leading `(k+1)×(k+1)` system -/
theorem toepRun_solves (T0 : K) (TC TR Z : List K) (k : ℕ)
    (hP : ∀ j, j ≤ k → (toepRun T0 TC TR Z j).P ≠ 0) :
    ∀ i, i ≤ k →
      ∑ j ∈ range (k + 1), gT (rseq T0 TC) (rseq T0 TR) i j * nth (toepRun T0 TC TR Z k).X j
        = nth Z i := by
  induction k with
  | zero =>
    intro i hi
    have : i = 0 := by omega
    subst this
    have h : T0 ≠ 0 := hP 0 (Nat.le_refl 0)
    simp only [zero_add, Finset.sum_range_one, gT, le_refl, if_true, Nat.sub_self, rseq_zero]
    show T0 * nth [nth Z 0 / T0] 0 = nth Z 0
    simp only [nth, List.getD_cons_zero]
    field_simp
  | succ k ih =>
    have ih' := ih (fun j hj => hP j (by omega))
    have hB := (toepRun_GEq T0 TC TR Z (k + 1) (fun j hj => hP j (by omega))).2
    have hw := GEq_rev _ _ (rseq_zero_eq T0 TC TR) (k + 1) _ _ hB
    apply solve_step_fun (gT (rseq T0 TC) (rseq T0 TR)) k (nth (toepRun T0 TC TR Z k).X) (nth Z)
      (fun j => alphaOf (toepRun T0 TC TR Z (k + 1)).B (k + 1 - j)) _
      (hP (k + 1) (Nat.le_refl _)) ih' hw
    intro j hj
    have hsum : ∑ j ∈ range (k + 1),
          gT (rseq T0 TC) (rseq T0 TR) (k + 1) j * nth (toepRun T0 TC TR Z k).X j
        = ∑ j ∈ range (k + 1), hR (rseq T0 TC) (k + 1) j * nth (toepRun T0 TC TR Z k).X j := by
      apply Finset.sum_congr rfl
      intro j hj
      rw [gT_low _ _ (k + 1) j (by have := mem_range.mp hj; omega)]
    rw [hsum, toepRun_succ_X, nth_vec, if_pos (by omega)]
    by_cases hjk : j ≤ k
    · have : k + 1 - j = (k - j) + 1 := by omega
      rw [if_pos hjk, if_pos hjk]
      simp only [this, alphaOf_succ]
    · have : j = k + 1 := by omega
      subst this
      rw [if_neg hjk, if_neg hjk]
      simp only [Nat.sub_self, alphaOf_zero, mul_one, zero_add]

end SpecVerif
