import SpecVerif.Model.ObjectF
import SpecVerif.Proofs.Lemmas.Object
/-
  Helper lemmas for the failing-estimator extension of the object state machine (`Model/ObjectF.lean`).
-/
namespace SpecVerif.ObjL
open SpecVerif

/-- reachable-state invariant with a fallible estimator: the old invariant, and every stored PSD was computed from a
snapshot for which the estimator succeeds -/
def ObjInvF (ok : Attrs → Bool) (s : ObjState) : Prop :=
  ObjInv s ∧ ∀ snap sd, s.cache = some (snap, sd) → ok snap = true

theorem initF_inv (ok : Attrs → Bool) (a : Attrs) (par : Bool) : ObjInvF ok (objInit a par) :=
  ⟨init_inv a par, by simp [objInit]⟩

theorem recompute_cacheOk (ok : Attrs → Bool) (s : ObjState) (h : ok s.a = true) :
    ∀ snap sd, (recompute s).cache = some (snap, sd) → ok snap = true := by
  intro snap sd hc
  simp only [recompute, Option.some.injEq, Prod.mk.injEq] at hc
  rw [← hc.1]; exact h

theorem applyNfft_cache (s : ObjState) (n : Nat) : (applyNfft s n).cache = s.cache := by
  simp only [applyNfft]; split <;> rfl

/-- `sides = …` never invents a snapshot: the stored snapshot afterwards is the old one or the current attributes (and the
latter only when a recomputation happened, i.e. when the object was `modified` and a PSD was stored) -/
theorem setSides_cache_cases (s : ObjState) (arg : SideArg) (snap : Attrs) (sd : Side)
    (hc : (objStep s (.setSides arg)).1.cache = some (snap, sd)) :
    (∃ sd', s.cache = some (snap, sd')) ∨ (snap = s.a ∧ s.modified = true ∧ s.cache.isSome = true) := by
  rw [objStep_setSides] at hc
  rcases s with ⟨a, sides, cache, modified, rn, rs, par⟩
  generalize argSide arg a.cplx = tgt at hc
  rcases cache with _ | ⟨snap0, sd0⟩
  · simp at hc
  · cases modified
    · simp only [Bool.false_eq_true, if_false] at hc
      split at hc <;> simp_all
    · simp only [recompute, if_true] at hc
      split at hc <;> simp_all

theorem stepF_inv (ok : Attrs → Bool) (s : ObjState) (op : ObjOp) (h : ObjInvF ok s) :
    ObjInvF ok (objStepF ok s op).1 := by
  obtain ⟨hi, hc⟩ := h
  cases op with
  | call =>
    simp only [objStepF, recomputeF]
    split
    · exact ⟨recompute_inv s hi, recompute_cacheOk ok s (by assumption)⟩
    · exact ⟨hi, hc⟩
  | read =>
    simp only [objStepF, recomputeF]
    split
    · split
      · exact ⟨recompute_inv s hi, recompute_cacheOk ok s (by assumption)⟩
      · exact ⟨hi, hc⟩
    · exact ⟨hi, hc⟩
  | setSides arg =>
    have key : ∀ (hm : s.modified = true → s.cache.isSome = true → ok s.a = true),
        ObjInvF ok (objStep s (.setSides arg)).1 := by
      intro hm
      refine ⟨step_inv s _ hi, ?_⟩
      intro snap sd hcs
      rcases setSides_cache_cases s arg snap sd hcs with ⟨sd', h1⟩ | ⟨h1, h2, h3⟩
      · exact hc snap sd' h1
      · rw [h1]; exact hm h2 h3
    simp only [objStepF]
    split
    · rename_i hnone
      exact key (fun _ h3 => by simp [hnone] at h3)
    · split
      · exact ⟨hi, hc⟩
      · rename_i hcond
        apply key
        intro h2 _
        simp only [h2, Bool.true_and, Bool.not_eq_true', Bool.not_eq_false] at hcond
        simpa using hcond
  | setData id c n => exact ⟨step_inv s _ hi, fun snap sd h => hc snap sd (by simpa [objStepF, objStep] using h)⟩
  | setNfft n =>
    exact ⟨step_inv s _ hi, fun snap sd h => hc snap sd (by simpa [objStepF, objStep, applyNfft_cache] using h)⟩
  | setNfftNone =>
    exact ⟨step_inv s _ hi, fun snap sd h => hc snap sd (by simpa [objStepF, objStep, applyNfft_cache] using h)⟩
  | setNfftPow2 =>
    exact ⟨step_inv s _ hi, fun snap sd h => hc snap sd (by simpa [objStepF, objStep, applyNfft_cache] using h)⟩
  | setSamp x =>
    refine ⟨step_inv s _ hi, fun snap sd h => hc snap sd ?_⟩
    simp only [objStepF, objStep] at h; split at h <;> simpa using h
  | setDetrend x =>
    refine ⟨step_inv s _ hi, fun snap sd h => hc snap sd ?_⟩
    simp only [objStepF, objStep] at h; split at h <;> simpa using h
  | setScale x =>
    refine ⟨step_inv s _ hi, fun snap sd h => hc snap sd ?_⟩
    simp only [objStepF, objStep] at h; split at h <;> simpa using h
  | setWindow x =>
    refine ⟨step_inv s _ hi, fun snap sd h => hc snap sd ?_⟩
    simp only [objStepF, objStep] at h; split at h <;> simpa using h
  | setLag x =>
    refine ⟨step_inv s _ hi, fun snap sd h => hc snap sd ?_⟩
    simp only [objStepF, objStep] at h; split at h <;> simpa using h
  | setArOrder x => exact ⟨step_inv s _ hi, fun snap sd h => hc snap sd (by simpa [objStepF, objStep] using h)⟩
  | setMaOrder x => exact ⟨step_inv s _ hi, fun snap sd h => hc snap sd (by simpa [objStepF, objStep] using h)⟩

theorem runF_inv (ok : Attrs → Bool) (s : ObjState) (ops : List ObjOp) (h : ObjInvF ok s) :
    ObjInvF ok (objRunF ok s ops) := by
  induction ops generalizing s with
  | nil => exact h
  | cons o os ih => exact ih _ (stepF_inv ok s o h)

theorem objRunF_append (ok : Attrs → Bool) (s : ObjState) (l₁ l₂ : List ObjOp) :
    objRunF ok s (l₁ ++ l₂) = objRunF ok (objRunF ok s l₁) l₂ := by
  simp [objRunF, List.foldl_append]

end SpecVerif.ObjL
