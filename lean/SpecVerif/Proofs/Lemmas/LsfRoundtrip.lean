import SpecVerif.Proofs.Lemmas.LsfInterlace
import Mathlib.Data.List.Perm.Basic
import Mathlib.Data.List.Nodup
/-
  From the alternation of the sorted line spectral frequencies to the round trip `lsf2poly ∘ poly2lsf`:
  * `polyFromRoots_perm`: `numpy.poly` does not depend on the order of the roots;
  * `evens`, `odds`: the slices `z[0::2]`, `z[1::2]` of `lsf2poly`, with their index characterisation;
  * `slices_perm_roots`: if the entries of a strictly increasing list of angles in `(0, π)` are, at even
    positions, angles of roots of `rQ` and, at odd positions, of `rP` (`lsf_sorted_alternate`), and the list
    contains every positive angle of `rP ++ rQ`, then `e^{i·evens} ++ conj` is a rearrangement of `rQ` and
    `e^{i·odds} ++ conj` one of `rP`.
-/
namespace SpecVerif.LsfRoundtripL
open Finset SpecVerif SpecVerif.LpcL SpecVerif.LsfCircleL SpecVerif.LsfInterlaceL

/-! ### `numpy.poly` is invariant under rearrangement of the roots -/

section PolyPerm
variable {K : Type} [Field K]

/-- two lists of the same length with the same total indexing are equal -/
theorem list_ext_nth' {a b : List K} (hl : a.length = b.length)
    (h : ∀ i, i < a.length → nth a i = nth b i) : a = b := by
  rw [eq_vec_nth a, eq_vec_nth b, ← hl]
  exact vec_ext h

theorem polyMul_linear_comm (acc : List K) (x y : K) :
    polyMul (polyMul acc [1, x]) [1, y] = polyMul (polyMul acc [1, y]) [1, x] := by
  by_cases h : acc = []
  · subst h; simp [polyMul_nil_left]
  · have hx : polyMul acc ([1, x] : List K) ≠ [] := polyMul_ne_nil acc _ h (by simp)
    have hy : polyMul acc ([1, y] : List K) ≠ [] := polyMul_ne_nil acc _ h (by simp)
    have hl : ∀ u v : K, (polyMul (polyMul acc [1, u]) ([1, v] : List K)).length = acc.length + 2 := by
      intro u v
      have hu : polyMul acc ([1, u] : List K) ≠ [] := polyMul_ne_nil acc _ h (by simp)
      have hpos := List.length_pos_iff.mpr h
      rw [polyMul_length _ _ hu (by simp), polyMul_length acc _ h (by simp)]
      simp only [List.length_cons, List.length_nil]
      omega
    apply list_ext_nth' (by rw [hl, hl])
    intro k _
    rw [nth_polyMul_linear _ hx, nth_polyMul_linear _ hy, nth_polyMul_linear _ h,
      nth_polyMul_linear _ h, nth_polyMul_linear _ h, nth_polyMul_linear _ h]
    rcases k with _ | _ | k
    · simp
    · simp; ring
    · simp; ring

theorem polyFromRoots_perm (rs rs' : List K) (h : rs.Perm rs') :
    polyFromRoots rs = polyFromRoots rs' := by
  unfold polyFromRoots
  exact h.foldl_eq' (fun x _ y _ z => polyMul_linear_comm z (-x) (-y)) _

end PolyPerm

/-! ### the slices `z[0::2]` and `z[1::2]` -/

section Slices
variable {α : Type}

/-- `l[0::2]` -/
def evens : List α → List α
  | [] => []
  | [x] => [x]
  | x :: _ :: t => x :: evens t

/-- `l[1::2]` -/
def odds : List α → List α
  | [] => []
  | [_] => []
  | _ :: y :: t => y :: odds t

theorem evens_sublist : ∀ l : List α, (evens l).Sublist l
  | [] => List.Sublist.slnil
  | [_] => List.Sublist.refl _
  | x :: y :: t => ((evens_sublist t).cons y).cons_cons x

theorem odds_sublist : ∀ l : List α, (odds l).Sublist l
  | [] => List.Sublist.slnil
  | [x] => List.Sublist.cons x List.Sublist.slnil
  | x :: y :: t => ((odds_sublist t).cons_cons y).cons x

theorem mem_evens : ∀ (l : List α) (x : α),
    x ∈ evens l ↔ ∃ (i : ℕ) (h : i < l.length), i % 2 = 0 ∧ l[i] = x
  | [], x => by simp [evens]
  | [a], x => by
    simp only [evens, List.mem_singleton, List.length_singleton]
    constructor
    · intro h; exact ⟨0, by omega, rfl, by simp [h]⟩
    · rintro ⟨i, hi, _, hx⟩
      have : i = 0 := by omega
      subst this
      simpa using hx.symm
  | a :: b :: t, x => by
    rw [evens, List.mem_cons, mem_evens t x]
    constructor
    · rintro (h | ⟨i, hi, hpar, hx⟩)
      · exact ⟨0, by simp, rfl, by simp [h]⟩
      · exact ⟨i + 2, by simp; omega, by omega, by simpa using hx⟩
    · rintro ⟨i, hi, hpar, hx⟩
      rcases i with _ | _ | i
      · left; simpa using hx.symm
      · omega
      · right
        exact ⟨i, by simp at hi; omega, by omega, by simpa using hx⟩

theorem mem_odds : ∀ (l : List α) (x : α),
    x ∈ odds l ↔ ∃ (i : ℕ) (h : i < l.length), i % 2 = 1 ∧ l[i] = x
  | [], x => by simp [odds]
  | [a], x => by
    simp only [odds, List.not_mem_nil, List.length_singleton, false_iff]
    rintro ⟨i, hi, hpar, _⟩
    omega
  | a :: b :: t, x => by
    rw [odds, List.mem_cons, mem_odds t x]
    constructor
    · rintro (h | ⟨i, hi, hpar, hx⟩)
      · exact ⟨1, by simp, rfl, by simp [h]⟩
      · exact ⟨i + 2, by simp; omega, by omega, by simpa using hx⟩
    · rintro ⟨i, hi, hpar, hx⟩
      rcases i with _ | _ | i
      · omega
      · left; simpa using hx.symm
      · right
        exact ⟨i, by simp at hi; omega, by omega, by simpa using hx⟩

end Slices

/-! ### the slices of the sorted frequencies reproduce the two root lists -/

theorem star_eit (t : ℝ) : star (eit t) = eit (-t) := by
  rw [eit, eit, RCLike.star_def, ← Complex.exp_conj]
  simp

/-- one half of `slices_perm_roots`: a list `A` of angles in `(0, π)` without repetition that consists
exactly of the positive angles of a root list `R` (unimodular, duplicate-free, closed under conjugation,
no root `±1`): `e^{iA} ++ conj(e^{iA})` is a rearrangement of `R` -/
theorem angles_perm_roots (R : List ℂ) (A : List ℝ) (hnd : R.Nodup)
    (hunit : ∀ r ∈ R, ‖r‖ = 1 ∧ r ≠ 1 ∧ r ≠ -1) (hconj : ∀ r ∈ R, star r ∈ R)
    (hA : A.Nodup) (hrange : ∀ θ ∈ A, 0 < θ ∧ θ < Real.pi)
    (hsub : ∀ θ ∈ A, θ ∈ R.map Complex.arg)
    (hsup : ∀ r ∈ R, 0 < r.arg → r.arg ∈ A) :
    (A.map eit ++ (A.map eit).map star).Perm R := by
  have hpi := Real.pi_pos
  have hinj : ∀ a b : ℝ, -Real.pi < a → a ≤ Real.pi → -Real.pi < b → b ≤ Real.pi →
      eit a = eit b → a = b := by
    intro a b ha1 ha2 hb1 hb2 h
    rw [← arg_eit a ha1 ha2, ← arg_eit b hb1 hb2, h]
  have hnd1 : (A.map eit).Nodup := by
    refine List.Nodup.map_on ?_ hA
    intro x hx y hy hxy
    exact hinj x y (by linarith [(hrange x hx).1]) (hrange x hx).2.le
      (by linarith [(hrange y hy).1]) (hrange y hy).2.le hxy
  have hnd2 : ((A.map eit).map star).Nodup := hnd1.map star_injective
  rw [List.perm_ext_iff_of_nodup ?_ hnd]
  · intro x
    rw [List.mem_append]
    constructor
    · rintro (h | h)
      · obtain ⟨θ, hθ, rfl⟩ := List.mem_map.mp h
        obtain ⟨r, hr, hrθ⟩ := List.mem_map.mp (hsub θ hθ)
        rw [← hrθ, eit_arg r (hunit r hr).1]
        exact hr
      · obtain ⟨y, hy, rfl⟩ := List.mem_map.mp h
        obtain ⟨θ, hθ, rfl⟩ := List.mem_map.mp hy
        obtain ⟨r, hr, hrθ⟩ := List.mem_map.mp (hsub θ hθ)
        rw [← hrθ, eit_arg r (hunit r hr).1]
        exact hconj r hr
    · intro hx
      obtain ⟨h1, h2, h3⟩ := hunit x hx
      obtain ⟨_, _, _, hne0, hstar⟩ := unit_arg x h1 h2 h3
      rcases lt_or_gt_of_ne hne0 with hneg | hpos
      · right
        have hs := hconj x hx
        have hspos : 0 < (star x).arg := by rw [hstar]; linarith
        have hmem := hsup (star x) hs hspos
        have hn : ‖star x‖ = 1 := by rw [norm_star]; exact h1
        refine List.mem_map.mpr ⟨star x, List.mem_map.mpr ⟨(star x).arg, hmem, eit_arg _ hn⟩, ?_⟩
        exact star_star x
      · left
        exact List.mem_map.mpr ⟨x.arg, hsup x hx hpos, eit_arg x h1⟩
  · rw [List.nodup_append]
    refine ⟨hnd1, hnd2, ?_⟩
    intro a ha b hb hab
    obtain ⟨θ, hθ, rfl⟩ := List.mem_map.mp ha
    obtain ⟨y, hy, rfl⟩ := List.mem_map.mp hb
    obtain ⟨η, hη, rfl⟩ := List.mem_map.mp hy
    rw [star_eit] at hab
    have := hinj θ (-η) (by linarith [(hrange θ hθ).1]) (hrange θ hθ).2.le
      (by linarith [(hrange η hη).2]) (by linarith [(hrange η hη).1]) hab
    linarith [(hrange θ hθ).1, (hrange η hη).1]

/-- **the slices `z[0::2]`, `z[1::2]` of the sorted frequencies reproduce the root lists**: `lsf` strictly
increasing in `(0, π)`, consisting exactly of the positive angles of `rP ++ rQ` (unimodular, no `±1`,
duplicate-free with distinct angles, each list closed under conjugation), even positions angles of `rQ`,
odd positions angles of `rP` -/
theorem slices_perm_roots (rP rQ : List ℂ) (lsf : List ℝ)
    (hnd : (rP ++ rQ).Nodup) (hndarg : ((rP ++ rQ).map Complex.arg).Nodup)
    (hunit : ∀ r ∈ rP ++ rQ, ‖r‖ = 1 ∧ r ≠ 1 ∧ r ≠ -1)
    (hcP : ∀ r ∈ rP, star r ∈ rP) (hcQ : ∀ r ∈ rQ, star r ∈ rQ)
    (hstrict : lsf.Pairwise (· < ·)) (hrange : ∀ θ ∈ lsf, 0 < θ ∧ θ < Real.pi)
    (hsup : ∀ r ∈ rP ++ rQ, 0 < r.arg → r.arg ∈ lsf)
    (halt : ∀ (i : ℕ) (hi : i < lsf.length),
      (i % 2 = 0 → lsf[i] ∈ rQ.map Complex.arg) ∧ (i % 2 = 1 → lsf[i] ∈ rP.map Complex.arg)) :
    ((evens lsf).map eit ++ ((evens lsf).map eit).map star).Perm rQ
    ∧ ((odds lsf).map eit ++ ((odds lsf).map eit).map star).Perm rP := by
  have hlsfnd : lsf.Nodup := hstrict.imp (fun h => ne_of_lt h)
  obtain ⟨hndP, hndQ, _⟩ := List.nodup_append.mp hnd
  rw [List.map_append, List.nodup_append] at hndarg
  obtain ⟨_, _, hdisj⟩ := hndarg
  constructor
  · refine angles_perm_roots rQ (evens lsf) hndQ
      (fun r hr => hunit r (List.mem_append.mpr (Or.inr hr))) hcQ
      ((evens_sublist lsf).nodup hlsfnd)
      (fun θ hθ => hrange θ ((evens_sublist lsf).subset hθ)) ?_ ?_
    · intro θ hθ
      obtain ⟨i, hi, hpar, rfl⟩ := (mem_evens lsf θ).mp hθ
      exact (halt i hi).1 hpar
    · intro r hr hpos
      have hm := hsup r (List.mem_append.mpr (Or.inr hr)) hpos
      obtain ⟨i, hi, hir⟩ := List.getElem_of_mem hm
      rw [mem_evens]
      refine ⟨i, hi, ?_, hir⟩
      by_contra hpar
      have hP := (halt i hi).2 (by omega)
      rw [hir] at hP
      exact hdisj _ hP _ (List.mem_map.mpr ⟨r, hr, rfl⟩) rfl
  · refine angles_perm_roots rP (odds lsf) hndP
      (fun r hr => hunit r (List.mem_append.mpr (Or.inl hr))) hcP
      ((odds_sublist lsf).nodup hlsfnd)
      (fun θ hθ => hrange θ ((odds_sublist lsf).subset hθ)) ?_ ?_
    · intro θ hθ
      obtain ⟨i, hi, hpar, rfl⟩ := (mem_odds lsf θ).mp hθ
      exact (halt i hi).2 hpar
    · intro r hr hpos
      have hm := hsup r (List.mem_append.mpr (Or.inl hr)) hpos
      obtain ⟨i, hi, hir⟩ := List.getElem_of_mem hm
      rw [mem_odds]
      refine ⟨i, hi, ?_, hir⟩
      by_contra hpar
      have hQ := (halt i hi).1 (by omega)
      rw [hir] at hQ
      exact hdisj _ (List.mem_map.mpr ⟨r, hr, rfl⟩) _ hQ rfl

end SpecVerif.LsfRoundtripL
