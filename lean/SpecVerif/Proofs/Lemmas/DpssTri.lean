import SpecVerif.Proofs.Lemmas.Dpss
import SpecVerif.Model.DpssTri
import Mathlib.Tactic.LinearCombination
import Mathlib.Tactic.Ring
/-
  Helper lemmas for C18, second part: the symmetric tridiagonal matrix `T` that `multitap` (src/cpp/mydpss.c) hands to
  EISPACK (`Model/DpssTri.lean`) and the sinc concentration kernel `K` (`sincKernel`, `Proofs/Lemmas/Dpss.lean`).

    * `T K = K T` entry by entry (Slepian 1978): per entry the elementary identity
      `sin(θ(k-1)) + sin(θ(k+1)) = 2 cos θ · sin(θk)`, `θ = 2πW`;
    * `T` is unreduced (all `offdiag[i]`, `1 ≤ i ≤ N-1`, are non-zero), so an eigenvector with `v 0 = 0` vanishes
      (three-term recurrence) and every eigenspace of `T` is one-dimensional;
    * hence every eigenvector of `T` is an eigenvector of `K`.

  Vectors are functions `ℕ → ℝ` of which only the values on `[0,N)` are read (this composes with `fun n => raw.getD n 0`
  used by the theorems of `Proofs/C18.lean`).  Everything at `R := ℝ` (instance `instRealFnReal`).
-/
namespace SpecVerif.DpssTriL
open Finset SpecVerif SpecVerif.DpssL

/-! ### the C formulas at `ℝ` -/

theorem dpssDiag_real (N : ℕ) (W : ℝ) (i : ℕ) :
    dpssDiag N W i = -Real.cos (2 * Real.pi * W) * (((N : ℝ) - 1) / 2 - (i : ℝ)) ^ 2 := by
  simp only [dpssDiag, RealFn.cos, RealFn.pi]
  push_cast
  ring

theorem dpssOff_real (N i : ℕ) : (dpssOff N i : ℝ) = -((i : ℝ) * ((N : ℝ) - (i : ℝ))) / 2 := by
  simp only [dpssOff]
  push_cast
  ring

theorem dpssOff_zero (N : ℕ) : (dpssOff N 0 : ℝ) = 0 := by
  rw [dpssOff_real]; simp

theorem dpssOff_self (N : ℕ) : (dpssOff N N : ℝ) = 0 := by
  rw [dpssOff_real]; simp

/-- the matrix is unreduced: every coupling `offdiag[i]`, `1 ≤ i ≤ N-1`, is non-zero (it is `-i(N-i)/2 < 0`) -/
theorem dpssOff_neg {N i : ℕ} (h1 : 1 ≤ i) (h2 : i < N) : (dpssOff N i : ℝ) < 0 := by
  rw [dpssOff_real]
  have hi : (0 : ℝ) < (i : ℝ) := by exact_mod_cast h1
  have hNi : (0 : ℝ) < (N : ℝ) - (i : ℝ) := sub_pos.mpr (by exact_mod_cast h2)
  have := mul_pos hi hNi
  linarith

theorem dpssOff_ne_zero {N i : ℕ} (h1 : 1 ≤ i) (h2 : i < N) : (dpssOff N i : ℝ) ≠ 0 :=
  (dpssOff_neg h1 h2).ne

/-! ### the matrix entries and the three-term row -/

/-- the matrix is symmetric -/
theorem dpssTriEntry_symm (N : ℕ) (W : ℝ) (i j : ℕ) : dpssTriEntry N W i j = dpssTriEntry N W j i := by
  by_cases h1 : i = j
  · subst h1; rfl
  by_cases h2 : i + 1 = j
  · subst h2; simp [dpssTriEntry, show ¬ i + 1 + 1 = i by omega]
  by_cases h3 : j + 1 = i
  · subst h3; simp [dpssTriEntry, show ¬ j + 1 + 1 = j by omega]
  have h1' : ¬ j = i := fun h => h1 h.symm
  simp [dpssTriEntry, h1, h2, h3, h1']

/-- row `i` of `T v` in three-term form; the term `offdiag[0]·v(0-1)` of row `0` and the term `offdiag[N]·v(N)` of
row `N-1` vanish because `offdiag[0] = offdiag[N] = 0` -/
noncomputable def triRow (N : ℕ) (W : ℝ) (v : ℕ → ℝ) (i : ℕ) : ℝ :=
  dpssOff N i * v (i - 1) + dpssDiag N W i * v i + dpssOff N (i + 1) * v (i + 1)

theorem sum_entry_eq_triRow {N : ℕ} (W : ℝ) (v : ℕ → ℝ) {i : ℕ} (hi : i < N) :
    ∑ j ∈ range N, dpssTriEntry N W i j * v j = triRow N W v i := by
  have hf : ∀ j, dpssTriEntry N W i j * v j
      = (if j = i then dpssDiag N W i * v i else 0)
        + (if j = i + 1 then dpssOff N (i + 1) * v (i + 1) else 0)
        + (if j + 1 = i then dpssOff N i * v (i - 1) else 0) := by
    intro j
    by_cases h1 : i = j
    · subst h1; simp [dpssTriEntry]
    by_cases h2 : i + 1 = j
    · subst h2; simp [dpssTriEntry, show ¬ i + 1 + 1 = i by omega]
    by_cases h3 : j + 1 = i
    · subst h3; simp [dpssTriEntry, show ¬ j + 1 + 1 = j by omega, show ¬ j = j + 1 + 1 by omega]
    have h1' : ¬ j = i := fun h => h1 h.symm
    have h2' : ¬ j = i + 1 := fun h => h2 h.symm
    simp [dpssTriEntry, h1, h2, h3, h1', h2']
  simp only [hf, Finset.sum_add_distrib, Finset.sum_ite_eq', Finset.mem_range, if_pos hi]
  unfold triRow
  have hB : (if i + 1 < N then dpssOff N (i + 1) * v (i + 1) else 0) = dpssOff N (i + 1) * v (i + 1) := by
    by_cases h : i + 1 < N
    · rw [if_pos h]
    · have hN : i + 1 = N := by omega
      rw [if_neg h, hN, dpssOff_self, zero_mul]
  have hC : ∑ j ∈ range N, (if j + 1 = i then dpssOff N i * v (i - 1) else 0) = dpssOff N i * v (i - 1) := by
    cases i with
    | zero => simp [dpssOff_zero]
    | succ k =>
      have hk : k < N := by omega
      simp only [Nat.add_right_cancel_iff, Finset.sum_ite_eq', Finset.mem_range, if_pos hk]
  rw [hB, hC]
  ring

/-- the model's matrix–vector product, row by row -/
theorem getD_dpssTriMul {N : ℕ} (W : ℝ) (l : List ℝ) {i : ℕ} (hi : i < N) :
    (dpssTriMul N W l).getD i 0 = ∑ j ∈ range N, dpssTriEntry N W i j * l.getD j 0 := by
  rw [sum_entry_eq_triRow W (fun j => l.getD j 0) hi]
  have h := nth_vec N (fun i =>
    (if i = 0 then 0 else dpssOff N i * nth l (i - 1)) + dpssDiag N W i * nth l i
      + (if i + 1 < N then dpssOff N (i + 1) * nth l (i + 1) else 0)) i
  rw [if_pos hi] at h
  change nth (dpssTriMul N W l) i = _
  unfold dpssTriMul
  rw [h]
  unfold triRow nth
  have hA : (if i = 0 then (0 : ℝ) else dpssOff N i * l.getD (i - 1) 0) = dpssOff N i * l.getD (i - 1) 0 := by
    by_cases h0 : i = 0
    · subst h0; rw [if_pos rfl, dpssOff_zero, zero_mul]
    · rw [if_neg h0]
  have hB : (if i + 1 < N then dpssOff N (i + 1) * l.getD (i + 1) 0 else 0) = dpssOff N (i + 1) * l.getD (i + 1) 0 := by
    by_cases h : i + 1 < N
    · rw [if_pos h]
    · have hN : i + 1 = N := by omega
      rw [if_neg h, hN, dpssOff_self, zero_mul]
  rw [hA, hB]

/-! ### the kernel as a function of the real lag -/

/-- `ρ(x) = sin(2πWx)/(πx)`, `2W` at `x = 0` -/
noncomputable def rho (W x : ℝ) : ℝ :=
  if x = 0 then 2 * W else Real.sin (2 * Real.pi * W * x) / (Real.pi * x)

theorem sincKernel_eq_rho (W : ℝ) (n m : ℕ) : sincKernel W n m = rho W ((n : ℝ) - (m : ℝ)) := by
  unfold sincKernel rho
  by_cases h : n = m
  · subst h; simp
  · have hne : (n : ℝ) - (m : ℝ) ≠ 0 := sub_ne_zero.mpr (by exact_mod_cast h)
    rw [if_neg h, if_neg hne]

/-- `x·ρ(x) = sin(2πWx)/π` for every real `x` (also at `x = 0`) -/
theorem mul_rho (W x : ℝ) : x * rho W x = Real.sin (2 * Real.pi * W * x) / Real.pi := by
  unfold rho
  by_cases h : x = 0
  · subst h; simp
  · rw [if_neg h]
    have hpi : Real.pi ≠ 0 := Real.pi_ne_zero
    field_simp

/-- the trigonometric identity behind the commutation -/
theorem sin_pred_add_sin_succ (θ x : ℝ) :
    Real.sin (θ * (x - 1)) + Real.sin (θ * (x + 1)) = 2 * Real.cos θ * Real.sin (θ * x) := by
  rw [show θ * (x - 1) = θ * x - θ by ring, show θ * (x + 1) = θ * x + θ by ring, Real.sin_sub, Real.sin_add]
  ring

/-! ### `T K = K T` -/

/-- commutation in three-term form: `(T K)[m,n] = (K T)[m,n]`; holds for all `m`, `n` -/
theorem triRow_comm (N : ℕ) (W : ℝ) (m n : ℕ) :
    triRow N W (fun j => sincKernel W j n) m = triRow N W (fun j => sincKernel W m j) n := by
  unfold triRow
  have h1 : dpssOff N m * sincKernel W (m - 1) n = dpssOff N m * rho W ((m : ℝ) - (n : ℝ) - 1) := by
    cases m with
    | zero => rw [dpssOff_zero, zero_mul, zero_mul]
    | succ k =>
      rw [sincKernel_eq_rho]
      congr 2
      simp only [Nat.add_sub_cancel]
      push_cast
      ring
  have h2 : sincKernel W (m + 1) n = rho W ((m : ℝ) - (n : ℝ) + 1) := by
    rw [sincKernel_eq_rho]; congr 1; push_cast; ring
  have h3 : dpssOff N n * sincKernel W m (n - 1) = dpssOff N n * rho W ((m : ℝ) - (n : ℝ) + 1) := by
    cases n with
    | zero => rw [dpssOff_zero, zero_mul, zero_mul]
    | succ k =>
      rw [sincKernel_eq_rho]
      congr 2
      simp only [Nat.add_sub_cancel]
      push_cast
      ring
  have h4 : sincKernel W m (n + 1) = rho W ((m : ℝ) - (n : ℝ) - 1) := by
    rw [sincKernel_eq_rho]; congr 1; push_cast; ring
  have h0 : sincKernel W m n = rho W ((m : ℝ) - (n : ℝ)) := sincKernel_eq_rho W m n
  simp only [h1, h2, h3, h4, h0]
  have e1 := mul_rho W ((m : ℝ) - (n : ℝ) - 1)
  have e0 := mul_rho W ((m : ℝ) - (n : ℝ))
  have e2 := mul_rho W ((m : ℝ) - (n : ℝ) + 1)
  have tr := sin_pred_add_sin_succ (2 * Real.pi * W) ((m : ℝ) - (n : ℝ))
  rw [dpssOff_real, dpssOff_real, dpssOff_real, dpssOff_real, dpssDiag_real, dpssDiag_real]
  push_cast
  generalize rho W ((m : ℝ) - (n : ℝ) - 1) = r1 at *
  generalize rho W ((m : ℝ) - (n : ℝ)) = r0 at *
  generalize rho W ((m : ℝ) - (n : ℝ) + 1) = r2 at *
  generalize Real.sin (2 * Real.pi * W * ((m : ℝ) - (n : ℝ) - 1)) = S1 at *
  generalize Real.sin (2 * Real.pi * W * ((m : ℝ) - (n : ℝ))) = S0 at *
  generalize Real.sin (2 * Real.pi * W * ((m : ℝ) - (n : ℝ) + 1)) = S2 at *
  generalize Real.cos (2 * Real.pi * W) = c at *
  linear_combination (-(((N : ℝ) - 1 - (m : ℝ) - (n : ℝ)) / 2)) * e1
    + (2 * c * (((N : ℝ) - 1 - (m : ℝ) - (n : ℝ)) / 2)) * e0
    + (-(((N : ℝ) - 1 - (m : ℝ) - (n : ℝ)) / 2)) * e2
    + (-((((N : ℝ) - 1 - (m : ℝ) - (n : ℝ)) / 2) / Real.pi)) * tr

/-- **`T K = K T`**, entry `(m,n)` -/
theorem tri_mul_kernel_comm {N : ℕ} (W : ℝ) {m n : ℕ} (hm : m < N) (hn : n < N) :
    ∑ j ∈ range N, dpssTriEntry N W m j * sincKernel W j n
      = ∑ j ∈ range N, sincKernel W m j * dpssTriEntry N W j n := by
  rw [sum_entry_eq_triRow W (fun j => sincKernel W j n) hm, triRow_comm,
    ← sum_entry_eq_triRow W (fun j => sincKernel W m j) hn]
  apply Finset.sum_congr rfl
  intro j _
  rw [dpssTriEntry_symm N W n j, mul_comm]

/-! ### unreduced ⇒ one-dimensional eigenspaces -/

/-- `v` is an eigenvector of `T` for `θ` (only `v 0 … v (N-1)` are read) -/
def IsTriEigvec (N : ℕ) (W θ : ℝ) (v : ℕ → ℝ) : Prop :=
  ∀ i, i < N → ∑ j ∈ range N, dpssTriEntry N W i j * v j = θ * v i

/-- three-term recurrence: an eigenvector whose first component vanishes is zero -/
theorem eigvec_zero_of_first_zero {N : ℕ} {W θ : ℝ} {v : ℕ → ℝ} (hev : IsTriEigvec N W θ v) (h0 : v 0 = 0) :
    ∀ i, i < N → v i = 0 := by
  intro i
  induction i using Nat.strong_induction_on with
  | _ i ih =>
    intro hi
    cases i with
    | zero => exact h0
    | succ k =>
      have hk : k < N := by omega
      have hrow := hev k hk
      rw [sum_entry_eq_triRow W v hk] at hrow
      unfold triRow at hrow
      have vk : v k = 0 := ih k (by omega) hk
      have vk1 : dpssOff N k * v (k - 1) = 0 := by
        cases k with
        | zero => rw [dpssOff_zero, zero_mul]
        | succ k' =>
          have : v k' = 0 := ih k' (by omega) (by omega)
          simp only [Nat.add_sub_cancel]
          rw [this, mul_zero]
      rw [vk1, vk, mul_zero, mul_zero, zero_add, zero_add] at hrow
      exact (mul_eq_zero.mp hrow).resolve_left (dpssOff_ne_zero (by omega) hi)

/-- linear combinations of eigenvectors are eigenvectors -/
theorem eigvec_lincomb {N : ℕ} {W θ : ℝ} {u v : ℕ → ℝ} (hu : IsTriEigvec N W θ u) (hv : IsTriEigvec N W θ v)
    (a b : ℝ) : IsTriEigvec N W θ (fun i => a * u i + b * v i) := by
  intro i hi
  have h : ∑ j ∈ range N, dpssTriEntry N W i j * (a * u j + b * v j)
      = a * ∑ j ∈ range N, dpssTriEntry N W i j * u j + b * ∑ j ∈ range N, dpssTriEntry N W i j * v j := by
    rw [Finset.mul_sum, Finset.mul_sum, ← Finset.sum_add_distrib]
    apply Finset.sum_congr rfl
    intro j _; ring
  rw [h, hu i hi, hv i hi]; ring

/-- two eigenvectors for the same eigenvalue are linearly dependent: `v 0 · u = u 0 · v` on `[0,N)` -/
theorem eigvec_cross {N : ℕ} {W θ : ℝ} {u v : ℕ → ℝ} (hu : IsTriEigvec N W θ u) (hv : IsTriEigvec N W θ v) :
    ∀ i, i < N → v 0 * u i = u 0 * v i := by
  intro i hi
  have hw := eigvec_lincomb hu hv (v 0) (-(u 0))
  have h0 : (fun i => v 0 * u i + -(u 0) * v i) 0 = 0 := by
    show v 0 * u 0 + -(u 0) * v 0 = 0
    ring
  have h : v 0 * u i + -(u 0) * v i = 0 := eigvec_zero_of_first_zero hw h0 i hi
  linarith

/-- a non-zero eigenvector has a non-zero first component -/
theorem eigvec_first_ne_zero {N : ℕ} {W θ : ℝ} {v : ℕ → ℝ} (hv : IsTriEigvec N W θ v)
    (hne : ∃ i, i < N ∧ v i ≠ 0) : v 0 ≠ 0 := by
  intro h0
  obtain ⟨i, hi, hvi⟩ := hne
  exact hvi (eigvec_zero_of_first_zero hv h0 i hi)

/-- every eigenspace of `T` is one-dimensional -/
theorem eigvec_proportional {N : ℕ} {W θ : ℝ} {u v : ℕ → ℝ} (hu : IsTriEigvec N W θ u) (hv : IsTriEigvec N W θ v)
    (hne : ∃ i, i < N ∧ v i ≠ 0) : ∃ c : ℝ, ∀ i, i < N → u i = c * v i := by
  have hv0 := eigvec_first_ne_zero hv hne
  refine ⟨u 0 / v 0, fun i hi => ?_⟩
  have h := eigvec_cross hu hv i hi
  field_simp
  linarith

/-! ### transfer to the kernel -/

/-- `K v` is again an eigenvector of `T` for the same eigenvalue (because `T K = K T`) -/
theorem kernel_apply_eigvec {N : ℕ} {W θ : ℝ} {v : ℕ → ℝ} (hv : IsTriEigvec N W θ v) :
    IsTriEigvec N W θ (fun n => ∑ m ∈ range N, sincKernel W n m * v m) := by
  intro i hi
  calc ∑ j ∈ range N, dpssTriEntry N W i j * ∑ l ∈ range N, sincKernel W j l * v l
      = ∑ j ∈ range N, ∑ l ∈ range N, dpssTriEntry N W i j * sincKernel W j l * v l := by
        apply Finset.sum_congr rfl
        intro j _
        rw [Finset.mul_sum]
        apply Finset.sum_congr rfl
        intro l _; ring
    _ = ∑ l ∈ range N, (∑ j ∈ range N, dpssTriEntry N W i j * sincKernel W j l) * v l := by
        rw [Finset.sum_comm]
        apply Finset.sum_congr rfl
        intro l _
        rw [Finset.sum_mul]
    _ = ∑ l ∈ range N, (∑ j ∈ range N, sincKernel W i j * dpssTriEntry N W j l) * v l := by
        apply Finset.sum_congr rfl
        intro l hl
        rw [tri_mul_kernel_comm W hi (Finset.mem_range.mp hl)]
    _ = ∑ j ∈ range N, sincKernel W i j * ∑ l ∈ range N, dpssTriEntry N W j l * v l := by
        simp only [Finset.sum_mul, Finset.mul_sum]
        rw [Finset.sum_comm]
        apply Finset.sum_congr rfl
        intro j _
        apply Finset.sum_congr rfl
        intro l _; ring
    _ = ∑ j ∈ range N, sincKernel W i j * (θ * v j) := by
        apply Finset.sum_congr rfl
        intro j hj
        rw [hv j (Finset.mem_range.mp hj)]
    _ = θ * ∑ m ∈ range N, sincKernel W i m * v m := by
        rw [Finset.mul_sum]
        apply Finset.sum_congr rfl
        intro j _; ring

/-- **every eigenvector of `T` is an eigenvector of `K`** -/
theorem kernel_eigvec_of_tri_eigvec {N : ℕ} {W θ : ℝ} {v : ℕ → ℝ} (hv : IsTriEigvec N W θ v)
    (hne : ∃ i, i < N ∧ v i ≠ 0) :
    ∃ μ : ℝ, ∀ n, n < N → ∑ m ∈ range N, sincKernel W n m * v m = μ * v n :=
  eigvec_proportional (kernel_apply_eigvec hv) hv hne

/-- a vector of squared norm `N > 0` is not zero -/
theorem exists_ne_zero_of_normsq {N : ℕ} (hN : 0 < N) (v : ℕ → ℝ)
    (hnorm : ∑ n ∈ range N, v n * v n = (N : ℝ)) : ∃ i, i < N ∧ v i ≠ 0 := by
  by_contra hcon
  have hz : ∀ n ∈ range N, v n * v n = 0 := by
    intro n hn
    have : v n = 0 := by
      by_contra h
      exact hcon ⟨n, Finset.mem_range.mp hn, h⟩
    rw [this, mul_zero]
  rw [Finset.sum_eq_zero hz] at hnorm
  have : (0 : ℝ) < (N : ℝ) := by exact_mod_cast hN
  linarith

end SpecVerif.DpssTriL
