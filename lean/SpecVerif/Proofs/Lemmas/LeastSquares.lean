import SpecVerif.Proofs.Lemmas.Basic
import SpecVerif.Proofs.Lemmas.Correlation
import SpecVerif.Model.LinAlg
import SpecVerif.Model.Estimators
import Mathlib.Algebra.BigOperators.Intervals
import Mathlib.Algebra.BigOperators.Ring.Finset
import Mathlib.Algebra.Star.BigOperators
import Mathlib.Algebra.Field.Basic
import Mathlib.Tactic.Ring
import Mathlib.Tactic.LinearCombination
import Mathlib.Tactic.FieldSimp
import Mathlib.Tactic.Linarith
import Mathlib.Analysis.RCLike.Basic
import Mathlib.LinearAlgebra.Vandermonde
import Mathlib.LinearAlgebra.Matrix.Nondegenerate
import Mathlib.Algebra.Polynomial.Roots
import Mathlib.Algebra.Polynomial.BigOperators
import Mathlib.Algebra.Polynomial.Eval.Degree
/-
  Helper lemmas for C14 (covariance / modified covariance least squares,
  `SpecVerif/Model/Estimators.lean`).

  * generic least squares on a data matrix given by functions `X1 : ℕ → K` (first column, rows `< r`)
    and `Xc : ℕ → ℕ → K` (remaining `p` columns): residual `lsRes`, energy `lsEnergy`, the normal
    equations `NormalEq`, the Pythagoras identity, the error formula, optimality over `RCLike`;
  * the rows of `corrmtx … .covariance / .modified` as forward / conjugated backward prediction errors;
  * what `lsFit` returns; the linear system handed to the solver by `lstsq` is the normal equations.
-/
namespace SpecVerif.LSL
open Finset SpecVerif

section Generic
variable {K : Type} [Field K] [StarRing K]

/-- residual of row `i`: `X1 i + Σ_{j<p} Xc i j · a j` -/
def lsRes (X1 : ℕ → K) (Xc : ℕ → ℕ → K) (p : ℕ) (a : ℕ → K) (i : ℕ) : K :=
  X1 i + ∑ j ∈ range p, Xc i j * a j

/-- energy of the residual over the rows `< r` -/
def lsEnergy (X1 : ℕ → K) (Xc : ℕ → ℕ → K) (r p : ℕ) (a : ℕ → K) : K :=
  ∑ i ∈ range r, lsRes X1 Xc p a i * star (lsRes X1 Xc p a i)

/-- the normal equations: the residual is orthogonal to every regressor column -/
def NormalEq (X1 : ℕ → K) (Xc : ℕ → ℕ → K) (r p : ℕ) (a : ℕ → K) : Prop :=
  ∀ b, b < p → ∑ i ∈ range r, star (Xc i b) * lsRes X1 Xc p a i = 0

/-- `Σ_j Xc i j (a' j - a j)`: the change of the fitted value of row `i` -/
def lsDiff (Xc : ℕ → ℕ → K) (p : ℕ) (a a' : ℕ → K) (i : ℕ) : K :=
  ∑ j ∈ range p, Xc i j * (a' j - a j)

omit [StarRing K] in
theorem lsRes_add_diff (X1 : ℕ → K) (Xc : ℕ → ℕ → K) (p : ℕ) (a a' : ℕ → K) (i : ℕ) :
    lsRes X1 Xc p a' i = lsRes X1 Xc p a i + lsDiff Xc p a a' i := by
  unfold lsRes lsDiff
  rw [add_assoc, ← Finset.sum_add_distrib]
  congr 1
  apply Finset.sum_congr rfl
  intro j _
  ring

/-- the normal equations make the residual orthogonal to every combination of the regressors -/
theorem cross_zero {X1 : ℕ → K} {Xc : ℕ → ℕ → K} {r p : ℕ} {a : ℕ → K}
    (h : NormalEq X1 Xc r p a) (d : ℕ → K) :
    ∑ i ∈ range r, star (∑ j ∈ range p, Xc i j * d j) * lsRes X1 Xc p a i = 0 := by
  have h1 : ∀ i ∈ range r, star (∑ j ∈ range p, Xc i j * d j) * lsRes X1 Xc p a i
      = ∑ j ∈ range p, star (d j) * (star (Xc i j) * lsRes X1 Xc p a i) := by
    intro i _
    rw [star_sum, Finset.sum_mul]
    apply Finset.sum_congr rfl
    intro j _
    rw [star_mul']
    ring
  rw [Finset.sum_congr rfl h1, Finset.sum_comm]
  apply Finset.sum_eq_zero
  intro j hj
  rw [← Finset.mul_sum, h j (mem_range.mp hj), mul_zero]

theorem cross_zero' {X1 : ℕ → K} {Xc : ℕ → ℕ → K} {r p : ℕ} {a : ℕ → K}
    (h : NormalEq X1 Xc r p a) (d : ℕ → K) :
    ∑ i ∈ range r, (∑ j ∈ range p, Xc i j * d j) * star (lsRes X1 Xc p a i) = 0 := by
  have := congrArg star (cross_zero h d)
  rw [star_sum, star_zero] at this
  rw [← this]
  apply Finset.sum_congr rfl
  intro i _
  rw [star_mul', star_star]

/-- **Pythagoras**: at a solution `a` of the normal equations,
`E(a') = E(a) + Σ_i |Σ_j Xc i j (a' j - a j)|²` for every `a'`. -/
theorem pythagoras {X1 : ℕ → K} {Xc : ℕ → ℕ → K} {r p : ℕ} {a : ℕ → K}
    (h : NormalEq X1 Xc r p a) (a' : ℕ → K) :
    lsEnergy X1 Xc r p a'
      = lsEnergy X1 Xc r p a + ∑ i ∈ range r, lsDiff Xc p a a' i * star (lsDiff Xc p a a' i) := by
  have c1 := cross_zero h (fun j => a' j - a j)
  have c2 := cross_zero' h (fun j => a' j - a j)
  unfold lsEnergy
  have h1 : ∀ i ∈ range r, lsRes X1 Xc p a' i * star (lsRes X1 Xc p a' i)
      = lsRes X1 Xc p a i * star (lsRes X1 Xc p a i)
        + lsDiff Xc p a a' i * star (lsDiff Xc p a a' i)
        + (star (lsDiff Xc p a a' i) * lsRes X1 Xc p a i
          + lsDiff Xc p a a' i * star (lsRes X1 Xc p a i)) := by
    intro i _
    rw [lsRes_add_diff X1 Xc p a a' i, star_add]
    ring
  rw [Finset.sum_congr rfl h1, Finset.sum_add_distrib, Finset.sum_add_distrib,
    Finset.sum_add_distrib]
  have e1 : ∑ i ∈ range r, star (lsDiff Xc p a a' i) * lsRes X1 Xc p a i = 0 := c1
  have e2 : ∑ i ∈ range r, lsDiff Xc p a a' i * star (lsRes X1 Xc p a i) = 0 := c2
  rw [e1, e2, add_zero, add_zero]

/-- **error formula**: at a solution of the normal equations the energy is
`X1ᴴX1 + (X1ᴴXc) a`. -/
theorem error_formula {X1 : ℕ → K} {Xc : ℕ → ℕ → K} {r p : ℕ} {a : ℕ → K}
    (h : NormalEq X1 Xc r p a) :
    ∑ i ∈ range r, star (X1 i) * X1 i
        + ∑ j ∈ range p, (∑ i ∈ range r, star (X1 i) * Xc i j) * a j
      = lsEnergy X1 Xc r p a := by
  have c1 := cross_zero h a
  unfold lsEnergy
  have h1 : ∀ i ∈ range r, lsRes X1 Xc p a i * star (lsRes X1 Xc p a i)
      = star (X1 i) * lsRes X1 Xc p a i
        + star (∑ j ∈ range p, Xc i j * a j) * lsRes X1 Xc p a i := by
    intro i _
    rw [← add_mul, ← star_add, mul_comm]
    rfl
  rw [Finset.sum_congr rfl h1, Finset.sum_add_distrib, c1, add_zero]
  have h2 : ∀ i ∈ range r, star (X1 i) * lsRes X1 Xc p a i
      = star (X1 i) * X1 i + ∑ j ∈ range p, star (X1 i) * Xc i j * a j := by
    intro i _
    unfold lsRes
    rw [mul_add, Finset.mul_sum]
    congr 1
    apply Finset.sum_congr rfl
    intro j _
    ring
  rw [Finset.sum_congr rfl h2, Finset.sum_add_distrib, Finset.sum_comm]
  congr 1
  apply Finset.sum_congr rfl
  intro j _
  rw [Finset.sum_mul]

/-- a zero residual satisfies the normal equations -/
theorem normalEq_of_res_zero {X1 : ℕ → K} {Xc : ℕ → ℕ → K} {r p : ℕ} {a : ℕ → K}
    (h : ∀ i, i < r → lsRes X1 Xc p a i = 0) : NormalEq X1 Xc r p a := by
  intro b _
  apply Finset.sum_eq_zero
  intro i hi
  rw [h i (mem_range.mp hi), mul_zero]

theorem lsEnergy_of_res_zero {X1 : ℕ → K} {Xc : ℕ → ℕ → K} {r p : ℕ} {a : ℕ → K}
    (h : ∀ i, i < r → lsRes X1 Xc p a i = 0) : lsEnergy X1 Xc r p a = 0 := by
  unfold lsEnergy
  apply Finset.sum_eq_zero
  intro i hi
  rw [h i (mem_range.mp hi), zero_mul]

omit [StarRing K] in
/-- the residual only depends on row `i`, the columns `< p` and `a j`, `j < p` -/
theorem lsRes_congr {X1 X1' : ℕ → K} {Xc Xc' : ℕ → ℕ → K} {p : ℕ} {a a' : ℕ → K} {i : ℕ}
    (h1 : X1 i = X1' i) (hc : ∀ j, j < p → Xc i j = Xc' i j) (ha : ∀ j, j < p → a j = a' j) :
    lsRes X1 Xc p a i = lsRes X1' Xc' p a' i := by
  unfold lsRes
  rw [h1]
  congr 1
  apply Finset.sum_congr rfl
  intro j hj
  rw [hc j (mem_range.mp hj), ha j (mem_range.mp hj)]

end Generic

/-! ### order: optimality over `ℝ`, `ℂ`, any `RCLike` -/
section RC
variable {𝕜 : Type} [RCLike 𝕜]

/-- the energy as a real number: `Σ_i ‖res_i‖²` -/
noncomputable def lsEnergyR (X1 : ℕ → 𝕜) (Xc : ℕ → ℕ → 𝕜) (r p : ℕ) (a : ℕ → 𝕜) : ℝ :=
  ∑ i ∈ range r, ‖lsRes X1 Xc p a i‖ ^ 2

theorem mul_star_eq_ofReal (z : 𝕜) : z * star z = ((‖z‖ ^ 2 : ℝ) : 𝕜) := by
  rw [RCLike.star_def, RCLike.mul_conj, RCLike.ofReal_pow]

theorem lsEnergy_ofReal (X1 : ℕ → 𝕜) (Xc : ℕ → ℕ → 𝕜) (r p : ℕ) (a : ℕ → 𝕜) :
    lsEnergy X1 Xc r p a = ((lsEnergyR X1 Xc r p a : ℝ) : 𝕜) := by
  unfold lsEnergy lsEnergyR
  rw [RCLike.ofReal_sum]
  apply Finset.sum_congr rfl
  intro i _
  rw [mul_star_eq_ofReal]

theorem lsEnergyR_nonneg (X1 : ℕ → 𝕜) (Xc : ℕ → ℕ → 𝕜) (r p : ℕ) (a : ℕ → 𝕜) :
    0 ≤ lsEnergyR X1 Xc r p a :=
  Finset.sum_nonneg (fun _ _ => by positivity)

theorem pythagorasR {X1 : ℕ → 𝕜} {Xc : ℕ → ℕ → 𝕜} {r p : ℕ} {a : ℕ → 𝕜}
    (h : NormalEq X1 Xc r p a) (a' : ℕ → 𝕜) :
    lsEnergyR X1 Xc r p a'
      = lsEnergyR X1 Xc r p a + ∑ i ∈ range r, ‖lsDiff Xc p a a' i‖ ^ 2 := by
  have hp := pythagoras h a'
  rw [lsEnergy_ofReal, lsEnergy_ofReal] at hp
  have : ∑ i ∈ range r, lsDiff Xc p a a' i * star (lsDiff Xc p a a' i)
      = ((∑ i ∈ range r, ‖lsDiff Xc p a a' i‖ ^ 2 : ℝ) : 𝕜) := by
    rw [RCLike.ofReal_sum]
    apply Finset.sum_congr rfl
    intro i _
    rw [mul_star_eq_ofReal]
  rw [this, ← RCLike.ofReal_add, RCLike.ofReal_inj] at hp
  exact hp

theorem res_zero_of_energyR_zero {X1 : ℕ → 𝕜} {Xc : ℕ → ℕ → 𝕜} {r p : ℕ} {a : ℕ → 𝕜}
    (h : lsEnergyR X1 Xc r p a = 0) : ∀ i, i < r → lsRes X1 Xc p a i = 0 := by
  intro i hi
  unfold lsEnergyR at h
  have := (Finset.sum_eq_zero_iff_of_nonneg (fun _ _ => by positivity)).mp h i (mem_range.mpr hi)
  exact norm_eq_zero.mp ((pow_eq_zero_iff two_ne_zero).mp this)

end RC

/-! ### prediction errors, the data-matrix columns, `lsFit` -/
section Model
variable {K : Type} [Field K] [StarRing K]

/-- forward prediction error at time `t`: `x[t] + Σ_{j<p} a_j x[t-1-j]` -/
def fwdErr (x : List K) (p : ℕ) (a : ℕ → K) (t : ℕ) : K :=
  nth x t + ∑ j ∈ range p, a j * nth x (t - 1 - j)

/-- backward prediction error of the window starting at `s`: `x[s] + Σ_{j<p} conj(a_j) x[s+1+j]` -/
def bwdErr (x : List K) (p : ℕ) (a : ℕ → K) (s : ℕ) : K :=
  nth x s + ∑ j ∈ range p, star (a j) * nth x (s + 1 + j)

/-- forward prediction-error energy over `t = p..N-1` -/
def fwdEnergy (x : List K) (p : ℕ) (a : ℕ → K) : K :=
  ∑ t ∈ Ico p x.length, fwdErr x p a t * star (fwdErr x p a t)

/-- backward prediction-error energy over the windows `s = 0..N-p-1` -/
def bwdEnergy (x : List K) (p : ℕ) (a : ℕ → K) : K :=
  ∑ s ∈ range (x.length - p), bwdErr x p a s * star (bwdErr x p a s)

/-- first column of a list-of-rows data matrix -/
def col0 (X : Mat K) (i : ℕ) : K := mentryM X i 0

/-- the regressor columns `1..p` of a list-of-rows data matrix -/
def colR (X : Mat K) (i j : ℕ) : K := mentryM X i (j + 1)

omit [StarRing K] in
theorem mentryM_eq_mentry (X : Mat K) (i j : ℕ) : mentryM X i j = mentry X i j := rfl

/-- the matrix `-X_c` handed to `lstsq` by `lsFit` -/
def negXc (X : Mat K) (rows p : ℕ) : Mat K :=
  vec rows (fun i => vec p (fun j => -(mentryM X i (j + 1))))

/-- the right-hand side `X_1` handed to `lstsq` by `lsFit` -/
def rhsX1 (X : Mat K) (rows : ℕ) : List K := vec rows (fun i => mentryM X i 0)

/-- the quantity `e = X₁ᴴX₁ + X₁ᴴX_c a` computed by `lsFit` -/
def lsErr (X : Mat K) (rows p : ℕ) (a : ℕ → K) : K :=
  ∑ i ∈ range rows, star (col0 X i) * col0 X i
    + ∑ j ∈ range p, (∑ i ∈ range rows, star (col0 X i) * colR X i j) * a j

variable [IsZero K]

/-- what `lsFit` returns: the answer of its `lstsq` call and `e = X₁ᴴX₁ + X₁ᴴX_c a` -/
theorem lsFit_eq_some {X : Mat K} {rows p : ℕ} {a : List K} {e : K}
    (h : lsFit X rows p = some (a, e)) :
    lstsq (negXc X rows p) (rhsX1 X rows) rows p = some a ∧ e = lsErr X rows p (nth a) := by
  unfold lsFit at h
  simp only at h
  change (match lstsq (negXc X rows p) (rhsX1 X rows) rows p with
    | none => none
    | some a => some (a, _)) = some (a, e) at h
  cases hl : lstsq (negXc X rows p) (rhsX1 X rows) rows p with
  | none => rw [hl] at h; cases h
  | some a0 =>
    rw [hl] at h
    simp only [Option.some.injEq, Prod.mk.injEq] at h
    obtain ⟨rfl, he⟩ := h
    refine ⟨rfl, ?_⟩
    rw [← he, sumR_eq_sum, sumR_eq_sum]
    unfold lsErr
    congr 1
    · apply Finset.sum_congr rfl
      intro i hi
      rw [nth_vec, if_pos (mem_range.mp hi)]
      rfl
    · apply Finset.sum_congr rfl
      intro j _
      rw [sumR_eq_sum]
      congr 1
      apply Finset.sum_congr rfl
      intro i hi
      rw [nth_vec, if_pos (mem_range.mp hi)]
      rfl

theorem lsFit_of_lstsq {X : Mat K} {rows p : ℕ} {a : List K}
    (h : lstsq (negXc X rows p) (rhsX1 X rows) rows p = some a) :
    ∃ e, lsFit X rows p = some (a, e) := by
  unfold lsFit
  simp only
  change ∃ e, (match lstsq (negXc X rows p) (rhsX1 X rows) rows p with
    | none => none
    | some a => some (a, _)) = some (a, e)
  rw [h]
  exact ⟨_, rfl⟩

end Model

/-! ### the linear system solved by the model's `lstsq` instance is the normal equations -/
section System
variable {K : Type} [Field K] [StarRing K]

omit [StarRing K] in
theorem mentryM_vec_vec (R C : ℕ) (f : ℕ → ℕ → K) (i j : ℕ) (hi : i < R) (hj : j < C) :
    mentryM (vec R (fun i => vec C (f i))) i j = f i j :=
  mentry_vec_vec R C f i j hi hj

omit [StarRing K] in
theorem mentryM_negXc (X : Mat K) (rows p i l : ℕ) (hi : i < rows) (hl : l < p) :
    mentryM (negXc X rows p) i l = -(colR X i l) := by
  unfold negXc
  rw [mentryM_vec_vec rows p (fun i j => -(mentryM X i (j + 1))) i l hi hl]
  rfl

theorem mentryM_conjT (M : Mat K) (r c k i : ℕ) (hk : k < c) (hi : i < r) :
    mentryM (conjT M r c) k i = star (mentryM M i k) := by
  unfold conjT
  rw [mentryM_vec_vec c r (fun j i => conj (mentryM M i j)) k i hk hi]
  rfl

omit [StarRing K] in
theorem mentryM_matMul (A B : Mat K) (r n c i j : ℕ) (hi : i < r) (hj : j < c) :
    mentryM (matMul A B r n c) i j = ∑ k ∈ range n, mentryM A i k * mentryM B k j := by
  unfold matMul
  rw [mentryM_vec_vec r c (fun i j => sumR n (fun k => mentryM A i k * mentryM B k j)) i j hi hj,
    sumR_eq_sum]

omit [StarRing K] in
theorem nth_matVec (A : Mat K) (v : List K) (r n i : ℕ) (hi : i < r) :
    nth (matVec A v r n) i = ∑ k ∈ range n, mentryM A i k * nth v k := by
  unfold matVec
  rw [nth_vec, if_pos hi, sumR_eq_sum]

/-- the square system `(-X_c)ᴴ(-X_c) a = (-X_c)ᴴ X_1` that the model's `lstsq` hands to the linear
solver (`solveVec`) inside `lsFit X rows p` -/
def GramSystem (X : Mat K) (rows p : ℕ) (a : ℕ → K) : Prop :=
  ∀ k, k < p →
    ∑ l ∈ range p,
        mentryM (matMul (conjT (negXc X rows p) rows p) (negXc X rows p) p rows p) k l * a l
      = nth (matVec (conjT (negXc X rows p) rows p) (rhsX1 X rows) p rows) k

theorem lstsq_unfold [IsZero K] (X : Mat K) (rows p : ℕ) :
    lstsq (negXc X rows p) (rhsX1 X rows) rows p
      = solveVec (matMul (conjT (negXc X rows p) rows p) (negXc X rows p) p rows p)
          (matVec (conjT (negXc X rows p) rows p) (rhsX1 X rows) p rows) p := rfl

theorem normalEq_iff_gramSystem (X : Mat K) (rows p : ℕ) (a : ℕ → K) :
    NormalEq (col0 X) (colR X) rows p a ↔ GramSystem X rows p a := by
  unfold NormalEq GramSystem
  apply forall_congr'
  intro k
  apply imp_congr_right
  intro hk
  have hL : ∑ l ∈ range p,
        mentryM (matMul (conjT (negXc X rows p) rows p) (negXc X rows p) p rows p) k l * a l
      = ∑ i ∈ range rows, star (colR X i k) * ∑ l ∈ range p, colR X i l * a l := by
    have : ∀ l ∈ range p,
        mentryM (matMul (conjT (negXc X rows p) rows p) (negXc X rows p) p rows p) k l * a l
          = ∑ i ∈ range rows, star (colR X i k) * (colR X i l * a l) := by
      intro l hl
      rw [mentryM_matMul _ _ p rows p k l hk (mem_range.mp hl), Finset.sum_mul]
      apply Finset.sum_congr rfl
      intro i hi
      rw [mentryM_conjT _ rows p k i hk (mem_range.mp hi),
        mentryM_negXc X rows p i k (mem_range.mp hi) hk,
        mentryM_negXc X rows p i l (mem_range.mp hi) (mem_range.mp hl), star_neg]
      ring
    rw [Finset.sum_congr rfl this, Finset.sum_comm]
    apply Finset.sum_congr rfl
    intro i _
    rw [Finset.mul_sum]
  have hR : nth (matVec (conjT (negXc X rows p) rows p) (rhsX1 X rows) p rows) k
      = -∑ i ∈ range rows, star (colR X i k) * col0 X i := by
    rw [nth_matVec _ _ p rows k hk, ← Finset.sum_neg_distrib]
    apply Finset.sum_congr rfl
    intro i hi
    unfold rhsX1
    rw [mentryM_conjT _ rows p k i hk (mem_range.mp hi),
      mentryM_negXc X rows p i k (mem_range.mp hi) hk, nth_vec, if_pos (mem_range.mp hi), star_neg]
    unfold col0
    ring
  rw [hL, hR]
  have hN : ∑ i ∈ range rows, star (colR X i k) * lsRes (col0 X) (colR X) p a i
      = ∑ i ∈ range rows, star (colR X i k) * col0 X i
        + ∑ i ∈ range rows, star (colR X i k) * ∑ l ∈ range p, colR X i l * a l := by
    rw [← Finset.sum_add_distrib]
    apply Finset.sum_congr rfl
    intro i _
    unfold lsRes
    ring
  rw [hN]
  constructor
  · intro h
    linear_combination h
  · intro h
    linear_combination h

end System

/-! ### real-valued energies of the prediction errors -/
section RCModel
variable {𝕜 : Type} [RCLike 𝕜]

/-- forward prediction-error energy `Σ_{t=p}^{N-1} |f_t|²` as a real number -/
noncomputable def fwdEnergyR (x : List 𝕜) (p : ℕ) (a : ℕ → 𝕜) : ℝ :=
  ∑ t ∈ Ico p x.length, ‖fwdErr x p a t‖ ^ 2

/-- backward prediction-error energy `Σ_{s=0}^{N-p-1} |b_s|²` as a real number -/
noncomputable def bwdEnergyR (x : List 𝕜) (p : ℕ) (a : ℕ → 𝕜) : ℝ :=
  ∑ s ∈ range (x.length - p), ‖bwdErr x p a s‖ ^ 2

theorem fwdEnergy_ofReal (x : List 𝕜) (p : ℕ) (a : ℕ → 𝕜) :
    fwdEnergy x p a = ((fwdEnergyR x p a : ℝ) : 𝕜) := by
  unfold fwdEnergy fwdEnergyR
  rw [RCLike.ofReal_sum]
  apply Finset.sum_congr rfl
  intro i _
  rw [mul_star_eq_ofReal]

theorem bwdEnergy_ofReal (x : List 𝕜) (p : ℕ) (a : ℕ → 𝕜) :
    bwdEnergy x p a = ((bwdEnergyR x p a : ℝ) : 𝕜) := by
  unfold bwdEnergy bwdEnergyR
  rw [RCLike.ofReal_sum]
  apply Finset.sum_congr rfl
  intro i _
  rw [mul_star_eq_ofReal]

end RCModel

/-! ### noise-free sums of `p` exponentials (Prony / Vandermonde) -/
section Exp
variable {K : Type} [Field K]

/-- `x_n = Σ_{m<p} c_m z_m^n` for every sample `n < N` -/
def IsExpSum (x : List K) (p : ℕ) (z c : Fin p → K) : Prop :=
  ∀ n, n < x.length → nth x n = ∑ m, c m * z m ^ n

/-- the prediction polynomial `w^p + Σ_{j<p} a_j w^{p-1-j}` (`= w^p (1 + Σ_j a_j w^{-(j+1)})`) -/
def charPoly (p : ℕ) (a : ℕ → K) (w : K) : K :=
  w ^ p + ∑ j ∈ range p, a j * w ^ (p - 1 - j)

/-- distinct nodes: vanishing of the first `p` power sums forces all amplitudes to vanish -/
theorem amplitudes_zero_of_power_sums {p : ℕ} (z c : Fin p → K) (hz : Function.Injective z)
    (h : ∀ I : Fin p, ∑ m, c m * z m ^ (I : ℕ) = 0) : c = 0 := by
  have hdet : (Matrix.vandermonde z).det ≠ 0 := Matrix.det_vandermonde_ne_zero_iff.mpr hz
  apply Matrix.eq_zero_of_vecMul_eq_zero hdet
  funext I
  simp only [Matrix.vecMul, dotProduct, Matrix.vandermonde_apply, Pi.zero_apply]
  exact h I

/-- distinct nodes: a polynomial of degree `< p` vanishing at all `p` nodes is zero -/
theorem coeffs_zero_of_eval_zero {p : ℕ} (z : Fin p → K) (d : Fin p → K)
    (hz : Function.Injective z) (h : ∀ m : Fin p, ∑ k : Fin p, z m ^ (k : ℕ) * d k = 0) : d = 0 := by
  have hdet : (Matrix.vandermonde z).det ≠ 0 := Matrix.det_vandermonde_ne_zero_iff.mpr hz
  apply Matrix.eq_zero_of_mulVec_eq_zero hdet
  funext m
  simp only [Matrix.mulVec, dotProduct, Matrix.vandermonde_apply, Pi.zero_apply]
  exact h m

/-- the forward error of a sum of exponentials: `f_t = Σ_m c_m z_m^{t-p} q(z_m)` -/
theorem fwdErr_expSum {x : List K} {p : ℕ} {z c : Fin p → K} (hx : IsExpSum x p z c)
    (a : ℕ → K) (t : ℕ) (hpt : p ≤ t) (ht : t < x.length) :
    fwdErr x p a t = ∑ m, c m * z m ^ (t - p) * charPoly p a (z m) := by
  unfold fwdErr charPoly
  rw [hx t ht]
  have h1 : ∀ j ∈ range p, a j * nth x (t - 1 - j) = ∑ m, a j * (c m * z m ^ (t - 1 - j)) := by
    intro j hj
    have := mem_range.mp hj
    rw [hx (t - 1 - j) (by omega), Finset.mul_sum]
  rw [Finset.sum_congr rfl h1, Finset.sum_comm, ← Finset.sum_add_distrib]
  apply Finset.sum_congr rfl
  intro m _
  have e0 : c m * z m ^ (t - p) * z m ^ p = c m * z m ^ t := by
    rw [mul_assoc, ← pow_add, Nat.sub_add_cancel hpt]
  rw [mul_add, e0, Finset.mul_sum]
  congr 1
  apply Finset.sum_congr rfl
  intro j hj
  have := mem_range.mp hj
  have e : t - 1 - j = (t - p) + (p - 1 - j) := by omega
  rw [e, pow_add]
  ring

/-- if the prediction polynomial vanishes at every mode, all forward errors `t = p..N-1` vanish -/
theorem fwdErr_zero_of_roots {x : List K} {p : ℕ} {z c : Fin p → K} (hx : IsExpSum x p z c)
    (a : ℕ → K) (hq : ∀ m, charPoly p a (z m) = 0) (t : ℕ) (hpt : p ≤ t) (ht : t < x.length) :
    fwdErr x p a t = 0 := by
  rw [fwdErr_expSum hx a t hpt ht]
  apply Finset.sum_eq_zero
  intro m _
  rw [hq m, mul_zero]

/-- **Vandermonde**: with `p` distinct modes, non-zero amplitudes and at least `p` prediction
equations (`2p ≤ N`), zero forward error forces the prediction polynomial to vanish at every mode -/
theorem roots_of_fwdErr_zero {x : List K} {p : ℕ} {z c : Fin p → K} (hx : IsExpSum x p z c)
    (hN : 2 * p ≤ x.length) (hz : Function.Injective z) (hc : ∀ m, c m ≠ 0)
    (a : ℕ → K) (h0 : ∀ t, p ≤ t → t < x.length → fwdErr x p a t = 0) :
    ∀ m, charPoly p a (z m) = 0 := by
  have key := amplitudes_zero_of_power_sums z (fun m => c m * charPoly p a (z m)) hz (by
    intro I
    have hI := I.isLt
    have := h0 (p + I) (by omega) (by omega)
    rw [fwdErr_expSum hx a (p + I) (by omega) (by omega), Nat.add_sub_cancel_left] at this
    rw [← this]
    apply Finset.sum_congr rfl
    intro m _
    ring)
  intro m
  have := congrFun key m
  simp only [Pi.zero_apply] at this
  exact (mul_eq_zero.mp this).resolve_left (hc m)

/-- two coefficient vectors whose prediction polynomials vanish at the same `p` distinct points agree -/
theorem coeffs_unique_of_roots {p : ℕ} {z : Fin p → K} (hz : Function.Injective z)
    (a a' : ℕ → K) (h : ∀ m, charPoly p a (z m) = 0) (h' : ∀ m, charPoly p a' (z m) = 0) :
    ∀ j, j < p → a j = a' j := by
  have key := coeffs_zero_of_eval_zero z (fun k : Fin p => a (p - 1 - k) - a' (p - 1 - k)) hz (by
    intro m
    have e := (h m).trans (h' m).symm
    unfold charPoly at e
    have e2 : ∑ j ∈ range p, (a j * z m ^ (p - 1 - j) - a' j * z m ^ (p - 1 - j)) = 0 := by
      rw [Finset.sum_sub_distrib]
      linear_combination e
    rw [← Finset.sum_range_reflect] at e2
    rw [← Finset.sum_range (fun k => z m ^ k * (a (p - 1 - k) - a' (p - 1 - k))), ← e2]
    apply Finset.sum_congr rfl
    intro k hk
    have := mem_range.mp hk
    have e3 : p - 1 - (p - 1 - k) = k := by omega
    rw [e3]
    ring)
  intro j hj
  have := congrFun key ⟨p - 1 - j, by omega⟩
  simp only [Pi.zero_apply] at this
  have e3 : p - 1 - (p - 1 - j) = j := by omega
  rw [e3] at this
  exact sub_eq_zero.mp this

/-- the coefficient vector of `∏_m (X - z_m)`: `a_j` is the coefficient of `X^{p-1-j}` -/
noncomputable def prodCoeffs {p : ℕ} (z : Fin p → K) (j : ℕ) : K :=
  (∏ m, (Polynomial.X - Polynomial.C (z m))).coeff (p - 1 - j)

/-- the prediction polynomial of `prodCoeffs z` is `∏_m (w - z_m)` -/
theorem charPoly_prodCoeffs {p : ℕ} (z : Fin p → K) (w : K) :
    charPoly p (prodCoeffs z) w = ∏ m, (w - z m) := by
  have hmon : (∏ m, (Polynomial.X - Polynomial.C (z m))).Monic :=
    Polynomial.monic_prod_X_sub_C z Finset.univ
  have hdeg : (∏ m, (Polynomial.X - Polynomial.C (z m))).natDegree = p := by
    rw [Polynomial.natDegree_prod_of_monic _ _ (fun m _ => Polynomial.monic_X_sub_C (z m))]
    simp
  have hev : (∏ m, (Polynomial.X - Polynomial.C (z m))).eval w = ∏ m, (w - z m) := by
    rw [Polynomial.eval_prod]
    simp
  rw [← hev, Polynomial.eval_eq_sum_range, hdeg, Finset.sum_range_succ]
  have hlead : (∏ m, (Polynomial.X - Polynomial.C (z m))).coeff p = 1 := by
    have := hmon.coeff_natDegree
    rwa [hdeg] at this
  rw [hlead, one_mul, add_comm]
  unfold charPoly prodCoeffs
  congr 1
  rw [← Finset.sum_range_reflect]
  apply Finset.sum_congr rfl
  intro j hj
  have := mem_range.mp hj
  have e3 : p - 1 - (p - 1 - j) = j := by omega
  rw [e3]

theorem charPoly_congr {p : ℕ} {a a' : ℕ → K} (h : ∀ j, j < p → a j = a' j) (w : K) :
    charPoly p a w = charPoly p a' w := by
  unfold charPoly
  congr 1
  apply Finset.sum_congr rfl
  intro j hj
  rw [h j (mem_range.mp hj)]

/-- for `w ≠ 0`: `w^p (1 + Σ_j a_j w^{-(j+1)})` is the prediction polynomial -/
theorem charPoly_eq_inv_form (p : ℕ) (a : ℕ → K) (w : K) (hw : w ≠ 0) :
    charPoly p a w = w ^ p * (1 + ∑ j ∈ range p, a j * (w⁻¹) ^ (j + 1)) := by
  unfold charPoly
  rw [mul_add, mul_one, Finset.mul_sum]
  congr 1
  apply Finset.sum_congr rfl
  intro j hj
  have := mem_range.mp hj
  have e : p = (p - 1 - j) + (j + 1) := by omega
  have hne : w ^ (j + 1) ≠ 0 := pow_ne_zero _ hw
  conv_rhs => rw [e, pow_add, inv_pow]
  field_simp

end Exp

/-! ### backward errors of undamped exponentials; zero-residual fits over `RCLike` -/
section ExpStar
variable {K : Type} [Field K] [StarRing K]

/-- the backward error of a sum of exponentials:
`b_s = Σ_m c_m z_m^s (1 + Σ_j conj(a_j) z_m^{j+1})` -/
theorem bwdErr_expSum {x : List K} {p : ℕ} {z c : Fin p → K} (hx : IsExpSum x p z c)
    (a : ℕ → K) (s : ℕ) (hs : s + p < x.length) :
    bwdErr x p a s = ∑ m, c m * z m ^ s * (1 + ∑ j ∈ range p, star (a j) * z m ^ (j + 1)) := by
  unfold bwdErr
  rw [hx s (by omega)]
  have h1 : ∀ j ∈ range p, star (a j) * nth x (s + 1 + j)
      = ∑ m, star (a j) * (c m * z m ^ (s + 1 + j)) := by
    intro j hj
    have := mem_range.mp hj
    rw [hx (s + 1 + j) (by omega), Finset.mul_sum]
  rw [Finset.sum_congr rfl h1, Finset.sum_comm, ← Finset.sum_add_distrib]
  apply Finset.sum_congr rfl
  intro m _
  rw [mul_add, mul_one, Finset.mul_sum]
  congr 1
  apply Finset.sum_congr rfl
  intro j _
  have e : s + 1 + j = s + (j + 1) := by omega
  rw [e, pow_add]
  ring

/-- at a mode of unit modulus (`conj z · z = 1`) that is a root of the prediction polynomial, the
backward factor `1 + Σ_j conj(a_j) z^{j+1}` vanishes as well -/
theorem bwd_factor_zero {p : ℕ} (a : ℕ → K) (w : K) (hw : star w * w = 1)
    (hq : charPoly p a w = 0) : 1 + ∑ j ∈ range p, star (a j) * w ^ (j + 1) = 0 := by
  have hw0 : w ≠ 0 := by
    rintro rfl
    rw [mul_zero] at hw
    exact zero_ne_one hw
  have hinv : w⁻¹ = star w := (eq_inv_of_mul_eq_one_left hw).symm
  rw [charPoly_eq_inv_form p a w hw0] at hq
  have h1 := (mul_eq_zero.mp hq).resolve_left (pow_ne_zero _ hw0)
  have h2 := congrArg star h1
  rw [star_zero, star_add, star_one, star_sum] at h2
  rw [← h2]
  congr 1
  apply Finset.sum_congr rfl
  intro j _
  rw [star_mul', hinv, star_pow, star_star]

theorem bwdErr_zero_of_roots {x : List K} {p : ℕ} {z c : Fin p → K} (hx : IsExpSum x p z c)
    (hu : ∀ m, star (z m) * z m = 1)
    (a : ℕ → K) (hq : ∀ m, charPoly p a (z m) = 0) (s : ℕ) (hs : s + p < x.length) :
    bwdErr x p a s = 0 := by
  rw [bwdErr_expSum hx a s hs]
  apply Finset.sum_eq_zero
  intro m _
  rw [bwd_factor_zero a (z m) (hu m) (hq m), mul_zero]

end ExpStar

section RCZero
variable {𝕜 : Type} [RCLike 𝕜]

/-- if some coefficient vector has zero residual, every solution of the normal equations has zero
residual -/
theorem res_zero_of_normalEq_of_zero_fit {X1 : ℕ → 𝕜} {Xc : ℕ → ℕ → 𝕜} {r p : ℕ} {a a0 : ℕ → 𝕜}
    (h : NormalEq X1 Xc r p a) (h0 : ∀ i, i < r → lsRes X1 Xc p a0 i = 0) :
    ∀ i, i < r → lsRes X1 Xc p a i = 0 := by
  apply res_zero_of_energyR_zero
  have hp := pythagorasR h a0
  have hz : lsEnergyR X1 Xc r p a0 = 0 := by
    unfold lsEnergyR
    apply Finset.sum_eq_zero
    intro i hi
    rw [h0 i (mem_range.mp hi), norm_zero]
    norm_num
  have hnn : 0 ≤ ∑ i ∈ range r, ‖lsDiff Xc p a a0 i‖ ^ 2 :=
    Finset.sum_nonneg (fun _ _ => by positivity)
  have := lsEnergyR_nonneg X1 Xc r p a
  linarith

end RCZero

/-! ### converse: a minimiser satisfies the normal equations -/
section Converse
variable {K : Type} [Field K] [StarRing K]

omit [StarRing K] in
theorem lsRes_perturb (X1 : ℕ → K) (Xc : ℕ → ℕ → K) (p : ℕ) (a : ℕ → K) (b : ℕ) (hb : b < p)
    (τ : K) (i : ℕ) :
    lsRes X1 Xc p (fun j => a j - if j = b then τ else 0) i = lsRes X1 Xc p a i - Xc i b * τ := by
  unfold lsRes
  have : ∀ j ∈ range p, Xc i j * (a j - if j = b then τ else 0)
      = Xc i j * a j - (if j = b then Xc i j * τ else 0) := by
    intro j _
    by_cases h : j = b
    · rw [if_pos h, if_pos h, mul_sub]
    · rw [if_neg h, if_neg h, sub_zero, sub_zero]
  rw [Finset.sum_congr rfl this, Finset.sum_sub_distrib, Finset.sum_ite_eq' (range p) b,
    if_pos (mem_range.mpr hb)]
  ring

/-- energy after perturbing coefficient `b` by `-τ`, with `G = Σ_i conj(Xc i b) res_i` and
`S = Σ_i |Xc i b|²`: `E' = E - τ conj G - conj τ G + |τ|² S` -/
theorem energy_perturb (X1 : ℕ → K) (Xc : ℕ → ℕ → K) (r p : ℕ) (a : ℕ → K) (b : ℕ) (hb : b < p)
    (τ : K) :
    lsEnergy X1 Xc r p (fun j => a j - if j = b then τ else 0)
      = lsEnergy X1 Xc r p a
        - τ * star (∑ i ∈ range r, star (Xc i b) * lsRes X1 Xc p a i)
        - star τ * (∑ i ∈ range r, star (Xc i b) * lsRes X1 Xc p a i)
        + τ * star τ * ∑ i ∈ range r, Xc i b * star (Xc i b) := by
  unfold lsEnergy
  rw [star_sum, Finset.mul_sum, Finset.mul_sum, Finset.mul_sum, ← Finset.sum_sub_distrib,
    ← Finset.sum_sub_distrib, ← Finset.sum_add_distrib]
  apply Finset.sum_congr rfl
  intro i _
  rw [lsRes_perturb X1 Xc p a b hb τ i, star_sub, star_mul', star_mul', star_star]
  ring

end Converse

section ConverseRC
variable {𝕜 : Type} [RCLike 𝕜]

/-- **converse**: a minimiser of the residual energy satisfies the normal equations -/
theorem normalEq_of_minimiser {X1 : ℕ → 𝕜} {Xc : ℕ → ℕ → 𝕜} {r p : ℕ} {a : ℕ → 𝕜}
    (hmin : ∀ a' : ℕ → 𝕜, lsEnergyR X1 Xc r p a ≤ lsEnergyR X1 Xc r p a') :
    NormalEq X1 Xc r p a := by
  intro b hb
  set G : 𝕜 := ∑ i ∈ range r, star (Xc i b) * lsRes X1 Xc p a i with hG
  set SR : ℝ := ∑ i ∈ range r, ‖Xc i b‖ ^ 2 with hSR
  have hS : ∑ i ∈ range r, Xc i b * star (Xc i b) = ((SR : ℝ) : 𝕜) := by
    rw [hSR, RCLike.ofReal_sum]
    apply Finset.sum_congr rfl
    intro i _
    rw [mul_star_eq_ofReal]
  have hSR0 : 0 ≤ SR := Finset.sum_nonneg (fun _ _ => by positivity)
  have key : ∀ t : ℝ, lsEnergyR X1 Xc r p (fun j => a j - if j = b then (t : 𝕜) * G else 0)
      = lsEnergyR X1 Xc r p a - 2 * t * ‖G‖ ^ 2 + t ^ 2 * ‖G‖ ^ 2 * SR := by
    intro t
    have h := energy_perturb X1 Xc r p a b hb ((t : 𝕜) * G)
    rw [← hG, hS, lsEnergy_ofReal, lsEnergy_ofReal] at h
    have e1 : (t : 𝕜) * G * star G = ((t * ‖G‖ ^ 2 : ℝ) : 𝕜) := by
      rw [mul_assoc, mul_star_eq_ofReal, ← RCLike.ofReal_mul]
    have e2 : star ((t : 𝕜) * G) * G = ((t * ‖G‖ ^ 2 : ℝ) : 𝕜) := by
      have hst : star (t : 𝕜) = (t : 𝕜) := by rw [RCLike.star_def, RCLike.conj_ofReal]
      rw [star_mul', hst, mul_assoc, mul_comm (star G) G, mul_star_eq_ofReal,
        ← RCLike.ofReal_mul]
    have e3 : (t : 𝕜) * G * star ((t : 𝕜) * G) = ((t ^ 2 * ‖G‖ ^ 2 : ℝ) : 𝕜) := by
      rw [mul_star_eq_ofReal, norm_mul, RCLike.norm_ofReal, mul_pow, sq_abs]
    rw [e1, e2, e3, ← RCLike.ofReal_sub, ← RCLike.ofReal_sub, ← RCLike.ofReal_mul,
      ← RCLike.ofReal_add, RCLike.ofReal_inj] at h
    rw [h]
    ring
  have hk := key (1 / (SR + 1))
  have hm := hmin (fun j => a j - if j = b then (((1 / (SR + 1) : ℝ)) : 𝕜) * G else 0)
  rw [hk] at hm
  have hpos : 0 < SR + 1 := by linarith
  have hG0 : ‖G‖ ^ 2 ≤ 0 := by
    have h1 : 0 ≤ ‖G‖ ^ 2 * (-2 * (1 / (SR + 1)) + (1 / (SR + 1)) ^ 2 * SR) := by
      nlinarith [hm]
    have h2 : -2 * (1 / (SR + 1)) + (1 / (SR + 1)) ^ 2 * SR < 0 := by
      have : -2 * (1 / (SR + 1)) + (1 / (SR + 1)) ^ 2 * SR
          = -(SR + 2) / (SR + 1) ^ 2 := by
        field_simp
        ring
      rw [this]
      apply div_neg_of_neg_of_pos
      · linarith
      · positivity
    by_contra hcon
    have := mul_neg_of_pos_of_neg (not_le.mp hcon) h2
    linarith
  have : ‖G‖ ^ 2 = 0 := le_antisymm hG0 (by positivity)
  exact norm_eq_zero.mp ((pow_eq_zero_iff two_ne_zero).mp this)

end ConverseRC
end SpecVerif.LSL
