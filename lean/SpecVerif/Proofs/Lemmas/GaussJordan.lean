import SpecVerif.Proofs.Lemmas.LeastSquares
/-
  Verification of the model's own linear solver (`SpecVerif/Model/LinAlg.lean`): Gauss–Jordan
  elimination `gjStep` / `solveMat` / `solveVec` / `inverse` / `lstsq`, over a field `K` whose zero test
  `IsZero.isZero` is lawful (`LawfulIsZero`: `isZero x = true ↔ x = 0`).

  * `gjStep_some` : what a successful step returns, entry by entry (`stepEntry`);
  * `nullVec_step` : a step is an invertible row transformation — the set of vectors `v` with
    `Σ_j M i j · v j = 0` for all rows `i < n` (`NullVec`) is unchanged;
  * `unitCols_step` : after the step on column `col` the columns `0..col` are unit columns (`UnitCols`);
  * `gjRun_inv` : the invariant of the fold over the columns;
  * `solveMat_sound`, `solveVec_sound`, `inverse_sound`, `lstsq_sound`, `lstsq_gramSystem`;
  * completeness: `solveMat_complete` (trivial kernel ⇒ the elimination does not fail) and the converse
    `solveMat_kernel_trivial` (success ⇒ trivial kernel), hence `lsFit_some_iff`.
-/
namespace SpecVerif.GJL
open Finset SpecVerif SpecVerif.LSL

/-- the zero test of the model's pivot search decides equality with `0` -/
class LawfulIsZero (K : Type) [Zero K] [IsZero K] : Prop where
  isZero_iff : ∀ x : K, isZero x = true ↔ x = 0

section Defs
variable {K : Type} [Field K]

/-- `Σ_{j<w} M i j · v j`: row `i` of `M` applied to `v` -/
def rowDot (M : Mat K) (w : ℕ) (v : ℕ → K) (i : ℕ) : K :=
  ∑ j ∈ range w, mentryM M i j * v j

/-- `v` is annihilated by every row `i < n` of the `n × w` matrix `M` -/
def NullVec (M : Mat K) (n w : ℕ) (v : ℕ → K) : Prop := ∀ i, i < n → rowDot M w v i = 0

/-- the first `c` columns of `M` (rows `< n`) are the unit columns `e_0, …, e_{c-1}` -/
def UnitCols (M : Mat K) (n c : ℕ) : Prop :=
  ∀ i, i < n → ∀ j, j < c → mentryM M i j = if i = j then 1 else 0

/-- entry `(i, j)` of the result of a Gauss–Jordan step on column `col` with pivot row `p`:
row `col` is row `p` divided by the pivot; any other row `i` is row `σ i` (`σ` swaps `p` and `col`)
minus its `col` entry times the normalised pivot row -/
def stepEntry (M : Mat K) (col p i j : ℕ) : K :=
  if i = col then mentryM M p j / mentryM M p col
  else mentryM M (if i = p then col else i) j
      - mentryM M (if i = p then col else i) col * (mentryM M p j / mentryM M p col)

/-- the fold of `gjStep` over the columns `0..c-1` (as inside `solveMat`) -/
def gjRun [IsZero K] (n w : ℕ) (M : Mat K) (c : ℕ) : Option (Mat K) :=
  (List.range c).foldl (fun (acc : Option (Mat K)) col =>
    match acc with
    | none => none
    | some M => gjStep n w M col) (some M)

/-- the augmented matrix `[A | B]` built by `solveMat` -/
def augMat (A B : Mat K) (n m : ℕ) : Mat K :=
  vec n (fun i => vec (n + m) (fun j => if j < n then mentryM A i j else mentryM B i (j - n)))

end Defs

section Step
variable {K : Type} [Field K]

theorem getD_vec_gj {α : Type} (n : ℕ) (f : ℕ → α) (i : ℕ) (hi : i < n) (d : α) :
    (vec n f).getD i d = f i := by
  simp [vec, List.getD_eq_getElem?_getD, hi]

variable [IsZero K]

/-- a successful step: the pivot row `p` (`col ≤ p < n`, entry not flagged zero) and all entries -/
theorem gjStep_some {n w col : ℕ} {M M' : Mat K} (h : gjStep n w M col = some M') :
    ∃ p, col ≤ p ∧ p < n ∧ isZero (mentryM M p col) = false ∧
      ∀ i, i < n → ∀ j, j < w → mentryM M' i j = stepEntry M col p i j := by
  unfold gjStep at h
  split at h
  · cases h
  · rename_i p hp
    have h1 := List.find?_some hp
    have h2 := List.mem_of_find?_eq_some hp
    simp only [Bool.and_eq_true, decide_eq_true_eq, Bool.not_eq_true'] at h1
    rw [List.mem_range] at h2
    refine ⟨p, h1.1, h2, h1.2, ?_⟩
    simp only [Option.some.injEq] at h
    subst h
    intro i hi j hj
    unfold stepEntry
    unfold mentryM
    rw [getD_vec_gj _ _ i hi]
    by_cases hic : i = col
    · rw [if_pos hic, if_pos hic, nth_vec, if_pos hj]
    · rw [if_neg hic, if_neg hic, nth_vec, if_pos hj, nth_vec, if_pos hj, getD_vec_gj _ _ i hi,
        if_neg hic]
      by_cases hip : i = p
      · rw [if_pos hip, if_pos hip]
      · rw [if_neg hip, if_neg hip]

/-- a failed step: column `col` vanishes (according to the zero test) in every row `col ≤ i < n` -/
theorem gjStep_none {n w col : ℕ} {M : Mat K} (h : gjStep n w M col = none) :
    ∀ i, col ≤ i → i < n → isZero (mentryM M i col) = true := by
  unfold gjStep at h
  split at h
  · rename_i hf
    rw [List.find?_eq_none] at hf
    intro i hci hin
    have := hf i (List.mem_range.mpr hin)
    simpa [hci] using this
  · cases h

end Step

section StepAlgebra
variable {K : Type} [Field K]

/-- rows of the stepped matrix applied to `v`, in terms of the rows of `M` applied to `v` -/
theorem rowDot_step {n w col p : ℕ} {M M' : Mat K}
    (hE : ∀ i, i < n → ∀ j, j < w → mentryM M' i j = stepEntry M col p i j)
    (v : ℕ → K) (i : ℕ) (hi : i < n) :
    rowDot M' w v i =
      if i = col then rowDot M w v p / mentryM M p col
      else rowDot M w v (if i = p then col else i)
        - mentryM M (if i = p then col else i) col * (rowDot M w v p / mentryM M p col) := by
  unfold rowDot
  rw [Finset.sum_congr rfl (fun j hj => by rw [hE i hi j (mem_range.mp hj)])]
  unfold stepEntry
  by_cases hic : i = col
  · simp only [if_pos hic]
    rw [Finset.sum_div]
    apply Finset.sum_congr rfl
    intro j _
    ring
  · simp only [if_neg hic]
    rw [Finset.sum_div, Finset.mul_sum, ← Finset.sum_sub_distrib]
    apply Finset.sum_congr rfl
    intro j _
    ring

/-- **one step preserves the null space** (it is an invertible row transformation) -/
theorem nullVec_step {n w col p : ℕ} {M M' : Mat K} (hcn : col < n) (hpn : p < n)
    (hpiv : mentryM M p col ≠ 0)
    (hE : ∀ i, i < n → ∀ j, j < w → mentryM M' i j = stepEntry M col p i j) (v : ℕ → K) :
    NullVec M' n w v ↔ NullVec M n w v := by
  constructor
  · intro h
    have hp0 : rowDot M w v p = 0 := by
      have := h col hcn
      rw [rowDot_step hE v col hcn, if_pos rfl] at this
      exact (div_eq_zero_iff.mp this).resolve_right hpiv
    intro k hk
    by_cases hkp : k = p
    · rw [hkp]; exact hp0
    · by_cases hkc : k = col
      · -- `k = col ≠ p`: row `p` of `M'` comes from row `col` of `M`
        have hpc : p ≠ col := fun e => hkp (hkc.trans e.symm)
        have := h p hpn
        rw [rowDot_step hE v p hpn, if_neg hpc, if_pos rfl, hp0, zero_div, mul_zero,
          sub_zero] at this
        rw [hkc]; exact this
      · have := h k hk
        rw [rowDot_step hE v k hk, if_neg hkc, if_neg hkp, hp0, zero_div, mul_zero,
          sub_zero] at this
        exact this
  · intro h i hi
    rw [rowDot_step hE v i hi]
    by_cases hic : i = col
    · rw [if_pos hic, h p hpn, zero_div]
    · rw [if_neg hic, h p hpn, zero_div, mul_zero, sub_zero]
      by_cases hip : i = p
      · rw [if_pos hip]; exact h col hcn
      · rw [if_neg hip]; exact h i hi

/-- **column `col` of the stepped matrix is the unit vector `e_col`** -/
theorem pivotCol_step {n w col p : ℕ} {M M' : Mat K} (hcw : col < w)
    (hpiv : mentryM M p col ≠ 0)
    (hE : ∀ i, i < n → ∀ j, j < w → mentryM M' i j = stepEntry M col p i j) :
    ∀ i, i < n → mentryM M' i col = if i = col then 1 else 0 := by
  intro i hi
  rw [hE i hi col hcw]
  unfold stepEntry
  by_cases hic : i = col
  · rw [if_pos hic, if_pos hic, div_self hpiv]
  · rw [if_neg hic, if_neg hic, div_self hpiv, mul_one, sub_self]

/-- **column `col` becomes `e_col`, the unit columns `< col` stay unit columns** -/
theorem unitCols_step {n w col p : ℕ} {M M' : Mat K} (hcw : col < w) (hcp : col ≤ p)
    (hpn : p < n) (hpiv : mentryM M p col ≠ 0)
    (hE : ∀ i, i < n → ∀ j, j < w → mentryM M' i j = stepEntry M col p i j)
    (hU : UnitCols M n col) : UnitCols M' n (col + 1) := by
  intro i hi j hj
  rw [hE i hi j (by omega)]
  unfold stepEntry
  by_cases hjc : j = col
  · -- the pivot column
    subst hjc
    by_cases hic : i = j
    · rw [if_pos hic, if_pos hic, div_self hpiv]
    · rw [if_neg hic, if_neg hic, div_self hpiv, mul_one, sub_self]
  · have hjlt : j < col := by omega
    have hpj : mentryM M p j = 0 := by
      rw [hU p hpn j hjlt, if_neg (by omega)]
    rw [hpj, zero_div, mul_zero, sub_zero]
    by_cases hic : i = col
    · rw [if_pos hic, if_neg (by omega)]
    · rw [if_neg hic]
      by_cases hip : i = p
      · rw [if_pos hip, hU col (by omega) j hjlt, if_neg (by omega), if_neg (by omega)]
      · rw [if_neg hip, hU i hi j hjlt]

end StepAlgebra

section Run
variable {K : Type} [Field K] [IsZero K]

theorem gjRun_zero (n w : ℕ) (M : Mat K) : gjRun n w M 0 = some M := rfl

theorem gjRun_succ (n w : ℕ) (M : Mat K) (c : ℕ) :
    gjRun n w M (c + 1) = (gjRun n w M c).bind (fun M1 => gjStep n w M1 c) := by
  unfold gjRun
  rw [List.range_succ, List.foldl_append]
  simp only [List.foldl_cons, List.foldl_nil]
  cases (List.foldl (fun (acc : Option (Mat K)) col =>
    match acc with
    | none => none
    | some M => gjStep n w M col) (some M) (List.range c)) <;> rfl

theorem solveMat_eq (A B : Mat K) (n m : ℕ) :
    solveMat A B n m = (gjRun n (n + m) (augMat A B n m) n).map
      (fun M => vec n (fun i => vec m (fun j => mentryM M i (j + n)))) := rfl

variable [LawfulIsZero K]

theorem isZero_false_iff (x : K) : isZero x = false ↔ x ≠ 0 := by
  rw [← Bool.not_eq_true, LawfulIsZero.isZero_iff]

/-- **invariant of the elimination**: after the columns `0..c-1` the matrix has the same null space as
the initial one and its first `c` columns are unit columns -/
theorem gjRun_inv {n w : ℕ} (hnw : n ≤ w) (M0 : Mat K) :
    ∀ c, c ≤ n → ∀ M, gjRun n w M0 c = some M →
      UnitCols M n c ∧ ∀ v, NullVec M n w v ↔ NullVec M0 n w v := by
  intro c
  induction c with
  | zero =>
    intro _ M h
    rw [gjRun_zero] at h
    simp only [Option.some.injEq] at h
    subst h
    exact ⟨fun i _ j hj => absurd hj (Nat.not_lt_zero j), fun v => Iff.rfl⟩
  | succ c ih =>
    intro hc M h
    rw [gjRun_succ] at h
    cases h1 : gjRun n w M0 c with
    | none => rw [h1] at h; cases h
    | some M1 =>
      rw [h1] at h
      simp only [Option.bind_some] at h
      obtain ⟨hU, hN⟩ := ih (by omega) M1 h1
      obtain ⟨p, hcp, hpn, hpz, hE⟩ := gjStep_some h
      have hpiv : mentryM M1 p c ≠ 0 := (isZero_false_iff _).mp hpz
      refine ⟨unitCols_step (by omega) hcp hpn hpiv hE hU, fun v => ?_⟩
      rw [nullVec_step (by omega) hpn hpiv hE v]
      exact hN v

end Run

/-! ### reading the augmented matrix -/
section Aug
variable {K : Type} [Field K]

theorem mentryM_augMat (A B : Mat K) (n m i j : ℕ) (hi : i < n) (hj : j < n + m) :
    mentryM (augMat A B n m) i j = if j < n then mentryM A i j else mentryM B i (j - n) := by
  unfold augMat
  rw [mentryM_vec_vec n (n + m)
    (fun i j => if j < n then mentryM A i j else mentryM B i (j - n)) i j hi hj]

/-- the test vector `(x_0, …, x_{n-1}; -e_{j0})` against a row of an `n × (n+m)` matrix -/
theorem rowDot_aug (M : Mat K) (n m j0 : ℕ) (hj0 : j0 < m) (x : ℕ → K) (i : ℕ) :
    rowDot M (n + m) (fun k => if k < n then x k else if k = n + j0 then -1 else 0) i
      = ∑ k ∈ range n, mentryM M i k * x k - mentryM M i (n + j0) := by
  unfold rowDot
  rw [Finset.sum_range_add, sub_eq_add_neg]
  congr 1
  · apply Finset.sum_congr rfl
    intro k hk
    beta_reduce
    rw [if_pos (mem_range.mp hk)]
  · rw [Finset.sum_eq_single j0]
    · beta_reduce
      rw [if_neg (by omega), if_pos rfl, mul_neg, mul_one]
    · intro k _ hk
      beta_reduce
      rw [if_neg (by omega), if_neg (by omega), mul_zero]
    · intro h
      exact absurd (mem_range.mpr hj0) h

/-- a vector supported on the first `n` coordinates only sees the left `n × n` block -/
theorem rowDot_left (M : Mat K) (n m : ℕ) (v : ℕ → K) (hv : ∀ k, n ≤ k → v k = 0) (i : ℕ) :
    rowDot M (n + m) v i = ∑ k ∈ range n, mentryM M i k * v k := by
  unfold rowDot
  rw [Finset.sum_range_add, add_eq_left]
  apply Finset.sum_eq_zero
  intro k _
  rw [hv (n + k) (by omega), mul_zero]

/-- unit columns: `Σ_{k<n} M i k · x k = x i` -/
theorem sum_unitCols {M : Mat K} {n : ℕ} (hU : UnitCols M n n) (x : ℕ → K) (i : ℕ) (hi : i < n) :
    ∑ k ∈ range n, mentryM M i k * x k = x i := by
  rw [Finset.sum_eq_single i]
  · rw [hU i hi i hi, if_pos rfl, one_mul]
  · intro k hk hki
    rw [hU i hi k (mem_range.mp hk), if_neg (fun e => hki e.symm), zero_mul]
  · intro h
    exact absurd (mem_range.mpr hi) h

theorem mentryM_identity (n i j : ℕ) (hi : i < n) (hj : j < n) :
    mentryM (identity n : Mat K) i j = if i = j then 1 else 0 := by
  unfold identity
  rw [mentryM_vec_vec n n (fun i j => if i = j then (1 : K) else 0) i j hi hj]

end Aug

/-! ### soundness -/
section Sound
variable {K : Type} [Field K] [IsZero K] [LawfulIsZero K]

/-- **`solveMat` is sound**: a returned `X` satisfies `A X = B` entry by entry -/
theorem solveMat_sound {A B : Mat K} {n m : ℕ} {X : Mat K} (h : solveMat A B n m = some X) :
    ∀ i, i < n → ∀ j, j < m →
      ∑ k ∈ range n, mentryM A i k * mentryM X k j = mentryM B i j := by
  rw [solveMat_eq] at h
  cases hr : gjRun n (n + m) (augMat A B n m) n with
  | none => rw [hr] at h; cases h
  | some M =>
    rw [hr] at h
    simp only [Option.map_some, Option.some.injEq] at h
    obtain ⟨hU, hN⟩ := gjRun_inv (Nat.le_add_right n m) (augMat A B n m) n (Nat.le_refl n) M hr
    have hX : ∀ k, k < n → ∀ j, j < m → mentryM X k j = mentryM M k (j + n) := by
      intro k hk j hj
      rw [← h, mentryM_vec_vec n m (fun i j => mentryM M i (j + n)) k j hk hj]
    intro i hi j hj
    have hnull : NullVec M n (n + m)
        (fun k => if k < n then mentryM X k j else if k = n + j then -1 else 0) := by
      intro i' hi'
      rw [rowDot_aug M n m j hj, sum_unitCols hU _ i' hi', hX i' hi' j hj, Nat.add_comm n j,
        sub_self]
    have := (hN _).mp hnull i hi
    rw [rowDot_aug _ n m j hj] at this
    have e1 : ∑ k ∈ range n, mentryM (augMat A B n m) i k * mentryM X k j
        = ∑ k ∈ range n, mentryM A i k * mentryM X k j := by
      apply Finset.sum_congr rfl
      intro k hk
      have hk' := mem_range.mp hk
      rw [mentryM_augMat A B n m i k hi (by omega), if_pos hk']
    have e2 : mentryM (augMat A B n m) i (n + j) = mentryM B i j := by
      rw [mentryM_augMat A B n m i (n + j) hi (by omega), if_neg (by omega), Nat.add_sub_cancel_left]
    rw [e1, e2] at this
    exact sub_eq_zero.mp this

/-- success of `solveMat` forces a trivial kernel of `A` (the reduced left block is the identity) -/
theorem solveMat_kernel_trivial {A B : Mat K} {n m : ℕ} {X : Mat K}
    (h : solveMat A B n m = some X) (v : ℕ → K)
    (hv : ∀ i, i < n → ∑ k ∈ range n, mentryM A i k * v k = 0) : ∀ k, k < n → v k = 0 := by
  rw [solveMat_eq] at h
  cases hr : gjRun n (n + m) (augMat A B n m) n with
  | none => rw [hr] at h; cases h
  | some M =>
    obtain ⟨hU, hN⟩ := gjRun_inv (Nat.le_add_right n m) (augMat A B n m) n (Nat.le_refl n) M hr
    have hsupp : ∀ k, n ≤ k → (fun k => if k < n then v k else 0) k = 0 := by
      intro k hk
      simp only [if_neg (Nat.not_lt.mpr hk)]
    have hnull : NullVec (augMat A B n m) n (n + m) (fun k => if k < n then v k else 0) := by
      intro i hi
      rw [rowDot_left _ n m _ hsupp, ← hv i hi]
      apply Finset.sum_congr rfl
      intro k hk
      have hk' := mem_range.mp hk
      rw [mentryM_augMat A B n m i k hi (by omega), if_pos hk', if_pos hk']
    intro k hk
    have := (hN _).mpr hnull k hk
    rw [rowDot_left _ n m _ hsupp, sum_unitCols hU _ k hk, if_pos hk] at this
    exact this

/-- **`solveVec` is sound**: `A v = b` -/
theorem solveVec_sound {A : Mat K} {b : List K} {n : ℕ} {v : List K}
    (h : solveVec A b n = some v) :
    ∀ i, i < n → ∑ k ∈ range n, mentryM A i k * nth v k = nth b i := by
  unfold solveVec at h
  simp only [Option.map_eq_some_iff] at h
  obtain ⟨X, hX, rfl⟩ := h
  intro i hi
  have := solveMat_sound hX i hi 0 Nat.one_pos
  have eB : mentryM (vec n (fun i => [nth b i])) i 0 = nth b i := by
    unfold mentryM
    rw [getD_vec_gj _ _ i hi]
    rfl
  rw [eB] at this
  rw [← this]
  apply Finset.sum_congr rfl
  intro k hk
  rw [nth_vec, if_pos (mem_range.mp hk)]

/-- **`inverse` is sound**: `A · inverse A = I` -/
theorem inverse_sound {A : Mat K} {n : ℕ} {Ai : Mat K} (h : inverse A n = some Ai) :
    ∀ i, i < n → ∀ j, j < n →
      ∑ k ∈ range n, mentryM A i k * mentryM Ai k j = if i = j then 1 else 0 := by
  intro i hi j hj
  unfold inverse at h
  rw [solveMat_sound h i hi j hj, mentryM_identity n i j hi hj]

end Sound

section SoundStar
variable {K : Type} [Field K] [StarRing K] [IsZero K] [LawfulIsZero K]

/-- **`lstsq` is sound**: the returned vector solves the normal equations `XᴴX a = Xᴴ b` -/
theorem lstsq_sound {X : Mat K} {b : List K} {r c : ℕ} {a : List K}
    (h : lstsq X b r c = some a) :
    ∀ k, k < c →
      ∑ l ∈ range c, (∑ i ∈ range r, star (mentryM X i k) * mentryM X i l) * nth a l
        = ∑ i ∈ range r, star (mentryM X i k) * nth b i := by
  intro k hk
  have hs : solveVec (matMul (conjT X r c) X c r c) (matVec (conjT X r c) b c r) c = some a := h
  have := solveVec_sound hs k hk
  rw [nth_matVec _ _ c r k hk] at this
  have e1 : ∑ i ∈ range r, mentryM (conjT X r c) k i * nth b i
      = ∑ i ∈ range r, star (mentryM X i k) * nth b i := by
    apply Finset.sum_congr rfl
    intro i hi
    rw [mentryM_conjT X r c k i hk (mem_range.mp hi)]
  rw [e1] at this
  rw [← this]
  apply Finset.sum_congr rfl
  intro l hl
  rw [mentryM_matMul _ _ c r c k l hk (mem_range.mp hl)]
  congr 1
  apply Finset.sum_congr rfl
  intro i hi
  rw [mentryM_conjT X r c k i hk (mem_range.mp hi)]

/-- the `lstsq` call of `lsFit` returns a solution of the `GramSystem` of `LeastSquares.lean` -/
theorem lstsq_gramSystem {X : Mat K} {rows p : ℕ} {a : List K}
    (h : lstsq (negXc X rows p) (rhsX1 X rows) rows p = some a) : GramSystem X rows p (nth a) := by
  rw [lstsq_unfold] at h
  intro k hk
  exact solveVec_sound h k hk

/-- **`lsFit` returns a solution of the normal equations**, with `e` the residual energy -/
theorem lsFit_sound {X : Mat K} {rows p : ℕ} {a : List K} {e : K}
    (h : lsFit X rows p = some (a, e)) :
    NormalEq (col0 X) (colR X) rows p (nth a) ∧ e = lsEnergy (col0 X) (colR X) rows p (nth a) := by
  obtain ⟨h1, h2⟩ := lsFit_eq_some h
  have hn := (normalEq_iff_gramSystem X rows p (nth a)).mpr (lstsq_gramSystem h1)
  refine ⟨hn, ?_⟩
  rw [h2]
  exact error_formula hn

end SoundStar

/-! ### completeness -/
section Complete
variable {K : Type} [Field K]

/-- if the first `c` columns are unit columns and column `c` vanishes in the rows `c ≤ i < n`, then
`(-M_{0c}, …, -M_{c-1,c}, 1, 0, …)` is a null vector -/
theorem nullVec_of_zero_col {M : Mat K} {n w c : ℕ} (hcn : c < n) (hnw : n ≤ w)
    (hU : UnitCols M n c) (h0 : ∀ i, c ≤ i → i < n → mentryM M i c = 0) :
    NullVec M n w (fun k => if k < c then -(mentryM M k c) else if k = c then 1 else 0) := by
  intro i hi
  unfold rowDot
  have hsplit : ∀ j ∈ range w,
      mentryM M i j * (if j < c then -(mentryM M j c) else if j = c then 1 else 0)
        = (if j = i then (if i < c then -(mentryM M i c) else 0) else 0)
          + (if j = c then mentryM M i c else 0) := by
    intro j _
    by_cases hjc : j < c
    · rw [if_pos hjc, if_neg (show ¬ j = c by omega), add_zero, hU i hi j hjc]
      by_cases hij : i = j
      · rw [if_pos hij, if_pos hij.symm, one_mul, if_pos (by omega), hij]
      · rw [if_neg hij, if_neg (fun e => hij e.symm), zero_mul]
    · rw [if_neg hjc]
      by_cases hjc' : j = c
      · rw [if_pos hjc', if_pos hjc', mul_one, hjc']
        by_cases hci : c = i
        · rw [if_pos hci, if_neg (by omega), zero_add]
        · rw [if_neg hci, zero_add]
      · rw [if_neg hjc', if_neg hjc', mul_zero, add_zero]
        by_cases hji : j = i
        · rw [if_pos hji, if_neg (by omega)]
        · rw [if_neg hji]
  rw [Finset.sum_congr rfl hsplit, Finset.sum_add_distrib, Finset.sum_ite_eq' (range w) i,
    Finset.sum_ite_eq' (range w) c, if_pos (mem_range.mpr (by omega)),
    if_pos (mem_range.mpr (by omega))]
  by_cases hic : i < c
  · rw [if_pos hic, neg_add_cancel]
  · rw [if_neg hic, zero_add]
    exact h0 i (by omega) hi

variable [IsZero K] [LawfulIsZero K]

/-- **completeness of the elimination**: if the left `n × n` block of the initial matrix has a trivial
kernel, no step fails -/
theorem gjRun_complete {n m : ℕ} (M0 : Mat K)
    (hinj : ∀ v : ℕ → K, (∀ i, i < n → ∑ k ∈ range n, mentryM M0 i k * v k = 0) →
      ∀ k, k < n → v k = 0) :
    ∀ c, c ≤ n → ∃ M, gjRun n (n + m) M0 c = some M := by
  intro c
  induction c with
  | zero => intro _; exact ⟨M0, rfl⟩
  | succ c ih =>
    intro hc
    obtain ⟨M1, h1⟩ := ih (by omega)
    rw [gjRun_succ, h1]
    simp only [Option.bind_some]
    cases hs : gjStep n (n + m) M1 c with
    | some M => exact ⟨M, rfl⟩
    | none =>
      exfalso
      obtain ⟨hU, hN⟩ := gjRun_inv (Nat.le_add_right n m) M0 c (by omega) M1 h1
      have h0 : ∀ i, c ≤ i → i < n → mentryM M1 i c = 0 := fun i hci hin =>
        (LawfulIsZero.isZero_iff _).mp (gjStep_none hs i hci hin)
      have hnull := (hN _).mp (nullVec_of_zero_col (by omega) (Nat.le_add_right n m) hU h0)
      have hsupp : ∀ k, n ≤ k →
          (fun k => if k < c then -(mentryM M1 k c) else if k = c then (1 : K) else 0) k = 0 := by
        intro k hk
        simp only [if_neg (show ¬ k < c by omega), if_neg (show ¬ k = c by omega)]
      have := hinj _ (fun i hi => by
        have := hnull i hi
        rw [rowDot_left _ n m _ hsupp] at this
        exact this) c (by omega)
      simp only [if_neg (Nat.lt_irrefl c)] at this
      exact one_ne_zero this

/-- **`solveMat` is complete**: if `A v = 0` only for `v = 0`, `solveMat A B n m` returns a solution -/
theorem solveMat_complete (A B : Mat K) (n m : ℕ)
    (hinj : ∀ v : ℕ → K, (∀ i, i < n → ∑ k ∈ range n, mentryM A i k * v k = 0) →
      ∀ k, k < n → v k = 0) :
    ∃ X, solveMat A B n m = some X := by
  rw [solveMat_eq]
  obtain ⟨M, hM⟩ := gjRun_complete (m := m) (augMat A B n m) (fun v hv => hinj v (fun i hi => by
    rw [← hv i hi]
    apply Finset.sum_congr rfl
    intro k hk
    have hk' := mem_range.mp hk
    rw [mentryM_augMat A B n m i k hi (by omega), if_pos hk'])) n (Nat.le_refl n)
  rw [hM]
  exact ⟨_, rfl⟩

theorem solveVec_complete (A : Mat K) (b : List K) (n : ℕ)
    (hinj : ∀ v : ℕ → K, (∀ i, i < n → ∑ k ∈ range n, mentryM A i k * v k = 0) →
      ∀ k, k < n → v k = 0) :
    ∃ v, solveVec A b n = some v := by
  obtain ⟨X, hX⟩ := solveMat_complete A (vec n (fun i => [nth b i])) n 1 hinj
  unfold solveVec
  rw [hX]
  exact ⟨_, rfl⟩

theorem solveVec_kernel_trivial {A : Mat K} {b : List K} {n : ℕ} {v0 : List K}
    (h : solveVec A b n = some v0) (v : ℕ → K)
    (hv : ∀ i, i < n → ∑ k ∈ range n, mentryM A i k * v k = 0) : ∀ k, k < n → v k = 0 := by
  unfold solveVec at h
  simp only [Option.map_eq_some_iff] at h
  obtain ⟨X, hX, _⟩ := h
  exact solveMat_kernel_trivial hX v hv

end Complete

section CompleteStar
variable {K : Type} [Field K] [StarRing K]

/-- the Gram matrix handed to the solver by `lsFit`, applied to `d` -/
theorem gram_apply (X : Mat K) (rows p : ℕ) (d : ℕ → K) (k : ℕ) (hk : k < p) :
    ∑ l ∈ range p,
        mentryM (matMul (conjT (negXc X rows p) rows p) (negXc X rows p) p rows p) k l * d l
      = ∑ i ∈ range rows, star (colR X i k) * ∑ l ∈ range p, colR X i l * d l := by
  have : ∀ l ∈ range p,
      mentryM (matMul (conjT (negXc X rows p) rows p) (negXc X rows p) p rows p) k l * d l
        = ∑ i ∈ range rows, star (colR X i k) * (colR X i l * d l) := by
    intro l hl
    rw [mentryM_matMul _ _ p rows p k l hk (mem_range.mp hl), Finset.sum_mul]
    apply Finset.sum_congr rfl
    intro i hi
    rw [mentryM_conjT _ rows p k i hk (mem_range.mp hi),
      mentryM_negXc X rows p i k (mem_range.mp hi) hk,
      mentryM_negXc X rows p i l (mem_range.mp hi) (mem_range.mp hl), star_neg]
    ring
  rw [Finset.sum_congr rfl this, Finset.sum_comm]
  apply Finset.sum_congr rfl
  intro i _
  rw [Finset.mul_sum]

variable [IsZero K] [LawfulIsZero K]

/-- **`lsFit` succeeds exactly when the Gram matrix `X_cᴴX_c` has a trivial kernel** -/
theorem lsFit_some_iff (X : Mat K) (rows p : ℕ) :
    (∃ a e, lsFit X rows p = some (a, e)) ↔
      ∀ d : ℕ → K,
        (∀ b, b < p → ∑ i ∈ range rows, star (colR X i b) * ∑ j ∈ range p, colR X i j * d j = 0) →
          ∀ j, j < p → d j = 0 := by
  constructor
  · rintro ⟨a, e, h⟩ d hd
    have h1 := (lsFit_eq_some h).1
    rw [lstsq_unfold] at h1
    apply solveVec_kernel_trivial h1 d
    intro k hk
    rw [gram_apply X rows p d k hk]
    exact hd k hk
  · intro hG
    obtain ⟨a, ha⟩ := solveVec_complete
      (matMul (conjT (negXc X rows p) rows p) (negXc X rows p) p rows p)
      (matVec (conjT (negXc X rows p) rows p) (rhsX1 X rows) p rows) p (fun v hv => hG v (fun b hb => by
        rw [← gram_apply X rows p v b hb]
        exact hv b hb))
    rw [← lstsq_unfold] at ha
    obtain ⟨e, he⟩ := lsFit_of_lstsq ha
    exact ⟨a, e, he⟩

/-- **the vector returned by `lsFit` is the only solution of the normal equations** (success of the
elimination means that the Gram matrix is nonsingular) -/
theorem lsFit_solution_unique {X : Mat K} {rows p : ℕ} {a : List K} {e : K}
    (h : lsFit X rows p = some (a, e)) (a' : ℕ → K)
    (h' : NormalEq (col0 X) (colR X) rows p a') : ∀ j, j < p → a' j = nth a j := by
  have hG := (lsFit_some_iff X rows p).mp ⟨a, e, h⟩
  have hn := (lsFit_sound h).1
  have key := hG (fun j => a' j - nth a j) (fun b hb => by
    have e1 : ∀ i ∈ range rows,
        star (colR X i b) * ∑ j ∈ range p, colR X i j * (a' j - nth a j)
          = star (colR X i b) * lsRes (col0 X) (colR X) p a' i
            - star (colR X i b) * lsRes (col0 X) (colR X) p (nth a) i := by
      intro i _
      rw [lsRes_add_diff (col0 X) (colR X) p (nth a) a' i]
      unfold lsDiff
      ring
    rw [Finset.sum_congr rfl e1, Finset.sum_sub_distrib, hn b hb, h' b hb, sub_zero])
  intro j hj
  exact sub_eq_zero.mp (key j hj)

omit [LawfulIsZero K] in
/-- `lsFit` returns `p` coefficients -/
theorem lsFit_length' {X : Mat K} {rows p : ℕ} {a : List K} {e : K}
    (h : lsFit X rows p = some (a, e)) : a.length = p := by
  have h1 := (lsFit_eq_some h).1
  rw [lstsq_unfold] at h1
  unfold solveVec at h1
  simp only [Option.map_eq_some_iff] at h1
  obtain ⟨Y, _, rfl⟩ := h1
  exact vec_length _ _

end CompleteStar

/-- two coefficient lists of length `p` that agree entry-wise are equal -/
theorem list_eq_of_nth_eq {K : Type} [Zero K] {p : ℕ} {a a' : List K} (hl : a.length = p)
    (hl' : a'.length = p) (h : ∀ j, j < p → nth a' j = nth a j) : a' = a := by
  apply List.ext_getElem (by rw [hl, hl'])
  intro j h1 h2
  rw [← nth_of_lt a' j h1, ← nth_of_lt a j h2]
  exact h j (by omega)

/-! ### non-vacuity: a system that needs a row swap, over `ℚ` -/
section Examples

/-- the zero test `decide (x = 0)` is lawful -/
theorem lawful_decide {K : Type} [Zero K] [DecidableEq K] :
    @LawfulIsZero K _ ⟨fun x => decide (x = 0)⟩ :=
  @LawfulIsZero.mk K _ ⟨fun x => decide (x = 0)⟩ (fun _ => decide_eq_true_iff)

local instance ratIsZeroGJ : IsZero ℚ := ⟨fun q => decide (q = 0)⟩
local instance : LawfulIsZero ℚ := lawful_decide

/-- `[[0,1],[1,1]] v = [2,3]`: the pivot search skips row 0 (zero entry), swaps, and returns `v = [1,2]`;
a singular matrix is rejected; a `3 × 3` inverse needing two swaps. -/
example :
    solveVec ([[0, 1], [1, 1]] : Mat ℚ) [2, 3] 2 = some [1, 2] ∧
    gjStep 2 3 ([[0, 1, 2], [1, 1, 3]] : Mat ℚ) 0 = some [[1, 1, 3], [0, 1, 2]] ∧
    solveVec ([[1, 2], [2, 4]] : Mat ℚ) [1, 1] 2 = none ∧
    inverse ([[0, 0, 2], [0, 1, 0], [4, 0, 0]] : Mat ℚ) 3
      = some [[0, 0, 1 / 4], [0, 1, 0], [1 / 2, 0, 0]] := by
  decide +kernel

/-- the conclusion of `solveVec_sound` on that system, obtained from the theorem -/
example : ∀ i, i < 2 →
    ∑ k ∈ range 2, mentryM ([[0, 1], [1, 1]] : Mat ℚ) i k * nth ([1, 2] : List ℚ) k
      = nth ([2, 3] : List ℚ) i :=
  solveVec_sound (by decide +kernel)

end Examples

end SpecVerif.GJL
