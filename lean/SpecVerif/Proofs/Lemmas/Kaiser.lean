import SpecVerif.Proofs.Lemmas.Window
import Mathlib.Data.Nat.Factorial.Basic
import Mathlib.Algebra.BigOperators.Intervals
import Mathlib.Algebra.Order.BigOperators.Group.Finset
/-
  Helper lemmas for the Kaiser and Taylor windows of `Model/Window.lean` at `R := ℝ`
  (instance `instRealFnReal`).

  * `besselI0` (the model's 60-step fold) is the partial sum `Σ_{k ≤ 60} q^k / (k!)²`, `q = x²/4`;
    it is `≥ 1`, even, and monotone in `|x|`.
  * the Kaiser sample formula, its range, and its centre value.
  * the Taylor window written with named `W` / `scale` (definitional unfolding of the model).
-/
namespace SpecVerif.KaiserL
open Finset SpecVerif SpecVerif.WinL

theorem sqrt_real (x : ℝ) : RealFn.sqrt x = Real.sqrt x := rfl

/-! ### the power series partial sum -/

/-- `Σ_{k ≤ 60} q^k / (k!)²` -/
noncomputable def i0poly (q : ℝ) : ℝ := ∑ k ∈ range 61, q ^ k / ((k.factorial : ℝ)) ^ 2

/-- the step function of the model's fold -/
noncomputable def i0step (q : ℝ) (acc : ℝ × ℝ) (k : ℕ) : ℝ × ℝ :=
  (acc.1 + acc.2 * q / ((((k + 1) * (k + 1) : ℕ)) : ℝ), acc.2 * q / ((((k + 1) * (k + 1) : ℕ)) : ℝ))

theorem i0term_succ (q : ℝ) (n : ℕ) :
    q ^ n / ((n.factorial : ℝ)) ^ 2 * q / ((((n + 1) * (n + 1) : ℕ)) : ℝ)
      = q ^ (n + 1) / (((n + 1).factorial : ℝ)) ^ 2 := by
  have h1 : ((n.factorial : ℕ) : ℝ) ≠ 0 := by exact_mod_cast n.factorial_ne_zero
  have h2 : ((n : ℝ) + 1) ≠ 0 := by positivity
  rw [Nat.factorial_succ]
  push_cast
  field_simp
  ring

/-- fold invariant: after `n` steps the state is `(Σ_{k ≤ n} q^k/(k!)², q^n/(n!)²)` -/
theorem i0fold (q : ℝ) (n : ℕ) :
    (List.range n).foldl (i0step q) ((1 : ℝ), (1 : ℝ))
      = (∑ k ∈ range (n + 1), q ^ k / ((k.factorial : ℝ)) ^ 2, q ^ n / ((n.factorial : ℝ)) ^ 2) := by
  induction n with
  | zero => simp
  | succ n ih =>
    rw [List.range_succ, List.foldl_append, ih]
    simp only [List.foldl_cons, List.foldl_nil, i0step]
    rw [i0term_succ, Finset.sum_range_succ _ (n + 1)]

/-- the model's `besselI0` is the 61-term partial sum of `Σ (x²/4)^k / (k!)²` -/
theorem besselI0_eq (x : ℝ) : besselI0 x = i0poly (x * x / 4) := by
  show ((List.range 60).foldl (i0step (x * x / ((4 : ℕ) : ℝ))) ((1 : ℝ), (1 : ℝ))).1 = _
  rw [i0fold]
  have e4 : (((4 : ℕ) : ℝ)) = 4 := by norm_num
  rw [e4]
  rfl

theorem mul_self_div_four_nonneg (x : ℝ) : 0 ≤ x * x / 4 :=
  div_nonneg (mul_self_nonneg x) (by norm_num)

theorem i0poly_term_nonneg (q : ℝ) (hq : 0 ≤ q) (k : ℕ) : 0 ≤ q ^ k / ((k.factorial : ℝ)) ^ 2 := by
  positivity

theorem i0poly_ge_one (q : ℝ) (hq : 0 ≤ q) : 1 ≤ i0poly q := by
  unfold i0poly
  have h := Finset.single_le_sum (f := fun k => q ^ k / ((k.factorial : ℝ)) ^ 2)
    (fun k _ => i0poly_term_nonneg q hq k) (Finset.mem_range.mpr (by norm_num : 0 < 61))
  simpa using h

theorem i0poly_mono (p q : ℝ) (hp : 0 ≤ p) (hpq : p ≤ q) : i0poly p ≤ i0poly q := by
  unfold i0poly
  refine Finset.sum_le_sum (fun k _ => ?_)
  have : p ^ k ≤ q ^ k := pow_le_pow_left₀ hp hpq k
  exact div_le_div_of_nonneg_right this (by positivity)

theorem i0poly_zero : i0poly 0 = 1 := by
  unfold i0poly
  rw [Finset.sum_eq_single 0]
  · simp
  · intro k _ hk
    rw [zero_pow hk, zero_div]
  · intro h
    exact absurd (Finset.mem_range.mpr (by norm_num : 0 < 61)) h

/-! ### `besselI0` facts -/

theorem besselI0_ge_one (x : ℝ) : 1 ≤ besselI0 x := by
  rw [besselI0_eq]
  exact i0poly_ge_one _ (mul_self_div_four_nonneg x)

theorem besselI0_pos (x : ℝ) : 0 < besselI0 x := lt_of_lt_of_le one_pos (besselI0_ge_one x)

theorem besselI0_ne_zero (x : ℝ) : besselI0 x ≠ 0 := (besselI0_pos x).ne'

theorem besselI0_zero : besselI0 (0 : ℝ) = 1 := by
  rw [besselI0_eq]
  simp [i0poly_zero]

theorem besselI0_neg (x : ℝ) : besselI0 (-x) = besselI0 x := by
  rw [besselI0_eq, besselI0_eq, neg_mul_neg]

theorem besselI0_abs (x : ℝ) : besselI0 |x| = besselI0 x := by
  rw [besselI0_eq, besselI0_eq, abs_mul_abs_self]

/-- monotone in `|x|` -/
theorem besselI0_mono (x y : ℝ) (h : |x| ≤ |y|) : besselI0 x ≤ besselI0 y := by
  rw [besselI0_eq, besselI0_eq]
  apply i0poly_mono
  · exact mul_self_div_four_nonneg x
  · have := mul_self_le_mul_self (abs_nonneg x) h
    rw [abs_mul_abs_self, abs_mul_abs_self] at this
    linarith

/-! ### the Kaiser sample -/

/-- the abscissa `u = 2n/(N-1) − 1` lies in `[−1, 1]` for `n ≤ N−1`, `N ≥ 2` -/
theorem kaiser_u_range (N n : ℕ) (h : 2 ≤ N) (hn : n < N) :
    -1 ≤ (two : ℝ) * (n : ℝ) / ((N - 1 : ℕ) : ℝ) - 1 ∧ (two : ℝ) * (n : ℝ) / ((N - 1 : ℕ) : ℝ) - 1 ≤ 1 := by
  have hp := cast_pred_pos N h
  have hle : (n : ℝ) ≤ ((N - 1 : ℕ) : ℝ) := by exact_mod_cast (by omega : n ≤ N - 1)
  have h0 : (0 : ℝ) ≤ (n : ℝ) := Nat.cast_nonneg n
  have q0 : 0 ≤ (n : ℝ) / ((N - 1 : ℕ) : ℝ) := div_nonneg h0 hp.le
  have q1 : (n : ℝ) / ((N - 1 : ℕ) : ℝ) ≤ 1 := (div_le_one hp).mpr hle
  rw [two_real, mul_div_assoc]
  constructor <;> linarith

/-- so the radicand `1 − u²` lies in `[0, 1]`: the square root in the model is a genuine one -/
theorem kaiser_radicand_range (N n : ℕ) (h : 2 ≤ N) (hn : n < N) :
    let u := (two : ℝ) * (n : ℝ) / ((N - 1 : ℕ) : ℝ) - 1
    0 ≤ 1 - u * u ∧ 1 - u * u ≤ 1 := by
  intro u
  obtain ⟨h1, h2⟩ := kaiser_u_range N n h hn
  constructor
  · nlinarith
  · nlinarith [mul_self_nonneg u]

/-- `|β·sqrt r| ≤ |β|` for `0 ≤ r ≤ 1` -/
theorem abs_mul_sqrt_le (beta r : ℝ) (h1 : r ≤ 1) : |beta * Real.sqrt r| ≤ |beta| := by
  rw [abs_mul, abs_of_nonneg (Real.sqrt_nonneg r)]
  have : Real.sqrt r ≤ 1 := by
    rw [← Real.sqrt_one]
    exact Real.sqrt_le_sqrt h1
  exact mul_le_of_le_one_right (abs_nonneg _) this

theorem kaiser_sample_le_one (N : ℕ) (beta : ℝ) (n : ℕ) (h : 2 ≤ N) (hn : n < N) :
    besselI0 (beta * RealFn.sqrt (1 - ((two : ℝ) * (n : ℝ) / ((N - 1 : ℕ) : ℝ) - 1)
        * ((two : ℝ) * (n : ℝ) / ((N - 1 : ℕ) : ℝ) - 1))) / besselI0 beta ≤ 1 := by
  rw [div_le_one (besselI0_pos beta), sqrt_real]
  exact besselI0_mono _ _ (abs_mul_sqrt_le beta _ (kaiser_radicand_range N n h hn).2)

theorem kaiser_sample_pos (beta y : ℝ) : 0 < besselI0 y / besselI0 beta :=
  div_pos (besselI0_pos y) (besselI0_pos beta)

/-- lower bound: every Kaiser sample is `≥ 1 / I₀(β)` (attained at the end points, where `u = ±1`) -/
theorem kaiser_sample_ge (beta y : ℝ) : 1 / besselI0 beta ≤ besselI0 y / besselI0 beta :=
  div_le_div_of_nonneg_right (besselI0_ge_one y) (besselI0_pos beta).le

theorem kaiser_u_centre (N : ℕ) (h3 : 3 ≤ N) (hodd : N % 2 = 1) :
    (two : ℝ) * ((((N - 1) / 2 : ℕ)) : ℝ) / ((N - 1 : ℕ) : ℝ) - 1 = 0 := by
  rw [cast_half N hodd, two_real]
  have := cast_pred_ne N (by omega)
  field_simp
  ring

theorem kaiser_u_first (N : ℕ) :
    (two : ℝ) * ((0 : ℕ) : ℝ) / ((N - 1 : ℕ) : ℝ) - 1 = -1 := by
  simp

/-! ### the Taylor window with named `W` and `scale` -/

/-- the model's inner function `W` of `wTaylor` (verbatim) -/
noncomputable def taylorW (N nbar : ℕ) (sll : ℝ) : ℝ → ℝ :=
  let B := RealFn.exp (RealFn.log ((10 : Nat) : ℝ) * (-sll / ((20 : Nat) : ℝ)))
  let A := RealFn.log (B + RealFn.sqrt (B * B - 1)) / RealFn.pi
  let nb : ℝ := (nbar : ℝ)
  let s2 := nb * nb / (A * A + (nb - dec 5 1) * (nb - dec 5 1))
  let ma : List Nat := (List.range (nbar - 1)).map (fun i => i + 1)
  let Fm := fun (m : Nat) =>
    let mm : ℝ := (m : ℝ)
    let numer := (if (m + 1) % 2 = 0 then (1 : ℝ) else -1) *
      ma.foldl (fun (acc : ℝ) (j : Nat) => acc * (1 - mm * mm / s2 / (A * A + ((j : ℝ) - dec 5 1) * ((j : ℝ) - dec 5 1)))) 1
    let denom := two * ma.foldl (fun (acc : ℝ) (j : Nat) => if j = m then acc else acc * (1 - mm * mm / ((j : ℝ) * (j : ℝ)))) 1
    numer / denom
  fun (x : ℝ) =>
    two * ma.foldl (fun (acc : ℝ) (m : Nat) => acc + Fm m * RealFn.cos (two * RealFn.pi * (m : ℝ) * (x - (N : ℝ) / two + dec 5 1) / (N : ℝ))) 0 + 1

/-- the model's normalising constant `scale = W((N-1)/2)` of `wTaylor` -/
noncomputable def taylorScale (N nbar : ℕ) (sll : ℝ) : ℝ := taylorW N nbar sll (((N - 1 : Nat) : ℝ) / two)

/-- `wTaylor` is `W(n)/scale` with the two named pieces (definitional) -/
theorem wTaylor_eq (N nbar : ℕ) (sll : ℝ) :
    wTaylor N nbar sll = vec N (fun n => taylorW N nbar sll (n : ℝ) / taylorScale N nbar sll) := rfl

/-- with `nbar = 1` there are no cosine terms: `W ≡ 1`, so `scale = 1 ≠ 0` -/
theorem taylorScale_nbar_one (N : ℕ) (sll : ℝ) : taylorScale N 1 sll = 1 := by
  simp [taylorScale, taylorW]

end SpecVerif.KaiserL
