import SpecVerif.Proofs.Lemmas.Basic
import SpecVerif.Proofs.Lemmas.DFT
import SpecVerif.Proofs.Lemmas.Arma
import SpecVerif.Proofs.Lemmas.Mtm
import SpecVerif.Proofs.Lemmas.Correlation
import SpecVerif.Proofs.Lemmas.Levinson
import SpecVerif.Proofs.Lemmas.LinPred
import SpecVerif.Proofs.Lemmas.Burg
import SpecVerif.Proofs.Lemmas.LeastSquares
import SpecVerif.Model.Periodogram
import SpecVerif.Model.Estimators
import SpecVerif.Model.Burg
import SpecVerif.Model.Criteria
import SpecVerif.Model.Minvar
import SpecVerif.Model.Eigen
import SpecVerif.Model.ClassGlue
import Mathlib.Algebra.BigOperators.Field
import Mathlib.Data.Real.Star
import Mathlib.Analysis.RCLike.Basic
import Mathlib.Analysis.SpecialFunctions.Log.Basic
import Mathlib.Tactic.FieldSimp
import Mathlib.Tactic.Ring
/-
  Helper lemmas for C03 (amplitude equivariance): how every stage of the executable model reacts when
  the data are multiplied by a scalar `c` (`x.map (c * ·)`), with `s = c * star c` (`= |c|²`).
-/
namespace SpecVerif.ScaleL
open Finset SpecVerif SpecVerif.ArmaL SpecVerif.MtmL

/-! ### the scalar `s = c · conj c` -/
section Scalar
variable {K : Type} [Field K] [StarRing K]

/-- `|c|² = c · conj c` is self-adjoint -/
theorem star_mul_star_self (c : K) : star (c * star c) = c * star c := by
  rw [star_mul', star_star, mul_comm]

theorem mul_star_self_ne_zero {c : K} (hc : c ≠ 0) : c * star c ≠ 0 :=
  mul_ne_zero hc (star_ne_zero.mpr hc)

/-- the real part commutes with multiplication by a self-adjoint scalar -/
theorem rePart_mul_selfadjoint {s : K} (hs : star s = s) (z : K) : rePart (s * z) = s * rePart z := by
  unfold rePart
  rw [conj_eq_star, conj_eq_star, star_mul', hs]
  ring

/-- the real part commutes with division by a self-adjoint scalar -/
theorem rePart_div_selfadjoint {s : K} (hs : star s = s) (z : K) : rePart (z / s) = rePart z / s := by
  unfold rePart
  rw [conj_eq_star, conj_eq_star, star_div₀, hs]
  ring

end Scalar

/-! ### DFT and periodogram -/
section DFT
variable {K : Type} [Field K]

theorem length_smul (c : K) (x : List K) : (x.map (fun v => c * v)).length = x.length :=
  List.length_map _

/-- `dftBin` is homogeneous in the data (any table) -/
theorem dftBin_map_mul (tw : List K) (n : ℕ) (c : K) (x : List K) (k : ℕ) :
    dftBin tw n (x.map (fun v => c * v)) k = c * dftBin tw n x k := by
  unfold dftBin
  simp only [List.length_map, sumR_eq_sum]
  rw [Finset.mul_sum]
  apply Finset.sum_congr rfl
  intro j _
  rw [nth_map_mul_left]
  ring

theorem dftBin_map_div (tw : List K) (n : ℕ) (c : K) (x : List K) (k : ℕ) :
    dftBin tw n (x.map (fun v => v / c)) k = dftBin tw n x k / c := by
  unfold dftBin
  simp only [List.length_map, sumR_eq_sum]
  rw [Finset.sum_div]
  apply Finset.sum_congr rfl
  intro j _
  rw [nth_map_div]
  ring

variable [StarRing K]

theorem speriodogram_smul (tw x w : List K) (nfft : ℕ) (isReal : Bool) (c : K) :
    speriodogram tw (x.map (fun v => c * v)) w nfft isReal
      = (speriodogram tw x w nfft isReal).map (fun v => (c * star c) * v) := by
  unfold speriodogram
  simp only [List.length_map]
  rw [map_vec]
  apply vec_ext
  intro k _
  have h : (vec x.length fun j => nth (x.map (fun v => c * v)) j * nth w j)
      = vec x.length (fun j => c * (nth x j * nth w j)) := by
    apply vec_ext
    intro j _
    rw [nth_map_mul_left]
    ring
  rw [h, dftBin_smul, abs2_eq, abs2_eq, star_mul']
  ring

end DFT

/-! ### correlation -/
section Corr
variable {K : Type} [Field K] [StarRing K]

theorem corrRaw_smul (c : K) (x y : List K) (n k : ℕ) :
    corrRaw (x.map (fun v => c * v)) (y.map (fun v => c * v)) n k = (c * star c) * corrRaw x y n k := by
  rw [corrRaw_eq, corrRaw_eq, Finset.mul_sum]
  apply Finset.sum_congr rfl
  intro j _
  rw [nth_map_mul_left, nth_map_mul_left, star_mul']
  ring

theorem meanPow_smul (c : K) (x : List K) (n : ℕ) :
    meanPow (x.map (fun v => c * v)) n = (c * star c) * meanPow x n := by
  rw [meanPow_eq, meanPow_eq, ← mul_div_assoc, Finset.mul_sum]
  congr 1
  apply Finset.sum_congr rfl
  intro j _
  rw [nth_map_mul_left, star_mul']
  ring

/-- biased / unbiased / unnormalised correlation lags scale by `|c|²` -/
theorem correlation_smul (c : K) (x y : List K) (L : ℕ) (norm : Norm) (hn : norm ≠ .coeff) (rms2 : K) :
    correlation (x.map (fun v => c * v)) (y.map (fun v => c * v)) L norm rms2
      = (correlation x y L norm rms2).map (fun v => (c * star c) * v) := by
  unfold correlation
  simp only [List.length_map]
  rw [map_vec]
  apply vec_ext
  intro k _
  simp only [corrRaw_smul]
  cases norm with
  | biased => simp only []; ring
  | unbiased => simp only []; ring
  | none => simp only []
  | coeff => exact absurd rfl hn

/-- coefficient-normalised correlation: invariant when `rms2` is scaled with the data -/
theorem correlation_smul_coeff {c : K} (hc : c ≠ 0) (x y : List K) (L : ℕ) (rms2 : K) :
    correlation (x.map (fun v => c * v)) (y.map (fun v => c * v)) L .coeff ((c * star c) * rms2)
      = correlation x y L .coeff rms2 := by
  unfold correlation
  simp only [List.length_map]
  apply vec_ext
  intro k _
  simp only [corrRaw_smul]
  by_cases hk : k = 0
  · simp only [hk, if_true]
  · simp only [hk, if_false]
    rw [mul_div_mul_left _ _ (mul_star_self_ne_zero hc)]

/-- `xcorr` (lags `-L..L`) with biased / unbiased / no normalisation scales by `|c|²` -/
theorem xcorr_smul (c : K) (x y : List K) (L : ℕ) (norm : Norm) (hn : norm ≠ .coeff) (rms2 : K) :
    xcorr (x.map (fun v => c * v)) (y.map (fun v => c * v)) L norm rms2
      = (xcorr x y L norm rms2).map (fun v => (c * star c) * v) := by
  unfold xcorr
  simp only [List.length_map]
  rw [map_vec]
  apply vec_ext
  intro i _
  simp only [corrRaw_smul, conj_eq_star, star_mul', star_star, mul_comm (star c) c]
  cases norm with
  | biased => split_ifs <;> simp only [] <;> ring
  | unbiased => split_ifs <;> simp only [] <;> ring
  | none => split_ifs <;> simp only []
  | coeff => exact absurd rfl hn

theorem correlogramSeq_smul {s : K} (hs : star s = s) (rxy ryx w : List K) (lag nfft : ℕ) :
    correlogramSeq (rxy.map (fun v => s * v)) (ryx.map (fun v => s * v)) w lag nfft
      = vec nfft (fun i => s * nth (correlogramSeq rxy ryx w lag nfft) i) := by
  unfold correlogramSeq
  apply vec_ext
  intro i hi
  rw [nth_vec, if_pos hi]
  simp only [nth_map_mul_left, conj_eq_star, star_mul', hs]
  split_ifs <;> ring

theorem correlogramPsd_smul {s : K} (hs : star s = s) (tw rxy ryx w : List K) (lag nfft : ℕ) :
    correlogramPsd tw (rxy.map (fun v => s * v)) (ryx.map (fun v => s * v)) w lag nfft
      = (correlogramPsd tw rxy ryx w lag nfft).map (fun v => s * v) := by
  unfold correlogramPsd
  simp only []
  rw [map_vec]
  apply vec_ext
  intro k _
  rw [correlogramSeq_smul hs, dftBin_smul, rePart_mul_selfadjoint hs]
  congr 3
  unfold correlogramSeq
  apply vec_ext
  intro i hi
  rw [nth_vec, if_pos hi]

end Corr

/-! ### Levinson recursion -/
section Lev
variable {K : Type} [Field K] [StarRing K]

/-- a Levinson state with its error multiplied by `t` -/
def scaleLev (t : K) (st : LevState K) : LevState K := { A := st.A, P := t * st.P, ref := st.ref }

theorem levStep_smul {t : K} (ht : t ≠ 0) (T : List K) (st : LevState K) (k : ℕ) :
    levStep (T.map (fun v => t * v)) (scaleLev t st) k = scaleLev t (levStep T st k) := by
  have hsave : nth (T.map (fun v => t * v)) k
        + sumR k (fun j => nth st.A j * nth (T.map (fun v => t * v)) (k - j - 1))
      = t * (nth T k + sumR k (fun j => nth st.A j * nth T (k - j - 1))) := by
    rw [sumR_eq_sum, sumR_eq_sum, nth_map_mul_left, mul_add, Finset.mul_sum]
    congr 1
    apply Finset.sum_congr rfl
    intro j _
    rw [nth_map_mul_left]
    ring
  unfold levStep scaleLev
  simp only [hsave]
  rw [neg_mul_eq_mul_neg, mul_div_mul_left _ _ ht, mul_assoc]

theorem levRun_smul {t : K} (ht : t ≠ 0) (r0 : K) (T : List K) (k : ℕ) :
    levRun (t * r0) (T.map (fun v => t * v)) k = scaleLev t (levRun r0 T k) := by
  induction k with
  | zero => rfl
  | succ k ih => rw [levRun_succ, ih, levStep_smul ht, ← levRun_succ]

theorem levinson_smul [ReOrd K] {t : K} (ht : t ≠ 0) (hre : ∀ z : K, reLe0 (t * z) = reLe0 z)
    (r0 : K) (T : List K) (order : ℕ) (allow : Bool) :
    levinson (t * r0) (T.map (fun v => t * v)) order allow
      = (levinson r0 T order allow).map (scaleLev t) := by
  unfold levinson
  simp only [List.length_map, levRun_smul ht]
  have hP : ∀ j, reLe0 (scaleLev t (levRun r0 T (j + 1))).P = reLe0 (levRun r0 T (j + 1)).P :=
    fun j => hre _
  simp only [hP]
  split_ifs <;> rfl

end Lev

/-! ### Yule–Walker and MA estimators -/
section Yule
variable {K : Type} [Field K] [StarRing K]

theorem aryule_smul {c : K} (hc : c ≠ 0) (x : List K) (p : ℕ) (norm : Norm) (hn : norm ≠ .coeff) :
    aryule (x.map (fun v => c * v)) p norm = scaleLev (c * star c) (aryule x p norm) := by
  unfold aryule
  simp only []
  rw [correlation_smul c x x p norm hn 1, nth_map_mul_left,
    rePart_mul_selfadjoint (star_mul_star_self c), List.map_tail.symm,
    levRun_smul (mul_star_self_ne_zero hc)]

theorem maEstimate_smul {c : K} (hc : c ≠ 0) (x : List K) (Q M : ℕ) :
    maEstimate (x.map (fun v => c * v)) Q M
      = (maEstimate x Q M).map (fun bv => (bv.1, (c * star c) * bv.2)) := by
  unfold maEstimate
  simp only [aryule_smul hc x M .biased (by decide)]
  split_ifs <;> rfl

end Yule

/-! ### Burg recursion -/
section Burg
variable {K : Type} [Field K] [StarRing K]

/-- a Burg state for the data `c·x`: errors multiplied by `c`, variances by `s`, coefficients unchanged -/
def scaleBurg (c s : K) (st : BurgState K) : BurgState K :=
  { a := st.a, rho := s * st.rho, ref := st.ref, ef := st.ef.map (fun v => c * v),
    eb := st.eb.map (fun v => c * v), den := s * st.den, temp := st.temp }

theorem burgInit_smul (c : K) (x : List K) :
    burgInit (x.map (fun v => c * v)) = scaleBurg c (c * star c) (burgInit x) := by
  unfold burgInit scaleBurg
  simp only [List.length_map]
  have h : sumR x.length (fun j => abs2 (nth (x.map (fun v => c * v)) j)) / (x.length : K)
      = c * star c * (sumR x.length (fun j => abs2 (nth x j)) / (x.length : K)) := by
    rw [sumR_eq_sum, sumR_eq_sum, ← mul_div_assoc, Finset.mul_sum]
    congr 1
    apply Finset.sum_congr rfl
    intro j _
    rw [nth_map_mul_left, abs2_eq, abs2_eq, star_mul']
    ring
  rw [h]
  simp only [BurgState.mk.injEq, true_and, and_true]
  ring

theorem burgK_smul {c : K} (hc : c ≠ 0) (st : BurgState K) (N k : ℕ) :
    burgK (scaleBurg c (c * star c) st) N k = ((burgK st N k).1, (c * star c) * (burgK st N k).2) := by
  have hs := mul_star_self_ne_zero hc
  unfold burgK scaleBurg
  simp only [nth_map_mul_left, abs2_eq, conj_eq_star, star_mul', sumR_eq_sum]
  have hnum : ∑ i ∈ range (N - k - 1), c * nth st.ef (i + k + 1) * (star c * star (nth st.eb (i + k)))
      = (c * star c) * ∑ i ∈ range (N - k - 1), nth st.ef (i + k + 1) * star (nth st.eb (i + k)) := by
    rw [Finset.mul_sum]
    apply Finset.sum_congr rfl
    intro i _
    ring
  have hden : st.temp * (c * star c * st.den) - c * nth st.ef k * (star c * star (nth st.ef k))
        - c * nth st.eb (N - 1) * (star c * star (nth st.eb (N - 1)))
      = (c * star c) * (st.temp * st.den - nth st.ef k * star (nth st.ef k)
          - nth st.eb (N - 1) * star (nth st.eb (N - 1))) := by
    ring
  rw [hnum, hden, mul_left_comm, mul_div_mul_left _ _ hs]

theorem burgStep_smul {c : K} (hc : c ≠ 0) (st : BurgState K) (N k : ℕ) :
    burgStep (scaleBurg c (c * star c) st) N k = scaleBurg c (c * star c) (burgStep st N k) := by
  unfold burgStep
  simp only [burgK_smul hc]
  unfold scaleBurg
  simp only [BurgState.mk.injEq, true_and, and_true, map_vec, nth_map_mul_left]
  refine ⟨by ring, ?_, ?_⟩
  · apply vec_ext
    intro j _
    split_ifs <;> ring
  · apply vec_ext
    intro j _
    split_ifs <;> ring

theorem burgRun_smul {c : K} (hc : c ≠ 0) (x : List K) (k : ℕ) :
    burgRun (x.map (fun v => c * v)) k = scaleBurg c (c * star c) (burgRun x k) := by
  induction k with
  | zero => exact burgInit_smul c x
  | succ k ih =>
    rw [BurgL.burgRun_succ, ih, List.length_map, burgStep_smul hc, ← BurgL.burgRun_succ]

theorem burgOrder_smul {c : K} (hc : c ≠ 0) (stop stop' : ℕ → K → Bool)
    (hstop : ∀ k ρ, stop' k ((c * star c) * ρ) = stop k ρ) (x : List K) (order : ℕ) :
    burgOrder stop' (x.map (fun v => c * v)) order = burgOrder stop x order := by
  unfold burgOrder
  have h : (fun k => stop' (k + 1) (burgRun (x.map (fun v => c * v)) (k + 1)).rho)
      = (fun k => stop (k + 1) (burgRun x (k + 1)).rho) := by
    funext k
    rw [burgRun_smul hc]
    exact hstop _ _
  rw [h]

theorem arburg_smul [ReOrd K] {c : K} (hc : c ≠ 0) (stop stop' : ℕ → K → Bool)
    (hstop : ∀ k ρ, stop' k ((c * star c) * ρ) = stop k ρ)
    (hre : ∀ z : K, reLe0 ((c * star c) * z) = reLe0 z) (x : List K) (order : ℕ) (useCrit : Bool) :
    arburg (x.map (fun v => c * v)) order useCrit stop'
      = (arburg x order useCrit stop).map (scaleBurg c (c * star c)) := by
  unfold arburg
  simp only [List.length_map, burgOrder_smul hc stop stop' hstop, burgRun_smul hc]
  have hP : ∀ j, reLe0 (scaleBurg c (c * star c) (burgRun x (j + 1))).rho
      = reLe0 (burgRun x (j + 1)).rho := fun j => hre _
  simp only [hP]
  split_ifs <;> rfl

end Burg

/-! ### order-selection criteria over `ℝ` -/
section Crit

/-- the amount by which criterion `c` moves when the variance is multiplied by `t`
    (`N·log t` for AIC and MDL, `log t` for AICc, KIC, AKICc; FPE is multiplicative, not additive) -/
noncomputable def critShift (c : Crit) (N : ℕ) (t : ℝ) : ℝ :=
  match c with
  | .AIC => (N : ℝ) * Real.log t
  | .MDL => (N : ℝ) * Real.log t
  | .AICc => Real.log t
  | .KIC => Real.log t
  | .AKICc => Real.log t
  | .FPE => 0

theorem critValue_log_smul (c : Crit) (hc : c ≠ .FPE) (N : ℕ) {t ρ : ℝ} (ht : 0 < t) (hρ : 0 < ρ)
    (k : ℕ) : critValue c N (t * ρ) k = critValue c N ρ k + critShift c N t := by
  cases c <;>
    first
    | exact absurd rfl hc
    | (simp only [critValue, critShift, RealFn.log, Real.log_mul ht.ne' hρ.ne']; ring)

theorem critValue_FPE_smul (N : ℕ) (t ρ : ℝ) (k : ℕ) :
    critValue .FPE N (t * ρ) k = t * critValue .FPE N ρ k := by
  simp only [critValue]
  ring

theorem critStops_smul (c : Crit) (N : ℕ) {t ρ₁ ρ₂ : ℝ} (ht : 0 < t) (h₁ : 0 < ρ₁) (h₂ : 0 < ρ₂)
    (k : ℕ) : critStops c N (t * ρ₁) (t * ρ₂) k = critStops c N ρ₁ ρ₂ k := by
  unfold critStops
  simp only [RealFn.lt]
  by_cases hc : c = .FPE
  · subst hc
    rw [critValue_FPE_smul, critValue_FPE_smul, decide_eq_decide]
    exact mul_lt_mul_iff_right₀ ht
  · rw [critValue_log_smul c hc N ht h₁, critValue_log_smul c hc N ht h₂, decide_eq_decide]
    exact add_lt_add_iff_right _

end Crit

/-! ### class glue: every `__call__` is entry-wise linear in the raw estimate -/
section Glue
variable {K : Type} [Field K]

theorem takeReal_map_mul (t : K) (raw : List K) (n : ℕ) :
    takeReal (raw.map (fun v => t * v)) n = (takeReal raw n).map (fun v => t * v) := by
  unfold takeReal
  rw [map_vec]
  apply vec_ext
  intro i _
  rw [nth_map_mul_left]

theorem ifftshift_map_mul (t : K) (raw : List K) :
    ifftshift (raw.map (fun v => t * v)) = (ifftshift raw).map (fun v => t * v) := by
  unfold ifftshift
  simp only [List.length_map]
  rw [map_vec]
  apply vec_ext
  intro i _
  rw [nth_map_mul_left]

theorem eigenClassFold_map_mul (t : K) (raw : List K) (isReal : Bool) (n : ℕ) :
    eigenClassFold (raw.map (fun v => t * v)) isReal n
      = (eigenClassFold raw isReal n).map (fun v => t * v) := by
  unfold eigenClassFold
  cases isReal
  · simp only [Bool.false_eq_true, if_false]
    exact ifftshift_map_mul t raw
  · simp only [if_true]
    rw [map_vec]
    apply vec_ext
    intro i _
    rw [nth_map_mul_left]
    ring

theorem scalePsd_map_mul (t : K) (psd : List K) (sbf : Bool) (twoPi fs : K) (n : ℕ) :
    scalePsd (psd.map (fun v => t * v)) sbf twoPi fs n
      = (scalePsd psd sbf twoPi fs n).map (fun v => t * v) := by
  unfold scalePsd
  cases sbf
  · simp only [Bool.false_eq_true, if_false]
  · simp only [if_true, List.map_map]
    apply List.map_congr_left
    intro v _
    simp only [Function.comp]
    ring

theorem classCall_map_mul (t : K) (kind : GlueKind) (raw : List K) (isReal : Bool) (n : ℕ)
    (sbf : Bool) (twoPi fs : K) :
    classCall kind (raw.map (fun v => t * v)) isReal n sbf twoPi fs
      = (classCall kind raw isReal n sbf twoPi fs).map (fun v => t * v) := by
  unfold classCall
  simp only []
  rw [← scalePsd_map_mul]
  congr 1
  cases kind
  · cases isReal
    · simp
    · simp only [if_true]; exact foldReal_map_mul t raw n
  · cases isReal
    · simp
    · simp only [if_true]; exact takeReal_map_mul t raw n
  · exact eigenClassFold_map_mul t raw isReal n

theorem classPsd_map_mul (t : K) (raw : List K) (isReal : Bool) (n : ℕ) (sbf : Bool) (twoPi fs : K) :
    classPsd (raw.map (fun v => t * v)) isReal n sbf twoPi fs
      = (classPsd raw isReal n sbf twoPi fs).map (fun v => t * v) :=
  classCall_map_mul t .fold2 raw isReal n sbf twoPi fs

end Glue

/-! ### minimum variance -/
section Minvar
variable {K : Type} [Field K] [StarRing K]

/-- ψ is inversely proportional to the error power (for a self-adjoint factor) -/
theorem minvarPsi_smul {s : K} (hs : star s = s) (a : List K) (P : K) (nfft : ℕ) :
    minvarPsi a (s * P) nfft = (minvarPsi a P nfft).map (fun v => v / s) := by
  unfold minvarPsi
  simp only []
  rw [map_vec]
  apply vec_ext
  intro j _
  simp only [conj_eq_star, star_div₀, star_mul', hs]
  split_ifs
  · rw [mul_comm s P, div_mul_eq_div_div]
  · rw [mul_comm s (star P), div_mul_eq_div_div]
  · rw [zero_div]

theorem minvarPsd_smul {s : K} (hs : star s = s) (tw a : List K) (P fs : K) (nfft : ℕ) :
    minvarPsd tw a (s * P) fs nfft = (minvarPsd tw a P fs nfft).map (fun v => s * v) := by
  unfold minvarPsd
  simp only []
  rw [map_vec]
  apply vec_ext
  intro k _
  rw [minvarPsi_smul hs, dftBin_map_div, rePart_div_selfadjoint hs, div_div_eq_mul_div]
  ring

theorem minvar_smul {c : K} (hc : c ≠ 0) (tw x : List K) (m : ℕ) (fs : K) (nfft : ℕ) :
    minvar tw (x.map (fun v => c * v)) m fs nfft
      = { psd := (minvar tw x m fs nfft).psd.map (fun v => (c * star c) * v),
          ar := (minvar tw x m fs nfft).ar, ref := (minvar tw x m fs nfft).ref } := by
  unfold minvar
  simp only [burgRun_smul hc]
  unfold scaleBurg
  simp only [minvarPsd_smul (star_mul_star_self c)]

end Minvar

/-! ### least squares (covariance / modified covariance) -/
section LS
variable {K : Type} [Field K] [StarRing K]
open SpecVerif.LSL

omit [StarRing K] in
/-- rows scaled by factors `d i` (all of squared modulus `s`): residuals are scaled row by row -/
theorem lsRes_rowscale (d : ℕ → K) (X1 : ℕ → K) (Xc : ℕ → ℕ → K) (p : ℕ) (a : ℕ → K) (i : ℕ) :
    lsRes (fun i => d i * X1 i) (fun i j => d i * Xc i j) p a i = d i * lsRes X1 Xc p a i := by
  unfold lsRes
  rw [mul_add, Finset.mul_sum]
  congr 1
  apply Finset.sum_congr rfl
  intro j _
  ring

theorem normalEq_rowscale {s : K} (hs : s ≠ 0) (d : ℕ → K) (X1 : ℕ → K) (Xc : ℕ → ℕ → K) (r p : ℕ)
    (hd : ∀ i, i < r → d i * star (d i) = s) (a : ℕ → K) :
    NormalEq (fun i => d i * X1 i) (fun i j => d i * Xc i j) r p a ↔ NormalEq X1 Xc r p a := by
  unfold NormalEq
  apply forall_congr'
  intro b
  apply imp_congr_right
  intro _
  have : ∑ i ∈ range r, star (d i * Xc i b)
        * lsRes (fun i => d i * X1 i) (fun i j => d i * Xc i j) p a i
      = s * ∑ i ∈ range r, star (Xc i b) * lsRes X1 Xc p a i := by
    rw [Finset.mul_sum]
    apply Finset.sum_congr rfl
    intro i hi
    rw [lsRes_rowscale, star_mul', ← hd i (mem_range.mp hi)]
    ring
  rw [this, mul_eq_zero]
  exact ⟨fun h => h.resolve_left hs, Or.inr⟩

theorem lsEnergy_rowscale {s : K} (d : ℕ → K) (X1 : ℕ → K) (Xc : ℕ → ℕ → K) (r p : ℕ)
    (hd : ∀ i, i < r → d i * star (d i) = s) (a : ℕ → K) :
    lsEnergy (fun i => d i * X1 i) (fun i j => d i * Xc i j) r p a = s * lsEnergy X1 Xc r p a := by
  unfold lsEnergy
  rw [Finset.mul_sum]
  apply Finset.sum_congr rfl
  intro i hi
  rw [lsRes_rowscale, star_mul', ← hd i (mem_range.mp hi)]
  ring

omit [StarRing K] in
theorem fwdErr_smul (c : K) (x : List K) (p : ℕ) (a : ℕ → K) (t : ℕ) :
    fwdErr (x.map (fun v => c * v)) p a t = c * fwdErr x p a t := by
  unfold fwdErr
  rw [nth_map_mul_left, mul_add, Finset.mul_sum]
  congr 1
  apply Finset.sum_congr rfl
  intro j _
  rw [nth_map_mul_left]
  ring

theorem bwdErr_smul (c : K) (x : List K) (p : ℕ) (a : ℕ → K) (t : ℕ) :
    bwdErr (x.map (fun v => c * v)) p a t = c * bwdErr x p a t := by
  unfold bwdErr
  rw [nth_map_mul_left, mul_add, Finset.mul_sum]
  congr 1
  apply Finset.sum_congr rfl
  intro j _
  rw [nth_map_mul_left]
  ring

theorem fwdEnergy_smul (c : K) (x : List K) (p : ℕ) (a : ℕ → K) :
    fwdEnergy (x.map (fun v => c * v)) p a = (c * star c) * fwdEnergy x p a := by
  unfold fwdEnergy
  rw [List.length_map, Finset.mul_sum]
  apply Finset.sum_congr rfl
  intro t _
  rw [fwdErr_smul, star_mul']
  ring

theorem bwdEnergy_smul (c : K) (x : List K) (p : ℕ) (a : ℕ → K) :
    bwdEnergy (x.map (fun v => c * v)) p a = (c * star c) * bwdEnergy x p a := by
  unfold bwdEnergy
  rw [List.length_map, Finset.mul_sum]
  apply Finset.sum_congr rfl
  intro t _
  rw [bwdErr_smul, star_mul']
  ring

theorem normalSum_fwd_smul (c : K) (x : List K) (p : ℕ) (a : ℕ → K) (b : ℕ) (I : Finset ℕ) :
    ∑ t ∈ I, star (nth (x.map (fun v => c * v)) (t - 1 - b)) * fwdErr (x.map (fun v => c * v)) p a t
      = (c * star c) * ∑ t ∈ I, star (nth x (t - 1 - b)) * fwdErr x p a t := by
  rw [Finset.mul_sum]
  apply Finset.sum_congr rfl
  intro t _
  rw [fwdErr_smul, nth_map_mul_left, star_mul']
  ring

theorem normalSum_bwd_smul (c : K) (x : List K) (p : ℕ) (a : ℕ → K) (b : ℕ) (I : Finset ℕ) :
    ∑ t ∈ I, nth (x.map (fun v => c * v)) (t + 1 + b) * star (bwdErr (x.map (fun v => c * v)) p a t)
      = (c * star c) * ∑ t ∈ I, nth x (t + 1 + b) * star (bwdErr x p a t) := by
  rw [Finset.mul_sum]
  apply Finset.sum_congr rfl
  intro t _
  rw [bwdErr_smul, nth_map_mul_left, star_mul']
  ring

end LS

/-! ### MUSIC / EV -/
section Eigen
variable {K : Type} [Field K] [StarRing K]

theorem eigenDenom_music_indep (tw : List K) (cols : List (List K)) (S S' : List K)
    (nsig P nfft k : ℕ) :
    eigenDenom tw cols S' nsig P nfft false k = eigenDenom tw cols S nsig P nfft false k := by
  unfold eigenDenom
  simp only [Bool.false_eq_true, if_false]

theorem eigenDenom_ev_smul (t : K) (tw : List K) (cols : List (List K)) (S : List K)
    (nsig P nfft k : ℕ) :
    eigenDenom tw cols (S.map (fun v => t * v)) nsig P nfft true k
      = eigenDenom tw cols S nsig P nfft true k / t := by
  unfold eigenDenom
  simp only [if_true, sumR_eq_sum, nth_map_mul_left]
  rw [Finset.sum_div]
  apply Finset.sum_congr rfl
  intro j _
  rw [mul_comm t, div_mul_eq_div_div]

omit [StarRing K] in
theorem eigenReorder_map_mul (t : K) (psd : List K) (nfft : ℕ) :
    eigenReorder (psd.map (fun v => t * v)) nfft = (eigenReorder psd nfft).map (fun v => t * v) := by
  unfold eigenReorder
  simp only []
  rw [map_vec]
  apply vec_ext
  intro j _
  split_ifs <;> rw [nth_map_mul_left]

/-- the EV pseudo-spectrum is proportional to the scale of the singular values -/
theorem eigenPsd_ev_smul (t : K) (tw : List K) (cols : List (List K)) (S : List K) (nsig P nfft : ℕ) :
    eigenPsd tw cols (S.map (fun v => t * v)) nsig P nfft true
      = (eigenPsd tw cols S nsig P nfft true).map (fun v => t * v) := by
  unfold eigenPsd
  rw [← eigenReorder_map_mul, map_vec]
  congr 1
  apply vec_ext
  intro k _
  rw [eigenDenom_ev_smul, one_div_div, mul_one_div]

theorem eigenPsd_music_indep (tw : List K) (cols : List (List K)) (S S' : List K) (nsig P nfft : ℕ) :
    eigenPsd tw cols S' nsig P nfft false = eigenPsd tw cols S nsig P nfft false := by
  unfold eigenPsd
  simp only [eigenDenom_music_indep tw cols S S']

/-- the forward-backward data matrix of `c • x`: forward rows multiplied by `c`, (conjugated) backward
    rows by `conj c` -/
theorem fbMatrix_smul (c : K) (x : List K) (P : ℕ) :
    fbMatrix (x.map (fun v => c * v)) P
      = vec (2 * fbNP x.length P) (fun i =>
          if i < fbNP x.length P then vec P (fun k => c * nth x (i + P - 1 - k))
          else vec P (fun k => star c * star (nth x (i - fbNP x.length P + k + 1)))) := by
  unfold fbMatrix
  simp only [List.length_map]
  apply vec_ext
  intro i _
  split_ifs
  · apply vec_ext
    intro k _
    rw [nth_map_mul_left]
  · apply vec_ext
    intro k _
    rw [nth_map_mul_left, conj_eq_star, star_mul']

end Eigen

/-! ### signal-subspace dimension (threshold rule) -/
section Signal
variable {K : Type} [Field K] [ReOrd K]

theorem foldl_min_smul {t : K} (hgt : ∀ a b : K, reGt (t * a) (t * b) = reGt a b) (S : List K)
    (init : K) :
    (S.map (fun v => t * v)).foldl (fun m s => if reGt m s then s else m) (t * init)
      = t * S.foldl (fun m s => if reGt m s then s else m) init := by
  induction S generalizing init with
  | nil => rfl
  | cons a S ih =>
    simp only [List.map_cons, List.foldl_cons, hgt]
    by_cases h : reGt init a = true
    · simp only [h, if_true]; exact ih a
    · simp only [h]; exact ih init

theorem signalSpace_smul {t : K} (hgt : ∀ a b : K, reGt (t * a) (t * b) = reGt a b) (S : List K)
    (nsig : Option ℕ) (threshold : Option K) (critArgmin : ℕ) :
    signalSpace (S.map (fun v => t * v)) nsig threshold critArgmin
      = signalSpace S nsig threshold critArgmin := by
  unfold signalSpace
  cases nsig with
  | some n => rfl
  | none =>
    cases threshold with
    | none => rfl
    | some thr =>
      simp only [nth_map_mul_left, foldl_min_smul hgt, List.filter_map, List.length_map]
      have : ((fun s => reGt s (thr * (t * S.foldl (fun m s => if reGt m s then s else m) (nth S 0))))
            ∘ fun v => t * v)
          = fun s => reGt s (thr * S.foldl (fun m s => if reGt m s then s else m) (nth S 0)) := by
        funext s
        simp only [Function.comp]
        rw [mul_left_comm, hgt]
      rw [this]

end Signal

/-! ### the guards of the code are amplitude-blind (`ℝ`, `ℂ`, any `RCLike` scalar type) -/
section Guard
variable {F : Type} [RCLike F]

theorem re_abs2_mul {c : F} (z : F) : RCLike.re ((c * star c) * z) = ‖c‖ ^ 2 * RCLike.re z := by
  rw [BurgL.mul_star_ofReal, RCLike.re_ofReal_mul]

theorem reLe0_abs2_mul [ReOrd F] (hre : ∀ x : F, reLe0 x = true ↔ RCLike.re x ≤ 0) {c : F}
    (hc : c ≠ 0) (z : F) : reLe0 ((c * star c) * z) = reLe0 z := by
  rw [Bool.eq_iff_iff, hre, hre, re_abs2_mul]
  have hpos : 0 < ‖c‖ ^ 2 := by positivity
  constructor
  · intro h
    by_contra hz
    have := mul_pos hpos (not_le.mp hz)
    exact absurd h (not_le.mpr this)
  · intro h
    exact mul_nonpos_of_nonneg_of_nonpos hpos.le h

theorem reGt_abs_mul [ReOrd F] (hgt : ∀ a b : F, reGt a b = true ↔ RCLike.re a > RCLike.re b) {t : ℝ}
    (ht : 0 < t) (a b : F) : reGt ((t : F) * a) ((t : F) * b) = reGt a b := by
  rw [Bool.eq_iff_iff, hgt, hgt, RCLike.re_ofReal_mul, RCLike.re_ofReal_mul]
  exact mul_lt_mul_iff_right₀ ht

end Guard

/-! ### Burg order selection with the criteria of `criteria.py` (real data) -/
section BurgCrit

theorem find?_congr_mem {α : Type} (l : List α) (p q : α → Bool) (h : ∀ a ∈ l, p a = q a) :
    l.find? p = l.find? q := by
  induction l with
  | nil => rfl
  | cons a l ih =>
    rw [List.find?_cons, List.find?_cons, h a (List.mem_cons_self ..),
      ih (fun b hb => h b (List.mem_cons_of_mem _ hb))]

/-- the stopping rule of `arburg(X, order, criteria=cr)`: the criterion at order `k` (variance `ρ`)
    exceeds the one at order `k-1` (variance `ρ_{k-1}` of the same data; `ρ_0 = mean x²`) -/
noncomputable def burgCritStop (cr : Crit) (x : List ℝ) (k : ℕ) (ρ : ℝ) : Bool :=
  critStops cr x.length (burgRun x (k - 1)).rho ρ k

theorem burgOrder_crit_smul {c : ℝ} (hc : c ≠ 0) (cr : Crit) (x : List ℝ) (order : ℕ)
    (hpos : ∀ j, j ≤ order → 0 < (burgRun x j).rho) :
    burgOrder (burgCritStop cr (x.map (fun v => c * v))) (x.map (fun v => c * v)) order
      = burgOrder (burgCritStop cr x) x order := by
  unfold burgOrder
  have ht : 0 < c * star c := by
    rw [star_trivial]; exact mul_self_pos.mpr hc
  rw [find?_congr_mem (List.range order) _
    (fun k => burgCritStop cr x (k + 1) (burgRun x (k + 1)).rho)]
  intro k hk
  have hk' : k < order := List.mem_range.mp hk
  unfold burgCritStop
  rw [burgRun_smul hc, burgRun_smul hc, List.length_map, Nat.add_sub_cancel]
  exact critStops_smul cr x.length ht (hpos k (by omega)) (hpos (k + 1) (by omega)) (k + 1)

theorem arburg_crit_smul [ReOrd ℝ] (hspec : ∀ z : ℝ, reLe0 z = true ↔ z ≤ 0) {c : ℝ} (hc : c ≠ 0)
    (cr : Crit) (x : List ℝ) (order : ℕ) (useCrit : Bool)
    (hpos : ∀ j, j ≤ order → 0 < (burgRun x j).rho) :
    arburg (x.map (fun v => c * v)) order useCrit (burgCritStop cr (x.map (fun v => c * v)))
      = (arburg x order useCrit (burgCritStop cr x)).map (scaleBurg c (c * star c)) := by
  have ht : 0 < c * star c := by
    rw [star_trivial]; exact mul_self_pos.mpr hc
  have hre : ∀ z : ℝ, reLe0 ((c * star c) * z) = reLe0 z := by
    intro z
    rw [Bool.eq_iff_iff, hspec, hspec]
    constructor
    · intro h
      by_contra hz
      exact absurd h (not_le.mpr (mul_pos ht (not_le.mp hz)))
    · intro h
      exact mul_nonpos_of_nonneg_of_nonpos ht.le h
  unfold arburg
  simp only [List.length_map, burgOrder_crit_smul hc cr x order hpos, burgRun_smul hc]
  have hP : ∀ j, reLe0 (scaleBurg c (c * star c) (burgRun x (j + 1))).rho
      = reLe0 (burgRun x (j + 1)).rho := fun j => hre _
  simp only [hP]
  split_ifs <;> rfl

end BurgCrit

end SpecVerif.ScaleL
