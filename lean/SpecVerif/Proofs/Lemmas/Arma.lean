import SpecVerif.Proofs.Lemmas.Basic
import SpecVerif.Proofs.Lemmas.DFT
import SpecVerif.Model.Arma
import SpecVerif.Proofs.Lemmas.WienerKhinchin
import Mathlib.Algebra.BigOperators.Intervals
import Mathlib.Algebra.Star.BigOperators
import Mathlib.Algebra.Field.Basic
import Mathlib.Tactic.FieldSimp
import Mathlib.Tactic.Ring
/-
  Helper lemmas for C08 (`SpecVerif/Model/Arma.lean`): the DFT of the zero-padded coefficient sequence
  `polySeq` is the polynomial `1 + Σ c_j z^{j+1}` at `z = ω^k`; entry-wise descriptions of `arma2psd`,
  `foldReal`, `scalePsd`, `classPsd`; commutation of these with entry-wise scaling.
-/
namespace SpecVerif.ArmaL
open Finset SpecVerif

variable {K : Type} [Field K]

/-- the polynomial `1 + Σ_{j<p} c_j z^{j+1}` at `z = ω^k` (`A(f)`, `B(f)` of `arma2psd` at `f = k/NFFT`
    when `ω = e^{-2πi/NFFT}`) -/
def polyAt (ω : K) (c : List K) (k : ℕ) : K :=
  1 + ∑ j ∈ range c.length, nth c j * ω ^ ((j + 1) * k)

/-- total indexing commutes with an entry-wise map that fixes `0` -/
theorem nth_map_zero (f : K → K) (hf : f 0 = 0) (l : List K) (k : ℕ) :
    nth (l.map f) k = f (nth l k) := by
  unfold nth
  by_cases h : k < l.length
  · simp [List.getD_eq_getElem?_getD, h]
  · simp [List.getD_eq_getElem?_getD, h, hf]

theorem nth_map_mul_right (c : K) (l : List K) (k : ℕ) :
    nth (l.map (fun v => v * c)) k = nth l k * c :=
  nth_map_zero (fun v => v * c) (zero_mul c) l k

theorem nth_map_mul_left (c : K) (l : List K) (k : ℕ) :
    nth (l.map (fun v => c * v)) k = c * nth l k :=
  nth_map_zero (fun v => c * v) (mul_zero c) l k

theorem nth_map_div (c : K) (l : List K) (k : ℕ) :
    nth (l.map (fun v => v / c)) k = nth l k / c :=
  nth_map_zero (fun v => v / c) (zero_div c) l k

omit [Field K] in
/-- `map` over a `vec` -/
theorem map_vec (g : K → K) (n : ℕ) (f : ℕ → K) : (vec n f).map g = vec n (fun i => g (f i)) := by
  simp [vec, List.map_map, Function.comp_def]

@[simp] theorem polySeq_length (c : List K) (n : ℕ) : (polySeq c n).length = n := by
  simp [polySeq]

theorem nth_polySeq_zero (c : List K) {n : ℕ} (hn : 0 < n) : nth (polySeq c n) 0 = 1 := by
  unfold polySeq; rw [nth_vec, if_pos hn, if_pos rfl]

theorem nth_polySeq_succ (c : List K) {n j : ℕ} (hj : j + 1 < n) :
    nth (polySeq c n) (j + 1) = nth c j := by
  unfold polySeq; rw [nth_vec, if_pos hj, if_neg (Nat.succ_ne_zero j), Nat.add_sub_cancel]

/-- the `nfft`-point DFT of `[1, c_1, …, c_p, 0, …]` is the polynomial `1 + Σ c_j ω^{(j+1)k}`,
    provided no coefficient is cut off (`p < nfft`) -/
theorem dftBin_polySeq {ω : K} {n : ℕ} (hω : ω ^ n = 1) (c : List K) (hc : c.length < n) (k : ℕ) :
    dftBin (twiddles ω n) n (polySeq c n) k = polyAt ω c k := by
  have hn : 0 < n := by omega
  rw [dftBin_eq hn hω, polySeq_length, Nat.min_self]
  obtain ⟨m, rfl⟩ : ∃ m, n = m + 1 := ⟨n - 1, by omega⟩
  rw [Finset.sum_range_succ', nth_polySeq_zero c hn, Nat.zero_mul, pow_zero, mul_one, add_comm]
  unfold polyAt
  congr 1
  have h1 : ∀ j ∈ range m, nth (polySeq c (m + 1)) (j + 1) * ω ^ ((j + 1) * k)
      = nth c j * ω ^ ((j + 1) * k) := by
    intro j hj
    rw [nth_polySeq_succ c (by have := mem_range.mp hj; omega)]
  rw [Finset.sum_congr rfl h1]
  symm
  apply Finset.sum_subset
  · intro j hj
    have := mem_range.mp hj
    exact mem_range.mpr (by omega)
  · intro j _ hj
    rw [nth_of_ge c j (by simpa using hj), zero_mul]

theorem arma2psd_length (tw : List K) [StarRing K] (A B : Option (List K)) (rho T : K) (n : ℕ) :
    (arma2psd tw A B rho T n).length = n := by
  simp [arma2psd]

/-- `foldReal` commutes with entry-wise division -/
theorem foldReal_map_div (c : K) (raw : List K) (n : ℕ) :
    foldReal (raw.map (fun v => v / c)) n = (foldReal raw n).map (fun v => v / c) := by
  unfold foldReal
  rw [map_vec]
  apply vec_ext
  intro i _
  rw [nth_map_div, mul_div_assoc]

/-- `foldReal` commutes with entry-wise multiplication -/
theorem foldReal_map_mul (c : K) (raw : List K) (n : ℕ) :
    foldReal (raw.map (fun v => c * v)) n = (foldReal raw n).map (fun v => c * v) := by
  unfold foldReal
  rw [map_vec]
  apply vec_ext
  intro i _
  rw [nth_map_mul_left]; ring

theorem foldReal_length (raw : List K) (n : ℕ) :
    (foldReal raw n).length = if n % 2 = 0 then n / 2 + 1 else (n + 1) / 2 := by
  simp [foldReal]

/-- with scaling off `classPsd` is the raw estimate (folded for real data) -/
theorem classPsd_false (raw : List K) (isReal : Bool) (n : ℕ) (twoPi fs : K) :
    classPsd raw isReal n false twoPi fs = if isReal then foldReal raw n else raw := by
  simp [classPsd, scalePsd]

theorem classPsd_true (raw : List K) (isReal : Bool) (n : ℕ) (twoPi fs : K) :
    classPsd raw isReal n true twoPi fs
      = (if isReal then foldReal raw n else raw).map (fun v => v * (twoPi / (fs / (n : K)))) := by
  simp [classPsd, scalePsd]

/-! ### minimum variance: the ψ sequence -/

section Minvar
variable [StarRing K]

/-- lag `k` of Musicus' sequence: `Σ_{i<m-k} (m-k-2i)·conj(a_i)·a_{i+k} / P`, `m = len a`
    (the integer weight `m-k-2i` written with natural-number casts exactly as in the model) -/
def minvarLag (a : List K) (P : K) (k : ℕ) : K :=
  (∑ i ∈ range (a.length - k),
    (if 2 * i ≤ a.length - k then (((a.length - k - 2 * i : ℕ) : K))
      else -(((2 * i - (a.length - k) : ℕ) : K))) * star (nth a i) * nth a (i + k)) / P

@[simp] theorem minvarPsi_length (a : List K) (P : K) (n : ℕ) : (minvarPsi a P n).length = n := by
  simp [minvarPsi]

/-- entries `0 ≤ j < m` of ψ are the lags -/
theorem nth_minvarPsi_low (a : List K) (P : K) {n j : ℕ} (hj : j < a.length) (hjn : j < n) :
    nth (minvarPsi a P n) j = minvarLag a P j := by
  unfold minvarPsi minvarLag
  simp only [nth_vec, if_pos hjn, if_pos hj, sumR_eq_sum, conj_eq_star]

/-- entries `n-j`, `0 < j < m`, are the conjugated lags when the halves do not overlap -/
theorem nth_minvarPsi_high (a : List K) (P : K) {n j : ℕ} (h0 : 0 < j) (hj : j < a.length)
    (hno : a.length ≤ n - j) : nth (minvarPsi a P n) (n - j) = star (minvarLag a P j) := by
  have hjn : j ≤ n := by omega
  have e : n - (n - j) = j := by omega
  unfold minvarPsi minvarLag
  simp only [nth_vec, sumR_eq_sum, conj_eq_star, e]
  rw [if_pos (by omega), if_neg (by omega), if_pos ⟨h0, hj⟩]

/-- the middle of ψ is zero padding -/
theorem nth_minvarPsi_mid (a : List K) (P : K) {n j : ℕ} (h1 : a.length ≤ j)
    (h2 : a.length ≤ n - j) : nth (minvarPsi a P n) j = 0 := by
  unfold minvarPsi
  simp only [nth_vec]
  split_ifs with h3 h4 h5
  · omega
  · omega
  · rfl
  · rfl

/-- lag 0 (`Σ (m-2i)|a_i|²/P`) is self-adjoint for a self-adjoint `P` -/
theorem star_minvarLag_zero (a : List K) {P : K} (hP : star P = P) :
    star (minvarLag a P 0) = minvarLag a P 0 := by
  unfold minvarLag
  rw [star_div₀, hP, star_sum]
  congr 1
  apply Finset.sum_congr rfl
  intro i _
  rw [star_mul', star_mul', star_star, Nat.add_zero]
  have : star (if 2 * i ≤ a.length - 0 then (((a.length - 0 - 2 * i : ℕ) : K))
      else -(((2 * i - (a.length - 0) : ℕ) : K)))
      = (if 2 * i ≤ a.length - 0 then (((a.length - 0 - 2 * i : ℕ) : K))
      else -(((2 * i - (a.length - 0) : ℕ) : K))) := by
    split_ifs
    · rw [star_natCast]
    · rw [star_neg, star_natCast]
  rw [this]; ring

/-- the DFT of a Hermitian-symmetric sequence (`x_0` self-adjoint, `x_{n-j} = conj x_j`) is
    self-adjoint ("real") in every bin -/
theorem dft_selfadjoint_of_hermitian {ω : K} {n : ℕ} (hω : ω ^ n = 1) (hstar : star ω = ω⁻¹)
    (x : ℕ → K) (h0 : star (x 0) = x 0) (hx : ∀ j, 0 < j → j < n → x (n - j) = star (x j)) (k : ℕ) :
    star (∑ j ∈ range n, x j * ω ^ (j * k)) = ∑ j ∈ range n, x j * ω ^ (j * k) := by
  rcases Nat.eq_zero_or_pos n with rfl | hn
  · simp
  have hω0 : ω ≠ 0 := by
    rintro rfl
    rw [zero_pow hn.ne'] at hω
    exact zero_ne_one hω
  obtain ⟨m, rfl⟩ : ∃ m, n = m + 1 := ⟨n - 1, by omega⟩
  rw [Finset.sum_range_succ', star_add, star_sum, Nat.zero_mul, pow_zero, mul_one, h0]
  congr 1
  rw [← Finset.sum_range_reflect]
  apply Finset.sum_congr rfl
  intro j hj
  have hjm : j < m := mem_range.mp hj
  have e : m - 1 - j + 1 = m + 1 - (j + 1) := by omega
  rw [e, hx (j + 1) (by omega) (by omega), pow_sub_mul_eq_inv_pow hω0 hω (by omega), star_mul',
    star_pow, star_star, star_inv₀, hstar, inv_inv]

/-- ψ is Hermitian-symmetric when its two halves do not overlap (`2m ≤ NFFT+1`) -/
theorem minvarPsi_herm (a : List K) (P : K) {n : ℕ} (hno : 2 * a.length ≤ n + 1) {j : ℕ}
    (h0 : 0 < j) (hj : j < n) :
    nth (minvarPsi a P n) (n - j) = star (nth (minvarPsi a P n) j) := by
  by_cases h1 : j < a.length
  · rw [nth_minvarPsi_high a P h0 h1 (by omega), nth_minvarPsi_low a P h1 hj]
  · by_cases h2 : n - j < a.length
    · have e : j = n - (n - j) := by omega
      rw [nth_minvarPsi_low a P h2 (by omega)]
      conv_rhs => rw [e]
      rw [nth_minvarPsi_high a P (by omega) h2 (by omega), star_star]
    · rw [nth_minvarPsi_mid a P (j := n - j) (by omega) (by omega),
        nth_minvarPsi_mid a P (j := j) (by omega) (by omega), star_zero]

end Minvar

end SpecVerif.ArmaL
