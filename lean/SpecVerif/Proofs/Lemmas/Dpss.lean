import SpecVerif.Proofs.Lemmas.Basic
import SpecVerif.Proofs.Lemmas.LinPred
import SpecVerif.Proofs.Lemmas.WienerKhinchin
import SpecVerif.Model.Dpss
import Mathlib.Analysis.Real.Sqrt
import Mathlib.Analysis.SpecialFunctions.Trigonometric.Basic
import Mathlib.Tactic.Linarith
import Mathlib.Tactic.NormNum
import Mathlib.Tactic.Positivity
import Mathlib.Tactic.FieldSimp
/-
  Helper lemmas for C18 (`dpss` glue): entries of the scaled / flipped taper, invariance of the
  autocovariance under negation, the sinc concentration kernel and the "sum by diagonals" identity
  `Σ_d acvs_d · r_d = tᵀ K t`.  Everything at `R := ℝ` (instance `instRealFnReal`).
-/
namespace SpecVerif.DpssL
open Finset SpecVerif

/-! ### list plumbing -/

theorem getD_vec (N : ℕ) (f : ℕ → ℝ) (n : ℕ) :
    (vec N f).getD n 0 = if n < N then f n else 0 := nth_vec N f n

theorem getD_map_neg (t : List ℝ) (n : ℕ) :
    (t.map (fun v => -v)).getD n 0 = -(t.getD n 0) := by
  by_cases h : n < t.length
  · simp [List.getD_eq_getElem?_getD, h]
  · simp [List.getD_eq_getElem?_getD, h]

/-- the column of the C routine rescaled by `1/√N` (before the sign flip) -/
noncomputable def scaled (N : ℕ) (raw : List ℝ) : List ℝ :=
  vec N (fun n => raw.getD n 0 / Real.sqrt (N : ℝ))

theorem scaled_length (N : ℕ) (raw : List ℝ) : (scaled N raw).length = N := by
  simp [scaled]

theorem getD_scaled {N : ℕ} (raw : List ℝ) {n : ℕ} (h : n < N) :
    (scaled N raw).getD n 0 = raw.getD n 0 / Real.sqrt (N : ℝ) := by
  rw [scaled, getD_vec, if_pos h]

/-! ### the largest magnitude and the first significant sample -/

/-- running maximum of magnitudes started at `m` -/
theorem absMax_eq_foldl (t : List ℝ) : absMax t = t.foldl (fun m v => max m |v|) 0 := by
  unfold absMax
  congr 1
  funext m v
  simp only [RealFn.lt, RealFn.abs]
  by_cases h : m < |v|
  · simp [h, max_eq_right h.le]
  · simp [h, max_eq_left (not_lt.mp h)]

theorem le_foldl_max (t : List ℝ) (m : ℝ) : m ≤ t.foldl (fun m v => max m |v|) m := by
  induction t generalizing m with
  | nil => simp
  | cons a t ih => exact le_trans (le_max_left m |a|) (ih (max m |a|))

theorem mem_le_foldl_max (t : List ℝ) (m : ℝ) {v : ℝ} (hv : v ∈ t) :
    |v| ≤ t.foldl (fun m v => max m |v|) m := by
  induction t generalizing m with
  | nil => simp at hv
  | cons a t ih =>
    rcases List.mem_cons.mp hv with rfl | h
    · exact le_trans (le_max_right m |v|) (le_foldl_max t _)
    · exact ih _ h

theorem foldl_max_attained (t : List ℝ) (m : ℝ) :
    t.foldl (fun m v => max m |v|) m = m ∨ ∃ v ∈ t, t.foldl (fun m v => max m |v|) m = |v| := by
  induction t generalizing m with
  | nil => simp
  | cons a t ih =>
    rcases ih (max m |a|) with h | ⟨v, hv, h⟩
    · rcases max_choice m |a| with h' | h'
      · left; rw [List.foldl_cons, h, h']
      · right; exact ⟨a, List.mem_cons_self, by rw [List.foldl_cons, h, h']⟩
    · right; exact ⟨v, List.mem_cons_of_mem _ hv, h⟩

/-- `absMax` is non-negative -/
theorem absMax_nonneg (t : List ℝ) : 0 ≤ absMax t := by
  rw [absMax_eq_foldl]; exact le_foldl_max t 0

/-- `absMax` bounds every magnitude -/
theorem abs_le_absMax {t : List ℝ} {v : ℝ} (hv : v ∈ t) : |v| ≤ absMax t := by
  rw [absMax_eq_foldl]; exact mem_le_foldl_max t 0 hv

/-- `absMax` is `0` or attained -/
theorem absMax_attained (t : List ℝ) : absMax t = 0 ∨ ∃ v ∈ t, absMax t = |v| := by
  rw [absMax_eq_foldl]; exact foldl_max_attained t 0

/-- `absMax` does not see a global sign -/
theorem absMax_map_neg (t : List ℝ) : absMax (t.map (fun v => -v)) = absMax t := by
  rw [absMax_eq_foldl, absMax_eq_foldl, List.foldl_map]
  simp only [abs_neg]

theorem firstSignificant_eq (t : List ℝ) :
    firstSignificant t = (t.find? (fun v => decide (absMax t / 100 < |v|))).getD 0 := by
  simp [firstSignificant, RealFn.lt, RealFn.abs]

/-- negating the list negates its first significant sample (the same position is found) -/
theorem firstSignificant_map_neg (t : List ℝ) :
    firstSignificant (t.map (fun v => -v)) = -firstSignificant t := by
  rw [firstSignificant_eq, firstSignificant_eq, absMax_map_neg, List.find?_map]
  have hp : ((fun v : ℝ => decide (absMax t / 100 < |v|)) ∘ fun v => -v)
      = fun v : ℝ => decide (absMax t / 100 < |v|) := by
    funext v; simp [Function.comp]
  rw [hp]
  cases t.find? (fun v => decide (absMax t / 100 < |v|)) <;> simp

/-- a non-zero first significant sample sits at some position `k`, exceeds 1% of the largest magnitude, and every
earlier sample is negligible -/
theorem firstSignificant_spec {t : List ℝ} (h : firstSignificant t ≠ 0) :
    ∃ k, k < t.length ∧ t.getD k 0 = firstSignificant t ∧ absMax t / 100 < |firstSignificant t| ∧
      ∀ j, j < k → |t.getD j 0| ≤ absMax t / 100 := by
  rw [firstSignificant_eq] at h ⊢
  cases hf : t.find? (fun v => decide (absMax t / 100 < |v|)) with
  | none => rw [hf] at h; simp at h
  | some b =>
    obtain ⟨hb, k, hk, hkb, hlt⟩ := List.find?_eq_some_iff_getElem.mp hf
    refine ⟨k, hk, ?_, ?_, ?_⟩
    · simp [List.getD_eq_getElem?_getD, hk, hkb]
    · simpa using hb
    · intro j hj
      have := hlt j hj
      have hj' : j < t.length := lt_trans hj hk
      simpa [List.getD_eq_getElem?_getD, hj'] using this

theorem firstSignificant_mem {t : List ℝ} (h : firstSignificant t ≠ 0) : firstSignificant t ∈ t := by
  obtain ⟨k, hk, hkb, _⟩ := firstSignificant_spec h
  rw [← hkb, List.getD_eq_getElem?_getD, List.getElem?_eq_getElem hk]
  simp

/-- the first significant sample is non-zero exactly when the list has a non-zero sample -/
theorem firstSignificant_ne_zero_iff (t : List ℝ) : firstSignificant t ≠ 0 ↔ ∃ v ∈ t, v ≠ 0 := by
  constructor
  · intro h; exact ⟨_, firstSignificant_mem h, h⟩
  · rintro ⟨v, hv, hv0⟩
    have hpos : 0 < absMax t := lt_of_lt_of_le (abs_pos.mpr hv0) (abs_le_absMax hv)
    rcases absMax_attained t with h0 | ⟨w, hw, hwe⟩
    · exact absurd h0 hpos.ne'
    · rw [firstSignificant_eq]
      cases hf : t.find? (fun v => decide (absMax t / 100 < |v|)) with
      | none =>
        have := List.find?_eq_none.mp hf w hw
        simp only [decide_eq_true_eq, not_lt] at this
        linarith
      | some b =>
        have hb := List.find?_some hf
        simp only [decide_eq_true_eq] at hb
        simp only [Option.getD_some]
        intro hb0
        rw [hb0, abs_zero] at hb
        linarith

/-- even-index taper: flipped exactly when the reported sum is negative -/
theorem dpssTaper_even {N i : ℕ} (raw : List ℝ) (ts : ℝ) (hi : i % 2 = 0) :
    dpssTaper N i raw ts
      = if ts < 0 then (scaled N raw).map (fun v => -v) else scaled N raw := by
  simp [dpssTaper, scaled, hi, RealFn.lt, RealFn.sqrt]

/-- odd-index taper: flipped exactly when the first significant scaled sample (the first one above 1% of the largest
magnitude) is negative -/
theorem dpssTaper_odd {N i : ℕ} (raw : List ℝ) (ts : ℝ) (hi : i % 2 ≠ 0) :
    dpssTaper N i raw ts
      = if firstSignificant (scaled N raw) < 0 then (scaled N raw).map (fun v => -v) else scaled N raw := by
  simp [dpssTaper, scaled, hi, RealFn.lt, RealFn.sqrt]

/-- odd-index taper: the first significant sample of the output is the magnitude of the first significant scaled
sample -/
theorem firstSignificant_dpssTaper_odd {N i : ℕ} (raw : List ℝ) (ts : ℝ) (hi : i % 2 ≠ 0) :
    firstSignificant (dpssTaper N i raw ts) = |firstSignificant (scaled N raw)| := by
  rw [dpssTaper_odd raw ts hi]
  split
  · next h => rw [firstSignificant_map_neg, abs_of_neg h]
  · next h => rw [abs_of_nonneg (not_lt.mp h)]

/-- a non-zero raw sample gives a non-zero scaled sample -/
theorem scaled_exists_ne_zero {N : ℕ} (raw : List ℝ) (h : ∃ n, n < N ∧ raw.getD n 0 ≠ 0) :
    ∃ v ∈ scaled N raw, v ≠ 0 := by
  obtain ⟨n, hn, hne⟩ := h
  have hs : Real.sqrt (N : ℝ) ≠ 0 :=
    (Real.sqrt_pos.mpr (by exact_mod_cast Nat.lt_of_le_of_lt (Nat.zero_le n) hn)).ne'
  refine ⟨(scaled N raw).getD n 0, ?_, ?_⟩
  · have hl : n < (scaled N raw).length := by rw [scaled_length]; exact hn
    rw [List.getD_eq_getElem?_getD, List.getElem?_eq_getElem hl]
    simp
  · rw [getD_scaled raw hn]; exact div_ne_zero hne hs

/-- membership in a list read through `getD` -/
theorem exists_getD_of_mem {t : List ℝ} {v : ℝ} (hv : v ∈ t) : ∃ m, m < t.length ∧ t.getD m 0 = v := by
  obtain ⟨m, hm, rfl⟩ := List.getElem_of_mem hv
  exact ⟨m, hm, by simp [List.getD_eq_getElem?_getD, hm]⟩

theorem getD_mem_or_zero (t : List ℝ) (n : ℕ) : t.getD n 0 ∈ t ∨ t.getD n 0 = 0 := by
  by_cases h : n < t.length
  · left; rw [List.getD_eq_getElem?_getD, List.getElem?_eq_getElem h]; simp
  · right; simp [List.getD_eq_getElem?_getD, not_lt.mp h]

/-- every sample read with zero padding is bounded by `absMax` -/
theorem abs_getD_le_absMax (t : List ℝ) (n : ℕ) : |t.getD n 0| ≤ absMax t := by
  rcases getD_mem_or_zero t n with h | h
  · exact abs_le_absMax h
  · rw [h, abs_zero]; exact absMax_nonneg t

/-- the output taper is the scaled column or its negation -/
theorem dpssTaper_eq_or (N i : ℕ) (raw : List ℝ) (ts : ℝ) :
    dpssTaper N i raw ts = scaled N raw ∨
      dpssTaper N i raw ts = (scaled N raw).map (fun v => -v) := by
  by_cases hi : i % 2 = 0
  · rw [dpssTaper_even raw ts hi]; split <;> simp
  · rw [dpssTaper_odd raw ts hi]; split <;> simp

theorem dpssTaper_length (N i : ℕ) (raw : List ℝ) (ts : ℝ) :
    (dpssTaper N i raw ts).length = N := by
  rcases dpssTaper_eq_or N i raw ts with h | h <;> rw [h] <;> simp [scaled_length]

/-- entries of the output taper: a global sign `σ = ±1` times `raw[n]/√N` -/
theorem dpssTaper_getD (N i : ℕ) (raw : List ℝ) (ts : ℝ) :
    ∃ σ : ℝ, (σ = 1 ∨ σ = -1) ∧
      ∀ n, n < N → (dpssTaper N i raw ts).getD n 0 = σ * (raw.getD n 0 / Real.sqrt (N : ℝ)) := by
  rcases dpssTaper_eq_or N i raw ts with h | h
  · refine ⟨1, Or.inl rfl, fun n hn => ?_⟩
    rw [h, getD_scaled raw hn, one_mul]
  · refine ⟨-1, Or.inr rfl, fun n hn => ?_⟩
    rw [h, getD_map_neg, getD_scaled raw hn]; ring

/-! ### the glue's output lists -/

theorem glue_tapers_length (N : ℕ) (NW : ℝ) (raws : List (List ℝ)) (tapsum : List ℝ) :
    (dpssGlue N NW raws tapsum).1.length = raws.length := by
  simp [dpssGlue]

theorem glue_eigvals_length (N : ℕ) (NW : ℝ) (raws : List (List ℝ)) (tapsum : List ℝ) :
    (dpssGlue N NW raws tapsum).2.length = raws.length := by
  simp [dpssGlue]

theorem glue_taper_getD (N : ℕ) (NW : ℝ) (raws : List (List ℝ)) (tapsum : List ℝ) {i : ℕ}
    (hi : i < raws.length) :
    (dpssGlue N NW raws tapsum).1.getD i [] = dpssTaper N i (raws.getD i []) (tapsum.getD i 0) := by
  simp [dpssGlue, List.getD_eq_getElem?_getD, List.getElem?_map, List.getElem?_range hi]

theorem glue_eigval_getD (N : ℕ) (NW : ℝ) (raws : List (List ℝ)) (tapsum : List ℝ) {i : ℕ}
    (hi : i < raws.length) :
    (dpssGlue N NW raws tapsum).2.getD i 0
      = dpssEigval N (NW / (N : ℝ)) ((dpssGlue N NW raws tapsum).1.getD i []) := by
  simp [dpssGlue, List.getD_eq_getElem?_getD, List.getElem?_map, List.getElem?_range hi]

/-! ### autocovariance -/

theorem acvs_eq (t : List ℝ) (d : ℕ) :
    acvs t d = ∑ n ∈ range (t.length - d), t.getD n 0 * t.getD (n + d) 0 := by
  simp [acvs]

theorem acvs_map_neg (t : List ℝ) (d : ℕ) : acvs (t.map (fun v => -v)) d = acvs t d := by
  rw [acvs_eq, acvs_eq, List.length_map]
  apply Finset.sum_congr rfl
  intro n _
  rw [getD_map_neg, getD_map_neg]; ring

theorem dpssEigval_eq (N : ℕ) (W : ℝ) (t : List ℝ) :
    dpssEigval N W t = ∑ d ∈ range N, acvs t d * sincSeq W d := by
  simp [dpssEigval]

theorem dpssEigval_map_neg (N : ℕ) (W : ℝ) (t : List ℝ) :
    dpssEigval N W (t.map (fun v => -v)) = dpssEigval N W t := by
  rw [dpssEigval_eq, dpssEigval_eq]
  apply Finset.sum_congr rfl
  intro d _
  rw [acvs_map_neg]

/-! ### the sinc concentration kernel -/

/-- `K[n,m] = sin(2πW(n-m)) / (π(n-m))`, `2W` on the diagonal -/
noncomputable def sincKernel (W : ℝ) (n m : ℕ) : ℝ :=
  if n = m then 2 * W
  else Real.sin (2 * Real.pi * W * ((n : ℝ) - (m : ℝ))) / (Real.pi * ((n : ℝ) - (m : ℝ)))

theorem sincKernel_diag (W : ℝ) (n : ℕ) : sincKernel W n n = 2 * W := by
  simp [sincKernel]

theorem sincKernel_add_left (W : ℝ) (n : ℕ) {m : ℕ} (hm : 1 ≤ m) :
    sincKernel W (n + m) n = Real.sin (2 * Real.pi * W * (m : ℝ)) / (Real.pi * (m : ℝ)) := by
  have hne : n + m ≠ n := by omega
  rw [sincKernel, if_neg hne]
  have : ((n + m : ℕ) : ℝ) - (n : ℝ) = (m : ℝ) := by push_cast; ring
  rw [this]

theorem sincKernel_add_right (W : ℝ) (n : ℕ) {m : ℕ} (hm : 1 ≤ m) :
    sincKernel W n (n + m) = Real.sin (2 * Real.pi * W * (m : ℝ)) / (Real.pi * (m : ℝ)) := by
  have hne : n ≠ n + m := by omega
  rw [sincKernel, if_neg hne]
  have : (n : ℝ) - ((n + m : ℕ) : ℝ) = -(m : ℝ) := by push_cast; ring
  rw [this, mul_neg, mul_neg, Real.sin_neg, neg_div_neg_eq]

/-- the kernel is symmetric -/
theorem sincKernel_symm (W : ℝ) (n m : ℕ) : sincKernel W n m = sincKernel W m n := by
  rcases lt_trichotomy n m with h | h | h
  · obtain ⟨d, rfl⟩ : ∃ d, m = n + d := ⟨m - n, by omega⟩
    rw [sincKernel_add_right W n (by omega), sincKernel_add_left W n (by omega)]
  · rw [h]
  · obtain ⟨d, rfl⟩ : ∃ d, n = m + d := ⟨n - m, by omega⟩
    rw [sincKernel_add_right W m (by omega), sincKernel_add_left W m (by omega)]

theorem sincSeq_zero (W : ℝ) : sincSeq W 0 = 2 * W := by
  simp [sincSeq]

/-- `r_d = 4W·sinc(2Wd) = 2·sin(2πWd)/(πd)` for `d ≥ 1` (also at `W = 0`, where both sides vanish) -/
theorem sincSeq_pos (W : ℝ) {d : ℕ} (hd : 1 ≤ d) :
    sincSeq W d = 2 * (Real.sin (2 * Real.pi * W * (d : ℝ)) / (Real.pi * (d : ℝ))) := by
  have hd0 : d ≠ 0 := by omega
  have hdR : (d : ℝ) ≠ 0 := by exact_mod_cast hd0
  have hsinc : ∀ x : ℝ, RealFn.sinc x = if x = 0 then 1 else Real.sin (Real.pi * x) / (Real.pi * x) :=
    fun _ => rfl
  rw [sincSeq, if_neg hd0, hsinc]
  push_cast
  by_cases hW : W = 0
  · subst hW; simp
  · have hx : 2 * W * (d : ℝ) ≠ 0 := by positivity
    rw [if_neg hx]
    have harg : Real.pi * (2 * W * (d : ℝ)) = 2 * Real.pi * W * (d : ℝ) := by ring
    rw [harg]
    have hpi : Real.pi ≠ 0 := Real.pi_ne_zero
    field_simp
    ring

/-! ### the heart: `Σ_d acvs_d · r_d = tᵀ K t` -/

theorem eigval_eq_quadform (N : ℕ) (W : ℝ) (t : List ℝ) (ht : t.length = N) :
    dpssEigval N W t
      = ∑ n ∈ range N, ∑ m ∈ range N, t.getD n 0 * sincKernel W n m * t.getD m 0 := by
  rcases Nat.eq_zero_or_pos N with h0 | hpos
  · subst h0; simp [dpssEigval_eq]
  rw [sum_square_by_diag N (fun n m => t.getD n 0 * sincKernel W n m * t.getD m 0),
    dpssEigval_eq, Finset.sum_range_eq_add_Ico _ hpos]
  congr 1
  · rw [acvs_eq, sincSeq_zero, ht, Nat.sub_zero, Finset.sum_mul]
    apply Finset.sum_congr rfl
    intro n _
    rw [sincKernel_diag, Nat.add_zero]; ring
  · apply Finset.sum_congr rfl
    intro d hd
    have hd1 : 1 ≤ d := (Finset.mem_Ico.mp hd).1
    rw [acvs_eq, sincSeq_pos W hd1, ht, Finset.sum_mul]
    apply Finset.sum_congr rfl
    intro n _
    rw [sincKernel_add_left W n hd1, sincKernel_add_right W n hd1]; ring

/-! ### sums over the output taper -/

theorem sqrt_natCast_mul_self (N : ℕ) : Real.sqrt (N : ℝ) * Real.sqrt (N : ℝ) = (N : ℝ) :=
  Real.mul_self_sqrt (Nat.cast_nonneg N)

theorem sqrt_natCast_pos {N : ℕ} (hN : 0 < N) : 0 < Real.sqrt (N : ℝ) :=
  Real.sqrt_pos.mpr (by exact_mod_cast hN)

/-- `Σ_n scaled[n] = (Σ_n raw[n]) / √N` -/
theorem sum_scaled (N : ℕ) (raw : List ℝ) :
    ∑ n ∈ range N, (scaled N raw).getD n 0 = (∑ n ∈ range N, raw.getD n 0) / Real.sqrt (N : ℝ) := by
  rw [Finset.sum_div]
  apply Finset.sum_congr rfl
  intro n hn
  rw [getD_scaled raw (Finset.mem_range.mp hn)]

theorem sum_map_neg (N : ℕ) (t : List ℝ) :
    ∑ n ∈ range N, (t.map (fun v => -v)).getD n 0 = -∑ n ∈ range N, t.getD n 0 := by
  rw [← Finset.sum_neg_distrib]
  apply Finset.sum_congr rfl
  intro n _
  rw [getD_map_neg]

/-- inner product of two output tapers in terms of the raw columns -/
theorem inner_dpssTaper {N : ℕ} (hN : 0 < N) (i j : ℕ) (rawi rawj : List ℝ) (tsi tsj : ℝ) :
    ∃ σ : ℝ, (σ = 1 ∨ σ = -1) ∧
      ∑ n ∈ range N, (dpssTaper N i rawi tsi).getD n 0 * (dpssTaper N j rawj tsj).getD n 0
        = σ * ((∑ n ∈ range N, rawi.getD n 0 * rawj.getD n 0) / (N : ℝ)) := by
  obtain ⟨σi, hσi, hi⟩ := dpssTaper_getD N i rawi tsi
  obtain ⟨σj, hσj, hj⟩ := dpssTaper_getD N j rawj tsj
  refine ⟨σi * σj, ?_, ?_⟩
  · rcases hσi with h | h <;> rcases hσj with h' | h' <;> subst h <;> subst h' <;> norm_num
  · rw [Finset.sum_div, Finset.mul_sum]
    apply Finset.sum_congr rfl
    intro n hn
    have hn' := Finset.mem_range.mp hn
    rw [hi n hn', hj n hn']
    have hs := sqrt_natCast_mul_self N
    have hpos := sqrt_natCast_pos hN
    calc σi * (rawi.getD n 0 / Real.sqrt (N : ℝ)) * (σj * (rawj.getD n 0 / Real.sqrt (N : ℝ)))
        = (σi * σj) * (rawi.getD n 0 * rawj.getD n 0) / (Real.sqrt (N : ℝ) * Real.sqrt (N : ℝ)) := by
          field_simp
      _ = σi * σj * (rawi.getD n 0 * rawj.getD n 0 / (N : ℝ)) := by rw [hs, mul_div_assoc]

/-- squared norm of an output taper -/
theorem normsq_dpssTaper {N : ℕ} (hN : 0 < N) (i : ℕ) (raw : List ℝ) (ts : ℝ) :
    ∑ n ∈ range N, (dpssTaper N i raw ts).getD n 0 * (dpssTaper N i raw ts).getD n 0
      = (∑ n ∈ range N, raw.getD n 0 * raw.getD n 0) / (N : ℝ) := by
  obtain ⟨σ, hσ, hi⟩ := dpssTaper_getD N i raw ts
  have hσ2 : σ * σ = 1 := by rcases hσ with h | h <;> subst h <;> norm_num
  rw [Finset.sum_div]
  apply Finset.sum_congr rfl
  intro n hn
  rw [hi n (Finset.mem_range.mp hn)]
  have hs := sqrt_natCast_mul_self N
  have hpos := sqrt_natCast_pos hN
  calc σ * (raw.getD n 0 / Real.sqrt (N : ℝ)) * (σ * (raw.getD n 0 / Real.sqrt (N : ℝ)))
      = (σ * σ) * (raw.getD n 0 * raw.getD n 0) / (Real.sqrt (N : ℝ) * Real.sqrt (N : ℝ)) := by
        field_simp
    _ = raw.getD n 0 * raw.getD n 0 / (N : ℝ) := by rw [hσ2, hs, one_mul]

/-- an eigenvector relation `K raw = μ raw` of the raw column passes to the output taper -/
theorem eigvec_dpssTaper (N i : ℕ) (W μ : ℝ) (raw : List ℝ) (ts : ℝ)
    (hev : ∀ n, n < N → ∑ m ∈ range N, sincKernel W n m * raw.getD m 0 = μ * raw.getD n 0) :
    ∀ n, n < N → ∑ m ∈ range N, sincKernel W n m * (dpssTaper N i raw ts).getD m 0
      = μ * (dpssTaper N i raw ts).getD n 0 := by
  obtain ⟨σ, _, hi⟩ := dpssTaper_getD N i raw ts
  intro n hn
  have h1 : ∑ m ∈ range N, sincKernel W n m * (dpssTaper N i raw ts).getD m 0
      = (σ / Real.sqrt (N : ℝ)) * ∑ m ∈ range N, sincKernel W n m * raw.getD m 0 := by
    rw [Finset.mul_sum]
    apply Finset.sum_congr rfl
    intro m hm
    rw [hi m (Finset.mem_range.mp hm)]; ring
  rw [h1, hev n hn, hi n hn]; ring

/-- quadratic form of a unit eigenvector is its eigenvalue -/
theorem quadform_of_eigvec (N : ℕ) (W μ : ℝ) (t : List ℝ)
    (hev : ∀ n, n < N → ∑ m ∈ range N, sincKernel W n m * t.getD m 0 = μ * t.getD n 0)
    (hunit : ∑ n ∈ range N, t.getD n 0 * t.getD n 0 = 1) :
    ∑ n ∈ range N, ∑ m ∈ range N, t.getD n 0 * sincKernel W n m * t.getD m 0 = μ := by
  have h1 : ∀ n ∈ range N, ∑ m ∈ range N, t.getD n 0 * sincKernel W n m * t.getD m 0
      = μ * (t.getD n 0 * t.getD n 0) := by
    intro n hn
    have : ∑ m ∈ range N, t.getD n 0 * sincKernel W n m * t.getD m 0
        = t.getD n 0 * ∑ m ∈ range N, sincKernel W n m * t.getD m 0 := by
      rw [Finset.mul_sum]
      apply Finset.sum_congr rfl
      intro m _; ring
    rw [this, hev n (Finset.mem_range.mp hn)]; ring
  rw [Finset.sum_congr rfl h1, ← Finset.mul_sum, hunit, mul_one]

end SpecVerif.DpssL
